---------------------------- MODULE MC_LlcpPdu ----------------------------
(* Exhaustive evaluation of the LlcpPdu theorems over small field domains.
   TLC explores no interleavings here.  The state graph has depth 2: an initial state
   names a partition of the domain (so that 16 workers share the evaluation), its
   successors are the PDU values (Mode "pdu") or byte strings (Mode "bytes") of that
   partition - one state per value - and the theorems are invariants of those states. *)
EXTENDS LlcpPdu, FiniteSets, TLC

CONSTANTS Mode,        \* "pdu" | "bytes"
          Saps,        \* e.g. {0, 1, 4, 32, 63}
          Seqn,        \* N(S)/N(R)/V(x) values, e.g. {0, 1, 15}
          Miuxs,       \* {0, 1, 2047}
          Rws,         \* 0..15
          Sym,         \* payload alphabet, e.g. {0, 65, 255}
          Alpha,       \* byte-string alphabet for mode "bytes"
          MemSapCodes, \* dsap * 64 + ssap of the PDUs used as members of aggregates
          FrmrSapCodes \* dsap * 64 + ssap of the FRMR PDUs (3^6 sequence-number combinations each)

VARIABLE x

SeqsUpTo2(S) == {<<>>} \cup {<<a>> : a \in S} \cup {<<a, c>> : a, c \in S}
Names  == {<<>>, <<65>>, <<65, 66>>}                \* service names of length 0..2
Opts   == {Absent} \cup {Some(v) : v \in Names}
Pay    == SeqsUpTo2(Sym)
SapPairs == Saps \X Saps

\* ---- PDU values, per type, over a set SP of <<dsap, ssap>> pairs -------------------------
PSymm == {[t |-> "SYMM", dsap |-> 0, ssap |-> 0]}
PPax  == {[t |-> "PAX", dsap |-> 0, ssap |-> 0, ver |-> v, miux |-> m, wks |-> w, lto |-> l, opt |-> o] :
            v \in {-1, 0, 19}, m \in {-1} \cup Miuxs, w \in {-1, 0, 19, 65535}, l \in {-1, 0, 255}, o \in {-1, 0, 3, 7}}
PUi(SP)   == {[t |-> "UI", dsap |-> a[1], ssap |-> a[2], data |-> d] : a \in SP, d \in Pay}
PConn(SP) == {[t |-> "CONNECT", dsap |-> a[1], ssap |-> a[2], miu |-> 128 + m, rw |-> r, sn |-> n] :
                a \in SP, m \in Miuxs, r \in Rws, n \in Opts}
PDisc(SP) == {[t |-> "DISC", dsap |-> a[1], ssap |-> a[2]] : a \in SP}
PCc(SP)   == {[t |-> "CC", dsap |-> a[1], ssap |-> a[2], miu |-> 128 + m, rw |-> r] : a \in SP, m \in Miuxs, r \in Rws}
PDm(SP)   == {[t |-> "DM", dsap |-> a[1], ssap |-> a[2], reason |-> r] : a \in SP, r \in {0, 1, 33, 255}}
PFrmr(SP, F, Q) ==
  {[t |-> "FRMR", dsap |-> a[1], ssap |-> a[2], flags |-> f, ptype |-> q, ns |-> n[1], nr |-> n[2],
    vs |-> n[3], vr |-> n[4], vsa |-> n[5], vra |-> n[6]] :
      a \in SP, f \in F, q \in Q, n \in Seqn \X Seqn \X Seqn \X Seqn \X Seqn \X Seqn}
PSnl  == {[t |-> "SNL", dsap |-> 1, ssap |-> 1, sdreq |-> q, sdres |-> r] :
            q \in SeqsUpTo2({[tid |-> i, sn |-> n] : i \in {0, 255}, n \in Names}),
            r \in SeqsUpTo2({[tid |-> i, sap |-> s] : i \in {0, 255}, s \in {0, 16, 129}})}
PDps  == {[t |-> "DPS", dsap |-> 0, ssap |-> 0, ecpk |-> e, rn |-> r] : e \in Opts, r \in Opts}
PI(SP)    == {[t |-> "I", dsap |-> a[1], ssap |-> a[2], ns |-> n, nr |-> r, data |-> d] :
                a \in SP, n \in Seqn, r \in Seqn, d \in Pay}
PRr(SP)   == {[t |-> k, dsap |-> a[1], ssap |-> a[2], nr |-> r] : k \in {"RR", "RNR"}, a \in SP, r \in Seqn}
PUnk(SP)  == {[t |-> "UNK", ptype |-> q, dsap |-> a[1], ssap |-> a[2], data |-> d] : q \in {11, 15}, a \in SP, d \in Pay}

(* members of aggregates: a cross-section of the above (kept small: \cup is quadratic in TLC),
   and AGFs of those as members of AGFs (nesting depth 2) *)
Pairs(C) == {<<c \div 64, c % 64>> : c \in C}
MSaps == Pairs(MemSapCodes)
FrmrSaps == Pairs(FrmrSapCodes)
MData == {<<>>, <<255, 0>>}
Mem0 ==
  PSymm
  \cup {p \in PPax : p.ver \in {-1, 19} /\ p.miux \in {-1, 2047} /\ p.wks = -1 /\ p.lto \in {-1, 255} /\ p.opt = -1}
  \cup {p \in PUi(MSaps) : p.data \in MData}
  \cup {p \in PConn(MSaps) : p.rw \in {0, 1, 15} /\ p.miu \in {128, 2175}}
  \cup PDisc(MSaps)
  \cup {p \in PCc(MSaps) : p.rw \in {0, 1, 15} /\ p.miu \in {128, 2175}}
  \cup {p \in PDm(MSaps) : p.reason = 33}
  \cup {p \in PFrmr(MSaps, {5}, {12}) : p.ns = 15 /\ p.nr = 1 /\ p.vs = p.vr /\ p.vsa = 0 /\ p.vra = 15}
  \cup {p \in PSnl : Len(p.sdreq) <= 1 /\ Len(p.sdres) <= 1 /\ (p.sdreq # <<>> => p.sdreq[1].tid = 255)
                     /\ (p.sdres # <<>> => p.sdres[1].tid = 0 /\ p.sdres[1].sap = 16)}
  \cup PDps
  \cup {p \in PI(MSaps) : p.ns = 15 /\ p.nr \in {0, 15} /\ p.data \in MData}
  \cup PRr(MSaps)
  \cup {p \in PUnk(MSaps) : p.data \in MData}
Agf(ms) == [t |-> "AGF", dsap |-> 0, ssap |-> 0, agg |-> ms]
Agf1a == {Agf(<<>>)} \cup {Agf(<<m>>) : m \in Mem0}
Mem1  == {Agf(<<>>)} \cup {Agf(<<m>>) : m \in {q \in Mem0 : q.t \in {"SYMM", "CONNECT", "SNL", "I"}}}
Agf2a == {Agf(<<m>>) : m \in Mem1}
Agf2b == {Agf(<<m, k>>) : m \in Mem1, k \in {q \in Mem0 : q.t \in {"CONNECT", "RR", "DPS"}}}
Agf2c == {Agf(<<k, m>>) : m \in Mem1, k \in {q \in Mem0 : q.t \in {"CC", "SYMM"}}}
HasNested(p) == p.t = "AGF" /\ \E i \in DOMAIN p.agg : p.agg[i].t = "AGF"

\* ---- byte strings ----------------------------------------------------------------------
(* every header over a few SAP pairs with tails of <= 4 octets over Alpha; and AGFs that wrap a short
   string with a length field that is exact, one short or one/two long, followed by spare octets;
   and AGFs wrapping those once more *)
Tails(k) == CASE k = 0 -> {<<>>} [] k = 1 -> {<<a>> : a \in Alpha} [] k = 2 -> {<<a, c>> : a, c \in Alpha}
              [] k = 3 -> {<<a, c, e>> : a, c, e \in Alpha} [] k = 4 -> {<<a, c, e, g>> : a, c, e, g \in Alpha}
Heads == {<<d * 4 + shiftR(q, 2), (q & 3) * 64 + s>> : q \in 0..15, d \in {0, 1}, s \in {0, 1}}
A4 == {0, 2, 5, 6}
SHeads == {hh \in Heads : hh[1] \in {0, 2, 4, 5} /\ hh[2] \in {64, 128, 0, 65, 1}}
ShortOf(h) == {h} \cup {h \o <<a>> : a \in A4} \cup {h \o <<a, c>> : a, c \in A4} \cup {h \o <<a, c, e>> : a, c, e \in A4}
Spare == {<<>>, <<0>>, <<0, 2, 0, 0>>, <<65, 66>>}
WrappedOf(h) == {<<0, 128>> \o U16(Len(m) + k) \o m \o sp : m \in ShortOf(h), k \in {-1, 0, 1, 2}, sp \in Spare}
Wrapped2Of(h) == {<<0, 128>> \o U16(Len(w) + k) \o w \o sp :
                    w \in {ww \in WrappedOf(h) : Len(ww) <= 9}, k \in {-1, 0}, sp \in {<<>>, <<0, 2, 0, 0>>}}

\* ---- partitions ------------------------------------------------------------------------
Part(kind, arg) == [t |-> "PART", kind |-> kind, arg |-> arg]
Init == IF Mode = "pdu"
        THEN \/ x \in {Part("fixed", <<n>>) : n \in 1..7}
             \/ x \in {Part("sap", a) : a \in SapPairs}
             \/ x \in {Part("frmr", <<a, f, q>>) : a \in FrmrSaps, f \in {0, 5, 15}, q \in {0, 12, 15}}
             \/ x \in {Part("agf", <<m>>) : m \in Mem0}
        ELSE \/ x \in {Part("tiny", <<>>)}
             \/ x \in {Part("flat", h) : h \in Heads}
             \/ x \in {Part("wrap", h) : h \in SHeads}
             \/ x \in {Part("wrap2", h) : h \in SHeads}
B(s) == [t |-> "BYTES", b |-> s]
Expand(q) ==
  LET a == q.arg IN
  CASE q.kind = "fixed" -> (CASE a[1] = 1 -> PSymm \cup PDps [] a[1] = 2 -> PPax [] a[1] = 3 -> PSnl [] a[1] = 4 -> Agf1a
                              [] a[1] = 5 -> Agf2a [] a[1] = 6 -> Agf2b [] a[1] = 7 -> Agf2c)
    [] q.kind = "sap"  -> PUi({a}) \cup PConn({a}) \cup PDisc({a}) \cup PCc({a}) \cup PDm({a}) \cup PI({a})
                          \cup PRr({a}) \cup PUnk({a})
    [] q.kind = "frmr" -> PFrmr({a[1]}, {a[2]}, {a[3]})
    [] q.kind = "agf"  -> {Agf(<<a[1], k>>) : k \in Mem0}
    [] q.kind = "tiny" -> {B(s) : s \in {<<>>} \cup Tails(1)}
    [] q.kind = "flat" -> UNION {{B(a \o tl) : tl \in Tails(k)} : k \in 0..4}
    [] q.kind = "wrap" -> {B(s) : s \in WrappedOf(a)}
    [] q.kind = "wrap2" -> {B(s) : s \in Wrapped2Of(a)}
Next == x.t = "PART" /\ x' \in Expand(x)
Spec == Init /\ [][Next]_x

IsPdu   == Mode = "pdu" /\ x.t # "PART"
IsBytes == Mode = "bytes" /\ x.t = "BYTES"
\* ---- theorems, mode "pdu" ----------------------------------------------------------------
RoundTrip   == IsPdu => Decode(Encode(x)) = Norm(x)
LenAgrees   == IsPdu => Len(Encode(x)) = DeclLen(x)
NormIdem    == IsPdu => Norm(Norm(x)) = Norm(x) /\ Encode(Norm(x)) = Encode(x)
LooseSame   == IsPdu => DecodeLoose(Encode(x)) = Decode(Encode(x))   \* on well-formed frames the defect model agrees
NoNestSame  == (IsPdu /\ ~HasNested(x)) => DecodeNoNest(Encode(x)) = Decode(Encode(x))
\* ---- theorems, mode "bytes" --------------------------------------------------------------
D == Decode(x.b)
ReEncode    == IsBytes => (~IsErr(D) => /\ Decode(Encode(D)) = Norm(D)
                                          /\ Len(Encode(D)) = DeclLen(D)
                                          /\ Len(Encode(D)) <= Len(x.b))
TopSame     == IsBytes => ((Len(x.b) >= 2 /\ ~(x.b[1] = 0 /\ x.b[2] = 128)) => DecodeLoose(x.b) = D)
LooseWeaker == IsBytes => (~IsErr(D) => DecodeLoose(x.b) = D)
NoNestStricter == IsBytes => LET N == DecodeNoNest(x.b) IN IsErr(N) \/ N = D

\* ---- reachability witnesses (each must be VIOLATED) -------------------------------------
W_Rw0       == ~(IsPdu /\ x.t = "CONNECT" /\ x.rw = 0 /\ x.sn = Some(<<>>))
W_Nested    == ~(IsPdu /\ HasNested(x) /\ Len(x.agg) = 2)
W_Snl2      == ~(IsPdu /\ x.t = "SNL" /\ Len(x.sdreq) = 2 /\ Len(x.sdres) = 2)
W_TlvSlice  == ~(IsBytes /\ IsErr(D) /\ ~IsErr(DecodeLoose(x.b)) /\ D.why = <<"agf-member", "CONNECT", "tlv-past-slice">>)
W_MemSlice  == ~(IsBytes /\ IsErr(D) /\ ~IsErr(DecodeLoose(x.b)) /\ D.why = <<"agf-member", "agf-member-past-slice">>)
\* (a length field that straddles a slice end and still decodes loosely needs a >= 256 octet neighbour: reached
\*  by the binding's "agf-lenfield-straddle" cases, not in these small domains)
W_NoNest    == ~(IsBytes /\ ~IsErr(D) /\ IsErr(DecodeNoNest(x.b)))
W_TlvLen    == ~(IsBytes /\ IsErr(D) /\ D.why = <<"CONNECT", "tlv-length", "RW">>)
W_Skip      == ~(IsBytes /\ ~IsErr(D) /\ D.t = "CONNECT" /\ Len(x.b) = 6 /\ x.b[3] = 0 /\ D.rw = 1 /\ D.sn = Absent)
=============================================================================
