SPECIFICATION Spec
CONSTANTS
  M = 4
  MaxMsg = 2
  RWs = {1, 2}
  Lens = {1, 3}
  ConnMius = {2}
  LinkMius = {16}
  Agfs = {TRUE}
  MaxWire = 1
  WithClose = TRUE
INVARIANT Fifo
INVARIANT Window
INVARIANT RecvBound
INVARIANT NoFrmr
INVARIANT SeqOk
INVARIANT WinInd
INVARIANT NoLoss
INVARIANT FrameFits
INVARIANT NotBroken
PROPERTY MiuRefuse
CHECK_DEADLOCK FALSE
