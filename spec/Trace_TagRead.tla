------------------------- MODULE Trace_TagRead -------------------------
(* Trace validation for C08: one recorded case = nfc.tag.activate() and the evaluations of tag.ndef on a
   simulated tag with a generated image; every command sent is an event.  A call that ends with an
   exception ("Raise") or in the harness' watchdog has no action in the monitor and is rejected there. *)
EXTENDS TagRead, Json, IOUtils, TLCExt

VARIABLES tid, l
tvars == <<mvars, tid, l>>

Traces == ndJsonDeserialize(IOEnv.TRACE_FILE)
T == Traces[tid].ev
C == Traces[tid].const
Lo == C.area[1]
Hi == C.area[2]          \* the area the tag declares (a tag may declare more than it has: reads fail there)
Bud == C.budget

TInit == tid \in 1..Len(Traces) /\ l = 1 /\ MInit

Ev == T[l]
IsEv(a) == l <= Len(T) /\ Ev.a = a /\ l' = l + 1 /\ UNCHANGED tid

Res == [none |-> Ev.none, off |-> Ev.off, len |-> Ev.len, cap |-> Ev.cap, tlv |-> Ev.tlv]
\* the reference reader is the oracle for well-formed Type 2 images (tag answering throughout)
RefApplies == C.kind = "T2" /\ Ev.call = "ndef" /\ ~C.silent /\ Len(C.mem) > 0 /\ WellFormed(C.mem, Lo, Hi)
RefOk == RefApplies => LET r == RefRead(C.mem, Lo, Hi) IN ~Ev.none /\ Ev.off = r.off /\ Ev.len = r.len

GBegin  == IsEv("Begin") /\ Begin(Ev.call)
GCmd    == IsEv("Cmd") /\ Cmd(Ev.ok, Bud)
GSelect == IsEv("Select") /\ Select(Ev.ok, Bud)     \* Type 4 file selection: offsets start again
GRead   == IsEv("Read") /\ Read(Ev.u, Ev.ok, Bud)
GReadAt == IsEv("ReadAt") /\ ReadAt(Ev.o, Ev.ok, Bud)
GRetry  == IsEv("Retry") /\ Retry(Ev.ok, Bud)
GSense  == IsEv("Sense") /\ Sense
GFinish == IsEv("Finish") /\ call = Ev.call /\ Finish(Res, Lo, Hi) /\ RefOk
Real == GBegin \/ GCmd \/ GSelect \/ GRead \/ GReadAt \/ GRetry \/ GSense \/ GFinish

Why == CASE Ev.a = "Raise" -> <<"exception", Ev.exc, call>>
         [] Ev.a = "Finish" -> IF Ev.none \/ InArea(Res, Lo, Hi)
                               THEN <<"reference", RefRead(C.mem, Lo, Hi)>>
                               ELSE <<"result", SelectSeq(<<"off<lo", "off+len>hi", "len>cap", "cap>area", "cap>fits">>,
                                        LAMBDA n : CASE n = "off<lo" -> Res.off < Lo
                                                     [] n = "off+len>hi" -> Res.off + Res.len > Hi
                                                     [] n = "len>cap" -> Res.len > Res.cap
                                                     [] n = "cap>area" -> Res.cap > Hi - Lo
                                                     [] n = "cap>fits" -> ~CapFits(Res, Hi)), call, Lo, Hi>>
         [] Ev.a \in {"Read", "ReadAt"} -> IF ncmd >= Bud THEN <<"budget", ncmd>> ELSE <<"repeat", Ev.u, call>>
         [] Ev.a = "Retry" -> IF ncmd >= Bud THEN <<"budget", ncmd>> ELSE <<"retry-after-answer", nretry>>
         [] OTHER -> IF ncmd >= Bud THEN <<"budget", ncmd>> ELSE <<"guard", call>>

Stuck ==
    /\ l <= Len(T)
    /\ ~ENABLED Real
    /\ PrintT(<<"STUCK", Traces[tid].id, l, Ev.a, Why>>)
    /\ l' = Len(T) + 2
    /\ UNCHANGED <<mvars, tid>>

TNext == Real \/ Stuck
TSpec == TInit /\ [][TNext]_tvars
Done == (l = Len(T) + 1) => PrintT(<<"ACCEPT", Traces[tid].id>>)
=============================================================================
