SPECIFICATION Spec
CONSTANTS
  Mode = "bytes"
  Saps = {0}
  Seqn = {0}
  Miuxs = {0}
  Rws = {1}
  Sym = {0}
  MemSapCodes = {0}
  FrmrSapCodes = {0}
  Alpha = {0, 2, 5, 6}
CHECK_DEADLOCK FALSE
