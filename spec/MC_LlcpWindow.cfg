SPECIFICATION Spec
INVARIANT IndInv
INVARIANT Safe
CHECK_DEADLOCK FALSE
