SPECIFICATION Spec
CONSTANTS
  MaxSent = 1
  Kinds <- MC_Quick
CHECK_DEADLOCK FALSE
