SPECIFICATION Spec
CONSTANTS
  Kinds <- MC_Quick
CHECK_DEADLOCK FALSE
