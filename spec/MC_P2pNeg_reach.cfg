SPECIFICATION Spec
CONSTANTS
  MaxSent = 1
  MaxConn = 0
  MiuClasses <- MC_NoClasses
  RwVals <- MC_NoClasses
  Kinds <- MC_Quick
CHECK_DEADLOCK FALSE
