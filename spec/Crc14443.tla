------------------------------ MODULE Crc14443 ------------------------------
(* CRC_A / CRC_B of ISO/IEC 14443-3 (Annex B): generator x^16 + x^12 + x^5 + 1, bits processed LSB
   first, i.e. the reflected polynomial 8408h on a right-shifting register; initial register 6363h
   for CRC_A, FFFFh for CRC_B whose result is inverted; the CRC is appended low byte first.
   Bit-serial definition (BitStep) = the reference; ByteStep is the byte-wise update of the Annex B
   sample code (ch ^= lo(crc); ch ^= ch << 4; crc = (crc >> 8) ^ (ch << 8) ^ (ch << 3) ^ (ch >> 4)),
   MC_Crc14443 checks both agree (all 256 bytes x a basis of the register space: both are GF(2)-linear). *)
EXTENDS Naturals, Sequences, SequencesExt, Bitwise

Poly == 33800                                   \* 8408h
BitOf(x, i) == shiftR(x, i) % 2
BitStep(reg, b) == IF (reg % 2) # b THEN shiftR(reg, 1) ^^ Poly ELSE shiftR(reg, 1)
ByteStepBits(reg, byte) == FoldLeft(LAMBDA r, i : BitStep(r, BitOf(byte, i)), reg, <<0, 1, 2, 3, 4, 5, 6, 7>>)
ByteStepB(reg, byte) ==
  LET c1 == (byte ^^ (reg % 256))
      c2 == (c1 ^^ ((c1 * 16) % 256))
  IN ((shiftR(reg, 8) ^^ (c2 * 256)) ^^ (c2 * 8)) ^^ shiftR(c2, 4)

CrcReg(init, s) == FoldLeft(ByteStepBits, init, s)           \* the reference (bit serial)
CrcRegB(init, s) == FoldLeft(ByteStepB, init, s)             \* Annex B byte-wise code
CrcA(s) == CrcReg(25443, s)                                  \* 6363h
CrcB(s) == 65535 - CrcReg(65535, s)
CrcBytes(c) == <<c % 256, c \div 256>>                       \* transmitted low byte first
AddCrcA(s) == s \o CrcBytes(CrcA(s))
AddCrcB(s) == s \o CrcBytes(CrcB(s))
Front2(s) == SubSeq(s, 1, Len(s) - 2)
Last2(s) == SubSeq(s, Len(s) - 1, Len(s))
CheckCrcA(s) == Len(s) >= 2 /\ Last2(s) = CrcBytes(CrcA(Front2(s)))
CheckCrcB(s) == Len(s) >= 2 /\ Last2(s) = CrcBytes(CrcB(Front2(s)))
=============================================================================
