------------------------------- MODULE TlvTag -------------------------------
(* NDEF store on the TLV based tag types (NFC Forum Type 1 static / dynamic, Type 2).
   C01 (round trip, capacity), C02 (atomicity under power cut), C03 (confinement).

   Two halves:
   (1) the REFERENCE semantics of a tag memory image, written from the NFC Forum T1T/T2T
       operation specifications and NOT from nfcpy: Skip, Walk, RefRead, RefCapacity, Area;
   (2) the WRITER as nfcpy codes it (tt2.py:222-269,374-387,668-680; tt1.py:208-247,532-549;
       tt1_broadcom.py:51-66,112-129): the cached image after each of the three phases, and
       synchronize() = one WRITE command per unit whose cached bytes differ, ascending.
       One spec action (DoCmd) per state-changing command; PowerCut between any two.

   A layout record L (constant during a behaviour):
     kind "T2" | "T1S" | "T1D", unit 4 | 1 | 8, mem0 (initial image, sequence, address a is mem0[a+1]),
     ro (read-only addresses), ow (one-way = OR-written addresses), fmt (format procedure of the
     product: "T2" | "Topaz" | "Topaz512" | "none").
   Variants: "asis" = the code of the pinned commit, "fixed" = the code after proposed_fixes/C01-1,
   C02-1, C03-1 (empty message, length field committed marker-last, skip-aware format).  *)
EXTENDS Naturals, Sequences, FiniteSets, SequencesExt, Bitwise, TLC

CONSTANTS LongLen         \* first length that needs the 3-byte length format (255; scaled 5)

Byte(m, a) == m[a + 1]
Size(m) == Len(m)
Upd(m, a, v) == [m EXCEPT ![a + 1] = v]
MinN(a, b) == IF a < b THEN a ELSE b
MaxN(a, b) == IF a > b THEN a ELSE b
Pow2(n) == FoldLeft(LAMBDA acc, i : acc * 2, 1, [i \in 1..n |-> i])
Rng(a, b) == [i \in 1..(IF b >= a THEN b - a + 1 ELSE 0) |-> a + i - 1]     \* <<a, ..., b>>

\* ------------------------------------------------------------------ geometry
IsT2(L) == L.kind = "T2"
CC(L) == IF IsT2(L) THEN 12 ELSE 8
DataStart(L) == IF IsT2(L) THEN 16 ELSE 12
End(L, m) == IF IsT2(L) THEN 16 + Byte(m, 14) * 8 ELSE (Byte(m, 10) + 1) * 8
FixedSkip(L, m) == IF IsT2(L) THEN {} ELSE 104 .. (IF End(L, m) = 120 THEN 119 ELSE 127)
UnitAddrs(L, u) == (u * L.unit) .. (u * L.unit + L.unit - 1)

\* ------------------------------------------------------------------ reference reader
\* addresses from..to that are not reserved, ascending
FreeSeq(from, to, skip) == SelectSeq(Rng(from, to), LAMBDA x : x \notin skip)
\* first non-reserved address >= a, or lim if there is none below lim
NextFree(a, skip, lim) ==
    IF a >= lim THEN lim
    ELSE IF a \notin skip THEN a
    ELSE LET fs == FreeSeq(a, MinN(lim - 1, a + Cardinality(skip)), skip)
         IN IF fs = <<>> THEN lim ELSE fs[1]

CtlRange(v0, v1, v2, islock) ==
    LET from == (v0 \div 16) * Pow2(v2 % 16) + (v0 % 16)
        n0 == IF v1 = 0 THEN 256 ELSE v1
        n == IF islock THEN (n0 + 7) \div 8 ELSE n0
    IN from .. (from + n - 1)

\* TLV walk over the logical byte stream (reserved bytes are jumped over everywhere).
\* Result: [k |-> "ndef", off, la (address of the length byte), long, len, va (first value
\* candidate), skip]  |  [k |-> "none"] (terminator / end of area)  |  [k |-> "malformed"].
NoTlv(k, a, skip) == [k |-> k, off |-> a, la |-> 0, long |-> FALSE, len |-> 0, va |-> 0, skip |-> skip]
RECURSIVE Walk(_, _, _, _, _)
Walk(L, m, a0, skip, fuel) ==
    LET end == End(L, m)
        a == NextFree(a0, skip, end)
    IN
    IF fuel = 0 \/ a >= end THEN NoTlv("none", a, skip)
    ELSE LET t == Byte(m, a) IN
      IF t = 0 THEN Walk(L, m, a + 1, skip, fuel - 1)
      ELSE IF t = 254 THEN NoTlv("none", a, skip)
      ELSE
        LET la == NextFree(a + 1, skip, end) IN
        IF la >= end THEN NoTlv("malformed", a, skip)
        ELSE
          LET l1 == Byte(m, la)
              long == (l1 = 255)
              ha == NextFree(la + 1, skip, end)
              lo == NextFree(ha + 1, skip, end)
          IN
          IF long /\ lo >= end THEN NoTlv("malformed", a, skip)
          ELSE
            LET len == IF long THEN Byte(m, ha) * 256 + Byte(m, lo) ELSE l1
                va == (IF long THEN lo ELSE la) + 1
            IN
            IF t = 3 THEN [k |-> "ndef", off |-> a, la |-> la, long |-> long, len |-> len,
                           va |-> va, skip |-> skip]
            ELSE
              LET vs == FreeSeq(va, MinN(end - 1, va + len + Cardinality(skip)), skip) IN
              IF Len(vs) < len THEN NoTlv("malformed", a, skip)
              ELSE IF t \in {1, 2} /\ len = 3 THEN
                  Walk(L, m, vs[3] + 1,
                       skip \cup CtlRange(Byte(m, vs[1]), Byte(m, vs[2]), Byte(m, vs[3]), t = 1),
                       fuel - 1)
              ELSE Walk(L, m, (IF len = 0 THEN va ELSE vs[len] + 1), skip, fuel - 1)

Parse(L, m) == Walk(L, m, DataStart(L), FixedSkip(L, m), 200)

None == [k |-> "none", v |-> <<>>]
NoRead == [k |-> "noread", v |-> <<>>]
Malformed == [k |-> "malformed", v |-> <<>>]
Ndef(v) == [k |-> "ndef", v |-> v]
Empty == Ndef(<<>>)

CCok(L, m) == Byte(m, CC(L)) = 225 /\ Byte(m, CC(L) + 1) \div 16 = 1

RefRead(L, m) ==
    IF ~CCok(L, m) THEN None
    ELSE IF Byte(m, CC(L) + 3) \div 16 # 0 THEN NoRead
    ELSE LET w == Parse(L, m) IN
      IF w.k = "ndef" THEN
          IF w.len = 0 THEN Empty
          ELSE LET fs == FreeSeq(w.va, End(L, m) - 1, w.skip) IN
               IF Len(fs) < w.len THEN Malformed
               ELSE Ndef([i \in 1..w.len |-> Byte(m, fs[i])])
      ELSE IF w.k = "none" THEN None ELSE Malformed

\* largest L such that tag byte + length field + L value bytes fit into n bytes
RefCapacityN(n) == IF n < 2 THEN 0 ELSE IF n - 2 < LongLen THEN n - 2 ELSE MaxN(LongLen - 1, n - 4)
RefCapacity(L) == RefCapacityN(L.room)
\* the NDEF message area L.area: the NDEF TLV's T, L and value slots up to the end of the data area

\* A raw layout R = [kind, unit, mem0, ro, ow, fmt]; Derive adds what the reference parse of the
\* initial image yields (evaluated once per behaviour): off, long, skip, area, room, old.
Derive(R) ==
    LET m == R.mem0  w == Parse(R, m) IN
    [kind |-> R.kind, unit |-> R.unit, mem0 |-> m, ro |-> R.ro, ow |-> R.ow, fmt |-> R.fmt,
     pk |-> w.k, off |-> w.off, long |-> w.long, skip |-> w.skip,
     area |-> {a \in w.off .. (End(R, m) - 1) : a \notin w.skip},
     room |-> Cardinality({a \in w.off .. (End(R, m) - 1) : a \notin w.skip}),
     old |-> RefRead(R, m)]

\* the layouts the properties quantify over (L is a derived layout)
WellFormed(L) ==
    LET m == L.mem0 IN
    /\ End(L, m) <= Size(m)
    /\ CCok(L, m) /\ Byte(m, CC(L) + 3) = 0
    /\ L.pk = "ndef"
    /\ L.off + 1 < End(L, m)
    /\ \A a \in {L.off, L.off + 1} \cup (IF L.long THEN {L.off + 2, L.off + 3} ELSE {}) : a \notin L.skip
    /\ L.old.k = "ndef"
\* ... and the writes: the length field the new message needs does not fall on reserved bytes
InScope(L, n) == n >= LongLen => (L.off + 2 \notin L.skip /\ L.off + 3 \notin L.skip)

\* ------------------------------------------------------------------ the writer (as coded)
\* what nfcpy reports as capacity (tt2.get_capacity / tt1.get_capacity, 256 = LongLen + 1)
CodeCap(L) == IF L.room > LongLen + 1 THEN L.room - 4 ELSE L.room - 2

\* write msg bytes into the image at the non-reserved addresses >= start (not bounded by the area:
\* the capacity check is what keeps it inside); result [c, nxt] = image, address after the last byte
PlaceData(c, start, skip, msg) ==
    LET n == Len(msg)
        fs == FreeSeq(start, MinN(Size(c) - 1, start + n + Cardinality(skip)), skip)
        idx == [i \in 1..MinN(n, Len(fs)) |-> fs[i]]
        c2 == FoldLeft(LAMBDA acc, i : Upd(acc, idx[i], msg[i]), c, Rng(1, Len(idx)))
    IN [c |-> c2, nxt |-> IF n = 0 THEN start ELSE idx[Len(idx)] + 1]

\* terminator TLV after the value: T2 (tt2.py:256-259) first non-reserved address, only if inside
\* the area; T1 (tt1.py:232-236) the same, searched up to the end of the area
PlaceTerm(L, c, a, skip) ==
    LET end == End(L, c)
        t == NextFree(a, skip, MaxN(end, a)) IN
    IF t < end THEN Upd(c, t, 254) ELSE c

\* synchronize(): units whose cached bytes differ, ascending, each one WRITE command
Diff(L, ca, cb, ph) ==
    LET nu == MinN(Size(ca), Size(cb)) \div L.unit
        us == SelectSeq(Rng(0, nu - 1), LAMBDA u : \E a \in UnitAddrs(L, u) : Byte(ca, a) # Byte(cb, a))
    IN [i \in 1..Len(us) |-> [u |-> us[i], d |-> [j \in 1..L.unit |-> Byte(cb, us[i] * L.unit + j - 1)],
                              ph |-> ph, s |-> 0]]

\* ---- Type 2 sectors (tt2.py:526-563, 659-676).  Memory beyond SectorSize bytes is reached with SECTOR SELECT:
\* packet 1 (ACK), packet 2 answered by SILENCE = the tag switched (passive ack); a NAK / a garbled answer =
\* not switched.  The reader sends it only when the wanted sector differs from the one it believes to be current.
\* A plan entry with s = 1 is one completed sector select (u = the sector).  READ commands change nothing and are not
\* plan entries, but the sector selects they need are: the reader reads 16-byte chunks lazily, `ext` is how far.
CONSTANT SectorSize      \* 1024 (scaled: 32)
Chunk == 16
HasSectors(L) == IsT2(L)
SecOfAddr(a) == a \div SectorSize
SecOfUnit(L, u) == IF HasSectors(L) THEN (u * L.unit) \div SectorSize ELSE 0
UPS(L) == SectorSize \div L.unit
\* the unit a WRITE really lands on when the tag is in sector tsec (the command carries only the page number)
Landed(L, u, tsec) == IF HasSectors(L) THEN tsec * UPS(L) + (u % UPS(L)) ELSE u
Sel(sec, ph) == [u |-> sec, d |-> <<>>, ph |-> ph, s |-> 1]
RoundUp(n, m) == ((n + m - 1) \div m) * m

\* prefix every write whose sector differs from the believed one with a sector select; result [cmds, rsec]
WithSels(L, ws, rsec) ==
    FoldLeft(LAMBDA acc, w :
                LET sec == SecOfUnit(L, w.u) IN
                IF sec # acc.rsec THEN [cmds |-> acc.cmds \o <<Sel(sec, w.ph), w>>, rsec |-> sec]
                ELSE [cmds |-> Append(acc.cmds, w), rsec |-> acc.rsec],
             [cmds |-> <<>>, rsec |-> rsec], ws)
\* the sector selects of reading the chunks from ext up to (excluding) need; result [cmds, rsec, ext]
ReadSels(L, ext, need, rsec, ph) ==
    IF ~HasSectors(L) \/ need <= ext THEN [cmds |-> <<>>, rsec |-> rsec, ext |-> ext]
    ELSE LET s0 == SecOfAddr(ext)
             s1 == SecOfAddr(RoundUp(need, Chunk) - Chunk)
             r == FoldLeft(LAMBDA acc, sec : IF sec # acc.rsec
                                              THEN [cmds |-> Append(acc.cmds, Sel(sec, ph)), rsec |-> sec]
                                              ELSE acc,
                           [cmds |-> <<>>, rsec |-> rsec], Rng(s0, s1))
         IN [cmds |-> r.cmds, rsec |-> r.rsec, ext |-> RoundUp(need, Chunk)]

\* The reader-writer state rd = [cache, shadow, ext, rsec, ...]: cache = nfcpy's _data_in_cache (the image it wants),
\* shadow = _data_from_tag (what it believes is on the tag), ext = how far it has read, rsec = the sector it believes
\* the tag is in.  For a fresh tag object cache = shadow = the tag memory.  After a failed operation the SAME object
\* is used again (the application repeats the assignment): the plan then starts from the cache / shadow left behind.
WritePlanX(L, c0, sh, ext, rsec, msg, variant) ==
    LET off == L.off
        n == Len(msg)
        long == n >= LongLen
        c1 == Upd(c0, off + 1, 0)
        s1 == WithSels(L, Diff(L, sh, c1, 1), rsec)
        p == PlaceData(c1, off + (IF long THEN 4 ELSE 2), L.skip, msg)
        end == End(L, c0)
        t == NextFree(p.nxt, L.skip, MaxN(end, p.nxt))
        c2 == IF t < end THEN Upd(p.c, t, 254) ELSE p.c
        r2 == ReadSels(L, ext, IF t < end THEN t + 1 ELSE p.nxt, s1.rsec, 2)
        s2 == WithSels(L, Diff(L, c1, c2, 2), r2.rsec)
        c3 == IF long THEN Upd(Upd(Upd(c2, off + 1, 255), off + 2, n \div 256), off + 3, n % 256)
                      ELSE Upd(c2, off + 1, n)
        d3 == Diff(L, c2, c3, 3)
        s3 == WithSels(L, IF variant = "asis" THEN d3 ELSE Reverse(d3), s2.rsec)
    IN
    IF n = 0 /\ variant = "asis"
    THEN [cmds |-> s1.cmds, res |-> "crash", imgs |-> <<c1, c1, c1>>, ext |-> ext]   \* unbound loop variable (fixed in C01-1)
    ELSE [cmds |-> s1.cmds \o r2.cmds \o s2.cmds \o s3.cmds, res |-> "ok", imgs |-> <<c1, c2, c3>>, ext |-> r2.ext]
\* a fresh reader-writer: everything it holds is what is on the tag
WritePlan(L, c0, msg, variant) == WritePlanX(L, c0, c0, Size(c0), 0, msg, variant)

Fill(c, from, to, skip, v) ==
    FoldLeft(LAMBDA acc, a : IF a \in skip \/ a >= Size(c) THEN acc ELSE Upd(acc, a, v), c, Rng(from, to))
Overlay(c, at, bytes) == FoldLeft(LAMBDA acc, i : Upd(acc, at + i - 1, bytes[i]), c, Rng(1, Len(bytes)))

TopazHdr == <<225, 16, 14, 0, 3, 0>>
Topaz512Hdr == <<225, 16, 63, 0, 1, 3, 242, 48, 51, 2, 3, 240, 2, 3, 3, 0>>

\* wipe = 256 encodes "no wipe".  Type2Tag._format works on the NDEF object's memory reader (c0 / sh / ext / rsec as
\* above); the Topaz formats create a new reader (c0 = sh = the tag memory).
FormatPlanX(L, c0, sh, ext, rsec, wipe, variant) ==
    LET off == L.off
        end == End(L, c0)
        dowipe == wipe < 256
        One(c, need) == LET r == ReadSels(L, ext, need, rsec, 1)
                            w == WithSels(L, Diff(L, sh, c, 1), r.rsec)
                        IN [cmds |-> r.cmds \o w.cmds, res |-> "ok", imgs |-> <<c, c, c>>, ext |-> r.ext]
    IN
    IF L.fmt = "T2" THEN
        IF variant = "asis" THEN        \* before C03-1: 00 FE at offset+1..+2, whatever lives there
            IF off + 2 >= Size(c0) THEN [cmds |-> <<>>, res |-> "crash", imgs |-> <<c0, c0, c0>>, ext |-> ext]
            ELSE
            LET c1 == Upd(Upd(c0, off + 1, 0), off + 2, 254)
                c2 == IF dowipe THEN Fill(c1, off + 3, end - 1, L.skip, wipe) ELSE c1
            IN One(c2, IF dowipe THEN end ELSE off + 3)
        ELSE
            LET c1 == Upd(c0, off + 1, 0)
                t == NextFree(off + 2, L.skip, MaxN(end, off + 2))
                c2 == IF t < end THEN Upd(c1, t, 254) ELSE c1
                c3 == IF dowipe THEN Fill(c2, t + 1, end - 1, L.skip, wipe) ELSE c2
            IN One(c3, IF dowipe THEN end ELSE IF t < end THEN t + 1 ELSE off + 2)
    ELSE IF L.fmt = "Topaz" THEN
        LET c1 == Overlay(c0, 8, TopazHdr)
            c2 == IF dowipe THEN Fill(c1, 14, 103, {}, wipe) ELSE c1
        IN [cmds |-> Diff(L, c0, c2, 1), res |-> "ok", imgs |-> <<c2, c2, c2>>, ext |-> ext]
    ELSE
        LET c1 == Overlay(c0, 8, Topaz512Hdr)
            c2 == IF dowipe THEN Fill(Fill(c1, 24, 103, {}, wipe), 128, 511, {}, wipe) ELSE c1
        IN [cmds |-> Diff(L, c0, c2, 1), res |-> "ok", imgs |-> <<c2, c2, c2>>, ext |-> ext]
FormatPlan(L, c0, wipe, variant) == FormatPlanX(L, c0, c0, Size(c0), 0, wipe, variant)

\* what the simulated tag does with one write command (one-way bytes are OR-ed, read-only bytes keep)
Store(L, m, u, d) ==
    FoldLeft(LAMBDA acc, j :
                LET a == u * L.unit + j - 1 IN
                IF a \in L.ro THEN acc
                ELSE IF a \in L.ow THEN Upd(acc, a, Byte(acc, a) | d[j])
                ELSE Upd(acc, a, d[j]),
             m, Rng(1, L.unit))

\* ------------------------------------------------------------------ properties (parametric)
\* C02: a fresh reader sees the previous message, an empty / not readable area, or the new message
AtomicP(L, m, op, msg) ==
    LET r == RefRead(L, m) IN
    \/ r = L.old
    \/ r = Empty
    \/ r = NoRead
    \/ op = "write" /\ r = Ndef(msg)
\* C03: bytes outside the NDEF message area keep their value (checked on the addresses in `as`)
ConfinedP(L, m, as) == \A a \in as : a \notin L.area => Byte(m, a) = Byte(L.mem0, a)
\* C03: no write command addresses a unit that lies wholly outside the area
UnitInAreaP(L, u) == UnitAddrs(L, u) \cap L.area # {}
\* C03: lock / OTP bits never go back (the simulated tag guarantees it; kept as a cross-check)
OneWayP(L, m, as) == \A a \in as \cap L.ow : (Byte(L.mem0, a) & Byte(m, a)) = Byte(L.mem0, a)
\* C01
RoundTripP(L, m, op, msg) == RefRead(L, m) = IF op = "write" THEN Ndef(msg) ELSE Empty
CapSoundP(L) == CodeCap(L) <= RefCapacity(L)

\* C02 / C01 (retry on the same tag object): what the reader believes is on the tag (shadow) IS on the tag, for every
\* byte it has read or successfully written (bytes with tag-side write semantics of their own are left out)
CoherentP(L, m, sh) == \A i \in 1..MinN(Len(sh), Len(m)) : ((i - 1) \notin L.ow /\ (i - 1) \notin L.ro) => sh[i] = m[i]
\* diagnosis for canonical keys: the three length-field bytes do not share one write unit
Straddle(L) == (L.off + 1) \div L.unit # (L.off + 3) \div L.unit
\* diagnosis: the byte after the length byte is not a free byte of the area
TermSlotBad(L) == L.off + 2 \notin L.area

\* ------------------------------------------------------------------ behaviours
CONSTANTS Layouts,       \* set of derived, well-formed layout records
          BaseLens,      \* new message lengths tried on every layout (cap-1, cap, cap+1 are added)
          Wipes,         \* set of wipe values (256 = no wipe); {} disables Format
          Variants,      \* subset of {"asis", "fixed"}
          Cuts,          \* BOOLEAN: PowerCut enabled
          MaxFaults,     \* 0 / 1: one command of the operation fails with a tag error (transient RF fault, not executed)
          MaxRetry,      \* 0 / 1: the application repeats the operation on the same tag object after a failure
          Session        \* BOOLEAN: read -> format -> write in one session on the same tag object

NewMsg(n) == [i \in 1..n |-> 160 + (i % 3)]
OldMsg(n) == [i \in 1..n |-> <<0, 3, 1>>[(i % 3) + 1]]

Tagged(p, v) == [cmds |-> p.cmds, res |-> p.res, v |-> v, imgs |-> p.imgs, ext |-> p.ext]

VARIABLES lay, mem, plans, k, pc, op, msg, last,
          rd         \* the reader-writer: [cache, shadow, ext, rsec, tsec (the TAG's current sector), nf, tries]
vars == <<lay, mem, plans, k, pc, op, msg, last, rd>>

\* how far a fresh Type 2 reader has read after finding the NDEF TLV (16-byte chunks, up to the last value byte)
ExtAfterReadM(L, m) ==
    IF ~IsT2(L) THEN Size(m)
    ELSE LET w == Parse(L, m)
             fs == FreeSeq(w.va, End(L, m) - 1, w.skip)
             lastaddr == IF w.len = 0 \/ Len(fs) < w.len THEN w.va - 1 ELSE fs[w.len]
         IN RoundUp(lastaddr + 1, Chunk)
ExtAfterRead(L) == ExtAfterReadM(L, L.mem0)
\* a tag object that has just read the NDEF data: it is left in the sector of the last chunk it read
FreshReader(L, m) == [cache |-> m, shadow |-> m, ext |-> ExtAfterReadM(L, m),
                      rsec |-> IF HasSectors(L) THEN SecOfAddr(ExtAfterReadM(L, m) - 1) ELSE 0,
                      tsec |-> IF HasSectors(L) THEN SecOfAddr(ExtAfterReadM(L, m) - 1) ELSE 0,
                      nf |-> 0, tries |-> 0]

Init ==
    /\ lay \in Layouts
    /\ mem = lay.mem0
    /\ plans = {}
    /\ k = 0
    /\ pc = "idle"
    /\ op = "none"
    /\ msg = <<>>
    /\ last = [u |-> 0, ph |-> 0, any |-> FALSE]
    /\ rd = FreshReader(lay, lay.mem0)

LensFor(L) == LET c == CodeCap(L) IN
    {n \in BaseLens \cup {c + 1} \cup (IF c >= 1 THEN {c - 1, c} ELSE {c}) : InScope(L, n)}

PlanOf(v) == IF op = "write" THEN WritePlanX(lay, rd.cache, rd.shadow, rd.ext, rd.rsec, msg, v)
             ELSE IF lay.fmt = "T2" THEN FormatPlanX(lay, rd.cache, rd.shadow, rd.ext, rd.rsec, msg[1], v)
             ELSE FormatPlanX(lay, mem, mem, Size(mem), 0, msg[1], v)          \* Topaz formats read the tag anew

BeginWrite(n) ==
    /\ pc = "idle"
    /\ op' = "write" /\ msg' = NewMsg(n)
    /\ IF n > CodeCap(lay)
       THEN pc' = "rejected" /\ plans' = {}
       ELSE pc' = "run" /\ \E v \in Variants :
                plans' = {Tagged(WritePlanX(lay, rd.cache, rd.shadow, rd.ext, rd.rsec, NewMsg(n), v), v)}
    /\ UNCHANGED <<lay, mem, k, last, rd>>

BeginFormat(w) ==
    /\ pc = "idle" /\ lay.fmt # "none"
    /\ op' = "format" /\ msg' = <<w>>
    /\ pc' = "run" /\ \E v \in Variants :
            plans' = {Tagged(IF lay.fmt = "T2" THEN FormatPlanX(lay, rd.cache, rd.shadow, rd.ext, rd.rsec, w, v)
                             ELSE FormatPlanX(lay, mem, mem, Size(mem), 0, w, v), v)}
    /\ UNCHANGED <<lay, mem, k, last, rd>>

SetUnit(L, img, u, d) == FoldLeft(LAMBDA acc, j : IF u * L.unit + j - 1 < Size(acc) THEN Upd(acc, u * L.unit + j - 1, d[j]) ELSE acc,
                                  img, Rng(1, L.unit))

\* one state-changing command: the next one of the plan (a WRITE, or a completed SECTOR SELECT)
DoCmd ==
    /\ pc = "run"
    /\ \E p \in plans :
        /\ k < Len(p.cmds)
        /\ LET c == p.cmds[k + 1] IN
           IF c.s = 1
           THEN /\ mem' = mem
                /\ rd' = [rd EXCEPT !.rsec = c.u, !.tsec = c.u, !.cache = p.imgs[c.ph]]
                /\ last' = last
           ELSE /\ mem' = Store(lay, mem, Landed(lay, c.u, rd.tsec), c.d)
                /\ rd' = [rd EXCEPT !.shadow = SetUnit(lay, rd.shadow, c.u, c.d), !.cache = p.imgs[c.ph]]
                /\ last' = [u |-> Landed(lay, c.u, rd.tsec), ph |-> c.ph, any |-> TRUE]
    /\ k' = k + 1
    /\ UNCHANGED <<lay, plans, pc, op, msg>>

Finish ==
    /\ pc = "run"
    /\ \E p \in plans : /\ k = Len(p.cmds) /\ pc' = (IF p.res = "ok" THEN "done" ELSE "crashed")
                        /\ rd' = [rd EXCEPT !.cache = p.imgs[3], !.ext = p.ext]
    /\ UNCHANGED <<lay, mem, plans, k, op, msg, last>>

PowerCut ==
    /\ Cuts /\ pc = "run"
    /\ pc' = "cut"
    /\ UNCHANGED <<lay, mem, plans, k, op, msg, last, rd>>

\* where faults are explored exhaustively: the first and the last command of every phase, and every sector select
FaultPoint(p, i) == IF p.cmds[i].s = 1 \/ i = 1 \/ i = Len(p.cmds) THEN TRUE
                    ELSE p.cmds[i - 1].ph # p.cmds[i].ph \/ p.cmds[i + 1].ph # p.cmds[i].ph
\* a transient fault: the next command is not executed by the tag and the operation ends with a tag command error
\* (for SECTOR SELECT packet 2: a NAK or a garbled answer, never silence - silence IS the acknowledgement)
FaultAt ==
    /\ pc = "run" /\ rd.nf < MaxFaults
    /\ \E p \in plans :
        /\ k < Len(p.cmds) /\ FaultPoint(p, k + 1)
        /\ rd' = [rd EXCEPT !.nf = rd.nf + 1, !.cache = p.imgs[p.cmds[k + 1].ph],
                            !.ext = IF p.cmds[k + 1].ph >= 2 THEN p.ext ELSE rd.ext]
    /\ pc' = "failed"
    /\ UNCHANGED <<lay, mem, plans, k, op, msg, last>>

\* the application repeats the same call on the same tag object
Retry ==
    /\ pc = "failed" /\ rd.tries < MaxRetry
    /\ pc' = "run" /\ k' = 0
    /\ \E p \in plans : plans' = {Tagged(PlanOf(p.v), p.v)}
    /\ rd' = [rd EXCEPT !.tries = rd.tries + 1]
    /\ UNCHANGED <<lay, mem, op, msg, last>>

\* the same tag object after a completed format(): Tag.format() drops the NDEF object (tag/__init__.py:305-306), the
\* next access to tag.ndef reads the tag anew - whatever the reader held before the format is forgotten
SessionWrite(n) ==
    /\ Session /\ pc = "done" /\ op = "format" /\ rd.tries = 0
    /\ op' = "write" /\ msg' = NewMsg(n) /\ k' = 0
    /\ LET fr == [FreshReader(lay, mem) EXCEPT !.tries = 1, !.nf = rd.nf] IN
       /\ rd' = fr
       /\ IF n > CodeCap(lay)
          THEN pc' = "rejected" /\ plans' = {}
          ELSE pc' = "run" /\ \E p \in plans :
                   plans' = {Tagged(WritePlanX(lay, fr.cache, fr.shadow, fr.ext, fr.rsec, NewMsg(n), p.v), p.v)}
    /\ UNCHANGED <<lay, mem, last>>

Next == (\E n \in LensFor(lay) : BeginWrite(n)) \/ (\E w \in Wipes : BeginFormat(w))
        \/ DoCmd \/ Finish \/ PowerCut \/ FaultAt \/ Retry \/ (\E n \in LensFor(lay) : SessionWrite(n))
Spec == Init /\ [][Next]_vars

\* ------------------------------------------------------------------ invariants
All(L) == 0 .. (Size(L.mem0) - 1)
RoundTrip   == pc = "done" => RoundTripP(lay, mem, op, msg)                                  \* C01
CapSound    == CapSoundP(lay)                                                                \* C01
RejectEarly == pc = "rejected" => k = 0 /\ (rd.tries = 0 => mem = lay.mem0)                  \* C01
NoCrash     == pc # "crashed"                                                                \* C01
Atomic      == AtomicP(lay, mem, op, msg)                                                    \* C02
Confined    == ConfinedP(lay, mem, All(lay))                                                 \* C03
UnitsInArea == last.any => UnitInAreaP(lay, last.u)                                          \* C03
LockOneWay  == OneWayP(lay, mem, All(lay))                                                   \* C03
Coherent    == CoherentP(lay, mem, rd.shadow)                                                \* C01/C02 with retry
SectorSync  == rd.rsec = rd.tsec                                                             \* C03 with sectors
\* characterisation of the as-is code: Atomic fails only while a 3-byte length field that straddles
\* write units is being committed; the only crash is the empty message (or a format whose
\* terminator slot is beyond the memory); the area is left only by the T2 format terminator
IsFixed == \A p \in plans : p.v = "fixed"
AtomicButStraddle == Atomic \/ (op = "write" /\ last.ph = 3 /\ Len(msg) >= LongLen /\ Straddle(lay))
CrashOnlyKnown    == pc = "crashed" => \/ op = "write" /\ msg = <<>>
                                       \/ op = "format" /\ lay.fmt = "T2" /\ TermSlotBad(lay)
FormatSlip        == op = "format" /\ lay.fmt = "T2" /\ TermSlotBad(lay)
ConfinedButFormat == Confined \/ FormatSlip
UnitsButFormat    == UnitsInArea \/ FormatSlip
CoherentButFormat == Coherent \/ FormatSlip
\* the same invariants restricted to the fixed variant (one TLC run explores both variants)
FxNoCrash     == IsFixed => NoCrash
FxAtomic      == IsFixed => Atomic
FxConfined    == IsFixed => Confined
FxUnitsInArea == IsFixed => UnitsInArea
=============================================================================
