SPECIFICATION Spec
CONSTANTS
  PwdParts = {"p0", "p1"}
  PackParts = {"q0", "q1"}
  Variants = {"a"}
  MaxChal = 2
  Vals = {"x", "y"}
  Blocks = {"b1", "b2"}
  MaxAdv = 1
  MaxOps = 3
  Kinds = {"lite", "lites", "ntag"}
  Defects = {"lites_none_subscript", "lites_protect_encode", "ndef_none_subscript"}
  AdvKinds = {"flipdata", "flipmac", "swap", "replay", "pad", "count"}
  InitP = {"p0", "p1"}
  InitQ = {"q0"}
  InitBlk = "distinct"
INVARIANT Reached
INVARIANT TypeOK
INVARIANT AuthSound
INVARIANT AuthComplete
INVARIANT ProtectKey
INVARIANT ProtectThenAuth
INVARIANT MacReadFresh
INVARIANT MacReadAuthentic
INVARIANT MacReadComplete
INVARIANT NdefVerified
CHECK_DEADLOCK FALSE
