------------------------- MODULE MC_LlcpCollect -------------------------
(* Model-checking wrapper of LlcpCollect: SAP layouts (tuples cannot be written in a .cfg). *)
EXTENDS LlcpCollect
LayQueues   == {<<"ldl", "ldl">>, <<"raw", "ldl">>, <<"ldl", "raw">>}
LaySd       == {<<"ldl">>}
LayDlc      == {<<"dlc">>, <<"ldl", "dlc">>, <<"dlc", "ldl">>}
LayDlcT     == LayDlc \cup {<<"dlc", "dlc">>}
LayQuick    == {<<"ldl">>, <<"ldl", "dlc">>, <<"raw", "ldl">>}
LayThorough == {<<"ldl">>, <<"dlc">>, <<"ldl", "ldl">>, <<"ldl", "dlc">>, <<"dlc", "ldl">>, <<"raw", "ldl">>,
                <<"ldl", "raw">>, <<"dlc", "dlc">>, <<"raw", "dlc", "ldl">>}
=============================================================================
