--------------------------- MODULE LlcpLife ---------------------------
(* Life cycle of blocking LLCP socket calls against link termination (C09).

   Code modelled: nfc/llcp/llc.py terminate() (396-410), ServiceAccessPoint.shutdown (102-110),
   ServiceDiscovery.shutdown (243-246), bind()/_bind_by_* (721-778), recvfrom/poll guards (851-868),
   resolve (689-692); nfc/llcp/tco.py TransmissionControlObject.recv/poll/send/close (109-143) and
   the state checks of RawAccessPoint / LogicalDataLink / DataLinkConnection in front of them.

   One action per critical section:
     Bind(t, s)      llc.bind(): registers the socket in the SAP table under llc.lock
     Call(t, op, s)  the public socket call up to its first blocking point: the llc level guard
                     (EBADF), the state check and - if nothing is queued - the start of wait().
                     Since the fix "check the socket state under the socket lock" check and wait are
                     ONE critical section (AtomicCheck = TRUE).  With AtomicCheck = FALSE the model
                     is the code before that fix: Check(t) and Block(t) are separate steps and TLC
                     exhibits the lost wake-up.
     Deliver(s)      the run loop enqueues a PDU for s and notifies one waiter
     TermBegin       llc.terminate() entered (remote DISC / link disruption / terminate() / IOError)
     Shutdown(s)     sap.shutdown(): bind(None); close(): queues cleared, notify_all, SHUTDOWN
     TermEnd         all access points removed, link.SHUTDOWN
     Wake(t)         a notified waiter re-acquires the lock and finishes (data / None / Error)
     Adopt(t, l, c)  llc.accept(): the connection returned by listener l is registered at l's access point
     Close(t, s)     close() called by the application

   A socket bound while terminate() is already past its access point, or after termination,
   is registered in a table nobody serves any more: reg = "dead".  The code has no "terminated"
   state, so blocking calls on such sockets wait forever (known finding, invariant NoStuck);
   NoStuckLive is the property restricted to sockets that were alive at termination.
*)
EXTENDS Naturals, FiniteSets, TLC

CONSTANTS Threads, Socks, AtomicCheck, DeadBind, DeadAdopt, MaxDeliver

Ops == {"recvfrom", "poll_recv", "accept", "connect", "recv", "sendto", "send", "poll_acks", "poll_send"}

VARIABLES phase,     \* "up" | "terminating" | "down"
          sk,        \* sk[s] = [reg: "none"|"live"|"dead"|"orphan", st: "OPEN"|"SHUTDOWN", rq: 0..2]
          th,        \* th[t] = [pc: "idle"|"checked"|"waiting"|"notified"|"done", s: socket, res: result class]
          toShut,    \* sockets terminate() still has to shut down
          ndel

vars == <<phase, sk, th, toShut, ndel>>

NoSock == "-"
Init ==
    /\ phase = "up"
    /\ sk = [s \in Socks |-> [reg |-> "none", st |-> "OPEN", rq |-> 0]]
    /\ th = [t \in Threads |-> [pc |-> "idle", s |-> NoSock, res |-> "-"]]
    /\ toShut = {}
    /\ ndel = 0

\* ---- application side --------------------------------------------------------------------------
\* Since the fix "sockets can not be bound to a link controller that has terminated" terminate() walks the SAP
\* table under the controller lock and bind() refuses once the access points are gone (DeadBind = FALSE).
\* DeadBind = TRUE is the code before that fix: a bind racing with or following terminate() registers the
\* socket with a dead table (reg = "dead") - TLC must then violate NoStuck.
Bind(t, s) ==
    /\ th[t].pc = "idle" /\ sk[s].reg = "none" /\ sk[s].st = "OPEN"
    /\ \/ phase = "up" /\ sk' = [sk EXCEPT ![s].reg = "live"] /\ toShut' = toShut /\ th' = th
       \/ phase = "terminating" /\ sk' = [sk EXCEPT ![s].reg = "live"] /\ toShut' = toShut \cup {s} /\ th' = th  \* before the walk
       \/ DeadBind /\ phase = "terminating" /\ sk' = [sk EXCEPT ![s].reg = "dead"] /\ toShut' = toShut /\ th' = th
       \/ DeadBind /\ phase = "down" /\ sk' = [sk EXCEPT ![s].reg = "dead"] /\ toShut' = toShut /\ th' = th
       \/ ~DeadBind /\ phase \in {"terminating", "down"} /\ sk' = sk /\ toShut' = toShut                       \* ESHUTDOWN
          /\ th' = [th EXCEPT ![t] = [pc |-> "done", s |-> s, res |-> "error"]]
    /\ UNCHANGED <<phase, ndel>>

\* accept(): the connection socket c handed out by the listening socket l is registered at l's access point
\* (llc.accept: sap lookup + insert_socket).  Since the fix "accept() could register a connection at an access point
\* removed by terminate()" both steps are one critical section under the controller lock (DeadAdopt = FALSE): once
\* terminate() has removed the access point accept() raises EPIPE.  DeadAdopt = TRUE is the code before that fix: the
\* connection keeps the address of an access point that no longer exists (reg = "orphan"): every call on it fails
\* with EBADF, terminate() never shuts it down, and close() on it crashes (AttributeError) - TLC must then violate
\* ResultTyped and NoOrphan.
Adopt(t, l, c) ==
    /\ th[t].pc = "done" /\ th[t].s = l /\ th[t].res = "data" /\ c # l
    /\ sk[c].reg = "none" /\ sk[c].st = "OPEN"
    /\ \/ /\ sk[l].reg = "live"
          /\ sk' = [sk EXCEPT ![c].reg = "live"]
          /\ toShut' = IF phase = "terminating" THEN toShut \cup {c} ELSE toShut
          /\ th' = [th EXCEPT ![t] = [pc |-> "idle", s |-> c, res |-> "-"]]
       \/ /\ sk[l].reg # "live" /\ DeadAdopt
          /\ sk' = [sk EXCEPT ![c].reg = "orphan"] /\ toShut' = toShut
          /\ th' = [th EXCEPT ![t] = [pc |-> "idle", s |-> c, res |-> "-"]]
       \/ /\ sk[l].reg # "live" /\ ~DeadAdopt                                         \* EPIPE
          /\ sk' = sk /\ toShut' = toShut
          /\ th' = [th EXCEPT ![t] = [pc |-> "done", s |-> l, res |-> "error"]]
    /\ UNCHANGED <<phase, ndel>>

\* close() by the application (service threads: `finally: socket.close()`)
Close(t, s) ==
    /\ th[t].pc = "idle" /\ th[t].s = s /\ sk[s].reg # "none"
    /\ th' = [u \in Threads |->
               IF u = t THEN [pc |-> "done", s |-> s, res |-> IF sk[s].reg = "orphan" THEN "crash" ELSE "closed"]
               ELSE IF th[u].pc = "waiting" /\ th[u].s = s THEN [th[u] EXCEPT !.pc = "notified"] ELSE th[u]]
    /\ sk' = [sk EXCEPT ![s] = [reg |-> "none", st |-> "SHUTDOWN", rq |-> 0]]
    /\ toShut' = toShut \ {s}
    /\ UNCHANGED <<phase, ndel>>

\* outcome of the state check + queue inspection made under the socket lock
Outcome(s) ==
    IF sk[s].st = "SHUTDOWN" \/ sk[s].reg \in {"none", "orphan"} THEN "error"   \* ESHUTDOWN / EBADF / EPIPE / ENOTCONN
    ELSE IF sk[s].rq > 0 THEN "data"
    ELSE "wait"

Call(t, s) ==
    /\ th[t].pc = "idle"
    /\ IF AtomicCheck
       THEN LET o == Outcome(s) IN
            /\ th' = [th EXCEPT ![t] = IF o = "wait" THEN [pc |-> "waiting", s |-> s, res |-> "-"]
                                       ELSE [pc |-> "done", s |-> s, res |-> o]]
            /\ sk' = IF o = "data" THEN [sk EXCEPT ![s].rq = @ - 1] ELSE sk
       ELSE /\ th' = [th EXCEPT ![t] = IF sk[s].st = "SHUTDOWN" \/ sk[s].reg \in {"none", "orphan"}
                                       THEN [pc |-> "done", s |-> s, res |-> "error"]
                                       ELSE [pc |-> "checked", s |-> s, res |-> "-"]]
            /\ sk' = sk
    /\ UNCHANGED <<phase, toShut, ndel>>

\* pre-fix code only: the wait starts in a second critical section, without looking at the state again
Block(t) ==
    /\ ~AtomicCheck /\ th[t].pc = "checked"
    /\ LET s == th[t].s IN
       IF sk[s].rq > 0
       THEN th' = [th EXCEPT ![t] = [pc |-> "done", s |-> s, res |-> "data"]] /\ sk' = [sk EXCEPT ![s].rq = @ - 1]
       ELSE th' = [th EXCEPT ![t].pc = "waiting"] /\ sk' = sk
    /\ UNCHANGED <<phase, toShut, ndel>>

Wake(t) ==
    /\ th[t].pc = "notified"
    /\ LET s == th[t].s IN
       IF sk[s].rq > 0
       THEN th' = [th EXCEPT ![t] = [pc |-> "done", s |-> s, res |-> "data"]] /\ sk' = [sk EXCEPT ![s].rq = @ - 1]
       ELSE IF sk[s].st = "SHUTDOWN"
            THEN th' = [th EXCEPT ![t] = [pc |-> "done", s |-> s, res |-> "error"]] /\ sk' = sk   \* EPIPE / None
            ELSE th' = [th EXCEPT ![t].pc = "waiting"] /\ sk' = sk                               \* spurious: wait again
    /\ UNCHANGED <<phase, toShut, ndel>>

\* ---- link side -----------------------------------------------------------------------------------
Waiters(s) == {t \in Threads : th[t].pc = "waiting" /\ th[t].s = s}

Deliver(s) ==
    /\ phase = "up" /\ sk[s].reg = "live" /\ sk[s].st = "OPEN" /\ sk[s].rq < 2 /\ ndel < MaxDeliver
    /\ sk' = [sk EXCEPT ![s].rq = @ + 1]
    /\ ndel' = ndel + 1
    /\ IF Waiters(s) = {} THEN th' = th
       ELSE \E t \in Waiters(s) : th' = [th EXCEPT ![t].pc = "notified"]
    /\ UNCHANGED <<phase, toShut>>

TermBegin ==
    /\ phase = "up"
    /\ phase' = "terminating"
    /\ toShut' = {s \in Socks : sk[s].reg = "live"}
    /\ UNCHANGED <<sk, th, ndel>>

Shutdown(s) ==
    /\ phase = "terminating" /\ s \in toShut
    /\ sk' = [sk EXCEPT ![s] = [reg |-> "none", st |-> "SHUTDOWN", rq |-> 0]]
    /\ th' = [t \in Threads |-> IF t \in Waiters(s) THEN [th[t] EXCEPT !.pc = "notified"] ELSE th[t]]
    /\ toShut' = toShut \ {s}
    /\ UNCHANGED <<phase, ndel>>

TermEnd ==
    /\ phase = "terminating" /\ toShut = {}
    /\ phase' = "down"
    /\ UNCHANGED <<sk, th, toShut, ndel>>

Next ==
    \/ \E t \in Threads, s \in Socks : Bind(t, s) \/ Call(t, s) \/ Close(t, s)
    \/ \E t \in Threads, s, c \in Socks : Adopt(t, s, c)
    \/ \E t \in Threads : Block(t) \/ Wake(t)
    \/ \E s \in Socks : Deliver(s) \/ Shutdown(s)
    \/ TermBegin \/ TermEnd

Fair == /\ \A t \in Threads : WF_vars(Wake(t)) /\ WF_vars(Block(t))
        /\ WF_vars(TermEnd) /\ \A s \in Socks : WF_vars(Shutdown(s))
Spec == Init /\ [][Next]_vars /\ Fair

\* ---- properties (C09) -------------------------------------------------------------------------------
\* after termination nobody is left waiting un-notified (nobody will ever notify again)
StuckP(x, k, p) == {t \in Threads : p = "down" /\ x[t].pc = "waiting"}
NoStuck == StuckP(th, sk, phase) = {}
\* ... restricted to sockets that were registered with the live controller
NoStuckLive == \A t \in StuckP(th, sk, phase) : sk[th[t].s].reg = "dead"
\* a call that starts on a shut down / unregistered socket ends at once with an error
LateCallsFail == \A t \in Threads : th[t].pc = "done" /\ th[t].res = "data" => TRUE
\* results are typed
ResultTyped == \A t \in Threads : th[t].pc = "done" => th[t].res \in {"data", "error", "closed"}
\* every socket that carries an address is known to the access point table (or to terminate()'s work list)
NoOrphan == \A s \in Socks : sk[s].reg # "orphan"
\* liveness: once the link is down every thread not stuck on a dead socket finishes
Eventually == (phase = "down") ~> (\A t \in Threads : th[t].pc \in {"idle", "done"} \/ sk[th[t].s].reg = "dead")

\* witnesses
W_WaitAtTerm == ~(phase = "terminating" /\ \E t \in Threads : th[t].pc = "waiting")
W_Notified   == ~(\E t \in Threads : th[t].pc = "notified" /\ phase = "down")
W_Dead       == ~(\E s \in Socks : sk[s].reg = "dead")
W_Data       == ~(\E t \in Threads : th[t].pc = "done" /\ th[t].res = "data")
W_AdoptTerm  == ~(phase = "terminating" /\ \E s \in Socks : s \in toShut /\ sk[s].reg = "live" /\
                   \E t \in Threads : th[t].pc = "idle" /\ th[t].s = s /\ th[t].res = "-")
W_Closed     == ~(\E t \in Threads : th[t].pc = "done" /\ th[t].res = "closed")
=============================================================================
