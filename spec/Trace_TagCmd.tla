------------------------- MODULE Trace_TagCmd -------------------------
(* Trace validation for TagCmd: one trace = one public tag operation of a real nfcpy tag object on a
   simulated tag behind a fake clf that injects the fault script.  const = [proto, nRetry, clean (hashes of
   the commands of the fault-free run), cleanRet, doc (documented failure values of the operation)].
   Events: Send h cc tp | Sense res | Answer rk ex | Fault k ex | Ret kind errno val tp | Cover N bursts scripts S gone.
   A "Cover" trace carries the list of scripts the harness ran for one (tag class, operation): it must be
   exactly TagCmd!Scripts(N, bursts) -- the harness cannot skip a case. *)
EXTENDS TagCmd, Json, IOUtils, TLCExt

VARIABLES st, tid, l
tvars == <<st, tid, l>>

Traces == ndJsonDeserialize(IOEnv.TRACE_FILE)
T == Traces[tid].ev
C == Traces[tid].const
ToSet(s) == {s[i] : i \in DOMAIN s}
P == [proto |-> C.proto, nRetry |-> C.nRetry, clean |-> C.clean,
      cleanRet |-> [kind |-> C.cleanRet.kind, errno |-> C.cleanRet.errno, val |-> C.cleanRet.val], doc |-> ToSet(C.doc),
      gone |-> C.gone, noraise |-> C.noraise]

TInit == tid \in 1..Len(Traces) /\ l = 1 /\ st = [StInit EXCEPT !.tgt = ~P.gone]

Ev == T[l]
IsEv(a) == l <= Len(T) /\ Ev.e = a /\ l' = l + 1 /\ UNCHANGED tid

GSend   == IsEv("Send") /\ st' = DoSend(st, P, Ev.h, Ev.cc, Ev.tp)
GSense  == IsEv("Sense") /\ st' = DoSense(st, P, Ev.res)
GAnswer == IsEv("Answer") /\ st' = DoAnswer(st, P, Ev.rk, Ev.ex)
GFault  == IsEv("Fault") /\ Ev.k \in Kinds /\ st' = DoFault(st, P, Ev.k, Ev.ex)
GRet    == IsEv("Ret") /\ st' = DoRet(st, P, [kind |-> Ev.kind, errno |-> Ev.errno, val |-> Ev.val], Ev.tp)
GCover  == /\ IsEv("Cover") /\ UNCHANGED st
           /\ ToSet(Ev.scripts) = Scripts(Ev.N, ToSet(Ev.bursts))
           /\ Len(Ev.scripts) = Cardinality(Scripts(Ev.N, ToSet(Ev.bursts)))
           /\ ToSet(Ev.mixed) = MixedScripts(Ev.N) /\ Len(Ev.mixed) = Cardinality(MixedScripts(Ev.N))
           /\ Ev.mac = [i \in 1..Ev.M |-> i]            \* "MAC does not verify" at every one of the M MAC-protected reads
           /\ Ev.gone = [i \in 1..Ev.S |-> i]          \* "tag gone" at every one of the S sense calls of the operation
Guarded == GSend \/ GSense \/ GAnswer \/ GFault \/ GRet \/ GCover

InvNames == <<"Bounded", "NoResendAfterAnswer", "Retries", "OnlyTagError", "AtMostOncePerAnswer", "TargetFollowsSense">>
InvP(n) == CASE n = "Bounded" -> BoundedP(st', P)
             [] n = "NoResendAfterAnswer" -> NoResendAfterAnswerP(st')
             [] n = "Retries" -> RetriesP(st')
             [] n = "OnlyTagError" -> OnlyTagErrorP(st')
             [] n = "AtMostOncePerAnswer" -> AtMostOncePerAnswerP(st')
             [] n = "TargetFollowsSense" -> TargetFollowsSenseP(st')
AllInv == \A i \in DOMAIN InvNames : InvP(InvNames[i])
Real == Guarded /\ AllInv

FailedInv == SelectSeq(InvNames, LAMBDA n : ~ENABLED (Guarded /\ InvP(n)))
NewViol == IF Ev.e = "Send" THEN DoSend(st, P, Ev.h, Ev.cc, Ev.tp).viol
           ELSE IF Ev.e = "Sense" THEN DoSense(st, P, Ev.res).viol
           ELSE IF Ev.e = "Answer" THEN DoAnswer(st, P, Ev.rk, Ev.ex).viol
           ELSE IF Ev.e = "Fault" THEN DoFault(st, P, Ev.k, Ev.ex).viol
           ELSE IF Ev.e = "Ret" THEN DoRet(st, P, [kind |-> Ev.kind, errno |-> Ev.errno, val |-> Ev.val], Ev.tp).viol
           ELSE {}
Ctx == [pos |-> st.pos, att |-> st.att, ph |-> st.ph, cc |-> st.cc, gave |-> st.gave, lastGive |-> st.lastGive]
Why == IF ~ENABLED Guarded THEN <<"guard", Ctx>> ELSE <<"inv", FailedInv, NewViol, Ctx>>

Stuck ==
    /\ l <= Len(T)
    /\ ~ENABLED Real
    /\ PrintT(<<"STUCK", Traces[tid].id, l, Ev.e, Why>>)
    /\ l' = Len(T) + 2
    /\ UNCHANGED <<st, tid>>

TNext == Real \/ Stuck
TSpec == TInit /\ [][TNext]_tvars
Done == (l = Len(T) + 1) => PrintT(<<"ACCEPT", Traces[tid].id>>)
=============================================================================
