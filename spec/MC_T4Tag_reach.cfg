SPECIFICATION Spec
CONSTANTS
  B = 4
  LcMax = 4
  LeMax = 4
  Variants = {"fixed"}
  Mfss = {9}
  Extras = {0, 2}
  NlenSizes = {2}
  MLcs = {3, 6}
  MLes = {3, 6}
  WFlags = {0, 255}
  OldLens = {0, 3}
  MsgKinds = {"a"}
  WithCut = TRUE
  WithFormat = TRUE
  WithOutage = TRUE
  Retries = 2
CHECK_DEADLOCK FALSE
