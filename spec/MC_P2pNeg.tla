--------------------------- MODULE MC_P2pNeg ---------------------------
EXTENDS P2pNeg
MC_Quick == {"dep", "ml", "opt", "lto"}
MC_Thorough == {"dep", "ml", "opt", "lto", "depx", "llcp"}
MC_NoClasses == {}
\* data link connections: every way of addressing x either opener x every announcement class of CONNECT and of CC, on
\* the 36 pairs of link MIUs (the first 36 configurations of the "ml" sub-grid; the link timeouts play no part)
MC_Ml == {"ml"}
MC_MiuAll == {"none", "zero", "below", "at", "above", "max"}
MC_RwAll == {NoTlv, 0, 2, 15}
\* both sides open a connection in the same behaviour (the announcements of four ends side by side)
MC_MiuTwo == {"none", "above"}
MC_RwTwo == {NoTlv, 2}
MC_ConnInit == Init /\ \E k \in 0..35 : c = GridCfg("ml", k)
MC_ConnSpec == MC_ConnInit /\ [][Next]_vars
\* (both sides opening: the link MIU pairs (128,2175) (2175,128) (129,129) (248,1024) (1024,248) (2174,2175) (2175,2175))
MC_Conn2Init == Init /\ \E k \in {30, 5, 7, 20, 15, 34, 35} : c = GridCfg("ml", k)
MC_Conn2Spec == MC_Conn2Init /\ [][Next]_vars
\* reachability witnesses inside the checking run: an always-true invariant that reports the first state (per TLC
\* worker) in which a witness predicate W_x is false, instead of one TLC run per witness
ConnWitNames == <<"W_BySap", "W_ByName", "W_Resolved", "W_NoTlv", "W_Clamped", "W_Win">>
ConnWit(i) == CASE i = 1 -> W_BySap [] i = 2 -> W_ByName [] i = 3 -> W_Resolved
                [] i = 4 -> W_NoTlv [] i = 5 -> W_Clamped [] i = 6 -> W_Win
MC_ConnWitLog == \A i \in 1..6 : (~ConnWit(i) /\ TLCGet(i) = 0) => (TLCSet(i, 1) /\ PrintT(<<"REACHED", ConnWitNames[i]>>))
ASSUME \A i \in 1..6 : TLCSet(i, 0)
=============================================================================
