---------------------------- MODULE MC_IsoDep ----------------------------
(* constants for the exhaustive runs of IsoDep (cfg files cannot hold records) *)
EXTENDS IsoDep
CfgsQuick == {[miu |-> 2, rmiu |-> 2, fsc |-> 5, nRetry |-> n] : n \in 0..2}
Cfgs01 == {[miu |-> 2, rmiu |-> 2, fsc |-> 5, nRetry |-> n] : n \in 0..1}
CfgsThorough == {[miu |-> 2, rmiu |-> r, fsc |-> 5, nRetry |-> n] : n \in 0..2, r \in {1, 2}}
=============================================================================
