SPECIFICATION Spec
CONSTANTS
  MaxOpts = 1
  KMax = 1
  TMax = 3
CONSTRAINT NoTermBound
CHECK_DEADLOCK FALSE
