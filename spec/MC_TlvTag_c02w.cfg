SPECIFICATION Spec
CONSTANTS
  LongLen = 5
  Layouts <- MCLayouts
  BaseLens = {0, 1, 4, 5, 6, 9}
  Wipes = {}
  Variants = {"asis", "fixed"}
  Cuts = TRUE
  SectorSize = 32
  MaxFaults = 1
  MaxRetry = 1
  Session = FALSE
  Kinds = {"T2"}
  Sizes = {3}
  Pads = {0, 2, 4}
  Props = {0}
  CtlFroms = {}
  MemSizes = {1}
  LockBits = {}
  CtlTypes = {2}
  TwoCtl = FALSE
  OldLens = {1, 5, 9}
INVARIANT W_CutNew
INVARIANT W_CutOld
INVARIANT W_CutEmpty
INVARIANT W_Straddle
INVARIANT W_Mixture
CHECK_DEADLOCK FALSE
