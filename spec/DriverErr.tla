----------------------------- MODULE DriverErr -----------------------------
(* C13 -- drivers report RF and host-link failures only as documented errors.

   An exchange (ContactlessFrontend.exchange() with clf.target as sense()/listen()
   left it) is, per driver and target kind, a fixed sequence of HOST COMMANDS
   Cmds(d,k) (one element per chip command frame / socket call of the code:
   pn53x.Device.send_cmd_recv_rsp = ReadRegister, WriteRegister, RFConfiguration,
   In*; send_rsp_recv_cmd = TgResponseToInitiator, TgGetInitiatorCommand or the
   CIU register polling of _tt3_send_rsp_recv_cmd; rcs380 = InSetRF,
   InSetProtocol.., InCommRF / TgCommRF; udp = sendto, select+recvfrom).  The last
   element is the RF exchange itself ("final"), the others are preparatory.

   One behaviour = one exchange with ONE fault f injected at host command `at`.
   Allowed(d,k,at,f) is the set of documented outcome classes, written from the
   property statement and the driver docstrings.  The property:
        outcome \in Allowed   (never Internal / Hang / an undocumented None).
   The space is finite; TLC enumerates it completely (MC_DriverErr.cfg) and checks
   that the table is total, non-empty and class-consistent; the binding executes
   every point of the same product on the real drivers (Trace_DriverErr).

   OPERATIONS (second half of the module).  Discovery and activation --
   ContactlessFrontend.sense(target) / listen(target, timeout), i.e. mute() followed
   by the driver's sense_tta/ttb/ttf/dep or listen_tta/ttb/ttf/dep -- are modelled
   the same way: an operation kind (S.. / L..) fixes the target argument and what
   the remote device does on the air; OpCmds(d,k) is the host command sequence of
   the fault-free run as the driver code has it, Expect(d,k) the documented result
   (a target, None, or UnsupportedTargetError where nfc/clf/device.py says the
   method or bit rate is not supported), OpAllowed the documented outcome classes
   when ONE fault hits host command `at`:  Target | NoTarget | Unsupported | IOErr.  *)
EXTENDS Naturals, Sequences, FiniteSets, TLC

Drivers == {"pn531", "pn532", "pn533", "rcs956", "acr122", "arygon", "rcs380", "udp"}
Pn53xLink == {"pn531", "pn532", "pn533", "rcs956", "arygon"}   \* chip's own link: ACK + frames
Pn53xFam  == Pn53xLink \cup {"acr122"}
Pn532ish  == {"pn532", "pn533", "arygon"}

InitKinds   == {"TT1", "TT1CIU", "TT2", "TT4A", "TT4B", "TT3", "DEPA", "DEPF", "DEPACT"}
TargetKinds == {"LTT2", "LTT4", "LTT3", "LDEP", "LDEPRX"}
\* operations: sense (S..) and listen (L..) scenarios, see the second half of the module
SttbKinds   == {"STTB106", "STTB212", "STTB424", "STTB848"}
SttfKinds   == {"STTF212", "STTF424"}
SdepKinds   == {"SDEP106", "SDEP212", "SDEP424"}
SenseKinds  == {"STTA2", "STTA4", "STTADEP", "STTA1", "STTA0", "STTA212"} \cup SttbKinds \cup SttfKinds \cup SdepKinds
LfKinds     == {"LF212", "LF424"}
LdepKinds   == {"LDEPA", "LDEPF", "LDEPACT", "LDEPDSL", "LDEPRLS"}
ListenKinds == {"LA2", "LA4", "LA4D", "LADEP", "LA212", "LB106"} \cup LfKinds \cup LdepKinds
\* the frontend is closed by another thread while exchange() / sense() / listen() waits for the frontend lock
\* ("device gone" seen at the frontend): no host command at all, the documented answer is IOError(ENODEV)
CloseKinds  == {"XCLOSE", "SCLOSE", "LCLOSE"}
OpKinds     == SenseKinds \cup ListenKinds \cup CloseKinds
\* PAYLOAD LENGTH kinds "LI<n>" / "LT<n>": the exchange of kind TT4A (initiator) resp. LDEP (target) with a
\* payload of n bytes, n at the driver's host frame format boundaries and at its documented maximum
\* (get_max_send_data_size): PN532/PN533/RC-S956 switch from the normal to the extended information frame at
\* 254 payload bytes and take 263; PN531 / ACR122 take 252; RC-S380 and udp 290.  The allowed outcomes are those
\* of the base kind - a payload length never changes the class of a result, with or without a fault.
LenVals(d) == IF d \in {"pn532", "pn533", "rcs956", "arygon"} THEN {252, 253, 254, 255, 262, 263}
              ELSE IF d \in {"pn531", "acr122"} THEN {251, 252} ELSE {289, 290}
LenAll == {251, 252, 253, 254, 255, 262, 263, 289, 290}
LI(n) == "LI" \o ToString(n)
LT(n) == "LT" \o ToString(n)
LenInitKinds == {LI(n) : n \in LenAll}
LenTargetKinds == {LT(n) : n \in LenAll}
LenKindsAll == LenInitKinds \cup LenTargetKinds

ExKinds0(d) ==
  CASE d = "pn531"  -> (InitKinds \ {"TT1", "TT1CIU", "TT4B"}) \cup TargetKinds
    [] d \in Pn532ish -> InitKinds \cup TargetKinds
    [] d = "rcs956" -> (InitKinds \ {"TT1CIU"}) \cup {"LTT2", "LDEP", "LDEPRX"}
    [] d = "acr122" -> InitKinds \ {"TT1", "TT1CIU"}
    [] d = "rcs380" -> (InitKinds \ {"TT1CIU", "DEPACT"}) \cup TargetKinds
    [] d = "udp"    -> (InitKinds \ {"TT1CIU", "DEPACT"}) \cup {"LTT2", "LTT4", "LTT3", "LDEP"}

\* TARGET VARIANTS.  exchange() talks to the target that sense() / listen() activated, and the drivers' exchange code
\* looks at that target: pn53x.Device._send_cmd_recv_rsp maps brty_send / brty_recv to the CIU Tx/RxSpeed and
\* Tx/RxFraming register fields and TxAuto.Force100ASK, takes sens_res / sensf_res / atr_res for "active mode",
\* rid_res for "Type 1 Tag" and SEL_RES bits 6,5 = 00 for "Type 2 Tag, check CRC_A here"; rcs380 looks its InSetRF
\* settings up by bit rate, its InSetProtocol settings by technology, and takes the Type 2 path for 106A with
\* SEL_RES bits 6,5 = 00 only; udp writes the bit rate into every datagram.  So the activated target is a dimension
\* of the exchange: a variant [b, r, a] is the exchange of BASE kind b (what is exchanged, which host commands) with
\* a target of bit rate / technology r and attribute class a
\*     a = SEL_RES value (hex) for the Type A kinds: 00 / 08 / 18 Type 2 and MIFARE Classic 1K / 4K (bits 6,5 = 00),
\*         20 Type 4A, 40 NFC-DEP, 60 both (Type 4A chosen = no atr_res, NFC-DEP chosen = atr_res)
\*     a = "psl": the NFC-DEP target was discovered at 106A and switched to r by PSL_REQ (nfc.dep.Initiator.activate
\*         assigns target.brty): SENS_RES / SEL_RES are still there, the technology is F
\* over EVERYTHING the driver's sense_tta / sense_ttb / sense_ttf / sense_dep accept (SenseCovered below ties this to
\* the sense operations whose documented result is a target).  The base kinds are the variants DefVar(b); every
\* other variant is a kind of its own, named "b@r" or "b@r/a".  A variant never changes the class of a result:
\* fault-free it is Data, with a fault the allowed outcomes are those of the base kind.
RatesA(d) == IF d \in {"rcs380", "udp"} THEN {"106A", "212A", "424A"} ELSE {"106A"}
RatesB(d) == IF d = "pn531" THEN {} ELSE IF d = "pn533" THEN {"106B", "212B", "424B", "848B"}
             ELSE IF d \in {"rcs380", "udp"} THEN {"106B", "212B", "424B"} ELSE {"106B"}
RatesF    == {"212F", "424F"}
RatesAct(d) == IF d \in Pn53xFam THEN {"106A", "212F", "424F"} ELSE {}       \* sense_dep: active communication mode
Tech(r) == IF r \in {"106A", "212A", "424A"} THEN "A" ELSE IF r \in RatesF THEN "F" ELSE "B"
Var(b, r, a) == [b |-> b, r |-> r, a |-> a]
VK(v) == v.b \o "@" \o v.r \o (IF v.a = "" THEN "" ELSE "/" \o v.a)
DefVar(b) == CASE b = "TT2" -> Var(b, "106A", "00") [] b = "TT4A" -> Var(b, "106A", "20")
               [] b \in {"DEPA", "LDEP", "LDEPRX"} -> Var(b, "106A", "40")
               [] b = "LTT2" -> Var(b, "106A", "00") [] b = "LTT4" -> Var(b, "106A", "20")
               [] b = "TT4B" -> Var(b, "106B", "") [] b \in {"TT3", "LTT3"} -> Var(b, "212F", "")
               [] b \in {"DEPF", "DEPACT"} -> Var(b, "424F", "") [] OTHER -> Var(b, "106A", "")
Vars(d) ==
  LET has(b) == b \in ExKinds0(d)
      when(b, S) == IF has(b) THEN S ELSE {} IN
       {Var("TT1", r, "") : r \in when("TT1", RatesA(d))}
  \cup {Var("TT1CIU", r, "") : r \in when("TT1CIU", {"106A"})}
  \cup {Var("TT2", r, "00") : r \in RatesA(d)} \cup {Var("TT2", "106A", a) : a \in {"08", "18"}}
  \cup {Var("TT4A", r, "20") : r \in RatesA(d)} \cup {Var("TT4A", "106A", "60")}
  \cup {Var("DEPA", r, "40") : r \in RatesA(d)} \cup {Var("DEPA", "106A", "60")}
  \cup {Var("DEPA", r, "psl") : r \in RatesF}
  \cup {Var("TT4B", r, "") : r \in RatesB(d)}
  \cup {Var("TT3", r, "") : r \in RatesF} \cup {Var("DEPF", r, "") : r \in RatesF}
  \cup {Var("DEPACT", r, "") : r \in when("DEPACT", RatesAct(d))}
  \* acting as target: Type 3 Tag emulation at both rates, NFC-DEP target activated at 106A / 212F / 424F
  \cup {Var("LTT3", r, "") : r \in when("LTT3", RatesF)}
  \cup {Var("LDEP", r, IF r = "106A" THEN "40" ELSE "") : r \in when("LDEP", {"106A", "212F", "424F"})}
  \cup {DefVar(b) : b \in ExKinds0(d) \cap {"LTT2", "LTT4", "LDEPRX"}}
NewVars(d) == {v \in Vars(d) : v # DefVar(v.b)}
VarKinds(d) == {VK(v) : v \in NewVars(d)}
AllNewVars == UNION {NewVars(d) : d \in Drivers}
VarKindsAll == {VK(v) : v \in AllNewVars}
VarOf == [k \in VarKindsAll |-> CHOOSE v \in AllNewVars : VK(v) = k]

BaseKind(k) == IF k \in LenInitKinds THEN "TT4A" ELSE IF k \in LenTargetKinds THEN "LDEP"
               ELSE IF k \in VarKindsAll THEN VarOf[k].b ELSE k
\* bit rate / technology of the target of an exchange kind
BrtyOf(k) == IF k \in VarKindsAll THEN VarOf[k].r ELSE DefVar(BaseKind(k)).r
Mode(k) == IF BaseKind(k) \in TargetKinds THEN "target" ELSE IF k \in SenseKinds THEN "sense"
           ELSE IF k \in ListenKinds THEN "listen" ELSE IF k \in CloseKinds THEN "closed" ELSE "initiator"

\* every driver is asked for every operation: what it does not support must say so as documented
LenKinds(d) == {LI(n) : n \in LenVals(d)} \cup (IF "LDEP" \in ExKinds0(d) THEN {LT(n) : n \in LenVals(d)} ELSE {})
ExKinds(d) == ExKinds0(d) \cup LenKinds(d) \cup VarKinds(d)
Kinds(d) == ExKinds(d) \cup OpKinds

Rep(x, n) == [i \in 1..n |-> x]

\* the host commands of one exchange, in order (names as the simulated chip logs them)
ExCmds(d, kk) ==
  LET k == BaseKind(kk) IN
  IF d = "udp" THEN <<"sendto", "recvfrom">>
  ELSE IF d = "rcs380" THEN
       IF k \in TargetKinds THEN <<"TgCommRF">>
       \* Type F needs no settings beyond the defaults: the second InSetProtocol has nothing to send
       ELSE IF Tech(BrtyOf(kk)) = "F" THEN <<"InSetRF", "InSetProtocol", "InCommRF">>
       ELSE <<"InSetRF", "InSetProtocol", "InSetProtocol", "InCommRF">>
  ELSE \* PN53x family: pn53x.Device.send_cmd_recv_rsp / send_rsp_recv_cmd
       LET pre == <<"ReadRegister", "WriteRegister", "RFConfiguration">> IN
       CASE k = "TT1"    -> pre \o <<"InDataExchange">>
         [] k = "TT1CIU" -> pre \o Rep("WriteRegister", IF d = "pn533" THEN 17 ELSE 2)
                                \o <<"ReadFIFOLevel", "ReadFIFOData">>
         [] k = "LTT3"   -> <<"WriteRegister", "ReadIRq", "WriteRegister", "ReadFIFOLevel", "ReadFIFOData">>
         [] k = "LDEPRX" -> <<"TgGetInitiatorCommand">>
         [] k \in {"LTT2", "LTT4", "LDEP"} -> <<"TgResponseToInitiator", "TgGetInitiatorCommand">>
         [] OTHER        -> pre \o <<"InCommunicateThru">>

----------------------------------------------------------------------------
\* OPERATIONS: ContactlessFrontend.sense() / listen() = mute() + sense_xxx / listen_xxx (+ mute() again when a
\* sense found nothing).  Scenarios:
\*   STTA2/4/DEP  106A, a Type 2 / Type 4A / NFC-DEP (passive) target answers     STTA1  a Type 1 Tag answers
\*   STTA0        nothing answers        STTA212  212A        STTBnnn / STTFnnn  a Type B / Type F target at nnn kbps
\*   SDEPnnn      active mode ATR_REQ at nnn kbps, a target answers
\*   LA2/LA4/LADEP  106A listen, the initiator sends a Type 2 command / RATS + a Type 4 command / ATR_REQ
\*   LA4D         as LA4 but the initiator first deselects and activates again            LA212  212A listen
\*   LB106        Type B listen           LFnnn  Type F listen: SENSF_REQ, then a Type 3 Tag command
\*   LDEPA        NFC-DEP listen, passive 106A: ATR_REQ, DEP_REQ      LDEPF  passive 424F: ATR_REQ, PSL_REQ, DEP_REQ
\*   LDEPACT      active mode 424F: ATR_REQ, DEP_REQ        LDEPDSL / LDEPRLS  passive 106A: ATR_REQ, then DSL_REQ / RLS_REQ
Pers(d) == IF d \in {"acr122", "arygon"} THEN "pn532" ELSE d            \* the chip inside
HasT1(d) == d \in {"pn532", "pn533", "rcs956", "arygon"}               \* InListPassiveTarget brty 4 (acr122: removed)
BrtyB(d) == IF d = "pn531" THEN {} ELSE IF d = "pn533" THEN SttbKinds ELSE {"STTB106"}
Mute(d) == IF d = "rcs956" THEN <<"ResetMode", "RFConfiguration">> ELSE IF d = "rcs380" THEN <<"SwitchRF">>
           ELSE IF d = "udp" THEN <<>> ELSE <<"RFConfiguration">>

\* the documented result of the fault-free operation (nfc/clf/device.py, nfc/clf/__init__.py sense/listen)
Expect(d, k) ==
  IF k \in CloseKinds THEN "IOErr"
  ELSE IF d \in Pn53xFam THEN
       CASE k \in {"STTA2", "STTA4", "STTADEP"} \cup SttfKinds \cup SdepKinds -> "Target"
         [] k = "STTA1" -> IF HasT1(d) THEN "Target" ELSE "NoTarget"
         [] k = "STTA0" -> "NoTarget"
         [] k = "STTA212" -> "Unsupported"
         [] k \in SttbKinds -> IF k \in BrtyB(d) THEN "Target" ELSE "Unsupported"
         [] k \in {"LA212", "LB106"} -> "Unsupported"
         [] d = "acr122" -> "Unsupported"                                  \* no listen mode at all
         [] d = "rcs956" /\ k \in {"LA4", "LA4D"} \cup LfKinds -> "Unsupported"
         [] d = "rcs956" /\ k = "LDEPACT" -> "NoTarget"                    \* active mode target disabled by the driver
         [] k \in {"LDEPDSL", "LDEPRLS"} -> "NoTarget"                    \* deselected / released before any DEP_REQ
         [] OTHER -> "Target"
  ELSE IF d = "rcs380" THEN
       CASE k = "STTA0" -> "NoTarget"
         [] k \in {"STTB848", "LA212", "LB106", "LADEP"} \cup SdepKinds -> "Unsupported"
         [] k \in {"LDEPACT", "LDEPDSL", "LDEPRLS"} -> "NoTarget"           \* passive activation only; deselected
         [] OTHER -> "Target"
  ELSE CASE k \in {"STTA0", "LDEPDSL", "LDEPRLS"} -> "NoTarget"
         [] k \in {"STTB848"} \cup SdepKinds -> "Unsupported"
         [] OTHER -> "Target"

Pn53xOpCmds(d, k) ==
  LET m == Mute(d)
      init == <<"WriteRegister", "TgInitAsTarget">>
      rats == <<"TgResponseToInitiator", "TgGetInitiatorCommand">>
      \* rcs956.listen_dep: mode 0, WaitForSelected, TO, no automatic ATR_RES; ATR_RES goes out by TgSetGeneralBytes
      pre  == IF d = "rcs956" THEN <<"ResetMode", "WriteRegister", "RFConfiguration", "SetParameters">> ELSE <<>>
      atr  == IF d = "rcs956" THEN "TgSetGeneralBytes" ELSE "TgResponseToInitiator"
      psl  == <<"ReadRegister", "WriteRegister", "TgResponseToInitiator", "ReadRegister", "WriteRegister">>
  IN
  CASE Expect(d, k) = "Unsupported" -> m
    [] k = "STTA2" -> m \o <<"InListPassiveTarget", "ReadRegister", "WriteRegister">>
    [] k \in {"STTA4", "STTADEP"} -> m \o <<"InListPassiveTarget">>
    [] k = "STTA1" /\ HasT1(d) -> m \o <<"InListPassiveTarget", "ReadFIFOData", "InListPassiveTarget", "InDataExchange">>
    [] k \in {"STTA1", "STTA0"} -> m \o <<"InListPassiveTarget", "ReadFIFOData">> \o m
    [] k \in SttbKinds -> m \o <<"InListPassiveTarget", "InCommunicateThru", "InCommunicateThru">>
    [] k \in SttfKinds -> m \o <<"ReadRegister", "RFConfiguration", "InListPassiveTarget">>
    [] k \in SdepKinds -> m \o (IF d = "rcs956" THEN <<"RFConfiguration">> ELSE <<>>) \o <<"InJumpForPSL", "WriteRegister">>
    [] k \in {"LA2", "LADEP"} -> m \o init
    [] k = "LA4"  -> m \o init \o rats
    [] k = "LA4D" -> m \o init \o rats \o <<"TgResponseToInitiator", "TgInitAsTarget">> \o rats
    [] k \in LfKinds -> m \o <<"WriteRegister", "WriteRegister", "ReadRegister", "WriteRegister", "ReadFIFOLevel", "ReadFIFOData">>
    [] k = "LDEPACT" /\ d = "rcs956" -> m \o pre \o init
    [] k \in {"LDEPDSL", "LDEPRLS"} -> m \o pre \o init \o <<atr, "TgGetInitiatorCommand">>
    [] k \in {"LDEPA", "LDEPACT"} -> m \o pre \o init \o <<atr, "TgGetInitiatorCommand", "WriteRegister">>
    [] k = "LDEPF" -> m \o pre \o init \o <<atr, "TgGetInitiatorCommand">> \o psl \o <<"TgGetInitiatorCommand", "WriteRegister">>

Rcs380OpCmds(k) ==
  LET m == <<"SwitchRF">>
      ins == <<"InSetRF", "InSetProtocol", "InSetProtocol", "InCommRF">>
      tgs == <<"TgSetRF", "TgSetProtocol", "TgSetProtocol">>
  IN
  CASE k = "LADEP" -> m \o tgs                                   \* sel_res without tag support: refused after the setup
    [] Expect("rcs380", k) = "Unsupported" -> m
    [] k \in {"STTA2", "STTA4", "STTADEP", "STTA212"} ->
         m \o ins \o <<"InSetProtocol", "InSetProtocol", "InCommRF", "InSetProtocol", "InCommRF">>
    [] k = "STTA1" -> m \o ins \o <<"InSetProtocol", "InCommRF">>
    [] k = "STTA0" -> m \o ins \o m
    [] k \in SttbKinds \cup SttfKinds -> m \o ins
    [] k = "LA2" -> m \o tgs \o <<"TgCommRF", "TgSetProtocol">>
    [] k \in {"LA4"} \cup LfKinds -> m \o tgs \o <<"TgCommRF", "TgCommRF", "TgSetProtocol">>
    [] k = "LA4D" -> m \o tgs \o <<"TgCommRF", "TgCommRF", "TgCommRF", "TgCommRF", "TgSetProtocol">>
    [] k = "LDEPA" -> m \o tgs \o <<"TgCommRF", "TgSetProtocol", "TgCommRF">>
    [] k = "LDEPF" -> m \o tgs \o <<"TgCommRF", "TgSetProtocol", "TgCommRF", "TgCommRF", "TgSetRF", "TgCommRF">>
    [] k = "LDEPACT" -> m \o tgs \o <<"TgCommRF", "TgCommRF">>
    [] k \in {"LDEPDSL", "LDEPRLS"} -> m \o tgs \o <<"TgCommRF", "TgSetProtocol", "TgCommRF", "TgCommRF">>

\* udp: one datagram out = sendto, waiting for and reading one datagram = recvfrom, listen binds the port first
UdpOpCmds(k) ==
  LET sr == <<"sendto", "recvfrom">>
      rs == <<"recvfrom", "sendto">>
  IN
  CASE Expect("udp", k) = "Unsupported" -> <<>>
    [] k \in {"STTA2", "STTA4", "STTADEP", "STTA212"} -> sr \o sr \o sr
    [] k = "STTA1" -> sr \o sr
    [] k \in {"STTA0"} \cup SttbKinds \cup SttfKinds -> sr
    [] k \in {"LA2", "LA4", "LA4D", "LADEP", "LA212"} -> <<"bind">> \o rs \o rs \o rs \o <<"recvfrom">>
    [] k \in {"LB106", "LDEPACT"} \cup LfKinds -> <<"bind">> \o rs \o <<"recvfrom">>
    [] k = "LDEPA" -> <<"bind">> \o rs \o rs \o rs \o rs \o <<"recvfrom">>
    [] k = "LDEPF" -> <<"bind">> \o rs \o rs \o rs \o <<"recvfrom">>
    [] k \in {"LDEPDSL", "LDEPRLS"} -> <<"bind">> \o rs \o rs \o rs \o rs \o rs

OpCmds(d, k) == IF k \in CloseKinds THEN <<>> ELSE IF d \in Pn53xFam THEN Pn53xOpCmds(d, k) ELSE IF d = "rcs380" THEN Rcs380OpCmds(k) ELSE UdpOpCmds(k)

Cmds(d, k) == IF k \in OpKinds THEN OpCmds(d, k) ELSE ExCmds(d, k)

\* The target variants are closed under discovery: whatever target a sense operation is documented to return --
\* technology, bit rate and class -- the driver's exchange kinds contain the exchange with that target.
SenseBrty(k) == CASE k = "STTA212" -> "212A"
                  [] k \in {"STTB106", "STTB212", "STTB424", "STTB848"} ->
                       (CASE k = "STTB106" -> "106B" [] k = "STTB212" -> "212B" [] k = "STTB424" -> "424B" [] OTHER -> "848B")
                  [] k \in {"STTF212", "SDEP212"} -> "212F" [] k \in {"STTF424", "SDEP424"} -> "424F"
                  [] OTHER -> "106A"
SenseBases(k) == CASE k \in {"STTA2", "STTA212"} -> {"TT2"} [] k = "STTA4" -> {"TT4A"} [] k = "STTADEP" -> {"DEPA"}
                   [] k = "STTA1" -> {"TT1"} [] k \in SttbKinds -> {"TT4B"} [] k \in SttfKinds -> {"TT3", "DEPF"}
                   [] k \in SdepKinds -> {"DEPACT"} [] OTHER -> {}
SenseCovered == \A d \in Drivers : \A k \in SenseKinds : Expect(d, k) = "Target" =>
                  \A b \in SenseBases(k) : \E x \in ExKinds(d) : BaseKind(x) = b /\ BrtyOf(x) = SenseBrty(k)
ASSUME SenseCovered
NCmd(d, k) == Len(Cmds(d, k))
IsFinal(d, k, at) == at = NCmd(d, k)

----------------------------------------------------------------------------
\* Faults.  A fault is a record [k |-> name, v |-> parameter].
F(name, v) == [k |-> name, v |-> v]
NoFault == F("None", 0)

RegReads == {"ReadRegister", "ReadIRq", "ReadFIFOLevel", "ReadFIFOData"}
\* commands whose response carries a status byte (chip manuals; PN531/PN532 register access has none)
HasStatus(d, c) ==
  \/ c \in {"InCommunicateThru", "InDataExchange", "TgGetInitiatorCommand", "TgResponseToInitiator"}
  \/ d = "pn533" /\ c \in RegReads \cup {"WriteRegister"}
  \/ d = "rcs956" /\ c = "WriteRegister"
  \/ d = "rcs380" /\ c \in {"InSetRF", "InSetProtocol"}
\* PN531/PN532/PN533 user manuals, InDataExchange (and TgGetData): status bit 7 = NAD present, bit 6 = MI
\* (more information), bits 5..0 = error code
FlagStatus(c) == c = "InDataExchange"
HasCommStatus(d, c) == d = "rcs380" /\ c \in {"InCommRF", "TgCommRF"}
RegDomain(c) == IF c = "ReadFIFOLevel" THEN 0..64 ELSE 0..255     \* 64 byte FIFO

Errnos == {5, 19, 32, 110}
ETIMEDOUT == 110
CutLens == 0..5
\* cut below TFI + response code: nothing of the answer is left
CutHeader(f) == f.k \in {"CutBody", "CutBodyX"} /\ f.v < 2
\* cut behind the response code: status and data may be missing or shortened, the frame is a valid answer
CutData(f) == f.k \in {"CutBody", "CutBodyX"} /\ f.v >= 2
LinkFaults(d) ==
  IF d = "udp" THEN {}
  ELSE {F("ErrorFrame", 0), F("HostTimeout", 0), F("HostIO", 0), F("HostIOW", 0), F("DeviceGone", 0),
        F("ShortFrame", 1), F("ShortFrame", 3), F("ShortFrame", 4), F("ShortFrame", 6),
        F("CutTail", 0), F("BadChecksum", 0), F("WrongCode", 0)}
       \cup (IF d = "acr122" THEN {F("ShortFrame", 9), F("ShortFrame", 11)}
             ELSE {F("NoAck", 0), F("BadAck", 0)})
       \* a WELL-FORMED frame (CCID block / information frame / RC-S380 frame with length fields and checksums
       \* recomputed) whose payload is cut to its first min(v, length - 1) bytes; CutBodyX: in an extended frame
       \* the transport's read raises IOError(errno) at the 1st read after the command (the wait for the ACK: AckErr,
       \* not on the ACR122 whose CCID exchange has a single read) or at the 2nd (the wait for the response: RspErr);
       \* errno EIO, ENODEV, EPIPE, ETIMEDOUT
       \cup {F("RspErr", n) : n \in Errnos}
       \cup (IF d = "acr122" THEN {} ELSE {F("AckErr", n) : n \in Errnos})
       \cup {F("CutBody", n) : n \in CutLens}
       \cup (IF d \in Pn53xLink THEN {F("CutBodyX", n) : n \in CutLens} ELSE {})
UdpSendFaults == {F("HostIOW", 0), F("DeviceGone", 0), F("ShortSend", 0)}
UdpRecvFaults == {F("HostTimeout", 0), F("HostIO", 0), F("RfOff", 0), F("ShortFrame", 1), F("ShortFrame", 2),
                  F("BadChecksum", 0), F("WrongCode", 0), F("Garbled", 1), F("Garbled", 2)}
                 \cup {F("CutBody", n) : n \in CutLens}          \* only a prefix of the datagram arrives
                 \cup {F("RspErr", n) : n \in {5, 19, 32}}        \* recvfrom raises OSError(errno)

\* RC-S380 communication status: bit i of the mask selects flag CommFlags[i+1]
CommFlags == <<"PROTOCOL_ERROR", "PARITY_ERROR", "CRC_ERROR", "COLLISION_ERROR", "OVERFLOW_ERROR",
               "TEMPERATURE_ERROR", "RECEIVE_TIMEOUT_ERROR", "CRYPTO1_ERROR", "RFCA_ERROR", "RF_OFF_ERROR",
               "TRANSMIT_TIMEOUT_ERROR", "RECEIVE_LENGTH_ERROR">>
Pow2(n) == IF n = 0 THEN 1 ELSE IF n = 1 THEN 2 ELSE IF n = 2 THEN 4 ELSE IF n = 3 THEN 8
           ELSE IF n = 4 THEN 16 ELSE IF n = 5 THEN 32 ELSE IF n = 6 THEN 64 ELSE IF n = 7 THEN 128
           ELSE IF n = 8 THEN 256 ELSE IF n = 9 THEN 512 ELSE IF n = 10 THEN 1024 ELSE 2048
Bit(m, i) == (m \div Pow2(i)) % 2
FlagsOf(m) == {CommFlags[i + 1] : i \in {j \in 0..11 : Bit(m, j) = 1}}
PopCount(m) == Cardinality({j \in 0..11 : Bit(m, j) = 1})
\* mask value 4096 stands for the status word FFFFFFFFh (every flag and the undefined bits too)
CommAllOnes == 4096
CommMasks == 0..CommAllOnes
FlagsOfV(v) == IF v = CommAllOnes THEN FlagsOf(4095) ELSE FlagsOf(v)

QuickPrepStatus == {0, 1, 2, 255}
\* tiers: "thorough" = everything; "quick" = all values on the final command, samples on preparatory ones;
\* "reach" = a small sample everywhere (only used for the reachability witnesses)
StatusDom(final, tier) == IF tier = "thorough" \/ (final /\ tier = "quick") THEN 0..255
                          ELSE IF tier = "quick" THEN QuickPrepStatus ELSE {0, 1, 10, 11}
RegDom(c, final, tier) == IF tier = "thorough" \/ (final /\ tier = "quick") THEN RegDomain(c)
                          ELSE RegDomain(c) \cap (QuickPrepStatus \cup {32, 48})
\* quick: no flag, every single flag, every pair of flags, all defined flags, all ones
MaskOk(m, tier) == tier = "thorough" \/ m >= 4095 \/ PopCount(m) <= (IF tier = "quick" THEN 2 ELSE 1)
\* the faults the harness injects at command c (final or not) in the given tier
SliceFaults(d, c, final, tier) ==
  IF d = "udp" THEN (IF final THEN UdpRecvFaults ELSE UdpSendFaults)
  ELSE LinkFaults(d)
    \cup (IF HasCommStatus(d, c) THEN {F("CommStatus", m) : m \in {x \in CommMasks : MaskOk(x, tier)}} ELSE {})
    \cup (IF HasStatus(d, c) THEN {F("ChipStatus", s) : s \in StatusDom(final, tier)} ELSE {})
    \cup (IF d \in Pn53xFam /\ c \in RegReads THEN {F("RegValue", s) : s \in RegDom(c, final, tier)} ELSE {})

\* ---- faults of the operations --------------------------------------------------------------
\* RF commands: their status byte / communication status reports what happened on the air
RfCmds == {"InListPassiveTarget", "InJumpForPSL", "InCommunicateThru", "InDataExchange", "TgGetInitiatorCommand",
           "TgResponseToInitiator", "TgSetGeneralBytes", "InCommRF", "TgCommRF"}
\* commands whose answer carries what the remote device sent (a target can only be reported from their data)
Decisive == {"InListPassiveTarget", "InJumpForPSL", "InCommunicateThru", "InDataExchange", "TgInitAsTarget",
             "TgGetInitiatorCommand", "InCommRF", "TgCommRF", "ReadFIFOLevel", "ReadFIFOData", "recvfrom"}
OpHasStatus(d, c) ==
  \/ c \in RfCmds \ {"InListPassiveTarget", "InCommRF", "TgCommRF"}
  \/ d = "pn533" /\ c \in RegReads \cup {"WriteRegister"}
  \/ d = "rcs956" /\ c = "WriteRegister"
  \/ d = "rcs380" /\ c \in {"InSetRF", "InSetProtocol", "SwitchRF", "TgSetRF", "TgSetProtocol"}
QuickOpStatus == {0, 1, 2, 10, 11, 41, 49, 64, 128, 255}
OpStatusDom(tier) == IF tier = "thorough" THEN 0..255 ELSE IF tier = "quick" THEN QuickOpStatus ELSE {0, 1}
OpRegDom(c, tier) == IF tier = "thorough" THEN RegDomain(c) ELSE RegDomain(c) \cap {0, 1, 2, 32, 38, 48, 255}
OpMaskOk(m, tier) == tier = "thorough" \/ m = CommAllOnes \/ PopCount(m) <= 1
UdpBindFaults == {F("HostIO", 0), F("AddrInUse", 0)}
OpFaults(d, c, tier) ==
  IF d = "udp" THEN (IF c = "bind" THEN UdpBindFaults ELSE IF c = "sendto" THEN UdpSendFaults ELSE UdpRecvFaults)
  ELSE LinkFaults(d)
    \cup (IF HasCommStatus(d, c) THEN {F("CommStatus", m) : m \in {x \in CommMasks : OpMaskOk(x, tier)}} ELSE {})
    \cup (IF OpHasStatus(d, c) THEN {F("ChipStatus", s) : s \in OpStatusDom(tier)} ELSE {})
    \* InListPassiveTarget answers with the number of targets found (NbTg), 1 in the scenarios
    \cup (IF c = "InListPassiveTarget" THEN {F("NbTg", s) : s \in {0, 1, 2, 255}} ELSE {})
    \cup (IF d \in Pn53xFam /\ c \in RegReads THEN {F("RegValue", s) : s \in OpRegDom(c, tier)} ELSE {})

Case(d, k, at, f) == [d |-> d, k |-> k, at |-> at, f |-> f]
SliceCases(d, k, tier) ==
  UNION {{Case(d, k, at, f) : f \in (IF k \in OpKinds THEN OpFaults(d, Cmds(d, k)[at], tier)
                                      ELSE SliceFaults(d, Cmds(d, k)[at], IsFinal(d, k, at),
                                                       \* length kinds and target variants: the small fault
                                                       \* sample at every command
                                                       IF k \in LenKindsAll \cup VarKindsAll THEN "reach" ELSE tier))}
         : at \in 1..NCmd(d, k)}
AllCases(tier) == UNION {UNION {SliceCases(d, k, tier) \cup {Case(d, k, 0, NoFault)} : k \in Kinds(d)}
                         : d \in Drivers}

----------------------------------------------------------------------------
\* Outcome classes
Documented == {"Data", "Timeout", "BrokenLink", "Transmission", "Protocol", "IOErr"}
Errs       == Documented \ {"Data"}
\* sense()/listen(): a target, None, UnsupportedTargetError, or IOError when the local device can not be talked to
OpDocumented == {"Target", "NoTarget", "Unsupported", "IOErr"}
Outcomes   == Documented \cup OpDocumented \cup {"NoData", "Hang", "Internal", "CommOther", "ValueError"}
\* NoData = exchange() returned None: documented only "if data is sent as a target" and the link broke
NoneOk(k) == IF Mode(k) = "target" THEN {"NoData"} ELSE {}

\* chip status byte of the PN53x RF exchange commands: bits 0..5 error code, bit 6 MI, bit 7 NAD
StatusClass(mode, x) ==
  IF x = 0 THEN {"Data"}
  ELSE IF x = 1 THEN (IF mode = "target" THEN {"Timeout", "Transmission"} ELSE {"Timeout"})
  ELSE IF mode = "target" /\ x \in {10, 41, 49} THEN {"BrokenLink"}     \* 0Ah 29h 31h: field lost / released
  ELSE IF x = 11 THEN {"Transmission", "Protocol"}
  ELSE {"Transmission"}
FlagClass(mode, fl) ==
  CASE fl = "RECEIVE_TIMEOUT_ERROR"  -> {"Timeout"}
    [] fl = "TRANSMIT_TIMEOUT_ERROR" -> {"Timeout", "Transmission"}
    [] fl = "RF_OFF_ERROR"           -> IF mode = "target" THEN {"BrokenLink"} ELSE {"BrokenLink", "Transmission"}
    [] fl = "PROTOCOL_ERROR"         -> {"Protocol", "Transmission"}
    [] OTHER                         -> {"Transmission"}
\* several flags at once: the documented errors are ranked.  Acting as target, field loss (BrokenLinkError, what ends
\* the card emulation loop of connect()) wins over the receive time-out, which wins over the transmission errors;
\* as initiator a receive time-out wins (nothing was received, the other receive flags say nothing) and the rest is a
\* transmission error of one of the flagged kinds.
CommClass(mode, fs) ==
  IF mode = "target" /\ "RF_OFF_ERROR" \in fs THEN {"BrokenLink"}
  ELSE IF "RECEIVE_TIMEOUT_ERROR" \in fs THEN {"Timeout"}
  ELSE UNION {FlagClass(mode, fl) : fl \in fs}

Benign(d, k, at, f) ==
  \/ f.k = "None"
  \/ k \notin OpKinds /\ IsFinal(d, k, at) /\ f.k \in {"ChipStatus", "CommStatus"} /\ f.v = 0
  \/ k \in OpKinds /\ f.k \in {"ChipStatus", "CommStatus"} /\ f.v = 0
  \/ k \in OpKinds /\ f.k = "NbTg" /\ f.v = 1

\* sense()/listen() with one fault at host command `at`.  The table is the documented contract; the code meets it
\* after proposed_fixes/C13-4 (pn53x family: Chipset.Error -> IOError, listen_ttf empty FIFO), C13-5 (rcs380:
\* StatusError / missing response -> IOError), C13-6 (udp: listen_* return None instead of raising communication
\* errors) and C13-7 (Expect = "Unsupported" for a bit rate the PN53x can not do; the code raises ValueError) --
\* until then the deviations are listed in known_findings.json.
OpAllowed(d, k, at, f) ==
  LET c == Cmds(d, k)[at]
      exp == Expect(d, k)
  IN
  IF Benign(d, k, at, f) THEN {exp}
  \* the air failed (or, NbTg, found something else): no target; a target only if it is still the right one
  ELSE IF f.k \in {"ChipStatus", "CommStatus", "NbTg"} /\ c \in RfCmds THEN {"NoTarget"} \cup ({exp} \cap {"Target"})
  \* a CIU register value: whatever the driver concludes from it, but never an error
  ELSE IF f.k = "RegValue" THEN {exp, "NoTarget"}
  \* udp: somebody else listens on the port already
  ELSE IF f.k = "AddrInUse" THEN {"NoTarget"}
  \* the host link failed / the chip refused a configuration command
  ELSE IF c \in Decisive /\ ~(CutData(f) /\ d # "udp")     \* (a shortened but valid answer may still describe a target)
       THEN {"NoTarget", "IOErr"}
            \* rcs380.Frame does not verify checksums / postamble (outside the C14 statement)
            \cup (IF d = "rcs380" /\ f.k \in {"BadChecksum", "CutTail"} THEN {exp} ELSE {})
       ELSE {exp, "NoTarget", "IOErr"}

Allowed(d, k, at, f) ==
  LET c == Cmds(d, k)[at]
      mode == Mode(k)
      final == IsFinal(d, k, at)
  IN
  IF f.k = "None" THEN (IF k \in OpKinds THEN {Expect(d, k)} ELSE {"Data"})
  ELSE IF k \in OpKinds THEN OpAllowed(d, k, at, f)
  ELSE IF ~final THEN
       \* preparatory command: the property only demands the class (data if the driver can carry on)
       Documented \cup NoneOk(k)
  ELSE
  CASE f.k = "ChipStatus" ->
         IF f.v = 0 THEN {"Data"}
         ELSE IF FlagStatus(c)
              \* bits 7/6 are the NAD / MI flags, the error code is the low six bits: the class follows the
              \* code whatever the flags are (41h, 81h, C1h are time-outs; 40h, 80h, C0h are successes)
              THEN StatusClass(mode, f.v % 64) \cup (IF f.v % 64 = 0 THEN {} ELSE NoneOk(k))
              \* commands without flag bits in the manual: the full byte or its low six bits may decide
              ELSE (StatusClass(mode, f.v) \cup StatusClass(mode, f.v % 64)) \cup NoneOk(k)
    [] f.k = "CommStatus" ->
         IF f.v = 0 THEN {"Data"}
         ELSE CommClass(mode, FlagsOfV(f.v)) \cup NoneOk(k)
    [] f.k = "RegValue"   -> Documented \cup NoneOk(k)        \* a value read from the CIU: any RF result
    [] f.k = "ErrorFrame" -> {"Transmission", "Protocol", "IOErr"} \cup NoneOk(k)
    [] f.k = "HostTimeout" -> IF c \in RegReads THEN {"Timeout", "IOErr"}   \* a register read: host link
                              ELSE {"Timeout"}                            \* the RF exchange command
    \* the host link is down before the chip even acknowledged the command: a host-link failure whatever the errno --
    \* a timeout of the ACK wait is NOT the RF timeout the chip reports / the response wait runs into
    [] f.k \in {"NoAck", "AckErr"} -> {"IOErr"}
    [] f.k = "RspErr" /\ f.v = ETIMEDOUT ->
         IF d = "rcs380" THEN {"IOErr", "Timeout"}               \* (this driver never asks its transport for a timeout)
         ELSE IF c \in RegReads THEN {"Timeout", "IOErr"} ELSE {"Timeout"}
    [] f.k = "RspErr" -> {"IOErr"}
    [] f.k \in {"HostIO", "HostIOW", "DeviceGone"} -> {"IOErr"}
    [] f.k = "RfOff"      -> {"BrokenLink"}
    [] f.k = "WrongCode" /\ d = "udp" -> {"Timeout"}           \* a datagram for another bit rate is not ours
    [] CutData(f) /\ d # "udp" -> Documented \cup NoneOk(k)   \* whatever the shortened answer means, never an internal error
    [] f.k \in {"BadAck", "ShortFrame", "CutTail", "BadChecksum", "WrongCode", "Garbled", "CutBody", "CutBodyX"} ->
         IF d = "udp" THEN {"Transmission", "Protocol", "IOErr"}
         ELSE {"IOErr"} \cup NoneOk(k)
              \* rcs380.Frame does not verify checksums / postamble (outside the C14 statement)
              \cup (IF d = "rcs380" /\ f.k \in {"BadChecksum", "CutTail"} THEN {"Data"} ELSE {})
    [] OTHER -> {}

----------------------------------------------------------------------------
\* The (one-shot) behaviour: pick a case, the implementation answers with an outcome.
CONSTANT Tier
VARIABLES c, o, pc
vars == <<c, o, pc>>

Cases == AllCases(Tier)

\* one initial state per slice (driver, kind): TLC spreads the slices over its workers
Init == /\ \E d \in Drivers : \E k \in Kinds(d) : c = Case(d, k, 0, NoFault)
        /\ o = "-" /\ pc = "idle"
Exchange(cs, out) == /\ pc = "idle"
                     /\ out \in Allowed(cs.d, cs.k, cs.at, cs.f)
                     /\ c' = cs /\ o' = out /\ pc' = "done"
Next == pc = "idle" /\ \E cs \in SliceCases(c.d, c.k, Tier) \cup {c} :
                         \E out \in Allowed(cs.d, cs.k, cs.at, cs.f) : Exchange(cs, out)
Spec == Init /\ [][Next]_vars

\* ---- invariants ------------------------------------------------------------------------
Done == pc = "done"
OutcomeDocumented == Done => o \in (IF c.k \in OpKinds THEN OpDocumented ELSE Documented \cup NoneOk(c.k))
\* the table itself (evaluated on the initial state of every slice): total, non-empty, never permits an internal
\* outcome; benign faults give data; a broken host link at the RF exchange command never yields data
\* (except the unverified RC-S380 checksums); chip time-out status 01h is a TimeoutError for an initiator
HostBroken == {"HostIO", "HostIOW", "DeviceGone", "HostTimeout", "NoAck", "BadAck", "ShortFrame", "WrongCode",
               "AckErr", "RspErr"}
\* PN53x host link: a command whose response does not arrive in time is cancelled with an ACK frame
\* (pn53x.Chipset.command); nothing else in an exchange writes an ACK frame
CancelAck(d, f) == d \in Pn53xLink /\ (f.k = "HostTimeout" \/ (f.k = "RspErr" /\ f.v = ETIMEDOUT))
OpCaseOk(cs) ==
  LET a == Allowed(cs.d, cs.k, cs.at, cs.f)
      exp == Expect(cs.d, cs.k)
  IN /\ a # {}
     /\ a \subseteq OpDocumented
     /\ (Benign(cs.d, cs.k, cs.at, cs.f) => a = {exp})
     \* UnsupportedTargetError is only ever the answer of an operation the driver does not support
     /\ ("Unsupported" \in a => exp = "Unsupported")
     /\ ("Target" \in a => exp = "Target")
     \* a broken host link at the command that carries the remote device's data never yields a target
     /\ (cs.at > 0 /\ Cmds(cs.d, cs.k)[cs.at] \in Decisive /\ cs.f.k \in HostBroken => "Target" \notin a)
ExCaseOk(cs) ==
  LET a == Allowed(cs.d, cs.k, cs.at, cs.f)
      fin == cs.at > 0 /\ IsFinal(cs.d, cs.k, cs.at)
  IN /\ a # {}
     /\ a \subseteq Documented \cup NoneOk(cs.k)
     /\ (Benign(cs.d, cs.k, cs.at, cs.f) => a = {"Data"})
     /\ (fin /\ cs.f.k \in HostBroken => "Data" \notin a)
     /\ (fin /\ cs.f = F("ChipStatus", 1) /\ Mode(cs.k) = "initiator" => a = {"Timeout"})
     /\ (fin /\ cs.f.k = "ChipStatus" /\ FlagStatus(Cmds(cs.d, cs.k)[cs.at])
           => a = StatusClass(Mode(cs.k), cs.f.v % 64) \cup (IF cs.f.v % 64 = 0 THEN {} ELSE NoneOk(cs.k)))
CaseOk(cs) == IF cs.k \in OpKinds THEN OpCaseOk(cs) ELSE ExCaseOk(cs)
TableOk == pc = "idle" => \A cs \in SliceCases(c.d, c.k, Tier) \cup {c} : CaseOk(cs)

\* reachability witnesses (each must be violated)
W_Data == ~(Done /\ o = "Data" /\ c.at > 0)
W_Timeout == ~(Done /\ o = "Timeout")
W_BrokenLink == ~(Done /\ o = "BrokenLink")
W_Transmission == ~(Done /\ o = "Transmission")
W_Protocol == ~(Done /\ o = "Protocol")
W_IOErr == ~(Done /\ o = "IOErr")
W_NoData == ~(Done /\ o = "NoData")
W_Target == ~(Done /\ o = "Target" /\ c.at > 0)
W_NoTarget == ~(Done /\ o = "NoTarget" /\ c.at > 0)
W_Unsupported == ~(Done /\ o = "Unsupported")
\* a target variant (other bit rate / technology / class than the base kind's) is exchanged with, with and without luck
W_VarData == ~(Done /\ c.k \in VarKindsAll /\ BrtyOf(c.k) = "848B" /\ o = "Data" /\ c.at > 0)
W_VarTimeout == ~(Done /\ c.k \in VarKindsAll /\ VarOf[c.k].a = "psl" /\ o = "Timeout")
=============================================================================
