----------------------------- MODULE DriverErr -----------------------------
(* C13 -- drivers report RF and host-link failures only as documented errors.

   An exchange (ContactlessFrontend.exchange() with clf.target as sense()/listen()
   left it) is, per driver and target kind, a fixed sequence of HOST COMMANDS
   Cmds(d,k) (one element per chip command frame / socket call of the code:
   pn53x.Device.send_cmd_recv_rsp = ReadRegister, WriteRegister, RFConfiguration,
   In*; send_rsp_recv_cmd = TgResponseToInitiator, TgGetInitiatorCommand or the
   CIU register polling of _tt3_send_rsp_recv_cmd; rcs380 = InSetRF,
   InSetProtocol.., InCommRF / TgCommRF; udp = sendto, select+recvfrom).  The last
   element is the RF exchange itself ("final"), the others are preparatory.

   One behaviour = one exchange with ONE fault f injected at host command `at`.
   Allowed(d,k,at,f) is the set of documented outcome classes, written from the
   property statement and the driver docstrings.  The property:
        outcome \in Allowed   (never Internal / Hang / an undocumented None).
   The space is finite; TLC enumerates it completely (MC_DriverErr.cfg) and checks
   that the table is total, non-empty and class-consistent; the binding executes
   every point of the same product on the real drivers (Trace_DriverErr).        *)
EXTENDS Naturals, Sequences, FiniteSets, TLC

Drivers == {"pn531", "pn532", "pn533", "rcs956", "acr122", "arygon", "rcs380", "udp"}
Pn53xLink == {"pn531", "pn532", "pn533", "rcs956", "arygon"}   \* chip's own link: ACK + frames
Pn53xFam  == Pn53xLink \cup {"acr122"}
Pn532ish  == {"pn532", "pn533", "arygon"}

InitKinds   == {"TT1", "TT1CIU", "TT2", "TT4A", "TT4B", "TT3", "DEPA", "DEPF", "DEPACT"}
TargetKinds == {"LTT2", "LTT4", "LTT3", "LDEP", "LDEPRX"}
Mode(k) == IF k \in TargetKinds THEN "target" ELSE "initiator"

Kinds(d) ==
  CASE d = "pn531"  -> (InitKinds \ {"TT1", "TT1CIU", "TT4B"}) \cup TargetKinds
    [] d \in Pn532ish -> InitKinds \cup TargetKinds
    [] d = "rcs956" -> (InitKinds \ {"TT1CIU"}) \cup {"LTT2", "LDEP", "LDEPRX"}
    [] d = "acr122" -> InitKinds \ {"TT1", "TT1CIU"}
    [] d = "rcs380" -> (InitKinds \ {"TT1CIU", "DEPACT"}) \cup TargetKinds
    [] d = "udp"    -> {"TT2", "TT3", "DEPA", "LTT3", "LDEP"}

Rep(x, n) == [i \in 1..n |-> x]

\* the host commands of one exchange, in order (names as the simulated chip logs them)
Cmds(d, k) ==
  IF d = "udp" THEN <<"sendto", "recvfrom">>
  ELSE IF d = "rcs380" THEN
       IF k \in TargetKinds THEN <<"TgCommRF">>
       ELSE IF k \in {"TT3", "DEPF"} THEN <<"InSetRF", "InSetProtocol", "InCommRF">>
       ELSE <<"InSetRF", "InSetProtocol", "InSetProtocol", "InCommRF">>
  ELSE \* PN53x family: pn53x.Device.send_cmd_recv_rsp / send_rsp_recv_cmd
       LET pre == <<"ReadRegister", "WriteRegister", "RFConfiguration">> IN
       CASE k = "TT1"    -> pre \o <<"InDataExchange">>
         [] k = "TT1CIU" -> pre \o Rep("WriteRegister", IF d = "pn533" THEN 17 ELSE 2)
                                \o <<"ReadFIFOLevel", "ReadFIFOData">>
         [] k = "LTT3"   -> <<"WriteRegister", "ReadIRq", "WriteRegister", "ReadFIFOLevel", "ReadFIFOData">>
         [] k = "LDEPRX" -> <<"TgGetInitiatorCommand">>
         [] k \in {"LTT2", "LTT4", "LDEP"} -> <<"TgResponseToInitiator", "TgGetInitiatorCommand">>
         [] OTHER        -> pre \o <<"InCommunicateThru">>

NCmd(d, k) == Len(Cmds(d, k))
IsFinal(d, k, at) == at = NCmd(d, k)

----------------------------------------------------------------------------
\* Faults.  A fault is a record [k |-> name, v |-> parameter].
F(name, v) == [k |-> name, v |-> v]
NoFault == F("None", 0)

RegReads == {"ReadRegister", "ReadIRq", "ReadFIFOLevel", "ReadFIFOData"}
\* commands whose response carries a status byte (chip manuals; PN531/PN532 register access has none)
HasStatus(d, c) ==
  \/ c \in {"InCommunicateThru", "InDataExchange", "TgGetInitiatorCommand", "TgResponseToInitiator"}
  \/ d = "pn533" /\ c \in RegReads \cup {"WriteRegister"}
  \/ d = "rcs956" /\ c = "WriteRegister"
  \/ d = "rcs380" /\ c \in {"InSetRF", "InSetProtocol"}
\* PN531/PN532/PN533 user manuals, InDataExchange (and TgGetData): status bit 7 = NAD present, bit 6 = MI
\* (more information), bits 5..0 = error code
FlagStatus(c) == c = "InDataExchange"
HasCommStatus(d, c) == d = "rcs380" /\ c \in {"InCommRF", "TgCommRF"}
RegDomain(c) == IF c = "ReadFIFOLevel" THEN 0..64 ELSE 0..255     \* 64 byte FIFO

LinkFaults(d) ==
  IF d = "udp" THEN {}
  ELSE {F("ErrorFrame", 0), F("HostTimeout", 0), F("HostIO", 0), F("HostIOW", 0), F("DeviceGone", 0),
        F("ShortFrame", 1), F("ShortFrame", 3), F("ShortFrame", 4), F("ShortFrame", 6),
        F("CutTail", 0), F("BadChecksum", 0), F("WrongCode", 0)}
       \cup (IF d = "acr122" THEN {F("ShortFrame", 9), F("ShortFrame", 11)}
             ELSE {F("NoAck", 0), F("BadAck", 0)})
UdpSendFaults == {F("HostIOW", 0), F("DeviceGone", 0), F("ShortSend", 0)}
UdpRecvFaults == {F("HostTimeout", 0), F("HostIO", 0), F("RfOff", 0), F("ShortFrame", 1), F("ShortFrame", 2),
                  F("BadChecksum", 0), F("WrongCode", 0), F("Garbled", 1), F("Garbled", 2)}

\* RC-S380 communication status: bit i of the mask selects flag CommFlags[i+1]
CommFlags == <<"PROTOCOL_ERROR", "PARITY_ERROR", "CRC_ERROR", "COLLISION_ERROR", "OVERFLOW_ERROR",
               "TEMPERATURE_ERROR", "RECEIVE_TIMEOUT_ERROR", "CRYPTO1_ERROR", "RFCA_ERROR", "RF_OFF_ERROR",
               "TRANSMIT_TIMEOUT_ERROR", "RECEIVE_LENGTH_ERROR">>
Pow2(n) == IF n = 0 THEN 1 ELSE IF n = 1 THEN 2 ELSE IF n = 2 THEN 4 ELSE IF n = 3 THEN 8
           ELSE IF n = 4 THEN 16 ELSE IF n = 5 THEN 32 ELSE IF n = 6 THEN 64 ELSE IF n = 7 THEN 128
           ELSE IF n = 8 THEN 256 ELSE IF n = 9 THEN 512 ELSE IF n = 10 THEN 1024 ELSE 2048
Bit(m, i) == (m \div Pow2(i)) % 2
FlagsOf(m) == {CommFlags[i + 1] : i \in {j \in 0..11 : Bit(m, j) = 1}}
PopCount(m) == Cardinality({j \in 0..11 : Bit(m, j) = 1})

QuickPrepStatus == {0, 1, 2, 255}
\* tiers: "thorough" = everything; "quick" = all values on the final command, samples on preparatory ones;
\* "reach" = a small sample everywhere (only used for the reachability witnesses)
StatusDom(final, tier) == IF tier = "thorough" \/ (final /\ tier = "quick") THEN 0..255
                          ELSE IF tier = "quick" THEN QuickPrepStatus ELSE {0, 1, 10, 11}
RegDom(c, final, tier) == IF tier = "thorough" \/ (final /\ tier = "quick") THEN RegDomain(c)
                          ELSE RegDomain(c) \cap (QuickPrepStatus \cup {32, 48})
MaskOk(m, tier) == tier = "thorough" \/ PopCount(m) <= (IF tier = "quick" THEN 2 ELSE 1)
\* the faults the harness injects at command c (final or not) in the given tier
SliceFaults(d, c, final, tier) ==
  IF d = "udp" THEN (IF final THEN UdpRecvFaults ELSE UdpSendFaults)
  ELSE LinkFaults(d)
    \cup (IF HasCommStatus(d, c) THEN {F("CommStatus", m) : m \in {x \in 0..4095 : MaskOk(x, tier)}} ELSE {})
    \cup (IF HasStatus(d, c) THEN {F("ChipStatus", s) : s \in StatusDom(final, tier)} ELSE {})
    \cup (IF d \in Pn53xFam /\ c \in RegReads THEN {F("RegValue", s) : s \in RegDom(c, final, tier)} ELSE {})

Case(d, k, at, f) == [d |-> d, k |-> k, at |-> at, f |-> f]
SliceCases(d, k, tier) ==
  UNION {{Case(d, k, at, f) : f \in SliceFaults(d, Cmds(d, k)[at], IsFinal(d, k, at), tier)}
         : at \in 1..NCmd(d, k)}
AllCases(tier) == UNION {UNION {SliceCases(d, k, tier) \cup {Case(d, k, 0, NoFault)} : k \in Kinds(d)}
                         : d \in Drivers}

----------------------------------------------------------------------------
\* Outcome classes
Documented == {"Data", "Timeout", "BrokenLink", "Transmission", "Protocol", "IOErr"}
Errs       == Documented \ {"Data"}
Outcomes   == Documented \cup {"NoData", "Hang", "Internal", "CommOther"}
\* NoData = exchange() returned None: documented only "if data is sent as a target" and the link broke
NoneOk(k) == IF Mode(k) = "target" THEN {"NoData"} ELSE {}

\* chip status byte of the PN53x RF exchange commands: bits 0..5 error code, bit 6 MI, bit 7 NAD
StatusClass(mode, x) ==
  IF x = 0 THEN {"Data"}
  ELSE IF x = 1 THEN (IF mode = "target" THEN {"Timeout", "Transmission"} ELSE {"Timeout"})
  ELSE IF mode = "target" /\ x \in {10, 41, 49} THEN {"BrokenLink"}     \* 0Ah 29h 31h: field lost / released
  ELSE IF x = 11 THEN {"Transmission", "Protocol"}
  ELSE {"Transmission"}
FlagClass(mode, fl) ==
  CASE fl = "RECEIVE_TIMEOUT_ERROR"  -> {"Timeout"}
    [] fl = "TRANSMIT_TIMEOUT_ERROR" -> {"Timeout", "Transmission"}
    [] fl = "RF_OFF_ERROR"           -> IF mode = "target" THEN {"BrokenLink"} ELSE {"BrokenLink", "Transmission"}
    [] fl = "PROTOCOL_ERROR"         -> {"Protocol", "Transmission"}
    [] OTHER                         -> {"Transmission"}

Benign(d, k, at, f) ==
  \/ f.k = "None"
  \/ IsFinal(d, k, at) /\ f.k \in {"ChipStatus", "CommStatus"} /\ f.v = 0

Allowed(d, k, at, f) ==
  LET c == Cmds(d, k)[at]
      mode == Mode(k)
      final == IsFinal(d, k, at)
  IN
  IF f.k = "None" THEN {"Data"}
  ELSE IF ~final THEN
       \* preparatory command: the property only demands the class (data if the driver can carry on)
       Documented \cup NoneOk(k)
  ELSE
  CASE f.k = "ChipStatus" ->
         IF f.v = 0 THEN {"Data"}
         ELSE IF FlagStatus(c)
              \* bits 7/6 are the NAD / MI flags, the error code is the low six bits: the class follows the
              \* code whatever the flags are (41h, 81h, C1h are time-outs; 40h, 80h, C0h are successes)
              THEN StatusClass(mode, f.v % 64) \cup (IF f.v % 64 = 0 THEN {} ELSE NoneOk(k))
              \* commands without flag bits in the manual: the full byte or its low six bits may decide
              ELSE (StatusClass(mode, f.v) \cup StatusClass(mode, f.v % 64)) \cup NoneOk(k)
    [] f.k = "CommStatus" ->
         IF f.v = 0 THEN {"Data"}
         ELSE UNION {FlagClass(mode, fl) : fl \in FlagsOf(f.v)} \cup NoneOk(k)
    [] f.k = "RegValue"   -> Documented \cup NoneOk(k)        \* a value read from the CIU: any RF result
    [] f.k = "ErrorFrame" -> {"Transmission", "Protocol", "IOErr"} \cup NoneOk(k)
    [] f.k = "HostTimeout" -> IF c \in RegReads THEN {"Timeout", "IOErr"}   \* a register read: host link
                              ELSE {"Timeout"}                            \* the RF exchange command
    [] f.k = "NoAck"      -> {"IOErr", "Timeout"}
    [] f.k \in {"HostIO", "HostIOW", "DeviceGone"} -> {"IOErr"}
    [] f.k = "RfOff"      -> {"BrokenLink"}
    [] f.k = "WrongCode" /\ d = "udp" -> {"Timeout"}           \* a datagram for another bit rate is not ours
    [] f.k \in {"BadAck", "ShortFrame", "CutTail", "BadChecksum", "WrongCode", "Garbled"} ->
         IF d = "udp" THEN {"Transmission", "Protocol", "IOErr"}
         ELSE {"IOErr"} \cup NoneOk(k)
              \* rcs380.Frame does not verify checksums / postamble (outside the C14 statement)
              \cup (IF d = "rcs380" /\ f.k \in {"BadChecksum", "CutTail"} THEN {"Data"} ELSE {})
    [] OTHER -> {}

----------------------------------------------------------------------------
\* The (one-shot) behaviour: pick a case, the implementation answers with an outcome.
CONSTANT Tier
VARIABLES c, o, pc
vars == <<c, o, pc>>

Cases == AllCases(Tier)

Init == c = Case("pn531", "TT2", 0, NoFault) /\ o = "-" /\ pc = "idle"
Exchange(cs, out) == /\ pc = "idle"
                     /\ out \in Allowed(cs.d, cs.k, cs.at, cs.f)
                     /\ c' = cs /\ o' = out /\ pc' = "done"
Next == pc = "idle" /\ \E cs \in Cases : \E out \in Allowed(cs.d, cs.k, cs.at, cs.f) : Exchange(cs, out)
Spec == Init /\ [][Next]_vars

\* ---- invariants ------------------------------------------------------------------------
Done == pc = "done"
OutcomeDocumented == Done => o \in Documented \cup NoneOk(c.k)
\* the table itself (evaluated once, on the initial state): total, non-empty, never permits an internal
\* outcome; benign faults give data; a broken host link at the RF exchange command never yields data
\* (except the unverified RC-S380 checksums); chip time-out status 01h is a TimeoutError for an initiator
HostBroken == {"HostIO", "HostIOW", "DeviceGone", "HostTimeout", "NoAck", "BadAck", "ShortFrame", "WrongCode"}
CaseOk(cs) ==
  LET a == Allowed(cs.d, cs.k, cs.at, cs.f)
      fin == cs.at > 0 /\ IsFinal(cs.d, cs.k, cs.at)
  IN /\ a # {}
     /\ a \subseteq Documented \cup NoneOk(cs.k)
     /\ (Benign(cs.d, cs.k, cs.at, cs.f) => a = {"Data"})
     /\ (fin /\ cs.f.k \in HostBroken => "Data" \notin a)
     /\ (fin /\ cs.f = F("ChipStatus", 1) /\ Mode(cs.k) = "initiator" => a = {"Timeout"})
     /\ (fin /\ cs.f.k = "ChipStatus" /\ FlagStatus(Cmds(cs.d, cs.k)[cs.at])
           => a = StatusClass(Mode(cs.k), cs.f.v % 64) \cup (IF cs.f.v % 64 = 0 THEN {} ELSE NoneOk(cs.k)))
TableOk == pc = "idle" => \A cs \in Cases : CaseOk(cs)

\* reachability witnesses (each must be violated)
W_Data == ~(Done /\ o = "Data" /\ c.at > 0)
W_Timeout == ~(Done /\ o = "Timeout")
W_BrokenLink == ~(Done /\ o = "BrokenLink")
W_Transmission == ~(Done /\ o = "Transmission")
W_Protocol == ~(Done /\ o = "Protocol")
W_IOErr == ~(Done /\ o = "IOErr")
W_NoData == ~(Done /\ o = "NoData")
=============================================================================
