SPECIFICATION Spec
CONSTANTS
  LongLen = 5
  Layouts <- MCLayouts
  BaseLens = {0, 1, 2, 4, 5, 6, 9, 12}
  Wipes = {}
  Variants = {"asis", "fixed"}
  Cuts = TRUE
  SectorSize = 32
  MaxFaults = 1
  MaxRetry = 1
  Session = FALSE
  Kinds = {"T2", "T1S", "T1D", "T512"}
  Sizes = {3, 4, 5}
  Pads = {0, 1, 2, 3, 4, 5, 6, 7}
  Props = {0, 77, 84}
  CtlFroms = {4, 9}
  MemSizes = {2}
  LockBits = {12}
  CtlTypes = {1, 2}
  TwoCtl = FALSE
  OldLens = {0, 1, 4, 5, 9}
INVARIANT FxAtomic
INVARIANT AtomicButStraddle
INVARIANT Coherent
CHECK_DEADLOCK FALSE
