------------------------------ MODULE LlcpPdu ------------------------------
(* C11 -- LLCP PDU encoding and decoding are mutually consistent.

   An independent, executable reading of the LLCP 1.3 frame formats (NFC Forum
   LLCP 1.3, chapter 4 "LLC PDU formats and parameters"), evaluated by TLC.  No
   interleavings are explored: TLC is the evaluator of  Encode / Decode / DeclLen /
   Norm  (a) over all PDU values of small field domains (MC_LlcpPdu*.cfg) and
   (b) over cases recorded from nfcpy's codec src/nfc/llcp/pdu.py (Trace_LlcpPdu).

   PDU values (records, field `t` is the type; every field name has one TLA+ type
   in all records so that TLC can compare any two of them):
     SYMM    [t, dsap, ssap]                       dsap = ssap = 0
     PAX     [t, dsap, ssap, ver, miux, wks, lto, opt]   -1 = TLV absent
     AGF     [t, dsap, ssap, agg]                  agg : Seq(Pdu)
     UI      [t, dsap, ssap, data]
     CONNECT [t, dsap, ssap, miu, rw, sn]          miu = 128 + MIUX, sn : Opt
     DISC    [t, dsap, ssap]
     CC      [t, dsap, ssap, miu, rw]
     DM      [t, dsap, ssap, reason]
     FRMR    [t, dsap, ssap, flags, ptype, ns, nr, vs, vr, vsa, vra]
     SNL     [t, dsap, ssap, sdreq, sdres]         Seq([tid, sn]), Seq([tid, sap])
     DPS     [t, dsap, ssap, ecpk, rn]             ecpk, rn : Opt
     I       [t, dsap, ssap, ns, nr, data]
     RR/RNR  [t, dsap, ssap, nr]
     UNK     [t, ptype, dsap, ssap, data]          ptype 1011b / 1111b (reserved)
     ERR     [t, why]                              why : Seq(STRING), the branch taken
   Opt = [p : BOOLEAN, v : Seq(Byte)]  (p = TLV present).

   Frame format as read here: octet 0 = DSAP(6) | PTYPE(4) high 2 bits, octet 1 =
   PTYPE low 2 bits | SSAP(6); I/RR/RNR carry a sequence octet N(S)(4) | N(R)(4);
   PAX/CONNECT/CC/SNL/DPS carry a list of TLVs (type, length, value); AGF carries
   a list of <2-octet length, PDU> pairs.  THE PROPERTY'S SLICE RULE: a PDU is
   decoded from its own octets only -- inside an AGF every length field and every
   TLV must end inside the slice named by the enclosing length field, else ERR.

   Norm -- the places where two honest readings may differ, fixed here:
     N1 reserved bits are masked: MIUX to 11 bits, RW to 4 bits, OPT to 3 bits, the
        N(S) nibble of RR/RNR is ignored (LLCP 1.3, MIUX/RW/OPT parameter and RR/RNR
        PDU formats: reserved bits are set to 0 by the sender, ignored by the receiver).
     N2 an absent MIUX TLV in CONNECT/CC = MIUX 0 (miu 128), an absent RW TLV = RW 1
        (the defaults LLCP 1.3 gives for both parameters); the record has only `miu`
        and `rw`.  RW = 0 is a value of its own ("accepts no I PDUs") and needs the TLV.
        In PAX the presence of each TLV is kept (-1 = absent): nothing is defaulted.
     N3 an empty SN TLV = no SN TLV (a zero length service name names nothing;
        pdu.py warns and len() reports 2).  Same for zero-length ECPK and RN TLVs in
        DPS (no key / nonce material; tests/test_llcp_pdu.py expects len 2).
     N4 SNL keeps two lists, SDREQ and SDRES, each in arrival order; the relative
        order of an SDREQ and an SDRES is not part of the value (pdu.py re-encodes all
        SDREQ first; LLCP 1.3 puts no meaning on the order of TLVs in an SNL PDU).
   Choices taken from pdu.py's documented behaviour (tests/test_llcp_pdu.py), where
   LLCP gives no rule for a *receiver* (they are part of Decode, not of Norm):
     D1 unknown TLV types, and known TLV types that a PDU does not use, are skipped.
     D2 a TLV of a known type with a wrong length is an error in any TLV list.
     D3 a repeated TLV: the last one wins (PAX, CONNECT, CC, DPS).
     D4 a single trailing octet after the last TLV (no room for type+length) is
        ignored ("064100" decodes to an empty SNL in the test table).
     D5 SYMM, DM, FRMR have exact sizes (2, 3, 6); octets after DISC and after the
        sequence octet of RR/RNR are ignored (lenient receiver; reacting to them is
        the LLC's FRMR business, outside the codec).
     D6 SYMM/PAX/AGF/DPS require DSAP = SSAP = 0, SNL requires DSAP = SSAP = 1.
     D7 the SDRES SAP octet and the VERSION, LTO, WKS values are taken as they are.
     D8 TLV order produced by Encode: PAX VERSION, MIUX, WKS, LTO, OPT; CONNECT MIUX,
        RW, SN; SNL all SDREQ then all SDRES; DPS ECPK, RN (the test table).
     D9 AGF nesting: an LLC aggregates only non-AGF PDUs; pdu.py used to decode a nested
        AGF like any other member (and recursed without bound), since commit bdd1fd6 it
        is a DecodeError.  Decode accepts nesting, DecodeNoNest is the strict reading
        (ERR "agf-nested"); the trace judge accepts either and records which matched.
   DecodeLoose is NOT a reading of LLCP: it models pdu.py as it is (TLVs and AGF
   length fields bounded by the end of the whole buffer instead of the slice) so that
   a disagreement caused by that defect is reported under the invariant OwnSlice.

   Decode is linear in Len(b): a TLV list is one FoldLeft over the slice's indices with
   the position of the next TLV in the accumulator; aggregated PDUs are visited by a
   recursion over PDUs (depth <= Len(b) \div 4); values are taken with SubSeq on
   indices; no Tail, no recursion over octets.                                       *)
EXTENDS Integers, Sequences, SequencesExt, Bitwise

U16(n)     == <<shiftR(n, 8), n & 255>>
Rd16(b, i) == b[i] * 256 + b[i + 1]
Idx(lo, hi) == [k \in 1..(hi - lo + 1) |-> lo + k - 1]

Absent  == [p |-> FALSE, v |-> <<>>]
Some(v) == [p |-> TRUE, v |-> v]
Err(w)   == [t |-> "ERR", why |-> w]
IsErr(x) == x.t = "ERR"

PT == [SYMM |-> 0, PAX |-> 1, AGF |-> 2, UI |-> 3, CONNECT |-> 4, DISC |-> 5, CC |-> 6,
       DM |-> 7, FRMR |-> 8, SNL |-> 9, DPS |-> 10, I |-> 12, RR |-> 13, RNR |-> 14]
PtypeOf(p) == IF p.t = "UNK" THEN p.ptype ELSE PT[p.t]
Hdr(p) == LET pt == PtypeOf(p)
          IN <<p.dsap * 4 + shiftR(pt, 2), (pt & 3) * 64 + p.ssap>>

\* TLV types (LLCP 1.3 4.5)
T_VERSION == 1  T_MIUX == 2  T_WKS == 3  T_LTO == 4  T_RW == 5  T_SN == 6
T_OPT == 7      T_SDREQ == 8 T_SDRES == 9 T_ECPK == 10 T_RN == 11

Tlv(T, v)    == <<T, Len(v)>> \o v
OptTlv(T, o) == IF o.p /\ o.v # <<>> THEN Tlv(T, o.v) ELSE <<>>

-----------------------------------------------------------------------------
(* Encode *)
RECURSIVE Encode(_)
Encode(p) ==
  CASE p.t = "SYMM" -> Hdr(p)
    [] p.t = "PAX" ->
         Hdr(p) \o (IF p.ver  >= 0 THEN <<T_VERSION, 1, p.ver>> ELSE <<>>)
                \o (IF p.miux >= 0 THEN <<T_MIUX, 2>> \o U16(p.miux) ELSE <<>>)
                \o (IF p.wks  >= 0 THEN <<T_WKS, 2>> \o U16(p.wks) ELSE <<>>)
                \o (IF p.lto  >= 0 THEN <<T_LTO, 1, p.lto>> ELSE <<>>)
                \o (IF p.opt  >= 0 THEN <<T_OPT, 1, p.opt>> ELSE <<>>)
    [] p.t = "AGF" ->
         FoldLeft(LAMBDA acc, m : LET e == Encode(m) IN acc \o U16(Len(e)) \o e, Hdr(p), p.agg)
    [] p.t = "UI" -> Hdr(p) \o p.data
    [] p.t = "CONNECT" ->
         Hdr(p) \o (IF p.miu # 128 THEN <<T_MIUX, 2>> \o U16(p.miu - 128) ELSE <<>>)
                \o (IF p.rw # 1 THEN <<T_RW, 1, p.rw>> ELSE <<>>)
                \o OptTlv(T_SN, p.sn)
    [] p.t = "DISC" -> Hdr(p)
    [] p.t = "CC" ->
         Hdr(p) \o (IF p.miu # 128 THEN <<T_MIUX, 2>> \o U16(p.miu - 128) ELSE <<>>)
                \o (IF p.rw # 1 THEN <<T_RW, 1, p.rw>> ELSE <<>>)
    [] p.t = "DM" -> Hdr(p) \o <<p.reason>>
    [] p.t = "FRMR" ->
         Hdr(p) \o <<p.flags * 16 + p.ptype, p.ns * 16 + p.nr, p.vs * 16 + p.vr, p.vsa * 16 + p.vra>>
    [] p.t = "SNL" ->
         FoldLeft(LAMBDA acc, r : acc \o <<T_SDRES, 2, r.tid, r.sap>>,
                  FoldLeft(LAMBDA acc, q : acc \o <<T_SDREQ, 1 + Len(q.sn), q.tid>> \o q.sn, Hdr(p), p.sdreq),
                  p.sdres)
    [] p.t = "DPS" -> Hdr(p) \o OptTlv(T_ECPK, p.ecpk) \o OptTlv(T_RN, p.rn)
    [] p.t = "I"   -> Hdr(p) \o <<p.ns * 16 + p.nr>> \o p.data
    [] p.t \in {"RR", "RNR"} -> Hdr(p) \o <<p.nr>>
    [] p.t = "UNK" -> Hdr(p) \o p.data

(* the length a PDU declares, by formula (not by encoding it) *)
OptLen(o) == IF o.p /\ o.v # <<>> THEN 2 + Len(o.v) ELSE 0
RECURSIVE DeclLen(_)
DeclLen(p) ==
  CASE p.t \in {"SYMM", "DISC"} -> 2
    [] p.t = "PAX" -> 2 + (IF p.ver >= 0 THEN 3 ELSE 0) + (IF p.miux >= 0 THEN 4 ELSE 0)
                        + (IF p.wks >= 0 THEN 4 ELSE 0) + (IF p.lto >= 0 THEN 3 ELSE 0)
                        + (IF p.opt >= 0 THEN 3 ELSE 0)
    [] p.t = "AGF" -> FoldLeft(LAMBDA acc, m : acc + 2 + DeclLen(m), 2, p.agg)
    [] p.t \in {"UI", "UNK"} -> 2 + Len(p.data)
    [] p.t = "CONNECT" -> 2 + (IF p.miu # 128 THEN 4 ELSE 0) + (IF p.rw # 1 THEN 3 ELSE 0) + OptLen(p.sn)
    [] p.t = "CC" -> 2 + (IF p.miu # 128 THEN 4 ELSE 0) + (IF p.rw # 1 THEN 3 ELSE 0)
    [] p.t = "DM" -> 3
    [] p.t = "FRMR" -> 6
    [] p.t = "SNL" -> FoldLeft(LAMBDA acc, q : acc + 3 + Len(q.sn), 2 + 4 * Len(p.sdres), p.sdreq)
    [] p.t = "DPS" -> 2 + OptLen(p.ecpk) + OptLen(p.rn)
    [] p.t = "I" -> 3 + Len(p.data)
    [] p.t \in {"RR", "RNR"} -> 3

-----------------------------------------------------------------------------
(* Norm (N1..N4 of the header) *)
NormOpt(o) == IF o.v = <<>> THEN Absent ELSE o
RECURSIVE Norm(_)
Norm(p) ==
  CASE p.t = "PAX" -> [p EXCEPT !.miux = IF @ >= 0 THEN @ & 2047 ELSE @, !.opt = IF @ >= 0 THEN @ & 7 ELSE @]
    [] p.t = "AGF" -> [p EXCEPT !.agg = FoldLeft(LAMBDA acc, m : Append(acc, Norm(m)), <<>>, p.agg)]
    [] p.t = "CONNECT" -> [p EXCEPT !.rw = @ & 15, !.sn = NormOpt(@)]
    [] p.t = "CC" -> [p EXCEPT !.rw = @ & 15]
    [] p.t = "DPS" -> [p EXCEPT !.ecpk = NormOpt(@), !.rn = NormOpt(@)]
    [] OTHER -> p

-----------------------------------------------------------------------------
(* Decode *)
TlvName(T) == CASE T = 1 -> "VERSION" [] T = 2 -> "MIUX" [] T = 3 -> "WKS" [] T = 4 -> "LTO" [] T = 5 -> "RW"
                [] T = 6 -> "SN" [] T = 7 -> "OPT" [] T = 8 -> "SDREQ" [] T = 9 -> "SDRES"
                [] T = 10 -> "ECPK" [] T = 11 -> "RN" [] OTHER -> "unknown"
TlvLenOk(T, L) == CASE T \in {T_VERSION, T_LTO, T_RW, T_OPT} -> L = 1
                    [] T \in {T_MIUX, T_WKS, T_SDRES} -> L = 2
                    [] T = T_SDREQ -> L >= 1
                    [] OTHER -> TRUE

(* the TLVs in b[lo..hi]; a value may reach up to index lim (= hi in the real reading).
   Result [tlvs : Seq([t, l, at]), err]; `at` = index of the first value octet.       *)
TlvScan(b, lo, hi, lim) ==
  LET step(st, i) ==
        IF st.err # <<>> \/ i # st.next \/ i + 1 > hi THEN st      \* D4: a lone trailing octet
        ELSE LET T == b[i]
                 L == b[i + 1]
             IN IF i + 1 + L > lim THEN [st EXCEPT !.err = <<"tlv-past-slice">>]
                ELSE IF ~TlvLenOk(T, L) THEN [st EXCEPT !.err = <<"tlv-length", TlvName(T)>>]
                ELSE [st EXCEPT !.next = i + 2 + L,
                                !.tlvs = Append(@, [t |-> T, l |-> L, at |-> i + 2])]
  IN FoldLeft(step, [next |-> lo, tlvs |-> <<>>, err |-> <<>>], Idx(lo, hi))

Val(b, x) == SubSeq(b, x.at, x.at + x.l - 1)

PaxOf(b, tlvs) ==
  FoldLeft(LAMBDA r, x :
             CASE x.t = T_VERSION -> [r EXCEPT !.ver = b[x.at]]
               [] x.t = T_MIUX -> [r EXCEPT !.miux = Rd16(b, x.at) & 2047]
               [] x.t = T_WKS  -> [r EXCEPT !.wks = Rd16(b, x.at)]
               [] x.t = T_LTO  -> [r EXCEPT !.lto = b[x.at]]
               [] x.t = T_OPT  -> [r EXCEPT !.opt = b[x.at] & 7]
               [] OTHER -> r,
           [t |-> "PAX", dsap |-> 0, ssap |-> 0, ver |-> -1, miux |-> -1, wks |-> -1, lto |-> -1, opt |-> -1],
           tlvs)

ConnOf(b, tlvs, d, s) ==
  FoldLeft(LAMBDA r, x :
             CASE x.t = T_MIUX -> [r EXCEPT !.miu = 128 + (Rd16(b, x.at) & 2047)]
               [] x.t = T_RW -> [r EXCEPT !.rw = b[x.at] & 15]
               [] x.t = T_SN -> [r EXCEPT !.sn = Some(Val(b, x))]
               [] OTHER -> r,
           [t |-> "CONNECT", dsap |-> d, ssap |-> s, miu |-> 128, rw |-> 1, sn |-> Absent], tlvs)

CcOf(b, tlvs, d, s) ==
  FoldLeft(LAMBDA r, x :
             CASE x.t = T_MIUX -> [r EXCEPT !.miu = 128 + (Rd16(b, x.at) & 2047)]
               [] x.t = T_RW -> [r EXCEPT !.rw = b[x.at] & 15]
               [] OTHER -> r,
           [t |-> "CC", dsap |-> d, ssap |-> s, miu |-> 128, rw |-> 1], tlvs)

SnlOf(b, tlvs) ==
  FoldLeft(LAMBDA r, x :
             CASE x.t = T_SDREQ -> [r EXCEPT !.sdreq = Append(@, [tid |-> b[x.at], sn |-> SubSeq(b, x.at + 1, x.at + x.l - 1)])]
               [] x.t = T_SDRES -> [r EXCEPT !.sdres = Append(@, [tid |-> b[x.at], sap |-> b[x.at + 1]])]
               [] OTHER -> r,
           [t |-> "SNL", dsap |-> 1, ssap |-> 1, sdreq |-> <<>>, sdres |-> <<>>], tlvs)

DpsOf(b, tlvs) ==
  FoldLeft(LAMBDA r, x :
             CASE x.t = T_ECPK -> [r EXCEPT !.ecpk = Some(Val(b, x))]
               [] x.t = T_RN -> [r EXCEPT !.rn = Some(Val(b, x))]
               [] OTHER -> r,
           [t |-> "DPS", dsap |-> 0, ssap |-> 0, ecpk |-> Absent, rn |-> Absent], tlvs)

(* The PDU in the n octets after 0-based offset off of b.
   loose : bound TLVs / AGF length fields by Len(b) instead of the slice (pdu.py as it is)
   nest  : an AGF member may be an AGF (D9);  inagf : this PDU is an AGF member          *)
RECURSIVE DecodeAt(_, _, _, _, _, _), AgfFrom(_, _, _, _, _, _)
(* the aggregated PDUs from index i to hi: [agg, err].  The recursion is over PDUs, not octets: its depth
   (members + nesting) is at most Len(b) \div 4, and the work per member is constant plus the member itself. *)
AgfFrom(b, i, hi, lim, loose, nest) ==
  IF i > hi THEN [agg |-> <<>>, err |-> <<>>]
  ELSE IF i + 1 > lim THEN [agg |-> <<>>, err |-> <<"agf-length-field-past-slice">>]
  ELSE LET m == Rd16(b, i)
       IN IF i + 1 + m > lim THEN [agg |-> <<>>, err |-> <<"agf-member-past-slice">>]
          ELSE LET x == DecodeAt(b, i + 1, m, loose, nest, TRUE)
               IN IF IsErr(x) THEN [agg |-> <<>>, err |-> <<"agf-member">> \o x.why]
                  ELSE LET rest == AgfFrom(b, i + 2 + m, hi, lim, loose, nest)
                       IN IF rest.err # <<>> THEN rest ELSE [agg |-> <<x>> \o rest.agg, err |-> <<>>]

DecodeAt(b, off, n, loose, nest, inagf) ==
  IF n < 2 THEN Err(<<"short">>)
  ELSE
  LET b0 == b[off + 1]
      b1 == b[off + 2]
      d  == shiftR(b0, 2)
      pt == (b0 & 3) * 4 + shiftR(b1, 6)
      s  == b1 & 63
      hi == off + n
      lim == IF loose THEN Len(b) ELSE hi
      sc == TlvScan(b, off + 3, hi, lim)
      agf == AgfFrom(b, off + 3, hi, lim, loose, nest)
  IN
  CASE pt = 0 -> IF d # 0 \/ s # 0 THEN Err(<<"symm-sap">>)
                 ELSE IF n > 2 THEN Err(<<"symm-payload">>)
                 ELSE [t |-> "SYMM", dsap |-> 0, ssap |-> 0]
    [] pt = 1 -> IF d # 0 \/ s # 0 THEN Err(<<"pax-sap">>)
                 ELSE IF sc.err # <<>> THEN Err(<<"PAX">> \o sc.err)
                 ELSE PaxOf(b, sc.tlvs)
    [] pt = 2 -> IF d # 0 \/ s # 0 THEN Err(<<"agf-sap">>)
                 ELSE IF inagf /\ ~nest THEN Err(<<"agf-nested">>)
                 ELSE IF agf.err # <<>> THEN Err(agf.err)
                 ELSE [t |-> "AGF", dsap |-> 0, ssap |-> 0, agg |-> agf.agg]
    [] pt = 3 -> [t |-> "UI", dsap |-> d, ssap |-> s, data |-> SubSeq(b, off + 3, hi)]
    [] pt = 4 -> IF sc.err # <<>> THEN Err(<<"CONNECT">> \o sc.err) ELSE ConnOf(b, sc.tlvs, d, s)
    [] pt = 5 -> [t |-> "DISC", dsap |-> d, ssap |-> s]
    [] pt = 6 -> IF sc.err # <<>> THEN Err(<<"CC">> \o sc.err) ELSE CcOf(b, sc.tlvs, d, s)
    [] pt = 7 -> IF n # 3 THEN Err(<<"dm-size">>)
                 ELSE [t |-> "DM", dsap |-> d, ssap |-> s, reason |-> b[off + 3]]
    [] pt = 8 -> IF n # 6 THEN Err(<<"frmr-size">>)
                 ELSE [t |-> "FRMR", dsap |-> d, ssap |-> s,
                       flags |-> shiftR(b[off + 3], 4), ptype |-> b[off + 3] & 15,
                       ns |-> shiftR(b[off + 4], 4), nr |-> b[off + 4] & 15,
                       vs |-> shiftR(b[off + 5], 4), vr |-> b[off + 5] & 15,
                       vsa |-> shiftR(b[off + 6], 4), vra |-> b[off + 6] & 15]
    [] pt = 9 -> IF d # 1 \/ s # 1 THEN Err(<<"snl-sap">>)
                 ELSE IF sc.err # <<>> THEN Err(<<"SNL">> \o sc.err)
                 ELSE SnlOf(b, sc.tlvs)
    [] pt = 10 -> IF d # 0 \/ s # 0 THEN Err(<<"dps-sap">>)
                  ELSE IF sc.err # <<>> THEN Err(<<"DPS">> \o sc.err)
                  ELSE DpsOf(b, sc.tlvs)
    [] pt = 12 -> IF n < 3 THEN Err(<<"numbered-short">>)
                  ELSE [t |-> "I", dsap |-> d, ssap |-> s, ns |-> shiftR(b[off + 3], 4),
                        nr |-> b[off + 3] & 15, data |-> SubSeq(b, off + 4, hi)]
    [] pt \in {13, 14} -> IF n < 3 THEN Err(<<"numbered-short">>)
                          ELSE [t |-> IF pt = 13 THEN "RR" ELSE "RNR", dsap |-> d, ssap |-> s,
                                nr |-> b[off + 3] & 15]
    [] OTHER -> [t |-> "UNK", ptype |-> pt, dsap |-> d, ssap |-> s, data |-> SubSeq(b, off + 3, hi)]

Decode(b)       == DecodeAt(b, 0, Len(b), FALSE, TRUE, FALSE)    \* the reference reading
DecodeNoNest(b) == DecodeAt(b, 0, Len(b), FALSE, FALSE, FALSE)   \* D9 strict
DecodeLoose(b)  == DecodeAt(b, 0, Len(b), TRUE, TRUE, FALSE)     \* pdu.py as it is (defect model)

(* where a value sits in the case analysis: measured as coverage class *)
Branch(x) == IF IsErr(x) THEN <<"ERR">> \o x.why
             ELSE IF x.t = "AGF" THEN <<"AGF", IF x.agg = <<>> THEN "empty" ELSE x.agg[1].t, IF Len(x.agg) > 1 THEN "n" ELSE "1">>
             ELSE <<x.t>>
=============================================================================
