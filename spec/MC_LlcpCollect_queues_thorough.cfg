SPECIFICATION Spec
CONSTANTS
  SendMius = {8, 9, 10, 11, 12, 13, 14}
  Agfs = {TRUE, FALSE}
  Layouts <- LayQueues
  Infos = {0, 1, 3, 6, 10}
  RawInfos = {2, 15}
  CtlKinds = {}
  MaxQ = 3
  MaxTotal = 5
  MaxRes = 0
  ReqLens = {2}
  MaxReq = 0
  MaxDm = 1
  AckStates = {"none"}
  SdresMin = 4
  LoopGuard = TRUE
INVARIANT FrameFits
INVARIANT PayloadFits
INVARIANT Transparent
INVARIANT LenIsLen
INVARIANT NoWaste
CHECK_DEADLOCK FALSE
