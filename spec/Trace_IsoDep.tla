------------------------- MODULE Trace_IsoDep -------------------------
(* Trace validation for IsoDep: a recorded execution of a real nfc.tag.tt4.Type4ATag/Type4BTag
   (activated through nfc.tag.activate) against the simulated card sim/picc.py behind a fake clf
   whose exchange() applies a fate script per block.  Every event is one spec action; the spec
   predicts the PCD's next block from the fates (field by field: type, block number, chaining,
   chunk identity, INF length, time-out class, pni) and the card's reaction from the standard's
   rules; the C12 invariants are evaluated as step post-conditions (Judge = TRUE).  With
   Judge = FALSE only conformance is checked (used to validate the rest of a trace after a
   finding).  Events:
     Start  op L R sa nx        exchange() entered (op "apdu" | "ping"; sa: through send_apdu()); nx = first block type
     Send   b tmo pni           clf.exchange(data, timeout) called
     ToCard f rep ex nx         fate to the card, the card's reply (NONE = mute), executed APDU id
                                (0 none, -1 unknown command); nx = what the PCD does next if it
                                was resumed by a time-out, "-" otherwise
     ToPcd  f nx                fate to the PCD; nx = type of the PCD's next block or ret/err/raise/false
     End    res ok len errno rtype   how send_apdu()/transceive()/is_present ended
*)
EXTENDS IsoDep, Json, IOUtils, TLCExt, SequencesExt

CONSTANT Judge
VARIABLES tid, l
tvars == <<vars, tid, l>>

Traces == ndJsonDeserialize(IOEnv.TRACE_FILE)
T == Traces[tid].ev
C == Traces[tid].const

TInit ==
    /\ tid \in 1..Len(Traces)
    /\ l = 1
    /\ cfg = [miu |-> C.miu, rmiu |-> C.rmiu, fsc |-> C.fsc, nRetry |-> C.nRetry]
    /\ pcd = PcdInit /\ picc = PiccInit /\ slot = [k |-> "none"]
    /\ rl = <<>> /\ cl = <<>> /\ exec = <<>> /\ garbage = 0
    /\ nops = 0 /\ faults = 0 /\ nwtx = 0 /\ xf = 0 /\ dirty = FALSE

Ev == T[l]
IsEv(a) == l <= Len(T) /\ Ev.e = a /\ l' = l + 1 /\ UNCHANGED tid
NxOf(p) == IF Active(p) THEN p.out.t ELSE p.ph
MkB(r) == Blk(r.t, r.bn, r.ch, r.a, r.k, r.len)

GStart == IsEv("Start") /\ StartOp(Ev.op, Ev.L, Ev.R, Ev.sa) /\ (Ev.op = "ping" => Ev.L = 0 /\ Ev.R = 0)
GSend  == IsEv("Send") /\ Send
GToCard == IsEv("ToCard") /\ ToCard(Ev.f)
GToPcd == IsEv("ToPcd") /\ ToPcd(Ev.f)
GEnd   == IsEv("End") /\ Terminal(pcd) /\ pcd.ph # "idle" /\ UNCHANGED vars
Guarded == GStart \/ GSend \/ GToCard \/ GToPcd \/ GEnd

SumLen(cs) == FoldLeft(LAMBDA acc, c : acc + c.len, 0, cs)
Intact(p) == p.resp = ChunksOf(p.cur, rl[p.cur], cfg.rmiu)

\* logged results against the spec's (primed: the post-state of the step)
ResOk ==
    CASE Ev.e = "Start" -> NxOf(pcd') = Ev.nx
      [] Ev.e = "Send" -> MkB(Ev.b) = pcd.out /\ Ev.tmo = pcd.tmo /\ Ev.pni = pcd.pni
      [] Ev.e = "ToCard" ->
            /\ (Ev.f = "deliver" =>
                    /\ IF Ev.rep.t = "NONE" THEN slot'.k = "none" ELSE slot'.k = "toPcd" /\ slot'.b = MkB(Ev.rep)
                    /\ exec' = (IF Ev.ex > 0 /\ Ev.ex <= Len(exec) THEN [exec EXCEPT ![Ev.ex] = @ + 1] ELSE exec)
                    /\ garbage' = garbage + (IF Ev.ex = -1 THEN 1 ELSE 0))
            /\ (Ev.f # "deliver" => Ev.rep.t = "NONE" /\ Ev.ex = 0)
            /\ IF slot'.k = "none" THEN NxOf(pcd') = Ev.nx ELSE Ev.nx = "-"
      [] Ev.e = "ToPcd" -> NxOf(pcd') = Ev.nx
      [] Ev.e = "End" ->
            /\ Ev.res = pcd.ph
            /\ (pcd.ph = "ret" /\ pcd.op = "apdu" => Ev.ok = Intact(pcd) /\ Ev.len = SumLen(pcd.resp))
            /\ (pcd.ph = "err" => Ev.errno = pcd.errno)
            /\ (pcd.ph = "raise" => Ev.rtype = pcd.rtype)
      [] OTHER -> FALSE

InvNames == <<"AtMostOnce", "NoGarbage", "NoStale", "RespIntact", "OnlyT4Error", "BlockFits", "CleanOk">>
InvP(n) == CASE n = "AtMostOnce"  -> AtMostOnceP(exec')
             [] n = "NoGarbage"   -> NoGarbageP(garbage')
             [] n = "NoStale"     -> NoStaleP(pcd')
             [] n = "RespIntact"  -> (Ret(pcd') => Intact(pcd') /\ exec'[pcd'.cur] = 1)
             [] n = "OnlyT4Error" -> OnlyT4ErrorP(pcd')
             [] n = "BlockFits"   -> BlockFitsP(slot', cfg)
             [] n = "CleanOk"     -> CleanOkP(pcd', xf', dirty')
             \* (device limits: cfg.fsc = min(card FSC, device send limit) bounds every block: BlockFits)
AllInv == Judge => \A i \in DOMAIN InvNames : InvP(InvNames[i])

Real == Guarded /\ ResOk /\ AllInv

\* --- diagnosis ------------------------------------------------------------------------------
FailedInv == SelectSeq(InvNames, LAMBDA n : ~ENABLED (Guarded /\ ResOk /\ InvP(n)))
Ctx == [ph |-> pcd.ph, op |-> pcd.op, dirty |-> dirty, out |-> pcd.out.t, pni |-> pcd.pni, i |-> pcd.i,
        slot |-> IF slot.k = "none" THEN "-" ELSE slot.b.t, piccbn |-> picc.bn, await |-> picc.await, wc |-> pcd.wc]
Expect ==
    CASE Ev.e = "Send" -> [b |-> pcd.out, tmo |-> pcd.tmo, pni |-> pcd.pni]
      [] Ev.e = "End" -> [ph |-> pcd.ph, errno |-> pcd.errno, rtype |-> pcd.rtype,
                          ok |-> IF pcd.cur > 0 /\ pcd.cur <= Len(rl) THEN Intact(pcd) ELSE FALSE,
                          len |-> SumLen(pcd.resp)]
      [] Ev.e = "ToPcd" /\ slot.k = "toPcd" /\ Active(pcd) ->
            [nx |-> {NxOf(q) : q \in PcdRx(pcd, cfg, RxOf(Ev.f, slot.b))}]
      [] Ev.e = "ToCard" /\ slot.k = "toCard" /\ Ev.f = "deliver" ->
            [rep |-> {[rep |-> o.rep, ex |-> o.ex] : o \in PiccOutcomes(picc, slot.b, cfg, TRUE)}]
      [] Ev.e = "ToCard" /\ slot.k = "toCard" /\ Active(pcd) ->
            [nx |-> {NxOf(q) : q \in PcdRx(pcd, cfg, [k |-> "timeout", b |-> NoBlk])}]
      [] OTHER -> "-"
Why == IF ~ENABLED Guarded THEN <<"guard", Ctx>>
       ELSE IF ~ENABLED (Guarded /\ ResOk) THEN <<"result", Ctx, Expect>>
       ELSE <<"inv", FailedInv, Ctx>>

Stuck ==
    /\ l <= Len(T)
    /\ ~ENABLED Real
    /\ PrintT(<<"STUCK", Traces[tid].id, l, Ev.e, Why>>)
    /\ l' = Len(T) + 2
    /\ UNCHANGED <<vars, tid>>

TNext == Real \/ Stuck
TSpec == TInit /\ [][TNext]_tvars

Done == (l = Len(T) + 1) => PrintT(<<"ACCEPT", Traces[tid].id>>)
=============================================================================
