--------------------------- MODULE Trace_ClfLock ---------------------------
(* Trace validation for ClfLock (C15).  One trace = one deterministic schedule of 2..3 application
   threads using ONE real nfc.clf.ContactlessFrontend over a simulated device.  Events (one per line):
     Begin/End  a thread enters / leaves a public operation (op)
     Acq/Rel    the frontend lock was taken / is about to be given back (owner-tracking lock proxy)
     Enter/Exit a driver method is entered / left (recording proxy); `site` is the call site in
                clf/__init__.py found from the caller's frame, `m` the driver method actually called,
                `held` whether the CALLING thread owned the lock, `nodev` that the call failed because
                self.device was None (AttributeError at that site)
   Every event carries the harness' view of the post-state (lock owner, threads inside the driver,
   device open/closed), which must equal the spec's; all invariants are step post-conditions.
   The `if self.device is None` test has no event of its own: it is folded into Acq.  *)
EXTENDS ClfLock, Json, IOUtils, TLCExt

VARIABLES tid, l
tvars == <<lock, inDriver, device, ref, closer, pc, tid, l>>

Traces == ndJsonDeserialize(IOEnv.TRACE_FILE)
T == Traces[tid].ev

TInit ==
    /\ tid \in 1..Len(Traces)
    /\ l = 1
    /\ lock = Free
    /\ inDriver = {}
    /\ device = Traces[tid].init.dev
    /\ ref = (Traces[tid].init.dev = "open")
    /\ closer = ""
    /\ pc = [t \in Thread |-> Idle]

Ev == T[l]
IsEv(a) == l <= Len(T) /\ Ev.a = a /\ l' = l + 1 /\ UNCHANGED tid

\* An Acq event carries `sites`: the call sites its thread uses before the matching Rel (computed from the
\* recorded trace itself).  It only picks the lock region of the table; every Enter is checked against it.
Set2(s) == {s[i] : i \in DOMAIN s}

GBegin == IsEv("Begin") /\ Ev.op \in Ops /\ Begin(Ev.t, Ev.op)
GEnd   == IsEv("End") /\ End(Ev.t)
\* Acq = `with self.lock:` entered; the `self.device is None` test of a guarded region follows at once (no
\* scheduling point in between), so its outcome is fixed here: `devnone` is what the frontend saw
\* (self.device is None) at that moment; whether that matches the driver's state is judged by NotAfterClose
GAcq   == /\ IsEv("Acq")
          /\ pc[Ev.t].op # "" /\ pc[Ev.t].seg = 0 /\ pc[Ev.t].site = ""
          /\ lock = Free
          /\ \E k \in DOMAIN Segs(Ev.t) :
                /\ Segs(Ev.t)[k].locked
                /\ Set2(Ev.sites) \subseteq Segs(Ev.t)[k].calls
                /\ pc' = [pc EXCEPT ![Ev.t].seg = k, ![Ev.t].chk = ~Ev.devnone]
          /\ lock' = Ev.t
          /\ UNCHANGED <<inDriver, device, ref, closer>>
GRel   == IsEv("Rel") /\ lock = Ev.t /\ Release(Ev.t)

GEnter == /\ IsEv("Enter")
          /\ Ev.site \in Site /\ CanCall(Ev.t, Ev.site)
          /\ inDriver' = inDriver \cup {Ev.t}
          /\ pc' = EnterPc(Ev.t, Ev.site)
          /\ device' = IF SiteM[Ev.site] = "close" THEN "closed" ELSE device
          /\ closer' = IF SiteM[Ev.site] = "close" /\ device = "open" THEN Ev.site ELSE closer
          /\ UNCHANGED <<lock, ref>>
GExit  == IsEv("Exit") /\ ExitF(Ev.t, Ev.ok)          \* ok: the driver method returned (FALSE: it raised)
Guarded == GBegin \/ GEnd \/ GAcq \/ GRel \/ GEnter \/ GExit

\* static table vs dynamic observation, and the harness' own view of who holds the lock
ResOk == CASE Ev.a = "Enter" -> /\ SiteM[Ev.site] = Ev.m
                                /\ Ev.held = (lock = Ev.t)
           [] OTHER -> TRUE
PostOk == /\ lock' = Ev.lock
          /\ inDriver' = Set2(Ev.indrv)
          /\ device' = Ev.dev
          /\ ref' = ~Ev.devnone                         \* the frontend's self.device is (not) None

InvNames == <<"Mutex", "HolderOnly", "NotAfterClose", "Consistent">>
InvP(n) == CASE n = "Mutex" -> MutexP(inDriver', pc')
             [] n = "HolderOnly" -> HolderOnlyP(inDriver', pc', lock')
             [] n = "NotAfterClose" -> NotAfterCloseP(inDriver', pc', device')
             [] n = "Consistent" -> ConsistentP(inDriver', pc', lock')
AllInv == \A i \in DOMAIN InvNames : InvP(InvNames[i])

Real == Guarded /\ ResOk /\ PostOk /\ AllInv

FailedInv == SelectSeq(InvNames, LAMBDA n : ~ENABLED (Guarded /\ ResOk /\ PostOk /\ InvP(n)))
\* the call site to blame for a violated invariant: the entering call's own site, unless the call was made
\* in good faith (device test passed under the lock) on a driver that a close() had already closed while the
\* frontend kept its reference - then the close() call site
Blame == IF Ev.a = "Enter" /\ Ev.site \in Site /\ EnterPc(Ev.t, Ev.site)[Ev.t].hit # ""
              /\ ~EnterPc(Ev.t, Ev.site)[Ev.t].late /\ lock = Ev.t
         THEN EnterPc(Ev.t, Ev.site)[Ev.t].hit ELSE Ev.site
Why == IF ~ENABLED Guarded THEN <<"guard", [lock |-> lock, dev |-> device, ref |-> ref, pc |-> pc[Ev.t]]>>
       ELSE IF ~ENABLED (Guarded /\ ResOk) THEN <<"result", [lock |-> lock]>>
       ELSE IF ~ENABLED (Guarded /\ ResOk /\ PostOk) THEN <<"post", [lock |-> lock, dev |-> device, ref |-> ref, indrv |-> inDriver]>>
       ELSE <<"inv", FailedInv, Blame>>

Stuck ==
    /\ l <= Len(T)
    /\ ~ENABLED Real
    /\ PrintT(<<"STUCK", Traces[tid].id, l, Ev.a, Why>>)
    /\ l' = Len(T) + 2
    /\ UNCHANGED <<lock, inDriver, device, ref, closer, pc, tid>>

TNext == Real \/ Stuck
TSpec == TInit /\ [][TNext]_tvars

Done == (l = Len(T) + 1) => PrintT(<<"ACCEPT", Traces[tid].id>>)
=============================================================================
