SPECIFICATION Spec
CONSTANTS
  CMius = {2, 3}
  SMius = {2, 3}
  Lens = {1, 2, 3, 4, 5, 7}
  RespLens = {1, 3, 4, 7}
  MaxReq = 3
INVARIANT DeliveredIntact
INVARIANT Results
INVARIANT FragmentFits
CHECK_DEADLOCK FALSE
