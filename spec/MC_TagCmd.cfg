SPECIFICATION Spec
CONSTANTS
  MaxN = 5
  Bursts = {1, 2, 3, 4}
  Protos = {"T1", "T2", "T3", "T4"}
  NRetries = {0, 1, 3}
  Buggy = FALSE
INVARIANT Bounded
INVARIANT NoResendAfterAnswer
INVARIANT Retries
INVARIANT OnlyTagError
INVARIANT AtMostOncePerAnswer
INVARIANT TargetFollowsSense
INVARIANT NoViol
INVARIANT Absorbed
INVARIANT GaveUpOutcome
PROPERTY Terminates
