SPECIFICATION Spec
CONSTANTS
  M = 4
  MaxMsg = 5
  RWs = {2}
  Lens = {1}
  ConnMius = {2}
  LinkMius = {16}
  Agfs = {TRUE}
  MaxWire = 1
  WithClose = FALSE
INVARIANT W_Wrap
INVARIANT W_Agf
INVARIANT W_Necessary
INVARIANT W_Rnr
INVARIANT W_FullWin
CHECK_DEADLOCK FALSE
