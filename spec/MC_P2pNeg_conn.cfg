SPECIFICATION MC_ConnSpec
CONSTANTS
  MaxSent = 0
  MaxConn = 1
  MiuClasses <- MC_MiuAll
  RwVals <- MC_RwAll
  Kinds <- MC_Ml
INVARIANT ConnEqual
INVARIANT ConnLimitAgree
INVARIANT ConnSane
INVARIANT MC_ConnWitLog
CHECK_DEADLOCK FALSE
