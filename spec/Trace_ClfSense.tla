--------------------------- MODULE Trace_ClfSense ---------------------------
(* Trace validation for ClfSense (C18): one trace = one session of sense / listen / exchange calls on a real
   ContactlessFrontend over the simulated device.  Events:
     Sense(kinds, iters, res, idx, muted)   result of clf.sense with the target list and iterations=iters: "found" with the list
                                            position of the returned target, "none", or the exception name;
                                            muted = the last driver call of the sense() was mute()
     Listen(kinds = <<kind>>, res)          "found" / "none" / the exception name
     Exchange(sent, res)                    which driver method carried the data: "cmd" / "rsp" / "nothing"
   each with the post-state projection (clf.target kind, device field). *)
EXTENDS ClfSense, Json, IOUtils, TLCExt

VARIABLES tid, l
tvars == <<target, field, last, nops, tid, l>>

Traces == ndJsonDeserialize(IOEnv.TRACE_FILE)
T == Traces[tid].ev

TInit == /\ tid \in 1..Len(Traces) /\ l = 1
         /\ target = "none" /\ field = FALSE /\ last = NoOp /\ nops = 0

Ev == T[l]
IsEv == l <= Len(T) /\ l' = l + 1 /\ UNCHANGED tid

KindsOk == \A i \in DOMAIN Ev.kinds : Ev.kinds[i] \in Kinds \cup ListenKinds
Match ==
    CASE Ev.a = "Sense"    -> /\ KindsOk /\ Ev.iters >= 1
                              /\ Ev.interval >= 0 /\ Ev.cycle >= 0
                              /\ Sense(Ev.kinds, Ev.iters, Ev.interval, Ev.cycle)
      [] Ev.a = "Listen"   -> Len(Ev.kinds) = 1 /\ Ev.kinds[1] \in ListenKinds /\ Listen(Ev.kinds[1])
      [] Ev.a = "Exchange" -> Exchange
      [] OTHER -> FALSE
\* `args` tells for every target which sized attribute it carries and how long it is: the environment kind of a
\* target with such an attribute is "invalid" exactly when the length is outside the documented range
ArgsOk == Ev.a = "Sense" =>
            /\ Len(Ev.args) = Len(Ev.kinds)
            /\ \A i \in DOMAIN Ev.args :
                  /\ Ev.args[i].t = "dep" => ((Ev.kinds[i] = "invalid") = ~AtrReqOk(Ev.args[i].n))
                  /\ Ev.args[i].t = "sel" => ((Ev.kinds[i] = "invalid") = ~SelReqOk(Ev.args[i].n))
ListenArgsOk == (Ev.a = "Listen" /\ Len(Ev.args) = 1 /\ Ev.args[1].t = "dep") =>
                    ((Ev.kinds[1] = "found") = AtrReqOk(Ev.args[1].n))      \* listen() accepts an ATR_REQ of 16..64 bytes
Guarded == IsEv /\ ArgsOk /\ ListenArgsOk /\ Match
ResOk == /\ last'.res = Ev.res
         /\ last'.idx = Ev.idx
         /\ last'.sent = (IF Ev.a = "Exchange" THEN Ev.sent ELSE "")
         /\ (Ev.a = "Sense" => last'.pauses = Ev.pauses)          \* the arguments of time.sleep(), in microseconds
         /\ (Ev.a = "Sense" => Ev.sent = (IF BadArgs(Ev.kinds) THEN "no-driver-call" ELSE "mute-first"))            \* sense() starts by switching the field off
         /\ (Ev.a = "Sense" /\ Ev.res = "none") => Ev.muted
PostOk == target' = Ev.target /\ field' = Ev.field

InvNames == <<"FirstFound", "UnsupportedIgnored", "Raises", "MuteWhenNone", "TargetFresh", "ExchangeOk", "Pauses", "ArgCheck">>
InvP(n) == CASE n = "FirstFound" -> FirstFoundP(last')
             [] n = "UnsupportedIgnored" -> UnsupportedIgnoredP(last')
             [] n = "Raises" -> RaisesP(last')
             [] n = "MuteWhenNone" -> MuteWhenNoneP(last', field')
             [] n = "TargetFresh" -> TargetFreshP(last', target')
             [] n = "ExchangeOk" -> ExchangeP(last', target)
             [] n = "Pauses" -> PausesP(last')
             [] n = "ArgCheck" -> ArgCheckP(last', target', field')
AllInv == \A i \in DOMAIN InvNames : InvP(InvNames[i])

Real == Guarded /\ ResOk /\ PostOk /\ AllInv

Exp == IF Ev.a = "Sense" /\ KindsOk THEN SenseRes(Ev.kinds) ELSE [res |-> "-", idx |-> 0]
FailedInv == SelectSeq(InvNames, LAMBDA n : ~ENABLED (Guarded /\ ResOk /\ PostOk /\ InvP(n)))
\* the contract evaluated on what was OBSERVED (when the real outcome is not the one the model produces)
Obs == [op |-> CASE Ev.a = "Sense" -> "sense" [] Ev.a = "Listen" -> "listen" [] OTHER -> "exchange",
        kinds |-> Ev.kinds, iters |-> Ev.iters, res |-> Ev.res, idx |-> Ev.idx, sent |-> Ev.sent, had |-> target,
        interval |-> Ev.interval, cycle |-> Ev.cycle, pauses |-> Ev.pauses, hadf |-> field,
        drv |-> Ev.sent # "no-driver-call"]
ObsBroken ==
    SelectSeq(InvNames, LAMBDA n :
        CASE n = "FirstFound" -> ~FirstFoundP(Obs)
          [] n = "UnsupportedIgnored" -> ~UnsupportedIgnoredP(Obs)
          [] n = "Raises" -> ~RaisesP(Obs)
          [] n = "MuteWhenNone" -> ~MuteWhenNoneP(Obs, Ev.field) \/ (Ev.a = "Sense" /\ Ev.res = "none" /\ ~Ev.muted)
          [] n = "TargetFresh" -> ~TargetFreshP(Obs, Ev.target)
          [] n = "ExchangeOk" -> ~ExchangeP(Obs, target)
          [] n = "Pauses" -> ~PausesP(Obs)
          [] n = "ArgCheck" -> ~ArgCheckP(Obs, Ev.target, Ev.field))
Why == IF ~ENABLED Guarded THEN <<"guard", [nops |-> nops]>>
       ELSE IF ~ENABLED (Guarded /\ ResOk /\ PostOk) /\ ObsBroken # <<>> THEN <<"inv", ObsBroken>>
       ELSE IF ~ENABLED (Guarded /\ ResOk) THEN <<"result", [expected |-> Exp, target |-> target, sent |-> SentFor(target)]>>
       ELSE IF ~ENABLED (Guarded /\ ResOk /\ PostOk) THEN <<"post", [target |-> target, field |-> field, expected |-> Exp]>>
       ELSE <<"inv", FailedInv>>

Stuck == /\ l <= Len(T)
         /\ ~ENABLED Real
         /\ PrintT(<<"STUCK", Traces[tid].id, l, Ev.a, Why>>)
         /\ l' = Len(T) + 2
         /\ UNCHANGED <<target, field, last, nops, tid>>

TNext == Real \/ Stuck
TSpec == TInit /\ [][TNext]_tvars
Done == (l = Len(T) + 1) => PrintT(<<"ACCEPT", Traces[tid].id>>)
=============================================================================
