--------------------------- MODULE MC_LlcpAddr ---------------------------
(* Model-checking wrapper of LlcpAddr: per-side bounds and roles (functions cannot be written in a .cfg). *)
EXTENDS LlcpAddr
AllocOps == {"Socket", "BindNone", "BindAddr", "BindName", "Listen", "Accept", "Close", "RecvFrom"}
UserOps  == {"Socket", "Resolve", "ConnectName", "ConnectAddr", "SendTo", "Close"}
\* A serves (allocates, listens, accepts, receives), B uses (resolves, connects, sends)
RolesAB == [c \in {"A", "B"} |-> IF c = "A" THEN AllocOps ELSE UserOps]
KindsAB == [c \in {"A", "B"} |-> IF c = "A" THEN {"ldl", "dlc", "raw"} ELSE {"ldl", "dlc"}]
Max32   == [c \in {"A", "B"} |-> IF c = "A" THEN 3 ELSE 2]
Max42   == [c \in {"A", "B"} |-> IF c = "A" THEN 4 ELSE 2]
\* allocation only: one side, more sockets
RolesA  == [c \in {"A", "B"} |-> IF c = "A" THEN AllocOps ELSE {"Resolve"}]
Max50   == [c \in {"A", "B"} |-> IF c = "A" THEN 5 ELSE 0]
\* both sides do everything, few sockets
RolesAll == [c \in {"A", "B"} |-> AllocOps \cup UserOps]
KindsLD  == [c \in {"A", "B"} |-> {"ldl", "dlc"}]
Max22    == [c \in {"A", "B"} |-> 2]
BA == {-1, 2, 4, 5, 8}        \* out of range, the well-known service address, named, dynamic, out of range
\* scenario families of the quick tier (the kinds of the sockets a side creates are fixed per family)
SeqAlloc == [c \in {"A", "B"} |-> IF c = "A" THEN <<"raw", "dlc", "ldl", "dlc">> ELSE <<>>]
SeqNames == [c \in {"A", "B"} |-> IF c = "A" THEN <<"dlc", "dlc", "dlc">> ELSE <<"dlc">>]
Max41    == [c \in {"A", "B"} |-> IF c = "A" THEN 4 ELSE 1]
SeqNamesQ == [c \in {"A", "B"} |-> IF c = "A" THEN <<"dlc", "dlc">> ELSE <<"dlc">>]
\* thorough tier
SeqAllocT == [c \in {"A", "B"} |-> IF c = "A" THEN <<"raw", "dlc", "ldl", "dlc", "ldl">> ELSE <<>>]
SeqDgramT == [c \in {"A", "B"} |-> IF c = "A" THEN <<"raw", "ldl", "ldl">> ELSE <<"ldl", "ldl">>]
SeqDgram == [c \in {"A", "B"} |-> IF c = "A" THEN <<"raw", "ldl", "ldl">> ELSE <<"ldl">>]
Max31    == [c \in {"A", "B"} |-> IF c = "A" THEN 3 ELSE 1]
Max42n   == [c \in {"A", "B"} |-> IF c = "A" THEN 4 ELSE 2]
AllocOnly == [c \in {"A", "B"} |-> IF c = "A" THEN {"Socket", "BindNone", "BindAddr", "BindName", "Listen", "Close"} ELSE {}]
Max40     == [c \in {"A", "B"} |-> IF c = "A" THEN 4 ELSE 0]
KindsA3   == [c \in {"A", "B"} |-> IF c = "A" THEN {"ldl", "dlc", "raw"} ELSE {}]
NameOps   == [c \in {"A", "B"} |-> IF c = "A" THEN {"Socket", "BindName", "Listen", "Accept", "Close"}
                                              ELSE {"Socket", "Resolve", "ConnectName"}]
KindsD    == [c \in {"A", "B"} |-> {"dlc"}]
Max43     == [c \in {"A", "B"} |-> IF c = "A" THEN 4 ELSE 2]
DgramOps  == [c \in {"A", "B"} |-> IF c = "A" THEN {"Socket", "BindNone", "BindAddr", "BindName", "RecvFrom", "Close"}
                                              ELSE {"Socket", "BindNone", "SendTo", "ConnectAddr", "Close"}]
KindsLR   == [c \in {"A", "B"} |-> IF c = "A" THEN {"ldl", "raw"} ELSE {"ldl"}]
\* socket life cycle: connections that are ended by the peer (DISC), by FRMR or by a UI PDU before the application
\* closes the socket, then re-use of the address / the service name
LifeOps  == [c \in {"A", "B"} |-> IF c = "A" THEN {"Socket", "BindName", "BindAddr", "Listen", "Accept", "Recv", "PeerFrmr", "Close"}
                                              ELSE {"Socket", "ConnectName", "ConnectAddr", "SendTo", "Recv", "PeerFrmr", "Resolve", "Close"}]
SeqLife  == [c \in {"A", "B"} |-> IF c = "A" THEN <<"dlc", "dlc">> ELSE <<"dlc", "ldl">>]
SeqLifeT == [c \in {"A", "B"} |-> IF c = "A" THEN <<"dlc", "dlc", "dlc">> ELSE <<"dlc", "ldl", "dlc">>]
Max43L   == [c \in {"A", "B"} |-> IF c = "A" THEN 4 ELSE 3]
BAL      == {5}
\* address reuse: a remote address disconnects and connects again to the same service while the first server-side
\* socket is still there (CLOSE_WAIT, shut down) or was closed; then data both ways and DISC
ReuseOps == [c \in {"A", "B"} |-> IF c = "A" THEN {"Socket", "BindAddr", "Listen", "Accept", "Recv", "DSend", "Close"}
                                              ELSE {"Socket", "BindAddr", "ConnectAddr", "Recv", "DSend", "Close"}]
SeqReuse == [c \in {"A", "B"} |-> IF c = "A" THEN <<"dlc">> ELSE <<"dlc", "dlc">>]
Max32r   == [c \in {"A", "B"} |-> IF c = "A" THEN 3 ELSE 2]
BA56     == {5, 6}
\* one full cycle of an address range and more: allocate, give back, allocate again (temporal witnesses NeverDynRefilled /
\* NeverNamedRefilled must be violated; AddrPoolConserved all the way)
RefillOps  == [c \in {"A", "B"} |-> IF c = "A" THEN {"Socket", "BindNone", "Close"} ELSE {}]
RefillOpsN == [c \in {"A", "B"} |-> IF c = "A" THEN {"Socket", "BindName", "Close"} ELSE {}]
SeqRefill == [c \in {"A", "B"} |-> IF c = "A" THEN <<"ldl", "dlc", "ldl", "dlc", "ldl">> ELSE <<>>]
\* link MIUs of the scaled model: A announces 3, B announces 2 (a sender may put as much as the RECEIVER announced)
MiuAB == [c \in {"A", "B"} |-> IF c = "A" THEN 3 ELSE 2]
=============================================================================
