SPECIFICATION Spec
CONSTANTS
  Mode = "bytes"
  Saps = {0}
  Seqn = {0}
  Miuxs = {0}
  Rws = {1}
  Sym = {0}
  MemSapCodes = {0}
  FrmrSapCodes = {0}
  Alpha = {0, 1, 2, 3, 5, 6, 8, 9, 10, 65, 240, 255}
INVARIANT ReEncode
INVARIANT TopSame
INVARIANT LooseWeaker
INVARIANT NoNestStricter
CHECK_DEADLOCK FALSE
