----------------------------- MODULE TagReadRef -----------------------------
(* C08: reference reader for the Type 2 TLV data area, as pure operators (no state).  RefRead is total on
   every image; WellFormed characterises the images on which every conforming reader must agree with it.
   Checked for totality and bounds on all small images by MC_TagReadRef; oracle for the well-formed
   Type 2 images of recorded runs in Trace_TagRead. *)
EXTENDS Integers, Sequences, FiniteSets, TLC, SequencesExt

\* ---- reference reader for the Type 2 TLV area --------------------------------------------------
\* mem: sequence of bytes, mem[i+1] is the byte at address i.  Data area = addresses lo .. hi-1.
B(mem, a) == IF a + 1 \in DOMAIN mem THEN mem[a + 1] ELSE 0
RefStep(mem, hi, s, i) ==
      IF s.done \/ s.pos >= hi THEN [s EXCEPT !.done = TRUE]
      ELSE LET t == B(mem, s.pos) IN
        IF t = 0 THEN [s EXCEPT !.pos = @ + 1]                                   \* NULL TLV
        ELSE IF t = 254 THEN [s EXCEPT !.done = TRUE]                            \* terminator
        ELSE IF s.pos + 1 >= hi THEN [s EXCEPT !.done = TRUE]                    \* no room for a length
        ELSE LET l1   == B(mem, s.pos + 1)
                 long == l1 = 255
                 ok3  == s.pos + 3 < hi
                 len  == IF long THEN (IF ok3 THEN B(mem, s.pos + 2) * 256 + B(mem, s.pos + 3) ELSE 0) ELSE l1
                 voff == s.pos + (IF long THEN 4 ELSE 2) IN
             IF long /\ ~ok3 THEN [s EXCEPT !.done = TRUE]
             ELSE IF t = 3 THEN
                    IF voff + len <= hi
                    THEN [s EXCEPT !.done = TRUE, !.found = TRUE, !.off = voff, !.len = len, !.tlv = s.pos]
                    ELSE [s EXCEPT !.done = TRUE]                                \* message does not fit: no NDEF
             ELSE [s EXCEPT !.pos = voff + len]                                  \* any other TLV is stepped over
RefRead(mem, lo, hi) ==
    LET n == IF hi > lo THEN hi - lo ELSE 0
        s == FoldLeft(LAMBDA a, i : RefStep(mem, hi, a, i), [pos |-> lo, done |-> FALSE, found |-> FALSE, off |-> 0, len |-> 0, tlv |-> 0],
                      [i \in 1..n |-> i]) IN
    [found |-> s.found, off |-> s.off, len |-> s.len, tlv |-> s.tlv]

\* the images on which every conforming reader must agree with RefRead: NDEF management present, the
\* TLV chain up to the NDEF message TLV consists of NULL and non-control TLVs that all lie in the area
WfStep(mem, hi, s, i) ==
      IF s.done \/ ~s.ok THEN s
      ELSE IF s.pos >= hi THEN [s EXCEPT !.ok = FALSE]
      ELSE LET t == B(mem, s.pos) IN
        IF t = 0 THEN [s EXCEPT !.pos = @ + 1]
        ELSE IF t \in {1, 2, 254} \/ s.pos + 1 >= hi THEN [s EXCEPT !.ok = FALSE]
        ELSE LET l1 == B(mem, s.pos + 1)
                 long == l1 = 255
                 len == IF long THEN B(mem, s.pos + 2) * 256 + B(mem, s.pos + 3) ELSE l1
                 voff == s.pos + (IF long THEN 4 ELSE 2) IN
             IF (long /\ (s.pos + 3 >= hi \/ len < 255)) \/ voff + len > hi THEN [s EXCEPT !.ok = FALSE]
             ELSE IF t = 3 THEN [s EXCEPT !.done = TRUE]
             ELSE [s EXCEPT !.pos = voff + len]
WellFormed(mem, lo, hi) ==
    /\ Len(mem) >= 16 /\ mem[13] = 225 /\ mem[14] \div 16 = 1 /\ mem[16] \div 16 = 0
    /\ hi > lo /\ hi <= Len(mem)
    /\ LET s == FoldLeft(LAMBDA a, i : WfStep(mem, hi, a, i), [pos |-> lo, done |-> FALSE, ok |-> TRUE], [i \in 1..(hi - lo) |-> i])
       IN s.ok /\ s.done
=============================================================================
