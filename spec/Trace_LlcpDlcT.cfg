SPECIFICATION TSpec
CONSTANTS
  M = 16
  MaxMsg = 100000
  RWs = {1}
  Lens = {1}
  ConnMius = {128}
  LinkMius = {128}
  Agfs = {TRUE}
  MaxWire = 100000
  WithClose = TRUE
CONSTRAINT Done
CHECK_DEADLOCK FALSE
