SPECIFICATION Spec
CONSTANTS
  Cfgs <- MC_CfgsNoDid
  Lens <- MC_Lens
  Ds <- MC_Ds
  MaxEx = 2
  MaxFaults = 3
  MaxStepFaults = 3
  Vs <- MC_VsFixed
  WithRelease = TRUE
  WithTrunc = FALSE
  MaxSess = 2
VIEW View
CHECK_DEADLOCK FALSE
