SPECIFICATION TSpec
CONSTANTS
  Cfgs <- TNone
  Lens <- TNone
  Ds <- TNone
  MaxEx = 1000000
  MaxFaults = 1000000
  MaxStepFaults = 1000000
  Vs <- TVs
  WithRelease = TRUE
  WithTrunc = TRUE
  MaxSess = 1000000
CONSTRAINT Done
CHECK_DEADLOCK FALSE
