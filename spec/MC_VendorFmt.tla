---------------------------- MODULE MC_VendorFmt ----------------------------
EXTENDS VendorFmt, TLCExt
RWs == SUBSET (0..NB)
RWq == {rw \in SUBSET (0..NB) : NB \in rw}
WH(n) == CASE n = "W_FormatTrue" -> ~(last.op = "format" /\ last.res = "True" /\ tag.kind = "lite" /\ tag.attr.n = NB - 1)
           [] n = "W_FormatGap" -> ~(last.op = "format" /\ last.res = "True" /\ Felica(tag.kind) /\ tag.attr.n < NB - 1 /\ tag.attr.n > 0)
           [] n = "W_FormatWipe" -> ~(last.op = "format" /\ last.res = "True" /\ tag.wiped # {})
           [] n = "W_FormatFlag" -> ~(last.op = "format" /\ last.res = "True" /\ "mc" \in {wlog[i] : i \in DOMAIN wlog})
           [] n = "W_FormatFalse" -> ~(last.op = "format" /\ last.res = "False" /\ Felica(tag.kind) /\ op.ver = 16)
           [] n = "W_FormatVersion" -> ~(last.op = "format" /\ last.res = "False" /\ op.ver = 32)
           [] n = "W_ProtectLite" -> ~(last.op = "protect" /\ last.res = "True" /\ tag.kind = "lite" /\ op.pw = "kA" /\ pc = "idle")
           [] n = "W_ProtectLiteS" -> ~(last.op = "protect" /\ last.res = "True" /\ tag.kind = "lites" /\ op.rp /\ tag.rdm # {} /\ pc = "idle")
           [] n = "W_ProtectNdefRO" -> ~(last.op = "protect" /\ last.res = "True" /\ ~tag.attr.rwf /\ op.attr0.rwf /\ pc = "idle")
           [] n = "W_ProtectNoPw" -> ~(last.op = "protect" /\ last.res = "True" /\ op.pw = "none" /\ Felica(tag.kind) /\ pc = "idle")
           [] n = "W_ProtectRefused" -> ~(last.op = "protect" /\ last.res = "False" /\ op.pw = "kA" /\ ~op.rp)
           [] n = "W_ProtectRP" -> ~(last.op = "protect" /\ last.res = "False" /\ op.rp /\ tag.kind = "lite")
           [] n = "W_CutKeyNotLocked" -> ~(pc = "idle" /\ ncut = 1 /\ op.name = "protect" /\ tag.ck = op.pw /\ tag.sys /\ op.pw = "kA")
           [] n = "W_Topaz" -> ~(last.op = "protect" /\ last.res = "True" /\ tag.kind = "topaz512")
           [] n = "W_TopazFalse" -> ~(last.op = "protect" /\ last.res = "False" /\ tag.kind = "topaz")
           [] OTHER -> ~(last.op = "format" /\ last.res = "True" /\ tag.kind = "topaz" /\ tag.attr.ver = 17)
WNames == <<"W_FormatTrue", "W_FormatGap", "W_FormatWipe", "W_FormatFlag", "W_FormatFalse", "W_FormatVersion", "W_ProtectLite",
            "W_ProtectLiteS", "W_ProtectNdefRO", "W_ProtectNoPw", "W_ProtectRefused", "W_ProtectRP", "W_CutKeyNotLocked",
            "W_Topaz", "W_TopazFalse", "W_TopazVersion">>
Reached == \A i \in DOMAIN WNames :
              (~WH(WNames[i]) /\ TLCGetOrDefault(i, 0) = 0) => (TLCSet(i, 1) /\ PrintT(<<"WITNESS", WNames[i]>>))
=============================================================================
