---------------------------- MODULE MC_TagCmd ----------------------------
(* Exhaustive check of the C16 discipline: a client that follows the transceive loops of nfc/tag
   (as TagCmd.Do* describe them) against every fault script Pos x Kind x Burst x Mode of operations
   of 1..MaxN commands.  With Buggy = TRUE the client may break each rule once: the invariants must
   then be violated (reachability witnesses). *)
EXTENDS TagCmd
CONSTANTS MaxN, Bursts, Protos, NRetries, Buggy
VARIABLES st, P, sc, left, extra
vars == <<st, P, sc, left, extra>>

N == Len(P.clean)
CcOf(n) == CASE P.proto = "T4" -> (IF n % 4 = 1 THEN "I" ELSE IF n % 4 = 2 THEN "R" ELSE IF n % 4 = 3 THEN "P" ELSE "act")
             [] P.proto = "T2" /\ n = 2 /\ N >= 3 -> "ssel2"
             [] OTHER -> "std"
Docs == {{}, {"None"}, {"False"}, {"any"}}

Init ==
    /\ \E n \in 1..MaxN, proto \in Protos, nr \in NRetries, d \in Docs, nx \in BOOLEAN :
          (nx => d = {"None"}) /\
          P = [proto |-> proto, nRetry |-> nr, clean |-> [i \in 1..n |-> i],
               cleanRet |-> [kind |-> "ok", errno |-> 0, val |-> "v"], doc |-> d, gone |-> FALSE, noraise |-> nx]
    /\ sc \in Scripts(MaxN, Bursts)
    /\ sc.p <= Len(P.clean)
    /\ left = sc.b
    /\ st = StInit
    /\ extra = 0

Keep == UNCHANGED <<P, sc>>
FaultDue == st.pos = sc.p /\ left > 0 /\ st.cc # "Rn"

CSend == /\ st.ph = "idle" /\ st.gave = 0 /\ st.pos < N
         /\ st' = DoSend(st, P, st.pos + 1, CcOf(st.pos + 1), st.tgt)
         /\ UNCHANGED <<left, extra>> /\ Keep
CRetry == /\ st.ph = "faulted"
          /\ st' = IF P.proto = "T4" /\ st.cc = "I" THEN DoSend(st, P, 1000, "R", st.tgt) ELSE DoSend(st, P, st.cur, st.cc, st.tgt)
          /\ UNCHANGED <<left, extra>> /\ Keep
CReack == /\ st.ph = "reack"
          /\ st' = DoSend(st, P, st.cur, "I", st.tgt)
          /\ UNCHANGED <<left, extra>> /\ Keep
\* after giving up the operation may still send clean-up / further commands before it ends
CDirty == /\ st.ph = "idle" /\ st.gave > 0 /\ extra < 1
          /\ st' = DoSend(st, P, 500 + extra, "std", st.tgt)
          /\ extra' = extra + 1 /\ UNCHANGED left /\ Keep
EnvAnswer == /\ st.ph = "sent" /\ ~FaultDue
             /\ st' = IF P.proto = "T4" /\ st.cc = "I" /\ st.att > 1 /\ st.ex = 0 /\ st.ph = "sent" /\ st.att % 2 = 0
                      THEN DoAnswer(st, P, "rack", FALSE)                       \* R(NAK) for a block the card never saw
                      ELSE DoAnswer(st, P, "rsp", ~(P.proto = "T4" /\ st.ex > 0))
             /\ UNCHANGED <<left, extra>> /\ Keep
\* ISO-DEP card asks for more time instead of answering the first attempt of the scripted command: the fault then hits
\* the S(WTX) exchange
EnvWtx == /\ st.ph = "sent" /\ P.proto = "T4" /\ st.cc \in {"I", "R"} /\ st.pos = sc.p /\ left = sc.b /\ st.att = 1 /\ extra = 0
          /\ st' = DoAnswer(st, P, "wtx", FALSE)
          /\ extra' = 2 /\ UNCHANGED left /\ Keep
CWtx == /\ st.ph = "wtx"
        /\ st' = DoSend(st, P, 2000, "S", st.tgt)
        /\ UNCHANGED <<left, extra>> /\ Keep
EnvFault == /\ st.ph = "sent" /\ FaultDue
            /\ st' = DoFault(st, P, sc.k, sc.m = "after" /\ (P.proto = "T4" => st.ex = 0))
            /\ left' = left - 1 /\ UNCHANGED extra /\ Keep
\* the tag code re-selects the tag (after a NAK / to make a new key effective); the tag may have left the field
CSense == /\ st.ph = "idle" /\ st.pos >= 1 /\ st.gave = 0 /\ extra = 0
          /\ \E res \in BOOLEAN : st' = DoSense(st, P, res)
          /\ extra' = 3 /\ UNCHANGED left /\ Keep
EnvBadMac == /\ st.ph = "sent" /\ ~FaultDue /\ P.proto = "T3" /\ st.gave = 0 /\ extra = 0
             /\ st' = DoAnswer(st, P, "badmac", TRUE)
             /\ extra' = 4 /\ UNCHANGED left /\ Keep
Rets == IF st.gave = 0 THEN {P.cleanRet}
        ELSE (IF P.noraise THEN {} ELSE
              {[kind |-> "tagerr", errno |-> IF st.lastGive \in {"gone", "mac"} THEN 0 ELSE ErrnoOf(st.lastGive), val |-> "-"]})
             \cup {[kind |-> "ok", errno |-> 0, val |-> v] : v \in P.doc \ {"any"}}
             \cup (IF "any" \in P.doc THEN {[kind |-> "ok", errno |-> 0, val |-> "partial"]} ELSE {})
CRet == /\ st.ph = "idle" /\ (st.gave > 0 \/ st.pos = N)
        /\ \E r \in Rets : st' = DoRet(st, P, r, st.tgt)
        /\ UNCHANGED <<left, extra>> /\ Keep
Done == st.ph = "done" /\ UNCHANGED vars

\* ---- rule breaking client (witnesses only) ---------------------------------------------------------
BResend == st.ph = "idle" /\ st.pos >= 1 /\ ~st.dirty /\ st' = DoSend(st, P, st.cur, st.cc, st.tgt)
BOver == st.ph = "faulted" /\ st' = [DoSend(st, P, st.cur, st.cc, st.tgt) EXCEPT !.att = 4]     \* a fourth attempt
BNoRetry == st.ph = "faulted" /\ st' = DoRet([st EXCEPT !.gave = 1, !.lastGive = sc.k], P, [kind |-> "tagerr", errno |-> ErrnoOf(sc.k), val |-> "-"], st.tgt)
BRaw == st.ph = "idle" /\ st.gave > 0 /\ st' = DoRet(st, P, [kind |-> "raw", errno |-> 0, val |-> "TimeoutError"], st.tgt)
BWrongErrno == st.ph = "idle" /\ st.gave > 0 /\ st.lastGive \notin {"gone", "mac"} /\ st' = DoRet(st, P, [kind |-> "tagerr", errno |-> ErrnoOf(st.lastGive) - 1, val |-> "-"], st.tgt)
BRaise == st.ph = "idle" /\ st.gave > 0 /\ P.noraise /\ st.lastGive \in Kinds
          /\ st' = DoRet(st, P, [kind |-> "tagerr", errno |-> ErrnoOf(st.lastGive), val |-> "-"], st.tgt)
BSwallow == st.ph = "idle" /\ st.gave > 0 /\ P.doc = {} /\ st' = DoRet(st, P, P.cleanRet, st.tgt)
BStale == st.ph = "idle" /\ ~st.tgt /\ st' = DoRet(st, P, [kind |-> "ok", errno |-> 0, val |-> "False"], TRUE)
BTwice == st.ph = "idle" /\ st.pos >= 1 /\ st.ex = 1 /\ st' = VIf([st EXCEPT !.ex = 2], 2 > 1 + st.fAfter, "executed-twice")
Bug == Buggy /\ (BResend \/ BOver \/ BNoRetry \/ BRaw \/ BWrongErrno \/ BSwallow \/ BTwice \/ BStale \/ BRaise) /\ UNCHANGED <<left, extra>> /\ Keep

Next == CSend \/ CRetry \/ CReack \/ CDirty \/ EnvAnswer \/ EnvFault \/ EnvWtx \/ CWtx \/ CSense \/ EnvBadMac \/ CRet \/ Done \/ Bug
Spec == Init /\ [][Next]_vars /\ WF_vars(Next)

Bounded == BoundedP(st, P)
NoResendAfterAnswer == NoResendAfterAnswerP(st)
Retries == RetriesP(st)
OnlyTagError == OnlyTagErrorP(st)
AtMostOncePerAnswer == AtMostOncePerAnswerP(st)
TargetFollowsSense == TargetFollowsSenseP(st)
NoViol == st.viol = {}
Terminates == <>(st.ph = "done")
\* a burst shorter than the budget is absorbed: the clean result is returned
Absorbed == (st.ph = "done" /\ st.tgt /\ st.lastGive # "mac" /\ sc.b < Budget(P.proto, CcOf(sc.p), P.nRetry) /\ ~(P.proto = "T4")) => st.ret = P.cleanRet
\* a burst that exhausts the budget ends with the matching TagCommandError or the documented value
GaveUpOutcome == (st.ph = "done" /\ st.gave > 0) =>
                    \/ ~P.noraise /\ st.ret.kind = "tagerr" /\ (IF st.lastGive \in {"gone", "mac"} THEN st.ret.errno = 0 ELSE st.ret.errno = ErrnoOf(sc.k))
                    \/ st.ret.kind = "ok" /\ (st.ret.val \in P.doc \/ "any" \in P.doc)

\* witnesses (must be violated)
W_GiveUp == ~(st.ph = "done" /\ st.gave > 0 /\ st.ret.kind = "tagerr")
W_Doc == ~(st.ph = "done" /\ st.gave > 0 /\ st.ret.kind = "ok")
W_AbsorbAfter == ~(st.ph = "done" /\ st.gave = 0 /\ st.fAfter >= 2)
W_Rack == ~(st.ph = "reack")
W_WtxFault == ~(P.proto = "T4" /\ extra = 2 /\ st.ph = "faulted")
W_BadMac == ~(st.ph = "done" /\ st.lastGive = "mac")
W_Gone == ~(st.ph = "done" /\ ~st.tgt /\ st.ret.kind = "ok")
W_Passive == ~(P.proto = "T2" /\ st.cc = "ssel2" /\ st.ph = "idle" /\ st.gave = 0 /\ sc.p = 2 /\ sc.k = "timeout" /\ left < sc.b)
=============================================================================
