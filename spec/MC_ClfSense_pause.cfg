SPECIFICATION Spec
CONSTANTS
  Intervals = {0, 1000, 20000, 100000, 500000}
  Cycles = {0, 31250, 62500, 125000}
  MaxLen = 1
  MaxIter = 5
  MaxOps = 2
INVARIANT Pauses
INVARIANT ArgCheck
INVARIANT Raises
INVARIANT MuteWhenNone
INVARIANT TargetFresh
CHECK_DEADLOCK FALSE
