------------------------------ MODULE ClfSense ------------------------------
(* C18 (second half) - sense(), listen() and exchange() of ContactlessFrontend (src/nfc/clf/__init__.py:833-875,
   1001-1059).  A behaviour is a short session of calls on one frontend:
     Sense(kinds, iters)   the i-th target of the argument list is, for the device and the field,
                           "found" | "absent" | "commerr" (the driver reports a CommunicationError)
                           | "unsupported" (driver raises UnsupportedTargetError / unknown technology)
                           | "invalid" (sel_req / atr_req of a wrong length)
                           | "ioerror" (the driver raises IOError: host link failure)
                           | "badtype" (the argument is not a RemoteTarget at all: a LocalTarget, a brty string,
                           None).  sense() validates ALL arguments before it touches anything: ValueError, no
                           driver call (neither mute nor a sense method), field and captured target unchanged
     Listen(kind)          listen(): "found" / "none" (a reader discovers us or not), "unsupported" (the driver
                           raises UnsupportedTargetError, e.g. a Type B local target), "invalid" (unknown brty:
                           ValueError), "ioerror" (the driver raises IOError)
     Exchange              exchange() with whatever target the frontend holds
   One action per call (the calls are atomic under the frontend lock); `last` records the outcome the code
   produces, the invariants state the documented contract about that outcome.

   Reading of the docstring: an invalid attribute raises ValueError for any number of targets (caller error,
   like the ValueError for a non-RemoteTarget argument that the test-suite asserts with two targets);
   UnsupportedTargetError is raised only for a single target; MuteWhenNone is about normal returns. *)
EXTENDS Naturals, Sequences, FiniteSets, TLC

CONSTANTS Intervals,   \* `interval` option values, in microseconds
          Cycles,      \* how long one round over the target list takes, in microseconds
          MaxLen,      \* longest target list
          MaxIter,     \* iterations 1..MaxIter
          MaxOps       \* calls per session

Kinds == {"found", "absent", "unsupported", "invalid", "commerr", "ioerror", "badtype"}
ListenKinds == {"found", "none", "unsupported", "invalid", "ioerror"}
Lists == UNION {[1..n -> Kinds] : n \in 0..MaxLen}

VARIABLES target,      \* clf.target: "none" | "remote" | "local"
          field,       \* the device generates a carrier
          last,        \* outcome of the last call
          nops
vars == <<target, field, last, nops>>

\* had / hadf: captured target and field before the call; drv: the call reached the driver
NoOp == [op |-> "", kinds |-> <<>>, iters |-> 0, res |-> "", idx |-> 0, sent |-> "", had |-> "none",
         interval |-> 0, cycle |-> 0, pauses |-> <<>>, hadf |-> FALSE, drv |-> FALSE]
\* documented size limits of target attributes: an active-mode target's atr_req has 16..64 bytes, a Type A
\* target's sel_req (the UID to select) 4, 7 or 10 bytes; anything else makes the target "invalid"
AtrReqOk(n) == n >= 16 /\ n <= 64
SelReqOk(n) == n \in {4, 7, 10}
BadArgs(ks) == \E i \in DOMAIN ks : ks[i] = "badtype"
Max0(x, y) == IF x > y THEN x - y ELSE 0           \* max(0, x - y) on naturals

Init == target = "none" /\ field = FALSE /\ last = NoOp /\ nops = 0

\* positions at which one scan of the list stops: a target is found, or an exception leaves sense()
Stops(ks) == {j \in DOMAIN ks : \/ ks[j] \in {"found", "invalid", "ioerror"}
                                \/ ks[j] = "unsupported" /\ Len(ks) = 1}
FirstStop(ks) == CHOOSE j \in Stops(ks) : \A i \in Stops(ks) : j <= i
\* did any target before position j make the device switch the field on?
SensedBefore(ks, j) == \E i \in 1..(j - 1) : ks[i] \in {"absent", "commerr"}

SenseRes(ks) ==
    IF BadArgs(ks) THEN [res |-> "ValueError", idx |-> 0]      \* rejected up front, whatever else is in the list
    ELSE IF Stops(ks) = {} THEN [res |-> "none", idx |-> 0]
    ELSE LET j == FirstStop(ks) IN
         CASE ks[j] = "found" -> [res |-> "found", idx |-> j]
           [] ks[j] = "invalid" -> [res |-> "ValueError", idx |-> 0]
           [] ks[j] = "ioerror" -> [res |-> "IOError", idx |-> 0]
           [] ks[j] = "unsupported" -> [res |-> "UnsupportedTargetError", idx |-> 0]

\* iv: the `interval` option, cy: the time one round over the list takes.  Between two rounds sense() sleeps
\* max(0, interval - elapsed); a round that finds a target or raises ends the call, so pauses only occur when
\* nothing is found (every round is the same: the field does not change during a call)
Sense(ks, it, iv, cy) ==
    /\ nops < MaxOps
    /\ LET r == SenseRes(ks) IN
       /\ last' = [op |-> "sense", kinds |-> ks, iters |-> it, res |-> r.res, idx |-> r.idx, sent |-> "", had |-> target,
                   interval |-> iv, cycle |-> cy,
                   pauses |-> IF r.res = "none" THEN [i \in 1..(it - 1) |-> Max0(iv, cy)] ELSE <<>>,
                   hadf |-> field, drv |-> ~BadArgs(ks)]
       /\ target' = IF BadArgs(ks) THEN target                       \* a rejected call has no effect at all
                    ELSE IF r.res = "found" THEN "remote" ELSE "none" \* forgotten first, set only when found
       /\ field' = CASE BadArgs(ks) -> field
                     [] r.res = "found" -> TRUE
                     [] r.res = "none" -> FALSE                       \* muted after every round
                     [] OTHER -> SensedBefore(ks, FirstStop(ks))      \* an exception leaves it as it was
    /\ nops' = nops + 1

ListenRes(k) == CASE k = "found" -> "found" [] k = "none" -> "none" [] k = "unsupported" -> "UnsupportedTargetError"
                  [] k = "invalid" -> "ValueError" [] k = "ioerror" -> "IOError"
\* listen() forgets the captured target and mutes the field BEFORE it dispatches on the local target, so the
\* frontend holds no target however the call ends, unless a reader activated us
Listen(k) ==
    /\ nops < MaxOps
    /\ last' = [op |-> "listen", kinds |-> <<k>>, iters |-> 0, res |-> ListenRes(k), idx |-> 0,
                sent |-> "", had |-> target, interval |-> 0, cycle |-> 0, pauses |-> <<>>, hadf |-> field, drv |-> TRUE]
    /\ target' = IF k = "found" THEN "local" ELSE "none"
    /\ field' = FALSE
    /\ nops' = nops + 1

SentFor(t) == CASE t = "remote" -> "cmd" [] t = "local" -> "rsp" [] OTHER -> "nothing"
Exchange ==
    /\ nops < MaxOps
    /\ last' = [op |-> "exchange", kinds |-> <<>>, iters |-> 0, res |-> IF target = "none" THEN "none" ELSE "data",
                idx |-> 0, sent |-> SentFor(target), had |-> target, interval |-> 0, cycle |-> 0, pauses |-> <<>>,
                hadf |-> field, drv |-> target # "none"]
    /\ UNCHANGED <<target, field>>
    /\ nops' = nops + 1

Next == \/ \E ks \in Lists, it \in 1..MaxIter, iv \in Intervals, cy \in Cycles : Sense(ks, it, iv, cy)
        \/ \E k \in ListenKinds : Listen(k)
        \/ Exchange
Spec == Init /\ [][Next]_vars

-----------------------------------------------------------------------------
\* The contract (parametric in the outcome record and the post-state)
IsSense(x) == x.op = "sense"
\* the first target found, in the order given
FirstFoundP(x) ==
    IsSense(x) =>
      /\ x.res = "found" => /\ x.idx \in DOMAIN x.kinds /\ x.kinds[x.idx] = "found"
                            /\ \A i \in 1..(x.idx - 1) : x.kinds[i] # "found"
                            /\ ~BadArgs(x.kinds)              \* never a result from a call with a bad argument
      /\ x.res = "none" => \A i \in DOMAIN x.kinds : x.kinds[i] # "found"
\* unsupported targets never make sense() raise when several targets are given; they are skipped
UnsupportedIgnoredP(x) ==
    IsSense(x) =>
      /\ (x.res = "UnsupportedTargetError") = (Len(x.kinds) = 1 /\ x.kinds[1] = "unsupported")
      /\ (Len(x.kinds) > 1 /\ (\E i \in DOMAIN x.kinds : x.kinds[i] = "found")
            /\ (\A i \in DOMAIN x.kinds : x.kinds[i] \notin {"invalid", "ioerror", "badtype"})) => x.res = "found"
\* exceptions only as documented
RaisesP(x) ==
    IsSense(x) =>
      /\ x.res \in {"found", "none", "UnsupportedTargetError", "ValueError", "IOError"}
      /\ x.res = "ValueError" => \E i \in DOMAIN x.kinds : x.kinds[i] \in {"invalid", "badtype"}
      /\ x.res = "IOError" => \E i \in DOMAIN x.kinds : x.kinds[i] = "ioerror"
\* every pause between two rounds is >= 0 (time.sleep() rejects a negative value) and rounds are spaced by
\* max(interval, time of a round); `iterations` rounds are made when nothing is found
PausesP(x) ==
    IsSense(x) =>
      /\ \A i \in DOMAIN x.pauses : x.pauses[i] >= 0 /\ x.pauses[i] + x.cycle = (IF x.interval > x.cycle THEN x.interval ELSE x.cycle)
      /\ Len(x.pauses) = (IF x.res = "none" /\ x.iters >= 1 THEN x.iters - 1 ELSE 0)
\* arguments are validated before anything else: a non-RemoteTarget anywhere in the list => ValueError, no driver
\* call at all, field and captured target as before; every accepted call starts by muting the field
ArgCheckP(x, t, f) ==
    IsSense(x) => IF BadArgs(x.kinds) THEN x.res = "ValueError" /\ ~x.drv /\ t = x.had /\ f = x.hadf
                  ELSE x.drv
\* nothing found: the field is off when sense() returns None
MuteWhenNoneP(x, f) == (IsSense(x) /\ x.res = "none") => ~f
\* clf.target is exactly what the LAST sense / listen found, never a target of an earlier call - in particular
\* it is None after a sense / listen that found nothing, whether it returned None or ended in an exception
TargetFreshP(x, t) ==
    /\ IsSense(x) => t = IF BadArgs(x.kinds) THEN x.had ELSE IF x.res = "found" THEN "remote" ELSE "none"
    /\ x.op = "listen" => t = IF x.res = "found" THEN "local" ELSE "none"
\* exchange() sends nothing without a target, a command to a remote and a response as a local target
ExchangeP(x, t) ==
    x.op = "exchange" => /\ x.sent = SentFor(t)
                         /\ (t = "none") = (x.res = "none")

FirstFound == FirstFoundP(last)
UnsupportedIgnored == UnsupportedIgnoredP(last)
Raises == RaisesP(last)
MuteWhenNone == MuteWhenNoneP(last, field)
ArgCheck == ArgCheckP(last, target, field)
Pauses == PausesP(last)
TargetFresh == TargetFreshP(last, target)
ExchangeOk == ExchangeP(last, target)

-----------------------------------------------------------------------------
W_Second == ~(IsSense(last) /\ last.res = "found" /\ last.idx = 2 /\ last.kinds[1] = "unsupported")
W_RaiseUnsupported == ~(IsSense(last) /\ last.res = "UnsupportedTargetError")
W_IgnoredUnsupported == ~(IsSense(last) /\ last.res = "none" /\ Len(last.kinds) = 2 /\ last.kinds[1] = "unsupported")
W_StaleDropped == ~(last.op = "exchange" /\ last.sent = "nothing" /\ nops = 3)
W_ValueError == ~(IsSense(last) /\ last.res = "ValueError" /\ Len(last.kinds) > 1)
W_NoneMuted == ~(IsSense(last) /\ last.res = "none" /\ last.had = "remote")
W_Paused == ~(IsSense(last) /\ Len(last.pauses) = 2 /\ last.pauses[1] > 0)
W_NoPauseLongCycle == ~(IsSense(last) /\ Len(last.pauses) = 2 /\ last.pauses[1] = 0 /\ last.interval > 0)
W_BadArgAfterValid == ~(IsSense(last) /\ Len(last.kinds) = 2 /\ last.kinds[1] = "found" /\ last.kinds[2] = "badtype"
                        /\ last.had = "remote")
W_ExchangeNothing == ~(last.op = "exchange" /\ last.had = "none")
W_ListenRaisedAfterCapture == ~(last.op = "listen" /\ last.res = "UnsupportedTargetError" /\ last.had = "remote")
W_SenseRaisedAfterCapture == ~(IsSense(last) /\ last.res \in {"ValueError", "IOError", "UnsupportedTargetError"} /\ last.had = "local")
=============================================================================
