--------------------------- MODULE Trace_T3Tag ---------------------------
(* Trace validation for T3Tag.  One trace = one real nfcpy Type3Tag write / format against a
   simulated tag (sim/simt3t.py) or against nfcpy's own Type3TagEmulation (loop-back), optionally
   interrupted by a power cut, followed by the view of a FRESH reader object:

     Disc(ridm, sys)                tag.ndef of the reader that is going to write: the system whose IDm it
                                    uses from now on (upper nibble of tag.idm[0]) and tag.sys
     Begin(m) | FBegin(ver, wipe)   the call (tag.ndef.octets = m / tag.format(ver, wipe))
     W(sc, bl, data, ok)            every Write Without Encryption command that reached the tag
     Drop(sysn, sc, bl, data)       one transmission of a write command did not reach the tag (transient outage)
     Cut                            the tag stopped answering
     Ret(res, cap)                  how the call ended, the capacity nfcpy reported before it
     View(k, v, cap, wr, reads, attr, blocks, oth)  fresh reader's result (octets, capacity,
                                    is_writeable), its read commands, full tag image

   The attribute block travels as its 16 raw bytes (init.attr, W data, View.attr) and is parsed HERE
   (ParseAttr) with the field layout of the Type 3 Tag operation specification, so every field of
   it -- in particular the 24 bit Ln and the 16 bit Nmaxb at their extremes -- is judged by TLC.
   Data blocks: init.blocks is the explicit block list, or empty with init.gen >= 0 for a tag whose
   blocks are generated (T3Tag!GenBlk); View.blocks lists <<number, content>> of the explicit ones.

   The tag state is rebuilt by TLC from the W events (TagApply), every command must be the one the
   modelled procedure issues (conform), all T3Tag invariants are evaluated after every step, the
   fresh reader's view must equal RefRead(state) and the logged image must equal the state.
*)
EXTENDS T3Tag, Json, IOUtils, TLCExt

VARIABLES tid, l
tvars == <<tag, ridm, tag0, phys, pc, op, msg, ra, i, ncmd, nd, last, tid, l>>

Traces == ndJsonDeserialize(IOEnv.TRACE_FILE)
T == Traces[tid].ev
I0 == Traces[tid].init

Sum(s) == FoldLeft(LAMBDA a, b : a + b, 0, s)
ParseAttr(d) == [ver |-> d[1], nbr |-> d[2], nbw |-> d[3], nmaxb |-> d[4] * 256 + d[5],
                 rfu |-> SubSeq(d, 6, 9), writef |-> d[10], rwflag |-> d[11],
                 ln |-> d[12] * 65536 + d[13] * 256 + d[14],
                 ckok |-> (Sum(SubSeq(d, 1, 14)) = d[15] * 256 + d[16])]

TInit ==
    /\ tid \in 1..Len(Traces)
    /\ l = 1
    /\ tag = [attr |-> ParseAttr(I0.attr), mem |-> [nb |-> I0.nb, gen |-> I0.gen, w |-> I0.blocks], oth |-> I0.oth,
              card |-> [n |-> I0.card.n, pos |-> I0.card.pos]]
    /\ ridm = I0.ract
    /\ tag0 = tag
    /\ phys = [nbr |-> I0.phys.nbr, nbw |-> I0.phys.nbw]
    /\ pc = "fresh" /\ op = "none" /\ msg = <<>> /\ ra = 0 /\ i = 0 /\ ncmd = 0 /\ nd = 0 /\ last = NoCmd

Ev == T[l]
IsEv(a) == l <= Len(T) /\ Ev.a = a /\ l' = l + 1 /\ UNCHANGED tid

EvCmd == [sysn |-> Ev.sysn, sc |-> Ev.sc, bl |-> Ev.bl,
          dat |-> [k \in 1..Len(Ev.bl) |->
                     LET d == SubSeq(Ev.data, (k - 1) * BS + 1, k * BS)
                     IN IF Ev.sc[k] = NDEFRW /\ Ev.bl[k] = 0 THEN ParseAttr(d) ELSE d]]
ExpCmd == IF pc \in {"w_on", "w_data"} THEN WriteCmd
          ELSE IF pc \in {"f_probe", "f_attr", "f_wipe"} THEN FormatCmd ELSE NoCmd

Terminal == {"done", "cut", "failed", "rejected", "refused", "error", "fdone", "ffalse"}
ExpRes == CASE pc = "done" -> "ok"
            [] pc = "rejected" -> "rejected"
            [] pc = "refused" -> "refused"
            [] pc \in {"cut", "error", "failed"} -> "tagerr"
            [] pc = "fdone" -> "true"
            [] pc = "ffalse" -> "false"
            [] OTHER -> "?"

GDisc   == IsEv("Disc") /\ Discover
GBegin  == IsEv("Begin") /\ Begin(Ev.m)
GFBegin == IsEv("FBegin") /\ FBegin(Ev.ver, Ev.wipe)
\* a command that reaches the tag although the modelled writer has given up: it is applied (the invariants
\* judge the result) and never conforms
Stray(c) ==
    /\ pc = "failed"
    /\ ncmd' = ncmd + 1 /\ last' = c
    /\ tag' = IF TagOk(tag, phys, c) THEN TagApply(tag, c) ELSE tag
    /\ UNCHANGED <<ridm, tag0, phys, pc, op, msg, ra, i, nd>>
GW      == IsEv("W") /\ (WriteStep(EvCmd) \/ FormatStep(EvCmd) \/ Stray(EvCmd))
GDrop   == IsEv("Drop") /\ Drop
GCut    == IsEv("Cut") /\ PowerCut
GRet    == IsEv("Ret") /\ pc \in Terminal /\ UNCHANGED vars
GView   == IsEv("View") /\ pc \in Terminal \cup {"idle", "fresh"} /\ UNCHANGED vars
Guarded == GDrop \/ GDisc \/ GBegin \/ GFBegin \/ GW \/ GCut \/ GRet \/ GView

\* the real command is the one the modelled procedure issues, and the tag accepted it iff TagOk
Conform ==
    CASE Ev.a = "Disc" -> Ev.ridm = tag.card.pos /\ Ev.sys = 4860          \* 12FCh
      [] Ev.a = "Drop" -> EvCmd.sysn = ExpCmd.sysn /\ EvCmd.sc = ExpCmd.sc /\ EvCmd.bl = ExpCmd.bl /\ EvCmd.dat = ExpCmd.dat
      [] Ev.a = "W" -> /\ EvCmd.sysn = ExpCmd.sysn /\ EvCmd.sc = ExpCmd.sc /\ EvCmd.bl = ExpCmd.bl /\ EvCmd.dat = ExpCmd.dat
                       /\ Ev.ok = TagOk(tag, phys, EvCmd)
      [] Ev.a = "Ret" -> Ev.res = ExpRes /\ (op = "write" => Ev.cap = RepCap(tag0))
      [] Ev.a = "View" -> /\ Ev.reads = CodeReadPlan(tag)
                          /\ \A k \in 1..Len(Ev.rsys) : Ev.rsys[k] = tag.card.pos      \* every read went to the NDEF system
                          /\ Ev.k \in {"ndef", "notreadable"} => Ev.cap = RepCap(tag) /\ Ev.wr = Writeable(tag)
      [] OTHER -> TRUE
\* the logged tag image is the state TLC rebuilt
PostOk ==
    CASE Ev.a = "View" -> /\ ParseAttr(Ev.attr) = tag.attr /\ Ev.oth = tag.oth
                          /\ {<<p[1], p[2]>> : p \in ToSet(Ev.blocks)} = {<<b, tag.mem.w[b]>> : b \in DOMAIN tag.mem.w}
      [] OTHER -> TRUE
\* the fresh reader sees what the reference reader sees
ViewOk ==
    CASE Ev.a = "View" -> [k |-> Ev.k, v |-> Ev.v] = RefRead(tag)
      [] OTHER -> TRUE

InvNames == <<"RoundTrip", "WriteOk", "CapSound", "RejectEarly", "CodeReadOk", "Atomic", "Confined">>
InvP(n) == CASE n = "RoundTrip" -> RoundTrip'
             [] n = "WriteOk" -> WriteOk'
             [] n = "CapSound" -> CapSound'
             [] n = "RejectEarly" -> RejectEarly'
             [] n = "CodeReadOk" -> CodeReadOk'
             [] n = "Atomic" -> Atomic'
             [] n = "Confined" -> Confined'
AllInv == \A k \in DOMAIN InvNames : InvP(InvNames[k])

Real == Guarded /\ Conform /\ PostOk /\ ViewOk /\ AllInv

FailedInv == SelectSeq(InvNames, LAMBDA n : ~ENABLED (Guarded /\ InvP(n)))
Brief(c) == [sysn |-> c.sysn, sc |-> c.sc, bl |-> c.bl]
Why == IF ~ENABLED Guarded THEN <<"guard", pc>>
       ELSE IF FailedInv # <<>> THEN <<"inv", FailedInv, pc>>
       ELSE IF ~ViewOk THEN <<"view", RefRead(tag).k, Len(RefRead(tag).v), pc>>
       ELSE IF ~Conform THEN
            <<"conform", pc,
              IF Ev.a = "W" THEN <<Brief(ExpCmd), TagOk(tag, phys, EvCmd)>>
              ELSE IF Ev.a = "Disc" THEN <<tag.card.pos>>
              ELSE IF Ev.a = "Ret" THEN <<ExpRes, RepCap(tag0)>>
              ELSE IF Ev.a = "View" THEN <<RepCap(tag), Writeable(tag), Len(CodeReadPlan(tag))>> ELSE <<>> >>
       ELSE <<"post", pc>>

Stuck ==
    /\ l <= Len(T)
    /\ ~ENABLED Real
    /\ PrintT(<<"STUCK", Traces[tid].id, l, Ev.a, Why>>)
    /\ l' = Len(T) + 2
    /\ UNCHANGED <<vars, tid>>

TNext == Real \/ Stuck
TSpec == TInit /\ [][TNext]_tvars

Done == (l = Len(T) + 1) => PrintT(<<"ACCEPT", Traces[tid].id>>)
=============================================================================
