------------------------------ MODULE ClfLock ------------------------------
(* C15 - the frontend never lets two threads drive the device at once.

   Model of nfc.clf.ContactlessFrontend's locking discipline.  `Thread` application threads use ONE
   frontend.  Every public operation is a set of *segments*; a segment is either a `with self.lock:`
   region (locked = TRUE) with the driver calls made inside it, or one driver call made outside any
   lock region (locked = FALSE).  `guarded` says that the region tests `self.device is None` under the
   lock before it calls the driver (raise IOError(ENODEV) / skip).  The segment table (Ops, OpSegs,
   SiteM) is NOT written by hand: bind/c15_extract.py derives it from the syntax tree of the current
   src/nfc/clf/__init__.py on every run and generates the root module (MC_ClfLock / TR_ClfLock in
   a scratch directory under out/C15) that substitutes it for the constants below.  A thread inside an operation may
   run the operation's segments in any order and any number of times (loops, branches, callbacks that
   call back into sense/exchange are all covered by that), one driver call = Enter ; Exit.

   One action per critical-section boundary and per driver-call boundary:
     Begin/End      an application thread enters / leaves a public operation
     Acquire/Release `with self.lock:` entry / exit  (threading.Lock: not re-entrant)
     Check          `if self.device is None` under the lock
     Enter/Exit     call into / return from a driver method (self.device.<m>() or device.connect())
   device: state of the DRIVER object: "open" while it is usable, "closed" from the moment its close() was
   entered (whether close() then returns or raises IOError) until device.connect() returned a new one.
   ref: the frontend's view, self.device is not None.  The `self.device is None` tests read ref, the
   invariant NotAfterClose judges device.  A driver close() may FAIL (raise the IOError that
   ContactlessFrontend.close() swallows); whether `self.device = None` is still executed then is a fact
   of the code, extracted per close() call site as CloseClears[site] \in {"always", "onsuccess", "never"}.
   The assignment (`self.device = None` after close, `self.device = <driver>` after device.connect) becomes
   visible at the thread's next Release / End (pc[t].pend).

   Waived: call sites excluded from the invariants.  The check starts with Waived = {} and moves a
   site into Waived only to keep exploring after it has reported that site as a violation, so one
   defective call site does not hide another.  *)
EXTENDS Naturals, Sequences, FiniteSets, TLC

CONSTANTS Thread,      \* application threads
          Ops,         \* names of public operations
          OpSegs,      \* [Ops -> Seq([locked: BOOLEAN, guarded: BOOLEAN, calls: SUBSET Site])]
          SiteM,       \* [Site -> driver method name]
          CloseClears, \* [Site -> "always" | "onsuccess" | "never" | "-"]: is self.device = None executed after
                       \* the driver's close() at this site returned / also when it raised IOError
          Waived       \* SUBSET Site

Site == DOMAIN SiteM
Free == "free"

VARIABLES lock,        \* Free or the thread that owns clf.lock
          inDriver,    \* threads currently inside a driver method
          device,      \* driver object: "open" / "closed"
          ref,         \* self.device is not None
          closer,      \* call site of the close() that closed the device last ("" if none yet)
          pc           \* per thread: [op, seg, chk, site, late, hit]
vars == <<lock, inDriver, device, ref, closer, pc>>

\* late: the call was entered while the device was closed; hit: a close() call site that closed the
\* device while this thread was inside the driver (both only serve to name the culprit of NotAfterClose)
\* pend: assignment to self.device that follows the driver call just made: "clear" (= None), "set" (a new
\* driver), "kept" (close() was called but the reference is kept), "" (no close / connect in this region)
Idle == [op |-> "", seg |-> 0, chk |-> FALSE, site |-> "", late |-> FALSE, hit |-> "", pend |-> ""]
Segs(t) == OpSegs[pc[t].op]
Seg(t) == Segs(t)[pc[t].seg]

TypeOK ==
    /\ lock \in {Free} \cup Thread
    /\ inDriver \subseteq Thread
    /\ device \in {"open", "closed"}
    /\ ref \in BOOLEAN
    /\ closer \in Site \cup {""}
    /\ \A t \in Thread : /\ pc[t].op \in Ops \cup {""}
                         /\ pc[t].site \in Site \cup {""}
                         /\ (pc[t].op # "" => pc[t].seg \in 0..Len(OpSegs[pc[t].op]))

Init ==
    /\ lock = Free
    /\ inDriver = {}
    /\ device \in {"open", "closed"}
    /\ ref = (device = "open")
    /\ closer = ""
    /\ pc = [t \in Thread |-> Idle]

Set(t, f, v) == [pc EXCEPT ![t][f] = v]

Begin(t, o) ==
    /\ pc[t] = Idle
    /\ pc' = [pc EXCEPT ![t] = [Idle EXCEPT !.op = o]]
    /\ UNCHANGED <<lock, inDriver, device, ref, closer>>

\* the pending assignment to self.device has happened by the time the thread leaves the region / operation
RefAfter(t) == CASE pc[t].pend = "clear" -> FALSE [] pc[t].pend = "set" -> TRUE [] OTHER -> ref

End(t) ==
    /\ pc[t].op # "" /\ pc[t].seg = 0 /\ pc[t].site = ""
    /\ pc' = [pc EXCEPT ![t] = Idle]
    /\ ref' = RefAfter(t)
    /\ UNCHANGED <<lock, inDriver, device, closer>>

\* `with self.lock:` of lock region k of the current operation
Acquire(t, k) ==
    /\ pc[t].op # "" /\ pc[t].seg = 0 /\ pc[t].site = ""
    /\ k \in DOMAIN Segs(t) /\ Segs(t)[k].locked
    /\ lock = Free
    /\ lock' = t
    /\ pc' = [pc EXCEPT ![t].seg = k, ![t].chk = FALSE]
    /\ UNCHANGED <<inDriver, device, ref, closer>>

\* `if self.device is None: raise ...` / `if self.device is not None:` evaluated under the lock
Check(t) ==
    /\ pc[t].seg # 0 /\ Seg(t).locked /\ Seg(t).guarded /\ ~pc[t].chk /\ pc[t].site = ""
    /\ ref
    /\ pc' = Set(t, "chk", TRUE)
    /\ UNCHANGED <<lock, inDriver, device, ref, closer>>

\* (after close() / device.connect() a region makes no further driver call: pend = "")
CanCall(t, s) ==
    /\ pc[t].op # "" /\ pc[t].site = "" /\ pc[t].pend = ""
    /\ IF pc[t].seg # 0
       THEN /\ s \in Seg(t).calls
            /\ Seg(t).guarded => pc[t].chk
       ELSE \E k \in DOMAIN Segs(t) : ~Segs(t)[k].locked /\ s \in Segs(t)[k].calls

\* pc after thread t entered the driver at call site s.  Blame for running on a closed device: a call from a
\* lock region that tested the device under the lock was overtaken by a close() -> the close site (hit);
\* any other call that starts on a closed device -> the caller's own site (late).
Checked(t) == pc[t].seg # 0 /\ Seg(t).locked /\ Seg(t).guarded
\* (a second close() reaching a driver that is already closed counts as well)
OnClosed(s) == device = "closed" /\ SiteM[s] # "connect"
EnterPc(t, s) ==
    [u \in Thread |->
        IF u = t THEN [pc[t] EXCEPT !.site = s, !.chk = (pc[t].seg # 0),
                                    !.late = (OnClosed(s) /\ ~Checked(t)),
                                    !.hit = IF OnClosed(s) /\ Checked(t) THEN closer ELSE ""]
        ELSE IF SiteM[s] = "close" /\ pc[u].site # "" /\ pc[u].hit = "" THEN [pc[u] EXCEPT !.hit = s]
        ELSE pc[u]]

Enter(t, s) ==
    /\ CanCall(t, s)
    /\ inDriver' = inDriver \cup {t}
    /\ pc' = EnterPc(t, s)
    /\ device' = IF SiteM[s] = "close" THEN "closed" ELSE device
    /\ closer' = IF SiteM[s] = "close" /\ device = "open" THEN s ELSE closer
    /\ UNCHANGED <<lock, ref>>

\* return from the driver; ok = FALSE: the driver method raised (close: the IOError that close() swallows;
\* device.connect: no reader found)
ExitF(t, ok) ==
    /\ pc[t].site # ""
    /\ inDriver' = inDriver \ {t}
    /\ LET s == pc[t].site
           m == SiteM[s]
           pend == CASE m = "connect" -> IF ok THEN "set" ELSE "clear"
                     [] m = "close" -> IF CloseClears[s] = "always" \/ (ok /\ CloseClears[s] = "onsuccess")
                                       THEN "clear" ELSE "kept"
                     [] OTHER -> pc[t].pend
       IN /\ pc' = [pc EXCEPT ![t].site = "", ![t].late = FALSE, ![t].hit = "", ![t].pend = pend]
          /\ device' = IF m = "connect" /\ ok THEN "open" ELSE device
    /\ UNCHANGED <<lock, ref, closer>>
Exit(t) == \E ok \in BOOLEAN : ExitF(t, ok)

\* leaving the `with` block (normally, by return, or by the ENODEV exception)
Release(t) ==
    /\ pc[t].seg # 0 /\ pc[t].site = ""
    /\ lock' = IF lock = t THEN Free ELSE lock
    /\ pc' = [pc EXCEPT ![t].seg = 0, ![t].chk = FALSE, ![t].pend = ""]
    /\ ref' = RefAfter(t)
    /\ UNCHANGED <<inDriver, device, closer>>

Next == \E t \in Thread :
           \/ \E o \in Ops : Begin(t, o)
           \/ End(t)
           \/ (pc[t].op # "" /\ \E k \in DOMAIN OpSegs[pc[t].op] : Acquire(t, k))
           \/ Check(t)
           \/ \E s \in Site : Enter(t, s)
           \/ Exit(t)
           \/ Release(t)

Spec == Init /\ [][Next]_vars

-----------------------------------------------------------------------------
\* Invariants in parametric form (evaluated on primed state in trace mode)
Judged(d, p) == {t \in d : p[t].site \notin Waived}

MutexP(d, p) == Cardinality(Judged(d, p)) <= 1
HolderOnlyP(d, p, lk) == \A t \in Judged(d, p) : lk = t
\* no driver call runs on a closed device: neither entered after the close (blame: the caller's site) nor
\* overtaken by a close() of another thread (blame: the close site)
NotAfterCloseP(d, p, dev) ==
    \A t \in Judged(d, p) : ~p[t].late /\ (p[t].hit # "" => p[t].hit \in Waived)
\* bookkeeping sanity: a thread is in the driver exactly when its pc says so; the lock owner is in a region
ConsistentP(d, p, lk) ==
    /\ d = {t \in Thread : p[t].site # ""}
    /\ (lk # Free => p[lk].seg # 0)

Mutex == MutexP(inDriver, pc)
HolderOnly == HolderOnlyP(inDriver, pc, lock)
NotAfterClose == NotAfterCloseP(inDriver, pc, device)
Consistent == ConsistentP(inDriver, pc, lock)

-----------------------------------------------------------------------------
\* Reachability witnesses (TLC must violate each one; otherwise the run is vacuous)
W_InDriverLocked == ~(\E t \in Thread : t \in inDriver /\ lock = t)
W_Waiting == ~(\E t, u \in Thread : t # u /\ lock = t /\ t \in inDriver /\ pc[u].op # "" /\ pc[u].seg = 0)
W_Enodev == ~(\E t \in Thread : pc[t].seg # 0 /\ Seg(t).guarded /\ ~pc[t].chk /\ ~ref)
W_CloseFailed == ~(device = "closed" /\ ~ref /\ closer # "" /\ \E t \in Thread : pc[t].op = "close" /\ pc[t].seg = 0)
W_Closed == ~(\E t \in Thread : t \in inDriver /\ SiteM[pc[t].site] = "close")
W_Reopen == ~(\E t \in Thread : t \in inDriver /\ SiteM[pc[t].site] = "connect" /\ device = "closed")
W_TwoOps == ~(\E t, u \in Thread : t # u /\ pc[t].op = "connect" /\ pc[u].op = "close" /\ lock = u)
=============================================================================
