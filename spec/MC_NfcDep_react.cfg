SPECIFICATION Spec
CONSTANTS
  Cfgs <- MC_CfgsNoDid
  Lens <- MC_Lens
  Ds <- MC_Ds
  MaxEx = 3
  MaxFaults = 2
  MaxStepFaults = 2
  Vs <- MC_VsHead
  WithRelease = TRUE
  WithTrunc = FALSE
  MaxSess = 2
INVARIANT ExactlyOnce
INVARIANT Intact
INVARIANT OnlyCommErr
INVARIANT FrameFits
INVARIANT OneFaultOk
INVARIANT TargetOk
INVARIANT PniInSync
INVARIANT FirstPni
VIEW View
CHECK_DEADLOCK FALSE
