SPECIFICATION TSpec
CONSTANTS
  Threads <- TraceThreads
  Names <- TraceNames
  PeerSnl <- TracePeer
  NameLen <- TraceLen
  SendMiu = 128
  PopHead = FALSE
  MaxCalls = 100
  WakeCheck = TRUE
  Tids <- TraceTids
  GiveBack = TRUE
CONSTRAINT Done
CHECK_DEADLOCK FALSE
