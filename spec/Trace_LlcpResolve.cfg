SPECIFICATION TSpec
CONSTANTS
  Threads <- TraceThreads
  Names <- TraceNames
  PeerSnl <- TracePeer
  MaxCalls = 100
  WakeCheck = TRUE
CONSTRAINT Done
CHECK_DEADLOCK FALSE
