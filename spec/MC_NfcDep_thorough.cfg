SPECIFICATION Spec
CONSTANTS
  Cfgs <- MC_CfgsThorough
  Lens <- MC_LensT
  Ds <- MC_DsT
  MaxEx = 5
  MaxFaults = 3
  MaxStepFaults = 2
  Vs <- MC_VsFixed
  WithRelease = TRUE
  WithTrunc = FALSE
  MaxSess = 1
INVARIANT ExactlyOnce
INVARIANT Intact
INVARIANT OnlyCommErr
INVARIANT FrameFits
INVARIANT OneFaultOk
INVARIANT TargetOk
INVARIANT PniInSync
INVARIANT FirstPni
VIEW View
CHECK_DEADLOCK FALSE
