SPECIFICATION TSpec
CONSTRAINT Done
CHECK_DEADLOCK FALSE
