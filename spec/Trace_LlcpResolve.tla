------------------------ MODULE Trace_LlcpResolve ------------------------
(* Trace validation for LlcpResolve (C17, concurrent resolvers).  One trace = one schedule of 2-3 application
   threads in resolve() on a real LogicalLinkController running under the deterministic scheduler (sim/sched.py),
   with a real peer controller whose frames a link thread carries - separately, batched, in reverse order, or never
   (link termination).  Events are logged inside the controller lock, in the scheduler's order:

     Call(t, n)       resolve(n) entered by thread t (cache look-up / SDREQ queued happen in the same critical section)
     Collect(names)   collect() produced an SNL PDU with these SDREQ
     Deliver(ans)     an SNL PDU with these <<name, address>> answers is dispatched
     LinkEnd          the service discovery component is shut down (what terminate() does)
     Return(t, ret)   resolve() came back: address, -2 = None, -3 = KeyError, -5 = IndexError, -4 = another exception
     End              the schedule is over (last event of every trace; no spec action)

   Every event carries what the REAL ServiceDiscovery object showed when the event was logged, i.e. after the critical
   section of the event before it: `free` = len(tids), `busy` = the ids of 0..255 that are not in tids, and `q` = the
   ids of the requests in the sdreq queue, in order.  The step
   for event l is judged against the observation of event l+1 (PoolConserved): after EVERY real step the real pool is
   the spec's pool (nothing missing, nothing twice) and the ids that are out are exactly those of the requests that
   are queued or on the wire.  The id a Call draws is read from the same observation.  Deliver names the transaction
   ids of the answers.

   Wake-ups that find somebody else's answer and go back to sleep are internal: a Return is the thread's Wake (with
   the look at its own name) followed by the return.  "Deadlock" (a thread never came back) has no spec action.   *)
EXTENDS LlcpResolve, Json, IOUtils, TLCExt, SequencesExt

VARIABLES tid, l
tvars == <<th, reqs, sent, out, pool, snl, cache, up, tid, l>>

Traces == ndJsonDeserialize(IOEnv.TRACE_FILE)
T == Traces[tid].ev

TraceNames == {"n1", "n2", "n3", "n4", "wk", "L70a", "L70b", "S16", "L60a", "L60b", "L60c", "L120", "S3a", "S3b"}
TraceThreads == {"r1", "r2", "r3", "r4"}
\* name lengths in octets (bind/c17_resolve.py REAL)
TraceLen == [n \in TraceNames |-> CASE n \in {"L70a", "L70b"} -> 70 [] n = "S16" -> 16 [] n \in {"L60a", "L60b", "L60c"} -> 60
                                     [] n = "L120" -> 120 [] n \in {"S3a", "S3b"} -> 3 [] OTHER -> 15]
\* what the binding's peer binds: n1 -> 16, n2 -> 17 (first free named addresses), wk -> 4, n3 and n4 not bound
TracePeer == [n \in TraceNames |-> CASE n = "n1" -> 16 [] n = "n2" -> 17 [] n = "wk" -> 4 [] n = "L70a" -> 18 [] n = "L70b" -> 19
                                      [] n = "S16" -> 20 [] n = "L60a" -> 21 [] n = "L120" -> 22 [] OTHER -> 0]

TraceTids == 0..255
\* the long sessions (more lookups of distinct uncached names than there are transaction ids): u1 .. u320, 15 octets each
LongNames == TraceNames \cup {"u" \o ToString(i) : i \in 1..320}
LongLen == [n \in LongNames |-> IF n \in TraceNames THEN TraceLen[n] ELSE 15]
LongPeer == [n \in LongNames |-> IF n \in TraceNames THEN TracePeer[n]
                                  ELSE CASE n = "u5" -> 23 [] n = "u130" -> 24 [] n = "u257" -> 25 [] n = "u300" -> 26 [] OTHER -> 0]

TInit == tid \in 1..Len(Traces) /\ l = 1 /\ Init

Ev == T[l]
IsEv(a) == l <= Len(T) /\ Ev.a = a /\ l' = l + 1 /\ UNCHANGED tid
\* the observation of the real object after this step (every trace ends with "End", which is never a step's successor)
Nxt == T[l + 1]
ObsBusy(e) == {e.busy[i] : i \in DOMAIN e.busy}

NamesOf(A) == LET s == SetToSeq(A) IN [i \in DOMAIN s |-> s[i].n]
SameBag(x, y) == Len(x) = Len(y) /\ \A n \in Names :
                    Cardinality({i \in DOMAIN x : x[i] = n}) = Cardinality({i \in DOMAIN y : y[i] = n})

GCall    == IsEv("Call") /\ th[Ev.t].pc = "idle" /\ l < Len(T)
            /\ \E x \in Draws(State, Ev.n) : (x # NoTid => x \in ObsBusy(Nxt)) /\ Set(CallR(State, Ev.t, Ev.n, x))
GCollect == IsEv("Collect") /\ Collect /\ snl' = Ev.names
GDeliver == IsEv("Deliver") /\ \E A \in SUBSET out :
                /\ SameBag(NamesOf(A), [i \in DOMAIN Ev.ans |-> Ev.ans[i][1]])
                /\ {a.tid : a \in A} = {Ev.ans[i][3] : i \in DOMAIN Ev.ans}
                /\ \A i \in DOMAIN Ev.ans : Ev.ans[i][2] = PeerSnl[Ev.ans[i][1]]          \* the peer answers from its table
                /\ Deliver(A)
GLinkEnd == IsEv("LinkEnd") /\ LinkEnd
\* the thread's wake-up (or its cached look-up) and the return, with the value it brings
GReturn  == /\ IsEv("Return")
            /\ th[Ev.t].pc \in {"woken", "ret"}
            /\ LET s1 == IF th[Ev.t].pc = "woken" THEN WakeR(State, Ev.t, TRUE) ELSE State IN
               /\ s1.th[Ev.t].pc = "ret"
               /\ s1.th[Ev.t].ret = Ev.ret
               /\ ReturnOkP(s1.th[Ev.t], s1.up)
               /\ Set(ReturnR(s1, Ev.t))
GEnd     == IsEv("End") /\ l = Len(T) /\ UNCHANGED vars
Guarded == GCall \/ GCollect \/ GDeliver \/ GLinkEnd \/ GReturn \/ GEnd

PostState == [th |-> th', reqs |-> reqs', sent |-> sent', out |-> out', pool |-> pool', snl |-> snl', cache |-> cache', up |-> up']
\* the real pool after the step: len(tids) and the ids missing from tids are the spec's - with len(tids) = |Tids| - |busy|
\* no id is in the real list twice
ObsIs(e, p, q) == ObsBusy(e) = Tids \ p /\ e.free = Cardinality(p) /\ e.q = [i \in DOMAIN q |-> q[i].tid]
RealPoolP(p, q) == /\ l < Len(T) => ObsIs(Nxt, p, q)
                   /\ l = 1 => ObsIs(Ev, pool, reqs)             \* the fresh object: all ids free
InvNames == <<"NoLostWakeup", "RequestOut", "Recorded", "SnlFits", "PoolConserved", "NeverStarves">>
InvP(n) == CASE n = "NoLostWakeup" -> NoLostWakeupP(PostState)
             [] n = "RequestOut"   -> RequestOutP(PostState)
             [] n = "Recorded"     -> RecordedP(PostState)
             [] n = "PoolConserved" -> PoolConservedP(PostState) /\ RealPoolP(pool', reqs')
             [] n = "NeverStarves" -> NeverStarvesP(PostState)
             [] n = "SnlFits"      -> SnlFitsP([PostState EXCEPT !.snl = IF Ev.a = "Collect" THEN Ev.names ELSE @])
AllInv == \A i \in DOMAIN InvNames : InvP(InvNames[i])
Real == Guarded /\ AllInv

Expect == IF Ev.a = "Return" /\ th[Ev.t].pc \in {"woken", "ret"}
          THEN LET s1 == IF th[Ev.t].pc = "woken" THEN WakeR(State, Ev.t, TRUE) ELSE State
               IN <<s1.th[Ev.t].pc, s1.th[Ev.t].n, IF s1.th[Ev.t].pc = "ret" THEN s1.th[Ev.t].ret ELSE PeerSnl[th[Ev.t].n]>>
          ELSE IF Ev.a = "Collect" /\ reqs # <<>> THEN <<"expected-SDREQ", CollectR(State).snl, "queue", [i \in DOMAIN reqs |-> reqs[i].n]>>
          ELSE IF l < Len(T) THEN <<"ids-out", Nxt.busy, "free", Nxt.free>>
          ELSE <<"-">>
Why == IF ~ENABLED Guarded THEN <<"guard", Expect>>
       ELSE <<"inv", SelectSeq(InvNames, LAMBDA n : ~ENABLED (Guarded /\ InvP(n)))>>

Stuck ==
    /\ l <= Len(T)
    /\ ~ENABLED Real
    /\ PrintT(<<"STUCK", Traces[tid].id, l, Ev.a, Why>>)
    /\ l' = Len(T) + 2
    /\ UNCHANGED <<th, reqs, sent, out, pool, snl, cache, up, tid>>

TNext == Real \/ Stuck
TSpec == TInit /\ [][TNext]_tvars

Done == (l = Len(T) + 1) => PrintT(<<"ACCEPT", Traces[tid].id>>)
=============================================================================
