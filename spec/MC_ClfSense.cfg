SPECIFICATION Spec
CONSTANTS
  Intervals = {100000}
  Cycles = {31250}
  MaxLen = 3
  MaxIter = 2
  MaxOps = 2
INVARIANT FirstFound
INVARIANT UnsupportedIgnored
INVARIANT Raises
INVARIANT MuteWhenNone
INVARIANT TargetFresh
INVARIANT ExchangeOk
INVARIANT Pauses
INVARIANT ArgCheck
CHECK_DEADLOCK FALSE
