SPECIFICATION TSpec
CONSTANTS
  Threads = {"ldl_recv", "ldl_poll", "dlc_client", "dlc_client_name", "dlc_server", "resolve", "poll_send", "late_connect", "late_resolve", "late_accept", "late_recvfrom", "late_bound_recvfrom", "late_sendto", "early_then_late", "dlc_poll_recv", "dlc_poll_acks", "dlc_poll_send", "dlc_frmr_peer", "dlc_frmr_local", "dlc_frmr_ui", "dlc_server2", "wks_clash", "resolve_a", "resolve_b", "resolve_c"}
  Socks = {"ldl1", "ldl2", "ldl3", "ldl4", "dlc1", "dlc2", "dlc2c", "dlc2cc", "dlc3", "dlc4", "dlc5", "dlc6", "dlc7", "dlc8", "dlc9", "sd", "fresh", "raw4", "wks"}
  AtomicCheck = TRUE
  DeadBind = FALSE
  DeadAdopt = FALSE
  MaxDeliver = 1000000
CONSTRAINT Done
CHECK_DEADLOCK FALSE
