SPECIFICATION Spec
CONSTANTS
  SendMius = {8, 9, 10, 11, 12, 13, 14}
  Agfs = {TRUE, FALSE}
  Layouts <- LayDlcT
  Infos = {0, 3, 6}
  RawInfos = {}
  CtlKinds = {"CC"}
  MaxQ = 3
  MaxTotal = 4
  MaxRes = 1
  ReqLens = {2}
  MaxReq = 0
  MaxDm = 0
  AckStates = {"none", "vol", "nec"}
  SdresMin = 4
  LoopGuard = TRUE
INVARIANT FrameFits
INVARIANT PayloadFits
INVARIANT Transparent
INVARIANT LenIsLen
INVARIANT NoWaste
CHECK_DEADLOCK FALSE
