--------------------------- MODULE LlcpWindow ---------------------------
(* The integer core of one direction of an LLCP data link connection (C05):
   sender S (send(), V(S), V(SA)) -> receiver R (enqueue(), recv(), V(R),
   V(RA), recv_confs) with the acknowledgements flowing back.  Counters only,
   real modulus M = 16, every receive window 0..15, histories of any length.

   It abstracts LlcpDlc.tla (which is bound to nfc/llcp/tco.py by trace
   validation) under the mapping `WinMapP` given there:

     vs, vsa        ep[e].vs, ep[e].vsa                         tco.py send_cnt / send_ack
     vr, vra, confs ep[p].vr, ep[p].vra, ep[p].confs            tco.py recv_cnt / recv_ack / recv_confs
     rq             number of I PDUs in ep[p].rq                tco.py recv_queue
     nI             I PDUs queued at e or on the wire e -> p
     acks           N(R) values on the wire p -> e (a set: the FIFO order of
                    the wire is over-approximated - an acknowledgement may
                    overtake older ones, which has the effect of their loss
                    and is harmless because N(R) is cumulative)

   Purpose: an *inductive* invariant `IndInv` (discharged by Apalache for
   M = 16, all windows, unbounded behaviours:  Init => IndInv,
   IndInv /\ Next => IndInv') from which Window, RecvBound and NoDrop
   follow.  TLC checks the same three obligations on the enumerable state
   space of this module (MC_LlcpWindow*.cfg) and checks `IndInv` under the
   mapping as an invariant of LlcpDlc (`WinInd`) and as a step post-condition
   of every recorded execution of the real code (Trace_LlcpDlc, Trace_LlcpDlcT).

   Actions follow the code's critical sections:
     Send        tco.py DataLinkConnection.send: refuses when send_window_slots = 0
     DeliverI    tco.py enqueue(I): N(S) = V(R) (else FRMR), V(R)++, queue bounded by recv_buf = RW(L)
     Recv        tco.py recv(): pops one PDU, recv_confs++
     Ack         tco.py sendack()/dequeue(): V(RA) += recv_confs, recv_confs = 0, N(R) = V(RA) sent
     Repeat      tco.py dequeue(): an I PDU / RR / RNR carrying the unchanged V(RA)
     DeliverAck  tco.py enqueue(I/RR/RNR): V(SA) = N(R)
*)
EXTENDS Integers, FiniteSets

M == 16

VARIABLES
    \* @type: Int;
    rw,
    \* @type: Int;
    vs,
    \* @type: Int;
    vsa,
    \* @type: Int;
    vr,
    \* @type: Int;
    vra,
    \* @type: Int;
    confs,
    \* @type: Int;
    rq,
    \* @type: Int;
    nI,
    \* @type: Set(Int);
    acks,
    \* @type: Bool;
    dropped

vars == <<rw, vs, vsa, vr, vra, confs, rq, nI, acks, dropped>>

\* cyclic distance from a forward to b
D(a, b) == (b + M - a) % M

SendSlots == (rw + M - vs + vsa) % M          \* tco.py send_window_slots

Init ==
    /\ rw \in 0..(M - 1)
    /\ vs = 0 /\ vsa = 0 /\ vr = 0 /\ vra = 0 /\ confs = 0 /\ rq = 0 /\ nI = 0
    /\ acks = {}
    /\ dropped = FALSE

Send ==
    /\ SendSlots # 0
    /\ vs' = (vs + 1) % M
    /\ nI' = nI + 1
    /\ UNCHANGED <<rw, vsa, vr, vra, confs, rq, acks, dropped>>

DeliverI ==
    /\ nI > 0
    /\ nI' = nI - 1
    /\ vr' = (vr + 1) % M
    /\ IF rq < rw THEN rq' = rq + 1 /\ dropped' = dropped
       ELSE rq' = rq /\ dropped' = TRUE            \* TransmissionControlObject.enqueue drops silently
    /\ UNCHANGED <<rw, vs, vsa, vra, confs, acks>>

Recv ==
    /\ rq > 0
    /\ rq' = rq - 1
    /\ confs' = confs + 1
    /\ UNCHANGED <<rw, vs, vsa, vr, vra, nI, acks, dropped>>

Ack ==
    /\ confs > 0
    /\ vra' = (vra + confs) % M
    /\ confs' = 0
    /\ acks' = acks \union {(vra + confs) % M}
    /\ UNCHANGED <<rw, vs, vsa, vr, rq, nI, dropped>>

Repeat ==
    /\ acks' = acks \union {vra}
    /\ UNCHANGED <<rw, vs, vsa, vr, vra, confs, rq, nI, dropped>>

DeliverAck ==
    \E n \in acks :
        /\ vsa' = n
        /\ acks' = {m \in acks : D(vsa, m) >= D(vsa, n)}
        /\ UNCHANGED <<rw, vs, vr, vra, confs, rq, nI, dropped>>

Next == Send \/ DeliverI \/ Recv \/ Ack \/ Repeat \/ DeliverAck

Spec == Init /\ [][Next]_vars

\* ---------------------------------------------------------------- invariants
TypeOK ==
    /\ rw \in 0..(M - 1)
    /\ vs \in 0..(M - 1) /\ vsa \in 0..(M - 1) /\ vr \in 0..(M - 1) /\ vra \in 0..(M - 1)
    /\ confs \in 0..(M - 1) /\ rq \in 0..(M - 1) /\ nI \in 0..(M - 1)
    /\ acks \subseteq 0..(M - 1)
    /\ dropped \in BOOLEAN

\* the inductive invariant: the four pointers are cyclically ordered
\* V(SA) <= V(RA) <= V(R) <= V(S), the segments have the lengths the counters say,
\* the whole span fits the window, acknowledgements under way lie between V(SA) and V(RA)
IndInv ==
    /\ TypeOK
    /\ D(vra, vr) = confs + rq
    /\ D(vr, vs) = nI
    /\ D(vsa, vra) + confs + rq + nI = D(vsa, vs)
    /\ D(vsa, vs) <= rw
    /\ \A n \in acks : D(vsa, n) <= D(vsa, vra)
    /\ ~dropped

\* what C05 asks of the counters (consequences of IndInv)
Window    == D(vsa, vs) <= rw                 \* outstanding never exceeds RW(R)
RecvBound == confs + rq <= rw                 \* unconfirmed + queued never exceeds RW(L)
NoDrop    == ~dropped                         \* enqueue() never drops an in-sequence I PDU
Safe      == Window /\ RecvBound /\ NoDrop

\* the two proof obligations in the form Apalache takes them
\* base:  --init=Init    --inv=IndInv --length=0      step:  --init=IndInit --inv=IndInv --length=1
IndInit ==
    /\ rw \in 0..(M - 1)
    /\ vs \in 0..(M - 1) /\ vsa \in 0..(M - 1) /\ vr \in 0..(M - 1) /\ vra \in 0..(M - 1)
    /\ confs \in 0..(M - 1) /\ rq \in 0..(M - 1) /\ nI \in 0..(M - 1)
    /\ acks \in SUBSET (0..(M - 1))
    /\ dropped \in BOOLEAN
    /\ IndInv

\* reachability witnesses for TLC (must be violated)
W_Wrap == ~(vs = 0 /\ vr = 0 /\ vsa = M - 1 /\ rq = 1 /\ rw > 1)   \* sixteen messages sent, fifteen acknowledged
W_Full == ~(SendSlots = 0 /\ rw = M - 1)
=============================================================================
