--------------------------- MODULE Trace_Robust ---------------------------
(* Trace validation for C07.  Two kinds of traces in one batch:
   kind = "cases":  ev = [a |-> "Case", entry, cls, exc]  ... each must satisfy Robust!Allowed
   kind = "life":   ev = Startup/OnConnect/OnRelease/Ret/Inject/End events of one man-in-the-middle run;
                    Raise / ThreadDeath / Stall events have no action (the trace is rejected there). *)
EXTENDS Robust, Json, IOUtils, TLCExt
VARIABLES tid, l
tvars == <<st, nact, injected, tid, l>>
Traces == ndJsonDeserialize(IOEnv.TRACE_FILE)
T == Traces[tid].ev
Ev == T[l]
TInit == tid \in 1..Len(Traces) /\ l = 1 /\ Init
Step == l <= Len(T) /\ l' = l + 1 /\ UNCHANGED tid
Is(a) == l <= Len(T) /\ Ev.a = a
TrCase == /\ Is("Case") /\ Step /\ Allowed(Ev.entry, Ev.cls, Ev.exc) /\ UNCHANGED vars
TrStartup == /\ Is("Startup") /\ Step /\ Startup(Ev.x)
TrOnConnect == /\ Is("OnConnect") /\ Step /\ OnConnect(Ev.x, Ev.keep)
TrOnRelease == /\ Is("OnRelease") /\ Step /\ OnRelease(Ev.x)
TrRet == /\ Is("Ret") /\ Step /\ Ret(Ev.x)
TrInject == /\ Is("Inject") /\ Step /\ injected' = injected + 1 /\ UNCHANGED <<st, nact>>
TrEnd == /\ Is("End") /\ Step /\ (\A x \in Sides : st[x] = "returned") /\ UNCHANGED vars
Real == TrCase \/ TrStartup \/ TrOnConnect \/ TrOnRelease \/ TrRet \/ TrInject \/ TrEnd
Stuck == /\ l <= Len(T) /\ ~ENABLED Real
         /\ PrintT(<<"STUCK", Traces[tid].id, l, Ev.a, [ev |-> Ev, st |-> st]>>)
         /\ l' = Len(T) + 2 /\ UNCHANGED <<st, nact, injected, tid>>
TNext == Real \/ Stuck
TSpec == TInit /\ [][TNext]_tvars
Done == (l = Len(T) + 1) => PrintT(<<"ACCEPT", Traces[tid].id>>)
=============================================================================
