------------------------- MODULE Trace_Handover -------------------------
(* Trace validation of complete-stack connection handover runs against Handover.
   Events: Conn(n = client send MIU, decl = server send MIU), CStart(L, len = G, h), CSend(n), SRecv(n),
   Deliver(L, h), SSend(n), CRecv(n), CRet(len, h = identity of the received select message), Link(n, decl). *)
EXTENDS Handover, Json, IOUtils, TLCExt
VARIABLES tid, l
tvars == <<c, s, c2s, s2c, cm, sm, reqs, delivered, results, tid, l>>
Traces == ndJsonDeserialize(IOEnv.TRACE_FILE)
T == Traces[tid].ev
Ev == T[l]
TInit == /\ tid \in 1..Len(Traces) /\ l = 1 /\ c = CIdle /\ s = SIdle /\ c2s = <<>> /\ s2c = <<>>
         /\ cm = 128 /\ sm = 128 /\ reqs = <<>> /\ delivered = <<>> /\ results = <<>>
Step == l <= Len(T) /\ l' = l + 1 /\ UNCHANGED tid
Is(a) == l <= Len(T) /\ Ev.a = a

TrConn == /\ Is("Conn") /\ Step /\ c.pc = "idle"
          /\ s' = SIdle /\ c2s' = <<>> /\ s2c' = <<>> /\ cm' = Ev.n /\ sm' = Ev.decl
          /\ UNCHANGED <<c, reqs, delivered, results>>
TrCStart == /\ Is("CStart") /\ Step /\ CStart(Ev.L, Ev.len, Ev.h)
TrCSend == /\ Is("CSend") /\ Step /\ c.pc = "send" /\ Ev.n = CNext.n /\ CSend
TrSRecv == /\ Is("SRecv") /\ Step /\ c2s # <<>> /\ Ev.n = Head(c2s).n /\ SRecv
TrDeliver == /\ Is("Deliver") /\ Step /\ s.pc = "deliver" /\ Ev.L = s.buf /\ Ev.h = s.h /\ Deliver
TrSSend == /\ Is("SSend") /\ Step /\ s.sq # <<>> /\ Ev.n = Head(s.sq).n /\ SSend
TrCRecv == /\ Is("CRecv") /\ Step /\ s2c # <<>> /\ Ev.n = Head(s2c).n /\ CRecv
TrCRet == /\ Is("CRet") /\ Step /\ c.pc = "done"
          /\ results[Len(results)].len = Ev.len /\ Ev.ok          \* ok: the octets equal what the server sent
          /\ CRet
TrLink == /\ Is("Link") /\ Step /\ Ev.n <= Ev.decl
          /\ UNCHANGED <<c, s, c2s, s2c, cm, sm, reqs, delivered, results>>
Guarded == TrConn \/ TrCStart \/ TrCSend \/ TrSRecv \/ TrDeliver \/ TrSSend \/ TrCRecv \/ TrCRet \/ TrLink
InvNames == <<"DeliveredIntact", "Results", "FragmentFits">>
InvP(n) == CASE n = "DeliveredIntact" -> DeliveredIntactP(reqs', delivered')
             [] n = "Results" -> ResultsP(reqs', results')
             [] n = "FragmentFits" -> FragmentFitsP(c2s', s2c', cm', sm')
Real == Guarded /\ \A i \in DOMAIN InvNames : InvP(InvNames[i])
Why == IF ~ENABLED Guarded
       THEN [clause |-> "guard", cpc |-> c.pc, spc |-> s.pc, cnext |-> CNext, sbuf |-> s.buf, sh |-> s.h,
             snext |-> IF s.sq = <<>> THEN Frag(0, 0, 0) ELSE Head(s.sq), c2s |-> Len(c2s), s2c |-> Len(s2c)]
       ELSE [clause |-> "inv", failed |-> SelectSeq(InvNames, LAMBDA n : ~ENABLED (Guarded /\ InvP(n)))]
Stuck == /\ l <= Len(T) /\ ~ENABLED Real
         /\ PrintT(<<"STUCK", Traces[tid].id, l, Ev.a, Why>>)
         /\ l' = Len(T) + 2 /\ UNCHANGED <<c, s, c2s, s2c, cm, sm, reqs, delivered, results, tid>>
TNext == Real \/ Stuck
TSpec == TInit /\ [][TNext]_tvars
Done == (l = Len(T) + 1) => PrintT(<<"ACCEPT", Traces[tid].id>>)
=============================================================================
