SPECIFICATION TSpec
CONSTANTS
  Prods = {"ulc", "ntag", "ev1", "n203"}
  KeyParts = {"k0", "kA", "kB", "kC"}
  Variants = {"a", "b"}
  PFs = {0}
  MaxOps = 100000
  MaxAdv = 100000
  MaxCut = 100000
  MaxChal = 100000
  Defects = {"ev1_no_cfgpage", "ulc_short_response", "fmt_defaults_unchecked"}
  ImmModes = {TRUE, FALSE}
  NakModes = {TRUE, FALSE}
  AdvKinds = {"flip", "trunc", "replay"}
  Ops = {"auth", "protect", "lock", "ndef", "format"}
CONSTRAINT Done
CHECK_DEADLOCK FALSE
