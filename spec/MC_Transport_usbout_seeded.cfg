SPECIFICATION Spec
CONSTANTS
  Link = "usbout"
  OutPkt = 4
  InPkt = 4
  ReadCap = 10
  ExtMark = 5
  ZlpRule = "eq"
  ExtRule = "lenlcs"
  WLens = {1, 2, 3, 4, 5, 6, 7, 8, 9, 10, 11, 12, 13}
  DLens = {0, 1, 3, 4, 5, 8, 9, 10, 11, 12}
  TFrames = {1}
  NFrames = 3
  MidTimeout = TRUE
INVARIANT Reached
INVARIANT FrameDelimited
INVARIANT NoBleed
INVARIANT ReadExact
INVARIANT TimeoutClean
INVARIANT NoOverRead
INVARIANT StaysAligned
CHECK_DEADLOCK FALSE
