SPECIFICATION MSpec
CONSTANTS
  Units = {"u1", "u2"}
  Budget = 4
  Lo = 2
  Hi = 6
INVARIANT Bounded
INVARIANT NoRepeat
INVARIANT ResultOk
CHECK_DEADLOCK FALSE
