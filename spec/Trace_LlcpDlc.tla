------------------------- MODULE Trace_LlcpDlc -------------------------
(* Trace validation for LlcpDlc: each line of a recorded execution of two real
   nfc.llcp.llc.LogicalLinkController objects is one spec action; the logged
   post-state projection of the acting endpoint must equal the spec's, and all
   C05 invariants are evaluated as step post-conditions.  (DESIGN.md App. A) *)
EXTENDS LlcpDlc, Json, IOUtils, TLCExt

VARIABLES tid, l
tvars == <<ep, wire, accepted, delivered, broken, tid, l>>

Traces == ndJsonDeserialize(IOEnv.TRACE_FILE)
T == Traces[tid].ev
C == Traces[tid].const

Proj(s) == [st |-> s.st, vs |-> s.vs, vsa |-> s.vsa, vr |-> s.vr, vra |-> s.vra,
            confs |-> s.confs, acks |-> s.acks, nsq |-> Len(s.sq), nrq |-> Len(s.rq),
            busy |-> s.busy, busySent |-> s.busySent, sendBusy |-> s.sendBusy]

Numbered(t) == t \in {"I", "RR", "RNR"}
FProj(f) == [i \in DOMAIN f |-> [t |-> f[i].t, ns |-> IF f[i].t = "I" THEN f[i].ns ELSE 0,
                                  nr |-> IF Numbered(f[i].t) THEN f[i].nr ELSE 0,
                                  len |-> IF f[i].t = "I" THEN f[i].len ELSE 0,
                                  m |-> IF f[i].t = "I" THEN f[i].m ELSE 0]]

TInit ==
    /\ tid \in 1..Len(Traces)
    /\ l = 1
    /\ ep = [e \in E |-> LET r == IF e = "A"
                              THEN EpInit(C.rwA, C.rwB, C.smiuA, C.rmiuA, C.lmiuA, C.agfA)
                              ELSE EpInit(C.rwB, C.rwA, C.smiuB, C.rmiuB, C.lmiuB, C.agfB)
                        \* "v0": the conversation starts as if v0 messages had been exchanged and acknowledged both ways
                        v == IF "v0" \in DOMAIN C THEN C.v0 ELSE 0
                    IN  [r EXCEPT !.vs = v, !.vsa = v, !.vr = v, !.vra = v]]
    /\ wire = [e \in E |-> <<>>]
    /\ accepted = [e \in E |-> <<>>]
    /\ delivered = [e \in E |-> <<>>]
    /\ broken = FALSE

Ev == T[l]
IsEv(a) == l <= Len(T) /\ Ev.a = a /\ l' = l + 1 /\ UNCHANGED tid

\* --- guarded spec actions (without the logged post-state) -------------------------------
GSend     == IsEv("Send") /\ Send(Ev.e, Ev.len)
GRecv     == IsEv("Recv") /\ Recv(Ev.e)
GSetBusy  == IsEv("SetBusy") /\ SetBusy(Ev.e, Ev.b)
GPollAcks == IsEv("PollAcks") /\ PollAcks(Ev.e)
GCollect  == IsEv("Collect") /\ Collect(Ev.e)
GDeliver  == IsEv("Deliver") /\ Deliver(Ev.e)
GCloseB   == IsEv("CloseBegin") /\ CloseBegin(Ev.e)
GCloseE   == IsEv("CloseEnd") /\ CloseEnd(Ev.e)
Guarded == GSend \/ GRecv \/ GSetBusy \/ GPollAcks \/ GCollect \/ GDeliver \/ GCloseB \/ GCloseE

\* --- logged results ---------------------------------------------------------------------
Who == IF Ev.a = "Deliver" THEN Peer(Ev.e) ELSE Ev.e      \* whose post-state was logged
ResOk ==
    CASE Ev.a = "Send"    -> Ev.res = SendRes(ep[Ev.e], Ev.len)
      [] Ev.a = "Recv"    -> /\ ep[Ev.e].rq # <<>>
                             /\ Ev.t = RecvOut(ep[Ev.e]).t
                             /\ (Ev.t = "I" => Ev.m = RecvOut(ep[Ev.e]).m /\ Ev.len = RecvOut(ep[Ev.e]).len)
      [] Ev.a = "Collect" -> /\ Ev.frame = FProj(CollectR(ep[Ev.e]).f)
                             /\ Ev.broken = Poisoned(CollectR(ep[Ev.e]).f)
      [] OTHER -> TRUE
PostOk == Proj(ep'[Who]) = Ev.post

InvNames == <<"Fifo", "Window", "RecvBound", "NoFrmr", "SeqOk", "WinInd", "FrameFits", "NotBroken">>
InvP(n) == CASE n = "Fifo" -> FifoP(accepted', delivered')
             [] n = "Window" -> WindowP(ep')
             [] n = "RecvBound" -> RecvBoundP(ep')
             [] n = "NoFrmr" -> NoFrmrP(ep', wire')
             [] n = "SeqOk" -> SeqOkP(ep', wire')
             [] n = "WinInd" -> WinIndP(ep', wire')
             [] n = "FrameFits" -> FrameFitsP(ep', wire')
             [] n = "NotBroken" -> ~broken'
AllInv == \A i \in DOMAIN InvNames : InvP(InvNames[i])

Real == Guarded /\ ResOk /\ PostOk /\ AllInv

\* --- diagnosis when the real execution has no matching spec step ---------------------------
ExpPost ==
    CASE Ev.a = "Send"     -> Proj(SendR(ep[Ev.e], Len(accepted[Ev.e]) + 1, Ev.len))
      [] Ev.a = "Collect"  -> Proj(CollectR(ep[Ev.e]).s)
      [] Ev.a = "Deliver" /\ wire[Ev.e] # <<>> -> Proj(EnqAll(ep[Peer(Ev.e)], Head(wire[Ev.e])))
      [] Ev.a = "Recv" /\ ep[Ev.e].rq # <<>> -> Proj(RecvR(ep[Ev.e]))
      [] Ev.a = "PollAcks" -> Proj(PollAcksR(ep[Ev.e]))
      [] OTHER -> Proj(ep[Who])
FailedInv == SelectSeq(InvNames, LAMBDA n : ~ENABLED (Guarded /\ ResOk /\ PostOk /\ InvP(n)))
Why == IF ~ENABLED Guarded THEN <<"guard">>
       ELSE IF ~ENABLED (Guarded /\ ResOk) THEN
            <<"result", IF Ev.a = "Collect" THEN FProj(CollectR(ep[Ev.e]).f)
                        ELSE IF Ev.a = "Send" THEN SendRes(ep[Ev.e], Ev.len) ELSE "-">>
       ELSE IF ~ENABLED (Guarded /\ ResOk /\ PostOk) THEN <<"post", ExpPost>>
       ELSE <<"inv", FailedInv>>

Stuck ==
    /\ l <= Len(T)
    /\ ~ENABLED Real
    /\ PrintT(<<"STUCK", Traces[tid].id, l, Ev.a, Why>>)
    /\ l' = Len(T) + 2
    /\ UNCHANGED <<ep, wire, accepted, delivered, broken, tid>>

TNext == Real \/ Stuck
TSpec == TInit /\ [][TNext]_tvars

Done == (l = Len(T) + 1) => PrintT(<<"ACCEPT", Traces[tid].id>>)
=============================================================================
