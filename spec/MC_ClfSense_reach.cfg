SPECIFICATION Spec
CONSTANTS
  Intervals = {20000, 100000}
  Cycles = {31250}
  MaxLen = 2
  MaxIter = 3
  MaxOps = 3
CHECK_DEADLOCK FALSE
