SPECIFICATION Spec
CONSTANTS
  Intervals = {100000}
  Cycles = {31250}
  MaxLen = 2
  MaxIter = 1
  MaxOps = 3
CHECK_DEADLOCK FALSE
