SPECIFICATION Spec
CONSTANTS
  MaxLen = 2
  MaxIter = 1
  MaxOps = 3
CHECK_DEADLOCK FALSE
