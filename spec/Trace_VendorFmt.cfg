SPECIFICATION TSpec
CONSTANTS
  Kinds = {"lite", "lites", "topaz", "topaz512"}
  NB = 14
  KeyNames = {"k0", "kA", "kB"}
  PFs = {0}
  MaxOps = 100000
  MaxCut = 100000
  InitRW = {}
CONSTRAINT Done
CHECK_DEADLOCK FALSE
