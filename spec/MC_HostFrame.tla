----------------------------- MODULE MC_HostFrame -----------------------------
(* The only state-space use in C14: the positional validator ValidPn53xRsp is compared with the
   byte-by-byte parser automaton (two structurally different definitions of the same format) on
   (a) every frame over a small alphabet up to a bounded length (grown byte by byte from <<>> and from
       the start sequence 00 00 FF so that complete valid frames are reached),
   (b) every single-byte corruption, every truncation, every 1-byte extension and every DCS/postamble
       double corruption of the template frames.
   The same frames are fed to NfcpyPn53x (the model of pn53x.Chipset.command as written); every frame on
   which the model disagrees with the reference is printed <<"DISC", outcome, frame>> -- these are
   *predictions*, the binding replays them on the real Chipset.command before anything is reported.     *)
EXTENDS HostFrame, TLC, FiniteSets

CONSTANTS MaxLenEmpty, MaxLenSeed, Alphabet, Code, LongN
VARIABLES frame, grow, phase
vars == <<frame, grow, phase>>

Rsp(pd) == InfoFrame(<<213, (Code + 1) % 256>> \o pd)
ExtRsp(pd) == LET body == <<213, (Code + 1) % 256>> \o pd
                  n == Len(body)
              IN Preamble \o <<255, 255, n \div 256, n % 256, Neg8((n \div 256) + (n % 256))>>
                 \o body \o <<Neg8(Sum(body)), 0>>
Templates == { Rsp(<<>>), Rsp(<<0>>), Rsp(<<0, 1, 2, 3>>), Rsp(<<1>>),
               ExtRsp(<<>>), ExtRsp(<<0, 17, 34>>), ExtRsp([i \in 1..LongN |-> (i * 7) % 256]),
               ErrFrame, AckFrame, Pn53xCmd(Code, <<1, 2>>) }

\* corruption is a transition from a template state (phase "tpl") to a leaf, so that TLC's workers share it
Init == \/ frame = <<>> /\ grow = MaxLenEmpty /\ phase = "grow"
        \/ frame = Preamble /\ grow = MaxLenSeed /\ phase = "grow"
        \/ frame \in Templates /\ grow = 0 /\ phase = "tpl"
Grow == /\ phase = "grow" /\ Len(frame) < grow
        /\ \E b \in Alphabet : frame' = Append(frame, b)
        /\ UNCHANGED <<grow, phase>>
Corrupt == /\ phase = "tpl" /\ phase' = "leaf" /\ UNCHANGED grow
           /\ \/ \E i \in 1..Len(frame), b \in Byte : frame' = [frame EXCEPT ![i] = b]      \* one byte
              \/ \E n \in 0..Len(frame) : frame' = SubSeq(frame, 1, n)                     \* truncation
              \/ \E b \in Byte : frame' = Append(frame, b)                                 \* extension
              \/ /\ Len(frame) <= 16                                                       \* DCS + postamble
                 /\ \E a \in Byte, b \in Byte : frame' = [frame EXCEPT ![Len(frame) - 1] = a, ![Len(frame)] = b]
Next == Grow \/ Corrupt
Spec == Init /\ [][Next]_vars

Equiv == ValidPn53xRsp(frame, Code) <=> ParserAccepts(frame, Code)
\* consistency of the reference with itself
ValidImpliesPayload == ValidPn53xRsp(frame, Code) => Rsp(Pn53xPayload(frame)) = frame \/ ExtRsp(Pn53xPayload(frame)) = frame
Disc == LET o == NfcpyPn53x(frame, Code)
            v == ValidPn53xRsp(frame, Code)
        IN (\/ o \in {"IndexError", "struct.error"}
            \/ o = "Data" /\ ~v
            \/ v /\ o # "Data"
            \/ o = "ChipError" /\ ~LooksLikeError(frame)) => PrintT(<<"DISC", o, frame>>)

W_Valid == ~(phase = "grow" /\ ValidPn53xRsp(frame, Code))
W_ValidExt == ~(ValidPn53xRsp(frame, Code) /\ IsExt(frame))
W_Rejected == ~(phase = "leaf" /\ ~ValidPn53xRsp(frame, Code) /\ Len(frame) > 9)
=============================================================================
