------------------------------ MODULE HostFrame ------------------------------
(* C14 -- host-link frame formats as executable reference (constant-level operators over Seq(0..255)).
   PN53x (PN531/PN532/PN533/RC-S956 user manuals, "host controller communication protocol"):
     normal information frame   00 00 FF LEN LCS TFI PD0..PDn DCS 00     LEN = n+2 <= 255, LEN+LCS = 0 mod 256
     extended information frame 00 00 FF FF FF LENM LENL LCS TFI PD.. DCS 00   LENM+LENL+LCS = 0 mod 256
     TFI = D4 host->chip, D5 chip->host; TFI+PD0+..+PDn+DCS = 0 mod 256; ACK 00 00 FF 00 FF 00;
     syntax error frame 00 00 FF 01 FF 7F 81 00; a response carries PD0 = command code + 1.
   ACR122U (CCID): PC_to_RDR_Escape 6F <dwLength LE32> 00 00 00 00 00 + pseudo APDU FF 00 00 00 Lc D4 code data;
     RDR_to_PC 80 <dwLength LE32> .. 5 bytes .. D5 code+1 data 90 00.
   RC-S380: 00 00 FF FF FF LENlo LENhi LCS D6 code data DCS 00.                                          *)
EXTENDS Naturals, Sequences, SequencesExt

Byte == 0..255
Sum(s) == FoldLeft(+, 0, s)
Neg8(x) == (256 - (x % 256)) % 256
Tail2(s, i) == IF i > Len(s) THEN <<>> ELSE SubSeq(s, i, Len(s))    \* python s[i-1:]
Slice(s, i, j) == SubSeq(s, i, IF j > Len(s) THEN Len(s) ELSE j)     \* python s[i-1:j], tolerant

Preamble == <<0, 0, 255>>
AckFrame == <<0, 0, 255, 0, 255, 0>>
ErrFrame == <<0, 0, 255, 1, 255, 127, 129, 0>>

\* ---- command frames ------------------------------------------------------------------------
InfoFrame(body) ==          \* body = TFI PD0 .. PDn
  LET n == Len(body) IN
  (IF n <= 255 THEN Preamble \o <<n, Neg8(n)>>
   ELSE Preamble \o <<255, 255, n \div 256, n % 256, Neg8((n \div 256) + (n % 256))>>)
  \o body \o <<Neg8(Sum(body)), 0>>
Pn53xCmd(code, data) == InfoFrame(<<212, code>> \o data)
ArygonCmd(code, data) == <<50>> \o Pn53xCmd(code, data)               \* ASCII '2' = "send to TAMA"
LE32(n) == <<n % 256, (n \div 256) % 256, (n \div 65536) % 256, n \div 16777216>>
Acr122Cmd(code, data) ==
  LET apdu == <<255, 0, 0, 0, Len(data) + 2, 212, code>> \o data
  IN <<111>> \o LE32(Len(apdu)) \o <<0, 0, 0, 0, 0>> \o apdu
Rcs380Cmd(code, data) ==
  LET body == <<214, code>> \o data
      n == Len(body)
  IN <<0, 0, 255, 255, 255, n % 256, n \div 256, Neg8((n % 256) + (n \div 256))>>
     \o body \o <<Neg8(Sum(body)), 0>>

\* ---- response validation (positional definition) ----------------------------------------------
StartsWith(f, p) == Len(f) >= Len(p) /\ SubSeq(f, 1, Len(p)) = p
IsExt(f) == StartsWith(f, <<0, 0, 255, 255, 255>>)
\* offset of TFI (1-based) and announced length, meaningful only if the header is complete
HdrLen(f) == IF IsExt(f) THEN 8 ELSE 5
BodyLen(f) == IF IsExt(f) THEN f[6] * 256 + f[7] ELSE f[4]
WellFramed(f) ==            \* preamble, start code, LEN/LCS, consistent length, DCS, postamble
  /\ StartsWith(f, Preamble)
  /\ Len(f) >= HdrLen(f) + 2
  /\ IF IsExt(f) THEN (f[6] + f[7] + f[8]) % 256 = 0 ELSE (f[4] + f[5]) % 256 = 0
  /\ Len(f) = HdrLen(f) + BodyLen(f) + 2
  /\ (Sum(SubSeq(f, HdrLen(f) + 1, Len(f) - 1))) % 256 = 0            \* TFI + PD.. + DCS
  /\ f[Len(f)] = 0
Body(f) == SubSeq(f, HdrLen(f) + 1, Len(f) - 2)
ValidPn53xRsp(f, code) ==
  /\ WellFramed(f)
  /\ BodyLen(f) >= 2
  /\ Body(f)[1] = 213                    \* D5
  /\ Body(f)[2] = (code + 1) % 256
Pn53xPayload(f) == Tail2(Body(f), 3)
IsErrorFrame(f) == f = ErrFrame
LooksLikeError(f) == WellFramed(f) /\ BodyLen(f) >= 1 /\ Body(f)[1] = 127      \* TFI 7Fh

ValidAcr122Rsp(f, code) ==
  /\ Len(f) >= 14
  /\ f[1] = 128
  /\ f[4] = 0 /\ f[5] = 0 /\ f[2] + 256 * f[3] = Len(f) - 10       \* dwLength, LE32 (frames < 64 KB; TLC ints are 32 bit)
  /\ f[11] = 213 /\ f[12] = (code + 1) % 256
  /\ f[Len(f) - 1] = 144 /\ f[Len(f)] = 0
Acr122Payload(f) == SubSeq(f, 13, Len(f) - 2)

\* ---- response validation, second definition: a parser automaton consuming the frame byte by byte ----
PInit == [ph |-> "p1", n |-> 0, hi |-> 0, cnt |-> 0, sum |-> 0]
Rej(st) == [st EXCEPT !.ph = "rej"]
PStep(code, st, b) ==
  CASE st.ph = "p1"   -> IF b = 0 THEN [st EXCEPT !.ph = "p2"] ELSE Rej(st)
    [] st.ph = "p2"   -> IF b = 0 THEN [st EXCEPT !.ph = "sc"] ELSE Rej(st)
    [] st.ph = "sc"   -> IF b = 255 THEN [st EXCEPT !.ph = "len"] ELSE Rej(st)
    [] st.ph = "len"  -> [st EXCEPT !.ph = "lcs", !.n = b]
    [] st.ph = "lcs"  -> IF st.n = 255 /\ b = 255 THEN [st EXCEPT !.ph = "xl1"]
                         ELSE IF (st.n + b) % 256 = 0 /\ st.n >= 2 THEN [st EXCEPT !.ph = "tfi"]
                         ELSE Rej(st)
    [] st.ph = "xl1"  -> [st EXCEPT !.ph = "xl2", !.hi = b]
    [] st.ph = "xl2"  -> [st EXCEPT !.ph = "xlcs", !.n = st.hi * 256 + b, !.sum = st.hi + b]
    [] st.ph = "xlcs" -> IF (st.sum + b) % 256 = 0 /\ st.n >= 2 THEN [st EXCEPT !.ph = "tfi", !.sum = 0]
                         ELSE Rej(st)
    [] st.ph = "tfi"  -> IF b = 213 THEN [st EXCEPT !.ph = "code", !.cnt = 1, !.sum = b] ELSE Rej(st)
    [] st.ph = "code" -> IF b = (code + 1) % 256
                         THEN [st EXCEPT !.ph = IF st.n = 2 THEN "dcs" ELSE "data", !.cnt = 2, !.sum = st.sum + b]
                         ELSE Rej(st)
    [] st.ph = "data" -> [st EXCEPT !.ph = IF st.cnt + 1 = st.n THEN "dcs" ELSE "data",
                                    !.cnt = st.cnt + 1, !.sum = st.sum + b]
    [] st.ph = "dcs"  -> IF (st.sum + b) % 256 = 0 THEN [st EXCEPT !.ph = "post"] ELSE Rej(st)
    [] st.ph = "post" -> IF b = 0 THEN [st EXCEPT !.ph = "done"] ELSE Rej(st)
    [] OTHER          -> Rej(st)                       \* "done": trailing bytes ; "rej" stays
ParserAccepts(f, code) == FoldLeft(LAMBDA st, b : PStep(code, st, b), PInit, f).ph = "done"

\* ---- what pn53x.Chipset.command() does with a response frame, as the code is written (pn53x.py:204-241):
\*      slices are tolerant, indexing is not; the data checksum is summed over DCS *and* postamble
NfcpyPn53x(f, code) ==
  LET judge(rest) ==
        IF Sum(rest) % 256 # 0 THEN "IOError"
        ELSE IF Len(rest) < 1 THEN "IndexError"
        ELSE IF rest[1] = 127 THEN "ChipError"
        ELSE IF rest[1] # 213 THEN "IOError"
        ELSE IF Len(rest) < 2 THEN "IndexError"
        ELSE IF rest[2] # (code + 1) % 256 THEN "IOError"
        ELSE "Data"
  IN
  IF StartsWith(f, <<0, 0, 255, 255, 255>>) THEN
       IF Sum(Slice(f, 6, 8)) % 256 # 0 THEN "IOError"
       ELSE IF Len(f) < 7 THEN "struct.error"
       ELSE IF f[6] * 256 + f[7] # Len(f) - 10 THEN "IOError"
       ELSE judge(Tail2(f, 9))
  ELSE IF StartsWith(f, Preamble) THEN
       IF Sum(Slice(f, 4, 5)) % 256 # 0 THEN "IOError"
       ELSE IF Len(f) < 4 THEN "IndexError"
       ELSE IF f[4] # Len(f) - 7 THEN "IOError"
       ELSE judge(Tail2(f, 6))
  ELSE "IOError"
=============================================================================
