SPECIFICATION MC_Conn2Spec
CONSTANTS
  MaxSent = 0
  MaxConn = 2
  MiuClasses <- MC_MiuTwo
  RwVals <- MC_RwTwo
  Kinds <- MC_Ml
INVARIANT ConnEqual
INVARIANT ConnLimitAgree
INVARIANT ConnSane
CHECK_DEADLOCK FALSE
