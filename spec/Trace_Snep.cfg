SPECIFICATION TSpec
CONSTANTS
  Hdr = 6
  AccF = 4
  CMius = {128}
  SMius = {128}
  Lens = {0}
  MaxAccs = {0}
  Accs = {0}
  MaxReq = 100000
CONSTRAINT Done
CHECK_DEADLOCK FALSE
