SPECIFICATION Spec
CONSTANTS
  NOps = 3
  CLens = {1, 5}
  RLens = {2, 5}
  Cfgs <- CfgsQuick
  MaxFaults = 2
  MaxWtx = 1
  PFates = {"lose", "corrupt", "empty"}
  CFates = {"lose"}
  WithPing = FALSE
  Variant = "fixed"
  Apis = {FALSE}
CHECK_DEADLOCK FALSE
