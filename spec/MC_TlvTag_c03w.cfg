SPECIFICATION Spec
CONSTANTS
  LongLen = 5
  Layouts <- MCLayouts
  BaseLens = {1, 4, 6, 9}
  Wipes = {256, 119}
  Variants = {"asis", "fixed"}
  Cuts = FALSE
  SectorSize = 32
  MaxFaults = 1
  MaxRetry = 0
  Session = FALSE
  Kinds = {"T2", "T1S"}
  Sizes = {1, 3}
  Pads = {1}
  Props = {0}
  CtlFroms = {2, 3, 4, 6, 11, 22}
  MemSizes = {1, 3, 0}
  LockBits = {9, 12}
  CtlTypes = {1, 2}
  TwoCtl = FALSE
  OldLens = {1}
INVARIANT W_SkipInside
INVARIANT W_SkipAfter
INVARIANT W_SkipBeyond
INVARIANT W_FormatWipe
INVARIANT W_Escape
INVARIANT W_OddLock
INVARIANT W_Mem256
INVARIANT W_Exp2
INVARIANT W_Exp3
INVARIANT W_Exp4
CHECK_DEADLOCK FALSE
