SPECIFICATION Spec
CONSTANTS
  LongLen = 5
  Layouts <- MCLayouts
  BaseLens = {1, 4, 6}
  Wipes = {256, 119}
  Variants = {"asis", "fixed"}
  Cuts = FALSE
  Kinds = {"T2"}
  Sizes = {3}
  Pads = {1}
  Props = {0}
  CtlFroms = {2, 3, 4, 11, 22}
  CtlSizes = {1, 3}
  CtlTypes = {1, 2}
  TwoCtl = FALSE
  OldLens = {1}
INVARIANT W_SkipInside
INVARIANT W_SkipAfter
INVARIANT W_SkipBeyond
INVARIANT W_FormatWipe
INVARIANT W_Escape
CHECK_DEADLOCK FALSE
