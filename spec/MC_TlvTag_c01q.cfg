SPECIFICATION Spec
CONSTANTS
  LongLen = 5
  Layouts <- MCLayouts
  BaseLens = {0, 1, 5, 6}
  Wipes = {119}
  Variants = {"asis", "fixed"}
  Cuts = FALSE
  SectorSize = 32
  MaxFaults = 1
  MaxRetry = 1
  Session = TRUE
  Kinds = {"T2", "T1S", "T1D", "T512"}
  Sizes = {1, 3, 5}
  Pads = {0, 1, 2, 3}
  Props = {0, 113}
  CtlFroms = {4, 9}
  MemSizes = {2}
  LockBits = {9, 12}
  CtlTypes = {1, 2}
  TwoCtl = FALSE
  OldLens = {1, 5}
INVARIANT RoundTrip
INVARIANT CapSound
INVARIANT RejectEarly
INVARIANT FxNoCrash
INVARIANT CrashOnlyKnown
INVARIANT CoherentButFormat
INVARIANT SectorSync
CHECK_DEADLOCK FALSE
