----------------------------- MODULE LlcpAddr -----------------------------
(* LLCP addressing on two connected link controllers (C17): the service access point table, the local
   service name list, the remote name cache, and what binding / discovery / connection set-up /
   datagram delivery do with them.

   Bound to nfc/llcp/llc.py   bind/_bind_by_none/_bind_by_addr/_bind_by_name 724-781, listen 794, connect 783,
                              accept 808, sendto 826, recvfrom 854, close 873, resolve 689,
                              ServiceAccessPoint.insert_socket/remove_socket/enqueue 74-135,
                              ServiceDiscovery.resolve/enqueue 175-217, dispatch() 651-687 (connect-by-name rewrite)
   and nfc/llcp/tco.py        LogicalDataLink.connect/sendto/recvfrom/enqueue, DataLinkConnection.listen/connect/accept/close.

   One action per socket API call; a call's frame exchanges (CONNECT/CC/DM, SNL, UI, DISC/DM) are part of the
   action: the binding lets the link settle after every call, and calls that block by design (connect until
   accept, accept, close, resolve) are split where the application at the other end has to act (Connect .. Accept).
   Every operation is a function  Op(w, ...) -> [w |-> new world, res |-> result, ...ghost]  on the world record
   w = [sk, sap, snl, rsnl].

   The two repairs this module is checked with (the spec models the code, the invariants judge it):
     WksCheck   _bind_by_name looks at sap[addr] before it binds a well-known name (shipped code: FALSE)
     SnlClean   the names of an address are dropped when its last socket is closed   (shipped code: FALSE)
   and one deliberately wrong variant that shows FreedOnLastClose is not vacuous on the socket life cycle:
     KeepDead   close() of a socket that already shut itself down leaves it in its access point (code: FALSE)

   Socket life cycle (st): "open" (LDL/raw ESTABLISHED, DLC CLOSED) -> "listen" | "connecting" -> "conn" -> "cw"
   (CLOSE_WAIT, the peer sent DISC) ; "dead" = the transmission control object went to SHUTDOWN on its own - recv()
   saw the peer's DISC, an FRMR arrived, or a non connection-mode PDU (UI) hit the connection-mode socket - but the
   application has not closed it yet: it still sits in its access point and keeps its address and service name;
   "shut" = closed by the application: in no access point, and an access point without sockets does not exist.   *)
EXTENDS Integers, Sequences, SequencesExt, FiniteSets, TLC

CONSTANTS NSap,        \* size of the SAP table (64; scaled 8)
          NamedLo,     \* first address of the named range   (16; scaled 3)   well-known: 0..NamedLo-1
          DynLo,       \* first address of the dynamic range (32; scaled 5)
          WksAddr,     \* address of the well-known service name "wk" (urn:nfc:sn:snep -> 4; scaled 2)
          Names,       \* valid service names used in histories, "wk" among them
          MaxSock,     \* [side -> bound on sockets created or accepted]       (model checking only)
          KindSeq,     \* [side -> kinds of the sockets the side creates, in order]  (model checking only)
          Roles,       \* [side -> set of operations the side performs]        (model checking only)
          Msgs,        \* datagram payload ids
          BindAddrs,   \* addresses tried by bind(addr)                       (model checking only)
          Dsts,        \* destination addresses of datagrams / connects       (model checking only)
          RecvBuf,     \* SO_RCVBUF of logical data link sockets
          Backlog,     \* listen() backlog
          WksCheck, SnlClean, KeepDead,
          Miu,         \* [side -> link MIU the side announces]; a sender's limit is the receiver's MIU
          Lens,        \* datagram payload lengths offered to sendto()             (model checking only)
          InsertLast,  \* (wrong variant) accept() puts the new socket before the LAST socket of the access point instead of first (code: FALSE)
          HdrInMiu     \* (wrong variant) the receiving socket counts the 2-octet UI header against its MIU (code: FALSE)

Sides == {"A", "B"}
Peer(c) == IF c = "A" THEN "B" ELSE "A"
NoAddr == -1
Addrs == 0..(NSap - 1)
Named == NamedLo..(DynLo - 1)
Dyn == DynLo..(NSap - 1)
BadName == "bad"                    \* violates the service name format -> EFAULT

VARIABLES w,          \* the world: sk, sap, snl, rsnl (each indexed by side)
          last        \* the last operation with its result and ghost observations (for the step properties)
vars == <<w, last>>

\* socket: kind, addr (getsockname), st, peer, rq;  ghosts: name / how it was bound, origin "bind"|"accept"|"none"
NewSock(k) == [kind |-> k, addr |-> NoAddr, st |-> "open", peer |-> NoAddr, rq |-> <<>>,
               name |-> "", how |-> "", origin |-> "none"]
Live(s) == s.st # "shut"            \* not yet closed by the application ("dead" sockets still hold their address)

Occupied(x, c, a) == a \in {0, 1} \/ x.sap[c][a] # <<>>          \* sap[a] is not None
FirstFree(x, c, range) == LET f == {a \in range : ~Occupied(x, c, a)} IN
                          IF f = {} THEN NoAddr ELSE CHOOSE a \in f : \A b \in f : a <= b

\* socket.bind(addr); sap[addr] = ServiceAccessPoint(addr); insert_socket   (a *new* access point replaces whatever was there)
Install(x, c, s, a, nm, how) ==
    [x EXCEPT !.sk[c][s].addr = a, !.sk[c][s].name = nm, !.sk[c][s].how = how, !.sk[c][s].origin = "bind",
              !.sap[c][a] = <<s>>,
              !.snl[c] = IF nm = "" THEN @ ELSE [@ EXCEPT ![nm] = a]]

\* ------------------------------------------------------------------ bind()                      llc.py:724-781
\* arg: [t |-> "none"] | [t |-> "addr", a |-> Int] | [t |-> "name", n |-> name] | [t |-> "other"]
BindR(x, c, s, arg, fx) ==
    LET k == x.sk[c][s] IN
    IF k.addr # NoAddr THEN [w |-> x, res |-> "Invalid"]                                   \* EINVAL
    ELSE CASE arg.t = "none" ->
              LET a == FirstFree(x, c, Dyn) IN
              IF a = NoAddr THEN [w |-> x, res |-> "Exhausted"]                            \* EAGAIN
              ELSE [w |-> Install(x, c, s, a, "", "none"), res |-> "OK"]
           [] arg.t = "addr" ->
              IF arg.a < 0 \/ arg.a > NSap - 1 THEN [w |-> x, res |-> "Fault"]             \* EFAULT
              ELSE IF arg.a \in Dyn \/ k.kind = "raw"
                   THEN IF Occupied(x, c, arg.a) THEN [w |-> x, res |-> "InUse"]           \* EADDRINUSE
                        ELSE [w |-> Install(x, c, s, arg.a, "", "addr"), res |-> "OK"]
                   ELSE [w |-> x, res |-> "Access"]                                        \* EACCES
           [] arg.t = "name" ->
              IF arg.n = BadName THEN [w |-> x, res |-> "Fault"]                           \* service_name_format
              ELSE IF x.snl[c][arg.n] # 0 THEN [w |-> x, res |-> "InUse"]                  \* snl.get(name) is not None
              ELSE IF arg.n = "wk"
                   THEN IF fx.wks /\ Occupied(x, c, WksAddr) THEN [w |-> x, res |-> "InUse"]
                        ELSE [w |-> Install(x, c, s, WksAddr, "wk", "name"), res |-> "OK"]   \* sap[addr] not looked at
                   ELSE LET a == FirstFree(x, c, Named) IN
                        IF a = NoAddr THEN [w |-> x, res |-> "Exhausted"]                  \* EADDRNOTAVAIL
                        ELSE [w |-> Install(x, c, s, a, arg.n, "name"), res |-> "OK"]
           [] OTHER -> [w |-> x, res |-> "Fault"]

NoFix == [wks |-> FALSE, snl |-> FALSE, keep |-> FALSE]
AutoBind(x, c, s) == IF x.sk[c][s].addr # NoAddr THEN [w |-> x, res |-> "OK"] ELSE BindR(x, c, s, [t |-> "none"], NoFix)

\* ------------------------------------------------------------------ listen()                    llc.py:794, tco.py listen
ListenR(x, c, s) ==
    LET k == x.sk[c][s] IN
    IF k.kind # "dlc" THEN [w |-> x, res |-> "OpNotSupp"]
    ELSE LET b == AutoBind(x, c, s) IN
         IF b.res # "OK" THEN b
         ELSE IF k.st \in {"shut", "dead"} THEN [w |-> b.w, res |-> "Shutdown"]
         ELSE IF k.st # "open" THEN [w |-> b.w, res |-> "NotSup"]
         ELSE [w |-> [b.w EXCEPT !.sk[c][s].st = "listen"], res |-> "OK"]

\* ------------------------------------------------------------------ connect()                   llc.py:783, tco.py connect, llc.py dispatch/enqueue
\* dst: [t |-> "addr", a |-> addr] | [t |-> "name", n |-> name].  reach: listener (socket id at the peer) that got the CONNECT, 0 = none
FirstWhere(x, c, ids, P(_)) == LET m == SelectSeq(ids, LAMBDA i : P(x.sk[c][i])) IN IF m = <<>> THEN 0 ELSE Head(m)

ConnectR(x, c, s, dst) ==
    LET k == x.sk[c][s]  p == Peer(c) IN
    IF k.kind = "ldl"
    THEN LET b == AutoBind(x, c, s) IN
         IF b.res # "OK" THEN [w |-> b.w, res |-> b.res, reach |-> 0]
         ELSE [w |-> [b.w EXCEPT !.sk[c][s].peer = dst.a], res |-> "OK", reach |-> 0]
    ELSE
    LET b == AutoBind(x, c, s) IN
    IF b.res # "OK" THEN [w |-> b.w, res |-> b.res, reach |-> 0]
    ELSE IF k.st # "open" THEN [w |-> b.w, res |-> IF k.st = "conn" THEN "IsConn" ELSE IF k.st = "connecting" THEN "Already" ELSE "Pipe",
                                 reach |-> 0]
    ELSE LET y == b.w
             me == y.sk[c][s].addr
             \* dispatch(): connect-by-name rewrite through the local name list, no look at who lives there
             a == IF dst.t = "name" THEN y.snl[p][dst.n] ELSE dst.a
         IN IF dst.t = "name" /\ (a = 0 \/ ~Occupied(y, p, a)) THEN [w |-> y, res |-> "Refused", reach |-> 0]      \* DM 02h via SD
            ELSE LET l == FirstWhere(y, p, y.sap[p][a], LAMBDA q : q.st = "listen") IN                            \* SAP.enqueue
                 IF l = 0 THEN [w |-> y, res |-> "Refused", reach |-> 0]                                          \* DM 02h
                 ELSE IF Len(y.sk[p][l].rq) >= Backlog THEN [w |-> y, res |-> "Busy", reach |-> 0]                \* DM 20h
                 ELSE [w |-> [y EXCEPT !.sk[p][l].rq = Append(@, [m |-> s, ssap |-> me, to |-> a, len |-> 0]),
                                       !.sk[c][s].st = "connecting"],
                       res |-> "Pending", reach |-> l]

\* accept() on a listening socket with a pending CONNECT: the new socket shares the listener's address and is
\* put in *front* of the access point's socket list; the CC completes the peer's connect()
AcceptR(x, c, l) ==
    LET k == x.sk[c][l]  p == Peer(c)  req == Head(k.rq)
        n == Len(x.sk[c]) + 1
        \* (ghost) the new socket belongs to the service the access point was bound under
        new == [NewSock("dlc") EXCEPT !.addr = k.addr, !.peer = req.ssap, !.st = "conn", !.origin = "accept", !.name = k.name]
    IN [w |-> [x EXCEPT !.sk[c] = Append([@ EXCEPT ![l].rq = Tail(@)], new),
                        !.sap[c][k.addr] = IF InsertLast /\ Len(@) > 0 THEN SubSeq(@, 1, Len(@) - 1) \o <<n, @[Len(@)]>> ELSE <<n>> \o @,
                        !.sk[p][req.m].st = "conn", !.sk[p][req.m].peer = k.addr],
        res |-> "OK", new |-> n]

\* ------------------------------------------------------------------ sendto() + dispatch at the peer    llc.py:826, tco.py:297, llc.py:115-135
\* got: socket id at the peer whose receive queue took the datagram (0 = nobody); hit: the socket the access point
\* handed the UI PDU to.  A connection-mode socket (listening, connected or not) answers a UI PDU with FRMR and
\* shuts down (tco.py DataLinkConnection.enqueue, "non connection mode pdu") - it stays in its access point
\* n: payload length.  sendto() refuses more than the link MIU the receiver announced (EMSGSIZE, tco.py sendto);
\* the receiving logical data link drops a payload above its own MIU (tco.py LogicalDataLink.enqueue) - which an
\* accepted datagram never is: whatever sendto() accepted is delivered to the socket bound at the destination
SendToR(x, c, s, dst, m, n) ==
    LET k == x.sk[c][s]  p == Peer(c) IN
    LET b == AutoBind(x, c, s) IN
    IF b.res # "OK" THEN [w |-> b.w, res |-> b.res, got |-> 0, hit |-> 0]
    ELSE IF k.st = "shut" THEN [w |-> b.w, res |-> "Shutdown", got |-> 0, hit |-> 0]
    ELSE IF k.peer # NoAddr /\ dst # k.peer THEN [w |-> b.w, res |-> "DestReq", got |-> 0, hit |-> 0]
    ELSE IF n > x.miu[p] THEN [w |-> b.w, res |-> "MsgSize", got |-> 0, hit |-> 0]               \* EMSGSIZE
    ELSE LET y == b.w
             me == y.sk[c][s].addr
             t == IF dst \in {0, 1} THEN 0
                  ELSE FirstWhere(y, p, y.sap[p][dst], LAMBDA q : q.peer = me \/ q.peer = NoAddr)
         IN IF t = 0 THEN [w |-> y, res |-> "OK", got |-> 0, hit |-> 0]
            ELSE IF y.sk[p][t].kind = "dlc"
            THEN [w |-> [y EXCEPT !.sk[p][t].st = "dead", !.sk[p][t].rq = <<>>], res |-> "OK", got |-> 0, hit |-> t]
            ELSE IF Len(y.sk[p][t].rq) >= RecvBuf THEN [w |-> y, res |-> "OK", got |-> 0, hit |-> t]
            ELSE IF y.sk[p][t].kind = "ldl" /\ (IF HdrInMiu THEN n + 2 ELSE n) > x.miu[p]
                 THEN [w |-> y, res |-> "OK", got |-> 0, hit |-> t]                                 \* "exceeds local link MIU"
            ELSE [w |-> [y EXCEPT !.sk[p][t].rq = Append(@, [m |-> m, ssap |-> me, to |-> dst, len |-> n])],
                  res |-> "OK", got |-> t, hit |-> t]

\* recvfrom() with a datagram waiting (the binding never calls it on an empty queue: it would block)    llc.py:854
RecvFromR(x, c, s) ==
    LET k == x.sk[c][s] IN
    IF k.addr = NoAddr \/ ~Occupied(x, c, k.addr) THEN [w |-> x, res |-> "BadF", m |-> 0, ssap |-> 0, len |-> 0]
    ELSE [w |-> [x EXCEPT !.sk[c][s].rq = Tail(@)], res |-> "OK", m |-> Head(k.rq).m, ssap |-> Head(k.rq).ssap,
          len |-> Head(k.rq).len]

\* recv() on a connection-mode socket that is not waiting for data: in CLOSE_WAIT it finds the DISC indication,
\* shuts the socket down (tco.py DataLinkConnection.recv -> self.close()) and returns None - the socket is NOT
\* taken out of its access point by that, only the application's close() does so                    llc.py recv/recvfrom
RecvR(x, c, s) ==
    LET k == x.sk[c][s] IN
    IF k.addr = NoAddr \/ ~Occupied(x, c, k.addr) THEN [w |-> x, res |-> "BadF", m |-> 0]
    ELSE IF k.st = "cw" THEN [w |-> [x EXCEPT !.sk[c][s].st = "dead"], res |-> "EOF", m |-> 0]
    ELSE IF k.st = "conn" THEN [w |-> [x EXCEPT !.sk[c][s].rq = Tail(@)], res |-> "Data", m |-> Head(k.rq).m]   \* data waiting
    ELSE [w |-> x, res |-> "NotConn", m |-> 0]                                              \* ENOTCONN

\* the remote end of connection s reports a protocol error: an FRMR PDU for (s.addr, s.peer) arrives    tco.py:_enqueue_state_established
PeerFrmrR(x, c, s) == [w |-> [x EXCEPT !.sk[c][s].st = "dead", !.sk[c][s].rq = <<>>], res |-> "OK"]

\* ------------------------------------------------------------------ resolve()                   llc.py:175-217
\* the peer answers from its name list only; the answer is cached for the life of the link
ResolveR(x, c, n) ==
    IF x.rsnl[c][n] # NoAddr THEN [w |-> x, res |-> "OK", val |-> x.rsnl[c][n], cached |-> TRUE]
    ELSE LET a == x.snl[Peer(c)][n] IN [w |-> [x EXCEPT !.rsnl[c][n] = a], res |-> "OK", val |-> a, cached |-> FALSE]

\* ------------------------------------------------------------------ close()                     llc.py:873, 87-97, tco.py close
\* a closed socket is inert (every call on it fails); its record is reduced to kind + "shut"
Shut(k) == [NewSock(k.kind) EXCEPT !.st = "shut"]
Drop(x, c, s, fx) ==    \* remove_socket
    LET a == x.sk[c][s].addr
        rest == SelectSeq(x.sap[c][a], LAMBDA i : i # s)
    IN [x EXCEPT !.sk[c][s] = Shut(@),
                 !.sap[c][a] = rest,
                 !.snl[c] = IF fx.snl /\ rest = <<>> THEN [n \in DOMAIN @ |-> IF @[n] = a THEN 0 ELSE @[n]] ELSE @]

CloseR(x, c, s, fx) ==
    LET k == x.sk[c][s]  p == Peer(c) IN
    IF k.addr = NoAddr THEN [w |-> [x EXCEPT !.sk[c][s] = Shut(@)], res |-> "OK"]
    ELSE IF ~Occupied(x, c, k.addr) THEN [w |-> x, res |-> "Crash"]          \* sap[addr] is None: AttributeError
    ELSE IF fx.keep /\ k.st = "dead" THEN [w |-> [x EXCEPT !.sk[c][s] = Shut(@)], res |-> "OK"]   \* (wrong variant) not removed
    ELSE IF k.st = "conn"
    THEN \* DISC to the peer: the connection's other end goes to CLOSE_WAIT and answers DM
         LET t == FirstWhere(x, p, x.sap[p][k.peer], LAMBDA q : q.peer = k.addr \/ q.peer = NoAddr)
             y == IF t # 0 /\ x.sk[p][t].st = "conn" THEN [x EXCEPT !.sk[p][t].st = "cw"] ELSE x
         IN [w |-> Drop(y, c, s, fx), res |-> "OK"]
    ELSE [w |-> Drop(x, c, s, fx), res |-> "OK"]

\* the socket at the peer that the DISC of connection s is handed to (0 = nobody)
OtherEnd(x, c, s) == LET k == x.sk[c][s] IN
                     FirstWhere(x, Peer(c), x.sap[Peer(c)][k.peer], LAMBDA q : q.peer = k.addr \/ q.peer = NoAddr)

\* send() on an established connection: the I PDU is handed to the FIRST socket of the peer's access point whose peer
\* is the sender (or that has none); only a socket in ESTABLISHED state takes it, any other drops it silently
DSendR(x, c, s, m) ==
    LET k == x.sk[c][s]  p == Peer(c)  t == OtherEnd(x, c, s) IN
    IF t # 0 /\ x.sk[p][t].kind = "dlc" /\ x.sk[p][t].st = "conn"
    THEN [w |-> [x EXCEPT !.sk[p][t].rq = Append(@, [m |-> m, ssap |-> k.addr, to |-> k.peer, len |-> 1])], res |-> "OK", got |-> t]
    ELSE [w |-> x, res |-> "OK", got |-> 0]

\* ------------------------------------------------------------------ properties (C17)
Ids(x, c) == 1..Len(x.sk[c])
InList(x, c, a, i) == \E j \in DOMAIN x.sap[c][a] : x.sap[c][a][j] = i

\* a socket sits in at most one access point, and that is the one it names
AllIds(x, c) == FoldLeft(LAMBDA acc, a : acc \o x.sap[c][a], <<>>, [i \in 1..NSap |-> i - 1])
OneAddrPerSocketP(x) == \A c \in Sides :
                            /\ \A a \in Addrs : \A j \in DOMAIN x.sap[c][a] : x.sk[c][x.sap[c][a][j]].addr = a
                            /\ Cardinality({AllIds(x, c)[j] : j \in DOMAIN AllIds(x, c)}) = Len(AllIds(x, c))
\* an address is never handed out twice: live sockets that name the same address all sit in its access point and
\* at most one of them got there by bind() - the others were made by accept() on the listener there
NoDoubleAllocP(x) == \A c \in Sides : \A i \in Ids(x, c) :
                        (Live(x.sk[c][i]) /\ x.sk[c][i].addr # NoAddr) =>
                            /\ InList(x, c, x.sk[c][i].addr, i)
                            /\ \A j \in Ids(x, c) : (j # i /\ Live(x.sk[c][j]) /\ x.sk[c][j].addr = x.sk[c][i].addr)
                                    => (x.sk[c][i].origin = "accept" \/ x.sk[c][j].origin = "accept")
RangesRespectedP(x) == \A c \in Sides : \A i \in Ids(x, c) : LET k == x.sk[c][i] IN
                        (Live(k) /\ k.origin = "bind") =>
                            /\ k.how = "none" => k.addr \in Dyn
                            /\ k.how = "addr" => (k.addr \in Dyn \/ k.kind = "raw")
                            /\ (k.how = "name" /\ k.name = "wk") => k.addr = WksAddr
                            /\ (k.how = "name" /\ k.name # "wk") => k.addr \in Named
\* closing the last socket frees the address; nothing closed stays in the table
FreedOnLastCloseP(x) == \A c \in Sides : \A a \in Addrs \ {0, 1} :
                            /\ \A j \in DOMAIN x.sap[c][a] : Live(x.sk[c][x.sap[c][a][j]])
                            /\ (\A i \in Ids(x, c) : ~(Live(x.sk[c][i]) /\ x.sk[c][i].addr = a)) => x.sap[c][a] = <<>>
\* the addresses of a range are a conserved pool: each is either free or held by a live socket - closing gives it back,
\* nothing is lost however often the range is handed out and returned
HeldIn(x, c, R) == {a \in R : \E i \in Ids(x, c) : Live(x.sk[c][i]) /\ x.sk[c][i].addr = a}
FreeIn(x, c, R) == {a \in R : ~Occupied(x, c, a)}
AddrPoolConservedP(x) == \A c \in Sides : \A R \in {Named, Dyn} :
                            FreeIn(x, c, R) \cap HeldIn(x, c, R) = {} /\ FreeIn(x, c, R) \cup HeldIn(x, c, R) = R
\* every connection-mode PDU reaches the socket of the LIVE connection (addr, peer): in no access point does a socket
\* that is not ESTABLISHED (CLOSE_WAIT, shut down, listening) stand before an ESTABLISHED one it would shadow
LiveFirstP(x) == \A c \in Sides : \A a \in Addrs \ {0, 1} : \A i, j \in DOMAIN x.sap[c][a] :
                    LET u == x.sk[c][x.sap[c][a][i]]  v == x.sk[c][x.sap[c][a][j]] IN
                    ~(i < j /\ u.kind = "dlc" /\ u.st # "conn" /\ v.st = "conn" /\ u.peer \in {NoAddr, v.peer})
\* every datagram waiting at a socket was sent to the address that socket is bound to
DatagramP(x) == \A c \in Sides : \A i \in Ids(x, c) : x.sk[c][i].kind # "dlc" =>
                    \A j \in DOMAIN x.sk[c][i].rq : x.sk[c][i].rq[j].to = x.sk[c][i].addr /\ InList(x, c, x.sk[c][i].addr, i)

BoundUnder(x, c, n) == {i \in Ids(x, c) : Live(x.sk[c][i]) /\ x.sk[c][i].name = n}
\* step properties, on the record of the operation just performed (old world o, new world x)
ResolveRightP(o, l) == (l.op = "Resolve" /\ ~l.cached) =>
                          /\ l.val # 0 => \E i \in BoundUnder(o, Peer(l.c), l.n) : InList(o, Peer(l.c), l.val, i)
                          /\ l.val = 0 => BoundUnder(o, Peer(l.c), l.n) = {}
InUseRightP(o, l) == /\ (l.op = "BindName" /\ l.res = "InUse") => BoundUnder(o, l.c, l.n) # {} \/ (l.n = "wk" /\ Occupied(o, l.c, WksAddr))
                     /\ (l.op = "BindAddr" /\ l.res = "InUse") => Occupied(o, l.c, l.a)
ConnectByNameP(o, l) == (l.op = "ConnectName" /\ l.kind = "dlc") =>
                          /\ l.reach # 0 => (l.reach \in BoundUnder(o, Peer(l.c), l.n) /\ o.sk[Peer(l.c)][l.reach].st = "listen")
                          /\ l.res = "Refused" =>
                                ~\E i \in BoundUnder(o, Peer(l.c), l.n) : o.sk[Peer(l.c)][i].st = "listen"
DatagramStepP(o, x, l) == (l.op = "SendTo" /\ l.got # 0) =>
                            LET p == Peer(l.c)  k == x.sk[p][l.got] IN
                            /\ k.addr = l.dst /\ InList(x, p, l.dst, l.got)
                            /\ k.rq[Len(k.rq)] = [m |-> l.m, ssap |-> x.sk[l.c][l.s].addr, to |-> l.dst, len |-> l.ln]
\* every datagram that sendto() accepted is taken by the socket bound at its destination (when that is a datagram
\* or raw socket with room in its receive buffer) - and, by DatagramStepP, by no other
DeliveredP(o, l) == (l.op = "SendTo" /\ l.res = "OK" /\ l.hit # 0) =>
                        LET k == o.sk[Peer(l.c)][l.hit] IN
                        (k.kind # "dlc" /\ Len(k.rq) < RecvBuf) => l.got = l.hit

OneAddrPerSocket == OneAddrPerSocketP(w)
NoDoubleAlloc == NoDoubleAllocP(w)
RangesRespected == RangesRespectedP(w)
FreedOnLastClose == FreedOnLastCloseP(w)
AddrPoolConserved == AddrPoolConservedP(w)
Datagram == DatagramP(w)
LiveFirst == LiveFirstP(w)
\* the step properties are action properties over (w, w', last'): TLC checks them on every transition, also
\* on those that lead to a world already seen (the VIEW is the world alone)
ResolveRight  == [][ResolveRightP(w, last')]_vars
InUseRight    == [][InUseRightP(w, last')]_vars
ConnectByName == [][ConnectByNameP(w, last')]_vars
DatagramStep  == [][DatagramStepP(w, w', last')]_vars
Delivered     == [][DeliveredP(w, last')]_vars

\* ------------------------------------------------------------------ model-checking actions
World0 == [sk |-> [c \in Sides |-> <<>>],
           sap |-> [c \in Sides |-> [a \in Addrs |-> <<>>]],
           snl |-> [c \in Sides |-> [n \in Names |-> 0]],
           rsnl |-> [c \in Sides |-> [n \in Names |-> NoAddr]],
           miu |-> Miu]
L0 == [op |-> "Init", c |-> "A", s |-> 0, n |-> "", a |-> 0, dst |-> 0, m |-> 0, kind |-> "", res |-> "OK", val |-> 0,
       reach |-> 0, got |-> 0, cached |-> FALSE, ln |-> 0, hit |-> 0]
Rec(op, c, s, o) == [L0 EXCEPT !.op = op, !.c = c, !.s = s,
                               !.kind = IF s \in 1..Len(o.sk[c]) THEN o.sk[c][s].kind ELSE ""]

Init == w = World0 /\ last = L0

Can(c, op) == op \in Roles[c]
Alive(c, s) == Live(w.sk[c][s])

Created(c) == Cardinality({i \in 1..Len(w.sk[c]) : w.sk[c][i].origin # "accept"})
Socket(c, k) ==
    /\ Can(c, "Socket") /\ Len(w.sk[c]) < MaxSock[c]
    /\ KindSeq[c] # <<>> => (Created(c) < Len(KindSeq[c]) /\ k = KindSeq[c][Created(c) + 1])      \* <<>>: any kind
    /\ w' = [w EXCEPT !.sk[c] = Append(@, NewSock(k))]
    /\ last' = [Rec("Socket", c, 0, w) EXCEPT !.kind = k]

Fix == [wks |-> WksCheck, snl |-> SnlClean, keep |-> KeepDead]
BindNone(c, s) ==
    /\ Can(c, "BindNone") /\ Alive(c, s)
    /\ LET r == BindR(w, c, s, [t |-> "none"], NoFix) IN w' = r.w /\ last' = [Rec("BindNone", c, s, w) EXCEPT !.res = r.res]
BindAddr(c, s, a) ==
    /\ Can(c, "BindAddr") /\ Alive(c, s)
    /\ LET r == BindR(w, c, s, [t |-> "addr", a |-> a], NoFix) IN w' = r.w /\ last' = [Rec("BindAddr", c, s, w) EXCEPT !.res = r.res, !.a = a]
BindNameF(c, s, n, fx) ==
    /\ Can(c, "BindName") /\ Alive(c, s)
    /\ LET r == BindR(w, c, s, [t |-> "name", n |-> n], fx) IN w' = r.w /\ last' = [Rec("BindName", c, s, w) EXCEPT !.res = r.res, !.n = n]
BindName(c, s, n) == BindNameF(c, s, n, Fix)
Listen(c, s) ==
    /\ Can(c, "Listen") /\ Alive(c, s) /\ w.sk[c][s].kind = "dlc"
    /\ LET r == ListenR(w, c, s) IN w' = r.w /\ last' = [Rec("Listen", c, s, w) EXCEPT !.res = r.res]
\* connect to an address: never to a free one or to the SD component (nobody answers, connect() blocks for ever)
ConnectAddr(c, s, a) ==
    /\ Can(c, "ConnectAddr") /\ Alive(c, s) /\ w.sk[c][s].kind \in {"ldl", "dlc"} /\ w.sk[c][s].st # "connecting"
    /\ (w.sk[c][s].kind = "dlc" => (a # 1 /\ Occupied(w, Peer(c), a)))
    /\ LET r == ConnectR(w, c, s, [t |-> "addr", a |-> a])
       IN w' = r.w /\ last' = [Rec("ConnectAddr", c, s, w) EXCEPT !.res = r.res, !.a = a, !.reach = r.reach]
ConnectName(c, s, n) ==
    /\ Can(c, "ConnectName") /\ Alive(c, s) /\ w.sk[c][s].kind = "dlc" /\ w.sk[c][s].st # "connecting"
    /\ LET r == ConnectR(w, c, s, [t |-> "name", n |-> n])
       IN w' = r.w /\ last' = [Rec("ConnectName", c, s, w) EXCEPT !.res = r.res, !.n = n, !.reach = r.reach]
Accept(c, s) ==
    /\ Can(c, "Accept") /\ Alive(c, s) /\ w.sk[c][s].st = "listen" /\ w.sk[c][s].rq # <<>>
    /\ Len(w.sk[c]) < MaxSock[c]
    /\ LET r == AcceptR(w, c, s) IN w' = r.w /\ last' = [Rec("Accept", c, s, w) EXCEPT !.res = r.res, !.got = r.new]
\* a datagram may hit a connection-mode socket (which shuts down), but not one whose owner is blocked in connect()
\* and not a listener with unanswered connection requests (their owners would wait for ever)
SendTo(c, s, dst, m, n) ==
    /\ Can(c, "SendTo") /\ Alive(c, s) /\ w.sk[c][s].kind = "ldl"
    /\ LET r == SendToR(w, c, s, dst, m, n)
       IN /\ (r.hit # 0 /\ w.sk[Peer(c)][r.hit].kind = "dlc") =>
                (w.sk[Peer(c)][r.hit].st # "connecting" /\ w.sk[Peer(c)][r.hit].rq = <<>>)
          /\ w' = r.w /\ last' = [Rec("SendTo", c, s, w) EXCEPT !.res = r.res, !.dst = dst, !.m = m, !.got = r.got,
                                                                   !.ln = n, !.hit = r.hit]
\* recv() on a connection-mode socket, never where it would block (connected with nothing to read, connecting)
Recv(c, s) ==
    /\ Can(c, "Recv") /\ Alive(c, s) /\ w.sk[c][s].kind = "dlc" /\ w.sk[c][s].st # "connecting"
    /\ (w.sk[c][s].st = "conn" => w.sk[c][s].rq # <<>>)
    /\ LET r == RecvR(w, c, s) IN w' = r.w /\ last' = [Rec("Recv", c, s, w) EXCEPT !.res = r.res, !.m = r.m]
\* data on an established connection whose other end has read what was sent before (receive window 1)
DSend(c, s, m) ==
    /\ Can(c, "DSend") /\ Alive(c, s) /\ w.sk[c][s].kind = "dlc" /\ w.sk[c][s].st = "conn"
    /\ OtherEnd(w, c, s) # 0 => w.sk[Peer(c)][OtherEnd(w, c, s)].rq = <<>>
    /\ LET r == DSendR(w, c, s, m) IN w' = r.w /\ last' = [Rec("DSend", c, s, w) EXCEPT !.res = r.res, !.m = m, !.got = r.got]
\* an FRMR PDU for an established connection arrives (a protocol error reported by the remote device)
PeerFrmr(c, s) ==
    /\ Can(c, "PeerFrmr") /\ Alive(c, s) /\ w.sk[c][s].kind = "dlc" /\ w.sk[c][s].st = "conn"
    /\ FirstWhere(w, c, w.sap[c][w.sk[c][s].addr], LAMBDA q : q.peer = w.sk[c][s].peer \/ q.peer = NoAddr) = s
    /\ LET r == PeerFrmrR(w, c, s) IN w' = r.w /\ last' = [Rec("PeerFrmr", c, s, w) EXCEPT !.res = r.res]
RecvFrom(c, s) ==
    /\ Can(c, "RecvFrom") /\ Alive(c, s) /\ w.sk[c][s].kind # "dlc"
    /\ (w.sk[c][s].addr # NoAddr /\ Occupied(w, c, w.sk[c][s].addr)) => w.sk[c][s].rq # <<>>
    /\ LET r == RecvFromR(w, c, s)
       IN w' = r.w /\ last' = [Rec("RecvFrom", c, s, w) EXCEPT !.res = r.res, !.m = r.m, !.a = r.ssap, !.ln = r.len]
Resolve(c, n) ==
    /\ Can(c, "Resolve")
    /\ LET r == ResolveR(w, c, n)
       IN w' = r.w /\ last' = [Rec("Resolve", c, 0, w) EXCEPT !.res = r.res, !.val = r.val, !.n = n, !.cached = r.cached]
\* not while the socket's owner is blocked in connect(), not on a listener with unanswered connection requests, and
\* a connection only while its other end is still there to answer the DISC (else close() waits for ever)
CloseF(c, s, fx) ==
    /\ Can(c, "Close") /\ Alive(c, s) /\ w.sk[c][s].st # "connecting"
    /\ ~(w.sk[c][s].st = "listen" /\ w.sk[c][s].rq # <<>>)
    /\ (w.sk[c][s].st = "conn" /\ w.sk[c][s].addr # NoAddr /\ Occupied(w, c, w.sk[c][s].addr)) =>
            (OtherEnd(w, c, s) # 0 /\ w.sk[Peer(c)][OtherEnd(w, c, s)].st = "conn")
    /\ LET r == CloseR(w, c, s, fx) IN w' = r.w /\ last' = [Rec("Close", c, s, w) EXCEPT !.res = r.res]
Close(c, s) == CloseF(c, s, Fix)

Next == \E c \in Sides :
          \/ \E k \in {"ldl", "dlc", "raw"} : Socket(c, k)
          \/ \E s \in 1..Len(w.sk[c]) :
                \/ BindNone(c, s)
                \/ \E a \in BindAddrs : BindAddr(c, s, a)
                \/ \E n \in Names \cup {BadName} : BindName(c, s, n)
                \/ Listen(c, s)
                \/ \E a \in Dsts : ConnectAddr(c, s, a)
                \/ \E n \in Names : ConnectName(c, s, n)
                \/ Accept(c, s)
                \/ \E dst \in Dsts, m \in Msgs, n \in Lens : SendTo(c, s, dst, m, n)
                \/ RecvFrom(c, s)
                \/ Recv(c, s)
                \/ PeerFrmr(c, s)
                \/ \E m \in Msgs : DSend(c, s, m)
                \/ Close(c, s)
          \/ \E n \in Names : Resolve(c, n)

Spec == Init /\ [][Next]_vars
\* `last` only matters for the step it records
View == w

\* ------------------------------------------------------------------ reachability witnesses (must be violated)
W_NamedExhausted == ~(last.op = "BindName" /\ last.res = "Exhausted")
W_DynExhausted   == ~(last.op = "BindNone" /\ last.res = "Exhausted")
W_Shared         == ~(\E c \in Sides : \E a \in Addrs : Len(w.sap[c][a]) >= 2)
W_Delivered      == ~(last.op = "RecvFrom" /\ last.res = "OK")
W_FullSize       == ~(last.op = "RecvFrom" /\ last.res = "OK" /\ last.ln = w.miu[last.c])        \* a payload of exactly the MIU arrived
W_Reconnected    == ~(\E c \in Sides : \E a \in Addrs : \E i, j \in DOMAIN w.sap[c][a] : i < j /\ w.sk[c][w.sap[c][a][i]].st = "conn"
                          /\ w.sk[c][w.sap[c][a][j]].st \in {"cw", "dead"} /\ w.sk[c][w.sap[c][a][i]].peer = w.sk[c][w.sap[c][a][j]].peer)
W_DataAfterReuse == ~(last.op = "Recv" /\ last.res = "Data" /\ \E a \in Addrs : Len(w.sap[last.c][a]) >= 3)
W_TooLong        == ~(last.op = "SendTo" /\ last.res = "MsgSize")
W_Resolved       == ~(last.op = "Resolve" /\ last.val \notin {0, 1})
W_ByName         == ~(last.op = "Accept" /\ w.sk[last.c][last.s].name # "")
W_WksBound       == ~(last.op = "BindName" /\ last.n = "wk" /\ last.res = "OK")
W_Access         == ~(last.op = "BindAddr" /\ last.res = "Access")
\* the life cycle: a socket shut down by the peer's DISC / by FRMR / by a UI PDU is closed, and its address or name re-used
W_DeadByRecv     == ~(last.op = "Recv" /\ last.res = "EOF")
W_DeadByFrmr     == ~(last.op = "PeerFrmr")
W_DeadByUi       == ~(last.op = "SendTo" /\ \E i \in 1..Len(w.sk[Peer(last.c)]) : w.sk[Peer(last.c)][i].st = "dead" /\ w.sk[Peer(last.c)][i].peer = NoAddr)
W_DeadNamed      == ~(\E c \in Sides : \E i \in 1..Len(w.sk[c]) : w.sk[c][i].st = "dead" /\ w.sk[c][i].name # "" /\ w.sk[c][i].origin = "bind")
\* (temporal, must be violated) the dynamic range is exhausted, an address is given back, and it is exhausted again:
\* more allocations than the range has addresses
DynFull == \A a \in Dyn : Occupied(w, "A", a)
NeverDynRefilled == [](DynFull => [](~DynFull => []~DynFull))
NamedFull == \A a \in Named : Occupied(w, "A", a)
NeverNamedRefilled == [](NamedFull => [](~NamedFull => []~NamedFull))
W_RebindAfterDead == ~(last.op = "BindName" /\ last.res = "OK" /\ \E i \in 1..Len(w.sk[last.c]) : i < last.s /\ w.sk[last.c][i].st = "shut" /\ w.sk[last.c][i].kind = "dlc")
=============================================================================
