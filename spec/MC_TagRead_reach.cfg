SPECIFICATION MSpec
CONSTANTS
  Units = {"u1", "u2"}
  Budget = 4
  Lo = 2
  Hi = 6
CHECK_DEADLOCK FALSE
