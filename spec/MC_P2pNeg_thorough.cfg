SPECIFICATION Spec
CONSTANTS
  Kinds <- MC_Thorough
INVARIANT SymmetricInv
INVARIANT RangesInv
INVARIANT AllValid
CHECK_DEADLOCK FALSE
