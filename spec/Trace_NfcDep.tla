------------------------- MODULE Trace_NfcDep -------------------------
(* Trace validation for NfcDep: a recorded conversation of a real nfc.dep.Initiator
   with a real nfc.dep.Target over the simulated air (sim/air.py).  Events:

     Activate(const, ipni)   (the same two objects are activated again, with the parameters of the new session;
                              const = what the objects hold after activate(), read from the objects, and const.e =
                              what this activation established, from the options and the ATR/PSL frames on the air)
     ICall(id, n, D)  TRet(n, sig)  TCall(id, n)  IRet(n, sig)  IErr(kind)  TEnd(kind)  Release(kind)
     Frame(dir, t, pni, mi, did, nad, len, sig, size, fate, heard, post)     fate: deliver | lose | corrupt | t0..t3
                                                                              (truncated to 0..3 octets)

   The spec predicts every frame from the payloads and the fates, so each Frame event
   must equal the spec's `slot` (type, PNI, MI, DID/NAD flags, payload slice by length and
   content signature, LEN byte) and its post-state projection (PNIs, virtual time, error)
   must equal the spec's.  Behavioural mismatch = STUCK (hard).  The C04 invariants are
   evaluated as step post-conditions; the first violation of each invariant is reported
   as <<"STUCK", "<id>#<Invariant>", line, action, <<"inv", <<name>>>>>> and validation goes
   on, so that the verdict of <id> itself says whether the behaviour conforms. *)
EXTENDS NfcDep, Json, IOUtils, TLCExt

VARIABLES tid, l, soft
tvars == <<cf, i, t, slot, pendI, pendT, nI, nT, viol, faults, stepFaults, sess, last, now, tid, l, soft>>

\* constants of the trace configuration (the per-trace configuration comes from the trace itself)
\* (what the objects hold after activation comes from the trace: "freshI" / "freshT" always)
TVs == {s \cup {"freshI", "freshT"} : s \in SUBSET {"ack", "atn", "did0", "ipni0", "tpni0"}}
TNone == {}

Traces == ndJsonDeserialize(IOEnv.TRACE_FILE)
T == Traces[tid].ev
C == Traces[tid].const

\* ---- payload content and its signature (the recorder computes the same in Python)
Byte(d, id, pos) == (id * 37 + pos * 101 + (pos \div 256) * 59 + (IF d = "I" THEN 11 ELSE 73)) % 256
Sig(d, id, off, len) ==
    FoldLeft(LAMBDA acc, k : (acc * 31 + Byte(d, id, off + k - 1) + 1) % 65521, len % 65521, [k \in 1..len |-> k])
Src(fr) == IF fr.dir = "IT" THEN "I" ELSE "T"

AttrsOf(k) == [lrI |-> k.lrI, lrT |-> k.lrT, did |-> k.did, tdid |-> k.tdid, did0 |-> k.did0, nad |-> k.nad, sb |-> k.sb,
               R |-> k.R, tR |-> k.tR, gbI |-> k.gbI, gbT |-> k.gbT]
CfOf(k) == [lrI |-> k.lrI, lrT |-> k.lrT, did |-> k.did, tdid |-> k.tdid, did0 |-> k.did0, nad |-> k.nad, sb |-> k.sb,
            miuI |-> k.miuI, miuT |-> k.miuT, R |-> k.R, tR |-> k.tR, gbI |-> k.gbI, gbT |-> k.gbT,
            e |-> AttrsOf(k.e), prev |-> NoPrev]

TInit ==
    /\ tid \in 1..Len(Traces)
    /\ l = 1
    /\ soft = {}
    /\ InitWith(CfOf(C))

\* the MIUs the two objects hold follow from what the receivers announced (invariant MiuOk); the
\* conversation is validated with the MIUs the objects really hold, so that a wrong MIU shows up as
\* frames that do not fit (FrameFits) exactly at the payload sizes k*miu
\* (the MIUs follow from what THIS activation established, not from what an object may still hold of an earlier session)
ConstOk == cf.miuI > 0 /\ cf.miuT > 0 /\ cf.R > 0 /\ (cf.e.did0 => cf.e.did /\ ~cf.e.tdid) /\ (cf.e.tdid => cf.e.did)
MiuOkP(c0) == /\ c0.miuI = c0.lrT - 3 - B(c0.e.did) - B(c0.e.nad)
              /\ c0.miuT = c0.lrI - 3 - B(c0.e.tdid)

Ev == T[l]
IsEv(a) == l <= Len(T) /\ Ev.a = a /\ l' = l + 1 /\ UNCHANGED tid

\* ---- a recorded frame against the predicted one
Matches(fr, e) ==
    /\ fr # NoFrame
    /\ e.dir = fr.dir /\ e.t = fr.t /\ e.pni = fr.pni /\ e.mi = fr.mi
    /\ e.did = fr.did /\ e.nad = fr.nad /\ e.len = fr.len
    /\ e.size = Size(fr)
    /\ e.sig = (IF fr.len = 0 THEN 0 ELSE Sig(Src(fr), fr.id, fr.off, fr.len))
\* a frame nobody heard (the peer's thread is gone) has the effect of a lost one
Eff(e) == IF ~e.heard /\ e.fate \notin {"lose", "corrupt"} THEN "lose" ELSE e.fate

Stutter == UNCHANGED vars

GICall   == IsEv("ICall") /\ ConstOk /\ Ev.id = nI + 1 /\ ICall(Ev.n, Ev.D)
GFrame   == IsEv("Frame") /\ \E v \in Vs : Matches(Actual(slot, v), Ev) /\ Fate(Actual(slot, v), Eff(Ev), v)
GTRet    == IsEv("TRet") /\ TRet
GTCall   == IsEv("TCall") /\ Ev.id = nT + 1 /\ TCall(Ev.n)
GIRet    == IsEv("IRet") /\ IRet
GIErr    == IsEv("IErr") /\ i.st = "err" /\ Stutter
GRelease == IsEv("Release") /\ Release(Ev.kind)
\* the same two objects are activated again; Ev.ipni is the initiator's PNI right after activate()
GActivate == IsEv("Activate") /\ \E v \in Vs : Reactivate(CfOf(Ev.const), v) /\ i'.pni = Ev.ipni
GTEnd    == IsEv("TEnd") /\ Stutter
            /\ CASE Ev.kind = "none" -> t.st = "none"
                 [] Ev.kind \in {"Protocol", "Transmission"} -> t.st = "err" /\ t.err = Ev.kind
                 [] Ev.kind \in {"BrokenLink", "Timeout"} -> i.st \in {"err", "end", "idle"} /\ t.st \in {"wait", "none"}
                 [] Ev.kind = "NotActivated" -> i.st \in {"err", "end", "idle"} /\ t.ph = "first" /\ t.st \in {"wait", "none"}
                 [] OTHER -> FALSE
Guarded == GICall \/ GFrame \/ GTRet \/ GTCall \/ GIRet \/ GIErr \/ GRelease \/ GTEnd \/ GActivate

\* ---- logged results and post-state
ResOk ==
    CASE Ev.a = "TRet" -> /\ t.st = "ret"
                          /\ LET p == Whole(t.rx) IN Ev.n = p.n /\ Ev.sig = Sig("I", p.id, 0, p.n)
      [] Ev.a = "IRet" -> /\ i.st = "ret"
                          /\ LET p == Whole(i.rx) IN Ev.n = p.n /\ Ev.sig = Sig("T", p.id, 0, p.n)
      [] Ev.a = "IErr" -> Ev.kind = i.err
      [] OTHER -> TRUE
\* (before the first request of a session Target.pni is whatever the previous session or a reset left: not judged here,
\*  its effect is: see TRecv and invariant FirstPni)
Proj == [ipni |-> i'.pni, tpni |-> IF t'.ph = "first" /\ sess' > 1 THEN Ev.post.tpni ELSE t'.pni, ierr |-> i'.st = "err",
         now |-> IF i'.st \in {"rel", "end"} THEN Ev.post.now ELSE now']
PostOk == Ev.a = "Frame" => Proj = Ev.post

InvNames == <<"SessAttr", "FirstPni", "MiuOk", "ExactlyOnce", "Intact", "OnlyCommErr", "FrameFits", "OneFaultOk", "TargetOk", "PniInSync">>
InvP(n) == CASE n = "SessAttr" -> SessAttrP(cf')
             [] n = "FirstPni" -> FirstPniP(t', slot', last')
             [] n = "MiuOk" -> MiuOkP(cf')
             [] n = "ExactlyOnce" -> ExactlyOnceP(viol', pendI', pendT')
             [] n = "Intact" -> IntactP(i', t', pendI', pendT')
             [] n = "OnlyCommErr" -> OnlyCommErrP(i')
             [] n = "FrameFits" -> FrameFitsP(slot', cf')
             [] n = "OneFaultOk" -> OneFaultOkP(i', t', stepFaults', cf')
             [] n = "TargetOk" -> TargetOkP(t')
             [] n = "PniInSync" -> PniInSyncP(i', t')
AllInv == \A k \in DOMAIN InvNames : InvP(InvNames[k])

Conform == Guarded /\ ResOk /\ PostOk
Detail(n) == IF n = "SessAttr" THEN [bad |-> SessAttrBad(cf'), sess |-> sess', prev |-> cf'.prev,
                                     held |-> AttrsOf(cf'), est |-> cf'.e]
             ELSE IF n = "FirstPni" THEN [pni |-> slot'.pni, last |-> last', sess |-> sess']
             ELSE IF n = "MiuOk" THEN [miuI |-> cf'.miuI, expI |-> cf'.lrT - 3 - B(cf'.e.did) - B(cf'.e.nad),
                                   miuT |-> cf'.miuT, expT |-> cf'.lrI - 3 - B(cf'.e.tdid)]
             ELSE IF n = "FrameFits" THEN [dir |-> slot'.dir, t |-> slot'.t, did |-> slot'.did, size |-> Size(slot')]
             ELSE IF n = "OneFaultOk" THEN [mode |-> i'.mode, ph |-> i'.ph, err |-> i'.err, stepFaults |-> stepFaults']
             ELSE [st |-> <<i'.st, t'.st>>]

\* a step of the real execution that the spec can take; invariants violated by it for the first time are
\* reported under the id "<trace>#<Invariant>" and validation goes on
Real == /\ Conform
        /\ LET bad == {k \in DOMAIN InvNames : InvNames[k] \notin soft /\ ~InvP(InvNames[k])} IN
           /\ soft' = soft \cup {InvNames[k] : k \in bad}
           /\ \A k \in bad : PrintT(<<"STUCK", Traces[tid].id \o "#" \o InvNames[k], l, Ev.a,
                                      <<"inv", <<InvNames[k]>>, Detail(InvNames[k])>>>>)

\* ---- diagnosis of a behavioural mismatch
FProj(fr) == [dir |-> fr.dir, t |-> fr.t, pni |-> fr.pni, mi |-> fr.mi, did |-> fr.did, nad |-> fr.nad,
              len |-> fr.len, size |-> Size(fr),
              sig |-> IF fr.len = 0 \/ fr = NoFrame THEN 0 ELSE Sig(Src(fr), fr.id, fr.off, fr.len)]
ExpPost(v) == LET o == Outcome(Actual(slot, v), Eff(Ev), v) IN
              [ipni |-> o.i.pni, tpni |-> o.t.pni, ierr |-> o.i.st = "err", now |-> now + o.cost]
Why == IF ~ENABLED Guarded
       THEN <<"guard", IF Ev.a = "Frame" THEN FProj(slot) ELSE <<i.st, t.st, nI, nT>>>>
       ELSE IF ~ENABLED (Guarded /\ ResOk)
       THEN <<"result", IF Ev.a = "IErr" THEN <<i.err>>
                        ELSE IF Ev.a = "TRet" THEN <<Whole(t.rx)>>
                        ELSE IF Ev.a = "IRet" THEN <<Whole(i.rx)>> ELSE <<>> >>
       ELSE <<"post", {ExpPost(v) : v \in Vs}>>

Stuck ==
    /\ l <= Len(T)
    /\ ~ENABLED Conform
    /\ PrintT(<<"STUCK", Traces[tid].id, l, Ev.a, Why>>)
    /\ l' = Len(T) + 2
    /\ UNCHANGED <<cf, i, t, slot, pendI, pendT, nI, nT, viol, faults, stepFaults, sess, last, now, tid, soft>>

TNext == Real \/ Stuck
TSpec == TInit /\ [][TNext]_tvars

Done == (l = Len(T) + 1) => PrintT(<<"ACCEPT", Traces[tid].id>>)
=============================================================================
