SPECIFICATION Spec
CONSTANTS
  MaxLenEmpty = 7
  MaxLenSeed = 11
  Alphabet = {0, 255, 2, 254, 213, 67, 232, 3}
  Code = 66
  LongN = 300
INVARIANT Equiv
INVARIANT ValidImpliesPayload
INVARIANT Disc
CHECK_DEADLOCK FALSE
