SPECIFICATION Spec
CONSTANTS
  MaxSent = 0
  Kinds <- MC_Quick
INVARIANT SymmetricInv
INVARIANT RangesInv
INVARIANT AllValid
INVARIANT Obey
INVARIANT LimitsSane
CHECK_DEADLOCK FALSE
