SPECIFICATION Spec
CONSTANTS
  MaxSent = 0
  MaxConn = 0
  MiuClasses <- MC_NoClasses
  RwVals <- MC_NoClasses
  Kinds <- MC_Quick
INVARIANT SymmetricInv
INVARIANT RangesInv
INVARIANT AllValid
INVARIANT Obey
INVARIANT LimitsSane
CHECK_DEADLOCK FALSE
