SPECIFICATION Spec
CONSTANTS
  Mode = "pdu"
  Saps = {0, 1, 4, 32, 63}
  Seqn = {0, 1, 15}
  Miuxs = {0, 1, 2047}
  Rws = {0, 1, 2, 3, 4, 5, 6, 7, 8, 9, 10, 11, 12, 13, 14, 15}
  Sym = {0, 65, 255}
  MemSapCodes = {96, 4032}
  FrmrSapCodes = {0, 4095}
  Alpha = {0}
INVARIANT RoundTrip
INVARIANT LenAgrees
INVARIANT NormIdem
INVARIANT LooseSame
INVARIANT NoNestSame
CHECK_DEADLOCK FALSE
