SPECIFICATION Spec
CONSTANTS
  Cfgs <- MC_CfgsSess
  Lens <- MC_LensS
  Ds <- MC_DsS
  MaxEx = 3
  MaxFaults = 0
  MaxStepFaults = 2
  Vs <- MC_VsFixed
  WithRelease = TRUE
  WithTrunc = FALSE
  MaxSess = 2
VIEW View
CHECK_DEADLOCK FALSE
