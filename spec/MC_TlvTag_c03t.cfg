SPECIFICATION Spec
CONSTANTS
  LongLen = 5
  Layouts <- MCLayouts
  BaseLens = {0, 1, 4, 5, 6, 9}
  Wipes = {256, 0, 119}
  Variants = {"asis", "fixed"}
  Cuts = FALSE
  SectorSize = 32
  MaxFaults = 1
  MaxRetry = 0
  Session = FALSE
  Kinds = {"T2", "T1S", "T1D", "T512"}
  Sizes = {1, 2, 3, 5}
  Pads = {0, 1, 2, 3}
  Props = {0, 77, 113}
  CtlFroms = {2, 3, 4, 5, 6, 8, 11, 16, 22, 26, 30, 38}
  MemSizes = {1, 2, 3, 0}
  LockBits = {1, 7, 9, 12, 17, 0}
  CtlTypes = {1, 2}
  TwoCtl = TRUE
  OldLens = {1, 5}
INVARIANT FxConfined
INVARIANT ConfinedButFormat
INVARIANT FxUnitsInArea
INVARIANT UnitsButFormat
INVARIANT LockOneWay
INVARIANT CoherentButFormat
INVARIANT SectorSync
CHECK_DEADLOCK FALSE
