SPECIFICATION Spec
CONSTANTS
  LongLen = 5
  Layouts <- MCLayouts
  BaseLens = {0, 1, 4, 5, 6, 9}
  Wipes = {256, 0, 119}
  Variants = {"asis", "fixed"}
  Cuts = FALSE
  Kinds = {"T2", "T1S", "T1D", "T512"}
  Sizes = {3, 4, 5}
  Pads = {0, 1, 2, 3}
  Props = {0, 77}
  CtlFroms = {2, 3, 4, 5, 6, 7, 8, 9, 10, 11, 12, 13, 14, 15, 16, 17, 18, 19, 20, 21, 22, 23, 24, 25, 26, 27, 28, 29, 30, 31, 32, 33, 34, 35, 36, 37, 38, 39}
  CtlSizes = {1, 2, 3, 5}
  CtlTypes = {1, 2}
  TwoCtl = TRUE
  OldLens = {0, 1, 5, 9}
INVARIANT FxConfined
INVARIANT ConfinedButFormat
INVARIANT FxUnitsInArea
INVARIANT UnitsButFormat
INVARIANT LockOneWay
CHECK_DEADLOCK FALSE
