SPECIFICATION Spec
CONSTANTS
  Threads = {"r1", "r2", "r3", "r4"}
  Names = {"n1", "n2", "n3"}
  PeerSnl <- Peer3
  NameLen <- Len3
  SendMiu = 12
  PopHead = FALSE
  MaxCalls = 1
  WakeCheck = TRUE
INVARIANT ResolveReturns
INVARIANT NoLostWakeup
INVARIANT RequestOut
INVARIANT Recorded
INVARIANT SnlFits
CHECK_DEADLOCK FALSE
