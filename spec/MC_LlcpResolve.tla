------------------------- MODULE MC_LlcpResolve -------------------------
(* Model-checking wrapper of LlcpResolve: the peer's name table (a function cannot be written in a .cfg). *)
EXTENDS LlcpResolve
Peer3 == [n \in {"n1", "n2", "n3"} |-> CASE n = "n1" -> 16 [] n = "n2" -> 17 [] OTHER -> 0]
=============================================================================
