------------------------- MODULE MC_LlcpResolve -------------------------
(* Model-checking wrapper of LlcpResolve: the peer's name table (a function cannot be written in a .cfg). *)
EXTENDS LlcpResolve
Peer3 == [n \in {"n1", "n2", "n3"} |-> CASE n = "n1" -> 16 [] n = "n2" -> 17 [] OTHER -> 0]
\* names of 5, 5 and 1 octets against an SNL budget of 12: one 5-octet name fits with the 1-octet name, not with the other
\* the transaction ids are interchangeable (random.choice): model values under symmetry
TidSym == Permutations(Tids)
Len3 == [n \in {"n1", "n2", "n3"} |-> IF n = "n3" THEN 1 ELSE 5]
=============================================================================
