------------------------------ MODULE NfcDep ------------------------------
(* NFC-DEP data exchange between one Initiator and one Target over a half-duplex air
   interface that may lose or corrupt any frame.  Written to be bound to nfc/dep.py:

     ICall / IRet            Initiator.exchange()                      dep.py:199-276
     ITimeout/ITransErr/IRecv  Initiator.send_dep_req_recv_dep_res()   dep.py:278-354
                             (request_attention, request_retransmission, deadline)
     TRecv / TRet / TCall    Target.exchange(), send_dep_res_recv_dep_req()   dep.py:511-609
     Fate                    one frame crosses the air: deliver / lose / corrupt
     Release                 Initiator.deactivate()  (RLS_REQ / DSL_REQ)      dep.py:186-197

   The applications alternate as LLCP does: ICall(p) TRet(p) TCall(q) IRet(q) ...
   A payload is [id, n] (n bytes); a frame carries the slice [id, off, len] of it, so
   "intact" is "the slices returned are exactly the payload, in order".

   Time is counted in ticks: the response waiting time is cf.R ticks, exchange() is
   called with a timeout of D ticks, `rem` is what is left until the deadline of the
   current send_dep_req_recv_dep_res() call.  Only a lost frame costs time (the
   timeout asked for); computing and delivered/corrupted frames are instantaneous.
   The target's own deadline is assumed not to expire during the conversation.

   The spec models the code.  At four places the code violates (or violated) the property
   (C04 findings); there the spec admits the defective behaviour *and* the repaired one,
   selected by the variant set v \in Vs, and the property invariants flag the former:
     "ack"  request_retransmission() accepts the retransmitted ACK while the
            initiator is chaining       (defect fixed in /repo a92f998; dep.py request_retransmission)
     "atn"  the ATN request carries the DID when one is in use
                                        (defect fixed in /repo 9605e14; dep.py ATN())
     "miu"  (configuration, cf.miuT) the target's MIU accounts for the DID byte
                                        (defect fixed in /repo ea8695e; invariant MiuOk of Trace_NfcDep)
     "did0" did=0 (open): the initiator announces "no DID" in the ATR_REQ but still sends a DID
            byte 0 in every PDU (`self.did is not None`); the target holds did=None and its DID
            filter ignores everything.  Variant "did0": the target treats DID 0 as "no DID".
     "ipni0"/"tpni0"  re-activation of the same objects, see Reactivate (target side: open finding)
     "freshI"/"freshT"  every attribute the Initiator / Target object keeps is assigned by activate() from the
            parameters of THIS activation (as is: yes).  Without it the optional attributes (DID, NAD, general
            bytes) are assigned only when the new session has them, so what the previous session of the same
            object left behind survives ("if atr_req.did > 0: self.did = ..."); see Established, invariant SessAttr
   The defective branches of "ack", "atn" and "miu" CAN NOW GO (the fixes are in /repo); they
   are kept only so that a regression is reported by OneFaultOk / MiuOk / FrameFits under the
   canonical key of the original finding instead of a bare conformance mismatch.
*)
EXTENDS Naturals, Sequences, SequencesExt, FiniteSets, TLC

CONSTANTS Cfgs,           \* session configurations to explore: what the two objects HOLD after activate()
                          \*   [lrI, lrT, did, tdid, did0, nad, sb, miuI, miuT, R, tR, gbI, gbT] plus
                          \*   e: what this activation ESTABLISHED (parameters of activate() and the ATR/PSL frames), same
                          \*      fields without the MIUs;  prev: the optional attributes of the previous session
                          \*   sb: 106A framing (start byte F0h in front of the length byte)
                          \*   did: the initiator sends a DID byte; tdid: the target holds a DID (ATR DID > 0);
                          \*   did0: the DID value is 0 (did /\ ~tdid);  nad: the initiator sends a NAD byte
                          \*   R / tR: response waiting time the initiator / the target holds (ticks)
                          \*   gbI / gbT: general bytes the target got from the initiator / the initiator from the target
                          \*              (0: none, otherwise a token for the content)
          Lens,           \* payload lengths (bytes) the applications choose from
          Ds,             \* exchange() timeouts in ticks the initiator application chooses from
          MaxEx,          \* exchanges per conversation                     (model checking bound)
          MaxFaults,      \* faulted frames per conversation                (model checking bound)
          MaxStepFaults,  \* faulted frames per protocol step               (model checking bound)
          Vs,             \* admitted variant sets, e.g. {{}} = code as is, {{"ack","atn"}} = repaired
          WithRelease,    \* explore deactivate()
          WithTrunc,      \* explore frames truncated to 0..3 octets                          (model checking)
          MaxSess         \* activations of the same two objects                           (model checking bound)

VARIABLES cf,             \* session configuration: per-session state of the two objects, (re)assigned by activation
          i,              \* initiator
          t,              \* target
          slot,           \* frame on the air (NoFrame: nobody sends)
          pendI, pendT,   \* payloads handed to exchange() and not yet returned by the peer
          nI, nT,         \* payloads handed to Initiator.exchange / Target.exchange so far
          viol,           \* delivery violations observed (history)
          faults, stepFaults,
          sess,           \* number of the session (activation) the two objects are in
          last,           \* what the target did with the last frame it heard (for witnesses)
          now             \* ticks elapsed (history; compared with the virtual clock in trace validation)

vars == <<cf, i, t, slot, pendI, pendT, nI, nT, viol, faults, stepFaults, sess, last, now>>

B(b) == IF b THEN 1 ELSE 0
Min2(a, b) == IF a < b THEN a ELSE b
NoPni == 4

NoFrame == [dir |-> "-", t |-> "-", pni |-> 0, mi |-> FALSE, did |-> FALSE, nad |-> FALSE,
            id |-> 0, off |-> 0, len |-> 0]
Fr(dir, ty, pni, mi, did, nad, id, off, len) ==
    [dir |-> dir, t |-> ty, pni |-> pni, mi |-> mi, did |-> did, nad |-> nad, id |-> id, off |-> off, len |-> len]

\* transport data bytes of a frame (what LR bounds): CMD0 CMD1 PFB [DID] [NAD] data  /  CMD0 CMD1 [DID]
Size(f) == IF f.t \in {"RLS", "DSL"} THEN 2 + B(f.did) ELSE 3 + B(f.did) + B(f.nad) + f.len

Slice(f) == [id |-> f.id, off |-> f.off, len |-> f.len]
\* the payload a list of slices amounts to; Garbled if they are not one payload in order
Garbled == [id |-> 0, n |-> 0]
Whole(sl) ==
    LET r == FoldLeft(LAMBDA acc, s : IF acc.ok /\ (s.len = 0 \/ (s.off = acc.n /\ (acc.id = 0 \/ s.id = acc.id)))
                                      THEN [ok |-> TRUE, id |-> IF s.len = 0 THEN acc.id ELSE s.id, n |-> acc.n + s.len]
                                      ELSE [ok |-> FALSE, id |-> 0, n |-> 0],
                      [ok |-> TRUE, id |-> 0, n |-> 0], sl)
    IN IF r.ok /\ r.n > 0 THEN [id |-> r.id, n |-> r.n] ELSE Garbled

\* ------------------------------------------------------------------ initiator (dep.py:199-354)
IChunk(x, c) == Min2(c.miuI, x.n - x.off)
IMore(x, c) == x.off + IChunk(x, c) < x.n

IReq(x, c) == IF x.ph = "tx"
              THEN Fr("IT", "INF", x.pni, IMore(x, c), c.did, c.nad, x.id, x.off, IChunk(x, c))
              ELSE Fr("IT", "ACK", x.pni, FALSE, c.did, c.nad, 0, 0, 0)
IAtn == Fr("IT", "ATN", 0, FALSE, FALSE, FALSE, 0, 0, 0)        \* canonical; see Actual()
INak(x, c) == Fr("IT", "NAK", x.pni, FALSE, c.did, c.nad, 0, 0, 0)
ICur(x, c) == CASE x.st = "rel" -> Fr("IT", x.rel, 0, FALSE, c.did, FALSE, 0, 0, 0)
                   [] x.st # "busy" -> NoFrame
                   [] x.mode = "req" -> IReq(x, c)
                   [] x.mode = "atn" -> IAtn
                   [] OTHER -> INak(x, c)

IErr(x, kind) == [x EXCEPT !.st = "err", !.err = kind]
\* a new send_dep_req_recv_dep_res() call: fresh deadline, fresh retry counters
INewCall(x) == [x EXCEPT !.mode = "req", !.try = 0, !.rem = x.D, !.fresh = TRUE]

\* nothing was received within the timeout min(rwt, deadline - now)
ITimeout(x, c) ==
    LET rem1 == x.rem - Min2(c.R, x.rem) IN
    IF x.mode = "req"
    THEN IF rem1 = 0 THEN IErr([x EXCEPT !.rem = 0], "Timeout")               \* dep.py:293-295
         ELSE [x EXCEPT !.mode = "atn", !.try = 0, !.rem = rem1]
    ELSE IF x.try + 1 >= 2 THEN IErr([x EXCEPT !.rem = rem1], "Protocol")      \* dep.py:307 / 328
    ELSE IF rem1 = 0 THEN IErr([x EXCEPT !.rem = 0], "Timeout")
    ELSE [x EXCEPT !.try = x.try + 1, !.rem = rem1]

\* the driver reported a transmission error (no time passes)
ITransErr(x) ==
    IF x.mode = "req" THEN [x EXCEPT !.mode = "nak", !.try = 0]                 \* dep.py:346-348
    ELSE IF x.try + 1 >= 2 THEN IErr(x, "Protocol")
    ELSE [x EXCEPT !.try = x.try + 1]

\* exchange() got the response `f` to its current request             dep.py:225-273
IGotRes(x, f, c) ==
    IF f.t \notin {"INF", "ACK"} THEN IErr(x, "Protocol")
    ELSE IF x.ph = "tx"
    THEN IF f.t = "ACK" /\ ~IMore(x, c) THEN IErr(x, "Protocol")               \* unexpected ACK
         ELSE IF f.pni # x.pni THEN IErr(x, "Protocol")                          \* wrong packet number
         ELSE IF IMore(x, c)
              THEN INewCall([x EXCEPT !.pni = (x.pni + 1) % 4, !.off = x.off + IChunk(x, c)])
              ELSE IF f.t # "INF" THEN IErr([x EXCEPT !.pni = (x.pni + 1) % 4], "Protocol")
              ELSE LET y == [x EXCEPT !.pni = (x.pni + 1) % 4, !.off = x.n, !.rx = <<Slice(f)>>] IN
                   IF f.mi THEN INewCall([y EXCEPT !.ph = "rx"]) ELSE [y EXCEPT !.st = "ret"]
    ELSE IF f.t # "INF" THEN IErr(x, "Protocol")                                 \* chaining not continued
         ELSE IF f.pni # x.pni THEN IErr(x, "Protocol")
         ELSE LET y == [x EXCEPT !.pni = (x.pni + 1) % 4, !.rx = Append(x.rx, Slice(f))] IN
              IF f.mi THEN INewCall(y) ELSE [y EXCEPT !.st = "ret"]

\* a frame `f` was delivered to the initiator
IRecv(x, f, c, v) ==
    CASE x.st = "rel" -> [x EXCEPT !.st = "end"]
      [] x.mode = "atn" -> IF f.t = "ATN" THEN [x EXCEPT !.mode = "req", !.try = 0]   \* resend the request
                           ELSE IErr(x, "Protocol")
      [] x.mode = "nak" -> IF f.t = "INF" THEN IGotRes(x, f, c)
                           ELSE IF f.t = "ACK" /\ "ack" \in v /\ x.ph = "tx" /\ IMore(x, c) THEN IGotRes(x, f, c)
                           ELSE IErr(x, "Protocol")                               \* dep.py:323-326
      [] OTHER -> IGotRes(x, f, c)

\* ------------------------------------------------------------------ target (dep.py:511-609)
TMore(y, c) == y.n - y.off > c.miuT
TInf(y, c) == Fr("TI", "INF", y.pni, TMore(y, c), y.did, FALSE, y.id, y.off, Min2(c.miuT, y.n - y.off))
TErr(y) == [y EXCEPT !.st = "err", !.err = "Protocol"]

\* the receive part of exchange(): req is the newest request                    dep.py:551-563
TRx(y, f) ==
    IF f.t = "INF" /\ f.mi
    THEN LET ack == Fr("TI", "ACK", y.pni, FALSE, y.did, FALSE, 0, 0, 0) IN
         [t |-> [y EXCEPT !.rx = Append(y.rx, Slice(f)), !.ph = "rx", !.res = ack], out |-> ack]
    ELSE [t |-> [y EXCEPT !.rx = Append(y.rx, IF f.t = "INF" THEN Slice(f) ELSE [id |-> 0, off |-> 0, len |-> 0]),
                          !.st = "ret"],
          out |-> NoFrame]

\* send_dep_res_recv_dep_req() returned the new request f to exchange()
TNewReq(y, f, c) ==
    CASE y.ph = "first" -> TRx([y EXCEPT !.pni = 0], f)                          \* dep.py:531-532
      [] y.ph = "tx" ->
           IF TMore(y, c) /\ f.t # "ACK" THEN [t |-> TErr(y), out |-> NoFrame]     \* expected ACK
           ELSE LET y1 == [y EXCEPT !.pni = (y.pni + 1) % 4] IN
                IF f.pni # y1.pni THEN [t |-> TErr(y1), out |-> NoFrame]          \* wrong packet number
                ELSE IF TMore(y, c)
                     THEN LET y2 == [y1 EXCEPT !.off = y.off + c.miuT] IN
                          [t |-> [y2 EXCEPT !.res = TInf(y2, c)], out |-> TInf(y2, c)]
                     ELSE TRx([y1 EXCEPT !.off = y.n], f)
      [] OTHER ->                                                               \* "rx": after an ACK
           LET y1 == [y EXCEPT !.pni = (y.pni + 1) % 4] IN
           IF f.pni # y1.pni THEN [t |-> TErr(y1), out |-> NoFrame] ELSE TRx(y1, f)

\* a frame f was delivered to the target waiting in send_dep_res_recv_dep_req()  dep.py:576-609
\* result: new target state, response frame (NoFrame: silence), what it did
TRecv(y, f, c, v) ==
    CASE f.did # y.did /\ ~(c.did0 /\ "did0" \in v) ->
           [t |-> y, out |-> NoFrame, did |-> "ignored"]                          \* DID filter (dep.py:588)
      [] f.t \in {"RLS", "DSL"} ->
           [t |-> [y EXCEPT !.st = "none"],
            out |-> Fr("TI", f.t, 0, FALSE, y.did, FALSE, 0, 0, 0), did |-> "release"]
      [] f.t = "ATN" -> [t |-> y, out |-> Fr("TI", "ATN", 0, FALSE, y.did, FALSE, 0, 0, 0), did |-> "atn"]
      [] f.t = "NAK" -> [t |-> y, out |-> y.res, did |-> "nak"]
      \* a request with the PNI of the previous one is a retransmission.  Before the first request of a
      \* session self.pni is what the previous session left (variant "tpni0": activate() resets it)
      [] f.pni = (IF y.ph = "first" /\ "tpni0" \notin v THEN y.stale ELSE y.pni) ->
           [t |-> y, out |-> y.res, did |-> "dup"]
      [] OTHER -> LET r == TNewReq(y, f, c) IN [t |-> r.t, out |-> r.out, did |-> "new"]

\* ------------------------------------------------------------------ initial state
I0 == [st |-> "idle", pni |-> 0, id |-> 0, n |-> 0, off |-> 0, ph |-> "tx", mode |-> "req", try |-> 0,
       rem |-> 0, D |-> 0, rx |-> <<>>, err |-> "", rel |-> "RLS", fresh |-> FALSE]
T0(c) == [st |-> "wait", pni |-> NoPni, res |-> NoFrame, ph |-> "first", id |-> 0, n |-> 0, off |-> 0,
          rx |-> <<>>, did |-> c.tdid, stale |-> NoPni, err |-> "", cause |-> ""]

InitWith(c) ==
    /\ cf = c
    /\ i = I0 /\ t = T0(c) /\ slot = NoFrame
    /\ pendI = <<>> /\ pendT = <<>> /\ nI = 0 /\ nT = 0 /\ viol = {}
    /\ faults = 0 /\ stepFaults = 0 /\ last = "-" /\ now = 0 /\ sess = 1

Init == \E c \in Cfgs : InitWith(c)

\* ------------------------------------------------------------------ actions
\* Initiator.exchange(payload of n bytes, timeout of D ticks)
ICall(n, D) ==
    /\ i.st = "idle" /\ t.st = "wait" /\ slot = NoFrame
    /\ nI < MaxEx
    /\ LET x == [INewCall([i EXCEPT !.st = "busy", !.id = nI + 1, !.n = n, !.off = 0, !.ph = "tx", !.D = D,
                                    !.rx = <<>>]) EXCEPT !.fresh = FALSE] IN
       /\ i' = x
       /\ slot' = ICur(x, cf)
    /\ pendI' = Append(pendI, [id |-> nI + 1, n |-> n])
    /\ nI' = nI + 1
    /\ stepFaults' = 0
    /\ UNCHANGED <<sess, cf, t, pendT, nT, viol, faults, last, now>>

\* What happens when frame fr crosses the air with fate f: the receiver's reaction, and the
\* initiator's if nothing comes back.  Result [i, t, last, cost]; the next frame on the air follows
\* from the new states (NextSlot).
Silence(x) == IF x.st = "rel" THEN [x EXCEPT !.st = "end"] ELSE ITimeout(x, cf)
Cost(x) == IF x.st = "rel" THEN 0 ELSE Min2(cf.R, x.rem)
\* ---- truncated frames: the driver hands over only the first k octets of [F0] LEN CMD0 CMD1 PFB ... without
\* reporting an error.  decode_frame() (dep.py) answers "too short" (fewer than 2 octets at 106A, than 1 otherwise)
\* with TransmissionError, anything longer fails the length byte test: ProtocolError.
Truncs == {"t0", "t1", "t2", "t3"}
CutAt(f) == CASE f = "t0" -> 0 [] f = "t1" -> 1 [] f = "t2" -> 2 [] OTHER -> 3
AirLen(fr, c) == Size(fr) + 1 + B(c.sb)
MinLen(c) == IF c.sb THEN 2 ELSE 1
\* a cut behind the end of the frame is no cut
Norm(fr, f) == IF f \in Truncs /\ CutAt(f) >= AirLen(fr, cf) THEN "deliver" ELSE f
\* how much of a fault it is: a lost or corrupted frame and a cut that the receiver reports as a transmission error
\* count once (the protocol recovers from one per step); a short frame that passes for a frame with a wrong length
\* byte is a protocol error by design (tests/test_dep.py pins it) and a short or empty frame at the target ends
\* its exchange(): these are not "a lost or corrupted frame" and count twice
Weight(fr, f) ==
    CASE Norm(fr, f) = "deliver" -> 0
      [] Norm(fr, f) \in {"lose", "corrupt"} -> 1
      [] fr.dir = "TI" /\ (CutAt(f) < MinLen(cf) \/ i.mode # "req" \/ i.st = "rel") -> 1
      [] OTHER -> 2

Outcome(fr, f0, v) ==
    LET f == Norm(fr, f0) IN
    IF fr.dir = "IT"
    THEN IF f = "deliver" /\ t.st = "wait"
         THEN LET r == TRecv(t, fr, cf, v) IN
              IF r.out # NoFrame \/ r.t.st = "ret"
              THEN [i |-> i, t |-> r.t, out |-> r.out, last |-> r.did, cost |-> 0, quiet |-> TRUE]
              ELSE [i |-> Silence(i), t |-> r.t, out |-> NoFrame, last |-> r.did, cost |-> Cost(i), quiet |-> FALSE]
         ELSE IF f \in Truncs /\ t.st = "wait"
         THEN \* Target.send_res_recv_req(): an empty frame reads as "no frame" and exchange() returns None; a short
              \* one makes decode_frame() raise out of exchange() (it is called outside the try block)
              LET y == IF CutAt(f) = 0 THEN [t EXCEPT !.st = "none"]
                       ELSE [t EXCEPT !.st = "err", !.cause = "trunc",
                                      !.err = IF CutAt(f) < MinLen(cf) THEN "Transmission" ELSE "Protocol"] IN
              [i |-> Silence(i), t |-> y, out |-> NoFrame, last |-> "cut", cost |-> Cost(i), quiet |-> FALSE]
         ELSE \* lost, corrupted (the target stays silent, dep.py:625-632) or nobody listens any more
              [i |-> Silence(i), t |-> t, out |-> NoFrame, last |-> IF f = "deliver" THEN "gone" ELSE "-",
               cost |-> Cost(i), quiet |-> FALSE]
    ELSE LET x == CASE i.st = "rel" -> [i EXCEPT !.st = "end"]
                    [] f = "deliver" -> IRecv(i, fr, cf, v)
                    [] f = "lose" -> ITimeout(i, cf)
                    [] f = "corrupt" -> ITransErr(i)
                    \* send_dep_req_recv_dep_res() recovers from TransmissionError only; inside the ATN / NAK
                    \* retries any CommunicationError just uses up a retry
                    [] CutAt(f) < MinLen(cf) \/ i.mode # "req" -> ITransErr(i)
                    [] OTHER -> IErr(i, "Protocol") IN
         [i |-> x, t |-> t, out |-> NoFrame, last |-> "-",
          cost |-> IF f = "lose" THEN Cost(i) ELSE 0, quiet |-> FALSE]

Fate(fr, f, v) ==
    /\ slot # NoFrame
    /\ LET o == Outcome(fr, f, v)
           nf == Weight(fr, f) IN
       /\ i' = [o.i EXCEPT !.fresh = FALSE]
       /\ t' = o.t
       /\ slot' = IF o.quiet THEN o.out ELSE ICur(o.i, cf)      \* quiet: the target answers or is with its application
       /\ last' = o.last
       /\ now' = now + o.cost
       /\ faults' = faults + nf
       /\ stepFaults' = IF o.i.fresh THEN 0 ELSE stepFaults + nf
    /\ UNCHANGED <<sess, cf, pendI, pendT, nI, nT, viol>>

\* the frame the implementation puts on the air for the predicted frame `fr`: the same, except that
\* the ATN request of an initiator using a DID carries the DID only in variant "atn"
Actual(fr, v) == IF fr.dir = "IT" /\ fr.t = "ATN" THEN [fr EXCEPT !.did = (cf.did /\ "atn" \in v)] ELSE fr

\* Target.exchange() returns the payload it assembled
Deliver(pend, p) == IF pend # <<>> /\ p = Head(pend) /\ p # Garbled THEN Tail(pend) ELSE pend
DeliverBad(pend, p) == ~(pend # <<>> /\ p = Head(pend) /\ p # Garbled)
TRet ==
    /\ t.st = "ret"
    /\ LET p == Whole(t.rx) IN
       /\ pendI' = Deliver(pendI, p)
       /\ viol' = IF DeliverBad(pendI, p) THEN viol \cup {"TRet"} ELSE viol
    /\ t' = [t EXCEPT !.st = "app", !.rx = <<>>]
    /\ UNCHANGED <<sess, cf, i, slot, pendT, nI, nT, faults, stepFaults, last, now>>

\* Target.exchange(payload of n bytes)
TCall(n) ==
    /\ t.st = "app"
    /\ LET y == [t EXCEPT !.st = "wait", !.ph = "tx", !.id = nT + 1, !.n = n, !.off = 0] IN
       /\ t' = [y EXCEPT !.res = TInf(y, cf)]
       /\ slot' = TInf(y, cf)
    /\ pendT' = Append(pendT, [id |-> nT + 1, n |-> n])
    /\ nT' = nT + 1
    /\ UNCHANGED <<sess, cf, i, pendI, nI, viol, faults, stepFaults, last, now>>

\* Initiator.exchange() returns
IRet ==
    /\ i.st = "ret"
    /\ LET p == Whole(i.rx) IN
       /\ pendT' = Deliver(pendT, p)
       /\ viol' = IF DeliverBad(pendT, p) THEN viol \cup {"IRet"} ELSE viol
    /\ i' = [i EXCEPT !.st = "idle", !.rx = <<>>]
    /\ UNCHANGED <<sess, cf, t, slot, pendI, nI, nT, faults, stepFaults, last, now>>

\* Initiator.deactivate(release): one RLS_REQ / DSL_REQ, no retry
Release(kind) ==
    /\ WithRelease
    /\ i.st = "idle" /\ slot = NoFrame /\ t.st = "wait"
    /\ i' = [i EXCEPT !.st = "rel", !.rel = kind]
    /\ slot' = ICur([i EXCEPT !.st = "rel", !.rel = kind], cf)
    /\ UNCHANGED <<sess, cf, t, pendI, pendT, nI, nT, viol, faults, stepFaults, last, now>>

\* ---- what activation establishes.  Every attribute the two objects keep is per-session state: activate() must
\* assign each of them from the parameters of this activation (options, ATR_REQ / ATR_RES / PSL_REQ on the air), also
\* the optional ones that are ABSENT this time (no DID, no NAD, no general bytes): nothing of the previous session of
\* the same object may survive.
Attrs == {"lrI", "lrT", "did", "did0", "nad", "tdid", "sb", "R", "tR", "gbI", "gbT"}
NoPrev == [some |-> FALSE, did |-> FALSE, did0 |-> FALSE, nad |-> FALSE, tdid |-> FALSE, gbI |-> 0, gbT |-> 0,
           lrI |-> 0, lrT |-> 0, sb |-> FALSE]
Opt(o) == [some |-> TRUE, did |-> o.did, did0 |-> o.did0, nad |-> o.nad, tdid |-> o.tdid, gbI |-> o.gbI, gbT |-> o.gbT,
           lrI |-> o.lrI, lrT |-> o.lrT, sb |-> o.sb]
\* c: the configuration a correct activation yields; o: what the objects hold from the previous session.
\* Without "freshI" / "freshT" the optional attributes of that object are assigned only if present.
Established(c, o, v) ==
    LET d  == IF "freshI" \in v THEN c.did ELSE c.did \/ o.did
        d0 == IF "freshI" \in v \/ c.did THEN c.did0 ELSE o.did0
        n  == IF "freshI" \in v THEN c.nad ELSE c.nad \/ o.nad
        gt == IF "freshI" \in v \/ c.gbT # 0 THEN c.gbT ELSE o.gbT
        td == IF "freshT" \in v THEN c.tdid ELSE c.tdid \/ o.tdid
        gi == IF "freshT" \in v \/ c.gbI # 0 THEN c.gbI ELSE o.gbI IN
    [c EXCEPT !.did = d, !.did0 = d0, !.nad = n, !.gbT = gt, !.tdid = td, !.gbI = gi,
              !.miuI = c.miuI + B(c.did) + B(c.nad) - B(d) - B(n),
              !.miuT = c.miuT + B(c.tdid) - B(td),
              !.prev = Opt(o)]

\* Initiator.activate() / Target.activate() on the same two objects after the previous session ended (release,
\* deselect or loss of the link), with the parameters of the new session (any configuration, not only the one of the
\* previous session): all per-session state starts afresh.  Variants: "ipni0" the initiator's PNI
\* is reset by activate() (as is: yes, dep.py Initiator.activate), "tpni0" the target's PNI is reset (as is: no,
\* Target.pni is only set in __init__ and by the first exchange() *after* the duplicate test: C04 finding)
Reactivate(c, v) ==
    /\ sess < MaxSess
    /\ i.st \in {"idle", "end"} /\ slot = NoFrame /\ t.st \in {"wait", "none"}
    /\ cf' = Established(c, cf, v)
    /\ i' = [I0 EXCEPT !.pni = IF "ipni0" \in v THEN 0 ELSE i.pni]
    /\ t' = [T0(Established(c, cf, v)) EXCEPT !.stale = t.pni]
    /\ slot' = NoFrame /\ pendI' = <<>> /\ pendT' = <<>>
    /\ stepFaults' = 0 /\ last' = "-" /\ now' = 0 /\ sess' = sess + 1
    /\ UNCHANGED <<nI, nT, viol, faults>>

Fates == {"deliver", "lose", "corrupt"} \cup (IF WithTrunc THEN Truncs ELSE {})
Next ==
    \E v \in Vs :
       \/ \E n \in Lens, D \in Ds : ICall(n, D)
       \/ \E f \in Fates :
             /\ (f # "deliver" => faults < MaxFaults /\ stepFaults < MaxStepFaults)
             /\ Fate(Actual(slot, v), f, v)
       \/ TRet
       \/ \E n \in Lens : TCall(n)
       \/ IRet
       \/ \E k \in {"RLS", "DSL"} : Release(k)
       \/ \E c \in Cfgs : Reactivate(c, v)

Spec == Init /\ [][Next]_vars

\* ------------------------------------------------------------------ properties (C04)
\* every payload reaches the peer exactly once, in order; at most one is outstanding per direction
ExactlyOnceP(vi, pI, pT) == vi = {} /\ Len(pI) <= 1 /\ Len(pT) <= 1
ExactlyOnce == ExactlyOnceP(viol, pendI, pendT)

\* what has been assembled so far is a prefix of the payload being transferred, in order
PrefixOf(sl, pend) ==
    sl = <<>> \/ (pend # <<>> /\ LET w == Whole(sl) IN w # Garbled /\ w.id = Head(pend).id /\ w.n <= Head(pend).n)
IntactP(x, y, pI, pT) == PrefixOf(y.rx, pI) /\ PrefixOf(x.rx, pT)
Intact == IntactP(i, t, pendI, pendT)

\* failure surfaces only as nfc.clf.CommunicationError subclasses
OnlyCommErrP(x) == x.st = "err" => x.err \in {"Timeout", "Protocol"}
OnlyCommErr == OnlyCommErrP(i)

\* no frame is longer than the receiver announced (LR)
FrameFitsP(s, c) == s # NoFrame => Size(s) <= (IF s.dir = "IT" THEN c.lrT ELSE c.lrI)
FrameFits == FrameFitsP(slot, cf)

\* one lost or corrupted frame per protocol step is absorbed (given a timeout longer than the RWT)
OneFaultOkP(x, y, sf, c) == (x.st = "err" /\ y.st # "err" /\ x.D > c.R) => sf >= 2
OneFaultOk == OneFaultOkP(i, t, stepFaults, cf)

\* the target never fails against a correct initiator
TargetOkP(y) == y.st = "err" => y.cause = "trunc"
TargetOk == TargetOkP(t)

\* a session starts with packet number 0 on both sides: the first information PDU of a session carries PNI 0
\* and the target takes it for a new request, whatever the previous session of the same objects left behind
FirstPniP(y, s, la) == /\ (y.ph = "first" /\ s.dir = "IT" /\ s.t = "INF" => s.pni = 0)
                       /\ ~(y.ph = "first" /\ la = "dup")
FirstPni == FirstPniP(t, slot, last)

\* after activation each object holds exactly what THIS activation established, whatever the previous session of
\* the same object was like (optional attributes present before and absent now, or the other way round)
SessAttrBad(c) == {a \in Attrs : c[a] # c.e[a]}
SessAttrP(c) == SessAttrBad(c) = {}
SessAttr == SessAttrP(cf)

PniInSyncP(x, y) == (x.st = "idle" /\ y.st = "wait" /\ y.ph # "first") => x.pni = (y.pni + 1) % 4
PniInSync == PniInSyncP(i, t)

\* ------------------------------------------------------------------ reachability witnesses (must be violated)
W_Retx      == ~(last = "dup")                              \* a retransmitted DEP_RES
W_Atn       == ~(last = "atn")
W_Nak       == ~(last = "nak" /\ slot # NoFrame)
W_NakAck    == ~(last = "nak" /\ slot.t = "ACK")            \* the retransmitted response is an ACK
W_ChainBoth == ~(i.st = "ret" /\ Len(i.rx) > 1 /\ i.n > cf.miuI)
W_Wrap      == ~(i.st = "idle" /\ nI >= 1 /\ i.pni = 0)
W_ErrTimeout == ~(i.st = "err" /\ i.err = "Timeout")
W_ErrProto  == ~(i.st = "err" /\ i.err = "Protocol")
W_Release   == ~(t.st = "none")
W_Again     == ~(sess = 2 /\ i.st = "idle" /\ nI >= 2 /\ pendI = <<>> /\ t.stale = 0)   \* second session after PNI 0
\* a session with chained payloads both ways, completed on the same two objects after a session in which ...
ChainedAgain == sess = 2 /\ i.st = "ret" /\ Len(i.rx) > 1 /\ i.n > cf.miuI /\ viol = {}
\* ... every optional attribute was present, now all are absent (DID, NAD, general bytes; smaller LR, other framing)
W_OptDrop   == ~(ChainedAgain /\ cf.prev.tdid /\ cf.prev.nad /\ cf.prev.gbI # 0 /\ cf.prev.gbT # 0
                              /\ ~cf.did /\ ~cf.tdid /\ ~cf.nad /\ cf.gbI = 0 /\ cf.gbT = 0
                              /\ cf.lrI < cf.prev.lrI /\ cf.lrT < cf.prev.lrT /\ cf.sb # cf.prev.sb)
\* ... none was present, now all are
W_OptAdd    == ~(ChainedAgain /\ ~cf.prev.did /\ ~cf.prev.nad /\ cf.prev.gbI = 0 /\ cf.prev.gbT = 0
                              /\ cf.tdid /\ cf.nad /\ cf.gbI # 0 /\ cf.gbT # 0
                              /\ cf.lrI > cf.prev.lrI /\ cf.lrT > cf.prev.lrT /\ cf.sb # cf.prev.sb)
\* ... one of them goes while another stays (NAD dropped, DID kept)
W_OptMixed  == ~(ChainedAgain /\ cf.prev.tdid /\ cf.prev.nad /\ cf.tdid /\ ~cf.nad)
W_CutAbsorbed == ~(last = "nak" /\ faults = 1 /\ stepFaults = 1 /\ WithTrunc /\ i.st = "busy")
W_CutFatal  == ~(t.st = "err" /\ t.cause = "trunc")
W_Absorbed  == ~(i.st = "idle" /\ faults >= 2 /\ nI >= 2 /\ pendI = <<>> /\ pendT = <<>>)

View == <<cf, i, t, slot, pendI, pendT, viol, faults, stepFaults, sess, last>>
=============================================================================
