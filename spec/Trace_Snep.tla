--------------------------- MODULE Trace_Snep ---------------------------
(* Trace validation of complete-stack SNEP runs (two ContactlessFrontend.connect(llcp=...) over the
   simulated air interface, real SnepServer / SnepClient) against Snep.  Events (uniform records):
     Conn                      the client opened a data link connection (fresh server thread)
     CStart(kind, L, acc, h)   put_octets / get_octets called with L octets of identity h
     CSend(n, code, decl, acc) client socket.send() of n bytes; code/decl/acc = header fields of those bytes
     SRecv(n) / CRecv(n)       socket.recv() returned n bytes
     SSend(n, code, decl)      server socket.send()
     Deliver(kind, L, h)       process_put_request / process_get_request saw L octets of identity h
     CRet(ok, len)             the client call returned (ok: put True / get returned octets; len of them)
     Link(n, miu)              an LLCP frame with an information field of n bytes left a controller whose
                               peer announced the link MIU miu                                  (C06/C10)
   All Snep invariants are step post-conditions. *)
EXTENDS Snep, Json, IOUtils, TLCExt

VARIABLES tid, l
tvars == <<c, s, c2s, s2c, cm, sm, maxAcc, reqs, delivered, results, tid, l>>
Traces == ndJsonDeserialize(IOEnv.TRACE_FILE)
T == Traces[tid].ev
C == Traces[tid].const
Ev == T[l]

CodeName(k) == CASE k = 1 -> "GET" [] k = 2 -> "PUT" [] k = 0 -> "CONT" [] k = 128 -> "CONTINUE"
                 [] k = 129 -> "SUCCESS" [] k = 255 -> "REJECT" [] k = 193 -> "EXCESS" [] k = 194 -> "BADREQ"
                 [] OTHER -> "other"

TInit == /\ tid \in 1..Len(Traces) /\ l = 1
         /\ c = CIdle /\ s = SIdle /\ c2s = <<>> /\ s2c = <<>>
         /\ cm = C.cm /\ sm = C.sm /\ maxAcc = C.maxAcc
         /\ reqs = <<>> /\ delivered = <<>> /\ results = <<>>

Step == l <= Len(T) /\ l' = l + 1 /\ UNCHANGED tid
Is(a) == l <= Len(T) /\ Ev.a = a

HdrOk(f) == f.hdr => /\ CodeName(Ev.code) = f.code
                     /\ Ev.decl = f.decl
                     /\ (f.code = "GET" => Ev.acc = f.acc)

TrConn ==
    /\ Is("Conn") /\ Step
    /\ c.pc = "idle"
    /\ s' = SIdle /\ c2s' = <<>> /\ s2c' = <<>>
    /\ cm' = Ev.n /\ sm' = Ev.decl            \* send MIUs of this connection: client's, server's
    /\ UNCHANGED <<c, maxAcc, reqs, delivered, results>>
TrCStart == /\ Is("CStart") /\ Step
            /\ CStart(Ev.kind, Ev.L, Ev.acc, Ev.h)
TrCSend == /\ Is("CSend") /\ Step
           /\ Ev.n = CNext.n /\ HdrOk(CNext)
           /\ CSend
TrSRecv == /\ Is("SRecv") /\ Step
           /\ c2s # <<>> /\ Ev.n = Head(c2s).n
           /\ SRecv
TrDeliver == /\ Is("Deliver") /\ Step
             /\ s.pc = "deliver" /\ Ev.kind = s.kind /\ Ev.L = SL /\ Ev.h = s.h
             /\ Deliver
TrSSend == /\ Is("SSend") /\ Step
           /\ s.sq # <<>> /\ Ev.n = Head(s.sq).n /\ HdrOk(Head(s.sq))
           /\ SSend
TrCRecv == /\ Is("CRecv") /\ Step
           /\ s2c # <<>> /\ Ev.n = Head(s2c).n
           /\ CRecv
TrCRet == /\ Is("CRet") /\ Step
          /\ c.pc = "done"
          /\ results[Len(results)].ok = Ev.ok /\ results[Len(results)].len = Ev.len
          /\ CRet
TrLink == /\ Is("Link") /\ Step
          /\ Ev.n <= Ev.decl                      \* information field <= link MIU announced by the receiver
          /\ UNCHANGED <<c, s, c2s, s2c, cm, sm, maxAcc, reqs, delivered, results>>

Guarded == TrConn \/ TrCStart \/ TrCSend \/ TrSRecv \/ TrDeliver \/ TrSSend \/ TrCRecv \/ TrCRet \/ TrLink

InvNames == <<"DeliveredIntact", "FragmentFits", "RejectOversize", "ResultRight", "ExactlyOnce">>
InvP(n) == CASE n = "DeliveredIntact" -> DeliveredIntactP(reqs', delivered')
             [] n = "FragmentFits" -> FragmentFitsP(c2s', s2c', cm', sm')
             [] n = "RejectOversize" -> RejectOversizeP(reqs', delivered', results')
             [] n = "ResultRight" -> ResultRightP(reqs', delivered', results')
             [] n = "ExactlyOnce" -> Len(delivered') <= Len(reqs') /\ Len(results') <= Len(reqs')
AllInv == \A i \in DOMAIN InvNames : InvP(InvNames[i])
Real == Guarded /\ AllInv

Why == IF ~ENABLED Guarded
       THEN [clause |-> "guard", cpc |-> c.pc, spc |-> s.pc, cnext |-> CNext,
             snext |-> IF s.sq = <<>> THEN Frag(0, FALSE, "none", 0, 0, 0) ELSE Head(s.sq),
             c2s |-> Len(c2s), s2c |-> Len(s2c), sl |-> IF s.pc = "deliver" THEN SL ELSE 0, sh |-> s.h]
       ELSE [clause |-> "inv", failed |-> SelectSeq(InvNames, LAMBDA n : ~ENABLED (Guarded /\ InvP(n)))]

Stuck == /\ l <= Len(T) /\ ~ENABLED Real
         /\ PrintT(<<"STUCK", Traces[tid].id, l, Ev.a, Why>>)
         /\ l' = Len(T) + 2
         /\ UNCHANGED <<c, s, c2s, s2c, cm, sm, maxAcc, reqs, delivered, results, tid>>
TNext == Real \/ Stuck
TSpec == TInit /\ [][TNext]_tvars
Done == (l = Len(T) + 1) => PrintT(<<"ACCEPT", Traces[tid].id>>)
=============================================================================
