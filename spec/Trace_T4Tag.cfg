SPECIFICATION TSpec
CONSTANTS
  B = 256
  LcMax = 255
  LeMax = 256
  Variants = {"asis", "fixed"}
  Mfss = {}
  Extras = {}
  NlenSizes = {}
  MLcs = {}
  MLes = {}
  WFlags = {}
  OldLens = {}
  MsgKinds = {}
  WithCut = TRUE
  WithFormat = TRUE
  WithOutage = TRUE
  Retries = 6
CONSTRAINT Done
CHECK_DEADLOCK FALSE
