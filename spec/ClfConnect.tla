----------------------------- MODULE ClfConnect -----------------------------
(* C18 (first half) - ContactlessFrontend.connect() honours its documented contract.

   A behaviour is ONE call of connect(rdwr=.., llcp=.., card=.., terminate=..) against one environment.
   The configuration `cfg` is chosen in Init and never changes:
   HOW THE ARGUMENTS ARE WRITTEN (every documented keyword and key: absent | present with the value that means
   "default / no restriction" | present with each documented value):
     top[o]    keyword o \in {"rdwr","llcp","card"}: "absent" | "none" (o=None, the same as absent) | "dict"
     noterm    the 'terminate' keyword is absent (the documented default never terminates: the call ends only
               through an activation) - otherwise terminate() turns true at poll termAt
     giv[o][n] the callback key 'on-'n is present in the dictionary o.  A key that is absent stands for its documented
               default - rdwr: on-startup keeps the targets, on-discover accepts every tag (not P2P devices),
               on-connect / on-release return True; llcp: on-startup keeps the llc, on-connect / on-release return
               True; card: the default on-startup returns None, which removes the option, on-discover / on-connect /
               on-release return True.  The defaults are ordinary callbacks: same order, polling and return value
               as when the same values are given explicitly (only that no user code observes them).
               An EMPTY dictionary is the case "no key at all": the mode is active with all its defaults
     su[o]     what 'on-startup' returns: "keep" (the proper object), "drop" (a false value),
               "wrong" (a true value of the wrong type)
     disc[o], conn[o], rel[o]   what 'on-discover', 'on-connect', 'on-release' return (TRUE/FALSE)
               (for a key that is not given: the value its default returns)
     beep      rdwr 'beep-on-connect': "absent" (default: on) | "true" | "false"
     role      llcp 'role': "absent" | "none" (role=None: no restriction, as examples/cli.py writes it) - both mean
               that the device alternates between both roles - | "initiator" | "target"
     sf        rdwr discovery loop: tgt = 'targets' "absent" (default 106A, 106B, 212F) | "default" (the same three,
               written out) | "match" (one technology, the one of the tag in the field) | "miss" (one technology,
               not the one in the field: the tag / peer is never discovered);  iter = 'iterations' (0 = absent,
               default 5);  ival = 'interval' in ms (-1 = absent, default 500)
     dep       llcp link parameters 'brs' 'acm' 'rwt' 'lri' 'lrt' 'miu' 'lto' 'agf' (-1 = absent, else the value;
               booleans 0/1).  They do not change the callback contract; what the peer is told during link
               activation must be the given value, or the documented default for an absent key (WireOk)
     env       "nothing" | "tag" (Type 2 tag that answers k presence checks, then is gone) |
               "peerT" / "peerI" (NFC-DEP+LLCP peer acting as target / initiator, answers k LLC exchanges,
               then releases) | "reader" (discovers our emulated Type 3 tag, sends k further commands, leaves)
               | "ioerror" / "unsupported" (the local device raises IOError / UnsupportedTargetError on discovery)
               | "readerU" (a reader that discovers our local target again and again, but nfc.tag.emulate() cannot
               build a tag emulation for what listen() returned: a 106A target that got a Type 2 / Type 4 Tag
               command, a 212F target polled without a Type 3 Tag command, an NFC-DEP activation in card mode.
               on-discover is still called for EVERY discovered target; without an emulation there is no
               on-connect and connect() keeps listening)
               | "tagX" (a tag as in "tag" whose ACTIVATION is disturbed: some exchange of the tag type's activation
               sequence ends in a CommunicationError - timeout, transmission, protocol or broken-link error -
               once or persistently.  Whether the tag module recovers is the tag module's business; for connect()
               the activation either yields a tag (on-connect is called) or it does not (the tag is skipped and
               the loop goes on) - both are allowed, raising is not)
               | "tagU" (a tag as in "tag", on a device that cannot listen: every listen_* raises
               UnsupportedTargetError - a reader-only device, or a Type B card target)
     k         see env
     termAt    index of the terminate() poll that is the first to return true
   One action per observable step of the code (src/nfc/clf/__init__.py:501-659): every callback, every
   terminate() poll, every discovery attempt (sense / llc.activate / listen), LED switch, presence check,
   LLC exchange, served command, and the return.

   READING OF THE DOCSTRING (decisions, see bind/c18.py header):
   * 'on-release' has no documented return value; the examples and the defaults return True.  The code
     returns on-release's value when it is true and otherwise goes on with the next option / the next
     round of the loop.  The documentation is silent about a false value, so this is modelled as
     behaviour (Release(o, FALSE) continues), not judged.  ReturnValue therefore says: True exactly when
     the last callback was an on-release that returned true.
   * "returns None ... when the 'terminate' function returned a true value" is read for terminations
     outside an activation; a terminate() during the presence / symmetry / command loop ends that
     activation through on-release (documented under 'on-release') and connect() returns its value.  *)
EXTENDS Integers, Sequences, FiniteSets, TLC

CONSTANTS MaxOpts,     \* at most this many of rdwr/llcp/card are given (3 everywhere except in the witness runs)
          KMax,        \* budgets 0..KMax
          TMax         \* termAt \in 0..TMax  (a call whose terminate() never turns true does not end unless an
                       \* activation ends it; every finite prefix of such a call is a prefix of a call with a
                       \* larger termAt, so only finite values are explored - plus the call WITHOUT a terminate
                       \* argument, cfg.noterm, whose model is bounded by the CONSTRAINT NoTermBound)

Opt == {"rdwr", "llcp", "card"}
Envs == {"nothing", "tag", "tagU", "tagX", "peerT", "peerI", "reader", "readerU", "ioerror", "unsupported"}
Roles == {"both", "initiator", "target"}
StartupRes == {"keep", "drop", "wrong"}
ObjOf(o) == CASE o = "rdwr" -> "tag" [] o = "llcp" -> "llc" [] o = "card" -> "emu"

\* ---- how the arguments are written
CbN == {"startup", "discover", "connect", "release"}
TopForms == {"absent", "none", "dict"}
RoleForms == {"absent", "none", "initiator", "target"}
BeepForms == {"absent", "true", "false"}
TgtForms == {"absent", "default", "match", "miss"}
DepKeys == {"brs", "acm", "rwt", "lri", "lrt", "miu", "lto", "agf"}
\* the documented values of the link parameters
DepVals(k) == CASE k = "brs" -> {0, 1, 2} [] k = "acm" -> {0, 1} [] k = "rwt" -> {0, 8, 14}
                [] k = "lri" -> {0, 1, 2, 3} [] k = "lrt" -> {0, 1, 2, 3} [] k = "miu" -> {128, 248, 2175}
                [] k = "lto" -> {100, 500, 1000} [] k = "agf" -> {0, 1}
NoDep == [k \in DepKeys |-> -1]
\* every key alone with every documented value, nothing, everything with its documented default, everything changed
DocDefaults == [brs |-> 2, acm |-> 0, rwt |-> 8, lri |-> 3, lrt |-> 3, miu |-> 128, lto |-> 500, agf |-> 1]
AllChanged == [brs |-> 1, acm |-> 1, rwt |-> 14, lri |-> 1, lrt |-> 2, miu |-> 2175, lto |-> 1000, agf |-> 0]
DepForms == {NoDep, DocDefaults, AllChanged} \cup UNION {{[NoDep EXCEPT ![k] = v] : v \in DepVals(k)} : k \in DepKeys}
DepFormOk(d) == \A k \in DepKeys : d[k] = -1 \/ d[k] \in DepVals(k)
SF(t, i, v) == [tgt |-> t, iter |-> i, ival |-> v]
BaseSF == SF("match", 1, 0)              \* one matching technology, one round, no pause
AbsSF == SF("absent", 0, -1)             \* nothing written: 106A/106B/212F, 5 rounds, 500 ms
SenseForms == {BaseSF, AbsSF, SF("default", 5, 500), SF("miss", 1, 0), SF("match", 0, -1), SF("absent", 1, 0),
               SF("default", 2, 1), SF("match", 2, 1), SF("match", 3, 100), SF("miss", 0, -1)}
IterVals == {0, 1, 2, 3, 5}
IvalVals == {-1, 0, 1, 100, 500}

HasC(c, o) == c.top[o] = "dict"
G(s, d, cn, r) == [startup |-> s, discover |-> d, connect |-> cn, release |-> r]
NoG == G(FALSE, FALSE, FALSE, FALSE)
AllG(withDisc) == G(TRUE, withDisc, TRUE, TRUE)
DefSu(o) == IF o = "card" THEN "drop" ELSE "keep"
RoleEffC(c) == IF c.role \in {"absent", "none"} THEN "both" ELSE c.role
BeepEffC(c) == c.beep # "false"

\* canonical configurations: parameters that cannot influence the call are pinned to one value
Canon(c) ==
    /\ \A o \in Opt : ~HasC(c, o) => c.su[o] = "keep" /\ c.conn[o] /\ c.rel[o] /\ c.disc[o] /\ c.giv[o] = NoG
    /\ \A o \in Opt : c.su[o] # "keep" => c.conn[o] /\ c.rel[o] /\ c.disc[o]
    /\ c.disc["llcp"] /\ ~c.giv["llcp"].discover          \* llcp has no on-discover
    /\ \A o \in Opt : ~c.disc[o] => c.conn[o] /\ c.rel[o]
    /\ \A o \in Opt : ~c.conn[o] => c.rel[o]
    \* a callback that is not given returns what its documented default returns
    /\ \A o \in Opt : HasC(c, o) =>
          /\ (~c.giv[o].startup => c.su[o] = DefSu(o))
          /\ (~c.giv[o].discover => c.disc[o]) /\ (~c.giv[o].connect => c.conn[o]) /\ (~c.giv[o].release => c.rel[o])
    /\ ((~HasC(c, "rdwr") \/ c.su["rdwr"] # "keep" \/ ~c.disc["rdwr"] \/ ~c.conn["rdwr"]) => c.beep # "false")
    \* (harness: the default on-connect is observed through the LED)
    /\ (~c.giv["rdwr"].connect => c.beep # "false")
    /\ ((~HasC(c, "llcp") \/ c.su["llcp"] # "keep") => c.role = "absent")
    /\ (~HasC(c, "rdwr") => c.sf = AbsSF /\ c.beep = "absent")
    /\ (~HasC(c, "llcp") => c.dep = NoDep)
    /\ DepFormOk(c.dep)
    /\ (c.env \in {"nothing", "ioerror", "unsupported", "readerU"} => c.k = 0)
    /\ (c.noterm => c.termAt = 0)

CfgSpace(kmax, terms) ==
    [top : [Opt -> TopForms], giv : [Opt -> [CbN -> BOOLEAN]], su : [Opt -> StartupRes], disc : [Opt -> BOOLEAN],
     conn : [Opt -> BOOLEAN], rel : [Opt -> BOOLEAN], beep : BeepForms, role : RoleForms,
     sf : [tgt : TgtForms, iter : IterVals, ival : IvalVals], dep : [DepKeys -> Int],
     env : Envs, k : 0..kmax, termAt : terms, noterm : BOOLEAN]

\* the canonical configurations, built constructively (per option: not given (absent / None) | {} | dropped | wrong
\* type | kept with the callback results that can matter | only some of the callback keys given)
OV(top, g, su, disc, conn, rel) == [top |-> top, giv |-> g, su |-> su, disc |-> disc, conn |-> conn, rel |-> rel]
NotGiven == {OV("absent", NoG, "keep", TRUE, TRUE, TRUE), OV("none", NoG, "keep", TRUE, TRUE, TRUE)}
\* the option given as {}: all defaults (card: the default on-startup returns None = option removed)
EmptyDict(o) == OV("dict", NoG, DefSu(o), TRUE, TRUE, TRUE)
Kept(g) ==
    {OV("dict", g, "keep", TRUE, FALSE, TRUE), OV("dict", g, "keep", TRUE, TRUE, TRUE), OV("dict", g, "keep", TRUE, TRUE, FALSE)}
    \cup (IF g.discover THEN {OV("dict", g, "keep", FALSE, TRUE, TRUE)} ELSE {})
Full(withDisc) == {OV("dict", AllG(withDisc), "drop", TRUE, TRUE, TRUE), OV("dict", AllG(withDisc), "wrong", TRUE, TRUE, TRUE)}
                  \cup Kept(AllG(withDisc))
\* some keys given, the others defaulted: all given callbacks return the "go on" value, or exactly one of them
\* returns its other value
PartialG(o) == {g \in [CbN -> BOOLEAN] : /\ g # NoG /\ g # AllG(o # "llcp") /\ (g.discover => o # "llcp")
                                         /\ (o = "card" /\ ~g.startup => g = G(FALSE, TRUE, TRUE, TRUE))}
Pos(o, g) == OV("dict", g, IF g.startup THEN "keep" ELSE DefSu(o), TRUE, TRUE, TRUE)
Negs(o, g) == IF o = "card" /\ ~g.startup THEN {}
              ELSE (IF g.startup THEN {[Pos(o, g) EXCEPT !.su = "drop"]} ELSE {})
                   \cup (IF g.discover THEN {[Pos(o, g) EXCEPT !.disc = FALSE]} ELSE {})
                   \cup (IF g.connect THEN {[Pos(o, g) EXCEPT !.conn = FALSE]} ELSE {})
                   \cup (IF g.release THEN {[Pos(o, g) EXCEPT !.rel = FALSE]} ELSE {})
Partial(o) == UNION {{Pos(o, g)} \cup Negs(o, g) : g \in PartialG(o)}
Variants(o) == NotGiven \cup {EmptyDict(o)} \cup Full(o # "llcp")
EffKept(v) == v.top = "dict" /\ v.su = "keep"
Plain(v, o) == EffKept(v) /\ v.disc /\ v.conn /\ v.rel /\ (v.giv = NoG \/ v.giv = AllG(o # "llcp"))
\* The written forms that mean the same (role absent / None, beep-on-connect absent / True, ...), the partial key sets,
\* the forms of the discovery loop and the link parameters do not interact with the other options in this model:
\* they are enumerated for calls with ONE option dictionary (`rich`; the two other keywords both absent or both None)
BeepOf(r, rich) == IF EffKept(r) /\ r.disc /\ r.conn
                   THEN IF rich THEN (IF r.giv.connect THEN BeepForms ELSE {"absent", "true"})
                        ELSE IF r.giv = NoG THEN {"absent"} ELSE {"true", "false"}
                   ELSE IF r.top = "dict" /\ r.giv = AllG(TRUE) THEN {"true"} ELSE {"absent"}
RoleOf(l, rich) == IF EffKept(l)
                   THEN IF rich THEN RoleForms ELSE IF l.giv = NoG THEN {"absent"} ELSE {"absent", "initiator", "target"}
                   ELSE {"absent"}
NaturalSF(r) == IF r.top = "dict" /\ r.giv # NoG THEN BaseSF ELSE AbsSF
SfOf(r, rich, e) == IF rich /\ Plain(r, "rdwr") /\ e \in {"nothing", "tag", "peerT", "unsupported"}
                    THEN SenseForms ELSE {NaturalSF(r)}
DepOf(l, ro, rich, e) == IF rich /\ Plain(l, "llcp") /\ ro = "absent" /\ e \in {"nothing", "peerT", "peerI"}
                         THEN DepForms ELSE {NoDep}
KOf(e, kmax) == IF e \in {"nothing", "ioerror", "unsupported", "readerU"} THEN {0} ELSE 0..kmax
Pick(o, r, l, c) == CASE o = "rdwr" -> r [] o = "llcp" -> l [] o = "card" -> c
Mk(r, l, c, b, ro, sf, dp, e, k, t, nt) ==
    [top |-> [o \in Opt |-> Pick(o, r, l, c).top], giv |-> [o \in Opt |-> Pick(o, r, l, c).giv],
     su |-> [o \in Opt |-> Pick(o, r, l, c).su], disc |-> [o \in Opt |-> Pick(o, r, l, c).disc],
     conn |-> [o \in Opt |-> Pick(o, r, l, c).conn], rel |-> [o \in Opt |-> Pick(o, r, l, c).rel],
     beep |-> b, role |-> ro, sf |-> sf, dep |-> dp, env |-> e, k |-> k, termAt |-> t, noterm |-> nt]
\* terminate() turns true at poll t, or there is no terminate argument
Terms == {<<t, FALSE>> : t \in 0..TMax} \cup {<<0, TRUE>>}
Tops(r, l, c) == <<r.top, l.top, c.top>>
NDict(r, l, c) == Cardinality({i \in 1..3 : Tops(r, l, c)[i] = "dict"})
RichT(r, l, c) == /\ NDict(r, l, c) = 1
                  /\ Cardinality({Tops(r, l, c)[i] : i \in {j \in 1..3 : Tops(r, l, c)[j] # "dict"}}) = 1
SameNG == {<<a, a>> : a \in NotGiven}
\* (keyword=None next to several option dictionaries is left to the harness: seeded, outside this grid)
OptTriples ==
    {<<r, l, c>> \in Variants("rdwr") \X Variants("llcp") \X Variants("card") :
        /\ NDict(r, l, c) <= MaxOpts
        /\ (NDict(r, l, c) >= 2 => \A i \in 1..3 : Tops(r, l, c)[i] # "none")}
    \cup {<<r, ng[1], ng[2]>> : r \in Partial("rdwr"), ng \in SameNG}
    \cup {<<ng[1], l, ng[2]>> : l \in Partial("llcp"), ng \in SameNG}
    \cup {<<ng[1], ng[2], c>> : c \in Partial("card"), ng \in SameNG}
CfgsOf(x, tr, richAllowed, terms) ==
      LET r == tr[1]  l == tr[2]  c == tr[3]  rich == richAllowed /\ RichT(tr[1], tr[2], tr[3]) IN
      \E e \in Envs :
        \E b \in BeepOf(r, rich), ro \in RoleOf(l, rich), k \in KOf(e, KMax), t \in terms :
          \E sf \in SfOf(r, rich, e), dp \in DepOf(l, ro, rich, e) :
              x = Mk(r, l, c, b, ro, sf, dp, e, k, t[1], t[2])
IsCfg(x) == \E tr \in OptTriples : CfgsOf(x, tr, TRUE, Terms)

\* the plainly written calls (keywords that are not used are absent, a terminate argument, all callback keys or none, no
\* role=None, the natural discovery loop, no link parameters): the part of the grid the witnesses of the life cycle need
PlainV(o) == {v \in Variants(o) : v.top # "none"}
PlainTriples == {<<r, l, c>> \in PlainV("rdwr") \X PlainV("llcp") \X PlainV("card") : NDict(r, l, c) <= MaxOpts}
IsPlainCfg(x) == \E tr \in PlainTriples : CfgsOf(x, tr, FALSE, {<<t, FALSE>> : t \in 0..TMax})

VARIABLES cfg,
          pc,          \* control state
          role,        \* llcp role being tried
          left,        \* options left after on-startup
          polls,       \* number of terminate() polls so far
          envk,        \* remaining budget of the environment
          gone,        \* the tag / peer / reader has left
          found,       \* what the last rdwr discovery found
          cb,          \* recorded callbacks <<[n, o, r]>>
          ret,         \* return value ("" while running)
          led,         \* LED/buzzer on
          err,         \* connect() is ending because of IOError / UnsupportedTargetError
          termSeen,    \* terminate() has returned true
          after,       \* number of steps taken since then
          lateWork     \* a discovery / activation / data step happened after terminate() was true
vars == <<cfg, pc, role, left, polls, envk, gone, found, cb, ret, led, err, termSeen, after, lateWork>>

InitOf(IsC(_)) ==
    /\ IsC(cfg)
    /\ pc = "start"
    /\ role = ""
    /\ left = {}
    /\ polls = 0
    /\ envk = cfg.k
    /\ gone = FALSE
    /\ found = "none"
    /\ cb = <<>>
    /\ ret = ""
    /\ led = FALSE
    /\ err = FALSE
    /\ termSeen = FALSE
    /\ after = 0
    /\ lateWork = FALSE
Init == InitOf(IsCfg)
PlainInit == InitOf(IsPlainCfg)

-----------------------------------------------------------------------------
\* what the written arguments mean
Has(o) == HasC(cfg, o)
RoleEff == RoleEffC(cfg)              \* role absent and role=None both mean: no restriction
BeepEff == BeepEffC(cfg)
MultiTarget == cfg.sf.tgt \in {"absent", "default"}
NTargets == IF MultiTarget THEN 3 ELSE 1
IterEff == IF cfg.sf.iter = 0 THEN 5 ELSE cfg.sf.iter
IvalEff == IF cfg.sf.ival = -1 THEN 500 ELSE cfg.sf.ival
DepEff(k, dflt) == IF cfg.dep[k] = -1 THEN dflt ELSE cfg.dep[k]

\* control flow helpers (no stuttering steps: each returns the next control state that has an action)
StartupOrder == <<"llcp", "rdwr", "card">>            \* order of the on-startup calls in the code
PhaseOrder == <<"rdwr", "llcp", "card">>              \* order inside the main loop

\* next on-startup to call after position i, or the state after start-up
StartFrom(i, lft) ==
    IF i <= 3 /\ Has(StartupOrder[i]) THEN <<"startup", i>>
    ELSE IF i + 1 <= 3 /\ Has(StartupOrder[i + 1]) THEN <<"startup", i + 1>>
    ELSE IF i + 2 <= 3 /\ Has(StartupOrder[i + 2]) THEN <<"startup", i + 2>>
    ELSE IF lft = {} THEN <<"ret", 0>> ELSE <<"poll", 0>>

FirstRole == IF RoleEff = "initiator" THEN "initiator" ELSE "target"
PhasePc(o) == CASE o = "rdwr" -> "rdwr_sense" [] o = "llcp" -> "llcp_act" [] o = "card" -> "card_listen"
\* first phase at or after position i of the main loop body, or back to the loop condition
PhaseFrom(i) ==
    IF i <= 3 /\ PhaseOrder[i] \in left THEN PhasePc(PhaseOrder[i])
    ELSE IF i + 1 <= 3 /\ PhaseOrder[i + 1] \in left THEN PhasePc(PhaseOrder[i + 1])
    ELSE IF i + 2 <= 3 /\ PhaseOrder[i + 2] \in left THEN PhasePc(PhaseOrder[i + 2])
    ELSE "poll"
PhaseIdx(o) == CASE o = "rdwr" -> 1 [] o = "llcp" -> 2 [] o = "card" -> 3
AfterPhase(o) == PhaseFrom(PhaseIdx(o) + 1)

\* steps that must not happen any more once terminate() has been true.  (Discovery *attempts* of the options
\* that follow in the same round of the main loop are still made when an on-release returned a false value -
\* the loop condition is only evaluated once per round; they are bounded by PromptP, not forbidden.)
Work == {"Discover", "Connect", "LedOn", "Presence", "Xchg", "Serve", "Startup"}
\* bookkeeping common to all steps; `kind` is the event class of the step
Step(kind) ==
    /\ after' = IF termSeen THEN after + 1 ELSE after
    /\ lateWork' = (lateWork \/ (termSeen /\ kind \in Work))
    /\ UNCHANGED cfg

CbRec(n, o, r) == [n |-> n, o |-> o, r |-> r]
Goto(p) == pc' = p

-----------------------------------------------------------------------------
\* connect() entered: the first observable step is an on-startup call, the early return, or the first poll
Begin ==
    /\ pc = "start"
    /\ LET nx == StartFrom(1, {}) IN pc' = IF nx[1] = "startup" THEN "startup" ELSE nx[1]
    /\ role' = LET nx == StartFrom(1, {}) IN IF nx[1] = "startup" THEN StartupOrder[nx[2]] ELSE ""
    /\ Step("Begin")
    /\ UNCHANGED <<left, polls, envk, gone, found, cb, ret, led, err, termSeen>>

\* on-startup of the option named by `role` (re-used as "current option" during start-up)
Startup ==
    /\ pc = "startup"
    /\ LET o == role
           i == CHOOSE j \in 1..3 : StartupOrder[j] = o
           lft == IF cfg.su[o] = "keep" THEN left \cup {o} ELSE left
           nx == StartFrom(i + 1, lft)
       IN /\ cb' = Append(cb, CbRec("startup", o, cfg.su[o]))
          /\ left' = lft
          /\ pc' = nx[1]
          /\ role' = IF nx[1] = "startup" THEN StartupOrder[nx[2]] ELSE ""
    /\ Step("Startup")
    /\ UNCHANGED <<polls, envk, gone, found, ret, led, err, termSeen>>

\* no option given at all: connect() returns None without any callback
\* (pc "ret" = about to return; the value is decided by RetVal)
RetVal ==
    IF err THEN "False"
    ELSE IF cb # <<>> /\ cb[Len(cb)].n = "connect" /\ ~cb[Len(cb)].r THEN ObjOf(cb[Len(cb)].o)
    ELSE IF cb # <<>> /\ cb[Len(cb)].n = "release" /\ cb[Len(cb)].r THEN "True"
    ELSE "None"

Return ==
    /\ pc = "ret"
    /\ ret' = RetVal
    /\ Goto("done")
    /\ Step("Return")
    /\ UNCHANGED <<role, left, polls, envk, gone, found, cb, led, err, termSeen>>

\* without a terminate argument nothing ever asks to stop (and no poll is observable)
TermNow == ~cfg.noterm /\ polls >= cfg.termAt
PollCount == IF cfg.noterm THEN polls ELSE polls + 1
\* `while not terminate():` of the main loop
Poll ==
    /\ pc = "poll"
    /\ polls' = PollCount
    /\ termSeen' = (termSeen \/ TermNow)
    /\ IF TermNow THEN Goto("ret") /\ UNCHANGED role
       ELSE /\ Goto(PhaseFrom(1))
            /\ role' = IF PhaseFrom(1) = "llcp_act" THEN FirstRole ELSE role
    /\ Step("Term")
    /\ UNCHANGED <<left, envk, gone, found, cb, ret, led, err>>

\* entering a phase sets the llcp role to try first
Enter(p) == /\ Goto(p)
            /\ role' = IF p = "llcp_act" THEN FirstRole ELSE role

DeviceFails == cfg.env \in {"ioerror", "unsupported"}
\* with several targets (the default list has three entries) those the device does not support are skipped, not raised
SenseFails == cfg.env = "ioerror" \/ (cfg.env = "unsupported" /\ ~MultiTarget)
ListenFails == DeviceFails \/ cfg.env = "tagU"       \* listen() ends in an exception
Fail == /\ err' = TRUE /\ Goto("ret")

-----------------------------------------------------------------------------
\* reader/writer
SenseRes == IF SenseFails THEN cfg.env
            ELSE IF cfg.sf.tgt = "miss" THEN "none"      \* the technology in the field is not among 'targets'
            ELSE IF cfg.env \in {"tag", "tagU", "tagX"} /\ ~gone THEN "tag"
            ELSE IF cfg.env = "peerT" /\ ~gone THEN "dep"
            ELSE "none"

RdwrSense ==
    /\ pc = "rdwr_sense"
    /\ found' = SenseRes
    /\ IF SenseFails THEN Fail /\ UNCHANGED role
       ELSE IF SenseRes = "none" THEN Enter(AfterPhase("rdwr")) /\ UNCHANGED err
       ELSE Goto("rdwr_disc") /\ UNCHANGED <<err, role>>
    /\ Step("Sense")
    /\ UNCHANGED <<left, polls, envk, gone, cb, ret, led, termSeen>>

\* activated: nfc.tag.activate() returned a tag (always, unless the activation is disturbed - env tagX)
RdwrDiscoverP(activated) ==
    /\ pc = "rdwr_disc"
    /\ activated \/ cfg.env = "tagX"
    /\ cb' = Append(cb, CbRec("discover", "rdwr", cfg.disc["rdwr"]))
    /\ IF cfg.disc["rdwr"] /\ found = "tag" /\ activated
       THEN Goto("rdwr_conn") /\ UNCHANGED role
       ELSE Enter(AfterPhase("rdwr"))     \* refused / a P2P device no tag type activates / disturbed activation
    /\ Step("Discover")
    /\ UNCHANGED <<left, polls, envk, gone, found, ret, led, err, termSeen>>
RdwrDiscover == \E activated \in BOOLEAN : RdwrDiscoverP(activated)

RdwrConnect ==
    /\ pc = "rdwr_conn"
    /\ cb' = Append(cb, CbRec("connect", "rdwr", cfg.conn["rdwr"]))
    /\ IF ~cfg.conn["rdwr"] THEN Goto("ret")
       ELSE IF BeepEff THEN Goto("led_on") ELSE Goto("pres_poll")
    /\ Step("Connect")
    /\ UNCHANGED <<role, left, polls, envk, gone, found, ret, led, err, termSeen>>

LedOn ==
    /\ pc = "led_on"
    /\ led' = TRUE
    /\ Goto("pres_poll")
    /\ Step("LedOn")
    /\ UNCHANGED <<role, left, polls, envk, gone, found, cb, ret, err, termSeen>>

\* `while not terminate() and tag.is_present:`
PresPoll ==
    /\ pc = "pres_poll"
    /\ polls' = PollCount
    /\ termSeen' = (termSeen \/ TermNow)
    /\ IF TermNow THEN Goto("led_off") ELSE Goto("presence")
    /\ Step("Term")
    /\ UNCHANGED <<role, left, envk, gone, found, cb, ret, led, err>>

Presence ==
    /\ pc = "presence"
    /\ IF envk > 0 THEN envk' = envk - 1 /\ Goto("pres_poll") /\ UNCHANGED gone
       ELSE gone' = TRUE /\ Goto("led_off") /\ UNCHANGED envk
    /\ Step("Presence")
    /\ UNCHANGED <<role, left, polls, found, cb, ret, led, err, termSeen>>

LedOff ==
    /\ pc = "led_off"
    /\ led' = FALSE
    /\ Goto("rdwr_rel")
    /\ Step("LedOff")
    /\ UNCHANGED <<role, left, polls, envk, gone, found, cb, ret, err, termSeen>>

Release(o, p) ==
    /\ pc = p
    /\ cb' = Append(cb, CbRec("release", o, cfg.rel[o]))
    /\ IF cfg.rel[o] THEN Goto("ret") /\ UNCHANGED role ELSE Enter(AfterPhase(o))
    /\ Step("Release")
    /\ UNCHANGED <<left, polls, envk, gone, found, ret, led, err, termSeen>>

-----------------------------------------------------------------------------
\* peer to peer
ActOk == \/ role = "target" /\ cfg.env = "peerI" /\ ~gone
         \/ role = "initiator" /\ cfg.env = "peerT" /\ ~gone
NextRole == IF role = "target" /\ RoleEff = "both" THEN "initiator" ELSE ""

LlcActivate ==
    /\ pc = "llcp_act"
    /\ IF DeviceFails \/ (ListenFails /\ role = "target") THEN Fail /\ UNCHANGED role
       ELSE IF ActOk THEN Goto("llcp_conn") /\ UNCHANGED <<err, role>>
       ELSE IF NextRole # "" THEN role' = NextRole /\ UNCHANGED <<pc, err>>
       ELSE Enter(AfterPhase("llcp")) /\ UNCHANGED err
    /\ Step("LlcAct")
    /\ UNCHANGED <<left, polls, envk, gone, found, cb, ret, led, termSeen>>

LlcConnect ==
    /\ pc = "llcp_conn"
    /\ cb' = Append(cb, CbRec("connect", "llcp", cfg.conn["llcp"]))
    /\ IF ~cfg.conn["llcp"] THEN Goto("ret")
       ELSE IF role = "target" THEN Goto("run_first") ELSE Goto("run_poll")
    /\ Step("Connect")
    /\ UNCHANGED <<role, left, polls, envk, gone, found, ret, led, err, termSeen>>

\* run_as_target: the first PDU came with the activation
RunFirst ==
    /\ pc = "run_first"
    /\ Goto("run_poll")
    /\ Step("Xchg")
    /\ UNCHANGED <<role, left, polls, envk, gone, found, cb, ret, led, err, termSeen>>

\* `while not terminate():` of the symmetry loop; as target a link that is already gone is noticed after it
RunPoll ==
    /\ pc = "run_poll"
    /\ polls' = PollCount
    /\ termSeen' = (termSeen \/ TermNow)
    /\ IF TermNow \/ (role = "target" /\ gone) THEN Goto("run_end") ELSE Goto("run_x")
    /\ Step("Term")
    /\ UNCHANGED <<role, left, envk, gone, found, cb, ret, led, err>>

RunXchg ==
    /\ pc = "run_x"
    /\ IF envk > 0 THEN envk' = envk - 1 /\ Goto("run_poll") /\ UNCHANGED gone
       ELSE /\ gone' = TRUE /\ UNCHANGED envk
            /\ IF role = "target" THEN Goto("run_poll") ELSE Goto("run_end")
    /\ Step("Xchg")
    /\ UNCHANGED <<role, left, polls, found, cb, ret, led, err, termSeen>>

RunEnd ==
    /\ pc = "run_end"
    /\ gone' = TRUE                                   \* llc.terminate() deactivates the link
    /\ Goto("llcp_rel")
    /\ Step("RunEnd")
    /\ UNCHANGED <<role, left, polls, envk, found, cb, ret, led, err, termSeen>>

-----------------------------------------------------------------------------
\* card emulation
CardListen ==
    /\ pc = "card_listen"
    /\ IF ListenFails THEN Fail
       ELSE IF cfg.env \in {"reader", "readerU"} /\ ~gone THEN Goto("card_disc") /\ UNCHANGED err
       ELSE Goto("poll") /\ UNCHANGED err
    /\ Step("Listen")
    /\ UNCHANGED <<role, left, polls, envk, gone, found, cb, ret, led, termSeen>>

CardDiscover ==
    /\ pc = "card_disc"
    /\ cb' = Append(cb, CbRec("discover", "card", cfg.disc["card"]))
    \* accepted and nfc.tag.emulate() built a tag emulation: on-connect follows; otherwise keep listening
    /\ IF cfg.disc["card"] /\ cfg.env # "readerU" THEN Goto("card_conn") ELSE Goto("poll")
    /\ Step("Discover")
    /\ UNCHANGED <<role, left, polls, envk, gone, found, ret, led, err, termSeen>>

CardConnect ==
    /\ pc = "card_conn"
    /\ cb' = Append(cb, CbRec("connect", "card", cfg.conn["card"]))
    /\ IF cfg.conn["card"] THEN Goto("serve_poll") ELSE Goto("ret")
    /\ Step("Connect")
    /\ UNCHANGED <<role, left, polls, envk, gone, found, ret, led, err, termSeen>>

ServePoll ==
    /\ pc = "serve_poll"
    /\ polls' = PollCount
    /\ termSeen' = (termSeen \/ TermNow)
    /\ IF TermNow THEN Goto("card_rel") ELSE Goto("serve")
    /\ Step("Term")
    /\ UNCHANGED <<role, left, envk, gone, found, cb, ret, led, err>>

Serve ==
    /\ pc = "serve"
    /\ IF envk > 0 THEN envk' = envk - 1 /\ Goto("serve_poll") /\ UNCHANGED gone
       ELSE gone' = TRUE /\ Goto("card_rel") /\ UNCHANGED envk
    /\ Step("Serve")
    /\ UNCHANGED <<role, left, polls, found, cb, ret, led, err, termSeen>>

Next ==
    \/ Begin \/ Startup \/ Return \/ Poll
    \/ RdwrSense \/ RdwrDiscover \/ RdwrConnect \/ LedOn \/ PresPoll \/ Presence \/ LedOff
    \/ Release("rdwr", "rdwr_rel") \/ Release("llcp", "llcp_rel") \/ Release("card", "card_rel")
    \/ LlcActivate \/ LlcConnect \/ RunFirst \/ RunPoll \/ RunXchg \/ RunEnd
    \/ CardListen \/ CardDiscover \/ CardConnect \/ ServePoll \/ Serve

Spec == Init /\ [][Next]_vars


-----------------------------------------------------------------------------
\* The documented contract, as predicates over the recorded history (parametric: trace mode primes them)

IsCb(c, n) == c.n = n
ConnT(c) == c.n = "connect" /\ c.r = TRUE
NumOf(s, P(_)) == Cardinality({i \in DOMAIN s : P(s[i])})

\* on-startup first (once per option), then per activation: on-discover -> on-connect -> on-release
OrderP(s) ==
    /\ \A i \in DOMAIN s : IsCb(s[i], "startup") =>
          /\ \A j \in 1..(i - 1) : IsCb(s[j], "startup") /\ s[j].o # s[i].o
    /\ \A i \in DOMAIN s : s[i].n \in {"discover", "connect", "release"} =>
          \E j \in 1..(i - 1) : IsCb(s[j], "startup") /\ s[j].o = s[i].o /\ s[j].r = "keep"
    /\ \A i \in DOMAIN s : IsCb(s[i], "discover") =>
          (i > 1 => ~ConnT(s[i - 1])) /\ s[i].o # "llcp"
    /\ \A i \in DOMAIN s : IsCb(s[i], "connect") =>
          IF s[i].o = "llcp" THEN (i > 1 => ~ConnT(s[i - 1]))
          ELSE i > 1 /\ IsCb(s[i - 1], "discover") /\ s[i - 1].o = s[i].o /\ s[i - 1].r = TRUE
    /\ \A i \in DOMAIN s : IsCb(s[i], "release") =>
          i > 1 /\ ConnT(s[i - 1]) /\ s[i - 1].o = s[i].o

\* on-release exactly once for every on-connect that returned true and never otherwise
ReleaseIffP(s, finished) ==
    LET nc == NumOf(s, ConnT)
        nr == NumOf(s, LAMBDA c : IsCb(c, "release"))
    IN /\ nr <= nc /\ nc <= nr + 1
       /\ finished => nr = nc

\* None / False / True / the tag, llc, emulation object
ReturnValueP(p, r, s, lft, e, ts) ==
    p = "done" =>
       /\ r \in {"None", "False", "True", "tag", "llc", "emu"}
       /\ (r = "False") = e
       /\ (r \in {"tag", "llc", "emu"}) = (~e /\ s # <<>> /\ s[Len(s)].n = "connect" /\ ~s[Len(s)].r)
       /\ r \in {"tag", "llc", "emu"} => r = ObjOf(s[Len(s)].o)
       /\ (r = "True") = (~e /\ s # <<>> /\ s[Len(s)].n = "release" /\ s[Len(s)].r)
       /\ r = "None" => (lft = {} \/ ts)

\* once terminate() has been true: no activation, no callback other than on-release, no data exchange;
\* at most LED off / link shutdown, on-release, the remaining discovery attempts of this round (<= 3),
\* one more poll and the return
PromptP(a, lw) == a <= 7 /\ ~lw

\* the LED/buzzer is on only while a tag is being watched and is off when connect() returns
LedP(p, ld) == /\ ld => p \in {"pres_poll", "presence", "led_off"} /\ BeepEff
               /\ p = "done" => ~ld

\* ---- what the written discovery / link parameters do on the device and on the air (event level: the trace
\* module compares them with the driver log and with what the simulated peer received)
Max0(x) == IF x > 0 THEN x ELSE 0
\* one discovery attempt of the reader/writer loop: att = number of driver sense calls, pauses = the arguments of
\* time.sleep() between the rounds (microseconds), cost = the time one driver sense call takes (microseconds):
\* 'iterations' rounds over all 'targets', 'interval' minus the time the round took between two rounds; the loop
\* ends with the first target found
SenseLoopP(att, pauses, cost) ==
    IF SenseFails THEN att = 1 /\ pauses = <<>>
    ELSE IF SenseRes = "none"
         THEN /\ att = IterEff * NTargets
              /\ Len(pauses) = IterEff - 1
              /\ \A i \in DOMAIN pauses : pauses[i] = Max0(IvalEff * 1000 - NTargets * cost)
    ELSE att \in 1..NTargets /\ pauses = <<>>
\* link activation in role rl with result res: w = what the peer was told (lr: length reduction, wt: waiting time
\* index, miu, lto (ms), psl: the bit rate selector negotiated, acm: an active mode target was searched).  A given
\* value is used; an absent key stands for its documented default.  The defaults of 'miu' (documented 128, the llc
\* announces 248) and 'acm' (documented: passive only, nfc.dep tries active mode first) differ between the
\* documentation and the code - not judged, both accepted.
MiuOk(m) == IF cfg.dep.miu = -1 THEN m \in {128, 248} ELSE m = cfg.dep.miu
WireOkP(rl, res, w) ==
    IF rl = "target"
    THEN res # "error" => /\ w.lr = DepEff("lrt", 3) /\ w.wt = DepEff("rwt", 8)
                          /\ MiuOk(w.miu) /\ w.lto = DepEff("lto", 500)
    ELSE /\ (res # "error" => cfg.dep.acm = -1 \/ w.acm = cfg.dep.acm)
         /\ (res = "ok" => /\ w.lr = DepEff("lri", 3) /\ MiuOk(w.miu) /\ w.lto = DepEff("lto", 500)
                           /\ w.psl = DepEff("brs", 2))

Order == OrderP(cb)
ReleaseIff == ReleaseIffP(cb, pc = "done")
ReturnValue == ReturnValueP(pc, ret, cb, left, err, termSeen)
Prompt == PromptP(after, lateWork)
Led == LedP(pc, led)

\* state constraint for the model of a call without terminate argument (a reader that discovers an emulation that
\* cannot be built is answered again and again)
NoTermBound == cfg.noterm => Len(cb) <= 8

TypeOK == /\ cfg \in CfgSpace(KMax, Nat)
          /\ left \subseteq Opt
          /\ polls \in Nat /\ envk \in Nat

-----------------------------------------------------------------------------
\* Reachability witnesses
W_RetTrue == ~(pc = "done" /\ ret = "True")
W_RetObj == ~(pc = "done" /\ ret = "llc")
W_RetFalse == ~(pc = "done" /\ ret = "False")
W_RetNoneNoOpt == ~(pc = "done" /\ ret = "None" /\ left = {} /\ cb # <<>>)
W_TermInPresence == ~(pc = "led_off" /\ termSeen /\ led)
W_ReleaseFalseLoops == ~(pc = "poll" /\ cb # <<>> /\ cb[Len(cb)].n = "release" /\ ~cb[Len(cb)].r)
W_TagVanished == ~(pc = "led_off" /\ gone /\ ~termSeen)
W_PeerReleased == ~(pc = "run_end" /\ gone /\ ~termSeen /\ role = "target")
W_NotEmulatable == ~(pc = "poll" /\ cfg.env = "readerU" /\ cb # <<>> /\ cb[Len(cb)].n = "discover" /\ cb[Len(cb)].r)
W_ReaderLeft == ~(pc = "card_rel" /\ gone /\ ~termSeen)
\* the written forms
W_RoleNoneTarget == ~(pc = "llcp_conn" /\ cfg.role = "none" /\ role = "target")
W_RoleNoneInitiator == ~(pc = "llcp_conn" /\ cfg.role = "none" /\ role = "initiator")
W_NoTermTrue == ~(pc = "done" /\ cfg.noterm /\ ret = "True")
W_NoneKeyword == ~(pc = "done" /\ ret = "tag" /\ cfg.top["llcp"] = "none" /\ cfg.top["card"] = "none")
W_TargetsMiss == ~(pc = "poll" /\ polls > 1 /\ cfg.env = "tag" /\ cfg.sf.tgt = "miss" /\ ~gone)
W_DefaultRelease == ~(pc = "done" /\ ret = "True" /\ cfg.giv["rdwr"].connect /\ ~cfg.giv["rdwr"].release)
W_DefaultStartupKeeps == ~(pc = "done" /\ ret = "llc" /\ ~cfg.giv["llcp"].startup /\ cfg.giv["llcp"].connect)
W_LinkParams == ~(pc = "llcp_conn" /\ cfg.dep # NoDep /\ cfg.dep # DocDefaults)
W_DefaultLoop == ~(pc = "poll" /\ polls > 0 /\ cfg.sf = SF("default", 5, 500) /\ cfg.giv["rdwr"].startup)
=============================================================================
