----------------------------- MODULE ClfConnect -----------------------------
(* C18 (first half) - ContactlessFrontend.connect() honours its documented contract.

   A behaviour is ONE call of connect(rdwr=.., llcp=.., card=.., terminate=..) against one environment.
   The configuration `cfg` is chosen in Init and never changes:
     has[o]    option o \in {"rdwr","llcp","card"} is given (a dictionary, possibly empty)
     empty[o]  the option is given as an EMPTY dictionary: the mode is active with all its documented defaults -
               rdwr: targets 106A/106B/212F, on-startup keeps them, on-discover accepts every tag (not P2P
               devices), on-connect/on-release return True, beep; llcp: on-startup keeps the llc, on-connect /
               on-release return True, both roles; card: the default on-startup returns None, which removes the
               option.  The defaults are ordinary callbacks: same order, polling and return value as when the
               same values are given explicitly (only that no user code observes them)
     su[o]     what its 'on-startup' returns: "keep" (the proper object), "drop" (a false value),
               "wrong" (a true value of the wrong type)
     disc[o], conn[o], rel[o]   what 'on-discover', 'on-connect', 'on-release' return (TRUE/FALSE)
     beep      rdwr 'beep-on-connect'
     role      llcp 'role': "both" (option absent), "initiator", "target"
     env       "nothing" | "tag" (Type 2 tag that answers k presence checks, then is gone) |
               "peerT" / "peerI" (NFC-DEP+LLCP peer acting as target / initiator, answers k LLC exchanges,
               then releases) | "reader" (discovers our emulated Type 3 tag, sends k further commands, leaves)
               | "ioerror" / "unsupported" (the local device raises IOError / UnsupportedTargetError on discovery)
               | "readerU" (a reader that discovers our local target again and again, but nfc.tag.emulate() cannot
               build a tag emulation for what listen() returned: a 106A target that got a Type 2 / Type 4 Tag
               command, a 212F target polled without a Type 3 Tag command, an NFC-DEP activation in card mode.
               on-discover is still called for EVERY discovered target; without an emulation there is no
               on-connect and connect() keeps listening)
               | "tagX" (a tag as in "tag" whose ACTIVATION is disturbed: some exchange of the tag type's activation
               sequence ends in a CommunicationError - timeout, transmission, protocol or broken-link error -
               once or persistently.  Whether the tag module recovers is the tag module's business; for connect()
               the activation either yields a tag (on-connect is called) or it does not (the tag is skipped and
               the loop goes on) - both are allowed, raising is not)
               | "tagU" (a tag as in "tag", on a device that cannot listen: every listen_* raises
               UnsupportedTargetError - a reader-only device, or a Type B card target)
     k         see env
     termAt    index of the terminate() poll that is the first to return true
   One action per observable step of the code (src/nfc/clf/__init__.py:501-659): every callback, every
   terminate() poll, every discovery attempt (sense / llc.activate / listen), LED switch, presence check,
   LLC exchange, served command, and the return.

   READING OF THE DOCSTRING (decisions, see bind/c18.py header):
   * 'on-release' has no documented return value; the examples and the defaults return True.  The code
     returns on-release's value when it is true and otherwise goes on with the next option / the next
     round of the loop.  The documentation is silent about a false value, so this is modelled as
     behaviour (Release(o, FALSE) continues), not judged.  ReturnValue therefore says: True exactly when
     the last callback was an on-release that returned true.
   * "returns None ... when the 'terminate' function returned a true value" is read for terminations
     outside an activation; a terminate() during the presence / symmetry / command loop ends that
     activation through on-release (documented under 'on-release') and connect() returns its value.  *)
EXTENDS Naturals, Sequences, FiniteSets, TLC

CONSTANTS MaxOpts,     \* at most this many of rdwr/llcp/card are given (3 everywhere except in the witness runs)
          KMax,        \* budgets 0..KMax
          TMax         \* termAt \in 0..TMax  (a call whose terminate() never turns true does not end unless an
                       \* activation ends it; every finite prefix of such a call is a prefix of a call with a
                       \* larger termAt, so only finite values are explored)

Opt == {"rdwr", "llcp", "card"}
Envs == {"nothing", "tag", "tagU", "tagX", "peerT", "peerI", "reader", "readerU", "ioerror", "unsupported"}
Roles == {"both", "initiator", "target"}
StartupRes == {"keep", "drop", "wrong"}
ObjOf(o) == CASE o = "rdwr" -> "tag" [] o = "llcp" -> "llc" [] o = "card" -> "emu"

\* canonical configurations: parameters that cannot influence the call are pinned to one value
Canon(c) ==
    /\ \A o \in Opt : ~c.has[o] => c.su[o] = "keep" /\ c.conn[o] /\ c.rel[o] /\ c.disc[o]
    /\ \A o \in Opt : c.su[o] # "keep" => c.conn[o] /\ c.rel[o] /\ c.disc[o]
    /\ c.disc["llcp"]                                     \* llcp has no on-discover
    /\ \A o \in Opt : ~c.disc[o] => c.conn[o] /\ c.rel[o]
    /\ \A o \in Opt : ~c.conn[o] => c.rel[o]
    /\ ((~c.has["rdwr"] \/ c.su["rdwr"] # "keep" \/ ~c.disc["rdwr"] \/ ~c.conn["rdwr"]) => c.beep)
    /\ ((~c.has["llcp"] \/ c.su["llcp"] # "keep") => c.role = "both")
    /\ (c.env \in {"nothing", "ioerror", "unsupported", "readerU"} => c.k = 0)
    /\ \A o \in Opt : c.empty[o] => /\ c.has[o] /\ c.disc[o] /\ c.conn[o] /\ c.rel[o]
                                     /\ c.su[o] = (IF o = "card" THEN "drop" ELSE "keep")
    /\ (c.empty["rdwr"] => c.beep) /\ (c.empty["llcp"] => c.role = "both")

CfgSpace(kmax, terms) ==
    [has : [Opt -> BOOLEAN], su : [Opt -> StartupRes], disc : [Opt -> BOOLEAN], conn : [Opt -> BOOLEAN],
     rel : [Opt -> BOOLEAN], empty : [Opt -> BOOLEAN], beep : BOOLEAN, role : Roles, env : Envs, k : 0..kmax, termAt : terms]

\* the canonical configurations, built constructively (per option: absent | dropped | wrong type | kept with
\* the callback results that can matter)
OV(has, su, disc, conn, rel) == [has |-> has, su |-> su, disc |-> disc, conn |-> conn, rel |-> rel, empty |-> FALSE]
\* the option given as {}: all defaults (card: the default on-startup returns None = option removed)
EmptyDict(isCard) == [OV(TRUE, IF isCard THEN "drop" ELSE "keep", TRUE, TRUE, TRUE) EXCEPT !.empty = TRUE]
Absent == OV(FALSE, "keep", TRUE, TRUE, TRUE)
Kept(withDisc) ==
    {OV(TRUE, "keep", TRUE, FALSE, TRUE), OV(TRUE, "keep", TRUE, TRUE, TRUE), OV(TRUE, "keep", TRUE, TRUE, FALSE)}
    \cup (IF withDisc THEN {OV(TRUE, "keep", FALSE, TRUE, TRUE)} ELSE {})
Variants(withDisc, isCard) == {Absent, EmptyDict(isCard), OV(TRUE, "drop", TRUE, TRUE, TRUE), OV(TRUE, "wrong", TRUE, TRUE, TRUE)}
                              \cup Kept(withDisc)
BeepOf(r) == IF r.has /\ r.su = "keep" /\ r.disc /\ r.conn /\ ~r.empty THEN BOOLEAN ELSE {TRUE}
RoleOf(l) == IF l.has /\ l.su = "keep" /\ ~l.empty THEN Roles ELSE {"both"}
KOf(e, kmax) == IF e \in {"nothing", "ioerror", "unsupported", "readerU"} THEN {0} ELSE 0..kmax
Mk(r, l, c, b, ro, e, k, t) ==
    [has |-> [o \in Opt |-> CASE o = "rdwr" -> r.has [] o = "llcp" -> l.has [] o = "card" -> c.has],
     su |-> [o \in Opt |-> CASE o = "rdwr" -> r.su [] o = "llcp" -> l.su [] o = "card" -> c.su],
     disc |-> [o \in Opt |-> CASE o = "rdwr" -> r.disc [] o = "llcp" -> l.disc [] o = "card" -> c.disc],
     conn |-> [o \in Opt |-> CASE o = "rdwr" -> r.conn [] o = "llcp" -> l.conn [] o = "card" -> c.conn],
     rel |-> [o \in Opt |-> CASE o = "rdwr" -> r.rel [] o = "llcp" -> l.rel [] o = "card" -> c.rel],
     empty |-> [o \in Opt |-> CASE o = "rdwr" -> r.empty [] o = "llcp" -> l.empty [] o = "card" -> c.empty],
     beep |-> b, role |-> ro, env |-> e, k |-> k, termAt |-> t]
Terms == 0..TMax
IsCfg(x) ==
    \E r \in Variants(TRUE, FALSE), l \in Variants(FALSE, FALSE), c \in Variants(TRUE, TRUE) :
      /\ Cardinality({v \in {<<1, r.has>>, <<2, l.has>>, <<3, c.has>>} : v[2]}) <= MaxOpts
      /\ \E e \in Envs :
        \E b \in BeepOf(r), ro \in RoleOf(l), k \in KOf(e, KMax), t \in Terms : x = Mk(r, l, c, b, ro, e, k, t)

VARIABLES cfg,
          pc,          \* control state
          role,        \* llcp role being tried
          left,        \* options left after on-startup
          polls,       \* number of terminate() polls so far
          envk,        \* remaining budget of the environment
          gone,        \* the tag / peer / reader has left
          found,       \* what the last rdwr discovery found
          cb,          \* recorded callbacks <<[n, o, r]>>
          ret,         \* return value ("" while running)
          led,         \* LED/buzzer on
          err,         \* connect() is ending because of IOError / UnsupportedTargetError
          termSeen,    \* terminate() has returned true
          after,       \* number of steps taken since then
          lateWork     \* a discovery / activation / data step happened after terminate() was true
vars == <<cfg, pc, role, left, polls, envk, gone, found, cb, ret, led, err, termSeen, after, lateWork>>

Init ==
    /\ IsCfg(cfg)
    /\ pc = "start"
    /\ role = ""
    /\ left = {}
    /\ polls = 0
    /\ envk = cfg.k
    /\ gone = FALSE
    /\ found = "none"
    /\ cb = <<>>
    /\ ret = ""
    /\ led = FALSE
    /\ err = FALSE
    /\ termSeen = FALSE
    /\ after = 0
    /\ lateWork = FALSE

-----------------------------------------------------------------------------
\* control flow helpers (no stuttering steps: each returns the next control state that has an action)
StartupOrder == <<"llcp", "rdwr", "card">>            \* order of the on-startup calls in the code
PhaseOrder == <<"rdwr", "llcp", "card">>              \* order inside the main loop

\* next on-startup to call after position i, or the state after start-up
StartFrom(i, lft) ==
    IF i <= 3 /\ cfg.has[StartupOrder[i]] THEN <<"startup", i>>
    ELSE IF i + 1 <= 3 /\ cfg.has[StartupOrder[i + 1]] THEN <<"startup", i + 1>>
    ELSE IF i + 2 <= 3 /\ cfg.has[StartupOrder[i + 2]] THEN <<"startup", i + 2>>
    ELSE IF lft = {} THEN <<"ret", 0>> ELSE <<"poll", 0>>

FirstRole == IF cfg.role = "initiator" THEN "initiator" ELSE "target"
PhasePc(o) == CASE o = "rdwr" -> "rdwr_sense" [] o = "llcp" -> "llcp_act" [] o = "card" -> "card_listen"
\* first phase at or after position i of the main loop body, or back to the loop condition
PhaseFrom(i) ==
    IF i <= 3 /\ PhaseOrder[i] \in left THEN PhasePc(PhaseOrder[i])
    ELSE IF i + 1 <= 3 /\ PhaseOrder[i + 1] \in left THEN PhasePc(PhaseOrder[i + 1])
    ELSE IF i + 2 <= 3 /\ PhaseOrder[i + 2] \in left THEN PhasePc(PhaseOrder[i + 2])
    ELSE "poll"
PhaseIdx(o) == CASE o = "rdwr" -> 1 [] o = "llcp" -> 2 [] o = "card" -> 3
AfterPhase(o) == PhaseFrom(PhaseIdx(o) + 1)

\* steps that must not happen any more once terminate() has been true.  (Discovery *attempts* of the options
\* that follow in the same round of the main loop are still made when an on-release returned a false value -
\* the loop condition is only evaluated once per round; they are bounded by PromptP, not forbidden.)
Work == {"Discover", "Connect", "LedOn", "Presence", "Xchg", "Serve", "Startup"}
\* bookkeeping common to all steps; `kind` is the event class of the step
Step(kind) ==
    /\ after' = IF termSeen THEN after + 1 ELSE after
    /\ lateWork' = (lateWork \/ (termSeen /\ kind \in Work))
    /\ UNCHANGED cfg

CbRec(n, o, r) == [n |-> n, o |-> o, r |-> r]
Goto(p) == pc' = p

-----------------------------------------------------------------------------
\* connect() entered: the first observable step is an on-startup call, the early return, or the first poll
Begin ==
    /\ pc = "start"
    /\ LET nx == StartFrom(1, {}) IN pc' = IF nx[1] = "startup" THEN "startup" ELSE nx[1]
    /\ role' = LET nx == StartFrom(1, {}) IN IF nx[1] = "startup" THEN StartupOrder[nx[2]] ELSE ""
    /\ Step("Begin")
    /\ UNCHANGED <<left, polls, envk, gone, found, cb, ret, led, err, termSeen>>

\* on-startup of the option named by `role` (re-used as "current option" during start-up)
Startup ==
    /\ pc = "startup"
    /\ LET o == role
           i == CHOOSE j \in 1..3 : StartupOrder[j] = o
           lft == IF cfg.su[o] = "keep" THEN left \cup {o} ELSE left
           nx == StartFrom(i + 1, lft)
       IN /\ cb' = Append(cb, CbRec("startup", o, cfg.su[o]))
          /\ left' = lft
          /\ pc' = nx[1]
          /\ role' = IF nx[1] = "startup" THEN StartupOrder[nx[2]] ELSE ""
    /\ Step("Startup")
    /\ UNCHANGED <<polls, envk, gone, found, ret, led, err, termSeen>>

\* no option given at all: connect() returns None without any callback
\* (pc "ret" = about to return; the value is decided by RetVal)
RetVal ==
    IF err THEN "False"
    ELSE IF cb # <<>> /\ cb[Len(cb)].n = "connect" /\ ~cb[Len(cb)].r THEN ObjOf(cb[Len(cb)].o)
    ELSE IF cb # <<>> /\ cb[Len(cb)].n = "release" /\ cb[Len(cb)].r THEN "True"
    ELSE "None"

Return ==
    /\ pc = "ret"
    /\ ret' = RetVal
    /\ Goto("done")
    /\ Step("Return")
    /\ UNCHANGED <<role, left, polls, envk, gone, found, cb, led, err, termSeen>>

TermNow == polls >= cfg.termAt
\* `while not terminate():` of the main loop
Poll ==
    /\ pc = "poll"
    /\ polls' = polls + 1
    /\ termSeen' = (termSeen \/ TermNow)
    /\ IF TermNow THEN Goto("ret") /\ UNCHANGED role
       ELSE /\ Goto(PhaseFrom(1))
            /\ role' = IF PhaseFrom(1) = "llcp_act" THEN FirstRole ELSE role
    /\ Step("Term")
    /\ UNCHANGED <<left, envk, gone, found, cb, ret, led, err>>

\* entering a phase sets the llcp role to try first
Enter(p) == /\ Goto(p)
            /\ role' = IF p = "llcp_act" THEN FirstRole ELSE role

DeviceFails == cfg.env \in {"ioerror", "unsupported"}
\* the default rdwr target list has three entries: targets the device does not support are skipped, not raised
SenseFails == cfg.env = "ioerror" \/ (cfg.env = "unsupported" /\ ~cfg.empty["rdwr"])
ListenFails == DeviceFails \/ cfg.env = "tagU"       \* listen() ends in an exception
Fail == /\ err' = TRUE /\ Goto("ret")

-----------------------------------------------------------------------------
\* reader/writer
SenseRes == IF SenseFails THEN cfg.env
            ELSE IF cfg.env \in {"tag", "tagU", "tagX"} /\ ~gone THEN "tag"
            ELSE IF cfg.env = "peerT" /\ ~gone THEN "dep"
            ELSE "none"

RdwrSense ==
    /\ pc = "rdwr_sense"
    /\ found' = SenseRes
    /\ IF SenseFails THEN Fail /\ UNCHANGED role
       ELSE IF SenseRes = "none" THEN Enter(AfterPhase("rdwr")) /\ UNCHANGED err
       ELSE Goto("rdwr_disc") /\ UNCHANGED <<err, role>>
    /\ Step("Sense")
    /\ UNCHANGED <<left, polls, envk, gone, cb, ret, led, termSeen>>

\* activated: nfc.tag.activate() returned a tag (always, unless the activation is disturbed - env tagX)
RdwrDiscoverP(activated) ==
    /\ pc = "rdwr_disc"
    /\ activated \/ cfg.env = "tagX"
    /\ cb' = Append(cb, CbRec("discover", "rdwr", cfg.disc["rdwr"]))
    /\ IF cfg.disc["rdwr"] /\ found = "tag" /\ activated
       THEN Goto("rdwr_conn") /\ UNCHANGED role
       ELSE Enter(AfterPhase("rdwr"))     \* refused / a P2P device no tag type activates / disturbed activation
    /\ Step("Discover")
    /\ UNCHANGED <<left, polls, envk, gone, found, ret, led, err, termSeen>>
RdwrDiscover == \E activated \in BOOLEAN : RdwrDiscoverP(activated)

RdwrConnect ==
    /\ pc = "rdwr_conn"
    /\ cb' = Append(cb, CbRec("connect", "rdwr", cfg.conn["rdwr"]))
    /\ IF ~cfg.conn["rdwr"] THEN Goto("ret")
       ELSE IF cfg.beep THEN Goto("led_on") ELSE Goto("pres_poll")
    /\ Step("Connect")
    /\ UNCHANGED <<role, left, polls, envk, gone, found, ret, led, err, termSeen>>

LedOn ==
    /\ pc = "led_on"
    /\ led' = TRUE
    /\ Goto("pres_poll")
    /\ Step("LedOn")
    /\ UNCHANGED <<role, left, polls, envk, gone, found, cb, ret, err, termSeen>>

\* `while not terminate() and tag.is_present:`
PresPoll ==
    /\ pc = "pres_poll"
    /\ polls' = polls + 1
    /\ termSeen' = (termSeen \/ TermNow)
    /\ IF TermNow THEN Goto("led_off") ELSE Goto("presence")
    /\ Step("Term")
    /\ UNCHANGED <<role, left, envk, gone, found, cb, ret, led, err>>

Presence ==
    /\ pc = "presence"
    /\ IF envk > 0 THEN envk' = envk - 1 /\ Goto("pres_poll") /\ UNCHANGED gone
       ELSE gone' = TRUE /\ Goto("led_off") /\ UNCHANGED envk
    /\ Step("Presence")
    /\ UNCHANGED <<role, left, polls, found, cb, ret, led, err, termSeen>>

LedOff ==
    /\ pc = "led_off"
    /\ led' = FALSE
    /\ Goto("rdwr_rel")
    /\ Step("LedOff")
    /\ UNCHANGED <<role, left, polls, envk, gone, found, cb, ret, err, termSeen>>

Release(o, p) ==
    /\ pc = p
    /\ cb' = Append(cb, CbRec("release", o, cfg.rel[o]))
    /\ IF cfg.rel[o] THEN Goto("ret") /\ UNCHANGED role ELSE Enter(AfterPhase(o))
    /\ Step("Release")
    /\ UNCHANGED <<left, polls, envk, gone, found, ret, led, err, termSeen>>

-----------------------------------------------------------------------------
\* peer to peer
ActOk == \/ role = "target" /\ cfg.env = "peerI" /\ ~gone
         \/ role = "initiator" /\ cfg.env = "peerT" /\ ~gone
NextRole == IF role = "target" /\ cfg.role = "both" THEN "initiator" ELSE ""

LlcActivate ==
    /\ pc = "llcp_act"
    /\ IF DeviceFails \/ (ListenFails /\ role = "target") THEN Fail /\ UNCHANGED role
       ELSE IF ActOk THEN Goto("llcp_conn") /\ UNCHANGED <<err, role>>
       ELSE IF NextRole # "" THEN role' = NextRole /\ UNCHANGED <<pc, err>>
       ELSE Enter(AfterPhase("llcp")) /\ UNCHANGED err
    /\ Step("LlcAct")
    /\ UNCHANGED <<left, polls, envk, gone, found, cb, ret, led, termSeen>>

LlcConnect ==
    /\ pc = "llcp_conn"
    /\ cb' = Append(cb, CbRec("connect", "llcp", cfg.conn["llcp"]))
    /\ IF ~cfg.conn["llcp"] THEN Goto("ret")
       ELSE IF role = "target" THEN Goto("run_first") ELSE Goto("run_poll")
    /\ Step("Connect")
    /\ UNCHANGED <<role, left, polls, envk, gone, found, ret, led, err, termSeen>>

\* run_as_target: the first PDU came with the activation
RunFirst ==
    /\ pc = "run_first"
    /\ Goto("run_poll")
    /\ Step("Xchg")
    /\ UNCHANGED <<role, left, polls, envk, gone, found, cb, ret, led, err, termSeen>>

\* `while not terminate():` of the symmetry loop; as target a link that is already gone is noticed after it
RunPoll ==
    /\ pc = "run_poll"
    /\ polls' = polls + 1
    /\ termSeen' = (termSeen \/ TermNow)
    /\ IF TermNow \/ (role = "target" /\ gone) THEN Goto("run_end") ELSE Goto("run_x")
    /\ Step("Term")
    /\ UNCHANGED <<role, left, envk, gone, found, cb, ret, led, err>>

RunXchg ==
    /\ pc = "run_x"
    /\ IF envk > 0 THEN envk' = envk - 1 /\ Goto("run_poll") /\ UNCHANGED gone
       ELSE /\ gone' = TRUE /\ UNCHANGED envk
            /\ IF role = "target" THEN Goto("run_poll") ELSE Goto("run_end")
    /\ Step("Xchg")
    /\ UNCHANGED <<role, left, polls, found, cb, ret, led, err, termSeen>>

RunEnd ==
    /\ pc = "run_end"
    /\ gone' = TRUE                                   \* llc.terminate() deactivates the link
    /\ Goto("llcp_rel")
    /\ Step("RunEnd")
    /\ UNCHANGED <<role, left, polls, envk, found, cb, ret, led, err, termSeen>>

-----------------------------------------------------------------------------
\* card emulation
CardListen ==
    /\ pc = "card_listen"
    /\ IF ListenFails THEN Fail
       ELSE IF cfg.env \in {"reader", "readerU"} /\ ~gone THEN Goto("card_disc") /\ UNCHANGED err
       ELSE Goto("poll") /\ UNCHANGED err
    /\ Step("Listen")
    /\ UNCHANGED <<role, left, polls, envk, gone, found, cb, ret, led, termSeen>>

CardDiscover ==
    /\ pc = "card_disc"
    /\ cb' = Append(cb, CbRec("discover", "card", cfg.disc["card"]))
    \* accepted and nfc.tag.emulate() built a tag emulation: on-connect follows; otherwise keep listening
    /\ IF cfg.disc["card"] /\ cfg.env # "readerU" THEN Goto("card_conn") ELSE Goto("poll")
    /\ Step("Discover")
    /\ UNCHANGED <<role, left, polls, envk, gone, found, ret, led, err, termSeen>>

CardConnect ==
    /\ pc = "card_conn"
    /\ cb' = Append(cb, CbRec("connect", "card", cfg.conn["card"]))
    /\ IF cfg.conn["card"] THEN Goto("serve_poll") ELSE Goto("ret")
    /\ Step("Connect")
    /\ UNCHANGED <<role, left, polls, envk, gone, found, ret, led, err, termSeen>>

ServePoll ==
    /\ pc = "serve_poll"
    /\ polls' = polls + 1
    /\ termSeen' = (termSeen \/ TermNow)
    /\ IF TermNow THEN Goto("card_rel") ELSE Goto("serve")
    /\ Step("Term")
    /\ UNCHANGED <<role, left, envk, gone, found, cb, ret, led, err>>

Serve ==
    /\ pc = "serve"
    /\ IF envk > 0 THEN envk' = envk - 1 /\ Goto("serve_poll") /\ UNCHANGED gone
       ELSE gone' = TRUE /\ Goto("card_rel") /\ UNCHANGED envk
    /\ Step("Serve")
    /\ UNCHANGED <<role, left, polls, found, cb, ret, led, err, termSeen>>

Next ==
    \/ Begin \/ Startup \/ Return \/ Poll
    \/ RdwrSense \/ RdwrDiscover \/ RdwrConnect \/ LedOn \/ PresPoll \/ Presence \/ LedOff
    \/ Release("rdwr", "rdwr_rel") \/ Release("llcp", "llcp_rel") \/ Release("card", "card_rel")
    \/ LlcActivate \/ LlcConnect \/ RunFirst \/ RunPoll \/ RunXchg \/ RunEnd
    \/ CardListen \/ CardDiscover \/ CardConnect \/ ServePoll \/ Serve

Spec == Init /\ [][Next]_vars

-----------------------------------------------------------------------------
\* The documented contract, as predicates over the recorded history (parametric: trace mode primes them)

IsCb(c, n) == c.n = n
ConnT(c) == c.n = "connect" /\ c.r = TRUE
NumOf(s, P(_)) == Cardinality({i \in DOMAIN s : P(s[i])})

\* on-startup first (once per option), then per activation: on-discover -> on-connect -> on-release
OrderP(s) ==
    /\ \A i \in DOMAIN s : IsCb(s[i], "startup") =>
          /\ \A j \in 1..(i - 1) : IsCb(s[j], "startup") /\ s[j].o # s[i].o
    /\ \A i \in DOMAIN s : s[i].n \in {"discover", "connect", "release"} =>
          \E j \in 1..(i - 1) : IsCb(s[j], "startup") /\ s[j].o = s[i].o /\ s[j].r = "keep"
    /\ \A i \in DOMAIN s : IsCb(s[i], "discover") =>
          (i > 1 => ~ConnT(s[i - 1])) /\ s[i].o # "llcp"
    /\ \A i \in DOMAIN s : IsCb(s[i], "connect") =>
          IF s[i].o = "llcp" THEN (i > 1 => ~ConnT(s[i - 1]))
          ELSE i > 1 /\ IsCb(s[i - 1], "discover") /\ s[i - 1].o = s[i].o /\ s[i - 1].r = TRUE
    /\ \A i \in DOMAIN s : IsCb(s[i], "release") =>
          i > 1 /\ ConnT(s[i - 1]) /\ s[i - 1].o = s[i].o

\* on-release exactly once for every on-connect that returned true and never otherwise
ReleaseIffP(s, finished) ==
    LET nc == NumOf(s, ConnT)
        nr == NumOf(s, LAMBDA c : IsCb(c, "release"))
    IN /\ nr <= nc /\ nc <= nr + 1
       /\ finished => nr = nc

\* None / False / True / the tag, llc, emulation object
ReturnValueP(p, r, s, lft, e, ts) ==
    p = "done" =>
       /\ r \in {"None", "False", "True", "tag", "llc", "emu"}
       /\ (r = "False") = e
       /\ (r \in {"tag", "llc", "emu"}) = (~e /\ s # <<>> /\ s[Len(s)].n = "connect" /\ ~s[Len(s)].r)
       /\ r \in {"tag", "llc", "emu"} => r = ObjOf(s[Len(s)].o)
       /\ (r = "True") = (~e /\ s # <<>> /\ s[Len(s)].n = "release" /\ s[Len(s)].r)
       /\ r = "None" => (lft = {} \/ ts)

\* once terminate() has been true: no activation, no callback other than on-release, no data exchange;
\* at most LED off / link shutdown, on-release, the remaining discovery attempts of this round (<= 3),
\* one more poll and the return
PromptP(a, lw) == a <= 7 /\ ~lw

\* the LED/buzzer is on only while a tag is being watched and is off when connect() returns
LedP(p, ld) == /\ ld => p \in {"pres_poll", "presence", "led_off"} /\ cfg.beep
               /\ p = "done" => ~ld

Order == OrderP(cb)
ReleaseIff == ReleaseIffP(cb, pc = "done")
ReturnValue == ReturnValueP(pc, ret, cb, left, err, termSeen)
Prompt == PromptP(after, lateWork)
Led == LedP(pc, led)

TypeOK == /\ cfg \in CfgSpace(KMax, Nat)
          /\ left \subseteq Opt
          /\ polls \in Nat /\ envk \in Nat

-----------------------------------------------------------------------------
\* Reachability witnesses
W_RetTrue == ~(pc = "done" /\ ret = "True")
W_RetObj == ~(pc = "done" /\ ret = "llc")
W_RetFalse == ~(pc = "done" /\ ret = "False")
W_RetNoneNoOpt == ~(pc = "done" /\ ret = "None" /\ left = {} /\ cb # <<>>)
W_TermInPresence == ~(pc = "led_off" /\ termSeen /\ led)
W_ReleaseFalseLoops == ~(pc = "poll" /\ cb # <<>> /\ cb[Len(cb)].n = "release" /\ ~cb[Len(cb)].r)
W_TagVanished == ~(pc = "led_off" /\ gone /\ ~termSeen)
W_PeerReleased == ~(pc = "run_end" /\ gone /\ ~termSeen /\ role = "target")
W_NotEmulatable == ~(pc = "poll" /\ cfg.env = "readerU" /\ cb # <<>> /\ cb[Len(cb)].n = "discover" /\ cb[Len(cb)].r)
W_ReaderLeft == ~(pc = "card_rel" /\ gone /\ ~termSeen)
=============================================================================
