SPECIFICATION Spec
CONSTANTS
  MaxOpts = 1
  KMax = 1
  TMax = 3
CHECK_DEADLOCK FALSE
