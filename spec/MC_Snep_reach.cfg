SPECIFICATION Spec
CONSTANTS
  Hdr = 2
  AccF = 1
  CMius = {4, 5}
  SMius = {4, 5}
  Lens = {0, 1, 2, 3, 4, 5, 7, 9, 11}
  MaxAccs = {6, 30}
  Accs = {3, 30}
  MaxReq = 3





CHECK_DEADLOCK FALSE
