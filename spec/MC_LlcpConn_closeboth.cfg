SPECIFICATION Spec
CONSTANTS
  EarlyOrder = "cc-first"
  Clients = {"c1"}
  Backlog = 1
  Mius = {128}
  RWs = {1}
  LinkMiuA = 150
  LinkMiuB = 300
  MaxAcc = 1
  Hows = {"sap"}
  ListenerPresent = TRUE
PROPERTY CloseCompletes
CHECK_DEADLOCK FALSE
