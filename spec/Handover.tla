--------------------------- MODULE Handover ---------------------------
(* Connection handover request/select exchange between nfc/handover/client.py (send_octets 68-78,
   recv_octets 92-113) and nfc/handover/server.py (serve 63-96) over a data link connection (a reliable
   FIFO, C05).  Messages are sliced by the sender's send MIU; the receiver appends fragments until the
   octets decode as one complete NDEF message.  A fragment record [n, tot, h] carries its length n and
   what its bytes imply: the total length tot of the message it belongs to and (first fragment) the
   identity h of the message octets.  One action per socket.send()/recv() and per callback.
   The server answers a request of identity h with a select message of length G(h) (test server: RespLen).
   Modelled as the code is after the fix "start a new request buffer after each response". *)
EXTENDS Naturals, Sequences, TLC

CONSTANTS CMius, SMius, Lens, RespLens, MaxReq

VARIABLES c, s, c2s, s2c, cm, sm, reqs, delivered, results
vars == <<c, s, c2s, s2c, cm, sm, reqs, delivered, results>>
Min(a, b) == IF a < b THEN a ELSE b
Frag(n, tot, h) == [n |-> n, tot |-> tot, h |-> h]

CIdle == [pc |-> "idle", L |-> 0, off |-> 0, rgot |-> 0, h |-> 0, G |-> 0]
SIdle == [pc |-> "idle", buf |-> 0, h |-> 0, tot |-> 0, sq |-> <<>>]

Init == /\ c = CIdle /\ s = SIdle /\ c2s = <<>> /\ s2c = <<>> /\ cm \in CMius /\ sm \in SMius
        /\ reqs = <<>> /\ delivered = <<>> /\ results = <<>>

CStart(L, G, h) ==
    /\ c.pc = "idle" /\ Len(reqs) < MaxReq /\ L > 0
    /\ c' = [CIdle EXCEPT !.pc = "send", !.L = L, !.h = h, !.G = G]
    /\ reqs' = Append(reqs, [L |-> L, G |-> G, h |-> h])
    /\ UNCHANGED <<s, c2s, s2c, cm, sm, delivered, results>>

CNext == Frag(Min(cm, c.L - c.off), c.L, IF c.off = 0 THEN c.h ELSE 0)
CSend ==
    /\ c.pc = "send"
    /\ c2s' = Append(c2s, CNext)
    /\ c' = [c EXCEPT !.off = @ + CNext.n, !.pc = IF c.off + CNext.n = c.L THEN "wait" ELSE "send"]
    /\ UNCHANGED <<s, s2c, cm, sm, reqs, delivered, results>>

CRecv ==
    /\ c.pc = "wait" /\ s2c # <<>>
    /\ LET f == Head(s2c) IN
       /\ s2c' = Tail(s2c)
       /\ IF c.rgot + f.n = f.tot
          THEN /\ c' = [CIdle EXCEPT !.pc = "done"]
               /\ results' = Append(results, [h |-> c.h, len |-> f.tot])
          ELSE /\ c' = [c EXCEPT !.rgot = @ + f.n] /\ results' = results
    /\ UNCHANGED <<s, c2s, cm, sm, reqs, delivered>>
CRet == /\ c.pc = "done" /\ c' = CIdle /\ UNCHANGED <<s, c2s, s2c, cm, sm, reqs, delivered, results>>

SRecv ==
    /\ c2s # <<>> /\ s.sq = <<>> /\ s.pc = "idle"
    /\ LET f == Head(c2s) IN
       /\ c2s' = Tail(c2s)
       /\ s' = LET h0 == IF s.buf = 0 THEN f.h ELSE s.h IN
               IF s.buf + f.n = f.tot THEN [s EXCEPT !.pc = "deliver", !.buf = @ + f.n, !.h = h0, !.tot = f.tot]
               ELSE [s EXCEPT !.buf = @ + f.n, !.h = h0, !.tot = f.tot]
    /\ UNCHANGED <<c, s2c, cm, sm, reqs, delivered, results>>

RECURSIVE Chunks(_, _, _)
Chunks(rest, tot, miu) == IF rest = 0 THEN <<>>
                          ELSE <<Frag(Min(rest, miu), tot, 0)>> \o Chunks(rest - Min(rest, miu), tot, miu)

GOf(h) == (CHOOSE i \in DOMAIN reqs : reqs[i].h = h)
Deliver ==
    /\ s.pc = "deliver"
    /\ delivered' = Append(delivered, [L |-> s.buf, h |-> s.h])
    /\ s' = [SIdle EXCEPT !.sq = Chunks(reqs[GOf(s.h)].G, reqs[GOf(s.h)].G, sm)]     \* new request buffer
    /\ UNCHANGED <<c, c2s, s2c, cm, sm, reqs, results>>

SSend ==
    /\ s.sq # <<>>
    /\ s2c' = Append(s2c, Head(s.sq)) /\ s' = [s EXCEPT !.sq = Tail(@)]
    /\ UNCHANGED <<c, c2s, cm, sm, reqs, delivered, results>>

Next == \/ \E L \in Lens, G \in RespLens : CStart(L, G, Len(reqs) + 1)
        \/ CSend \/ CRecv \/ CRet \/ SRecv \/ Deliver \/ SSend
Spec == Init /\ [][Next]_vars

\* ---- properties (C06) -------------------------------------------------------------------------
\* each request message reaches process_handover_request_message octet-identical, exactly once, in order
DeliveredIntactP(rq, dl) == /\ Len(dl) <= Len(rq)
                            /\ \A i \in DOMAIN dl : dl[i].h = rq[i].h /\ dl[i].L = rq[i].L
DeliveredIntact == DeliveredIntactP(reqs, delivered)
\* each answer reaches the client complete, for its own request
ResultsP(rq, rs) == /\ Len(rs) <= Len(rq)
                    /\ \A i \in DOMAIN rs : rs[i].h = rq[i].h /\ rs[i].len = rq[i].G
Results == ResultsP(reqs, results)
FragmentFitsP(a, b, x, y) == (\A i \in DOMAIN a : a[i].n <= x) /\ (\A i \in DOMAIN b : b[i].n <= y)
FragmentFits == FragmentFitsP(c2s, s2c, cm, sm)

W_Frag == ~(\E i \in DOMAIN c2s : c2s[i].n < c2s[i].tot)
W_Two  == ~(Len(results) >= 2)
=============================================================================
