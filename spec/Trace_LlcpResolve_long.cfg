SPECIFICATION TSpec
CONSTANTS
  Threads <- TraceThreads
  Names <- LongNames
  PeerSnl <- LongPeer
  NameLen <- LongLen
  SendMiu = 128
  PopHead = FALSE
  MaxCalls = 100
  WakeCheck = TRUE
  Tids <- TraceTids
  GiveBack = TRUE
CONSTRAINT Done
CHECK_DEADLOCK FALSE
