------------------------- MODULE Trace_TagAuth -------------------------
(* Trace validation for TagAuth: one recorded execution of a real FelicaLite / FelicaLiteS / NTAG21x
   object against a simulated tag (sim/auth_*.py) with an adversary script on the channel.  Every
   command the reader sent, every modification the harness applied to a response, the point where
   the reader consumed a response (Check, with what the code did next) and the value the caller got
   (Return) is one event; all C20 invariants are evaluated as step post-conditions.  (DESIGN App. A) *)
EXTENDS TagAuth, Json, IOUtils, TLCExt

VARIABLES tid, l, hl          \* hl: the genuine authenticated responses in channel order (for Replay j)
tvars == <<vars, tid, l, hl>>

Traces == ndJsonDeserialize(IOEnv.TRACE_FILE)
T == Traces[tid].ev
I == Traces[tid].init

TInit ==
    /\ tid \in 1..Len(Traces)
    /\ l = 1 /\ hl = <<>>
    /\ InitWith(TagInit(I.kind, I.ck, [b \in DOMAIN I.blk |-> DV(I.blk[b])], I.locked, I.keychg, I.id1))

Ev == T[l]
IsEv(a) == l <= Len(T) /\ Ev.a = a /\ l' = l + 1 /\ UNCHANGED tid

GStartAuth    == IsEv("StartAuth") /\ StartAuth(Ev.pw)
GStartProtect == IsEv("StartProtect") /\ StartProtect(Ev.pw, {Ev.bs[i] : i \in DOMAIN Ev.bs})
GStartRead    == IsEv("StartRead") /\ StartRead(Ev.bs)
GStartWrite   == IsEv("StartWrite") /\ StartWrite(Ev.b, Ev.v)
GStartNdef    == IsEv("StartNdef") /\ (StartNdef \/ NdefCached)
GDropCache    == IsEv("DropCache") /\ DropCache
GNNdefRead    == IsEv("NNdefRead") /\ NNdefRead
GAWriteRC     == IsEv("AWriteRC") /\ AWriteRC
GAReadId      == IsEv("AReadId") /\ AReadId
GSReadWcnt    == IsEv("SReadWcnt") /\ SReadWcnt
GSReadState   == IsEv("SReadState") /\ SReadState /\ Ev.d = <<resp'.d[1].v>>    \* what the tag said
GNPwd         == IsEv("NPwd") /\ NPwd /\ Ev.hit = (resp'.k = "data")
GRRead        == IsEv("RRead") /\ RRead /\ Ev.d = [i \in DOMAIN resp'.d |-> resp'.d[i].v]
GCheck        == IsEv("Check") /\ Check(Ev.out)
GFlipData     == IsEv("AdvFlipData") /\ AdvFlipData(Ev.i)
GFlipMac      == IsEv("AdvFlipMac") /\ AdvFlipMac
GSwap         == IsEv("AdvSwap") /\ AdvSwap
GPad          == IsEv("AdvPad") /\ AdvPad
GCount        == IsEv("AdvCount") /\ AdvCount(Ev.i)
GReplay       == IsEv("AdvReplay") /\ Ev.j \in DOMAIN hl /\ AdvReplay(hl[Ev.j])
\* commands that touch nothing the model tracks (NDEF reads, CKV, CC page, repeated commands ...),
\* never while a modelled response is in flight
GOther        == IsEv("Other") /\ ~InFlight /\ UNCHANGED vars
\* the caller's view: return value / exception class, returned data
GReturn       == /\ IsEv("Return") /\ pc = "idle" /\ last.op # "none"
                 /\ Ev.res = last.res /\ Ev.d = last.d
                 /\ Ev.ck = tag.ck /\ Ev.locked = tag.locked          \* the simulated tag's state ...
                 /\ Ev.auth = rd.auth /\ (Felica => Ev.has = rd.has) /\ Ev.cached = rd.cset  \* ... and the tag object's
                 /\ UNCHANGED vars

Guarded == GStartAuth \/ GStartProtect \/ GStartRead \/ GStartWrite \/ GStartNdef \/ GDropCache \/ GNNdefRead \/ GAWriteRC \/ GAReadId \/ GSReadWcnt
           \/ GSReadState \/ GNPwd \/ GRRead \/ GCheck \/ GFlipData \/ GFlipMac \/ GSwap \/ GPad \/ GCount \/ GReplay
           \/ GOther \/ GReturn

Logged == (Ev.a \in {"AReadId", "SReadState", "RRead"} /\ resp'.hm) \/ (Ev.a = "NPwd" /\ resp'.k = "data")
HistOk == hl' = IF Logged THEN Append(hl, resp') ELSE hl

InvNames == <<"ResultTyped", "AuthSound", "AuthComplete", "ProtectKey", "ProtectThenAuth",
              "MacReadFresh", "MacReadAuthentic", "MacReadComplete", "NdefVerified">>
InvP(n) == CASE n = "ResultTyped" -> ResultTypedP(last')
             [] n = "AuthSound" -> AuthSoundP(last')
             [] n = "AuthComplete" -> AuthCompleteP(last')
             [] n = "ProtectKey" -> ProtectKeyP(last', prot', tag', pc' = "idle")
             [] n = "ProtectThenAuth" -> ProtectThenAuthP(last', prot')
             [] n = "MacReadFresh" -> MacReadFreshP(last')
             [] n = "MacReadAuthentic" -> MacReadAuthenticP(last', hist')
             [] n = "MacReadComplete" -> MacReadCompleteP(last')
             [] n = "NdefVerified" -> NdefVerifiedP(last')
\* a failure already reported for this trace (same invariant, operation and outcome) is stepped over on
\* the next validation pass so that the rest of the execution is still checked
Tol == {Traces[tid].tol[i] : i \in DOMAIN Traces[tid].tol}
Sig(n) == <<n, last'.op, last'.res>>
AllInv == \A i \in DOMAIN InvNames : InvP(InvNames[i]) \/ Sig(InvNames[i]) \in Tol

Real == Guarded /\ HistOk /\ AllInv

FailedInv == SelectSeq(InvNames, LAMBDA n : ~ENABLED (Guarded /\ HistOk /\ (InvP(n) \/ Sig(n) \in Tol)))
Expected == IF Ev.a = "Check" THEN {o \in Outcomes : ENABLED (IsEv("Check") /\ Check(o))}
            ELSE IF Ev.a = "Return" THEN {<<last.res, last.d, tag.ck, tag.locked, rd.auth, rd.has, rd.cset>>}
            ELSE {}
Why == IF ~ENABLED Guarded THEN <<"guard", pc, Expected>>
       ELSE <<"inv", FailedInv, pc>>

Stuck ==
    /\ l <= Len(T)
    /\ ~ENABLED Real
    /\ PrintT(<<"STUCK", Traces[tid].id, l, Ev.a, Why>>)
    /\ l' = Len(T) + 2
    /\ UNCHANGED <<vars, tid, hl>>

TNext == Real \/ Stuck
TSpec == TInit /\ [][TNext]_tvars

Done == (l = Len(T) + 1) => PrintT(<<"ACCEPT", Traces[tid].id>>)
=============================================================================
