SPECIFICATION Spec
CONSTANTS
  Kinds = {"lite", "lites", "topaz", "topaz512"}
  NB = 3
  KeyNames = {"k0", "kA"}
  PFs = {0, 1, 2, 3, 5}
  MaxOps = 2
  MaxCut = 1
  InitRW <- RWs
INVARIANT Reached
INVARIANT TypeOK
INVARIANT ResultTyped
INVARIANT FormatSound
INVARIANT FormatFalse
INVARIANT ProtectSound
INVARIANT OneWay
INVARIANT LockedKey
INVARIANT KeyKnown
INVARIANT TopazSound
INVARIANT Confined
CHECK_DEADLOCK FALSE
