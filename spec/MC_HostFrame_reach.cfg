SPECIFICATION Spec
CONSTANTS
  MaxLenEmpty = 6
  MaxLenSeed = 10
  Alphabet = {0, 255, 2, 254, 213, 67, 232}
  Code = 66
  LongN = 40
CHECK_DEADLOCK FALSE
