SPECIFICATION TSpec
CONSTANTS
  Sides = {"I", "T"}
  MaxAct = 1000000
CONSTRAINT Done
CHECK_DEADLOCK FALSE
