------------------------- MODULE Trace_VendorFmt -------------------------
(* Trace validation for VendorFmt: format() / protect() of real FelicaLite, FelicaLiteS, Topaz and Topaz512 objects on
   sim/vendor_sony.SimLite and sim/vendor_broadcom.SimTopaz.  Every state-changing command (block class, decoded
   value, executed or refused), power cuts, and the value the caller got with the projection of the simulated
   card is one event; the invariants are step post-conditions. *)
EXTENDS VendorFmt, Json, IOUtils, TLCExt

VARIABLES tid, l
tvars == <<vars, tid, l>>

Traces == ndJsonDeserialize(IOEnv.TRACE_FILE)
T == Traces[tid].ev
I == Traces[tid].init
S(q) == {q[i] : i \in DOMAIN q}
Attr(a) == [v |-> a.v, n |-> a.n, rwf |-> a.rwf, ver |-> a.ver]
Mc(m) == [rw |-> S(m.rw), sys |-> m.sys, nd |-> m.nd, rdm |-> S(m.rdm), wrm |-> S(m.wrm), wam |-> S(m.wam), kc |-> m.kc, same |-> m.same]

TInit ==
    /\ tid \in 1..Len(Traces) /\ l = 1
    /\ IF Felica(I.kind)
       THEN InitWith([LiteInit(I.kind, S(I.rw), I.sys, I.nd, Attr(I.attr), I.ck) EXCEPT !.rdm = S(I.rdm), !.wrm = S(I.wrm),
                                                                                      !.wam = S(I.wam), !.kc = I.kc])
       ELSE InitWith(TopazInit(I.kind, I.cc, I.ccro, S(I.lock)))

Ev == T[l]
IsEv(a) == l <= Len(T) /\ Ev.a = a /\ l' = l + 1 /\ UNCHANGED tid
Val(c, v) == CASE c = "mc" -> Mc(v) [] c = "b0" -> Attr(v) [] OTHER -> v

GStartFormat  == IsEv("Start") /\ Ev.op = "format" /\ StartFormat(Ev.ver, Ev.wipe)
GStartProtect == IsEv("Start") /\ Ev.op = "protect" /\ Felica(tag.kind) /\ StartProtect(Ev.pw, Ev.rp, Ev.pf)
GStartTProt   == IsEv("Start") /\ Ev.op = "protect" /\ ~Felica(tag.kind) /\ StartTProtect(Ev.pw)
GWrite == /\ IsEv("Write") /\ pc \in WritePcs
          /\ Ev.c = WriteAt(pc).c /\ Val(Ev.c, Ev.v) = WriteAt(pc).v /\ Ev.ok = WriteOk(tag, Ev.c)
          /\ Write
GWipe  == IsEv("Wipe") /\ pc = "ff_wp" /\ Ev.b = op.i + 1 /\ Ev.ok = UserWriteOk(tag, Ev.b) /\ Wipe
GAuth  == IsEv("Auth") /\ Auth(Ev.ok)
GCut   == IsEv("Cut") /\ (Cut \/ (pc = "idle" /\ tag.on /\ tag' = [tag EXCEPT !.on = FALSE, !.ext = FALSE]
                                  /\ UNCHANGED <<pc, op, last, nops, ncut, wlog>>))
GPower == IsEv("PowerOn") /\ PowerOn
GReturn == /\ IsEv("Return") /\ pc = "idle" /\ last.op # "none" /\ Ev.res = last.res
           /\ IF Felica(tag.kind)
              THEN /\ S(Ev.rw) = tag.rw /\ Ev.sys = tag.sys /\ Ev.nd = tag.nd /\ Attr(Ev.attr) = tag.attr
                   /\ S(Ev.wiped) = tag.wiped /\ Ev.ck = tag.ck /\ Ev.ckv = tag.ckv /\ S(Ev.rdm) = tag.rdm
                   /\ S(Ev.wrm) = tag.wrm /\ S(Ev.wam) = tag.wam /\ Ev.kc = tag.kc /\ Ev.mcx = (tag.mcx = "m0")
              ELSE /\ Ev.cc = tag.cc /\ Ev.ccro = tag.ccro /\ S(Ev.lock) = tag.lock
                   /\ (Ev.cc = "ok" /\ last.op = "format" /\ last.res = "True" => Ev.attr.ver = tag.attr.ver)
           /\ Ev.other                                     \* nothing outside the modelled fields changed
           /\ UNCHANGED vars
Guarded == GStartFormat \/ GStartProtect \/ GStartTProt \/ GWrite \/ GWipe \/ GAuth \/ GCut \/ GPower \/ GReturn

InvNames == <<"ResultTyped", "FormatSound", "FormatFalse", "ProtectSound", "OneWay", "LockedKey", "KeyKnown", "TopazSound", "Confined">>
IdleP == pc' = "idle" /\ last'.op = op'.name /\ ~last'.off
InvP(n) == CASE n = "ResultTyped" -> ResultTypedP(last')
             [] n = "FormatSound" -> FormatSoundP(last', op', tag', IdleP)
             [] n = "FormatFalse" -> (IdleP /\ last'.op = "format" /\ last'.res = "False") =>
                                        (tag'.attr = op'.attr0 /\ tag'.wiped = op'.wiped0 /\ tag'.rw = op'.rw0 /\ wlog' = <<>>)
             [] n = "ProtectSound" -> ProtectSoundP(last', op', tag', IdleP)
             [] n = "OneWay" -> (op'.name # "none" => OneWayP(tag', op'))
             [] n = "LockedKey" -> LockedKeyP(tag', op')
             [] n = "KeyKnown" -> (op'.name # "none" => KeyKnownP(tag', op'))
             [] n = "TopazSound" -> TopazSoundP(last', op', tag', IdleP)
             [] n = "Confined" -> ConfinedP(wlog', op', tag')
AllInv == \A i \in DOMAIN InvNames : InvP(InvNames[i])
Real == Guarded /\ AllInv
FailedInv == SelectSeq(InvNames, LAMBDA n : ~ENABLED (Guarded /\ InvP(n)))
Expected == CASE Ev.a = "Write" /\ pc \in WritePcs -> {<<WriteAt(pc).c, WriteAt(pc).v, WriteOk(tag, WriteAt(pc).c)>>}
              [] Ev.a = "Return" -> {<<last.res, tag>>}
              [] OTHER -> {}
Why == IF ~ENABLED Guarded THEN <<"guard", pc, Expected>> ELSE <<"inv", FailedInv, pc>>
Stuck == /\ l <= Len(T) /\ ~ENABLED Real
         /\ PrintT(<<"STUCK", Traces[tid].id, l, Ev.a, Why>>)
         /\ l' = Len(T) + 2 /\ UNCHANGED <<vars, tid>>
TNext == Real \/ Stuck
TSpec == TInit /\ [][TNext]_tvars
Done == (l = Len(T) + 1) => PrintT(<<"ACCEPT", Traces[tid].id>>)
=============================================================================
