---------------------------- MODULE Trace_TlvTag ----------------------------
(* Trace validation for TlvTag.  One trace = one operation (tag.ndef.octets = msg, or tag.format(wipe))
   of a real nfcpy Type1Tag / Type2Tag object against a simulated tag:
     Begin (what nfcpy parsed: NDEF TLV offset, capacity, reserved bytes; the argument),
     Cmd   (one per state-changing command the simulated tag executed: unit address + bytes as sent),
     Ret   (how the call ended, number of commands, the simulated tag's final memory),
     View  (what a FRESH nfcpy tag object reads from that memory).
   The spec rebuilds the memory from the deltas; every Cmd must be the next command of the write plan
   (of the code as it is, or as it is after the proposed fixes); all C01/C02/C03 invariants are
   evaluated by TLC as post-conditions of every real step.  (DESIGN.md App. A) *)
EXTENDS TlvTag, Json, IOUtils, TLCExt

VARIABLES tid, l
tvars == <<lay, mem, plans, k, pc, op, msg, last, tid, l>>

Traces == ndJsonDeserialize(IOEnv.TRACE_FILE)
T == Traces[tid].ev
C == Traces[tid].const

RangeSet(rs) == UNION {(rs[i][1]) .. (rs[i][2]) : i \in DOMAIN rs}
Relaxed(n) == \E i \in DOMAIN C.relax : C.relax[i] = n

TInit ==
    /\ tid \in 1..Len(Traces)
    /\ l = 1
    /\ lay = Derive([kind |-> C.kind, unit |-> C.unit, mem0 |-> C.mem0, ro |-> RangeSet(C.ro),
                     ow |-> RangeSet(C.ow), fmt |-> C.fmt])
    /\ mem = C.mem0
    /\ plans = {}
    /\ k = 0
    /\ pc = "idle"
    /\ op = "none"
    /\ msg = <<>>
    /\ last = [u |-> 0, ph |-> 0, any |-> FALSE]

Ev == T[l]
IsEv(a) == l <= Len(T) /\ Ev.a = a /\ l' = l + 1 /\ UNCHANGED <<tid, lay>>
BothVariants == {"asis", "fixed"}

\* relax "Plan": second pass over a trace whose commands deviate from every plan - the commands are taken as they
\* are (only the simulated tag's semantics apply), so that the property invariants still judge the real behaviour
Free == Relaxed("Plan")

\* ---- guarded spec actions ----------------------------------------------------------------
GBeginW ==
    /\ IsEv("Begin") /\ Ev.op = "write" /\ pc = "idle"
    /\ WellFormed(lay) /\ InScope(lay, Len(Ev.msg)) /\ lay.old = Ndef(C.old)
    /\ op' = "write" /\ msg' = Ev.msg
    /\ IF (IF Free THEN T[l + 1].a = "Ret" /\ T[l + 1].res = "reject"      \* free mode: as the code decided
                   ELSE Len(Ev.msg) > CodeCap(lay))
       THEN pc' = "rejected" /\ plans' = {}
       ELSE pc' = "run" /\ plans' = {Tagged(WritePlan(lay, mem, Ev.msg, v), v) : v \in BothVariants}
    /\ UNCHANGED <<mem, k, last>>

GBeginF ==
    /\ IsEv("Begin") /\ Ev.op = "format" /\ pc = "idle"
    /\ WellFormed(lay) /\ lay.fmt # "none" /\ lay.old = Ndef(C.old)
    /\ op' = "format" /\ msg' = <<Ev.wipe>>
    /\ pc' = "run" /\ plans' = {Tagged(FormatPlan(lay, mem, Ev.wipe, v), v) : v \in BothVariants}
    /\ UNCHANGED <<mem, k, last>>

Matching == {p \in plans : k < Len(p.cmds) /\ p.cmds[k + 1].u = Ev.u /\ p.cmds[k + 1].d = Ev.d}
GCmd ==
    /\ IsEv("Cmd") /\ pc = "run"
    /\ Free \/ Matching # {}
    /\ plans' = IF Matching # {} THEN Matching ELSE plans
    /\ mem' = Store(lay, mem, Ev.u, Ev.d)
    /\ last' = [u |-> Ev.u, ph |-> IF Matching # {} THEN (CHOOSE p \in Matching : TRUE).cmds[k + 1].ph ELSE 0,
                any |-> TRUE]
    /\ k' = k + 1
    /\ UNCHANGED <<pc, op, msg>>

GRet ==
    /\ IsEv("Ret")
    /\ CASE Ev.res = "ok"     -> pc = "run" /\ (Free \/ \E p \in plans : Len(p.cmds) = k /\ p.res = "ok") /\ pc' = "done"
         [] Ev.res = "crash"  -> pc = "run" /\ (Free \/ \E p \in plans : Len(p.cmds) = k /\ p.res = "crash") /\ pc' = "crashed"
         [] Ev.res = "reject" -> (pc = "rejected" \/ (Free /\ pc = "run")) /\ pc' = "rejected"
         [] Ev.res = "cut"    -> pc = "run" /\ (Free \/ \E p \in plans : k < Len(p.cmds)) /\ pc' = "cut"
         [] OTHER -> FALSE
    /\ UNCHANGED <<mem, plans, k, op, msg, last>>

GView ==
    /\ IsEv("View") /\ pc \in {"done", "crashed", "rejected", "cut"}
    /\ UNCHANGED <<mem, plans, k, pc, op, msg, last>>

Guarded == GBeginW \/ GBeginF \/ GCmd \/ GRet \/ GView

\* ---- logged results ------------------------------------------------------------------------
NSkip == Cardinality({a \in lay.skip : a < Size(lay.mem0)})
ResOk ==
    CASE Ev.a = "Begin" -> Free \/ (Ev.off = lay.off /\ Ev.cap = CodeCap(lay) /\ Ev.nskip = NSkip)
      [] Ev.a = "Ret"   -> Ev.n = k /\ Ev.mem = mem
      [] Ev.a = "View"  -> LET r == RefRead(lay, mem) IN
                           CASE r.k = "ndef" -> Ev.k = "ndef" /\ Ev.v = r.v
                             [] r.k \in {"none", "noread"} -> Ev.k = "none"
                             [] OTHER -> TRUE        \* malformed memory: judged by Atomic, not here
      [] OTHER -> TRUE

\* ---- invariants as step post-conditions ------------------------------------------------------
InvNames == <<"CapSound", "RejectEarly", "NoCrash", "RoundTrip", "Atomic", "Confined", "UnitsInArea", "LockOneWay">>
InvP(n) ==
    \/ Relaxed(n)
    \/ CASE n = "CapSound"    -> Ev.a = "Begin" => CapSoundP(lay) /\ Ev.cap <= RefCapacity(lay)
         [] n = "RejectEarly" -> pc' = "rejected" => k' = 0 /\ mem' = lay.mem0
         [] n = "NoCrash"     -> pc' # "crashed"
         [] n = "RoundTrip"   -> (Ev.a = "Ret" /\ pc' = "done") => RoundTripP(lay, mem', op', msg')
         [] n = "Atomic"      -> Ev.a = "Cmd" => AtomicP(lay, mem', op', msg')
         [] n = "Confined"    -> /\ Ev.a = "Cmd" => ConfinedP(lay, mem', UnitAddrs(lay, Ev.u))
                                 /\ Ev.a = "Ret" => ConfinedP(lay, mem', All(lay))
         [] n = "UnitsInArea" -> Ev.a = "Cmd" => UnitInAreaP(lay, Ev.u)
         [] n = "LockOneWay"  -> Ev.a = "Cmd" => OneWayP(lay, mem', UnitAddrs(lay, Ev.u))
AllInv == \A i \in DOMAIN InvNames : InvP(InvNames[i])

Real == Guarded /\ ResOk /\ AllInv

\* ---- diagnosis -------------------------------------------------------------------------------
FailedInv == SelectSeq(InvNames, LAMBDA n : ~ENABLED (Guarded /\ ResOk /\ InvP(n)))
Diag == [kind |-> lay.kind, fmt |-> lay.fmt, op |-> op, n |-> Len(msg), off |-> lay.off, pc |-> pc, k |-> k,
         ph |-> IF Ev.a = "Cmd" /\ Matching # {} THEN (CHOOSE p \in Matching : TRUE).cmds[k + 1].ph ELSE 0,
         long |-> Len(msg) >= LongLen, straddle |-> Straddle(lay), termbad |-> TermSlotBad(lay),
         wf |-> WellFormed(lay) /\ lay.old = Ndef(C.old)]
Expected ==
    CASE Ev.a = "Begin" -> <<lay.off, CodeCap(lay), NSkip>>
      [] Ev.a = "Cmd" -> {IF k < Len(p.cmds) THEN <<p.v, p.cmds[k + 1].u, p.cmds[k + 1].d>> ELSE <<p.v, 99999, <<>> >> : p \in plans}
      [] Ev.a = "Ret" -> <<k, {<<p.v, Len(p.cmds), p.res>> : p \in plans}>>
      [] Ev.a = "View" -> LET r == RefRead(lay, mem) IN <<r.k, Len(r.v)>>
      [] OTHER -> <<>>
Why == IF ~ENABLED Guarded THEN <<"guard", Expected, Diag>>
       ELSE IF ~ENABLED (Guarded /\ ResOk) THEN <<"result", Expected, Diag>>
       ELSE <<"inv", FailedInv, Diag>>

Stuck ==
    /\ l <= Len(T)
    /\ ~ENABLED Real
    /\ PrintT(<<"STUCK", Traces[tid].id, l, Ev.a, Why>>)
    /\ l' = Len(T) + 2
    /\ UNCHANGED <<lay, mem, plans, k, pc, op, msg, last, tid>>

TNext == Real \/ Stuck
TSpec == TInit /\ [][TNext]_tvars

Done == (l = Len(T) + 1) => PrintT(<<"ACCEPT", Traces[tid].id>>)
=============================================================================
