---------------------------- MODULE Trace_TlvTag ----------------------------
(* Trace validation for TlvTag.  One trace = one operation (tag.ndef.octets = msg, or tag.format(wipe))
   of a real nfcpy Type1Tag / Type2Tag object against a simulated tag:
     Begin (what nfcpy parsed: NDEF TLV offset, capacity, reserved bytes; the argument),
     Cmd   (one per state-changing command the simulated tag executed: unit address + bytes as sent),
     Ret   (how the call ended, number of commands, the simulated tag's final memory),
     View  (what a FRESH nfcpy tag object reads from that memory).
   The spec rebuilds the memory from the deltas; every Cmd must be the next command of the write plan
   (of the code as it is, or as it is after the proposed fixes); all C01/C02/C03 invariants are
   evaluated by TLC as post-conditions of every real step.  (DESIGN.md App. A) *)
EXTENDS TlvTag, Json, IOUtils, TLCExt

VARIABLES tid, l
tvars == <<lay, mem, plans, k, pc, op, msg, last, rd, tid, l>>

Traces == ndJsonDeserialize(IOEnv.TRACE_FILE)
T == Traces[tid].ev
C == Traces[tid].const

RangeSet(rs) == UNION {(rs[i][1]) .. (rs[i][2]) : i \in DOMAIN rs}
Relaxed(n) == \E i \in DOMAIN C.relax : C.relax[i] = n

TInit ==
    /\ tid \in 1..Len(Traces)
    /\ l = 1
    /\ lay = Derive([kind |-> C.kind, unit |-> C.unit, mem0 |-> C.mem0, ro |-> RangeSet(C.ro),
                     ow |-> RangeSet(C.ow), fmt |-> C.fmt])
    /\ mem = C.mem0
    /\ plans = {}
    /\ k = 0
    /\ pc = "idle"
    /\ op = "none"
    /\ msg = <<>>
    /\ last = [u |-> 0, ph |-> 0, any |-> FALSE]
    /\ rd = [cache |-> <<>>, shadow |-> <<>>, ext |-> 0, rsec |-> 0, tsec |-> 0, nf |-> 0, tries |-> 0]

Ev == T[l]
IsEv(a) == l <= Len(T) /\ Ev.a = a /\ l' = l + 1 /\ UNCHANGED <<tid, lay>>
BothVariants == {"asis", "fixed"}

\* relax "Plan": second pass over a trace whose commands deviate from every plan - the commands are taken as they
\* are (only the simulated tag's semantics apply), so that the property invariants still judge the real behaviour
Free == Relaxed("Plan")

\* ---- guarded spec actions ----------------------------------------------------------------
\* the reader-writer state nfcpy holds when the call starts.  First call on a fresh tag object: everything it holds
\* was read from the tag (cache = shadow = memory), Ev.ext = how far it has read, Ev.rsec = the sector it believes the
\* tag is in, Ev.tsec = the sector the simulated tag IS in.  Repeated call on the SAME object after a failed one
\* (Ev.retry): its _data_in_cache / _data_from_tag are logged (the part it has read; the rest is the tag memory).
Pad(c) == IF Len(c) >= Len(mem) THEN SubSeq(c, 1, Len(mem)) ELSE c \o SubSeq(mem, Len(c) + 1, Len(mem))
RdAt == [cache |-> IF Ev.retry THEN Pad(Ev.cache) ELSE mem, shadow |-> IF Ev.retry THEN Pad(Ev.shadow) ELSE mem,
         ext |-> IF IsT2(lay) THEN Ev.ext ELSE Size(mem), rsec |-> Ev.rsec, tsec |-> Ev.tsec, nf |-> rd.nf,
         tries |-> IF Ev.retry THEN rd.tries + 1 ELSE 0]
\* Ev.retry: the call is made on a tag object that was used before in this session - either the failed call is
\* repeated, or the next call follows a completed one (read -> format -> write)
BeginOk == IF Ev.retry THEN \/ pc = "failed" /\ Ev.op = op /\ (op = "write" => Ev.msg = msg)
                            \/ pc = "done"
           ELSE pc = "idle"

GBeginW ==
    /\ IsEv("Begin") /\ Ev.op = "write" /\ BeginOk
    /\ WellFormed(lay) /\ InScope(lay, Len(Ev.msg)) /\ lay.old = Ndef(C.old)
    /\ op' = "write" /\ msg' = Ev.msg /\ rd' = RdAt /\ k' = 0
    /\ IF (IF Free THEN T[l + 1].a = "Ret" /\ T[l + 1].res = "reject"      \* free mode: as the code decided
                   ELSE Len(Ev.msg) > CodeCap(lay))
       THEN pc' = "rejected" /\ plans' = {}
       ELSE pc' = "run" /\ plans' = {Tagged(WritePlanX(lay, RdAt.cache, RdAt.shadow, RdAt.ext, RdAt.rsec, Ev.msg, v), v) :
                                          v \in BothVariants}
    /\ UNCHANGED <<mem, last>>

GBeginF ==
    /\ IsEv("Begin") /\ Ev.op = "format" /\ BeginOk
    /\ WellFormed(lay) /\ lay.fmt # "none" /\ lay.old = Ndef(C.old)
    /\ op' = "format" /\ msg' = <<Ev.wipe>> /\ rd' = RdAt /\ k' = 0
    /\ pc' = "run"
    /\ plans' = {Tagged(IF lay.fmt = "T2" THEN FormatPlanX(lay, RdAt.cache, RdAt.shadow, RdAt.ext, RdAt.rsec, Ev.wipe, v)
                        ELSE FormatPlanX(lay, mem, mem, Size(mem), 0, Ev.wipe, v), v) : v \in BothVariants}
    /\ UNCHANGED <<mem, last>>

\* Ev.u of a WRITE is the unit the simulated tag really wrote (it knows its sector); of a sector select, the sector
Matching == {p \in plans : /\ k < Len(p.cmds) /\ p.cmds[k + 1].s = Ev.s
                           /\ IF Ev.s = 1 THEN p.cmds[k + 1].u = Ev.u
                              ELSE Landed(lay, p.cmds[k + 1].u, rd.tsec) = Ev.u /\ p.cmds[k + 1].d = Ev.d}
Running == pc = "run" \/ (Free /\ pc = "faulted")
GCmd ==
    /\ IsEv("Cmd") /\ Running
    /\ Free \/ Matching # {}
    /\ plans' = IF Matching # {} THEN Matching ELSE plans
    /\ IF Ev.s = 1
       THEN mem' = mem /\ last' = last /\ rd' = [rd EXCEPT !.tsec = Ev.u, !.rsec = Ev.u]
       ELSE /\ mem' = Store(lay, mem, Ev.u, Ev.d)
            /\ last' = [u |-> Ev.u, ph |-> IF Matching # {} THEN (CHOOSE p \in Matching : TRUE).cmds[k + 1].ph ELSE 0,
                        any |-> TRUE]
            /\ rd' = rd
    /\ k' = k + 1
    /\ UNCHANGED <<pc, op, msg>>

\* a transient RF fault injected by the simulator: the frame is not executed by the tag.  A burst (the command and
\* its retransmissions are lost) or a NAK ends the call with a tag command error; one garbled frame is repeated by
\* transceive() - except SECTOR SELECT packet 2, which is sent once: there silence means "switched", anything else
\* must end the call (the tag did not switch).
Fatal == Ev.kind \in {"burst", "nak"} \/ (Ev.kind = "xerr" /\ Ev.at = "ss2")
GFault ==
    /\ IsEv("Fault") /\ pc = "run"
    /\ pc' = IF Fatal THEN "faulted" ELSE pc
    /\ rd' = [rd EXCEPT !.nf = rd.nf + 1]
    /\ UNCHANGED <<mem, plans, k, op, msg, last>>

GRet ==
    /\ IsEv("Ret")
    /\ CASE Ev.res = "ok"     -> Running /\ (Free \/ \E p \in plans : Len(p.cmds) = k /\ p.res = "ok") /\ pc' = "done"
         [] Ev.res = "crash"  -> pc = "run" /\ (Free \/ \E p \in plans : Len(p.cmds) = k /\ p.res = "crash") /\ pc' = "crashed"
         [] Ev.res = "reject" -> (pc = "rejected" \/ (Free /\ pc = "run")) /\ pc' = "rejected"
         [] Ev.res = "cut"    -> Running /\ (Free \/ \E p \in plans : k < Len(p.cmds)) /\ pc' = "cut"
         [] Ev.res = "fail"   -> pc = "faulted" /\ pc' = "failed"
         [] OTHER -> FALSE
    /\ UNCHANGED <<mem, plans, k, op, msg, last, rd>>

GView ==
    /\ IsEv("View") /\ pc \in {"done", "crashed", "rejected", "cut", "failed"}
    /\ UNCHANGED <<mem, plans, k, pc, op, msg, last, rd>>

\* between two calls the application touches tag.ndef: that may read the tag again (sector selects, no writes)
GSelIdle ==
    /\ IsEv("Cmd") /\ Ev.s = 1 /\ pc \in {"done", "failed"}
    /\ rd' = [rd EXCEPT !.tsec = Ev.u, !.rsec = Ev.u]
    /\ UNCHANGED <<mem, plans, k, pc, op, msg, last>>

Guarded == GBeginW \/ GBeginF \/ GCmd \/ GSelIdle \/ GFault \/ GRet \/ GView

\* ---- logged results ------------------------------------------------------------------------
NSkip == Cardinality({a \in lay.skip : a < Size(lay.mem0)})
ResOk ==
    CASE Ev.a = "Begin" -> Free \/ (/\ Ev.off = lay.off /\ Ev.cap = CodeCap(lay) /\ Ev.nskip = NSkip
                                    /\ (IsT2(lay) /\ ~Ev.retry) => Ev.ext = ExtAfterRead(lay))
      [] Ev.a = "Ret"   -> Ev.n = k /\ Ev.mem = mem
      [] Ev.a = "View"  -> LET r == RefRead(lay, mem) IN
                           CASE r.k = "ndef" -> Ev.k = "ndef" /\ Ev.v = r.v
                             [] r.k \in {"none", "noread"} -> Ev.k = "none"
                             [] OTHER -> TRUE        \* malformed memory: judged by Atomic, not here
      [] OTHER -> TRUE

\* ---- invariants as step post-conditions ------------------------------------------------------
InvNames == <<"CapSound", "RejectEarly", "NoCrash", "RoundTrip", "Atomic", "Confined", "UnitsInArea", "LockOneWay",
              "Coherent", "SectorSync">>
IsWrite == Ev.a = "Cmd" /\ Ev.s = 0
InvP(n) ==
    \/ Relaxed(n)
    \/ CASE n = "CapSound"    -> Ev.a = "Begin" => CapSoundP(lay) /\ Ev.cap <= RefCapacity(lay)
         [] n = "RejectEarly" -> pc' = "rejected" => k' = 0 /\ (rd'.tries = 0 => mem' = lay.mem0)
         [] n = "NoCrash"     -> pc' # "crashed"
         [] n = "RoundTrip"   -> (Ev.a = "Ret" /\ pc' = "done") => RoundTripP(lay, mem', op', msg')
         [] n = "Atomic"      -> IsWrite => AtomicP(lay, mem', op', msg')
         [] n = "Confined"    -> /\ IsWrite => ConfinedP(lay, mem', UnitAddrs(lay, Ev.u))
                                 /\ Ev.a = "Ret" => ConfinedP(lay, mem', All(lay))
         [] n = "UnitsInArea" -> IsWrite => UnitInAreaP(lay, Ev.u)
         [] n = "LockOneWay"  -> IsWrite => OneWayP(lay, mem', UnitAddrs(lay, Ev.u))
         \* what the reader believes is on the tag is on the tag: after a failed call, and when the call is repeated
         [] n = "Coherent"    -> /\ (Ev.a = "Ret" /\ Ev.res = "fail") => CoherentP(lay, mem', Ev.shadow)
                                 /\ (Ev.a = "Begin" /\ Ev.retry) => CoherentP(lay, mem', Pad(Ev.shadow))
         \* the sector the reader believes the tag is in is the sector the tag is in, whenever a call starts or ends
         [] n = "SectorSync"  -> (Ev.a \in {"Begin", "Ret"}) => Ev.rsec = Ev.tsec
AllInv == \A i \in DOMAIN InvNames : InvP(InvNames[i])

Real == Guarded /\ ResOk /\ AllInv

\* ---- diagnosis -------------------------------------------------------------------------------
FailedInv == SelectSeq(InvNames, LAMBDA n : ~ENABLED (Guarded /\ ResOk /\ InvP(n)))
Diag == [kind |-> lay.kind, fmt |-> lay.fmt, op |-> op, n |-> Len(msg), off |-> lay.off, pc |-> pc, k |-> k,
         ph |-> IF Ev.a = "Cmd" /\ Matching # {} THEN (CHOOSE p \in Matching : TRUE).cmds[k + 1].ph ELSE 0,
         long |-> Len(msg) >= LongLen, straddle |-> Straddle(lay), termbad |-> TermSlotBad(lay),
         wf |-> WellFormed(lay) /\ lay.old = Ndef(C.old)]
Expected ==
    CASE Ev.a = "Begin" -> <<lay.off, CodeCap(lay), NSkip>>
      [] Ev.a = "Cmd" -> {IF k < Len(p.cmds) THEN <<p.v, p.cmds[k + 1].s, p.cmds[k + 1].u, p.cmds[k + 1].d>> ELSE <<p.v, 9, 99999, <<>> >> : p \in plans}
      [] Ev.a = "Ret" -> <<k, {<<p.v, Len(p.cmds), p.res>> : p \in plans}>>
      [] Ev.a = "View" -> LET r == RefRead(lay, mem) IN <<r.k, Len(r.v)>>
      [] OTHER -> <<>>
Why == IF ~ENABLED Guarded THEN <<"guard", Expected, Diag>>
       ELSE IF ~ENABLED (Guarded /\ ResOk) THEN <<"result", Expected, Diag>>
       ELSE <<"inv", FailedInv, Diag>>

Stuck ==
    /\ l <= Len(T)
    /\ ~ENABLED Real
    /\ PrintT(<<"STUCK", Traces[tid].id, l, Ev.a, Why>>)
    /\ l' = Len(T) + 2
    /\ UNCHANGED <<lay, mem, plans, k, pc, op, msg, last, rd, tid>>

TNext == Real \/ Stuck
TSpec == TInit /\ [][TNext]_tvars

Done == (l = Len(T) + 1) => PrintT(<<"ACCEPT", Traces[tid].id>>)
=============================================================================
