---------------------------- MODULE MC_Transport ----------------------------
(* Exhaustive-run wrapper for Transport: the reachability witnesses are recorded during the one exhaustive
   run of each half (idiom of MC_TagAuth): Reached is an always-true invariant that prints
   <<"WITNESS", name>> the first time a worker sees a state violating W_x. *)
EXTENDS Transport, TLCExt

WNames == <<"W_ExactMultiple", "W_ZlpSent", "W_ThreePackets", "W_WriteFailed",
            "W_ReadFrame", "W_ReadTimeout", "W_Oversize", "W_ZeroLength", "W_TailAfterTimeout",
            "W_SplitAcross3Reads", "W_ExtendedFrame", "W_AckThenFrame", "W_NormalLenMark", "W_Truncated",
            "W_HeaderEio", "W_Timeout", "W_Misaligned", "W_Resynced">>
WHolds(n) == CASE n = "W_ExactMultiple" -> W_ExactMultiple [] n = "W_ZlpSent" -> W_ZlpSent
               [] n = "W_ThreePackets" -> W_ThreePackets [] n = "W_WriteFailed" -> W_WriteFailed
               [] n = "W_ReadFrame" -> W_ReadFrame [] n = "W_ReadTimeout" -> W_ReadTimeout
               [] n = "W_Oversize" -> W_Oversize [] n = "W_ZeroLength" -> W_ZeroLength
               [] n = "W_TailAfterTimeout" -> W_TailAfterTimeout
               [] n = "W_SplitAcross3Reads" -> W_SplitAcross3Reads [] n = "W_ExtendedFrame" -> W_ExtendedFrame
               [] n = "W_AckThenFrame" -> W_AckThenFrame [] n = "W_NormalLenMark" -> W_NormalLenMark
               [] n = "W_Truncated" -> W_Truncated [] n = "W_HeaderEio" -> W_HeaderEio
               [] n = "W_Timeout" -> W_Timeout [] n = "W_Misaligned" -> W_Misaligned
               [] n = "W_Resynced" -> W_Resynced
Reached == \A i \in DOMAIN WNames :
              (~WHolds(WNames[i]) /\ TLCGetOrDefault(i, 0) = 0)
                  => (TLCSet(i, 1) /\ PrintT(<<"WITNESS", WNames[i]>>))
=============================================================================
