SPECIFICATION Spec
CONSTANTS
  Threads = {"r1", "r2", "r3"}
  Names = {"n1", "n2", "n3"}
  PeerSnl <- Peer3
  NameLen <- Len3
  SendMiu = 12
  PopHead = FALSE
  MaxCalls = 1
  WakeCheck = TRUE
  Tids = {i0, i1, i2}
  GiveBack = TRUE
INVARIANT ResolveReturns
INVARIANT NoLostWakeup
INVARIANT RequestOut
INVARIANT Recorded
INVARIANT SnlFits
INVARIANT PoolConserved
INVARIANT NeverStarves
SYMMETRY TidSym
CHECK_DEADLOCK FALSE
