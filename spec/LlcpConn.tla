--------------------------- MODULE LlcpConn ---------------------------
(* LLCP data link connection set-up and tear-down between a controller A (clients) and a controller B
   (one listening socket, accepted connections): the CONNECT / CC / DM / DISC state table of
   nfc/llcp/tco.py DataLinkConnection (listen 413-421, accept 423-449, connect 451-493, close 577-592,
   enqueue 597-628, _enqueue_state_established DISC/DM handling, dequeue DM-in-CLOSE_WAIT 704-708) and the
   access point level of nfc/llcp/llc.py (ServiceAccessPoint.enqueue 115-135: CONNECT goes to the first
   listening socket, otherwise DM reason 02h; PDUs for a free access point are dropped by dispatch()).
   This extends LlcpDlc (which starts from an established connection) - backlog item of DESIGN.md 2.1.

   One action per critical section / PDU hand-over.  Wires are FIFO per direction, one PDU per element.
*)
EXTENDS Naturals, Sequences, FiniteSets, TLC

CONSTANTS Clients,        \* client sockets on A, e.g. {"c1", "c2"}
          Backlog,        \* listen(backlog) at B
          Mius, RWs,      \* connection MIU / RW values to choose from (per socket)
          LinkMiuA, LinkMiuB,   \* send-miu of A (= B's link receive MIU) and of B
          MaxAcc,         \* bound on accept() calls (model checking)
          ListenerPresent, \* FALSE: the access point exists but nobody listens (raw socket etc.)
          Hows,           \* how connect() addresses the service: "sap" (CONNECT to the access point), "name" (CONNECT to
                          \* SAP 1 with the service name B bound: dispatch() rewrites it to the access point and must carry
                          \* SSAP, MIU and RW over - llc.py dispatch, connect-by-name), "noname" (a name nobody bound: DM 02h)
          EarlyOrder      \* "cc-first": the CC of an accepted connection leaves before data the server sends on it at
                          \* once (the code since the fix "data sent right after accept() overtook the CC");
                          \* "data-first": the code before that fix (accepted sockets are served before the listener)

VARIABLES cl,        \* cl[c] = [st, rmiu, rw, smiu, swin, peer, res]           (A side)
          lst,       \* listener = [st, rmiu, rw, rq]   rq: Seq of CONNECT PDUs   (B side)
          acc,       \* Seq of accepted connections [st, peer, smiu, swin, rmiu, rw]
          ab, ba,    \* wires A->B, B->A
          nacc,
          lost       \* an I PDU reached a client that was still in CONNECT state and was dropped

vars == <<cl, lst, acc, ab, ba, nacc, lost>>

Addr(c) == CHOOSE f \in [Clients -> 32..63] : \A x, y \in Clients : x # y => f[x] # f[y]
SapB == 16
Pdu(t, d, s, miu, rw, reason) == [t |-> t, d |-> d, s |-> s, miu |-> miu, rw |-> rw, reason |-> reason, sn |-> ""]
SapSdp == 1
SnOf(how) == IF how = "name" THEN "svc" ELSE IF how = "noname" THEN "nosvc" ELSE ""
Min(a, b) == IF a < b THEN a ELSE b

Init ==
    /\ cl \in [Clients -> {[st |-> "CLOSED", rmiu |-> m, rw |-> w, smiu |-> 128, swin |-> 0, peer |-> 0, res |-> "-", how |-> "-"] :
                           m \in Mius, w \in RWs}]
    /\ \E m \in Mius, w \in RWs : lst = [st |-> IF ListenerPresent THEN "LISTEN" ELSE "NONE", rmiu |-> m, rw |-> w, rq |-> <<>>]
    /\ acc = <<>> /\ ab = <<>> /\ ba = <<>> /\ nacc = 0 /\ lost = FALSE

\* ---- A side -------------------------------------------------------------------------------------
\* connect(): CLOSED -> CONNECT, the CONNECT PDU is queued (and, in the spec, put on the wire)   tco.py:451-473
Connect(c, how) ==
    /\ cl[c].st = "CLOSED" /\ cl[c].res = "-"
    /\ cl' = [cl EXCEPT ![c].st = "CONNECT", ![c].how = how]
    /\ ab' = Append(ab, [Pdu("CONNECT", IF how = "sap" THEN SapB ELSE SapSdp, Addr(c)[c], cl[c].rmiu, cl[c].rw, 0)
                          EXCEPT !.sn = SnOf(how)])
    /\ UNCHANGED <<lst, acc, ba, nacc, lost>>

ClientOf(a) == CHOOSE c \in Clients : Addr(c)[c] = a
IsClientAddr(a) == \E c \in Clients : Addr(c)[c] = a

\* a PDU from B arrives at A: dispatch -> sap.enqueue -> DataLinkConnection.enqueue / connect() wakes up
DeliverA ==
    /\ ba # <<>>
    /\ LET p == Head(ba) IN
       /\ ba' = Tail(ba)
       /\ IF ~IsClientAddr(p.d) THEN cl' = cl /\ ab' = ab
          ELSE LET c == ClientOf(p.d) IN
               CASE cl[c].st = "CONNECT" /\ p.t = "CC" ->
                        /\ cl' = [cl EXCEPT ![c] = [@ EXCEPT !.st = "ESTABLISHED", !.peer = p.s,
                                                            !.smiu = Min(p.miu, LinkMiuA), !.swin = p.rw, !.res = "OK"]]
                        /\ ab' = ab
                 [] cl[c].st = "CONNECT" /\ p.t = "DM" ->
                        /\ cl' = [cl EXCEPT ![c] = [@ EXCEPT !.st = "CLOSED", !.res = IF p.reason = 32 THEN "REFUSED-BUSY"
                                                                              ELSE IF p.reason = 2 THEN "REFUSED-NOSVC" ELSE "REFUSED"]]
                        /\ ab' = ab
                 [] cl[c].st = "ESTABLISHED" /\ p.t = "DISC" ->       \* peer closes: CLOSE_WAIT, answer DM (tco.py:650-656)
                        /\ cl' = [cl EXCEPT ![c].st = "CLOSE_WAIT"]
                        /\ ab' = Append(ab, Pdu("DM", p.s, p.d, 0, 0, 0))
                 [] cl[c].st = "DISCONNECT" /\ p.t = "DM" ->          \* our close() handshake completes
                        /\ cl' = [cl EXCEPT ![c].st = "SHUTDOWN"] /\ ab' = ab
                 [] cl[c].st = "ESTABLISHED" /\ p.t = "I" ->          \* data: the application reads it, an RR goes back
                        /\ cl' = cl /\ ab' = Append(ab, Pdu("RR", p.s, p.d, 0, 0, 0))
                 [] cl[c].st = "CLOSED" /\ p.t \in {"CC", "DISC", "I"} ->  \* tco.py:607-609: DM reason 1
                        /\ cl' = cl /\ ab' = Append(ab, Pdu("DM", p.s, p.d, 0, 0, 1))
                 [] OTHER -> cl' = cl /\ ab' = ab
    /\ lost' = (lost \/ (IsClientAddr(Head(ba).d) /\ Head(ba).t = "I" /\ cl[ClientOf(Head(ba).d)].st = "CONNECT"))
    /\ UNCHANGED <<lst, acc, nacc>>

\* close() on an established client: DISC, wait for DM (tco.py:577-592)
CloseClient(c) ==
    /\ cl[c].st = "ESTABLISHED"
    /\ cl' = [cl EXCEPT ![c].st = "DISCONNECT"]
    /\ ab' = Append(ab, Pdu("DISC", cl[c].peer, Addr(c)[c], 0, 0, 0))
    /\ UNCHANGED <<lst, acc, ba, nacc, lost>>
\* recv() returns None after the peer's DISC: close() -> SHUTDOWN (tco.py:546-548)
RecvNone(c) ==
    /\ cl[c].st = "CLOSE_WAIT"
    /\ cl' = [cl EXCEPT ![c].st = "SHUTDOWN"]
    /\ UNCHANGED <<lst, acc, ab, ba, nacc, lost>>

\* ---- B side -------------------------------------------------------------------------------------
AccIdx(peer) == {i \in DOMAIN acc : acc[i].peer = peer /\ acc[i].st # "SHUTDOWN"}
AccEst(peer) == {i \in AccIdx(peer) : acc[i].st = "ESTABLISHED"}

DeliverB ==
    /\ ab # <<>>
    /\ LET p0 == Head(ab)
           \* connect-by-name: the CONNECT is re-addressed to the access point bound under that name; everything else
           \* the peer announced (SSAP, MIU, RW) stays                                              llc.py dispatch()
           p  == IF p0.t = "CONNECT" /\ p0.d = SapSdp /\ p0.sn = "svc" THEN [p0 EXCEPT !.d = SapB, !.sn = ""] ELSE p0 IN
       /\ ab' = Tail(ab)
       /\ CASE p.t = "CONNECT" /\ p.d = SapSdp ->      \* no such service: DM reason 02h from the service discovery SAP
                  lst' = lst /\ acc' = acc /\ ba' = Append(ba, Pdu("DM", p.s, SapSdp, 0, 0, 2))
            [] p.t = "CONNECT" /\ p.d = SapB ->
                  IF lst.st = "LISTEN"
                  THEN IF Len(lst.rq) < Backlog
                       THEN lst' = [lst EXCEPT !.rq = Append(@, p)] /\ ba' = ba /\ acc' = acc
                       ELSE lst' = lst /\ acc' = acc /\ ba' = Append(ba, Pdu("DM", p.s, p.d, 0, 0, 32))   \* backlog full
                  ELSE lst' = lst /\ acc' = acc /\ ba' = Append(ba, Pdu("DM", p.s, p.d, 0, 0, 2))         \* nobody listens
            [] p.t = "DISC" /\ AccEst(p.s) # {} ->      \* only an ESTABLISHED connection answers DISC (tco.py:627-656)
                  LET i == CHOOSE i \in AccEst(p.s) : TRUE IN
                  /\ acc' = [acc EXCEPT ![i].st = "CLOSE_WAIT"]
                  /\ ba' = Append(ba, Pdu("DM", p.s, p.d, 0, 0, 0)) /\ lst' = lst
            [] p.t = "DM" /\ AccIdx(p.s) # {} ->
                  LET i == CHOOSE i \in AccIdx(p.s) : TRUE IN
                  /\ acc' = [acc EXCEPT ![i].st = IF @ = "DISCONNECT" THEN "SHUTDOWN" ELSE @]
                  /\ ba' = ba /\ lst' = lst
            [] p.t \in {"DISC", "I"} /\ AccIdx(p.s) = {} /\ lst.st = "LISTEN" ->
                  \* no connection for that peer: the listening socket (peer None) takes the PDU and ignores it
                  lst' = lst /\ acc' = acc /\ ba' = ba
            [] OTHER -> lst' = lst /\ acc' = acc /\ ba' = ba
    /\ UNCHANGED <<cl, nacc, lost>>

\* accept(): pop a CONNECT, create the connection, queue CC (tco.py:423-447, llc.py:805-818)
Accept ==
    /\ lst.st = "LISTEN" /\ lst.rq # <<>> /\ nacc < MaxAcc
    /\ LET p == Head(lst.rq) IN
       /\ lst' = [lst EXCEPT !.rq = Tail(@)]
       /\ acc' = Append(acc, [st |-> "ESTABLISHED", peer |-> p.s, smiu |-> Min(p.miu, LinkMiuB), swin |-> p.rw,
                              rmiu |-> lst.rmiu, rw |-> lst.rw])
       /\ ba' = Append(ba, Pdu("CC", p.s, SapB, lst.rmiu, lst.rw, 0))
    /\ nacc' = nacc + 1
    /\ UNCHANGED <<cl, ab, lost>>

\* accept() followed at once by send() on the new connection (a server that greets its client): the CC must reach the
\* client before the data, otherwise the client - still in CONNECT state - drops the I PDU (tco.py enqueue)
AcceptSend ==
    /\ lst.st = "LISTEN" /\ lst.rq # <<>> /\ nacc < MaxAcc
    /\ LET p == Head(lst.rq)
           cc == Pdu("CC", p.s, SapB, lst.rmiu, lst.rw, 0)
           i1 == Pdu("I", p.s, SapB, 0, 0, 0) IN
       /\ lst' = [lst EXCEPT !.rq = Tail(@)]
       /\ acc' = Append(acc, [st |-> "ESTABLISHED", peer |-> p.s, smiu |-> Min(p.miu, LinkMiuB), swin |-> p.rw,
                              rmiu |-> lst.rmiu, rw |-> lst.rw])
       /\ ba' = IF EarlyOrder = "cc-first" THEN ba \o <<cc, i1>> ELSE ba \o <<i1, cc>>
    /\ nacc' = nacc + 1
    /\ UNCHANGED <<cl, ab, lost>>

\* the same as one composite step, as the rig executes it when it does NOT let the connecting application thread run
\* in between: accept(), send() of as many messages as the client's receive window takes, all resulting frames handed to A
\* back to back (CC, then the I PDUs, while connect() has not woken up yet), then connect() returns and the client reads
\* what arrived: `got` of the `sent` messages.  NoEarlyLoss generalised: got = sent = RW announced by the client.
Greeting(sent, got) ==
    /\ lst.st = "LISTEN" /\ lst.rq # <<>> /\ nacc < MaxAcc /\ ab = <<>> /\ ba = <<>>
    /\ LET p == Head(lst.rq) c == ClientOf(p.s) IN
       /\ cl[c].st = "CONNECT"
       /\ sent = p.rw /\ got = sent
       /\ lst' = [lst EXCEPT !.rq = Tail(@)]
       /\ acc' = Append(acc, [st |-> "ESTABLISHED", peer |-> p.s, smiu |-> Min(p.miu, LinkMiuB), swin |-> p.rw,
                              rmiu |-> lst.rmiu, rw |-> lst.rw])
       /\ cl' = [cl EXCEPT ![c] = [@ EXCEPT !.st = "ESTABLISHED", !.peer = SapB, !.smiu = Min(lst.rmiu, LinkMiuA),
                                           !.swin = lst.rw, !.res = "OK"]]
    /\ nacc' = nacc + 1
    /\ UNCHANGED <<ab, ba, lost>>

CloseAcc(i) ==
    /\ i \in DOMAIN acc /\ acc[i].st = "ESTABLISHED"
    /\ acc' = [acc EXCEPT ![i].st = "DISCONNECT"]
    /\ ba' = Append(ba, Pdu("DISC", acc[i].peer, SapB, 0, 0, 0))
    /\ UNCHANGED <<cl, lst, ab, nacc, lost>>
RecvNoneAcc(i) ==
    /\ i \in DOMAIN acc /\ acc[i].st = "CLOSE_WAIT"
    /\ acc' = [acc EXCEPT ![i].st = "SHUTDOWN"]
    /\ UNCHANGED <<cl, lst, ab, ba, nacc, lost>>

Next == \/ \E c \in Clients : (\E how \in Hows : Connect(c, how)) \/ CloseClient(c) \/ RecvNone(c)
        \/ DeliverA \/ DeliverB \/ Accept \/ AcceptSend
        \/ \E n \in RWs : Greeting(n, n)
        \/ \E i \in 1..MaxAcc : CloseAcc(i) \/ RecvNoneAcc(i)
Fair == WF_vars(DeliverA) /\ WF_vars(DeliverB) /\ WF_vars(Accept)
        /\ \A c \in Clients : WF_vars(RecvNone(c))
        /\ \A i \in 1..MaxAcc : WF_vars(RecvNoneAcc(i))
Spec == Init /\ [][Next]_vars /\ Fair

\* ---- properties --------------------------------------------------------------------------------
\* both ends of an established connection hold each other's parameters
AgreementP(c_, acc_) ==
    \A c \in Clients : c_[c].st = "ESTABLISHED" =>
        \E i \in DOMAIN acc_ : /\ acc_[i].peer = Addr(c)[c]
                               /\ c_[c].swin = acc_[i].rw /\ acc_[i].swin = c_[c].rw
                               /\ c_[c].smiu = Min(acc_[i].rmiu, LinkMiuA) /\ acc_[i].smiu = Min(c_[c].rmiu, LinkMiuB)
Agreement == AgreementP(cl, acc)
\* the listener never holds more connection requests than its backlog
BacklogOk == Len(lst.rq) <= Backlog
\* a refusal names its cause
RefusedRight == \A c \in Clients : /\ cl[c].res = "REFUSED-NOSVC" => (~ListenerPresent \/ cl[c].how = "noname")
                                   /\ (cl[c].how = "noname" /\ cl[c].res # "-") => cl[c].res = "REFUSED-NOSVC"
                                   /\ cl[c].res = "REFUSED-BUSY" => ListenerPresent
\* one accepted connection per client address at a time
OnePerPeer == \A i, j \in DOMAIN acc : i # j /\ acc[i].st # "SHUTDOWN" /\ acc[j].st # "SHUTDOWN" => acc[i].peer # acc[j].peer
\* liveness: a connect() is eventually answered when frames keep flowing and the server keeps accepting
ConnectAnswered == \A c \in Clients : (cl[c].st = "CONNECT") ~> (cl[c].st # "CONNECT" \/ nacc = MaxAcc)
\* liveness: a close() handshake completes
CloseCompletes == \A c \in Clients : (cl[c].st = "DISCONNECT") ~> (cl[c].st = "SHUTDOWN")

\* data a server sends right after accept() is not lost
NoEarlyLoss == ~lost

W_EarlyData   == ~(\E c \in Clients : cl[c].st = "ESTABLISHED" /\ ba # <<>> /\ Head(ba).t = "I" /\ Head(ba).d = Addr(c)[c])
W_Established == ~(\E c \in Clients : cl[c].st = "ESTABLISHED")
W_Busy        == ~(\E c \in Clients : cl[c].res = "REFUSED-BUSY")
W_Closed      == ~(\E c \in Clients : cl[c].st = "SHUTDOWN")
W_PeerClosed  == ~(\E i \in DOMAIN acc : acc[i].st = "SHUTDOWN")
W_ByName      == ~(\E c \in Clients : cl[c].st = "ESTABLISHED" /\ cl[c].how = "name" /\ cl[c].rmiu > 128)
W_NoName      == ~(\E c \in Clients : cl[c].res = "REFUSED-NOSVC" /\ cl[c].how = "noname")
=============================================================================
