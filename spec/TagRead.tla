------------------------------ MODULE TagRead ------------------------------
(* C08 -- activating and reading arbitrary tags terminates safely.

   A *monitor* of one call into nfcpy (nfc.tag.activate, tag.ndef, ndef.has_changed) against a tag with
   arbitrary memory and arbitrary (well framed) answers.  For malformed images the property fixes safety,
   not the parse, so the model does not follow nfcpy's parser; it says what any safe reader may do:
     Cmd        a command that fetches no memory (RATS, SELECT, polling, GET_VERSION, sector select ...)
     Read(u)    fetch unit u - only a unit not yet asked in this call (Type 1/2/3: the memory readers
                cache; Type 4: READ BINARY offsets strictly increase between two SELECTs, so an empty
                answer can not be re-requested for ever); once a command of the call got no proper answer
                (silence, or an answer that is not what the command implies) asking again is legitimate
                and only the budget bounds the call
     Retry      the same command again, only after an unanswered one
     Sense      a new activation of the tag
     Finish(r)  r = None, or [off, len, cap] inside the declared data area with len <= cap and cap not
                more than what the area can store behind the NDEF TLV
   all under a command budget.  There is NO action for an exception: a recorded call that ends with one
   (or with the harness' watchdog) is rejected at that event.

   RefRead is a reference reader for the Type 2 TLV data area (total on every image); TLC checks its
   totality and bounds on all small images (MC_TagRead_ref.cfg) and it is the oracle for the well-formed
   Type 2 images of the recorded runs. *)
EXTENDS TagReadRef

\* parameters of the actions: bud = command budget of one call; [lo, hi) = the declared data area
\* capped by the physical memory (both come from the recorded case, or from the MC module)

VARIABLES call,         \* "idle" or the running call
          asked,        \* units fetched in this call
          minoff,       \* Type 4: smallest READ BINARY offset still allowed for the selected file
          ncmd, nretry,
          unanswered,   \* the last command got no (proper) answer
          dirty,        \* some command of this call got no proper answer: asking again is then legitimate
          fin           \* last result
mvars == <<call, asked, minoff, ncmd, nretry, unanswered, dirty, fin>>

NoneRes == [none |-> TRUE, off |-> 0, len |-> 0, cap |-> 0, tlv |-> -1]
MInit == call = "idle" /\ asked = {} /\ minoff = 0 /\ ncmd = 0 /\ nretry = 0 /\ unanswered = FALSE /\ dirty = FALSE
         /\ fin = NoneRes

Begin(c) == /\ call = "idle"
            /\ call' = c /\ asked' = {} /\ minoff' = 0 /\ ncmd' = 0 /\ nretry' = 0 /\ unanswered' = FALSE /\ dirty' = FALSE
            /\ UNCHANGED fin

Count(ok, bud) == ncmd < bud /\ ncmd' = ncmd + 1 /\ unanswered' = ~ok /\ dirty' = (dirty \/ ~ok)

Cmd(ok, bud) == /\ call # "idle" /\ Count(ok, bud) /\ nretry' = 0
           /\ UNCHANGED <<call, asked, minoff, fin>>

\* Type 4 file selection: a new sequence of READ BINARY offsets starts
Select(ok, bud) == /\ call # "idle" /\ Count(ok, bud) /\ nretry' = 0 /\ minoff' = 0
                   /\ UNCHANGED <<call, asked, fin>>

\* Type 1/2/3 memory unit
Read(u, ok, bud) == /\ call # "idle" /\ Count(ok, bud) /\ nretry' = 0
               /\ (u \notin asked \/ dirty)
               /\ asked' = asked \cup {u} /\ minoff' = 0
               /\ UNCHANGED <<call, fin>>

\* Type 4 READ BINARY at offset o of the selected file
ReadAt(o, ok, bud) == /\ call # "idle" /\ Count(ok, bud) /\ nretry' = 0
                 /\ (o >= minoff \/ dirty)
                 /\ minoff' = o + 1
                 /\ UNCHANGED <<call, asked, fin>>

Retry(ok, bud) == /\ call # "idle" /\ unanswered /\ Count(ok, bud)
             /\ nretry' = nretry + 1
             /\ UNCHANGED <<call, asked, minoff, fin>>

Sense == call # "idle" /\ UNCHANGED mvars

\* TLV based tags (r.tlv = address of the NDEF TLV's T byte, -1 otherwise): what can be stored from there to
\* the end of the area is the better of the 1 byte (at most 254) and the 3 byte length format
Max2(a, b) == IF a > b THEN a ELSE b
Min2(a, b) == IF a < b THEN a ELSE b
Minus(a, b) == IF a > b THEN a - b ELSE 0
Fits(room) == Max2(Min2(Minus(room, 2), 254), Minus(room, 4))
CapFits(r, hi) == r.tlv < 0 \/ (r.tlv < r.off /\ r.cap <= Fits(Minus(hi, r.tlv)))
InArea(r, lo, hi) == /\ r.off >= lo /\ r.off + r.len <= hi /\ r.len <= r.cap /\ r.cap <= hi - lo
                     /\ CapFits(r, hi)
Finish(r, lo, hi) == /\ call # "idle"
             /\ (r.none \/ InArea(r, lo, hi))
             /\ fin' = r /\ call' = "idle"
             /\ UNCHANGED <<asked, minoff, ncmd, nretry, unanswered, dirty>>

=============================================================================
