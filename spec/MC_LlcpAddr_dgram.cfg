SPECIFICATION Spec
CONSTANTS
  NSap = 8
  NamedLo = 3
  DynLo = 5
  WksAddr = 2
  Names = {"wk", "n1", "n2", "n3"}
  MaxSock <- Max31
  KindSeq <- SeqDgram
  Roles <- DgramOps
  Msgs = {1}
  BindAddrs <- BA
  Dsts = {2, 5, 6}
  RecvBuf = 1
  Backlog = 1
  WksCheck = TRUE
  SnlClean = TRUE
  KeepDead = FALSE
  Miu <- MiuAB
  Lens = {0, 3, 4}
  InsertLast = FALSE
  HdrInMiu = FALSE
VIEW View
INVARIANT OneAddrPerSocket
INVARIANT NoDoubleAlloc
INVARIANT RangesRespected
INVARIANT FreedOnLastClose
INVARIANT AddrPoolConserved
INVARIANT Datagram
INVARIANT LiveFirst
PROPERTY ResolveRight
PROPERTY InUseRight
PROPERTY ConnectByName
PROPERTY DatagramStep
PROPERTY Delivered
CHECK_DEADLOCK FALSE
