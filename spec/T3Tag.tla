------------------------------- MODULE T3Tag -------------------------------
(* NFC Forum Type 3 Tag NDEF store: a tag (attribute information block, data blocks of the NDEF
   service, one unrelated service) and the reader/writer procedures of nfcpy, one action per
   Write Without Encryption command:

     Discover     nfc/tag/tt3.py  Type3Tag.NDEF._read_ndef_data: a tag that was not found under
                    system code 12FCh is polled for 12FCh and the IDm/PMm of THAT answer is used
                    from then on (on a multi-system FeliCa card every system has its own IDm, the
                    system number being the upper nibble of IDm byte 0; a wildcard poll FFFFh is
                    answered by system 0)
     Begin        nfc/tag/__init__.py:177-185  Tag.NDEF.octets setter (writeable + capacity check)
     WriteStep    nfc/tag/tt3.py:228-250       Type3Tag.NDEF._write_ndef_data
                    "w_on"    attribute block with WriteF := 0Fh          (re-encoded, RFU := 0)
                    "w_data"  batches of <= Nbw consecutive data blocks, ascending
                              then attribute block with WriteF := 00h, Ln := len
     FBegin/FormatStep  nfc/tag/tt3.py:369-460 Type3Tag._format
                    "f_probe" block 0 rewritten with its own content 1, 2, .. times per command
                              until the tag refuses (Nbw discovery)
                    "f_attr"  new attribute block (Nmaxb := all blocks of the service)
                    "f_wipe"  data blocks Nmaxb .. 1, one per command
     PowerCut     the tag leaves the field between two commands
     Drop         transient outage: one transmission of the pending command does not reach the tag;
                    send_cmd_recv_rsp (tt3.py) tries Retries (3) times, then the operation ends with
                    Type3TagCommandError ("failed") -- although the tag may answer again afterwards,
                    the writer must not send anything more: the tag stays as the commands that DID
                    reach it left it (WriteF = 0Fh: not readable)

   The tag layer (TagOk / TagApply) is independent of nfcpy: a Write Without Encryption command is a
   list of (service, block, content) elements that is executed completely or not at all.  It serves
   both the simulated tag (sim/simt3t.py) and nfcpy's own Type3TagEmulation (tt3.py:750-923, the
   emulated tag is then the thing under test).  RefRead is the reference reader written from the
   Type 3 Tag operation specification; CodeReadPlan is the command sequence of
   Type3Tag.NDEF._read_ndef_data (tt3.py:193-226).

   Block 0 is kept as a record (the 16 attribute bytes are parsed by Trace_T3Tag with the field
   layout of the operation specification: Ver, Nbr, Nbw, Nmaxb 16 bit, RFU, WriteF, RWFlag, Ln 24
   bit, checksum).  The data blocks are mem = [nb, gen, w]: nb blocks of BS bytes (BS = 16; 2 in
   exhaustive runs); block b is w[b] where w is defined, otherwise the generated content
   GenBlk(gen, b) -- tags with up to 65535 blocks are described, not enumerated (sim/simt3t.py
   serves them the same way).
*)
EXTENDS Integers, Sequences, SequencesExt, FiniteSets, TLC

CONSTANTS BS,          \* block size in bytes
          RdMax,       \* blocks one Read Without Encryption response can carry (15)
          Nmaxbs,      \* MC: Nmaxb values
          Extras,      \* MC: physical data blocks beyond Nmaxb
          Nbrs, Nbws,  \* MC: Nbr / Nbw values (announced = physical)
          RWFlags, WriteFs, Vers, CkOks, Rfus,   \* MC: initial attribute variations
          MsgKinds,    \* MC: content patterns of the new message
          Cards,       \* MC: 100*n + 10*pos + act: systems on the card, position of the NDEF system, system the
                       \*     reader was activated in (0 after a wildcard poll, pos after a poll for 12FCh)
          WithCut, WithFormat,
          WithOutage,  \* explore Drop
          Retries      \* transmissions of one command before the writer gives up (3)

VARIABLES tag,    \* [attr, mem, oth, card]  what is on the tag; card = [n, pos]; oth = the unrelated service
                  \*   of every system, concatenated in system order
          ridm,   \* the system whose IDm the reader puts into its commands
          tag0,   \* the initial image (constant in a behaviour)
          phys,   \* [nbr, nbw] blocks per command the tag really accepts
          pc, op, \* procedure state
          msg,    \* message being written
          ra,     \* the writer's copy of the attributes (tt3.py:229) / format parameters
          i,      \* next block (write, wipe) / probe size (format)
          ncmd,   \* write commands sent so far (executed or refused)
          nd,     \* transmissions of the pending command that were lost
          last    \* the last command sent
vars == <<tag, ridm, tag0, phys, pc, op, msg, ra, i, ncmd, nd, last>>

NDEFRW == 9            \* service code 0009h
OTHSC  == 4105         \* service code 1009h (unrelated service of the simulated tag)

Min2(a, b) == IF a < b THEN a ELSE b
MaxS(S) == Max(S)
Zeros(n) == [k \in 1..n |-> 0]
NoCmd == [sysn |-> -1, sc |-> <<>>, bl |-> <<>>, dat |-> <<>>]

Ndef(v) == [k |-> "ndef", v |-> v]
Empty == Ndef(<<>>)
NoNdef == [k |-> "none", v |-> <<>>]
NotReadable == [k |-> "notreadable", v |-> <<>>]

\* ------------------------------------------------------------------ tag layer (independent of nfcpy)
GenBlk(g, b) == [j \in 1..BS |-> (g + 31 * b + 7 * j + 13 * (b \div 256)) % 251]
Blk(M, b) == IF b \in DOMAIN M.w THEN M.w[b] ELSE GenBlk(M.gen, b)
Flat(M, n) ==                      \* the first n bytes of the data blocks
    LET bl == [b \in 1..((n + BS - 1) \div BS) |-> Blk(M, b)]
    IN [x \in 1..n |-> bl[((x - 1) \div BS) + 1][((x - 1) % BS) + 1]]
NB(T) == T.mem.nb
NOth(T) == (Len(T.oth) \div BS) \div T.card.n          \* blocks of the unrelated service per system
\* a command is executed by the system that owns its IDm (c.sysn); the NDEF services exist in system pos only
ElemOk(T, y, s, b) == \/ s = NDEFRW /\ y = T.card.pos /\ T.attr.rwflag # 0 /\ b <= NB(T)
                      \/ s = OTHSC /\ b < NOth(T)
TagOk(T, P, c) ==
    /\ c.sysn \in 0..(T.card.n - 1)
    /\ Len(c.bl) >= 1 /\ Len(c.bl) <= P.nbw
    /\ \A k \in 1..Len(c.bl) : ElemOk(T, c.sysn, c.sc[k], c.bl[k])

TagApply(T, c) ==
    LET n  == Len(c.bl)
        K9 == {k \in 1..n : c.sc[k] = NDEFRW}
        KA == {k \in K9 : c.bl[k] = 0}
        B9 == {c.bl[k] : k \in K9} \ {0}
        KO == {k \in 1..n : c.sc[k] = OTHSC}
        off == c.sysn * NOth(T)                    \* first block of the addressed system's unrelated service
        BO == {off + c.bl[k] : k \in KO}
        LastK(S, b) == MaxS({k \in S : c.bl[k] = b})
    IN [attr |-> IF KA = {} THEN T.attr ELSE c.dat[MaxS(KA)],
        mem  |-> IF B9 = {} THEN T.mem
                 ELSE [T.mem EXCEPT !.w = [b \in B9 |-> c.dat[LastK(K9, b)]] @@ @],
        oth  |-> IF BO = {} THEN T.oth
                 ELSE [x \in 1..Len(T.oth) |->
                        LET b == (x - 1) \div BS IN
                        IF b \in BO THEN c.dat[LastK(KO, b - off)][((x - 1) % BS) + 1] ELSE T.oth[x]],
        card |-> T.card]

\* ------------------------------------------------------------------ reference reader (T3T operation spec.)
\* no NDEF: checksum, major version, Ln beyond the announced data area (or beyond the blocks the
\* tag really has), no block readable (Nbr = 0)
AttrOk(T) == T.attr.ckok /\ T.attr.ver \div 16 = 1 /\ T.attr.ln <= T.attr.nmaxb * BS /\ T.attr.nbr > 0
HasNdef(T) == AttrOk(T) /\ (T.attr.ln + BS - 1) \div BS <= NB(T)
RefRead(T) ==
    IF ~HasNdef(T) THEN NoNdef
    ELSE IF T.attr.writef # 0 THEN NotReadable
    ELSE Ndef(Flat(T.mem, T.attr.ln))
RealCap(T) == Min2(T.attr.nmaxb, NB(T)) * BS

\* ------------------------------------------------------------------ nfcpy reader (tt3.py:158-226)
RepCap(T) == T.attr.nmaxb * BS                            \* tt3.py:172
Writeable(T) == T.attr.rwflag # 0 /\ T.attr.nbw > 0       \* tt3.py:173
LastBlk(n) == 1 + (n + BS - 1) \div BS
\* block lists of the Read Without Encryption commands of a fresh reader
CodeReadPlan(T) ==
    IF ~AttrOk(T) THEN << <<0>> >>
    ELSE LET lb == LastBlk(T.attr.ln)
             nbr == Min2(T.attr.nbr, RdMax)        \* tt3.py: nbr = min(attributes['nbr'], 15)
             nc == ((lb - 1) + nbr - 1) \div nbr
         IN << <<0>> >> \o [c \in 1..nc |->
                [j \in 1..Min2(nbr, lb - (1 + (c - 1) * nbr)) |-> (c - 1) * nbr + j]]

\* ------------------------------------------------------------------ nfcpy writer (tt3.py:228-250)
Padded(m) == m \o Zeros((BS - (Len(m) % BS)) % BS)
EncAttr(a) == [a EXCEPT !.rfu = <<0, 0, 0, 0>>, !.ckok = TRUE]      \* _write_attribute_data
AttrCmd(n, a) == [sysn |-> ridm, sc |-> [k \in 1..n |-> NDEFRW], bl |-> [k \in 1..n |-> 0],
                  dat |-> [k \in 1..n |-> a]]
DataCmd(f, n, bytes) ==
    [sysn |-> ridm, sc |-> [k \in 1..n |-> NDEFRW], bl |-> [k \in 1..n |-> f + k - 1],
     dat |-> [k \in 1..n |-> SubSeq(bytes, (k - 1) * BS + 1, k * BS)]]

WriteCmd ==
    IF pc = "w_on" THEN AttrCmd(1, EncAttr([ra EXCEPT !.writef = 15]))
    ELSE IF i < LastBlk(Len(msg))
    THEN LET n == Min2(ra.nbw, LastBlk(Len(msg)) - i)
         IN DataCmd(i, n, SubSeq(Padded(msg), (i - 1) * BS + 1, (i - 1 + n) * BS))
    ELSE AttrCmd(1, EncAttr([ra EXCEPT !.writef = 0, !.ln = Len(msg)]))
WriteNextPc == IF pc = "w_on" THEN "w_data" ELSE IF i < LastBlk(Len(msg)) THEN "w_data" ELSE "done"
WriteNextI == IF pc = "w_on" THEN 1 ELSE i + ra.nbw

\* tag.ndef of a freshly activated reader: after the poll for 12FCh (if the tag was found under another
\* system code) the commands carry the IDm of the NDEF system
Discover ==
    /\ pc = "fresh"
    /\ pc' = "idle" /\ ridm' = tag.card.pos
    /\ UNCHANGED <<tag, tag0, phys, op, msg, ra, i, ncmd, nd, last>>

Begin(m) ==
    /\ pc = "idle" /\ HasNdef(tag)
    /\ op' = "write" /\ msg' = m /\ ra' = tag.attr /\ i' = 0
    /\ pc' = IF ~Writeable(tag) THEN "refused"
             ELSE IF Len(m) > RepCap(tag) THEN "rejected" ELSE "w_on"
    /\ UNCHANGED <<tag, ridm, tag0, phys, ncmd, nd, last>>

\* one Write Without Encryption command `c` reaches the tag (c = WriteCmd for the modelled writer)
WriteStep(c) ==
    /\ pc \in {"w_on", "w_data"}
    /\ ncmd' = ncmd + 1 /\ last' = c /\ nd' = 0
    /\ IF TagOk(tag, phys, c)
       THEN tag' = TagApply(tag, c) /\ pc' = WriteNextPc /\ i' = WriteNextI
       ELSE tag' = tag /\ pc' = "error" /\ i' = i
    /\ UNCHANGED <<ridm, tag0, phys, op, msg, ra>>

Drop ==
    /\ op = "write" /\ pc \in {"w_on", "w_data"}
    /\ nd' = nd + 1
    /\ pc' = IF nd + 1 >= Retries THEN "failed" ELSE pc
    /\ UNCHANGED <<tag, ridm, tag0, phys, op, msg, ra, i, ncmd, last>>

PowerCut ==
    /\ op = "write" /\ pc \in {"w_on", "w_data", "done"}
    /\ pc' = "cut"
    /\ UNCHANGED <<tag, ridm, tag0, phys, op, msg, ra, i, ncmd, nd, last>>

\* ------------------------------------------------------------------ nfcpy format (tt3.py:369-460)
\* ra = [ver, wipe (-1: None), nbw (discovered)]
FBegin(ver, wipe) ==
    /\ pc = "idle"
    /\ op' = "format" /\ msg' = <<>> /\ i' = 1
    /\ ra' = [ver |-> ver, wipe |-> wipe, nbw |-> 0]
    /\ pc' = IF ver \div 16 # 1 THEN "ffalse" ELSE "f_probe"
    /\ UNCHANGED <<tag, ridm, tag0, phys, ncmd, nd, last>>

FNbw(n) == IF n = 13 /\ NB(tag) > 255 THEN 12 ELSE n
FNewAttr == [ver |-> ra.ver, nbr |-> Min2(15, phys.nbr), nbw |-> FNbw(ra.nbw), nmaxb |-> NB(tag),
             rfu |-> <<0, 0, 0, 0>>, writef |-> 0, rwflag |-> IF FNbw(ra.nbw) > 0 THEN 1 ELSE 0,
             ln |-> 0, ckok |-> TRUE]
FormatCmd ==
    CASE pc = "f_probe" -> AttrCmd(i, tag.attr)
      [] pc = "f_attr"  -> AttrCmd(1, FNewAttr)
      [] pc = "f_wipe"  -> DataCmd(i, 1, [k \in 1..BS |-> ra.wipe % 256])
AfterAttr == IF ra.wipe >= 0 /\ NB(tag) > 0 THEN "f_wipe" ELSE "fdone"

FormatStep(c) ==
    /\ pc \in {"f_probe", "f_attr", "f_wipe"}
    /\ ncmd' = ncmd + 1 /\ last' = c /\ nd' = nd
    /\ LET ok == TagOk(tag, phys, c) IN
       /\ tag' = IF ok THEN TagApply(tag, c) ELSE tag
       /\ CASE pc = "f_probe" ->
                 IF ok /\ i < 13 THEN pc' = "f_probe" /\ i' = i + 1 /\ ra' = ra
                 ELSE /\ pc' = "f_attr" /\ i' = 0
                      /\ ra' = [ra EXCEPT !.nbw = IF ok THEN i ELSE i - 1]
            [] pc = "f_attr" ->
                 IF ok THEN pc' = AfterAttr /\ i' = NB(tag) /\ ra' = ra
                 ELSE pc' = "error" /\ i' = i /\ ra' = ra
            [] pc = "f_wipe" ->
                 IF ok THEN pc' = (IF i > 1 THEN "f_wipe" ELSE "fdone") /\ i' = i - 1 /\ ra' = ra
                 ELSE pc' = "error" /\ i' = i /\ ra' = ra
    /\ UNCHANGED <<ridm, tag0, phys, op, msg>>

\* ------------------------------------------------------------------ exhaustive model (scaled constants)
OldMem(n) == [b \in 1..n |-> [j \in 1..BS |-> 1 + (((b - 1) * BS + j) % 2)]]
OthMem(n) == [x \in 1..(n * BS) |-> 9]
NewMsg(kind, n) == IF kind = "a" THEN [x \in 1..n |-> 3 + (x % 2)]
                   ELSE [x \in 1..n |-> IF x % 2 = 0 THEN 0 ELSE 1]

Init ==
    /\ \E nmaxb \in Nmaxbs, ex \in Extras, nbr \in Nbrs, nbw \in Nbws, rw \in RWFlags,
          wf \in WriteFs, ver \in Vers, ck \in CkOks, rfu \in Rfus, cc \in Cards :
         \E ln \in 0..(nmaxb * BS) :
            /\ tag = [attr |-> [ver |-> ver, nbr |-> nbr, nbw |-> nbw, nmaxb |-> nmaxb,
                                rfu |-> <<rfu, rfu, rfu, rfu>>, writef |-> wf, rwflag |-> rw,
                                ln |-> ln, ckok |-> ck],
                      mem |-> [nb |-> nmaxb + ex, gen |-> 0, w |-> OldMem(nmaxb + ex)],
                      oth |-> OthMem(cc \div 100), card |-> [n |-> cc \div 100, pos |-> (cc \div 10) % 10]]
            /\ phys = [nbr |-> nbr, nbw |-> nbw]
            /\ ridm = cc % 10
    /\ tag0 = tag
    /\ pc = "fresh" /\ op = "none" /\ msg = <<>> /\ ra = 0 /\ i = 0 /\ ncmd = 0 /\ nd = 0 /\ last = NoCmd

Next ==
    \/ Discover
    \/ \E kind \in MsgKinds, n \in 0..(RepCap(tag) + 1) : Begin(NewMsg(kind, n))
    \/ WriteStep(WriteCmd)
    \/ WithCut /\ PowerCut
    \/ WithOutage /\ Drop
    \/ WithFormat /\ Writeable(tag) /\ \E ver \in {16, 32}, wipe \in {-1, 7} : FBegin(ver, wipe)
    \/ WithFormat /\ FormatStep(FormatCmd)

Spec == Init /\ [][Next]_vars

\* ------------------------------------------------------------------ properties
\* C01
RoundTrip == pc = "done" => RefRead(tag) = Ndef(msg)
WriteOk == pc # "error"
CapSound == RepCap(tag0) <= RealCap(tag0)
RejectEarly == pc \in {"rejected", "refused", "ffalse"} => ncmd = 0 /\ tag = tag0
CodeReadOk ==        \* the chunked read of nfcpy covers exactly the blocks the reference reader needs
    HasNdef(tag) =>
        LET plan == CodeReadPlan(tag)
            blocks == FoldLeft(LAMBDA a, b : a \o b, <<>>, Tail(plan))     \* (FlattenSeq recurses too deep)
        IN /\ blocks = [k \in 1..(LastBlk(tag.attr.ln) - 1) |-> k]
           /\ \A c \in 1..Len(plan) : Len(plan[c]) >= 1 /\ Len(plan[c]) <= Min2(tag.attr.nbr, RdMax)
\* C02: every reachable state of a write, in particular every PowerCut state
Atomic == op = "write" =>
            RefRead(tag) \in {RefRead(tag0), Empty, NotReadable, Ndef(msg)}
\* C03
WriteArea == 0..tag0.attr.nmaxb
InArea(c, area) == \A k \in 1..Len(c.bl) : c.sc[k] = NDEFRW /\ c.bl[k] \in area
MgmtKept == /\ tag.attr.ver = tag0.attr.ver /\ tag.attr.nbr = tag0.attr.nbr /\ tag.attr.nbw = tag0.attr.nbw
            /\ tag.attr.nmaxb = tag0.attr.nmaxb /\ tag.attr.rwflag = tag0.attr.rwflag
Confined ==
    /\ tag.oth = tag0.oth /\ tag.card = tag0.card
    /\ last # NoCmd => last.sysn = tag0.card.pos          \* no write command is addressed to another system
    /\ op = "write" =>
         /\ tag.mem.nb = tag0.mem.nb /\ tag.mem.gen = tag0.mem.gen
         /\ \A b \in DOMAIN tag.mem.w : b > tag0.attr.nmaxb => tag.mem.w[b] = Blk(tag0.mem, b)
         /\ MgmtKept
         /\ InArea(last, WriteArea)
    /\ op = "format" => InArea(last, 0..NB(tag0))
    /\ pc \in {"rejected", "refused", "ffalse"} => tag = tag0

TypeOK == pc \in {"fresh", "idle", "refused", "rejected", "w_on", "w_data", "done", "cut", "failed", "error",
                  "ffalse", "f_probe", "f_attr", "f_wipe", "fdone"}

\* ------------------------------------------------------------------ reachability witnesses (must be violated)
W_CutOld == ~(pc = "cut" /\ ncmd = 0 /\ tag0.attr.ln > 0 /\ RefRead(tag) = RefRead(tag0) /\ RefRead(tag).k = "ndef")
W_CutNotReadable == ~(pc = "cut" /\ RefRead(tag) = NotReadable /\ tag.mem # tag0.mem /\ tag0.attr.writef = 0)
W_CutNew == ~(pc = "cut" /\ Len(msg) > 0 /\ RefRead(tag) = Ndef(msg) /\ RefRead(tag0) # Ndef(msg))
W_Rejected == ~(pc = "rejected")
W_Refused == ~(pc = "refused")
W_Batches == ~(pc = "w_data" /\ Len(last.bl) >= 2 /\ i < LastBlk(Len(msg)))
W_Full == ~(pc = "done" /\ Len(msg) = RepCap(tag0) /\ Len(msg) >= 2 * BS /\ NB(tag) * BS > Len(msg))
W_Recover == ~(pc = "done" /\ tag0.attr.writef # 0 /\ Len(msg) > 0)
W_OtherSystem == ~(pc = "done" /\ tag.card.n = 3 /\ tag.card.pos = 2 /\ Len(msg) > BS)
W_FailedMidway == ~(pc = "failed" /\ ncmd >= 2 /\ RefRead(tag) = NotReadable /\ tag.mem # tag0.mem)
W_EmptyMsg == ~(pc = "done" /\ Len(msg) = 0 /\ tag0.attr.ln > 0)
W_FormatWipe == ~(pc = "fdone" /\ ra.wipe >= 0 /\ ncmd > 3 /\ tag.attr.nmaxb > tag0.attr.nmaxb)
=============================================================================
