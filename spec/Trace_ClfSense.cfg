SPECIFICATION TSpec
CONSTANTS
  MaxLen = 8
  MaxIter = 9
  MaxOps = 99
CONSTRAINT Done
CHECK_DEADLOCK FALSE
