SPECIFICATION TSpec
CONSTANTS
  Intervals = {0}
  Cycles = {0}
  MaxLen = 8
  MaxIter = 9
  MaxOps = 99
CONSTRAINT Done
CHECK_DEADLOCK FALSE
