--------------------------- MODULE LlcpCollect ---------------------------
(* The frame collector of one LLCP link controller and the dispatcher of its peer
   (C10: nothing sent exceeds the peer's announced MIU; aggregation is transparent).

   Bound to nfc/llcp/llc.py  collect() 567-649, dispatch() 651-687,
   ServiceAccessPoint.dequeue/sendack 137-154, ServiceDiscovery.dequeue 219-241 and
   nfc/llcp/tco.py  TransmissionControlObject.dequeue 159-188, RawAccessPoint.dequeue 250,
   LogicalDataLink.sendto 297-306, DataLinkConnection.send 505-525 / dequeue 678-724 /
   sendack 726-734.

   A PDU is a *descriptor*: kind, header size and declared length (what header_size and
   len(pdu) say - the numbers collect() budgets with), the encoded length, and the fields
   the LLCP length rules depend on.  The controller state is a record and every callee of
   collect() is a *function* on it returning [c |-> new state, out |-> PDU or None], so
   that Collect is literally the composition the code performs.

   Modelling decisions (the spec models the code, not the intent):
   * SdresMin is the guard of the SDRES batching loop in ServiceDiscovery.dequeue:
     the code as shipped has `while miu_size > 0` (SdresMin = 1), the repaired code
     `while miu_size >= 4` (SdresMin = 4).  Both are checked; FrameFits decides.
   * LoopGuard is the guard of collect()'s aggregation loop: the code as shipped has `while True` and tests
     miu_size only *after* a PDU was appended, so the loop also runs when the budget left after the first PDU
     is already negative (LoopGuard = FALSE); the repaired code has `while miu_size >= 0` (LoopGuard = TRUE).
   * a service access point without sockets reports mode 0 == RAW_ACCESS_POINT
     (llc.py:61-72), so SAP 0 is iterated with the raw access points in the first loop.
   * the data link connection's sequence state is abstracted to what collect() can see:
     est (ESTABLISHED), ack in {"none","vol","nec"} (voluntary / necessary acknowledgement
     pending), rbusy/bsent (RECV_BUSY / RECV_BUSY_SENT).                                    *)
EXTENDS Integers, Sequences, SequencesExt, FiniteSets, TLC

CONSTANTS SendMius,     \* link MIUs announced by the peer (cfg['send-miu'])
          Agfs,         \* aggregation on/off choices
          Layouts,      \* socket kinds at the SAPs above the SD component, e.g. <<"ldl","raw","dlc">>
          Infos,        \* payload lengths offered to sendto()/send()
          RawInfos,     \* payload lengths of UI PDUs pushed through a raw access point
          CtlKinds,     \* control PDUs that may sit in a data link connection's queue
          MaxQ,         \* bound on a socket's send queue            (model checking only)
          MaxTotal,     \* bound on all queued PDUs                   (model checking only)
          MaxRes,       \* bound on pending SDRES                     (model checking only)
          ReqLens,      \* name lengths of pending SDREQ
          MaxReq,       \* bound on pending SDREQ                     (model checking only)
          MaxDm,        \* bound on DM PDUs queued at SD / SAP 0      (model checking only)
          AckStates,    \* initial ack states of data link connections
          SdresMin,     \* 1: `while miu_size > 0` (as shipped)   4: `while miu_size >= 4`
          LoopGuard     \* FALSE: aggregation loop is `while True` (as shipped)   TRUE: `while miu_size >= 0`

VARIABLES c,            \* sender: [saps, sd, miu, agf]
          phase,        \* "fill" | "sent" | "done" | "drain" (left-overs are collected, nothing is added)
          fr,           \* last collected frame [f |-> Seq(PDU), agf |-> BOOLEAN]
          col,          \* history: PDUs in the order collect() dequeued them
          rcvd          \* PDUs dispatched at the peer from the last frame
vars == <<c, phase, fr, col, rcvd>>

NoLimit == -1000000     \* miu_size=None of RawAccessPoint.dequeue

\* ------------------------------------------------------------------ PDU descriptors
Blank == [k |-> "NONE", h |-> 2, dl |-> 0, el |-> 0, n |-> 0, miu |-> 128, rw |-> 1, sn |-> 0,
          res |-> 0, req |-> <<>>, raw |-> FALSE, id |-> 0]
None == Blank

Hdr(k) == IF k \in {"I", "RR", "RNR"} THEN 3 ELSE 2      \* pdu.py header_size
SumSeq(s) == FoldLeft(LAMBDA a, x : a + x, 0, s)
\* the LLCP length rules (what len(pdu) and len(pdu.encode()) must both equal)
SpecLen(p) ==
    CASE p.k = "UI"      -> 2 + p.n
      [] p.k = "I"       -> 3 + p.n
      [] p.k \in {"RR", "RNR", "DM"} -> 3
      [] p.k = "FRMR"    -> 6
      [] p.k \in {"DISC", "SYMM"} -> 2
      [] p.k = "CONNECT" -> 2 + (IF p.miu > 128 THEN 4 ELSE 0) + (IF p.rw # 1 THEN 3 ELSE 0)
                              + (IF p.sn > 0 THEN 2 + p.sn ELSE 0)
      [] p.k = "CC"      -> 2 + (IF p.miu > 128 THEN 4 ELSE 0) + (IF p.rw # 1 THEN 3 ELSE 0)
      [] p.k = "SNL"     -> 2 + 4 * p.res + SumSeq([i \in DOMAIN p.req |-> 3 + p.req[i]])
      [] OTHER           -> 2 + p.n
Fix(p) == [p EXCEPT !.h = Hdr(p.k), !.dl = SpecLen(p), !.el = SpecLen(p)]
Data(k, n, raw, id) == Fix([Blank EXCEPT !.k = k, !.n = n, !.raw = raw, !.id = id])
Ctl(k) == Fix([Blank EXCEPT !.k = k])
Snl(nres, reqs) == Fix([Blank EXCEPT !.k = "SNL", !.res = nres, !.req = reqs])

Info(p) == p.dl - p.h                \* len(send_pdu) - send_pdu.header_size

\* ------------------------------------------------------------------ TransmissionControlObject.dequeue   tco.py:159-188
\* s: socket record [kind, q, est, ack, rbusy, bsent, lsn (listening)]; m: miu_size (NoLimit = None); icv_size is 0 (no llcp-sec)
TcoDeq(s, m) ==
    IF s.q = <<>> THEN [s |-> s, out |-> None]
    ELSE LET p == Head(s.q) IN
         IF m # NoLimit /\ Info(p) > m THEN [s |-> s, out |-> None]              \* requeue
         ELSE [s |-> [s EXCEPT !.q = Tail(@)], out |-> p]

AckPdu(s) == Ctl(IF s.rbusy THEN "RNR" ELSE "RR")

\* DataLinkConnection.dequeue                                                      tco.py:678-724
DlcDeq(s, m) ==
    IF s.est /\ s.bsent # s.rbusy
    THEN [s |-> [s EXCEPT !.bsent = s.rbusy], out |-> AckPdu(s)]
    ELSE LET r == TcoDeq(s, m) IN
         IF r.out # None
         THEN CASE r.out.k = "FRMR" -> [s |-> [r.s EXCEPT !.est = FALSE, !.q = <<>>, !.ack = "none"], out |-> r.out]
                [] r.out.k = "I" /\ s.est -> [s |-> [r.s EXCEPT !.ack = "none"], out |-> r.out]   \* piggyback
                [] OTHER -> r
         ELSE IF s.est /\ s.ack = "nec"
              THEN [s |-> [s EXCEPT !.ack = "none"], out |-> AckPdu(s)]                             \* necessary ack
              ELSE [s |-> s, out |-> None]

\* DataLinkConnection.sendack                                                      tco.py:726-734
DlcAck(s) == IF s.kind = "dlc" /\ s.est /\ s.ack \in {"vol", "nec"}
             THEN [s |-> [s EXCEPT !.ack = "none"], out |-> AckPdu(s)]
             ELSE [s |-> s, out |-> None]

SockDeq(s, m) == CASE s.kind = "raw" -> TcoDeq(s, NoLimit)                  \* tco.py:250
                   [] s.kind = "dlc" -> DlcDeq(s, m)
                   [] OTHER          -> TcoDeq(s, m)                        \* tco.py:332

\* ------------------------------------------------------------------ ServiceAccessPoint.dequeue / sendack   llc.py:137-154
\* a: SAP record [t, addr, socks, sl]
\* (since the fix "data sent right after accept() overtook the CC" listening sockets - they hold the CC PDUs of the
\* connections they accepted - are served before the other sockets of the access point: sorted(), stable)
SockOrder(a) == LET idx == [i \in 1..Len(a.socks) |-> i] IN
                SelectSeq(idx, LAMBDA i : a.socks[i].lsn) \o SelectSeq(idx, LAMBDA i : ~a.socks[i].lsn)
SapDeq(a, m) ==
    LET r == FoldLeft(LAMBDA acc, i : IF acc.out # None THEN acc
                                       ELSE LET d == SockDeq(acc.socks[i], m)
                                            IN [socks |-> [acc.socks EXCEPT ![i] = d.s], out |-> d.out],
                      [socks |-> a.socks, out |-> None], SockOrder(a))
    IN IF r.out # None THEN [a |-> [a EXCEPT !.socks = r.socks], out |-> r.out]
       ELSE IF a.sl # <<>> THEN [a |-> [a EXCEPT !.sl = Tail(@)], out |-> Head(a.sl)]
       ELSE [a |-> a, out |-> None]

SapAck(a) ==
    LET r == FoldLeft(LAMBDA acc, i : IF acc.out # None THEN acc
                                       ELSE LET d == DlcAck(acc.socks[i])
                                            IN [socks |-> [acc.socks EXCEPT ![i] = d.s], out |-> d.out],
                      [socks |-> a.socks, out |-> None], [i \in 1..Len(a.socks) |-> i])
    IN [a |-> [a EXCEPT !.socks = r.socks], out |-> r.out]

\* ------------------------------------------------------------------ ServiceDiscovery.dequeue   llc.py:219-241
\* sd: [res |-> number of pending answers, req |-> Seq of [tid, len], dm |-> Seq of DM PDUs]
SdDeq(sd, m0, g) ==
    IF sd.res > 0 \/ sd.req # <<>>
    THEN LET \* while miu_size > 0 (g = 1) / >= 4 (g = 4): pop one answer, miu_size -= 4
             a == FoldLeft(LAMBDA acc, i : IF acc.m >= g /\ acc.left > 0
                                             THEN [m |-> acc.m - 4, left |-> acc.left - 1] ELSE acc,
                           [m |-> m0, left |-> sd.res], [i \in 1..sd.res |-> i])
             \* for i in range(len(sdreq)): rotate if 3+len(name) > miu_size else pop
             b == FoldLeft(LAMBDA acc, i : LET h == Head(acc.req) IN
                                             IF 3 + h.len > acc.m
                                             THEN [acc EXCEPT !.req = Append(Tail(@), h)]
                                             ELSE [m |-> acc.m - (3 + h.len), req |-> Tail(acc.req),
                                                   take |-> Append(acc.take, h.len)],
                           [m |-> a.m, req |-> sd.req, take |-> <<>>], [i \in 1..Len(sd.req) |-> i])
         IN [sd |-> [sd EXCEPT !.res = a.left, !.req = b.req], out |-> Snl(sd.res - a.left, b.take)]
    ELSE IF sd.dm # <<>> /\ m0 > 0
    THEN [sd |-> [sd EXCEPT !.dm = Tail(@)], out |-> Head(sd.dm)]
    ELSE [sd |-> sd, out |-> None]

\* ------------------------------------------------------------------ collect()   llc.py:567-649
Mode(a) == IF a.t = "sd" THEN "ldl"                                   \* llc.py:171-173
           ELSE IF a.socks = <<>> THEN "raw"                          \* IndexError -> 0 == RAW_ACCESS_POINT
           ELSE Head(a.socks).kind

ElemDeq(cc, i, m, g) ==
    IF cc.saps[i].t = "sd"
    THEN LET r == SdDeq(cc.sd, m, g) IN [c |-> [cc EXCEPT !.sd = r.sd], out |-> r.out]
    ELSE LET r == SapDeq(cc.saps[i], m) IN [c |-> [cc EXCEPT !.saps[i] = r.a], out |-> r.out]

ElemAck(cc, i) ==
    IF Mode(cc.saps[i]) # "dlc" THEN [c |-> cc, out |-> None]
    ELSE LET r == SapAck(cc.saps[i]) IN [c |-> [cc EXCEPT !.saps[i] = r.a], out |-> r.out]

Idx(cc) == [i \in 1..Len(cc.saps) |-> i]
\* sorted(filter(None, sap), reverse=True, key=mode == RAW): raw first, stable
Order(cc) == SelectSeq(Idx(cc), LAMBDA i : Mode(cc.saps[i]) = "raw") \o
             SelectSeq(Idx(cc), LAMBDA i : Mode(cc.saps[i]) # "raw")

AgfLen(f) == 2 + FoldLeft(LAMBDA a, p : a + 2 + p.dl, 0, f)          \* pdu.py:433
Budget(cc, f) == cc.miu - AgfLen(f) - 3

Queued(cc) == FoldLeft(LAMBDA a, s : a + Len(s.sl) + FoldLeft(LAMBDA b, k : b + Len(k.q), 0, s.socks), 0, cc.saps)
              + cc.sd.res + Len(cc.sd.req) + Len(cc.sd.dm)
NSocks(cc) == FoldLeft(LAMBDA a, s : a + Len(s.socks), 0, cc.saps)
\* every round but the last dequeues a PDU: queued ones, <= 2 acks per socket, or an (empty) SNL of >= 4 bytes
Fuel(cc) == Queued(cc) + 2 * NSocks(cc) + (cc.miu \div 4) + 4

CollectG(cc, g, lg) ==
    LET \* first PDU: budget = send-miu, raw access points first
        p1 == FoldLeft(LAMBDA acc, i : IF acc.out # None THEN acc ELSE ElemDeq(acc.c, i, cc.miu, g),
                       [c |-> cc, out |-> None], Order(cc))
        \* voluntary acknowledgement if nothing else is to be sent
        p2 == IF p1.out # None THEN p1
              ELSE FoldLeft(LAMBDA acc, i : IF acc.out # None THEN acc ELSE ElemAck(acc.c, i),
                            [c |-> p1.c, out |-> None], Idx(cc))
    IN  IF p1.out # None /\ Info(p1.out) >= cc.miu THEN [c |-> p1.c, f |-> <<p1.out>>, agf |-> FALSE]
        ELSE IF p2.out = None THEN [c |-> p2.c, f |-> <<>>, agf |-> FALSE]
        ELSE IF ~cc.agf THEN [c |-> p2.c, f |-> <<p2.out>>, agf |-> FALSE]
        ELSE
        LET f0 == <<p2.out>>
            \* for sap in filter(None, self.sap): dequeue with the current budget - which is NOT tested before
            \* the call, only after an append (`if miu_size < 0: break`); AggLoopGuard is the repaired form
            Round(st) ==
                FoldLeft(LAMBDA a, i :
                            IF a.brk THEN a
                            ELSE LET r == ElemDeq(a.c, i, a.m, g) IN
                                 IF r.out = None THEN [a EXCEPT !.c = r.c]
                                 ELSE LET f1 == Append(a.f, r.out)
                                      IN [c |-> r.c, f |-> f1, m |-> Budget(cc, f1), dn |-> FALSE, stop |-> FALSE,
                                          brk |-> Budget(cc, f1) < 0],
                         [st EXCEPT !.dn = TRUE], Idx(cc))
            loop == FoldLeft(LAMBDA st, k : IF st.stop THEN st
                                             ELSE LET a == Round(st) IN [a EXCEPT !.stop = (a.m < 0 \/ a.dn)],
                             [c |-> p2.c, f |-> f0, m |-> Budget(cc, f0), dn |-> TRUE,
                              stop |-> (lg /\ Budget(cc, f0) < 0), brk |-> FALSE],
                             [k \in 1..Fuel(cc) |-> k])
            \* one round of voluntary acknowledgements if the budget is not exhausted
            acks == IF loop.m < 0 THEN loop
                    ELSE FoldLeft(LAMBDA a, i :
                                     IF a.m < 0 THEN a
                                     ELSE LET r == ElemAck(a.c, i) IN
                                          IF r.out = None THEN a
                                          ELSE LET f1 == Append(a.f, r.out)
                                               IN [a EXCEPT !.c = r.c, !.f = f1, !.m = Budget(cc, f1)],
                                  loop, Idx(cc))
        IN [c |-> acks.c, f |-> acks.f, agf |-> Len(acks.f) > 1]

CollectR(cc) == CollectG(cc, SdresMin, LoopGuard)

\* ------------------------------------------------------------------ the transmitted frame
EncLen(x) == IF x.f = <<>> THEN 2                                          \* SYMM
             ELSE IF x.agf THEN 2 + FoldLeft(LAMBDA a, p : a + 2 + p.el, 0, x.f)
             ELSE x.f[1].el
FrameInfo(x) == IF x.f = <<>> THEN 0
                ELSE IF x.agf THEN EncLen(x) - 2
                ELSE x.f[1].el - x.f[1].h
HasRaw(x) == \E i \in DOMAIN x.f : x.f[i].raw

\* dispatch(): an AGF is unpacked and every PDU dispatched in order; SYMM is dropped     llc.py:651-661
DispatchR(x) == IF x.agf THEN x.f ELSE IF x.f = <<>> THEN <<>> ELSE <<x.f[1]>>

\* ------------------------------------------------------------------ application-side guards
\* LogicalDataLink.sendto (tco.py:302) / DataLinkConnection.send (tco.py:512): EMSGSIZE above send_miu;
\* llc.sendto sets an LDL's send_miu to cfg['send-miu']; connect()/accept() clip a DLC's to it (llc.py:787,815)
SendRes(n, smiu) == IF n > smiu THEN "EMSGSIZE" ELSE "OK"

\* ------------------------------------------------------------------ properties (C10), parametric for trace mode
FrameFitsP(x, miu) == HasRaw(x) \/ FrameInfo(x) <= miu
\* a raw access point bypasses the limit by design; everybody else's payloads respect the receiver's MIU.
\* In this module the receiver's link MIU *is* the sender's send-miu; connection MIUs are at most that.
PayloadFitsP(x, miu) == \A i \in DOMAIN x.f : (x.f[i].k \in {"I", "UI"} /\ ~x.f[i].raw) => x.f[i].n <= miu
TransparentP(collected, dispatched) == dispatched = collected
LenIsLenP(x) == \A i \in DOMAIN x.f : /\ x.f[i].dl = SpecLen(x.f[i]) /\ x.f[i].el = SpecLen(x.f[i])
                                       /\ x.f[i].h = Hdr(x.f[i].k)

FrameFits   == phase \in {"sent", "done"} => FrameFitsP(fr, c.miu)
PayloadFits == phase \in {"sent", "done"} => PayloadFitsP(fr, c.miu)
Transparent == phase = "done" => TransparentP(col, rcvd)
LenIsLen    == phase \in {"sent", "done"} => LenIsLenP(fr)
\* the collected sequence is what was dequeued, nothing is invented or lost (conservation, per step)
NoWaste     == phase \in {"sent", "done"} => (fr.agf => Len(fr.f) > 1)

\* ------------------------------------------------------------------ model-checking actions
Sock(kind, ack) == [kind |-> kind, q |-> <<>>, est |-> (kind = "dlc"), ack |-> ack, rbusy |-> FALSE, bsent |-> FALSE,
                    lsn |-> FALSE]
SapRec(addr, socks) == [t |-> "sap", addr |-> addr, socks |-> socks, sl |-> <<>>]
SdRec == [t |-> "sd", addr |-> 1, socks |-> <<>>, sl |-> <<>>]

Init ==
    /\ \E miu \in SendMius, agf \in Agfs, lay \in Layouts :
       \E acks \in [1..Len(lay) -> AckStates], busy \in [1..Len(lay) -> BOOLEAN] :
          /\ \A i \in 1..Len(lay) : lay[i] # "dlc" => (acks[i] = "none" /\ ~busy[i])
          /\ c = [saps |-> <<SapRec(0, <<>>), SdRec>> \o
                           [i \in 1..Len(lay) |-> SapRec(31 + i, <<[Sock(lay[i], acks[i]) EXCEPT !.rbusy = busy[i]]>>)],
                  sd |-> [res |-> 0, req |-> <<>>, dm |-> <<>>], miu |-> miu, agf |-> agf]
    /\ phase = "fill"
    /\ fr = [f |-> <<>>, agf |-> FALSE]
    /\ col = <<>>
    /\ rcvd = <<>>

Room == phase = "fill" /\ Queued(c) < MaxTotal
Push(i, p) == c' = [c EXCEPT !.saps[i].socks[1].q = Append(@, p)]

\* sendto()/send() with MSG_DONTWAIT on an LDL / DLC socket
Send(i, n) ==
    /\ Room /\ c.saps[i].t = "sap" /\ c.saps[i].socks # <<>>
    /\ LET s == c.saps[i].socks[1] IN
       /\ s.kind \in {"ldl", "dlc"} /\ Len(s.q) < MaxQ
       /\ SendRes(n, c.miu) = "OK"
       /\ Push(i, Data(IF s.kind = "ldl" THEN "UI" ELSE "I", n, FALSE, 0))
    /\ UNCHANGED <<phase, fr, col, rcvd>>

\* a raw access point sends whatever it is given
RawSend(i, n) ==
    /\ Room /\ c.saps[i].t = "sap" /\ c.saps[i].socks # <<>>
    /\ c.saps[i].socks[1].kind = "raw" /\ Len(c.saps[i].socks[1].q) < MaxQ
    /\ Push(i, Data("UI", n, TRUE, 0))
    /\ UNCHANGED <<phase, fr, col, rcvd>>

\* CC after accept(), DISC after close(), FRMR after a bad I PDU ... in a DLC's queue
CtlQueued(i, k) ==
    /\ Room /\ c.saps[i].t = "sap" /\ c.saps[i].socks # <<>>
    /\ c.saps[i].socks[1].kind = "dlc" /\ Len(c.saps[i].socks[1].q) < MaxQ
    /\ (k = "FRMR" => c.saps[i].socks[1].q = <<>>)                       \* tco.py:639-640 clears the queue first
    /\ Push(i, Ctl(k))
    /\ UNCHANGED <<phase, fr, col, rcvd>>

\* DM queued by ServiceAccessPoint.enqueue (llc.py:122-133) at SAP 0 or an occupied SAP
SapDm(i) ==
    /\ Room /\ c.saps[i].t = "sap" /\ Len(c.saps[i].sl) < MaxDm
    /\ c' = [c EXCEPT !.saps[i].sl = Append(@, Ctl("DM"))]
    /\ UNCHANGED <<phase, fr, col, rcvd>>

\* dispatch() of an SNL PDU with k SDREQ -> k answers pending (llc.py:212-217)
SdReqIn(k) ==
    /\ Room /\ c.sd.res + k <= MaxRes
    /\ c' = [c EXCEPT !.sd.res = @ + k]
    /\ UNCHANGED <<phase, fr, col, rcvd>>

\* resolve(name) blocks after appending (tid, name) (llc.py:184-186)
Resolve(len) ==
    /\ Room /\ Len(c.sd.req) < MaxReq
    /\ c' = [c EXCEPT !.sd.req = Append(@, [tid |-> Len(@) + 1, len |-> len])]
    /\ UNCHANGED <<phase, fr, col, rcvd>>

\* connect-by-name to an unknown service -> DM at the SD component (llc.py:665-671)
SdDm ==
    /\ Room /\ Len(c.sd.dm) < MaxDm
    /\ c' = [c EXCEPT !.sd.dm = Append(@, Ctl("DM"))]
    /\ UNCHANGED <<phase, fr, col, rcvd>>

Collect ==
    /\ phase \in {"fill", "drain"}
    /\ LET r == CollectR(c) IN
       /\ c' = r.c
       /\ fr' = [f |-> r.f, agf |-> r.agf]
       /\ col' = r.f
    /\ phase' = "sent"
    /\ rcvd' = <<>>

Dispatch ==
    /\ phase = "sent"
    /\ rcvd' = DispatchR(fr)
    /\ phase' = "done"
    /\ UNCHANGED <<c, fr, col>>

Again ==       \* the next cycles of the run loop: what was left over is collected until nothing is left
    /\ phase = "done" /\ Queued(c) > 0
    /\ phase' = "drain"
    /\ fr' = [f |-> <<>>, agf |-> FALSE] /\ col' = <<>> /\ rcvd' = <<>>
    /\ UNCHANGED c

Next == \/ \E i \in 1..Len(c.saps) : \/ \E n \in Infos : Send(i, n)
                                     \/ \E n \in RawInfos : RawSend(i, n)
                                     \/ \E k \in CtlKinds : CtlQueued(i, k)
                                     \/ SapDm(i)
        \/ \E k \in 1..MaxRes : SdReqIn(k)
        \/ \E n \in ReqLens : Resolve(n)
        \/ SdDm
        \/ Collect \/ Dispatch \/ Again

Spec == Init /\ [][Next]_vars

\* ------------------------------------------------------------------ reachability witnesses (must be violated)
W_Agf      == ~(phase = "sent" /\ fr.agf /\ Len(fr.f) >= 3)
W_Full     == ~(phase = "sent" /\ fr.agf /\ FrameInfo(fr) = c.miu)                      \* budget used to the last byte
W_Requeue  == ~(phase = "sent" /\ fr.agf /\ \E i \in DOMAIN c.saps : \E j \in DOMAIN c.saps[i].socks :
                     c.saps[i].socks[j].q # <<>> /\ Info(Head(c.saps[i].socks[j].q)) <= c.miu)
W_SnlBatch == ~(phase = "sent" /\ \E i \in DOMAIN fr.f : fr.f[i].k = "SNL" /\ fr.f[i].res >= 2 /\ c.sd.res > 0)
W_SnlReq   == ~(phase = "sent" /\ \E i \in DOMAIN fr.f : fr.f[i].k = "SNL" /\ fr.f[i].req # <<>> /\ c.sd.req # <<>>)
W_RawOver  == ~(phase = "sent" /\ HasRaw(fr) /\ FrameInfo(fr) > c.miu)
W_Ack      == ~(phase = "sent" /\ fr.agf /\ fr.f[Len(fr.f)].k \in {"RR", "RNR"} /\ fr.f[1].k \notin {"RR", "RNR"})
W_Single   == ~(phase = "sent" /\ ~fr.agf /\ fr.f # <<>> /\ Info(fr.f[1]) = c.miu /\ Queued(c) > 0)
=============================================================================
