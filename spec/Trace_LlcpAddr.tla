-------------------------- MODULE Trace_LlcpAddr --------------------------
(* Trace validation for LlcpAddr (C17): every line of a recorded history of socket API calls on two real
   nfc.llcp.llc.LogicalLinkController objects (real 64-slot table) is one spec action with the logged
   arguments; the logged result, the logged observations (listener reached, socket that took the datagram,
   resolved address) and the logged projection of BOTH controllers (getsockname / state / peer / receive
   queue per socket, socket list per address, name list, remote name cache) must be the spec's; all C17
   invariants and step properties are evaluated as post-conditions of the step.

   The two repairs (WksCheck, SnlClean) are not constants here: a step is accepted for the shipped or the
   repaired form of the call - the invariants judge the result either way.                                  *)
EXTENDS LlcpAddr, Json, IOUtils, TLCExt

VARIABLES tid, l, fails
tvars == <<w, last, tid, l, fails>>

Traces == ndJsonDeserialize(IOEnv.TRACE_FILE)
T == Traces[tid].ev

\* names the histories use, in the order of the logged name-list projection
NameSeq == <<"wk", "n1", "n2", "n3", "n4", "n5", "n6", "n7", "n8", "n9", "n10", "n11", "n12", "n13", "n14",
             "n15", "n16", "n17", "n18", "n19", "n20">>
TraceNames == {NameSeq[i] : i \in DOMAIN NameSeq}
AnyRole == [c \in Sides |-> {"Socket", "BindNone", "BindAddr", "BindName", "Listen", "Accept", "Close", "RecvFrom",
                             "Resolve", "ConnectName", "ConnectAddr", "SendTo", "Recv", "PeerFrmr", "DSend"}]
AnyKind == [c \in Sides |-> <<>>]
NoBound == [c \in Sides |-> 1000000]
MiuAB == [c \in Sides |-> 128]          \* overridden per trace in TInit (const.miuA / const.miuB)

TInit ==
    /\ tid \in 1..Len(Traces)
    /\ l = 1
    /\ w = [World0 EXCEPT !.miu = [c \in Sides |-> IF c = "A" THEN Traces[tid].const.miuA ELSE Traces[tid].const.miuB]]
    /\ last = L0
    /\ fails = <<>>

Ev == T[l]
IsEv(op) == l <= Len(T) /\ Ev.op = op /\ l' = l + 1 /\ UNCHANGED tid

Fixes == [wks : BOOLEAN, snl : BOOLEAN, keep : {FALSE}]

\* --- guarded spec actions with the logged arguments -------------------------------------------
Guarded ==
    \/ IsEv("Socket")      /\ Socket(Ev.c, Ev.kind)
    \/ IsEv("BindNone")    /\ BindNone(Ev.c, Ev.s)
    \/ IsEv("BindAddr")    /\ BindAddr(Ev.c, Ev.s, Ev.a)
    \/ IsEv("BindName")    /\ \E fx \in Fixes : BindNameF(Ev.c, Ev.s, Ev.n, fx)
    \/ IsEv("Listen")      /\ Listen(Ev.c, Ev.s)
    \/ IsEv("ConnectAddr") /\ ConnectAddr(Ev.c, Ev.s, Ev.a)
    \/ IsEv("ConnectName") /\ ConnectName(Ev.c, Ev.s, Ev.n)
    \/ IsEv("Accept")      /\ Accept(Ev.c, Ev.s)
    \/ IsEv("SendTo")      /\ SendTo(Ev.c, Ev.s, Ev.dst, Ev.m, Ev.ln)
    \/ IsEv("RecvFrom")    /\ RecvFrom(Ev.c, Ev.s)
    \/ IsEv("Recv")        /\ Recv(Ev.c, Ev.s)
    \/ IsEv("PeerFrmr")    /\ PeerFrmr(Ev.c, Ev.s)
    \/ IsEv("DSend")       /\ DSend(Ev.c, Ev.s, Ev.m)
    \/ IsEv("Resolve")     /\ Resolve(Ev.c, Ev.n)
    \/ IsEv("Close")       /\ \E fx \in Fixes : CloseF(Ev.c, Ev.s, fx)

\* --- logged results and observations ------------------------------------------------------------
ResOk ==
    /\ last'.res = Ev.res
    /\ Ev.op = "Resolve" => (last'.val = Ev.val /\ last'.cached = Ev.cached)
    /\ Ev.op \in {"ConnectAddr", "ConnectName"} => last'.reach = Ev.reach
    /\ Ev.op \in {"SendTo", "Accept", "DSend"} => last'.got = Ev.got
    /\ Ev.op = "Recv" => last'.m = Ev.m
    /\ Ev.op = "RecvFrom" => (last'.m = Ev.m /\ last'.a = Ev.a /\ last'.ln = Ev.ln)

\* projection of one controller: what getsockname / the tables show
ProjSock(k) == [kind |-> k.kind, addr |-> k.addr, st |-> k.st, peer |-> k.peer,
                rq |-> [j \in DOMAIN k.rq |-> <<IF k.st = "listen" THEN 0 ELSE k.rq[j].m, k.rq[j].ssap, k.rq[j].len>>]]
\* sparse: <<address, socket ids>> of the occupied access points, <<name index, address>> of the known names
Sparse(f, n, skip) == FoldLeft(LAMBDA acc, i : IF f[i] = skip THEN acc ELSE Append(acc, <<i, f[i]>>), <<>>, [i \in 1..n |-> i])
ProjSide(x, c) == [sk   |-> [i \in DOMAIN x.sk[c] |-> ProjSock(x.sk[c][i])],
                   sap  |-> Sparse([i \in 1..NSap |-> x.sap[c][i - 1]], NSap, <<>>),
                   snl  |-> Sparse([i \in DOMAIN NameSeq |-> x.snl[c][NameSeq[i]]], Len(NameSeq), 0),
                   rsnl |-> Sparse([i \in DOMAIN NameSeq |-> x.rsnl[c][NameSeq[i]]], Len(NameSeq), NoAddr)]
Proj(x) == [A |-> ProjSide(x, "A"), B |-> ProjSide(x, "B")]
PostOk == Proj(w') = Ev.post

InvNames == <<"LiveFirst", "OneAddrPerSocket", "NoDoubleAlloc", "RangesRespected", "FreedOnLastClose", "AddrPoolConserved", "Datagram",
              "ResolveRight", "InUseRight", "ConnectByName", "DatagramStep", "Delivered">>
\* state invariants are judged at the step that breaks them (P(w) => P(w')): a defect is reported where it
\* happens (recorded in `fails`) and the rest of the history is still validated
InvP(n) == CASE n = "LiveFirst"        -> LiveFirstP(w) => LiveFirstP(w')
             [] n = "OneAddrPerSocket" -> OneAddrPerSocketP(w) => OneAddrPerSocketP(w')
             [] n = "NoDoubleAlloc"    -> NoDoubleAllocP(w) => NoDoubleAllocP(w')
             [] n = "RangesRespected"  -> RangesRespectedP(w) => RangesRespectedP(w')
             [] n = "FreedOnLastClose" -> FreedOnLastCloseP(w) => FreedOnLastCloseP(w')
             [] n = "AddrPoolConserved" -> AddrPoolConservedP(w) => AddrPoolConservedP(w')
             [] n = "Datagram"         -> DatagramP(w) => DatagramP(w')
             [] n = "ResolveRight"     -> ResolveRightP(w, last')
             [] n = "InUseRight"       -> InUseRightP(w, last')
             [] n = "ConnectByName"    -> ConnectByNameP(w, last')
             [] n = "DatagramStep"     -> DatagramStepP(w, w', last')
             [] n = "Delivered"        -> DeliveredP(w, last')
AllInv == \A i \in DOMAIN InvNames : InvP(InvNames[i])
Broken == SelectSeq(InvNames, LAMBDA n : ~InvP(n))

Conforms == Guarded /\ ResOk /\ PostOk
\* the call conforms to the spec action; invariants it breaks are recorded and the history goes on
Real == Conforms /\ fails' = IF AllInv THEN fails ELSE Append(fails, <<l, Ev.op, Broken>>)

\* --- the allocation invariant on the REAL tables (the logged projection), evaluated after every call:
\* a socket the application has closed is in no access point, an access point without sockets does not exist,
\* and every registered service name points at an existing access point
RT_ClosedGone(P)  == \A i \in DOMAIN P.sap : \A j \in DOMAIN P.sap[i][2] : P.sk[P.sap[i][2][j]].st # "shut"
RT_NoEmptyAp(P)   == \A i \in DOMAIN P.sap : P.sap[i][2] # <<>>
RT_NamesLive(P)   == \A i \in DOMAIN P.snl : \E j \in DOMAIN P.sap : P.sap[j][1] = P.snl[i][2] + 1 /\ P.sap[j][2] # <<>>
\* no socket that is not ESTABLISHED stands before an ESTABLISHED one with the same (or no) peer: it would take its PDUs
RT_LiveFirst(P)   == \A a \in DOMAIN P.sap : \A i, j \in DOMAIN P.sap[a][2] :
                        LET u == P.sk[P.sap[a][2][i]]  v == P.sk[P.sap[a][2][j]] IN
                        ~(i < j /\ u.kind = "dlc" /\ u.st # "conn" /\ v.st = "conn" /\ u.peer \in {NoAddr, v.peer})
RealNames == <<"ClosedSocketInAccessPoint", "AccessPointWithoutSockets", "NameOfRemovedAccessPoint", "StaleSocketBeforeLiveConnection">>
RealP(n, P) == CASE n = "ClosedSocketInAccessPoint" -> RT_ClosedGone(P)
                 [] n = "AccessPointWithoutSockets" -> RT_NoEmptyAp(P)
                 [] n = "NameOfRemovedAccessPoint"  -> RT_NamesLive(P)
                 [] n = "StaleSocketBeforeLiveConnection" -> RT_LiveFirst(P)
BrokenReal == SelectSeq(RealNames, LAMBDA n : ~(RealP(n, Ev.post.A) /\ RealP(n, Ev.post.B)))

\* --- diagnosis -------------------------------------------------------------------------------
\* what the shipped code's model answers (for the message only)
Expected ==
    CASE Ev.op \in {"BindNone", "BindAddr", "BindName"} ->
            BindR(w, Ev.c, Ev.s, IF Ev.op = "BindNone" THEN [t |-> "none"]
                                 ELSE IF Ev.op = "BindAddr" THEN [t |-> "addr", a |-> Ev.a]
                                 ELSE [t |-> "name", n |-> Ev.n], NoFix).res
      [] Ev.op = "Resolve" -> ResolveR(w, Ev.c, Ev.n).val
      [] Ev.op = "Close" -> CloseR(w, Ev.c, Ev.s, NoFix).res
      [] Ev.op = "Listen" -> ListenR(w, Ev.c, Ev.s).res
      [] Ev.op = "SendTo" -> LET r == SendToR(w, Ev.c, Ev.s, Ev.dst, Ev.m, Ev.ln) IN
                             <<r.res, r.got, IF r.res = "OK" /\ Ev.res = "OK" /\ r.got # 0 /\ Ev.got = 0
                                             THEN "AcceptedDatagramNotDelivered" ELSE "-">>
      [] OTHER -> "-"
Why == IF ~ENABLED Guarded THEN <<"guard">>
       ELSE IF ~ENABLED (Guarded /\ ResOk) THEN <<"result", Expected>>
       ELSE <<"post", BrokenReal>>

Stuck ==
    /\ l <= Len(T)
    /\ ~ENABLED Real
    /\ PrintT(<<"STUCK", Traces[tid].id, l, Ev.op, Why, fails>>)
    /\ l' = Len(T) + 2
    /\ UNCHANGED <<w, last, tid, fails>>

TNext == Real \/ Stuck
TSpec == TInit /\ [][TNext]_tvars

Done == (l = Len(T) + 1) =>
            IF fails = <<>> THEN PrintT(<<"ACCEPT", Traces[tid].id>>)
            ELSE PrintT(<<"STUCK", Traces[tid].id, fails[1][1], fails[1][2], <<"inv", fails[1][3]>>, fails>>)
=============================================================================
