------------------------------ MODULE TagCmd ------------------------------
(* Command/retry discipline of the tag operations of nfc/tag (C16).

   A tag operation (ndef read, ndef write, is_present, format, protect, dump, raw read/write ...) is a
   sequence of commands; every command goes through one of the transceive loops
       tt1.py:453-477 Type1Tag.transceive            3 attempts
       tt2.py:565-609 Type2Tag.transceive            1 + retries attempts (retries = 0 for SECTOR SELECT packet 2)
       tt3.py:678-747 Type3Tag.send_cmd_recv_rsp     3 attempts
       tt4.py:88-177  IsoDepInitiator.exchange       recovery with R(NAK)/R(ACK) while i <= n_retry
   One action per clf.exchange() call and its outcome:
       Send(h, cc)            clf.exchange(data) called: h = hash of the bytes, cc = command class
       Answer(rk)             the tag executed the command and the answer arrived (rk = "rack": ISO-DEP R(ACK)
                              answering an R(NAK) = "I have not seen your block"; rk = "wtx": ISO-DEP S(WTX) request,
                              the S(WTX) response that follows (cc = "S") belongs to the same attempt of the same command;
                              after a fault in that exchange the recovery block of the command is due, not the S(WTX) again)
       Fault(kind, ex)        nfc.clf.TimeoutError / TransmissionError / ProtocolError raised by clf.exchange
                              (ex: the tag had executed the command before the answer was lost)
       Sense(res)             clf.sense(target) called by the tag code to re-select the tag (tt2.py:488 after a NAK,
                              tt2_nxp.py protect(password) re-activation): res = FALSE when the tag has left the field.
                              The tag object's `target` must follow the last sense result (tp, logged with every
                              Send and Ret, is "tag.target is not None"): a cleared target makes later operations on
                              the same object end with TIMEOUT_ERROR / False / None instead of a TypeError
       Ret(kind, errno, val)  how the public operation ended
   The client obligations are recorded as violations in `viol` instead of being guards, so that the same
   functions serve exhaustive checking of the discipline (MC_TagCmd: a client that follows the code's loops,
   or -- Buggy -- one that breaks them: witnesses) and validation of recorded executions (Trace_TagCmd).
*)
EXTENDS Integers, Sequences, FiniteSets, TLC

Kinds == {"timeout", "transmission", "protocol"}
Modes == {"before", "after"}              \* fault before / after the tag executed the command
ErrnoOf(k) == CASE k = "timeout" -> 0 [] k = "transmission" -> -1 [] k = "protocol" -> -2

\* attempts (clf.exchange calls) the code spends on one command
Budget(proto, cc, nRetry) ==
    CASE proto = "T2" /\ cc = "ssel2" -> 1          \* tt2.py:557 retries=0, a time-out IS the answer (passive ack)
      [] cc = "act" -> 1                            \* activation exchanges (RATS tt4.py:535, ATTRIB tt4.py:577, the probes
                                                    \* of tt2_nxp.py:740,754): clf.exchange() called once, never repeated
      [] proto = "T4" /\ cc = "P" -> 1              \* tt4.py:82-86, 357-362 presence check: one R(NAK), no retry
      [] proto = "T4" -> nRetry + 1                 \* tt4.py: i <= n_retry
      [] OTHER -> 3

\* the fault scripts the binding must enumerate for an operation of N commands
Scripts(N, bursts) == {[p |-> p, k |-> k, b |-> b, m |-> m] : p \in 1..N, k \in Kinds, b \in bursts, m \in Modes}

\* bursts of mixed kinds: the first fault of kind k1, all later ones of kind k # k1 (the error that persisted - the one the
\* TagCommandError must carry - is the one of the final attempt: DoFault records lastGive at the fault that exhausts the budget)
MixedScripts(N) == {s \in {[p |-> p, k1 |-> k1, k |-> k] : p \in 1..N, k1 \in Kinds, k \in Kinds} : s.k1 # s.k}

\* parameters of one run: [proto, nRetry, clean (Seq of hashes), cleanRet ([kind, errno, val]), doc (set of values)]
StInit == [pos |-> 0, att |-> 0, cur |-> 0, cc |-> "-", ph |-> "idle", gave |-> 0, lastGive |-> "-", justGave |-> FALSE,
           ex |-> 0, fAfter |-> 0, dirty |-> FALSE, amb |-> FALSE, tgt |-> TRUE, viol |-> {}, ret |-> [kind |-> "-", errno |-> 0, val |-> "-"]]

V(s, name) == [s EXCEPT !.viol = @ \cup {name}]
VIf(s, cond, name) == IF cond THEN V(s, name) ELSE s

\* the tag left the field: for the operation this is a persistent time-out (it gives up)
DoSense(s, P, res) ==
    IF res THEN [s EXCEPT !.tgt = TRUE]
    ELSE [s EXCEPT !.tgt = FALSE, !.gave = s.gave + 1, !.lastGive = "gone", !.dirty = TRUE]

DoSend(s0, P, h, cc, tp) ==
    LET s == VIf(s0, tp # s0.tgt, "stale-target") IN
    IF s.ph = "idle" THEN                                    \* a new command
        LET n == s.pos + 1
            s1 == VIf(s, ~s.dirty /\ ~s.amb /\ ~P.gone /\ (n > Len(P.clean) \/ (n <= Len(P.clean) /\ h # P.clean[n])),
                      IF h = s.cur THEN "resend-after-answer" ELSE "off-sequence")
        IN [s1 EXCEPT !.pos = n, !.att = 1, !.cur = h, !.cc = cc, !.ph = "sent", !.ex = 0, !.fAfter = 0, !.justGave = FALSE]
    ELSE IF s.ph = "faulted" THEN                            \* must be the retry of the same command
        LET ok == IF P.proto = "T4" /\ s.cc = "I" THEN cc = "R" ELSE h = s.cur
            s1 == VIf(s, ~ok, "no-retry") IN
        [s1 EXCEPT !.att = s.att + 1, !.ph = "sent"]
    ELSE IF s.ph = "reack" THEN                              \* ISO-DEP: retransmission after R(ACK)
        [VIf(s, h # s.cur, "no-retry") EXCEPT !.att = s.att + 1, !.ph = "sent"]
    ELSE IF s.ph = "wtx" THEN                                \* ISO-DEP: the S(WTX) request is answered inside the try of the
        [VIf(s, cc # "S", "no-retry") EXCEPT !.ph = "sent"]  \* same attempt (tt4.py:96-99, 150-153): i is not incremented
    ELSE V(s, "send-while-sent")

DoAnswer(s, P, rk, ex) ==
    IF s.ph # "sent" THEN V(s, "answer-without-send")
    ELSE IF rk = "rack" THEN [s EXCEPT !.ph = "reack"]
    ELSE IF rk = "badmac" THEN          \* FeliCa Lite: the answer arrived but its MAC does not verify. Answered: no retry;
        [s EXCEPT !.ph = "idle", !.gave = s.gave + 1, !.lastGive = "mac", !.dirty = TRUE]   \* must fail as documented
    ELSE IF rk = "wtx" THEN [s EXCEPT !.ph = "wtx", !.ex = s.ex + (IF ex THEN 1 ELSE 0)]
    ELSE LET s1 == [s EXCEPT !.ex = s.ex + (IF ex THEN 1 ELSE 0), !.ph = "idle"] IN
         VIf(s1, s1.ex > 1 + s1.fAfter, "executed-twice")

CanRetry(s, P, kind) ==
    /\ s.att < Budget(P.proto, s.cc, P.nRetry)
    /\ ~(P.proto = "T4" /\ kind = "protocol")                \* tt4.py:117-119
DoFault(s, P, kind, ex) ==
    IF s.ph # "sent" THEN V(s, "fault-without-send")
    ELSE LET s1 == [s EXCEPT !.ex = s.ex + (IF ex THEN 1 ELSE 0), !.fAfter = s.fAfter + (IF ex THEN 1 ELSE 0),
                             \* a step of a challenge-response authentication (Ultralight C 1Ah / AFh) that the tag executed
                             \* cannot be repeated: the tag has moved on (new RndB / no open challenge); what follows and the
                             \* outcome (False) are the protocol's, not judged
                             !.amb = s.amb \/ (s.cc = "nonce" /\ ex)] IN
         IF P.proto = "T2" /\ s.cc = "ssel2" /\ kind = "timeout"
         THEN [s1 EXCEPT !.ph = "idle", !.amb = s.amb \/ ~ex]  \* passive ack; if the packet was lost the reader cannot know
         ELSE IF CanRetry(s, P, kind) THEN [s1 EXCEPT !.ph = "faulted"]
         ELSE [s1 EXCEPT !.ph = "idle", !.gave = s.gave + 1, !.lastGive = kind, !.justGave = TRUE, !.dirty = TRUE]

\* r = [kind |-> "ok" | "tagerr" | "raw" | "other", errno, val]
\* P.gone: the operation starts on a tag object whose tag has already left the field (an earlier operation on the
\* same object ended with the failed sense): nothing can be "survived", the outcome must be the documented failure
GaveUp(s, P) == s.gave > 0 \/ P.gone
ErrnoOk(s, P, e) == IF s.gave > 0 /\ s.lastGive = "mac" THEN TRUE             \* any TagCommandError
                    ELSE IF s.gave = 0 \/ s.lastGive = "gone" THEN e \in {0, -1}     \* TIMEOUT_ERROR (tt2.py:580) or the
                    ELSE e = ErrnoOf(s.lastGive)                                \* RECEIVE_ERROR of tt2.py:489 (NAK + tag gone)
RetAllowed(s, P, r) ==
    IF s.amb THEN r.kind \in {"ok", "tagerr"}                                 \* lost SECTOR SELECT packet 2: outcome not judged
    ELSE IF ~GaveUp(s, P) THEN r = P.cleanRet                                 \* transient errors are survived
    \* P.noraise: attribute access (tag.ndef, ndef.has_changed, tag.is_present) and the operations documented to report
    \* failure by value (Type 4 dump / format) never raise: a persistent failure is the documented None / False
    ELSE \/ r.kind = "tagerr" /\ ErrnoOk(s, P, r.errno) /\ ~P.noraise         \* TagCommandError with the matching code
         \/ r.kind = "ok" /\ (r.val \in P.doc \/ "any" \in P.doc)             \* the documented None / False
DoRet(s0, P, r, tp) ==
    LET s == VIf(s0, tp # s0.tgt, "stale-target")
        s1 == VIf(s, s.ph # "idle", "return-without-retry")
        s2 == VIf(s1, r.kind \in {"raw", "other"}, "not-a-tag-error")
        s3 == VIf(s2, r.kind \notin {"raw", "other"} /\ ~RetAllowed(s, P, r),
                  IF ~GaveUp(s, P) THEN "result-differs-after-transient-error" ELSE "wrong-result-after-giving-up")
    IN [s3 EXCEPT !.ph = "done", !.ret = r]

\* ---- the C16 invariants (on the violation set and the counters) ---------------------------------------
\* ISO-DEP: the counter i also counts the retransmission after an R(ACK) (tt4.py:98-101), checked only at a fault
BoundedP(s, P) == s.att <= Budget(P.proto, s.cc, P.nRetry) * (IF P.proto = "T4" THEN 2 ELSE 1)
NoResendAfterAnswerP(s) == s.viol \cap {"resend-after-answer", "off-sequence", "send-while-sent"} = {}
RetriesP(s) == s.viol \cap {"no-retry", "return-without-retry", "result-differs-after-transient-error"} = {}
OnlyTagErrorP(s) == s.viol \cap {"not-a-tag-error", "wrong-result-after-giving-up"} = {}
TargetFollowsSenseP(s) == "stale-target" \notin s.viol
AtMostOncePerAnswerP(s) == "executed-twice" \notin s.viol /\ s.ex <= 1 + s.fAfter
=============================================================================
