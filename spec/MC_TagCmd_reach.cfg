SPECIFICATION Spec
CONSTANTS
  MaxN = 3
  Bursts = {1, 2, 3}
  Protos = {"T2", "T3", "T4"}
  NRetries = {1}
  Buggy = FALSE
