------------------------------ MODULE IsoDep ------------------------------
(* ISO/IEC 14443-4 half-duplex block protocol between the PCD coded in
   nfc/tag/tt4.py (IsoDepInitiator.exchange, lines 78-177) and a PICC written
   from the standard's block protocol rules (7.5.4: rules A-E, 1-13) -- the
   PICC part owes nothing to nfcpy.

   One action per frame on the air:
     Start(op)     send_apdu()/transceive()/is_present entered: first block prepared   tt4.py:78-91
     Send          clf.exchange(data, timeout) called: the block is on the air          tt4.py:95,122,147
     ToCard(f)     fate of the block on its way to the card; if delivered the PICC
                   applies its rules and (normally) answers; a lost/corrupted block
                   or a mute PICC is a time-out at the PCD
     ToPcd(f)      fate of the card's block; the PCD then runs the code that follows
                   clf.exchange() up to the next clf.exchange() / return / raise

   The PCD is a record and the code between two clf.exchange() calls is a function
   on it (RxCmd, RxWtx, RxChain, RxPing).  `Variant` selects the modelled code:
     "asis"   the code of the pinned commit: errors in the S(WTX) loop (tt4.py:121-123)
              leave exchange() raw, an S(WTX) while the response is chained is taken
              for an I-block (tt4.py:143-175), nothing is resynchronised after a
              failed exchange;
     "fixed"  proposed_fixes/C12-1.diff (S(WTX) answered inside the try of both retry loops);
     "any"    union (trace validation accepts either code, the invariants judge).

   Lengths: a command of L bytes is cut into blocks of cfg.miu INF bytes, the card cuts
   its response into blocks of cfg.rmiu bytes; a chunk is [a, k, len] (APDU id, index,
   INF length), so that reassembly mistakes (duplicate, stale, foreign chunk) are visible.
*)
EXTENDS Integers, Sequences, FiniteSets, TLC

CONSTANTS NOps,        \* operations (APDUs, presence checks) per run            (MC bound)
          CLens,       \* command lengths to choose from                          (MC)
          RLens,       \* response lengths to choose from                         (MC)
          Cfgs,        \* set of [miu, rmiu, fsc, nRetry] records                 (MC)
          MaxFaults,   \* faults per run                                          (MC bound)
          MaxWtx,      \* S(WTX) requests per run                                 (MC bound)
          PFates,      \* fates on the way to the PCD besides "deliver": subset of {"lose","corrupt","empty"}
          CFates,      \* fates on the way to the card besides "deliver": subset of {"lose","corrupt"}
          WithPing,    \* presence checks (R(NAK)) between APDUs
          Variant,     \* "asis" | "fixed" | "any"
          Apis         \* subset of BOOLEAN: TRUE = the exchange is wrapped by send_apdu() (tt4.py: a response shorter
                       \* than the 2 byte status word is a PROTOCOL_ERROR), FALSE = transceive()

VARIABLES cfg,         \* [miu, rmiu, fsc, nRetry]  (constant during a run)
          pcd,         \* PCD record
          picc,        \* PICC record
          slot,        \* the air: [k |-> "none"] | [k |-> "toCard", b] | [k |-> "toPcd", b]
          rl,          \* rl[a]: response length the card applet produces for operation a (sequence, grows with Start)
          cl,          \* cl[a]: command length of operation a (0 for a presence check)
          exec,        \* exec[a]: how often the card executed APDU a
          garbage,     \* executions of something that was never sent as one APDU
          nops, faults, nwtx,
          xf,          \* faults injected during the current operation
          dirty        \* some earlier operation ended with an error

vars == <<cfg, pcd, picc, slot, rl, cl, exec, garbage, nops, faults, nwtx, xf, dirty>>

TIMEOUT == 0       \* nfc.tag.TIMEOUT_ERROR
RECEIVE == -1      \* nfc.tag.RECEIVE_ERROR
PROTOCOL == -2     \* nfc.tag.PROTOCOL_ERROR

Blk(t, bn, ch, a, k, len) == [t |-> t, bn |-> bn, ch |-> ch, a |-> a, k |-> k, len |-> len]
NoBlk   == Blk("NONE", 0, FALSE, 0, 0, 0)
RAck(n) == Blk("RACK", n, FALSE, 0, 0, 0)
RNak(n) == Blk("RNAK", n, FALSE, 0, 0, 0)
WtxB    == Blk("WTX", 0, FALSE, 0, 0, 1)      \* S(WTX) request and response: PCB F2h + WTXM
Chunk(b) == [a |-> b.a, k |-> b.k, len |-> b.len]
Min(x, y) == IF x < y THEN x ELSE y
NChunks(L, m) == (L + m - 1) \div m
ChunksOf(a, L, m) == [j \in 1..NChunks(L, m) |-> [a |-> a, k |-> j, len |-> Min(m, L - (j - 1) * m)]]
GarbageRsp == <<[a |-> -1, k |-> 1, len |-> 2]>>    \* the applet answers an unknown command with a status word

AsIs  == Variant \in {"asis", "any"}
Fixed == Variant \in {"fixed", "any"}

\* ------------------------------------------------------------------------------- PCD
PcdInit == [ph |-> "idle", op |-> "none", pni |-> 0, cur |-> 0, L |-> 0, off |-> 0, i |-> 0, out |-> NoBlk,
            tmo |-> 0, resp |-> <<>>, errno |-> 0, rtype |-> "",
            wc |-> FALSE,
            sa |-> FALSE, tot |-> 0]   \* sa: called through send_apdu(); tot: INF bytes of the response so far        \* as-is only: an S(WTX) request was taken for a block of the chained response

\* tt4.py:88-91  pfb + command[offset:offset+miu]
PcdI(p, c) == LET rem == p.L - p.off IN
              Blk("I", p.pni, rem > c.miu, p.cur, p.off \div c.miu + 1, Min(rem, c.miu))
More(p, c) == p.L - p.off > c.miu
Fail(p, e)  == [p EXCEPT !.ph = "err", !.errno = e, !.out = NoBlk, !.tmo = 0]
Raise(p, t) == [p EXCEPT !.ph = "raise", !.rtype = t, !.out = NoBlk, !.tmo = 0]
ErrnoOf(k) == IF k = "timeout" THEN TIMEOUT ELSE RECEIVE      \* empty answer -> TransmissionError, tt4.py:96

\* exchange() returns; send_apdu(): `if not apdu or len(apdu) < 2: raise Type4TagCommandError(PROTOCOL_ERROR)`
Finish(q) == IF q.sa /\ q.tot < 2 THEN Fail(q, PROTOCOL) ELSE [q EXCEPT !.ph = "ret", !.out = NoBlk]

\* tt4.py:125-141  the code after the S(WTX) loop (b is not an S(WTX) block)
AfterWtx(p, c, b) ==
    IF b.bn # p.pni THEN Fail(p, PROTOCOL)
    ELSE IF More(p, c)
    THEN IF b.t = "RACK"
         THEN LET q == [p EXCEPT !.pni = 1 - p.pni, !.off = p.off + c.miu] IN
              [q EXCEPT !.out = PcdI(q, c), !.i = 1, !.ph = "cmd", !.tmo = 0]
         ELSE Fail(p, PROTOCOL)
    ELSE IF b.t = "I"
         THEN LET q == [p EXCEPT !.pni = 1 - p.pni, !.resp = <<Chunk(b)>>, !.tot = b.len, !.tmo = 0] IN
              IF b.ch THEN [q EXCEPT !.ph = "chain", !.out = RAck(q.pni), !.i = 1]
              ELSE Finish(q)
         ELSE Fail(p, PROTOCOL)

When(cond, S) == IF cond THEN S ELSE {}

\* r = [k |-> "blk" | "timeout" | "trans" | "empty", b |-> block]
\* tt4.py:93-119  inner loop of the command phase
RxCmdErr(p, c, r) ==
    IF p.i <= c.nRetry THEN [p EXCEPT !.ph = "cmd", !.out = RNak(p.pni), !.i = p.i + 1, !.tmo = 0]
    ELSE Fail(p, ErrnoOf(r.k))
Retransmit(p, c) == [p EXCEPT !.ph = "cmd", !.out = PcdI(p, c), !.i = p.i + 1, !.tmo = 0]
RxCmd(p, c, r) ==
    IF r.k # "blk" THEN {RxCmdErr(p, c, r)}
    ELSE IF r.b.t = "RACK" /\ r.b.bn = 1 - p.pni THEN {Retransmit(p, c)}    \* tt4.py:98-101 retransmit after ack
    ELSE IF r.b.t = "WTX" THEN {[p EXCEPT !.ph = "wtx", !.out = WtxB, !.tmo = 1]}     \* tt4.py:121
    ELSE {AfterWtx(p, c, r.b)}

\* ph = "wtx": an S(WTX) response was sent in the command phase.
\* as-is  tt4.py:121-123  `while WTX: data = clf.exchange(data, wtxm * fwt)` outside the try: no error path
\* fixed  the while loop sits inside the try of the retry loop: errors are handled as for the I-block
RxWtx(p, c, r) ==
    IF r.k # "blk"
    THEN When(AsIs, {Raise(p, CASE r.k = "timeout" -> "TimeoutError" [] r.k = "trans" -> "TransmissionError"
                                [] OTHER -> "IndexError")})
         \cup When(Fixed, {RxCmdErr(p, c, r)})
    ELSE IF r.b.t = "WTX" THEN {[p EXCEPT !.out = WtxB, !.tmo = 1]}
    ELSE IF r.b.t = "RACK" /\ r.b.bn = 1 - p.pni
         THEN When(AsIs, {AfterWtx(p, c, r.b)}) \cup When(Fixed, {Retransmit(p, c)})
    ELSE {AfterWtx(p, c, r.b)}

\* tt4.py:143-175  response chaining
Bit4(b) == (b.t = "I" /\ b.ch) \/ b.t = "WTX"          \* data[0] & 0b00010000
RxChainErr(p, c, r) ==
    IF p.i <= c.nRetry THEN [p EXCEPT !.out = RAck(p.pni), !.i = p.i + 1, !.tmo = 0] ELSE Fail(p, ErrnoOf(r.k))
RxChainBlk(p, c, b) ==
    IF b.bn # p.pni THEN Fail(p, PROTOCOL)
    ELSE LET q == [p EXCEPT !.pni = 1 - p.pni, !.resp = Append(p.resp, Chunk(b)), !.tot = p.tot + b.len, !.tmo = 0] IN
         IF Bit4(b) THEN [q EXCEPT !.out = RAck(q.pni), !.i = 1] ELSE Finish(q)
\* as-is: an S(WTX) request is taken for a data block; fixed: it is answered (inside the try) and the loop goes on
RxChain(p, c, r) ==
    IF r.k # "blk" THEN {RxChainErr(p, c, r)}
    ELSE IF r.b.t = "WTX"
         THEN When(AsIs, {RxChainBlk([p EXCEPT !.wc = TRUE], c, r.b)}) \cup When(Fixed, {[p EXCEPT !.out = WtxB, !.tmo = 1]})
    ELSE {RxChainBlk(p, c, r.b)}

\* tt4.py:82-86 + 357-362  presence check: R(NAK), any answer is "present"
RxPing(p, c, r) ==
    IF r.k \in {"timeout", "trans"} THEN {[p EXCEPT !.ph = "false", !.out = NoBlk]}
    ELSE {[p EXCEPT !.ph = "ret", !.out = NoBlk]}

PcdRx(p, c, r) ==
    CASE p.ph = "cmd"   -> RxCmd(p, c, r)
      [] p.ph = "wtx"   -> RxWtx(p, c, r)
      [] p.ph = "chain" -> RxChain(p, c, r)
      [] p.ph = "ping"  -> RxPing(p, c, r)

Active(p) == p.ph \in {"cmd", "wtx", "chain", "ping"}
Terminal(p) == p.ph \in {"idle", "ret", "err", "raise", "false"}
Failed(p) == p.ph \in {"err", "raise"}

\* exchange() entered
PcdStart(p, c, op, a, L, sa) ==
    LET q == [p EXCEPT !.op = op, !.cur = a, !.L = L, !.off = 0, !.i = 1, !.resp = <<>>, !.errno = 0,
                       !.rtype = "", !.tmo = 0, !.wc = FALSE, !.sa = sa, !.tot = 0] IN
    IF op = "ping" THEN [q EXCEPT !.ph = "ping", !.out = RNak(p.pni)]
    ELSE [q EXCEPT !.ph = "cmd", !.out = PcdI(q, c)]

\* ------------------------------------------------------------------------------- PICC (ISO/IEC 14443-4, 7.5.4)
PiccInit == [bn |-> 1,           \* rule C: initialised to 1 at activation
             last |-> NoBlk,     \* last block sent (rule 11 retransmits it)
             cbuf |-> <<>>,      \* chunks of the command received so far (PCD chaining)
             rbuf |-> <<>>,      \* chunks of the response still to be sent (PICC chaining)
             await |-> FALSE,    \* an S(WTX) request is outstanding
             pend |-> NoBlk]     \* block to send when the S(WTX) response arrives

\* which APDU is the reassembled command? (the applet sees bytes; here: the chunk list)
Identify(cb, c) ==
    LET cand == {a \in DOMAIN cl : cl[a] > 0 /\ cb = ChunksOf(a, cl[a], c.miu)} IN
    IF cand = {} THEN -1 ELSE CHOOSE a \in cand : TRUE
RspOf(a, c) == IF a = -1 THEN GarbageRsp ELSE ChunksOf(a, rl[a], c.rmiu)
MkI(s) == LET h == Head(s.rbuf) IN Blk("I", s.bn, Len(s.rbuf) > 1, h.a, h.k, h.len)
Mute(s) == [s |-> s, rep |-> NoBlk, ex |-> 0, fresh |-> FALSE]
Resend(s) == IF s.last = NoBlk THEN Mute(s) ELSE [s |-> s, rep |-> s.last, ex |-> 0, fresh |-> FALSE]

PiccRx(s, b, c) ==
    CASE b.t = "I" ->                                   \* rule D: toggle, then rule 10 / "acknowledge chaining"
           LET s1 == [s EXCEPT !.bn = 1 - s.bn, !.cbuf = Append(s.cbuf, Chunk(b)), !.rbuf = <<>>,
                               !.await = FALSE, !.pend = NoBlk] IN
           IF b.ch THEN [s |-> s1, rep |-> RAck(s1.bn), ex |-> 0, fresh |-> TRUE]
           ELSE LET a  == Identify(s1.cbuf, c)
                    s2 == [s1 EXCEPT !.cbuf = <<>>, !.rbuf = RspOf(a, c)] IN
                [s |-> [s2 EXCEPT !.rbuf = Tail(s2.rbuf)], rep |-> MkI(s2), ex |-> a, fresh |-> TRUE]
      [] b.t = "RNAK" ->
           IF b.bn = s.bn THEN Resend(s)                                                    \* rule 11
           ELSE IF s.await THEN Mute(s)                                                     \* protocol error: no recovery by the PICC
           ELSE [s |-> s, rep |-> RAck(s.bn), ex |-> 0, fresh |-> FALSE]                    \* rule 12
      [] b.t = "RACK" ->
           IF b.bn = s.bn THEN Resend(s)                                                    \* rule 11
           ELSE IF s.rbuf # <<>> /\ ~s.await                                                \* rule E + rule 13
                THEN LET s1 == [s EXCEPT !.bn = 1 - s.bn] IN
                     [s |-> [s1 EXCEPT !.rbuf = Tail(s1.rbuf)], rep |-> MkI(s1), ex |-> 0, fresh |-> TRUE]
                ELSE Mute(s)
      [] b.t = "WTX" ->
           IF s.await THEN [s |-> [s EXCEPT !.await = FALSE, !.pend = NoBlk], rep |-> s.pend, ex |-> 0, fresh |-> TRUE]
           ELSE Mute(s)

\* rule 9: an S(WTX) request may be sent instead of an I-block or an R(ACK) acknowledging a chained block
WithLast(r) == IF r.rep = NoBlk THEN r ELSE [r EXCEPT !.s.last = r.rep]
AskWtx(r) == [r EXCEPT !.s.await = TRUE, !.s.pend = r.rep, !.s.last = WtxB, !.rep = WtxB]
PiccOutcomes(s, b, c, wtxOk) ==
    LET r == PiccRx(s, b, c) IN
    {WithLast(r)} \cup (IF wtxOk /\ r.fresh THEN {AskWtx(r)} ELSE {})

\* ------------------------------------------------------------------------------- system
Init ==
    /\ cfg \in Cfgs
    /\ pcd = PcdInit /\ picc = PiccInit /\ slot = [k |-> "none"]
    /\ rl = <<>> /\ cl = <<>>
    /\ exec = <<>> /\ garbage = 0
    /\ nops = 0 /\ faults = 0 /\ nwtx = 0 /\ xf = 0 /\ dirty = FALSE

StartOp(op, L, R, sa) ==
    /\ Terminal(pcd) /\ slot.k = "none" /\ nops < NOps
    /\ nops' = nops + 1
    /\ pcd' = PcdStart(pcd, cfg, op, nops + 1, L, sa)
    /\ cl' = Append(cl, L) /\ rl' = Append(rl, R) /\ exec' = Append(exec, 0)
    /\ xf' = 0 /\ dirty' = (dirty \/ Failed(pcd))
    /\ UNCHANGED <<cfg, picc, slot, garbage, faults, nwtx>>

Start == \/ \E L \in CLens, R \in RLens, sa \in Apis : StartOp("apdu", L, R, sa)
         \/ WithPing /\ pcd.op # "ping" /\ StartOp("ping", 0, 0, FALSE)

Send ==
    /\ Active(pcd) /\ slot.k = "none"
    /\ slot' = [k |-> "toCard", b |-> pcd.out]
    /\ UNCHANGED <<cfg, pcd, picc, rl, cl, exec, garbage, nops, faults, nwtx, xf, dirty>>

Fault == /\ faults' = faults + 1 /\ xf' = xf + 1
NoFault == UNCHANGED <<faults, xf>>

\* the card got the block: o is one of its permitted reactions
CardGets(o) ==
    /\ picc' = o.s
    /\ exec' = IF o.ex > 0 THEN [exec EXCEPT ![o.ex] = @ + 1] ELSE exec
    /\ garbage' = IF o.ex = -1 THEN garbage + 1 ELSE garbage
    /\ nwtx' = IF o.rep.t = "WTX" /\ o.fresh THEN nwtx + 1 ELSE nwtx
    /\ IF o.rep = NoBlk
       THEN /\ slot' = [k |-> "none"]
            /\ pcd' \in PcdRx(pcd, cfg, [k |-> "timeout", b |-> NoBlk])
       ELSE /\ slot' = [k |-> "toPcd", b |-> o.rep]
            /\ pcd' = pcd

ToCard(f) ==
    /\ slot.k = "toCard"
    /\ IF f = "deliver"
       THEN /\ \E o \in PiccOutcomes(picc, slot.b, cfg, nwtx < MaxWtx) : CardGets(o)
            /\ NoFault
       ELSE /\ faults < MaxFaults /\ Fault
            /\ slot' = [k |-> "none"]
            /\ pcd' \in PcdRx(pcd, cfg, [k |-> "timeout", b |-> NoBlk])
            /\ UNCHANGED <<picc, exec, garbage, nwtx>>
    /\ UNCHANGED <<cfg, rl, cl, nops, dirty>>

RxOf(f, b) == CASE f = "deliver" -> [k |-> "blk", b |-> b]
                [] f = "lose"    -> [k |-> "timeout", b |-> NoBlk]
                [] f = "corrupt" -> [k |-> "trans", b |-> NoBlk]
                [] f = "empty"   -> [k |-> "empty", b |-> NoBlk]
ToPcd(f) ==
    /\ slot.k = "toPcd"
    /\ IF f = "deliver" THEN NoFault ELSE faults < MaxFaults /\ Fault
    /\ pcd' \in PcdRx(pcd, cfg, RxOf(f, slot.b))
    /\ slot' = [k |-> "none"]
    /\ UNCHANGED <<cfg, picc, rl, cl, exec, garbage, nops, nwtx, dirty>>

Next == \/ Start \/ Send
        \/ \E f \in {"deliver"} \cup CFates : ToCard(f)
        \/ \E f \in {"deliver"} \cup PFates : ToPcd(f)
Spec == Init /\ [][Next]_vars

\* ------------------------------------------------------------------------------- properties (parametric form)
Ret(p) == p.ph = "ret" /\ p.op = "apdu"
AtMostOnceP(ex) == \A a \in DOMAIN ex : ex[a] <= 1
NoGarbageP(g) == g = 0
RespIntactP(p, ex, c) == Ret(p) => /\ p.resp = ChunksOf(p.cur, rl[p.cur], c.rmiu)
                                   /\ ex[p.cur] = 1
NoStaleP(p) == Ret(p) => \A j \in DOMAIN p.resp : p.resp[j].a = p.cur
OnlyT4ErrorP(p) == p.ph # "raise" /\ (p.ph = "err" => p.errno \in {TIMEOUT, RECEIVE, PROTOCOL})
BlockFitsP(sl, c) == sl.k = "toCard" => sl.b.len + 3 <= c.fsc
CleanOkP(p, x, d) == (p.ph = "err" /\ p.op = "apdu") => (x > 0 \/ d)       \* no fault, no earlier failure: the response is returned

AtMostOnce == AtMostOnceP(exec)
NoGarbage == NoGarbageP(garbage)
RespIntact == RespIntactP(pcd, exec, cfg)
NoStale == NoStaleP(pcd)
OnlyT4Error == OnlyT4ErrorP(pcd)
BlockFits == BlockFitsP(slot, cfg)
CleanOk == CleanOkP(pcd, xf, dirty)

\* split by situation, for diagnosis of the as-is code (each has its own finding key)
Clean == ~dirty
RespIntactClean == Clean => RespIntact
NoStaleClean == Clean => NoStale
NoGarbageClean == Clean => NoGarbage
AtMostOnceClean == Clean => AtMostOnce
\* after a failed exchange (nothing resynchronises the block numbers / aborts a chain): judged separately
Dirty == dirty
AtMostOnceDirty == Dirty => AtMostOnce
NoGarbageDirty == Dirty => NoGarbage
RespIntactDirty == Dirty => (NoGarbage => RespIntact)      \* a stale / foreign response that is not caused by a mangled command
RespOnlyDirty == Dirty => ((NoGarbage /\ NoStale /\ AtMostOnce) => RespIntact)
AfterFailureOk == Dirty => (AtMostOnce /\ NoGarbage /\ RespIntact /\ NoStale)

TypeOK ==
    /\ pcd.pni \in {0, 1} /\ picc.bn \in {0, 1}
    /\ pcd.ph \in {"idle", "cmd", "wtx", "chain", "ping", "ret", "err", "raise", "false"}
    /\ slot.k \in {"none", "toCard", "toPcd"}

\* ------------------------------------------------------------------------------- reachability witnesses (must be violated)
W_Chain3 == ~(Ret(pcd) /\ Len(pcd.resp) >= 3 /\ RespIntact)                   \* a three block response returned intact
W_CmdChain == ~(Ret(pcd) /\ NChunks(pcd.L, cfg.miu) >= 3 /\ RespIntact)       \* a three block command
W_Retx == ~(Ret(pcd) /\ xf >= 2 /\ RespIntact)                                \* two faults absorbed
W_Wtx == ~(Ret(pcd) /\ nwtx >= 1 /\ RespIntact)                               \* an S(WTX) absorbed
W_Err == ~(pcd.ph = "err" /\ pcd.errno = TIMEOUT)
W_ErrRx == ~(pcd.ph = "err" /\ pcd.errno = RECEIVE)
W_Third == ~(Ret(pcd) /\ nops >= 3 /\ RespIntact)                             \* three operations in a row
W_AckRetx == ~(pcd.ph = "cmd" /\ pcd.i >= 3 /\ pcd.out.t = "I")    \* retransmission after R(ACK) counted by i
=============================================================================
