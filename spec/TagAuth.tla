------------------------------ MODULE TagAuth ------------------------------
(* C20 -- tag authentication and MAC-protected reads cannot be fooled.

   Protocol-level model of nfcpy's FeliCa Lite / FeliCa Lite-S / NTAG21x authentication
   (src/nfc/tag/tt3_sony.py FelicaLite._authenticate, read_with_mac, _protect; FelicaLiteS.authenticate,
   write_with_mac, _protect; src/nfc/tag/tt2_nxp.py NTAG21x._authenticate, _protect_with_password)
   with SYMBOLIC cryptography: a key is a pair <<p, q>> of names, Kdf(pw) is the key prefix of a
   password, a session key is the term <<key, rc>>, a MAC is the term <<sk, iv, data>> -- all free
   (injective) constructors, so two MACs are equal iff they were built from equal arguments.  A bit
   flip of a transmitted value x is the value x with its flip counter raised: it equals no genuine value.
   One action per command of the code; the reader's evaluation of a response is its own action
   (Check) so that the adversary can act while the response is in flight.

   Defects: names of deviations of the code *as it is* from the intended design that the model can
   exhibit (nondeterministically, next to the intended outcome); the property invariants reject them. *)
EXTENDS Naturals, Sequences, FiniteSets, TLC

CONSTANTS PwdParts, PackParts,   \* a key is <<p, q>> (NTAG21x: p = PWD, q = PACK; FeliCa: opaque)
          Variants,              \* passwords that differ only beyond the key prefix
          MaxChal,               \* fresh random challenges available (= FeliCa sessions)
          Vals, Blocks,          \* user block contents / user block numbers
          MaxAdv, MaxOps,        \* bounds: adversary actions, reader operations
          Kinds,                 \* subset of {"lite", "lites", "ntag"}
          Defects,               \* subset of DefectNames
          AdvKinds,              \* subset of {"flipdata", "flipmac", "swap", "replay", "pad"}
          InitP, InitQ,          \* the card key at the start is in InitP \X InitQ
          InitBlk                \* "all": every block content; "two": all different / all equal; "distinct"

DefectNames == {"lites_none_subscript", "lites_protect_encode", "ndef_none_subscript"}
ASSUME Defects \subseteq DefectNames
ASSUME Kinds \subseteq {"lite", "lites", "ntag"}

Keys    == PwdParts \X PackParts
Factory == <<"p0", "q0">>                  \* manufacturer key (FeliCa: 16 x 00; NTAG: FFFFFFFF 0000)
ASSUME Factory \in Keys
Pws     == [k : Keys, v : Variants] \cup {[k |-> Factory, v |-> "empty"]}
Kdf(pw) == pw.k
NoPw    == [k |-> Factory, v |-> "none"]

\* ---- values on the wire ---------------------------------------------------------------------
DV(s)      == [v |-> s, n |-> 0, f |-> 0]           \* a 16-byte block value (or PACK) named s
WV(n)      == [v |-> "wcnt", n |-> n, f |-> 0]       \* the WCNT block with count n
IdVal      == DV("id")
ExtVal(e)  == DV(IF e THEN "ext1" ELSE "ext0")        \* the STATE block
FlipV(x)   == [x EXCEPT !.f = @ + 1]
NoMac      == [t |-> <<>>, f |-> 0]
MacOf(sk, iv, d) == [t |-> <<sk, iv, d>>, f |-> 0]   \* MAC block content for data d (read MAC)
MacWOf(sk, iv, w, b, v) == <<"w", sk, iv, w, b, v>>  \* MAC_A for a write (key halves swapped)
MacResp(d, m) == [k |-> "data", d |-> d, m |-> m, hm |-> TRUE]
PlainResp(d)  == [k |-> "data", d |-> d, m |-> NoMac, hm |-> FALSE]
NakResp       == [k |-> "nak", d |-> <<>>, m |-> NoMac, hm |-> FALSE]
NoResp        == [k |-> "none", d |-> <<>>, m |-> NoMac, hm |-> FALSE]

VARIABLES tag,    \* the card: kind, ck, rc, wcnt, ext, blk, locked, keychg, nauth
          rd,     \* the reader object: has (sk/iv set), sk, iv, auth (_authenticated)
          pc, op, \* control state and arguments of the running operation
          resp,   \* response in flight (what the reader will see)
          orig,   \* what the tag really answered
          tamp,   \* some response consumed in this operation differed from the genuine one
          rep,    \* a Replay happened in this operation
          hist,   \* genuine authenticated responses seen on the channel (material for Replay)
          nadv, nops, nchal,
          last,   \* outcome of the last completed operation (what the caller observed)
          prot    \* key of the last successful protect()

InFlightPc == pc \in {"a_chk", "s_chk", "r_chk", "n_chk", "s_wst", "w_wr"}
vars == <<tag, rd, pc, op, resp, orig, tamp, rep, hist, nadv, nops, nchal, last, prot>>

NoOp   == [name |-> "none", pw |-> NoPw, bs |-> <<>>, b |-> "-", v |-> "-", outer |-> "none", rc |-> 0, wres |-> {}]
NoLast == [op |-> "none", kind |-> "-", pw |-> NoPw, res |-> "-", d |-> <<>>, tamp |-> FALSE, rep |-> FALSE,
           ck |-> Factory, gen |-> <<>>, sk |-> <<Factory, 0>>, iv |-> 0, trc |-> 0, tsk |-> <<Factory, 0>>,
           mac |-> FALSE, cached |-> FALSE, auth |-> FALSE, ver |-> FALSE]

\* sk: the session key the card derived when RC was last written (it keeps it until the next RC write);
\* id1: the first byte of the ID block is 01h (IDm of Sony chips starts with manufacturer code 01h)
TagInit(kind, ck, blk, locked, keychg, id1) ==
    [kind |-> kind, ck |-> ck, rc |-> 0, sk |-> <<ck, 0>>, wcnt |-> 0, ext |-> FALSE, blk |-> blk,
     locked |-> locked, keychg |-> keychg, nauth |-> FALSE, id1 |-> id1,
     wres |-> {}]      \* Lite-S: user blocks that may only be written after external authentication (MC bytes 8..9)
\* cset/cver/cd: the tag object's cached NDEF (tag._ndef): present, read while authenticated (FeliCa: every
\* block MAC verified in the session the object is authenticated in), and what it holds
RdInit == [has |-> FALSE, sk |-> <<Factory, 0>>, iv |-> 0, auth |-> FALSE, cset |-> FALSE, cver |-> FALSE, cd |-> <<>>]
NoCacheOf(r) == [r EXCEPT !.cset = FALSE, !.cver = FALSE, !.cd = <<>>]

InitWith(t) ==
    /\ tag = t /\ rd = RdInit /\ pc = "idle" /\ op = NoOp /\ resp = NoResp /\ orig = NoResp
    /\ tamp = FALSE /\ rep = FALSE /\ hist = {} /\ nadv = 0 /\ nops = 0 /\ nchal = 0
    /\ last = NoLast /\ prot = [set |-> FALSE, k |-> Factory]

InitBlks == IF InitBlk = "all" THEN [Blocks -> Vals]
            ELSE IF InitBlk = "distinct" THEN {CHOOSE f \in [Blocks -> Vals] : \A a, b \in Blocks : a # b => f[a] # f[b]}
            ELSE {CHOOSE f \in [Blocks -> Vals] : \A a, b \in Blocks : a # b => f[a] # f[b],
                  CHOOSE f \in [Blocks -> Vals] : \A a, b \in Blocks : f[a] = f[b]}
Init == \E kind \in Kinds, ck \in InitP \X InitQ, blk \in InitBlks, locked \in BOOLEAN, id1 \in BOOLEAN :
            /\ (kind # "lites" => ~id1)         \* only FelicaLiteS.authenticate looks at a block's first byte
            /\ InitWith(TagInit(kind, ck, [b \in Blocks |-> DV(blk[b])], locked, FALSE, id1))

Felica == tag.kind \in {"lite", "lites"}
TagSK  == tag.sk

\* ---- control helpers ------------------------------------------------------------------------
Goto(p) == pc' = p /\ resp' = NoResp /\ orig' = NoResp /\ UNCHANGED <<last, nops>>
Answer(p, r) == pc' = p /\ resp' = r /\ orig' = r /\ UNCHANGED <<last, nops>>
Finish(res, d, tg, r, tm) ==
    /\ pc' = "idle" /\ resp' = NoResp /\ orig' = NoResp /\ nops' = nops + 1
    /\ last' = [op |-> op.name, kind |-> tag.kind, pw |-> op.pw, res |-> res, d |-> d, tamp |-> tm,
                rep |-> rep, ck |-> tg.ck, gen |-> orig.d, sk |-> r.sk, iv |-> r.iv, trc |-> tg.rc, tsk |-> tg.sk,
                mac |-> (op.name = "read" \/ (op.name = "ndef" /\ rd.auth /\ tag.kind # "ntag")),
                cached |-> FALSE, auth |-> r.auth, ver |-> r.cver]
Idle == pc = "idle" /\ nops < MaxOps
Begin(o) == op' = o /\ tamp' = FALSE /\ rep' = FALSE
            /\ UNCHANGED <<tag, hist, nadv, nchal, prot>>

\* ---- authenticate(password) ------------------------------------------------------------------
\* Tag.authenticate -> _authenticate: FeliCa: self._authenticated = False, then write RC
StartAuth(pw) ==
    /\ Idle /\ (Felica => nchal < MaxChal)
    /\ Begin([NoOp EXCEPT !.name = "auth", !.pw = pw, !.outer = "auth"])
    /\ rd' = [rd EXCEPT !.auth = FALSE]
    /\ Goto(IF Felica THEN "a_wrc" ELSE "n_pwd")

\* tt3_sony.py:603-606  rc = os.urandom(16); write_without_mac(rc, 0x80) -- the tag starts a new session
AWriteRC ==
    /\ pc = "a_wrc"
    /\ nchal' = nchal + 1
    /\ tag' = [tag EXCEPT !.rc = nchal + 1, !.sk = <<tag.ck, nchal + 1>>, !.ext = FALSE]
    /\ op' = [op EXCEPT !.rc = nchal + 1]
    /\ Goto("a_rid")
    /\ UNCHANGED <<rd, tamp, rep, hist, nadv, prot>>

\* tt3_sony.py:619  read_without_mac(0x82, 0x81): the tag answers ID and its MAC under its session key
AReadId ==
    /\ pc = "a_rid"
    /\ LET r == MacResp(<<IdVal>>, MacOf(TagSK, tag.rc, <<IdVal>>)) IN
         /\ Answer("a_chk", r) /\ hist' = hist \cup {r}
    /\ UNCHANGED <<tag, rd, op, tamp, rep, nadv, nchal, prot>>

\* end of an (embedded or plain) authentication with result res
AuthFinish(out, res, tg, r, tm) ==
    IF op.outer = "protect"
    THEN IF res = "True" /\ Felica
         THEN out = "cont" /\ Goto("p_wmc") /\ UNCHANGED prot
         ELSE /\ out = (IF res = "True" THEN "True" ELSE "False")
              /\ Finish(out, <<>>, tg, r, tm)
              /\ prot' = IF res = "True" THEN [set |-> TRUE, k |-> tg.ck] ELSE prot
    ELSE out = res /\ Finish(res, <<>>, tg, r, tm) /\ UNCHANGED prot

\* tt3_sony.py:625-636  compare the received MAC with generate_mac(data, sk, iv=rc1)
AChk(out) ==
    /\ pc = "a_chk" /\ resp.k # "badcount"
    /\ LET sk == <<Kdf(op.pw), op.rc>>
           ok == resp.hm /\ resp.m = MacOf(sk, op.rc, resp.d)
           tm == tamp \/ resp # orig
           \* Tag.authenticate: `if self._authenticated is True: self._ndef = None` (FelicaLiteS goes through it, too)
           r1 == IF ok THEN [NoCacheOf(rd) EXCEPT !.has = TRUE, !.sk = sk, !.iv = op.rc, !.auth = (tag.kind = "lite")] ELSE rd
       IN /\ tamp' = tm /\ rd' = r1
          /\ IF ok /\ tag.kind = "lites"
             THEN out = "cont" /\ Goto("s_rwc") /\ UNCHANGED prot     \* FelicaLiteS.authenticate goes on
             ELSE AuthFinish(out, IF ok THEN "True" ELSE "False", tag, r1, tm)
    /\ UNCHANGED <<tag, op, rep, hist, nadv, nchal>>

\* write_with_mac: wcnt = read_without_mac(0x90)[0:3]                      (tt3_sony.py:950)
SReadWcnt ==
    /\ pc = "s_rwc"
    /\ Answer(IF op.name = "write" THEN "w_wr" ELSE "s_wst", PlainResp(<<WV(tag.wcnt)>>))
    /\ UNCHANGED <<tag, rd, op, tamp, rep, hist, nadv, nchal, prot>>

\* the tag accepts a MAC_A write iff the MAC_A equals the one it computes itself and, for a block that
\* protect() restricted (protect_from <= block), the reader is externally authenticated in this session
TagAccepts(w, b, v) == /\ MacWOf(rd.sk, rd.iv, w, b, v) = MacWOf(TagSK, tag.rc, WV(tag.wcnt), b, v)
                       /\ (b \in tag.wres => tag.ext)

\* write_with_mac(b"\x01" + 15*b"\0", 0x92): external authentication         (tt3_sony.py:919)
SWriteState(out) ==
    /\ pc = "s_wst" /\ resp.k # "badcount"
    /\ LET tm == tamp \/ resp # orig
           ok == TagAccepts(resp.d[1], "state", ExtVal(TRUE)) IN
         /\ tamp' = tm
         /\ IF ok THEN /\ out = "cont" /\ tag' = [tag EXCEPT !.ext = TRUE, !.wcnt = @ + 1]
                       /\ Goto("s_rst") /\ UNCHANGED prot
                  ELSE /\ out = "TagCommandError" /\ UNCHANGED tag     \* status flags 02 B2 -> Type3TagCommandError
                       /\ Finish(out, <<>>, tag, rd, tm) /\ UNCHANGED prot
    /\ UNCHANGED <<rd, op, rep, hist, nadv, nchal>>

\* read_with_mac(0x92): STATE and MAC                                       (tt3_sony.py:924)
SReadState ==
    /\ pc = "s_rst"
    /\ LET r == MacResp(<<ExtVal(tag.ext)>>, MacOf(TagSK, tag.rc, <<ExtVal(tag.ext)>>)) IN
         /\ Answer("s_chk", r) /\ hist' = hist \cup {r}
    /\ UNCHANGED <<tag, rd, op, tamp, rep, nadv, nchal, prot>>

\* the reader's MAC verification of a read_with_mac response                (tt3_sony.py:727-731)
RdMacOk == resp.hm /\ resp.m = MacOf(rd.sk, rd.iv, resp.d)

\* `if self.read_with_mac(0x92)[0] == 0x01`: only the first byte of the verified block is looked at, and the
\* MAC does not cover block numbers: the ID block of the same session passes when it starts with 01h.
First1(v) == v.f = 0 /\ (v.v = "ext1" \/ (v.v = "id" /\ tag.id1))
\* a failed MAC check makes read_with_mac return None
SChk(out) ==
    /\ pc = "s_chk" /\ resp.k # "badcount"
    /\ LET tm == tamp \/ resp # orig
           good == RdMacOk /\ First1(resp.d[1])
           r1 == [rd EXCEPT !.auth = good] IN
         /\ tamp' = tm /\ rd' = r1
         /\ IF ~RdMacOk /\ "lites_none_subscript" \in Defects /\ out = "TypeError"
            THEN Finish("TypeError", <<>>, tag, r1, tm) /\ UNCHANGED prot        \* None[0]
            ELSE AuthFinish(out, IF good THEN "True" ELSE "False", tag, r1, tm)
    /\ UNCHANGED <<tag, op, rep, hist, nadv, nchal>>

\* NTAG21x: rsp = transceive(1B || key[0:4])                                  (tt2_nxp.py:476)
NPwd ==
    /\ pc = "n_pwd"
    /\ LET hit == Kdf(op.pw)[1] = tag.ck[1]
           r == IF hit THEN PlainResp(<<DV(tag.ck[2])>>) ELSE NakResp IN
         /\ tag' = [tag EXCEPT !.nauth = hit]
         /\ Answer("n_chk", r)
         /\ hist' = IF hit THEN hist \cup {r} ELSE hist
    /\ UNCHANGED <<rd, op, tamp, rep, nadv, nchal, prot>>

\* return rsp == key[4:6]  (a NAK / timeout gives False)                      (tt2_nxp.py:477-479)
NChk(out) ==
    /\ pc = "n_chk" /\ resp.k # "badcount"
    /\ LET ok == resp.k = "data" /\ resp.d = <<DV(Kdf(op.pw)[2])>>
           tm == tamp \/ resp # orig
           r1 == IF ok THEN [NoCacheOf(rd) EXCEPT !.auth = TRUE] ELSE [rd EXCEPT !.auth = FALSE] IN
         /\ tamp' = tm /\ rd' = r1
         /\ AuthFinish(out, IF ok THEN "True" ELSE "False", tag, r1, tm)
    /\ UNCHANGED <<tag, op, rep, hist, nadv, nchal>>

\* A Read Without Encryption response whose block count is not the number of blocks asked for (fewer, down to
\* none, or more; length byte and data consistent with the count): Type3Tag.read_without_encryption raises
\* Type3TagCommandError(DATA_SIZE_ERROR) (tt3.py:596), whatever MAC-protected read it was; the NDEF reader turns
\* that into "no NDEF".  Never True, never data.
BadCountChk(out) ==
    /\ InFlightPc /\ resp.k = "badcount"
    /\ tamp' = TRUE
    /\ out = (IF op.name = "ndef" THEN "None" ELSE "TagCommandError")
    /\ Finish(out, <<>>, tag, rd, TRUE)
    /\ UNCHANGED <<tag, rd, op, rep, hist, nadv, nchal, prot>>

\* ---- read_with_mac(*blocks) ------------------------------------------------------------------
StartRead(bs) ==
    /\ Idle /\ Felica /\ rd.has                       \* otherwise RuntimeError("authentication required")
    /\ Begin([NoOp EXCEPT !.name = "read", !.bs = bs, !.outer = "read"])
    /\ Goto("r_rd") /\ UNCHANGED rd

RRead ==
    /\ pc = "r_rd"
    /\ LET d == [i \in 1..Len(op.bs) |-> tag.blk[op.bs[i]]]
           plain == op.name = "ndef" /\ ~rd.auth          \* read_from_ndef_service is read_without_mac
           r == IF plain THEN PlainResp(d) ELSE MacResp(d, MacOf(TagSK, tag.rc, d)) IN
         /\ Answer("r_chk", r) /\ hist' = IF plain THEN hist ELSE hist \cup {r}
    /\ UNCHANGED <<tag, rd, op, tamp, rep, nadv, nchal, prot>>

RChk(out) ==
    /\ pc = "r_chk" /\ op.name = "read" /\ resp.k # "badcount"
    /\ tamp' = (tamp \/ resp # orig)
    /\ out = (IF RdMacOk THEN "Data" ELSE "None")
    /\ Finish(out, IF RdMacOk THEN resp.d ELSE <<>>, tag, rd, tamp')
    /\ UNCHANGED <<tag, rd, op, rep, hist, nadv, nchal, prot>>

\* ---- tag.ndef on an authenticated FeliCa Lite(-S): read_from_ndef_service is read_with_mac --------
\* (tt3.py Type3Tag.NDEF._read_attribute_data / _read_ndef_data; attribute block b1, message block b2)
AttrBlock == "b1"
MsgBlock  == "b2"
\* Tag.ndef: `if self._ndef is None: ... read ...; return self._ndef`
StartNdef ==
    /\ Idle /\ ~rd.cset
    /\ Begin([NoOp EXCEPT !.name = "ndef", !.bs = <<AttrBlock>>, !.outer = "ndef"])
    /\ Goto(IF Felica THEN "r_rd" ELSE "nn_rd") /\ UNCHANGED rd

\* the cached object is returned without a command on the wire
NdefCached ==
    /\ Idle /\ rd.cset
    /\ op' = [NoOp EXCEPT !.name = "ndef", !.outer = "ndef"] /\ tamp' = FALSE /\ rep' = FALSE
    /\ nops' = nops + 1
    /\ last' = [op |-> "ndef", kind |-> tag.kind, pw |-> NoPw, res |-> "Data", d |-> rd.cd, tamp |-> FALSE, rep |-> FALSE,
                ck |-> tag.ck, gen |-> rd.cd, sk |-> rd.sk, iv |-> rd.iv, trc |-> tag.rc, tsk |-> tag.sk,
                mac |-> FALSE, cached |-> TRUE, auth |-> rd.auth, ver |-> rd.cver]
    /\ UNCHANGED <<tag, rd, pc, resp, orig, hist, nadv, nchal, prot>>

\* the application discards the cached object (a fresh tag object / tag._ndef = None)
DropCache ==
    /\ pc = "idle" /\ rd.cset /\ rd' = NoCacheOf(rd)
    /\ UNCHANGED <<tag, pc, op, resp, orig, tamp, rep, hist, nadv, nops, nchal, last, prot>>

\* NTAG21x: tag.ndef reads the pages (no MAC; what is readable / writeable depends on the authentication state)
NNdefRead ==
    /\ pc = "nn_rd" /\ Goto("nn_chk")
    /\ UNCHANGED <<tag, rd, op, tamp, rep, hist, nadv, nchal, prot>>
NNdefChk(out) ==
    /\ pc = "nn_chk" /\ out \in {"Data", "None"}
    /\ rd' = IF out = "Data" THEN [rd EXCEPT !.cset = TRUE, !.cver = rd.auth, !.cd = <<>>] ELSE rd
    /\ Finish(out, <<>>, tag, rd', tamp)
    /\ UNCHANGED <<tag, op, tamp, rep, hist, nadv, nchal, prot>>

\* a failed MAC check makes read_with_mac return None, which the NDEF reader must turn into "no NDEF"
NChkRead(out) ==
    /\ pc = "r_chk" /\ op.name = "ndef" /\ resp.k # "badcount"
    /\ tamp' = (tamp \/ resp # orig)
    /\ LET ok == rd.auth => RdMacOk                   \* unauthenticated: nothing to verify, the data is taken as it comes
           r1 == [rd EXCEPT !.cset = TRUE, !.cver = rd.auth, !.cd = resp.d] IN
       IF ~ok
       THEN /\ out = "None" \/ ("ndef_none_subscript" \in Defects /\ out = "TypeError")   \* sum(None[0:14]) / data += None
            /\ Finish(out, <<>>, tag, rd, tamp') /\ UNCHANGED <<op, rd>>
       ELSE IF op.bs = <<AttrBlock>>
            THEN out = "cont" /\ op' = [op EXCEPT !.bs = <<MsgBlock>>] /\ Goto("r_rd") /\ UNCHANGED rd
            ELSE out = "Data" /\ rd' = r1 /\ Finish("Data", resp.d, tag, r1, tamp') /\ UNCHANGED op
    /\ UNCHANGED <<tag, rep, hist, nadv, nchal, prot>>

\* ---- FelicaLiteS.write_with_mac(data, block) --------------------------------------------------
StartWrite(b, v) ==
    /\ Idle /\ tag.kind = "lites" /\ rd.has          \* otherwise RuntimeError
    /\ Begin([NoOp EXCEPT !.name = "write", !.b = b, !.v = v, !.outer = "write"])
    /\ Goto("s_rwc") /\ UNCHANGED rd

WWrite(out) ==
    /\ pc = "w_wr" /\ resp.k # "badcount"
    /\ LET tm == tamp \/ resp # orig
           ok == TagAccepts(resp.d[1], op.b, DV(op.v))
           t1 == IF ok THEN [tag EXCEPT !.blk[op.b] = DV(op.v), !.wcnt = @ + 1] ELSE tag IN
         /\ tamp' = tm /\ tag' = t1
         /\ out = (IF ok THEN "None" ELSE "TagCommandError")
         /\ Finish(out, <<>>, t1, rd, tm)
    /\ UNCHANGED <<rd, op, rep, hist, nadv, nchal, prot>>

\* ---- protect(password) (provisioning; no adversary while it runs) -----------------------------
\* wres: the user blocks at or above protect_from (they become write restricted on a Lite-S)
StartProtect(pw, wres) ==
    /\ Idle /\ (tag.kind = "lites" => nchal < MaxChal)
    /\ Begin([NoOp EXCEPT !.name = "protect", !.pw = pw, !.outer = "protect", !.wres = wres])
    /\ Goto("p_rmc") /\ UNCHANGED rd

\* read the memory configuration (FeliCa: MC block 88h; NTAG: CFG pages) and decide
PReadCfg(out) ==
    /\ pc = "p_rmc"
    /\ LET refuse == \/ tag.kind = "lite" /\ tag.locked                                  \* tt3_sony.py:536
                     \/ tag.kind = "lites" /\ tag.locked /\ (~tag.keychg \/ ~rd.auth)       \* :840-846
           crash == /\ tag.kind = "lites" /\ ~refuse /\ op.pw.v # "empty"                  \* :849 bytes.encode
                    /\ "lites_protect_encode" \in Defects /\ out = "AttributeError" IN
         IF refuse THEN out = "False" /\ Finish("False", <<>>, tag, rd, FALSE)
         ELSE IF crash THEN Finish("AttributeError", <<>>, tag, rd, FALSE)
         ELSE out = "cont" /\ Goto("p_wck")
    /\ UNCHANGED <<tag, rd, op, tamp, rep, hist, nadv, nchal, prot>>

\* write the key: Lite CK block; Lite-S CKV then CK; NTAG CFG0, CFG1, PWD, PACK.  A tag whose system
\* area is protected refuses the plain write (Lite-S 01 A8; NTAG NAK when not authenticated).
PWriteKey(out) ==
    /\ pc = "p_wck"
    /\ LET refused == tag.locked /\ (tag.kind = "ntag" => ~tag.nauth)
           t1 == [tag EXCEPT !.ck = Kdf(op.pw), !.nauth = FALSE,
                             !.locked = IF tag.kind = "ntag" THEN TRUE ELSE @] IN
         IF refused
         THEN /\ out = "TagCommandError" /\ UNCHANGED <<tag, prot>>
              /\ Finish("TagCommandError", <<>>, tag, rd, FALSE)
         ELSE /\ out = "cont" /\ tag' = t1 /\ prot' = [prot EXCEPT !.set = FALSE]
              /\ Goto(CASE tag.kind = "lite" -> "p_wmc" [] tag.kind = "lites" -> "a_wrc" [] OTHER -> "n_pwd")
    /\ UNCHANGED <<rd, op, tamp, rep, hist, nadv, nchal>>

\* FeliCa: write the memory configuration block (system blocks read-only; Lite-S: key change by MAC)
PWriteMC(out) ==
    /\ pc = "p_wmc" /\ out = "True"
    /\ tag' = [tag EXCEPT !.locked = TRUE, !.keychg = (tag.kind = "lites"),
                         !.wres = IF tag.kind = "lites" THEN op.wres ELSE @]
    /\ rd' = NoCacheOf(rd)                             \* Tag.protect: `if status is True: self._ndef = None`
    /\ Finish("True", <<>>, tag', rd', FALSE)
    /\ prot' = [set |-> TRUE, k |-> tag.ck]
    /\ UNCHANGED <<op, tamp, rep, hist, nadv, nchal>>

\* ---- the adversary on the channel (responses of authenticate / read_with_mac / write_with_mac) --
InFlight == InFlightPc
AdvOk(kind) == InFlight /\ nadv < MaxAdv /\ op.outer # "protect" /\ kind \in AdvKinds
Adv(r) == resp' = r /\ nadv' = nadv + 1
          /\ UNCHANGED <<tag, rd, pc, op, orig, tamp, hist, nops, nchal, last, prot>>

AdvFlipData(i) == /\ AdvOk("flipdata") /\ resp.k = "data" /\ i \in 1..Len(resp.d)
                  \* (an unauthenticated attribute block is parsed, not verified: outside the model)
                  /\ ~(op.name = "ndef" /\ ~rd.auth /\ op.bs = <<AttrBlock>>)
                  /\ Adv([resp EXCEPT !.d[i] = FlipV(@)]) /\ UNCHANGED rep
AdvFlipMac     == /\ AdvOk("flipmac") /\ resp.hm /\ resp.k = "data"
                  /\ Adv([resp EXCEPT !.m = FlipV(@)]) /\ UNCHANGED rep
AdvSwap        == /\ AdvOk("swap") /\ resp.k = "data" /\ Len(resp.d) = 2
                  /\ Adv([resp EXCEPT !.d = <<resp.d[2], resp.d[1]>>]) /\ UNCHANGED rep
AdvPad         == /\ AdvOk("pad") /\ resp.hm /\ resp.k = "data"   \* bytes 8..15 of the MAC block: not part of the MAC
                  /\ Adv(resp) /\ UNCHANGED rep
\* structural: the response announces m blocks instead of the ones asked for (also while protect() runs its
\* embedded authentication)
AdvCount(m)    == /\ InFlight /\ nadv < MaxAdv /\ "count" \in AdvKinds /\ Felica /\ resp.k = "data"
                  /\ m # Len(resp.d) + (IF resp.hm THEN 1 ELSE 0)
                  /\ Adv([resp EXCEPT !.k = "badcount"]) /\ UNCHANGED rep
Fits(h)        == IF resp.k = "nak" THEN ~h.hm /\ Len(h.d) = 1
                  ELSE h.hm = resp.hm /\ Len(h.d) = Len(resp.d)
AdvReplay(h)   == /\ AdvOk("replay") /\ resp.k # "badcount" /\ h \in hist /\ h # resp /\ Fits(h) /\ pc \notin {"s_wst", "w_wr"}
                  /\ op.name # "ndef"      \* (a replayed block is parsed as attribute data: outside the model)
                  /\ Adv(h) /\ rep' = TRUE

Outcomes == {"cont", "True", "False", "None", "Data", "TagCommandError", "TypeError", "AttributeError"}
Check(out) == BadCountChk(out) \/ AChk(out) \/ SChk(out) \/ NChk(out) \/ RChk(out) \/ NChkRead(out) \/ NNdefChk(out) \/ SWriteState(out) \/ WWrite(out)
              \/ PReadCfg(out) \/ PWriteKey(out) \/ PWriteMC(out)
Command == AWriteRC \/ AReadId \/ SReadWcnt \/ SReadState \/ NPwd \/ RRead \/ NNdefRead

BlockLists == {<<b>> : b \in Blocks} \cup {<<a, b>> : a, b \in Blocks}

Next ==
    \/ \E pw \in Pws : StartAuth(pw) \/ StartProtect(pw, {}) \/ StartProtect(pw, Blocks)
    \/ \E bs \in BlockLists : StartRead(bs)
    \/ \E b \in Blocks, v \in Vals : StartWrite(b, v)
    \/ StartNdef \/ NdefCached \/ DropCache
    \/ Command
    \/ \E out \in Outcomes : Check(out)
    \/ \E i \in 1..2 : AdvFlipData(i)
    \/ AdvFlipMac \/ AdvSwap \/ AdvPad
    \/ \E m \in 0..4 : AdvCount(m)
    \/ \E h \in hist : AdvReplay(h)

Spec == Init /\ [][Next]_vars

\* ---- properties (parametric: evaluated on the next state in trace mode) -----------------------
Typed == {"True", "False", "None", "Data", "TagCommandError", "-"}
KeyEq(l) == Kdf(l.pw) = l.ck

ResultTypedP(l)  == l.res \in Typed
\* True only if the tag holds the key (FeliCa: whatever the adversary does) and, unless old responses were
\* replayed, nothing was modified.  Replay limits, exhibited as witnesses: NTAG21x sends PWD and PACK in the
\* clear (W_NtagReplayFools); the Lite MAC does not cover block numbers, so the ID block of the same session
\* can stand in for the STATE block of the mutual authentication (W_MutualReplayFools).
AuthSoundP(l)    == (l.op = "auth" /\ l.res = "True" /\ ~(l.kind = "ntag" /\ l.rep)) => (KeyEq(l) /\ (l.rep \/ ~l.tamp))
AuthCompleteP(l) == (l.op = "auth" /\ KeyEq(l) /\ ~l.tamp) => l.res = "True"
\* after a successful protect(pw) the tag holds Kdf(pw); with Sound/Complete: authenticate(q) is True
\* exactly for the passwords with Kdf(q) = Kdf(pw)
ProtectKeyP(l, p, tg, idle) == /\ p.set => tg.ck = p.k
                               /\ (idle /\ l.op = "protect" /\ l.res = "True") => (p.set /\ p.k = Kdf(l.pw))
ProtectThenAuthP(l, p) == (l.op = "auth" /\ p.set /\ ~l.tamp /\ l.res \in {"True", "False"})
                              => ((l.res = "True") <=> (Kdf(l.pw) = p.k))
\* data is returned only if it is what the tag sent for this request (no modification survives) ...
IsRead(l) == l.op = "read" \/ (l.op = "ndef" /\ l.mac)
MacReadFreshP(l) == (IsRead(l) /\ l.res = "Data" /\ ~l.rep) => l.d = l.gen
\* ... and even with replays only data the tag itself authenticated in the reader's session
MacReadAuthenticP(l, h) == (IsRead(l) /\ l.res = "Data") => MacResp(l.d, MacOf(l.sk, l.iv, l.d)) \in h
MacReadCompleteP(l) == (IsRead(l) /\ ~l.tamp /\ l.sk = l.tsk /\ l.iv = l.trc) => (l.res = "Data" /\ l.d = l.gen)

ResultTyped     == ResultTypedP(last)
AuthSound       == AuthSoundP(last)
AuthComplete    == AuthCompleteP(last)
ProtectKey      == ProtectKeyP(last, prot, tag, pc = "idle")
ProtectThenAuth == ProtectThenAuthP(last, prot)
MacReadFresh    == MacReadFreshP(last)
MacReadAuthentic == MacReadAuthenticP(last, hist)
MacReadComplete == MacReadCompleteP(last)
\* what an authenticated tag object hands out as tag.ndef was read while authenticated (FeliCa: MAC verified in
\* that session) - never an object cached from before the authentication
NdefVerifiedP(l) == (l.op = "ndef" /\ l.res = "Data" /\ l.auth) => l.ver
NdefVerified == NdefVerifiedP(last)

TypeOK == /\ pc \in {"idle", "nn_rd", "nn_chk", "a_wrc", "a_rid", "a_chk", "s_rwc", "s_wst", "s_rst", "s_chk", "n_pwd", "n_chk",
                     "r_rd", "r_chk", "w_wr", "p_rmc", "p_wck", "p_wmc"}
          /\ nadv \in 0..MaxAdv /\ nops \in 0..MaxOps /\ nchal \in 0..MaxChal
          /\ tag.ck \in Keys /\ tag.rc \in 0..MaxChal
          /\ rd.auth => (rd.has \/ tag.kind = "ntag")

\* ---- reachability witnesses (TLC must violate each) --------------------------------------------
W_AuthTrue        == ~(last.op = "auth" /\ last.res = "True" /\ last.kind = "lite")
W_MutualTrue      == ~(last.op = "auth" /\ last.res = "True" /\ last.kind = "lites")
W_NtagTrue        == ~(last.op = "auth" /\ last.res = "True" /\ last.kind = "ntag" /\ ~last.rep)
W_FalseWrongKey   == ~(last.op = "auth" /\ last.res = "False" /\ ~last.tamp /\ ~KeyEq(last))
W_FalseTamper     == ~(last.op = "auth" /\ last.res = "False" /\ last.tamp /\ KeyEq(last))
W_ReadData        == ~(last.op = "read" /\ last.res = "Data" /\ Len(last.d) = 2)
W_ReadNoneTamper  == ~(last.op = "read" /\ last.res = "None" /\ last.tamp)
W_SwapDetected    == ~(last.op = "read" /\ last.res = "None" /\ last.tamp /\ Len(last.gen) = 2
                       /\ nadv = 1 /\ last.gen[1] # last.gen[2] /\ ~last.rep)
W_ProtectAuth     == ~(last.op = "auth" /\ last.res = "True" /\ prot.set /\ Kdf(last.pw) # Factory)
W_ProtectOther    == ~(last.op = "auth" /\ last.res = "False" /\ prot.set /\ ~last.tamp)
W_NdefData        == ~(last.op = "ndef" /\ last.res = "Data")
W_NdefNoneTamper  == ~(last.op = "ndef" /\ last.res = "None" /\ last.tamp /\ op.bs = <<MsgBlock>>)
W_NdefTypeError   == ~(last.op = "ndef" /\ last.res = "TypeError")
W_BadCountAuth    == ~(last.op = "auth" /\ last.res = "TagCommandError" /\ last.kind = "lite")
W_BadCountRead    == ~(last.op = "read" /\ last.res = "TagCommandError")
W_BadCountProtect == ~(last.op = "protect" /\ last.res = "TagCommandError" /\ last.tamp)
W_NdefCached      == ~(last.op = "ndef" /\ last.cached /\ last.auth /\ last.ver)
W_NdefUnauthForged == ~(last.op = "ndef" /\ last.res = "Data" /\ ~last.auth /\ last.tamp)
W_NdefReadAgain   == ~(last.op = "ndef" /\ last.res = "Data" /\ last.auth /\ ~last.cached /\ nops = 3)
W_WriteOk         == ~(last.op = "write" /\ last.res = "None")
W_WriteRefused    == ~(last.op = "write" /\ last.res = "TagCommandError")
W_WriteNeedsAuth  == ~(last.op = "write" /\ last.res = "TagCommandError" /\ ~last.tamp /\ last.sk = last.tsk /\ last.iv = last.trc)
\* documented protocol limits that the model exhibits (they bound what the invariants may claim)
W_ReplayStale     == ~(last.op = "read" /\ last.res = "Data" /\ last.rep /\ last.d # last.gen)
W_MutualReplayFools == ~(last.op = "auth" /\ last.res = "True" /\ last.kind = "lites" /\ last.tamp)
W_NtagReplayFools == ~(last.op = "auth" /\ last.res = "True" /\ last.kind = "ntag" /\ ~KeyEq(last))
\* the defects of the code as it is (reached only with Defects # {})
W_TypeError       == ~(last.res = "TypeError")
W_AttributeError  == ~(last.res = "AttributeError")
=============================================================================
