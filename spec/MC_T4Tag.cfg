SPECIFICATION Spec
CONSTANTS
  B = 4
  LcMax = 4
  LeMax = 4
  Variants = {"fixed"}
  Mfss = {6, 9, 12}
  Extras = {0, 2}
  NlenSizes = {2, 4}
  MLcs = {1, 2, 3, 4, 5, 6}
  MLes = {2, 3, 4, 5, 6}
  WFlags = {0, 255}
  OldLens = {0, 1, 3, 5, 8}
  MsgKinds = {"a", "z"}
  WithCut = TRUE
  WithFormat = TRUE
  WithOutage = TRUE
  Retries = 2
INVARIANT TypeOK
INVARIANT RoundTrip
INVARIANT WriteOk
INVARIANT CapSound
INVARIANT RejectEarly
INVARIANT FreshOk
INVARIANT Atomic
INVARIANT Confined
CHECK_DEADLOCK FALSE
