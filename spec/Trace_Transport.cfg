SPECIFICATION TSpec
CONSTANTS
  Link = "trace"
  OutPkt = 64
  InPkt = 64
  ReadCap = 300
  ExtMark = 255
  ZlpRule = "mod"
  ExtRule = "lenlcs"
  WLens = {1}
  DLens = {1}
  TFrames = {1}
  NFrames = 1
  MidTimeout = FALSE
CONSTRAINT Done
CHECK_DEADLOCK FALSE
