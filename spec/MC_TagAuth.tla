---------------------------- MODULE MC_TagAuth ----------------------------
(* Exhaustive-run wrapper for TagAuth: the reachability witnesses W_x of TagAuth are recorded during the
   one exhaustive run instead of one TLC run per witness: Reached is an always-true invariant that prints
   <<"WITNESS", name>> the first time a worker sees a state violating W_x (per-worker TLC register). *)
EXTENDS TagAuth, TLCExt

WNames == <<"W_AuthTrue", "W_MutualTrue", "W_NtagTrue", "W_FalseWrongKey", "W_FalseTamper", "W_ReadData",
            "W_ReadNoneTamper", "W_SwapDetected", "W_ProtectAuth", "W_ProtectOther", "W_WriteOk",
            "W_WriteRefused", "W_ReplayStale", "W_NtagReplayFools", "W_NdefData", "W_NdefNoneTamper", "W_MutualReplayFools", "W_WriteNeedsAuth", "W_BadCountAuth", "W_BadCountRead", "W_BadCountProtect",
            "W_NdefCached", "W_NdefUnauthForged", "W_NdefReadAgain",
            "W_TypeError", "W_AttributeError", "W_NdefTypeError">>
WHolds(n) == CASE n = "W_AuthTrue" -> W_AuthTrue [] n = "W_MutualTrue" -> W_MutualTrue
               [] n = "W_NtagTrue" -> W_NtagTrue [] n = "W_FalseWrongKey" -> W_FalseWrongKey
               [] n = "W_FalseTamper" -> W_FalseTamper [] n = "W_ReadData" -> W_ReadData
               [] n = "W_ReadNoneTamper" -> W_ReadNoneTamper [] n = "W_SwapDetected" -> W_SwapDetected
               [] n = "W_ProtectAuth" -> W_ProtectAuth [] n = "W_ProtectOther" -> W_ProtectOther
               [] n = "W_WriteOk" -> W_WriteOk [] n = "W_WriteRefused" -> W_WriteRefused
               [] n = "W_ReplayStale" -> W_ReplayStale [] n = "W_NtagReplayFools" -> W_NtagReplayFools
               [] n = "W_MutualReplayFools" -> W_MutualReplayFools
               [] n = "W_WriteNeedsAuth" -> W_WriteNeedsAuth
               [] n = "W_BadCountAuth" -> W_BadCountAuth [] n = "W_BadCountRead" -> W_BadCountRead
               [] n = "W_BadCountProtect" -> W_BadCountProtect
               [] n = "W_NdefCached" -> W_NdefCached [] n = "W_NdefUnauthForged" -> W_NdefUnauthForged
               [] n = "W_NdefReadAgain" -> W_NdefReadAgain
               [] n = "W_NdefData" -> W_NdefData [] n = "W_NdefNoneTamper" -> W_NdefNoneTamper
               [] n = "W_TypeError" -> W_TypeError [] n = "W_AttributeError" -> W_AttributeError
               [] n = "W_NdefTypeError" -> W_NdefTypeError
Reached == \A i \in DOMAIN WNames :
              (~WHolds(WNames[i]) /\ TLCGetOrDefault(i, 0) = 0)
                  => (TLCSet(i, 1) /\ PrintT(<<"WITNESS", WNames[i]>>))
=============================================================================
