------------------------- MODULE Trace_LlcpLife -------------------------
(* Validates executions of the real run loop + sockets under the deterministic scheduler
   against LlcpLife.  Events (uniform records [a, t, s, op, x]):
     Call(t, s, op)   intent: thread t enters public call op on socket s       (no spec step)
     Bound(t, s)      llc.bind() returned for s                               -> Bind(t, s)
     Adopt(t, c, l)   insert_socket(c) at the access point of listener l (accept) -> Adopt(t, l, c), registration branch
     Wait(t)          t starts to wait inside the call                          -> Call(t, s) with outcome "wait"
     Wake(t)          t re-acquired the lock after a wait
     Took(t, s, x)    the recv()/poll() critical section ended, logged under the socket lock: an item was
                      taken (data) or the queue was empty (error)               -> Call(t, s) / Wake(t) outcome
     Ret(t, x)        the call returned; x in data | error | exc:<Type>
     Deliver(s), Shutdown(s), AppClose(s), TermBegin, TermEnd                   -> same-named actions
     End              end of the execution: NoStuckLive must hold and every thread is idle/done or
                      (known finding class) waits on a socket registered with the dead controller
   The linearisation point of a call is its critical section, i.e. the Wait or the Ret event,
   not the Call event.  Opaque operations (send, sendto, poll_send, poll_acks, close, resolve,
   bind, listen) are only checked for their result class and for not being stuck at End. *)
EXTENDS LlcpLife, Json, IOUtils, TLCExt, Sequences

VARIABLES tid, l, cur
tvars == <<phase, sk, th, toShut, ndel, tid, l, cur>>

Traces == ndJsonDeserialize(IOEnv.TRACE_FILE)
T == Traces[tid].ev
Ev == T[l]
Modelled == {"recvfrom", "poll_recv", "accept", "connect", "recv"}

TInit ==
    /\ tid \in 1..Len(Traces) /\ l = 1
    /\ Init
    /\ cur = [t \in Threads |-> [op |-> "-", s |-> NoSock, waits |-> 0]]

Step == l <= Len(T) /\ l' = l + 1 /\ UNCHANGED tid
Is(a) == l <= Len(T) /\ Ev.a = a

TrCall ==
    /\ Is("Call") /\ Step
    /\ th[Ev.t].pc \in {"idle", "done"}
    /\ cur' = [cur EXCEPT ![Ev.t] = [op |-> Ev.op, s |-> Ev.s, waits |-> 0]]
    /\ th' = [th EXCEPT ![Ev.t] = [pc |-> "idle", s |-> Ev.s, res |-> "-"]]
    /\ UNCHANGED <<phase, sk, toShut, ndel>>

TrBound ==
    /\ Is("Bound") /\ Step
    /\ \/ Bind(Ev.t, Ev.s)
       \/ sk[Ev.s].reg # "none" /\ UNCHANGED <<phase, sk, th, toShut, ndel>>   \* accept(): client shares the SAP
    /\ UNCHANGED cur

\* accept() returned a new connection socket that shares the listener's access point
\* (logged inside ServiceAccessPoint.insert_socket, under the controller lock): LlcpLife!Adopt's registration
\* branch - the CONNECT was taken by this thread and the listener's access point is still live (NoOrphan)
TrAdopt ==
    /\ Is("Adopt") /\ Step
    /\ th[Ev.t].pc = "done" /\ th[Ev.t].res = "data" /\ th[Ev.t].s = Ev.op
    /\ sk[Ev.op].reg = "live" /\ sk[Ev.s].reg = "none"
    /\ sk' = [sk EXCEPT ![Ev.s].reg = "live"]
    /\ toShut' = IF phase = "terminating" THEN toShut \cup {Ev.s} ELSE toShut
    /\ UNCHANGED <<phase, th, ndel, cur>>

IsMod(t) == cur[t].op \in Modelled

\* first wait of a modelled call = the critical section found nothing queued and the socket open
WaitMod(t) == Outcome(cur[t].s) = "wait" /\ Call(t, cur[t].s)
WaitOpq(t) == /\ th[t].pc \in {"idle", "waiting"}
              /\ th' = [th EXCEPT ![t].pc = "waiting"] /\ UNCHANGED <<phase, sk, toShut, ndel>>
TrWait == /\ Is("Wait") /\ Step
          /\ (IF IsMod(Ev.t) /\ th[Ev.t].pc = "idle" THEN WaitMod(Ev.t) ELSE WaitOpq(Ev.t))
          /\ cur' = [cur EXCEPT ![Ev.t].waits = @ + 1]

\* a waiter of a modelled call only runs again because somebody notified it
TrWake == /\ Is("Wake") /\ Step
          /\ (IF IsMod(Ev.t) THEN th[Ev.t].pc = "notified" ELSE th[Ev.t].pc \in {"waiting", "notified"})
          /\ th' = [th EXCEPT ![Ev.t].pc = IF IsMod(Ev.t) THEN "woken" ELSE @]
          /\ UNCHANGED <<phase, sk, toShut, ndel, cur>>

\* Took: the critical section of recv()/poll("recv") (logged under the socket lock) = LlcpLife!Call without
\* waiting, or LlcpLife!Wake: an item is taken, or the queue is empty because the socket was shut down
TrTook ==
    /\ Is("Took") /\ Step
    /\ IsMod(Ev.t) /\ th[Ev.t].pc \in {"idle", "woken"}
    /\ LET s == cur[Ev.t].s IN
       /\ Ev.s = s
       /\ IF Ev.x = "data"
          THEN /\ sk[s].rq > 0
               /\ sk' = IF cur[Ev.t].op = "poll_recv" THEN sk ELSE [sk EXCEPT ![s].rq = @ - 1]
          ELSE /\ sk[s].rq = 0 /\ sk[s].st = "SHUTDOWN"       \* only close() makes a blocking call come back empty
               /\ sk' = sk
       /\ th' = [th EXCEPT ![Ev.t] = [pc |-> "done", s |-> s, res |-> Ev.x]]
    /\ UNCHANGED <<phase, toShut, ndel, cur>>

\* the same critical section inside an opaque operation (close() of an established connection takes the peer's DM
\* from the receive queue): only the queue is tracked
TrTookOpq ==
    /\ Is("Took") /\ Step
    /\ ~IsMod(Ev.t)
    /\ IF Ev.x = "data"
       THEN sk[Ev.s].rq > 0 /\ sk' = [sk EXCEPT ![Ev.s].rq = @ - 1]
       ELSE sk[Ev.s].rq = 0 /\ sk' = sk
    /\ UNCHANGED <<phase, th, toShut, ndel, cur>>

ResClass == IF Ev.x \in {"data", "error"} THEN Ev.x ELSE "exc"
BeingShut(s) == phase = "terminating" /\ s \in toShut

\* a modelled call returns: after its critical section (Took), or without one when the state check failed
RetMod(t) ==
    LET s == cur[t].s IN
    /\ IF th[t].pc = "done"
       THEN (ResClass = "data" => th[t].res = "data")
       ELSE /\ th[t].pc = "idle" /\ ResClass = "error"
            /\ (Outcome(s) = "error" \/ BeingShut(s) \/ phase = "down")
    /\ th' = [th EXCEPT ![t] = [pc |-> "done", s |-> s, res |-> ResClass]]
    /\ sk' = sk
RetOpaque(t) ==
    /\ th' = [th EXCEPT ![t] = [pc |-> "done", s |-> cur[t].s, res |-> ResClass]]
    /\ sk' = sk
TrRet == /\ Is("Ret") /\ Step
         /\ ResClass # "exc"
         /\ (IF IsMod(Ev.t) THEN RetMod(Ev.t) ELSE RetOpaque(Ev.t))
         /\ UNCHANGED <<phase, toShut, ndel, cur>>

TrDeliver ==
    /\ Is("Deliver") /\ Step
    /\ sk[Ev.s].reg # "none" /\ sk[Ev.s].st = "OPEN"
    /\ sk' = [sk EXCEPT ![Ev.s].rq = @ + 1]
    /\ (LET w == {t \in Threads : th[t].pc = "waiting" /\ th[t].s = Ev.s /\ IsMod(t)} IN
          IF w = {} THEN th' = th ELSE \E t \in w : th' = [th EXCEPT ![t].pc = "notified"])
    /\ UNCHANGED <<phase, toShut, ndel, cur>>

TrTermBegin == /\ Is("TermBegin") /\ Step
               /\ TermBegin
               /\ UNCHANGED cur
\* (an application close() is two steps in the code - the socket is shut down, then taken off its access point under
\* the controller lock; terminate() running in between shuts the closed socket down once more: no effect, stuttering)
TrShutdown  == /\ Is("Shutdown") /\ Step
               /\ \/ Shutdown(Ev.s)
                  \/ /\ phase = "terminating" /\ sk[Ev.s].st = "SHUTDOWN" /\ sk[Ev.s].reg = "none"
                     /\ UNCHANGED <<phase, sk, th, toShut, ndel>>
               /\ UNCHANGED cur
TrTermEnd   == /\ Is("TermEnd") /\ Step
               /\ TermEnd
               /\ UNCHANGED cur

\* close() called by the application itself: same effect on the waiters as Shutdown
TrAppClose ==
    /\ Is("AppClose") /\ Step
    /\ sk' = [sk EXCEPT ![Ev.s] = [reg |-> "none", st |-> "SHUTDOWN", rq |-> 0]]
    /\ th' = [t \in Threads |-> IF th[t].pc = "waiting" /\ th[t].s = Ev.s /\ IsMod(t)
                               THEN [th[t] EXCEPT !.pc = "notified"] ELSE th[t]]
    /\ toShut' = toShut \ {Ev.s}
    /\ UNCHANGED <<phase, ndel, cur>>

\* end of the execution: C09
StuckNow == {t \in Threads : th[t].pc \in {"waiting", "notified", "woken"}}
TrEnd ==
    /\ Is("End") /\ Step
    /\ phase = "down"
    /\ (\A t \in StuckNow : sk[th[t].s].reg = "dead")       \* NoStuckLive on the real execution
    /\ UNCHANGED <<phase, sk, th, toShut, ndel, cur>>

Real == TrCall \/ TrBound \/ TrAdopt \/ TrTook \/ TrTookOpq \/ TrWait \/ TrWake \/ TrRet \/ TrDeliver \/ TrTermBegin \/ TrShutdown
        \/ TrTermEnd \/ TrAppClose \/ TrEnd

Why == [ev |-> Ev,
        pc |-> IF "t" \in DOMAIN Ev /\ Ev.t \in Threads THEN th[Ev.t] ELSE th,
        sock |-> IF "s" \in DOMAIN Ev /\ Ev.s \in Socks THEN sk[Ev.s] ELSE [reg |-> "-", st |-> "-", rq |-> 0],
        phase |-> phase, stuck |-> StuckNow]

Stuck ==
    /\ l <= Len(T)
    /\ ~ENABLED Real
    /\ PrintT(<<"STUCK", Traces[tid].id, l, Ev.a, Why>>)
    /\ l' = Len(T) + 2
    /\ UNCHANGED <<phase, sk, th, toShut, ndel, tid, cur>>

TNext == Real \/ Stuck
TSpec == TInit /\ [][TNext]_tvars
Done == (l = Len(T) + 1) => PrintT(<<"ACCEPT", Traces[tid].id>>)
=============================================================================
