------------------------- MODULE Trace_P2pNeg -------------------------
(* Trace validation for P2pNeg: one trace = one real activation of two nfcpy stacks
   (LogicalLinkController.activate over nfc.dep.Initiator / nfc.dep.Target over the simulated
   air) for one grid configuration, followed by a little LLCP traffic:

     Activate(ok, proj)   proj = what both stacks hold + what was seen on the air
     Frame(dir, size, brty)  every DEP frame of the traffic phase
     Xfer(dir, n, ok)     an LLCP PDU with n information bytes arrived intact at the peer  *)
EXTENDS P2pNeg, Json, IOUtils, TLCExt

VARIABLES tid, l
tvars == <<c, ph, tid, l>>

TKinds == {"dep", "ml", "opt", "depx", "llcp"}

Traces == ndJsonDeserialize(IOEnv.TRACE_FILE)
T == Traces[tid].ev
C == Traces[tid].const

TInit == /\ tid \in 1..Len(Traces) /\ l = 1
         /\ c = C.cfg /\ ph = "start"

Ev == T[l]
IsEv(a) == l <= Len(T) /\ Ev.a = a /\ l' = l + 1 /\ UNCHANGED tid

\* the projection the binding records, from the reference
Proj(e) == [acm |-> e.acm, psl |-> e.psl, brty0 |-> e.brty0, airLrI |-> e.lrI, airLrT |-> e.lrT,
            iBrty |-> e.brty, tBrty |-> e.brty, iAcm |-> e.acm, tAcm |-> e.acm, iWt |-> e.wt, tWt |-> e.wt,
            iDepMiu |-> e.i.depMiu, iSendMiu |-> e.i.sendMiu, iRecvMiu |-> e.i.recvMiu,
            iSendLto |-> e.i.sendLto, iRecvLto |-> e.i.recvLto, iSendWks |-> e.i.sendWks,
            iSendLsc |-> e.i.sendLsc, iAgf |-> e.i.agf,
            tDepMiu |-> e.t.depMiu, tSendMiu |-> e.t.sendMiu, tRecvMiu |-> e.t.recvMiu,
            tSendLto |-> e.t.sendLto, tRecvLto |-> e.t.recvLto, tSendWks |-> e.t.sendWks,
            tSendLsc |-> e.t.sendLsc, tAgf |-> e.t.agf]

E0 == Expected(c)
GActivate == /\ IsEv("Activate") /\ Activate
             /\ InGrid(C.kind, C.k, c) /\ ValidCfg(c)
             /\ Ev.ok = E0.ok
             /\ (E0.ok => Ev.proj = Proj(E0) /\ Symmetric(E0) /\ WithinRanges(E0))
GFrame == /\ IsEv("Frame") /\ ph = "up" /\ UNCHANGED vars
          /\ FrameOk(c, Ev.dir, Ev.size, Ev.brty)
GXfer == /\ IsEv("Xfer") /\ ph = "up" /\ UNCHANGED vars
         /\ Ev.ok
         /\ Ev.n <= (IF Ev.dir = "IT" THEN E0.i.sendMiu ELSE E0.t.sendMiu)
         /\ (Ev.full => Ev.n = (IF Ev.dir = "IT" THEN E0.i.sendMiu ELSE E0.t.sendMiu))
Real == GActivate \/ GFrame \/ GXfer

Diff(exp, got) == {<<f, exp[f], got[f]>> : f \in {g \in DOMAIN exp : exp[g] # got[g]}}
Why == CASE Ev.a = "Activate" ->
              IF ~InGrid(C.kind, C.k, c) THEN <<"grid">>
              ELSE IF Ev.ok # E0.ok THEN <<"ok", E0.ok>>
              ELSE IF E0.ok /\ Ev.proj # Proj(E0) THEN <<"proj", Diff(Proj(E0), Ev.proj)>>
              ELSE <<"inv", Symmetric(E0), WithinRanges(E0)>>
         [] Ev.a = "Frame" -> <<"FrameFits", ph, E0.lrI, E0.lrT, E0.brty>>
         [] OTHER -> <<"xfer", ph, E0.i.sendMiu, E0.t.sendMiu>>

Stuck == /\ l <= Len(T)
         /\ ~ENABLED Real
         /\ PrintT(<<"STUCK", Traces[tid].id, l, Ev.a, Why>>)
         /\ l' = Len(T) + 2
         /\ UNCHANGED <<c, ph, tid>>

TNext == Real \/ Stuck
TSpec == TInit /\ [][TNext]_tvars
Done == (l = Len(T) + 1) => PrintT(<<"ACCEPT", Traces[tid].id>>)
=============================================================================
