------------------------- MODULE Trace_P2pNeg -------------------------
(* Trace validation for P2pNeg: one trace = one real activation of two nfcpy stacks
   (ContactlessFrontend.connect(llcp=...) -> LogicalLinkController.activate over nfc.dep.Initiator /
   nfc.dep.Target over the simulated air) for one grid configuration, followed by traffic:

     Activate(ok, proj)      proj = what both stacks hold + what was seen on the air
   light traffic (one LLC PDU each way through llc.exchange):
     Frame(dir, size, brty)  every DEP frame;   Xfer(dir, n, ok, full)  an LLC PDU arrived intact
   full traffic (the real run loops with applications filling the frames, bind/c19_traffic.py); everything
   below is decoded from the frames on the air by the recorder's own decoders:
     Llc(dir, t, dsap, ssap, info, miux, inner)  one LLC PDU reassembled from the DEP frames; CONNECT/CC
                             carry the connection MIU their sender announces (negotiation action Announce);
                             the PDU and, for AGF, every PDU inside are added to the history `sent`
     Dep(frames)             distinct (dir, transport bytes, bit rate) of all DEP frames after activation
     Waits(side, cyc)        distinct timeouts (carrier cycles) the side's run loop asked its driver for
     Turn(side, cyc)         longest virtual time (carrier cycles) between receiving an LLC PDU and starting
                             the answer: bounded by the LTO the side announced and, for the target, by its RWT
     Broken(llc)             the link went down before the application closed it
     Over(dir, sap, n, accepted)  send() on a data link connection was offered n octets for the peer's SAP `sap`
                             (one message of exactly the receiver's limit and one of one octet more, per connection end)
     End(side, role, mode, sap, sndmiu, burst, blocked)   the end of a connection at `side` (role "opn": it opened the
                             connection in the way `mode`, "acc": it accepted it) reports its send MIU and how many
                             send() calls the fresh connection took before it said EWOULDBLOCK (`blocked`)
     Flight(dir, sap, n)     the largest number of unacknowledged I PDUs that were on their way to SAP `sap` (N(S), N(R)
                             decoded from the air)
   The Llc events also drive the connection records `dlc` of P2pNeg (SNL with an SDREQ for the service -> Lookup,
   CONNECT -> ConnectReq with the way of addressing read off the PDU, CC -> ResolveName + AcceptConn).
     Data(dir, kind, sent, rcvd, ok, problems)   what the receiving application got

   A behavioural mismatch is a STUCK of <id>.  The C19 invariants (Obey over the `sent` history with the
   limits taken from the negotiation actions, BitRate, Timeouts, LtoKept, Delivered) are evaluated as step
   post-conditions; their first violation is reported as <<"STUCK", "<id>#<Inv>", ...>> and validation goes on. *)
EXTENDS P2pNeg, Json, IOUtils, TLCExt, Sequences

VARIABLES tid, l, soft
tvars == <<c, ph, conn, sent, dlc, tid, l, soft>>

TKinds == {"dep", "ml", "opt", "lto", "depx", "llcp"}
TNoClasses == {}

Traces == ndJsonDeserialize(IOEnv.TRACE_FILE)
T == Traces[tid].ev
C == Traces[tid].const

TInit == /\ tid \in 1..Len(Traces) /\ l = 1 /\ soft = {}
         /\ c = C.cfg /\ ph = "start" /\ conn = {} /\ sent = {} /\ dlc = {}

Ev == T[l]
IsEv(a) == l <= Len(T) /\ Ev.a = a /\ l' = l + 1 /\ UNCHANGED tid

\* the projection the binding records, from the reference
Proj(e) == [acm |-> e.acm, psl |-> e.psl, brty0 |-> e.brty0, airLrI |-> e.lrI, airLrT |-> e.lrT,
            iBrty |-> e.brty, tBrty |-> e.brty, iAcm |-> e.acm, tAcm |-> e.acm, iWt |-> e.wt, tWt |-> e.wt,
            iDepMiu |-> e.i.depMiu, iSendMiu |-> e.i.sendMiu, iRecvMiu |-> e.i.recvMiu,
            iSendLto |-> e.i.sendLto, iRecvLto |-> e.i.recvLto, iSendWks |-> e.i.sendWks,
            iSendLsc |-> e.i.sendLsc, iAgf |-> e.i.agf,
            tDepMiu |-> e.t.depMiu, tSendMiu |-> e.t.sendMiu, tRecvMiu |-> e.t.recvMiu,
            tSendLto |-> e.t.sendLto, tRecvLto |-> e.t.recvLto, tSendWks |-> e.t.sendWks,
            tSendLsc |-> e.t.sendLsc, tAgf |-> e.t.agf]

E0 == Expected(c)
Same == UNCHANGED <<c, ph, conn, sent, dlc>>
Range(s) == {s[k] : k \in DOMAIN s}
Src(dir) == IF dir = "IT" THEN "I" ELSE "T"

GActivate == /\ IsEv("Activate") /\ Activate
             /\ InGrid(C.kind, C.k, c) /\ ValidCfg(c)
             /\ Ev.ok = E0.ok
             /\ (E0.ok => Ev.proj = Proj(E0) /\ Symmetric(E0) /\ WithinRanges(E0))
GFrame == /\ IsEv("Frame") /\ ph = "up" /\ Same
          /\ FrameOk(c, Ev.dir, Ev.size, Ev.brty)
GXfer == /\ IsEv("Xfer") /\ ph = "up" /\ Same
         /\ Ev.ok
         /\ Ev.n <= (IF Ev.dir = "IT" THEN E0.i.sendMiu ELSE E0.t.sendMiu)
         /\ (Ev.full => Ev.n = (IF Ev.dir = "IT" THEN E0.i.sendMiu ELSE E0.t.sendMiu))

\* the PDUs of one LLC frame: the frame itself and, for an aggregate, the PDUs inside
\* (CONNECT / CC carry mtlv, rw, sn: the MIUX / RW TLV values, NoTlv when absent, and whether there is an SN TLV; SNL
\* carries svc: it asks for the SAP of the service)
Outer == IF Ev.t \in {"CONNECT", "CC"}
         THEN [t |-> Ev.t, dsap |-> Ev.dsap, ssap |-> Ev.ssap, info |-> Ev.info, miux |-> Ev.miux,
               mtlv |-> Ev.mtlv, rw |-> Ev.rw, sn |-> Ev.sn]
         ELSE IF Ev.t = "SNL"
         THEN [t |-> Ev.t, dsap |-> Ev.dsap, ssap |-> Ev.ssap, info |-> Ev.info, miux |-> Ev.miux, svc |-> Ev.svc]
         ELSE [t |-> Ev.t, dsap |-> Ev.dsap, ssap |-> Ev.ssap, info |-> Ev.info, miux |-> Ev.miux]
PduSeq == IF Ev.t = "AGF" THEN Ev.inner ELSE <<Outer>>
Pdus == Range(PduSeq)
\* the connection records follow the PDUs on the air (s = the sender of the PDU): the way of addressing is read off the
\* CONNECT (SAP 1 + SN TLV: by name; else by SAP, after the sender's lookup of the service name or without one)
Par(p) == [miux |-> p.mtlv, rw |-> p.rw]
Pending(dl, s, p) == {d \in dl : d.init = Other(s) /\ d.st = "connect" /\ d.ssap = p.dsap}
DlcStep(dl, p, s) ==
    CASE p.t = "SNL" /\ p.svc /\ ~\E d \in dl : d.init = s -> dl \cup {Looked(s)}
      [] p.t = "CONNECT" ->
            {d \in dl : d.init # s} \cup
            {Requested(s, IF p.dsap = 1 /\ p.sn THEN "name"
                          ELSE IF \E d \in dl : d.init = s /\ d.st = "resolved" THEN "resolved" ELSE "sap",
                       p.ssap, p.dsap, Par(p))}
      [] p.t = "CC" /\ Pending(dl, s, p) # {} ->
            LET d == CHOOSE e \in Pending(dl, s, p) : TRUE
                r == IF d.dsap = 1 THEN Rewritten(d, p.ssap) ELSE d IN
            (dl \ {d}) \cup {Accepted(c, r, p.ssap, Par(p))}
      [] OTHER -> dl
RECURSIVE DlcFold(_, _, _, _)
DlcFold(dl, seq, k, s) == IF k > Len(seq) THEN dl ELSE DlcFold(DlcStep(dl, seq[k], s), seq, k + 1, s)
UnitsOf(p, dir) ==
    {Unit(c, conn, "llc", dir, 0, p.info)}
    \cup (IF p.t = "UI" THEN {Unit(c, conn, "ui", dir, p.dsap, p.info)} ELSE {})
    \cup (IF p.t = "I" THEN {Unit(c, conn, "i", dir, p.dsap, p.info)} ELSE {})
GLlc == /\ IsEv("Llc") /\ ph = "up"
        /\ conn' = conn \cup {[side |-> Src(Ev.dir), sap |-> p.ssap, miu |-> p.miux, rw |-> RwOfP(Par(p))] :
                                    p \in {q \in Pdus : q.t \in {"CONNECT", "CC"}}}
        /\ dlc' = DlcFold(dlc, PduSeq, 1, Src(Ev.dir))
        /\ sent' = sent \cup {Unit(c, conn, "llc", Ev.dir, 0, Ev.info)} \cup UNION {UnitsOf(p, Ev.dir) : p \in Pdus}
        /\ UNCHANGED <<c, ph>>
GDep == /\ IsEv("Dep") /\ ph = "up"
        /\ sent' = sent \cup {Unit(c, conn, "dep", f.dir, 0, f.size) : f \in Range(Ev.frames)}
        /\ UNCHANGED <<c, ph, conn, dlc>>
GWaits == IsEv("Waits") /\ ph = "up" /\ Same
GTurn  == IsEv("Turn") /\ ph = "up" /\ Same
GData  == IsEv("Data") /\ ph = "up" /\ Same
GBroken == IsEv("Broken") /\ ph = "up" /\ Same
GOver   == IsEv("Over") /\ ph = "up" /\ Same
GEnd    == IsEv("End") /\ ph = "up" /\ Same
GFlight == IsEv("Flight") /\ ph = "up" /\ Same
Conform == GActivate \/ GFrame \/ GXfer \/ GLlc \/ GDep \/ GWaits \/ GTurn \/ GData \/ GBroken \/ GOver \/ GEnd \/ GFlight

\* the connection record an End event speaks about, and the limits of the reporting end according to the reference
EndOpener == IF Ev.role = "opn" THEN Ev.side ELSE Other(Ev.side)
EndRecs == {d \in dlc : d.st = "open" /\ d.init = EndOpener}
EndLim(d) == IF Ev.role = "opn" THEN d.opn ELSE d.acc
EndPeer(d) == IF Ev.role = "opn" THEN d.svc ELSE d.ssap

\* ---- the C19 invariants as post-conditions of a step of the real execution
InvNames == <<"ConnEqual", "Admitted", "WinObey", "Refused", "Obey", "BitRate", "Timeouts", "LtoKept", "RwtKept", "Delivered", "LinkUp">>
InvP(n) == CASE n = "Obey" -> ObeyP(sent')
             \* the sending side's socket refuses what the receiver does not allow (limit from the announcements on the air)
             [] n = "Refused" -> (Ev.a = "Over" /\ Ev.n > Limit(c, conn, "i", Ev.dir, Ev.sap) => ~Ev.accepted)
             \* ... and does not refuse what the receiver allows
             [] n = "Admitted" -> (Ev.a = "Over" /\ Ev.n <= Limit(c, conn, "i", Ev.dir, Ev.sap) => Ev.accepted)
             \* both ends of a connection hold exactly the limits the other end announced, however it was addressed
             [] n = "ConnEqual" -> (Ev.a = "End" =>
                                      /\ EndRecs # {}
                                      /\ \A d \in EndRecs :
                                            /\ d.mode = Ev.mode /\ EndPeer(d) = Ev.sap /\ EndsEqual(c, d)
                                            /\ Ev.sndmiu = EndLim(d).miu
                                            /\ Ev.burst <= EndLim(d).win /\ (Ev.blocked => Ev.burst = EndLim(d).win))
             \* never more I PDUs on their way than the receiver's window
             [] n = "WinObey" -> (Ev.a = "Flight" => Ev.n <= WinLimit(conn, Ev.dir, Ev.sap))
             [] n = "BitRate" -> (Ev.a = "Dep" => \A f \in Range(Ev.frames) : f.brty = E0.brty /\ f.size >= 2)
             \* a deadline covers one whole exchange: every wait is at most the negotiated timeout, the first is equal
             [] n = "Timeouts" -> (Ev.a = "Waits" => /\ \A w \in Range(Ev.cyc) : w <= ExpWait(c, Ev.side) /\ w > 0
                                                     /\ \E w \in Range(Ev.cyc) : w = ExpWait(c, Ev.side))
             [] n = "LtoKept" -> (Ev.a = "Turn" => Ev.cyc <= ExpTurn(c, Ev.side))
             [] n = "RwtKept" -> (Ev.a = "Turn" /\ Ev.side = "T" => Ev.cyc <= 4096 * Pow2(E0.wt))
             [] n = "Delivered" -> (Ev.a = "Data" => Ev.ok /\ Ev.problems = 0 /\ Ev.rcvd <= Ev.sent)
             [] n = "LinkUp" -> Ev.a # "Broken"
Detail(n) == CASE n = "Refused" -> <<Ev.n, Limit(c, conn, "i", Ev.dir, Ev.sap)>>
               [] n = "Admitted" -> <<Ev.n, Limit(c, conn, "i", Ev.dir, Ev.sap)>>
               [] n = "ConnEqual" -> <<{<<d.mode, EndPeer(d), EndLim(d).miu, EndLim(d).win>> : d \in EndRecs}>>
               [] n = "WinObey" -> <<Ev.n, WinLimit(conn, Ev.dir, Ev.sap)>>
               [] n = "Obey" -> {f \in sent' : f.size > f.limit}
               [] n = "BitRate" -> <<E0.brty>>
               [] n = "Timeouts" -> <<ExpWait(c, Ev.side), Ev.cyc>>
               [] n = "LtoKept" -> <<ExpTurn(c, Ev.side), Ev.cyc>>
               [] n = "RwtKept" -> <<4096 * Pow2(E0.wt), Ev.cyc>>
               [] OTHER -> <<>>

Real == /\ Conform
        /\ LET bad == {k \in DOMAIN InvNames : InvNames[k] \notin soft /\ ~InvP(InvNames[k])} IN
           /\ soft' = soft \cup {InvNames[k] : k \in bad}
           /\ \A k \in bad : PrintT(<<"STUCK", Traces[tid].id \o "#" \o InvNames[k], l, Ev.a,
                                      <<"inv", InvNames[k], Detail(InvNames[k])>>>>)

Diff(exp, got) == {<<f, exp[f], got[f]>> : f \in {g \in DOMAIN exp : exp[g] # got[g]}}
Why == CASE Ev.a = "Activate" ->
              IF ~InGrid(C.kind, C.k, c) THEN <<"grid">>
              ELSE IF Ev.ok # E0.ok THEN <<"ok", E0.ok>>
              ELSE IF E0.ok /\ Ev.proj # Proj(E0) THEN <<"proj", Diff(Proj(E0), Ev.proj)>>
              ELSE <<"inv", Symmetric(E0), WithinRanges(E0)>>
         [] Ev.a = "Frame" -> <<"FrameFits", ph, E0.lrI, E0.lrT, E0.brty>>
         [] Ev.a = "Xfer" -> <<"xfer", ph, E0.i.sendMiu, E0.t.sendMiu>>
         [] OTHER -> <<"phase", ph>>

Stuck == /\ l <= Len(T)
         /\ ~ENABLED Conform
         /\ PrintT(<<"STUCK", Traces[tid].id, l, Ev.a, Why>>)
         /\ l' = Len(T) + 2
         /\ UNCHANGED <<c, ph, conn, sent, dlc, tid, soft>>

TNext == Real \/ Stuck
TSpec == TInit /\ [][TNext]_tvars
Done == (l = Len(T) + 1) => PrintT(<<"ACCEPT", Traces[tid].id>>)
=============================================================================
