------------------------- MODULE Trace_LlcpCollect -------------------------
(* Trace validation for LlcpCollect (C10).  One trace = one pair of real
   nfc.llcp.llc.LogicalLinkController objects; events:

     Send      a real sendto()/send() with MSG_DONTWAIT: result against SendRes, socket MIU against link MIU
     Collect   the real collect(): the logged pre-state (queue descriptors of every socket, SD queues) is
               fed to CollectG; the logged frame, aggregation flag and post-state must be the spec's;
               FrameFits / PayloadFits / LenIsLen / NoWaste are step post-conditions on the real frame
     Dispatch  the encoded frame decoded and dispatched at the real peer: Transparent (same PDUs, same order,
               same bytes) and the receiver-side PayloadFits (payload <= recv_miu of the destination socket)

   The SDRES loop guard and the aggregation loop guard are not constants here: a step is accepted for the
   shipped form or the repaired one - FrameFits judges the result either way.                                         *)
EXTENDS LlcpCollect, Json, IOUtils, TLCExt

VARIABLES tid, l, lastw, fails
tvars == <<c, phase, fr, col, rcvd, tid, l, lastw, fails>>

Traces == ndJsonDeserialize(IOEnv.TRACE_FILE)
T == Traces[tid].ev

Dummy == [saps |-> <<>>, sd |-> [res |-> 0, req |-> <<>>, dm |-> <<>>], miu |-> 128, agf |-> TRUE]

TInit ==
    /\ tid \in 1..Len(Traces)
    /\ l = 1
    /\ c = Dummy /\ phase = "fill" /\ fr = [f |-> <<>>, agf |-> FALSE] /\ col = <<>> /\ rcvd = <<>>
    /\ lastw = <<>>
    /\ fails = <<>>

Ev == T[l]
IsEv(a) == l <= Len(T) /\ Ev.a = a /\ l' = l + 1 /\ UNCHANGED tid

Guards == {1, 4}

\* --- guarded spec actions -------------------------------------------------------------------
GSend == IsEv("Send") /\ UNCHANGED <<c, phase, fr, col, rcvd, lastw>>

GCollect ==
    /\ IsEv("Collect")
    /\ (Ev.cont => Ev.pre = c)                      \* nothing touched the controller since the last collect()
    /\ \E g \in Guards, lg \in BOOLEAN :
         LET r == CollectG(Ev.pre, g, lg) IN
         /\ c' = r.c /\ fr' = [f |-> r.f, agf |-> r.agf] /\ col' = r.f
    /\ phase' = "sent" /\ rcvd' = <<>>
    /\ lastw' = Ev.wids

GDispatch ==
    /\ IsEv("Dispatch")
    /\ phase = "sent"
    /\ rcvd' = [i \in DOMAIN Ev.rcvd |-> Ev.rcvd[i].p]
    /\ phase' = "done"
    /\ UNCHANGED <<c, fr, col, lastw>>

Guarded == GSend \/ GCollect \/ GDispatch

\* --- logged results -----------------------------------------------------------------------
ResOk ==
    CASE Ev.a = "Send"     -> Ev.res = SendRes(Ev.n, Ev.smiu)
      [] Ev.a = "Collect"  -> fr'.f = Ev.frame /\ fr'.agf = Ev.agf
      [] Ev.a = "Dispatch" -> TRUE
      [] OTHER -> FALSE
PostOk == Ev.a = "Collect" => c' = Ev.post

NoRawFlag(s) == [i \in DOMAIN s |-> [s[i] EXCEPT !.raw = FALSE]]

InvNames == <<"FrameFits", "PayloadFits", "LenIsLen", "NoWaste", "Transparent", "SendMiuOk">>
InvP(n) ==
    CASE n = "FrameFits"   -> Ev.a = "Collect" => FrameFitsP(fr', Ev.pre.miu)
      [] n = "PayloadFits" -> /\ Ev.a = "Collect" => PayloadFitsP(fr', Ev.pre.miu)
                              /\ Ev.a = "Dispatch" =>
                                   \A i \in DOMAIN Ev.rcvd :
                                      (Ev.rcvd[i].p.k \in {"I", "UI"} /\ Ev.rcvd[i].rmiu >= 0
                                       /\ ~(i \in DOMAIN col /\ col[i].raw)) => Ev.rcvd[i].p.n <= Ev.rcvd[i].rmiu
      [] n = "LenIsLen"    -> Ev.a = "Collect" => (LenIsLenP(fr') /\ Ev.enc = EncLen(fr'))
      [] n = "NoWaste"     -> Ev.a = "Collect" => (fr'.agf => Len(fr'.f) > 1)
      [] n = "Transparent" -> Ev.a = "Dispatch" =>
                                 /\ TransparentP(NoRawFlag(DispatchR(fr)), rcvd')
                                 /\ [i \in DOMAIN Ev.rcvd |-> Ev.rcvd[i].wid] = lastw
      [] n = "SendMiuOk"   -> Ev.a = "Send" => Ev.smiu <= Ev.lmiu
AllInv == \A i \in DOMAIN InvNames : InvP(InvNames[i])
Broken == SelectSeq(InvNames, LAMBDA n : ~InvP(n))

Conforms == Guarded /\ ResOk /\ PostOk
\* the step conforms to the spec action; invariants it breaks are recorded and the execution goes on
Real == Conforms /\ fails' = IF AllInv THEN fails ELSE Append(fails, <<l, Ev.a, Broken>>)

\* --- diagnosis ---------------------------------------------------------------------------
Brief(f) == [i \in DOMAIN f |-> <<f[i].k, f[i].dl>>]
Why == IF ~ENABLED Guarded THEN <<"guard">>
       ELSE IF ~ENABLED (Guarded /\ ResOk) THEN
            <<"result", IF Ev.a = "Collect" THEN Brief(CollectG(Ev.pre, 1, FALSE).f)
                        ELSE IF Ev.a = "Send" THEN SendRes(Ev.n, Ev.smiu) ELSE "-">>
       ELSE <<"post">>

Stuck ==
    /\ l <= Len(T)
    /\ ~ENABLED Real
    /\ PrintT(<<"STUCK", Traces[tid].id, l, Ev.a, Why, fails>>)
    /\ l' = Len(T) + 2
    /\ UNCHANGED <<c, phase, fr, col, rcvd, tid, lastw, fails>>

TNext == Real \/ Stuck
TSpec == TInit /\ [][TNext]_tvars

Done == (l = Len(T) + 1) =>
            IF fails = <<>> THEN PrintT(<<"ACCEPT", Traces[tid].id>>)
            ELSE PrintT(<<"STUCK", Traces[tid].id, fails[1][1], fails[1][2], <<"inv", fails[1][3]>>, fails>>)
=============================================================================
