SPECIFICATION Spec
CONSTANTS
  Cfgs <- MC_CfgsFixed
  Lens <- MC_Lens
  Ds <- MC_Ds
  MaxEx = 3
  MaxFaults = 2
  MaxStepFaults = 2
  Vs <- MC_VsFixed
  WithRelease = TRUE
  WithTrunc = FALSE
  MaxSess = 1
INVARIANT ExactlyOnce
INVARIANT Intact
INVARIANT OnlyCommErr
INVARIANT FrameFits
INVARIANT OneFaultOk
INVARIANT TargetOk
INVARIANT PniInSync
INVARIANT FirstPni
VIEW View
CHECK_DEADLOCK FALSE
