SPECIFICATION Spec
CONSTANTS
  NSap = 8
  NamedLo = 3
  DynLo = 5
  WksAddr = 2
  Names = {"wk", "n1", "n2", "n3"}
  MaxSock <- Max50
  KindSeq <- SeqRefill
  Roles <- RefillOps
  Msgs = {1, 2}
  BindAddrs <- BA
  Dsts = {2, 3, 5, 6}
  RecvBuf = 2
  Backlog = 1
  WksCheck = TRUE
  SnlClean = TRUE
  KeepDead = FALSE
  Miu <- MiuAB
  Lens = {1}
  InsertLast = FALSE
  HdrInMiu = FALSE
CHECK_DEADLOCK FALSE
INVARIANT AddrPoolConserved
INVARIANT NoDoubleAlloc
PROPERTY NeverDynRefilled
