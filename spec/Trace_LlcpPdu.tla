--------------------------- MODULE Trace_LlcpPdu ---------------------------
(* Binding of LlcpPdu to nfcpy's codec (src/nfc/llcp/pdu.py): every line of the trace file is one
   CASE executed on the real code, judged here as one TLC state (variables tid, l as in every Trace_X).

   case record (uniform; produced by bind/c11_cases.py):
     id   string
     k    "pdu"   : a PDU object built from the field record f, then encode / len / decode
          "bytes" : the byte string b given to pdu.decode, then encode / len / decode of the result
     b    input octets (k = "bytes"; <<>> otherwise)
     out  outcome of pdu.decode(b): "ok" | "DecodeError" | "Other:<exception type>"   ("ok" for k = "pdu")
     f    fields of the decoded (k = "bytes") or constructed (k = "pdu") PDU, [t |-> "ERR"] if none
     re   outcome of pdu.encode / len() of that PDU: "ok" | "EncodeError" | "Other:<type>" | "-"
     enc  its encoding by nfcpy, len its len()
     ro   outcome of pdu.decode(enc), f2 the fields of the result

   One TLC state per case (tid = index into the batch; l is always 1).  Judge(c) looks for the action of the
   specification that matches what nfcpy did (field `act` of the verdict):
     DecodeFails   k = "bytes", out = "DecodeError", the reference reading of b is ERR
     DecodeYields  k = "bytes", out = "ok",          the reference reading of b is the PDU f
     Construct     k = "pdu"
   and then evaluates the property's clauses as post-conditions on the PDU f of that step:
     RoundTrip   pdu.decode(pdu.encode(f)) succeeds and has the fields Norm(f)
     Encoding    enc = Encode(f)   (and Decode(enc) = Norm(f): the MC theorem re-checked at real scale, SpecRoundTrip)
     Length      len = DeclLen(f) = Len(enc)
     OwnSlice    (DecodeYields only) the outcome must be the reading that takes every aggregated PDU from its
                 own slice; an outcome that equals DecodeLoose(b) but not Decode(b) fails this one.
   An outcome "Other:<type>" (IndexError, struct.error, RecursionError, ...) has no action: the case is rejected
   with <<"no-action", "decode", "Other:<type>", spec branch>>.  Rejections print <<"STUCK", id, 1, act, why, class>>,
   everything else <<"ACCEPT", id, class>>; class = (kind, reading that matched, Branch of the reference reading)
   is what the evidence counts as distinct_nontrivial.
   Two readings are accepted for frames with an AGF inside an AGF (LlcpPdu D9): Decode (nesting allowed, pdu.py
   before commit bdd1fd6) and DecodeNoNest (ERR, pdu.py since); a constructed PDU that nests AGFs owes its
   encoding and length but no round trip under the second reading.                                          *)
EXTENDS LlcpPdu, Json, IOUtils, TLC, TLCExt

VARIABLES tid, l
tvars == <<tid, l>>

Traces == ndJsonDeserialize(IOEnv.TRACE_FILE)

IntFields == {"dsap", "ssap", "miu", "rw", "ver", "miux", "wks", "lto", "opt", "reason", "flags", "ptype",
              "ns", "nr", "vs", "vr", "vsa", "vra"}
(* first difference of two PDU values: <<>> if equal, else the path: type names of the enclosing AGFs, then
   <<type, field, left, right>> (values only for integer fields) *)
RECURSIVE Diff(_, _)
Diff(a, b) ==
  IF a = b THEN <<>>
  ELSE IF a.t # b.t THEN <<"type", a.t, b.t>>
  ELSE IF a.t = "ERR" THEN <<"ERR">>
  ELSE IF a.t = "AGF" THEN
         IF Len(a.agg) # Len(b.agg) THEN <<"AGF", "count", Len(a.agg), Len(b.agg)>>
         ELSE LET k == CHOOSE i \in DOMAIN a.agg : a.agg[i] # b.agg[i] /\ \A j \in 1..(i - 1) : a.agg[j] = b.agg[j]
              IN <<"AGF">> \o Diff(a.agg[k], b.agg[k])
  ELSE LET fs == {g \in DOMAIN a : a[g] # b[g]}
           g == CHOOSE h \in fs : TRUE
       IN IF g \in IntFields THEN <<a.t, g, a[g], b[g]>> ELSE <<a.t, g>>

Ok(act, cls)        == [ok |-> TRUE, act |-> act, why |-> <<>>, cls |-> cls]
Rej(act, why, cls)  == [ok |-> FALSE, act |-> act, why |-> why, cls |-> cls]

(* post-conditions on the PDU c.f ; rd = which reading matched *)
Post(c, act, rd, br) ==
  LET f   == Norm(c.f)
      cls == <<c.k, rd>> \o br
  IN IF c.re # "ok" THEN Rej(act, <<"no-action", "encode", c.re>>, cls)
     ELSE IF c.ro = "DecodeError" /\ IsErr(DecodeNoNest(c.enc)) /\ ~IsErr(Decode(c.enc)) THEN
            \* D9: the PDU holds an AGF inside an AGF, which the strict reading does not count as a valid PDU:
            \* no round trip is owed; its encoding and length still are
            \* (the round trip through the reference decoder, which accepts nesting, names a lost field)
            (IF Norm(Decode(c.enc)) # f THEN Rej(act, <<"inv", "RoundTrip", Diff(f, Norm(Decode(c.enc)))>>, cls)
             ELSE IF c.enc # Encode(c.f) THEN Rej(act, <<"inv", "Encoding", <<c.f.t, "nested">>>>, cls)
             ELSE IF c.len # DeclLen(c.f) \/ c.len # Len(c.enc) THEN Rej(act, <<"inv", "Length", <<c.f.t, "nested">>>>, cls)
             ELSE Ok(act, <<c.k, "nonest-encode-only">> \o br))
     ELSE IF c.ro # "ok" THEN Rej(act, <<"inv", "RoundTrip", <<c.f.t, "re-decode", c.ro>>>>, cls)
     ELSE IF Norm(c.f2) # f THEN Rej(act, <<"inv", "RoundTrip", Diff(f, Norm(c.f2))>>, cls)
     ELSE IF c.enc # Encode(c.f) THEN
            LET d2 == Decode(c.enc)
            IN Rej(act, <<"inv", "Encoding", IF IsErr(d2) THEN <<c.f.t, "undecodable">> ELSE Diff(f, Norm(d2))>>, cls)
     ELSE IF Decode(c.enc) # f THEN Rej(act, <<"inv", "SpecRoundTrip", <<c.f.t>>>>, cls)
     ELSE IF c.len # DeclLen(c.f) \/ c.len # Len(c.enc) THEN
            Rej(act, <<"inv", "Length", <<c.f.t, c.len, DeclLen(c.f), Len(c.enc)>>>>, cls)
     ELSE Ok(act, cls)

(* aggregates nested deeper than 100 levels cannot be passed as JSON (nesting limit of the Json module): the case
   then has f = f2 = [t |-> "DEEP"] and carries enc2 = pdu.encode(pdu.decode(enc)); the fields are compared
   through their encodings (Encode is injective on normalised values: theorem RoundTrip) *)
PostDeep(c, act, rd, br, r) ==
  LET cls == <<c.k, rd, "deep">> \o br
  IN IF c.re # "ok" THEN Rej(act, <<"no-action", "encode", c.re>>, cls)
     ELSE IF c.enc # Encode(r) THEN Rej(act, <<"inv", "Encoding", <<"AGF", "deep">>>>, cls)
     ELSE IF c.ro # "ok" THEN Rej(act, <<"inv", "RoundTrip", <<"AGF", "deep", "re-decode", c.ro>>>>, cls)
     ELSE IF c.enc2 # c.enc THEN Rej(act, <<"inv", "RoundTrip", <<"AGF", "deep", "re-encoding">>>>, cls)
     ELSE IF Decode(c.enc) # Norm(r) THEN Rej(act, <<"inv", "SpecRoundTrip", <<"AGF", "deep">>>>, cls)
     ELSE IF c.len # DeclLen(r) \/ c.len # Len(c.enc) THEN
            Rej(act, <<"inv", "Length", <<"AGF", "deep", c.len, DeclLen(r), Len(c.enc)>>>>, cls)
     ELSE Ok(act, cls)

Same(out, f, r) == IF out = "ok" THEN ~IsErr(r) /\ Norm(f) = Norm(r) ELSE IsErr(r)

Judge(c) ==
  IF c.k = "pdu" THEN Post(c, "Construct", "given", <<c.f.t>>)
  ELSE
  LET dd  == Decode(c.b)
      br  == Branch(dd)
      act == IF c.out = "ok" THEN "DecodeYields" ELSE "DecodeFails"
  IN IF c.out = "ok" /\ c.f.t = "DEEP" THEN
        (IF ~IsErr(dd) THEN PostDeep(c, act, "strict", br, dd)
         ELSE LET ld == DecodeLoose(c.b)
              IN IF ~IsErr(ld) /\ c.enc = Encode(ld) THEN Rej(act, <<"inv", "OwnSlice", dd.why>>, <<c.k, "loose", "deep">> \o br)
                 ELSE Rej(act, <<"result", br, <<c.out, "deep">>>>, <<c.k, "mismatch", "deep">> \o br))
     ELSE IF c.out \notin {"ok", "DecodeError"} THEN Rej("-", <<"no-action", "decode", c.out, br>>, <<c.k, "other">> \o br)
     ELSE IF Same(c.out, c.f, dd) THEN
            (IF c.out = "ok" THEN Post(c, act, "strict", br) ELSE Ok(act, <<c.k, "strict">> \o br))
     ELSE IF Same(c.out, c.f, DecodeNoNest(c.b)) THEN
            (IF c.out = "ok" THEN Post(c, act, "nonest", br) ELSE Ok(act, <<c.k, "nonest">> \o br))
     ELSE IF Same(c.out, c.f, DecodeLoose(c.b)) THEN
            Rej(act, <<"inv", "OwnSlice", dd.why>>, <<c.k, "loose">> \o br)
     ELSE Rej(act, <<"result", br, IF c.out = "ok" /\ ~IsErr(dd) THEN Diff(Norm(dd), Norm(c.f)) ELSE <<c.out>>>>,
              <<c.k, "mismatch">> \o br)

(* One TLC state per case: the judgement is a state predicate (CONSTRAINT Verdict in the cfg) that TLC evaluates
   exactly once per initial state; there are no transitions. *)
TInit == tid \in 1..Len(Traces) /\ l = 1
TNext == l = 0 /\ UNCHANGED tvars          \* never enabled: a case is one state
TSpec == TInit /\ [][TNext]_tvars

Verdict ==
  LET c == Traces[tid]
      j == Judge(c)
  IN IF j.ok THEN PrintT(<<"ACCEPT", c.id, j.cls>>)
     ELSE PrintT(<<"STUCK", c.id, 1, j.act, j.why, j.cls>>)
=============================================================================
