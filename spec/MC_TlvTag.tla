----------------------------- MODULE MC_TlvTag -----------------------------
(* Scaled layouts for the exhaustive runs of TlvTag (LongLen = 5): every NULL padding 0..3 (so that the
   NDEF TLV offset takes every residue mod the write unit), 0..2 control TLVs with reserved ranges
   before / inside / directly after / beyond the message and beyond the data area, old message
   lengths on both sides of LongLen. *)
EXTENDS TlvTag

CONSTANTS Kinds,       \* subset of {"T2", "T1S", "T1D", "T512"}
          Sizes,       \* T2: CC byte 2 values (data area = 8 * value)
          Pads,        \* numbers of NULL TLVs in front
          Props,       \* T1D: lengths of a proprietary TLV in front (0 = none)
          CtlFroms,    \* first addresses of reserved ranges, relative to the NDEF TLV offset
          MemSizes,    \* memory control TLV size fields (bytes; 0 encodes 256)
          LockBits,    \* lock control TLV size fields (lock BITS, also not multiples of 8; 0 encodes 256)
          CtlTypes,    \* subset of {1, 2}: lock control / memory control
          TwoCtl,      \* BOOLEAN: additionally a lock control TLV for two bytes right after the data area
          OldLens

LenField(n) == IF n >= LongLen THEN <<255, n \div 256, n % 256>> ELSE <<n>>
\* a control TLV descriptor c = [t, from, sz]: sz is the raw size field.  The position is encoded with one of the
\* BytesPerPage exponents that can express `from` (chosen by from + sz, so that all encodings occur), the upper
\* nibble of the third value byte (BytesLockedPerLockBit / RFU) takes arbitrary values.
NBytes(c) == LET n0 == IF c.sz = 0 THEN 256 ELSE c.sz IN IF c.t = 1 THEN (n0 + 7) \div 8 ELSE n0
\* the whole encoding space of the position byte: every <<e, pa>> with pa * 2^e + bo = from, pa and bo in 0..15,
\* e in 0..5 - including bo >= 2^e (non-canonical encodings of the same address)
Encs(from) == SelectSeq([i \in 1..96 |-> <<(i - 1) \div 16, (i - 1) % 16>>],
                        LAMBDA x : from >= x[2] * Pow2(x[1]) /\ from - x[2] * Pow2(x[1]) <= 15)
EncOf(c) == LET es == Encs(c.from) IN es[((c.from * 3 + c.sz * 5) % Len(es)) + 1]
CtlTlv(c) == LET e == EncOf(c)[1]  pa == EncOf(c)[2] IN
    <<c.t, 3, pa * 16 + (c.from - pa * Pow2(e)), c.sz, ((c.from * 5 + c.sz) % 16) * 16 + e>>
CtlSet(cs) == UNION {(cs[i].from) .. (cs[i].from + NBytes(cs[i]) - 1) : i \in DOMAIN cs}
LockSet(cs) == UNION {IF cs[i].t = 1 THEN (cs[i].from) .. (cs[i].from + NBytes(cs[i]) - 1) ELSE {} : i \in DOMAIN cs}
Stream(pad, prop, cs, oldn) ==
    [i \in 1..pad |-> 0] \o (IF prop > 0 THEN <<253, prop>> \o [i \in 1..prop |-> 17] ELSE <<>>)
    \o FlattenSeq([i \in DOMAIN cs |-> CtlTlv(cs[i])]) \o <<3>> \o LenField(oldn) \o OldMsg(oldn) \o <<254>>
\* offset of the NDEF TLV when nothing in front of it is reserved
Off0(ds, pad, prop, cs) == ds + pad + (IF prop > 0 THEN prop + 2 ELSE 0) + 5 * Len(cs)

MkT2(sz, pad, cs, oldn) ==
    LET end == 16 + sz * 8
        size == end + 8
        S == CtlSet(cs)
        base == [i \in 1..size |-> LET a == i - 1 IN
                   IF a < 10 THEN a + 1 ELSE IF a < 12 THEN 0 ELSE IF a = 12 THEN 225 ELSE IF a = 13 THEN 16
                   ELSE IF a = 14 THEN sz ELSE IF a = 15 THEN 0 ELSE IF a \in S THEN 238
                   ELSE IF a < end THEN 85 ELSE 0]
    IN Derive([kind |-> "T2", unit |-> 4, mem0 |-> PlaceData(base, 16, S, Stream(pad, 0, cs, oldn)).c,
               ro |-> 0..9, ow |-> (10..15) \cup LockSet(cs) \cup {end, end + 1}, fmt |-> "T2"])

MkT1(dyn, sz, pad, prop, cs, oldn) ==
    LET end == (sz + 1) * 8
        S == CtlSet(cs) \cup (104 .. (IF end = 120 THEN 119 ELSE 127))
        base == [i \in 1..end |-> LET a == i - 1 IN
                   IF a < 8 THEN a + 1 ELSE IF a = 8 THEN 225 ELSE IF a = 9 THEN 16 ELSE IF a = 10 THEN sz
                   ELSE IF a = 11 THEN 0 ELSE IF a \in 104..127 THEN 0 ELSE IF a \in S THEN 238 ELSE 85]
    IN Derive([kind |-> IF dyn THEN "T1D" ELSE "T1S", unit |-> IF dyn THEN 8 ELSE 1,
               mem0 |-> PlaceData(base, 12, S, Stream(pad, prop, cs, oldn)).c,
               ro |-> (0..7) \cup (104..111), ow |-> (112 .. (IF dyn THEN 127 ELSE 119)) \cup LockSet(cs),
               fmt |-> IF ~dyn /\ pad = 0 /\ prop = 0 /\ cs = <<>> THEN "Topaz" ELSE "none"])

\* the canonical Topaz-512 image (what Topaz512._format creates) with an old message
MkT512(oldn) ==
    LET base == [i \in 1..512 |-> IF i <= 8 THEN i ELSE 0]
        img == Overlay(base, 8, SubSeq(Topaz512Hdr, 1, 14) \o <<3>> \o LenField(oldn))
    IN Derive([kind |-> "T1D", unit |-> 8,
               mem0 |-> PlaceData(img, 23 + Len(LenField(oldn)), 104..127, OldMsg(oldn) \o <<254>>).c,
               ro |-> (0..7) \cup (104..111), ow |-> 112..127, fmt |-> "Topaz512"])

CtlChoices(ds, pad, prop, end) ==
    {<<>>} \cup
    (IF 2 \in CtlTypes THEN {<<[t |-> 2, from |-> Off0(ds, pad, prop, <<1>>) + f, sz |-> n]>> : f \in CtlFroms, n \in MemSizes}
     ELSE {})
    \cup (IF 1 \in CtlTypes THEN {<<[t |-> 1, from |-> Off0(ds, pad, prop, <<1>>) + f, sz |-> n]>> : f \in CtlFroms, n \in LockBits}
          ELSE {})
    \cup (IF TwoCtl THEN
          {<<[t |-> 1, from |-> end, sz |-> 12], [t |-> 2, from |-> Off0(ds, pad, prop, <<1, 2>>) + f, sz |-> n]>> :
               f \in CtlFroms, n \in MemSizes \ {0}}
          ELSE {})

Good(L, oldn) == WellFormed(L) /\ L.old = Ndef(OldMsg(oldn))

T2Layouts == {L \in UNION {{MkT2(sz, pad, cs, o) : cs \in CtlChoices(16, pad, 0, 16 + sz * 8)} :
                           sz \in Sizes, pad \in Pads, o \in OldLens} :
              \E o \in OldLens : Good(L, o)}
T1SLayouts == {L \in UNION {{MkT1(FALSE, 14, pad, 0, cs, o) : cs \in CtlChoices(12, pad, 0, 120)} :
                            pad \in Pads, o \in OldLens} :
               \E o \in OldLens : Good(L, o)}
T1DLayouts == {L \in UNION {{MkT1(TRUE, 19, pad, prop, cs, o) : cs \in CtlChoices(12, pad, prop, 160)} :
                            pad \in Pads, prop \in Props, o \in OldLens} :
               \E o \in OldLens : Good(L, o)}
T512Layouts == {L \in {MkT512(o) : o \in OldLens} : \E o \in OldLens : Good(L, o)}

MCLayouts == (IF "T2" \in Kinds THEN T2Layouts ELSE {}) \cup (IF "T1S" \in Kinds THEN T1SLayouts ELSE {})
             \cup (IF "T1D" \in Kinds THEN T1DLayouts ELSE {}) \cup (IF "T512" \in Kinds THEN T512Layouts ELSE {})

\* ---------------------------------------------------------------- reachability witnesses (must be violated)
W_DoneLong   == ~(pc = "done" /\ op = "write" /\ Len(msg) >= LongLen)
W_DoneCap    == ~(pc = "done" /\ op = "write" /\ Len(msg) = CodeCap(lay))
W_Rejected   == ~(pc = "rejected")
W_Crash      == ~(pc = "crashed")
W_CutNew     == ~(pc = "cut" /\ op = "write" /\ msg # <<>> /\ RefRead(lay, mem) = Ndef(msg))
W_CutOld     == ~(pc = "cut" /\ op = "write" /\ lay.old # Empty /\ RefRead(lay, mem) = lay.old)
W_CutEmpty   == ~(pc = "cut" /\ op = "write" /\ k > 0 /\ lay.old # Empty /\ RefRead(lay, mem) = Empty)
W_Straddle   == ~(pc = "done" /\ op = "write" /\ Len(msg) >= LongLen /\ Straddle(lay))
W_Mixture    == Atomic
W_SkipInside == ~(pc = "done" /\ op = "write" /\ \E a \in lay.skip : a > lay.off /\ a < lay.off + Len(msg))
W_SkipAfter  == ~(pc = "done" /\ op = "write" /\ msg # <<>> /\ Len(msg) < LongLen
                  /\ \E a \in lay.skip : a < End(lay, mem) /\ Byte(mem, a - 1) = msg[Len(msg)])
W_SkipBeyond == ~(pc = "done" /\ \E a \in lay.skip : a >= End(lay, mem))
\* a lock control TLV whose bit count does not fill its last byte, that byte lying inside the written value
W_OddLock    == ~(pc = "done" /\ op = "write" /\ Len(msg) > 2 /\
                  \E a \in lay.skip : /\ a > lay.off + 2 /\ a < lay.off + Len(msg) /\ a + 1 \notin lay.skip
                                       /\ \E b \in DataStart(lay) .. (lay.off - 5) :
                                            /\ Byte(lay.mem0, b) = 1 /\ Byte(lay.mem0, b + 1) = 3
                                            /\ Byte(lay.mem0, b + 3) % 8 # 0)
\* a memory control TLV with size field 0 (256 bytes)
W_Mem256     == ~(pc = "done" /\ \E b \in DataStart(lay) .. (lay.off - 5) :
                        Byte(lay.mem0, b) = 2 /\ Byte(lay.mem0, b + 1) = 3 /\ Byte(lay.mem0, b + 3) = 0)
\* every BytesPerPage exponent 2..4 occurs in some control TLV
W_Exp(e)     == ~(pc = "done" /\ \E b \in DataStart(lay) .. (lay.off - 5) :
                        Byte(lay.mem0, b) \in {1, 2} /\ Byte(lay.mem0, b + 1) = 3 /\ Byte(lay.mem0, b + 4) % 16 = e)
\* a control TLV whose ByteOffset is >= its page size and shares a bit with the shifted PageAddr
W_NonCanon   == ~(pc = "done" /\ \E b \in DataStart(lay) .. (lay.off - 5) :
                    /\ Byte(lay.mem0, b) \in {1, 2} /\ Byte(lay.mem0, b + 1) = 3
                    /\ LET pos == Byte(lay.mem0, b + 2)  e == Byte(lay.mem0, b + 4) % 16 IN
                       /\ pos % 16 >= Pow2(e) /\ pos \div 16 > 0
                       /\ (((pos \div 16) * Pow2(e)) & (pos % 16)) # 0)
W_Exp2 == W_Exp(2)
W_Exp3 == W_Exp(3)
W_Exp4 == W_Exp(4)
\* usable TLV space right above the point where the 3-byte length format starts to pay off, written to capacity
W_RoomEdge   == ~(pc = "done" /\ op = "write" /\ lay.room \in {LongLen + 2, LongLen + 3} /\ Len(msg) = CodeCap(lay))
\* the fault / retry dimension and sector selects
W_SelDone    == ~(pc = "done" /\ op = "write" /\ \E p \in plans : \E i \in DOMAIN p.cmds : p.cmds[i].s = 1 /\ p.cmds[i].ph = 3)
W_RetryDone  == ~(pc = "done" /\ rd.tries = 1 /\ op = "write" /\ Len(msg) >= LongLen)
W_RetryCut   == ~(pc = "cut" /\ rd.tries = 1 /\ k > 0)
W_FaultSel   == ~(pc = "failed" /\ \E p \in plans : p.cmds[k + 1].s = 1)
W_FaultLen0  == ~(pc = "failed" /\ k = 0 /\ lay.old # Empty /\ op = "write")
\* read -> format(wipe) -> write on one tag object, completed; a write that starts with the tag left in sector 1
W_SessionDone == ~(pc = "done" /\ op = "write" /\ rd.tries = 1 /\ rd.nf = 0 /\ msg # <<>>)
W_InSector1   == ~(pc = "done" /\ op = "write" /\ rd.tries = 0 /\ FreshReader(lay, lay.mem0).rsec > 0)
W_FormatWipe == ~(pc = "done" /\ op = "format" /\ msg[1] < 256)
W_Escape     == Confined
W_NLayouts   == Cardinality(Layouts) < 0
=============================================================================
