------------------------------ MODULE VendorFmt ------------------------------
(* C03 (vendor classes) -- what format() and protect() of FelicaLite / FelicaLiteS (src/nfc/tag/tt3_sony.py) and of
   Topaz / Topaz512 (src/nfc/tag/tt1_broadcom.py, Type1Tag._protect) write, in which order, and what the tag is
   afterwards.  One action per state-changing command (a 16 byte block write of a FeliCa Lite is atomic; a Topaz
   byte / block write too); power may drop between any two of them.

   FeliCa Lite memory configuration block (MC, 88h): MC_SP bytes 0-1 (bit b = 1: user block b is writable; bit NB
   is the REG block), MC_ALL byte 2 (FFh: the system blocks ID, SER_C, SYS_C, CKV, CK and MC itself are
   writable), byte 3 bit 0 (NDEF system code 12FCh), Lite-S: byte 5 (CK/CKV may be changed with MAC), bytes 6-7
   (read needs external authentication), 8-9 (write needs external authentication), 10-11 (write needs MAC).
   All of these are one-way on the card: a cleared MC_SP / MC_ALL bit stays cleared, a set restriction stays.
   Topaz: CC byte 3 (address 11), lock bytes 112/113 (and 120/121 on a Topaz-512) are written with WRITE-NE
   (bits are only ever set); lock bit i of byte 112 freezes block i - block 1 holds the CC.

   Block numbers are scaled: user blocks 0..NB-1 (0 = attribute block), REG = NB; the real card has NB = 14. *)
EXTENDS Naturals, Sequences, FiniteSets, TLC

CONSTANTS Kinds,         \* subset of {"lite", "lites", "topaz", "topaz512"}
          NB,            \* number of user blocks (attribute block included)
          KeyNames,      \* card keys; "k0" = factory
          PFs,           \* protect_from arguments
          MaxOps, MaxCut, InitRW

Felica(k) == k \in {"lite", "lites"}
User    == 0..(NB - 1)
Mask(pf) == {b \in User : b >= pf}                        \* 2**14 - 2**protect_from
\* Nmaxb as FelicaLite._format counts it: the writable blocks that follow block 0 without a gap   (tt3_sony.py:665-668)
Run(rw, n) == \A b \in 1..n : b \in rw
Nmaxb(rw) == CHOOSE n \in 0..(NB - 1) : Run(rw, n) /\ (n = NB - 1 \/ (n + 1) \notin rw)

VARIABLES tag, pc, op, last, nops, ncut, wlog
vars == <<tag, pc, op, last, nops, ncut, wlog>>

NoAttr == [v |-> "none", n |-> 0, rwf |-> TRUE, ver |-> 16]
LiteInit(kind, rw, sys, nd, attr, ck) ==
    [kind |-> kind, rw |-> rw, sys |-> sys, nd |-> nd, attr |-> attr, wiped |-> {}, ck |-> ck, ckv |-> 0,
     rdm |-> {}, wrm |-> {}, wam |-> {}, kc |-> FALSE, mcx |-> "m0", on |-> TRUE, ext |-> FALSE, rauth |-> FALSE,
     cc |-> "none", ccro |-> FALSE, lock |-> {}, other |-> "orig"]
\* Topaz: cc = "none" | "ok" (NDEF CC with major version 1 and an NDEF TLV behind it), ccro: CC byte 3 low nibble = Fh,
\* lock: the lock bytes that read FFh, other: everything format() / protect() must leave alone
TopazInit(kind, cc, ccro, lock) ==
    [kind |-> kind, rw |-> {}, sys |-> TRUE, nd |-> FALSE, attr |-> NoAttr, wiped |-> {}, ck |-> "k0", ckv |-> 0,
     rdm |-> {}, wrm |-> {}, wam |-> {}, kc |-> FALSE, mcx |-> "m0", on |-> TRUE, ext |-> FALSE, rauth |-> FALSE,
     cc |-> cc, ccro |-> ccro, lock |-> lock, other |-> "orig"]
NoOp == [name |-> "none", pw |-> "none", rp |-> FALSE, pf |-> 0, ver |-> 16, wipe |-> FALSE, i |-> 0, n |-> 0,
         rw0 |-> {}, sys0 |-> TRUE, ck0 |-> "k0", attr0 |-> NoAttr, wiped0 |-> {}, rdm0 |-> {}]
NoLast == [op |-> "none", res |-> "-", off |-> FALSE, short |-> FALSE]

InitWith(t) == tag = t /\ pc = "idle" /\ op = NoOp /\ last = NoLast /\ nops = 0 /\ ncut = 0 /\ wlog = <<>>
Init == \E kind \in Kinds :
          IF Felica(kind)
          THEN \E rw \in InitRW, sys \in BOOLEAN, nd \in BOOLEAN, a \in {"none", "rw", "ro"}, ck \in KeyNames :
                 InitWith(LiteInit(kind, rw, sys, nd,
                                   IF a = "none" THEN NoAttr ELSE [v |-> "ok", n |-> Nmaxb(rw), rwf |-> a = "rw", ver |-> 16], ck))
          ELSE \E cc \in {"none", "ok"}, ro \in BOOLEAN, lk \in {{}, {"l0", "l1"}} :
                 (ro => cc = "ok") /\ (lk # {} => ro) /\ InitWith(TopazInit(kind, cc, ro, lk))

\* ---- the card ---------------------------------------------------------------------------------------------
\* plain (Write Without Encryption, no MAC) write access to a block class
WriteOk(t, c) ==
    /\ t.on
    /\ CASE c = "b0" -> 0 \in t.rw /\ 0 \notin t.wam /\ (0 \in t.wrm => t.ext)
         [] c \in {"mc", "ck", "ckv"} -> t.sys
         [] c = "cc3" -> "l0" \notin t.lock                      \* lock bit 1 of byte 112 freezes block 1 (the CC)
         [] c \in {"l0", "l1", "l2", "l3"} -> TRUE                 \* OR-written, never refused
         [] c = "ccblk" -> "l0" \notin t.lock
         [] OTHER -> FALSE
UserWriteOk(t, b) == t.on /\ b \in t.rw /\ b \notin t.wam /\ (b \in t.wrm => t.ext)
Store(t, c, v) ==
    CASE c = "b0"  -> [t EXCEPT !.attr = v]
      [] c = "ck"  -> [t EXCEPT !.ck = v.k]
      [] c = "ckv" -> [t EXCEPT !.ckv = v.v]
      [] c = "mc"  -> [t EXCEPT !.rw = @ \cap v.rw, !.sys = @ /\ v.sys, !.nd = v.nd, !.rdm = @ \cup v.rdm,
                               !.wrm = @ \cup v.wrm, !.wam = @ \cup v.wam, !.kc = v.kc, !.mcx = IF v.same THEN @ ELSE "mX"]
      [] c = "cc3" -> [t EXCEPT !.ccro = TRUE]
      [] c = "ccblk" -> [t EXCEPT !.cc = "ok", !.ccro = FALSE, !.attr = [NoAttr EXCEPT !.ver = v.ver]]
      [] OTHER     -> [t EXCEPT !.lock = @ \cup {c}]
McNow(t) == [rw |-> t.rw, sys |-> t.sys, nd |-> t.nd, rdm |-> t.rdm, wrm |-> t.wrm, wam |-> t.wam, kc |-> t.kc, same |-> TRUE]
\* what Type3Tag.NDEF makes of the attribute block: tag.ndef is not None
HasNdef(t) == t.on /\ t.nd /\ t.attr.v = "ok"

\* ---- control -----------------------------------------------------------------------------------------------
Finish(res) == /\ pc' = "idle" /\ nops' = nops + 1 /\ last' = [op |-> op.name, res |-> res, off |-> ~tag'.on, short |-> op.pw = "short"]
Goto(p) == pc' = p /\ UNCHANGED <<last, nops>>
Idle == pc = "idle" /\ nops < MaxOps /\ tag.on
Snap(o) == [o EXCEPT !.rw0 = tag.rw, !.sys0 = tag.sys, !.ck0 = tag.ck, !.attr0 = tag.attr, !.wiped0 = tag.wiped, !.rdm0 = tag.rdm]
FinishO(o, res) == /\ pc' = "idle" /\ nops' = nops + 1 /\ last' = [op |-> o.name, res |-> res, off |-> FALSE, short |-> o.pw = "short"]

\* ---- FelicaLite._format(version, wipe)                                                   (tt3_sony.py:638-684)
StartFormat(ver, wipe) ==
    /\ Idle /\ wlog' = <<>> /\ UNCHANGED <<tag, ncut>>
    /\ op' = Snap([NoOp EXCEPT !.name = "format", !.ver = ver, !.wipe = wipe])
    /\ IF Felica(tag.kind)
       THEN IF ver \div 16 # 1 THEN FinishO(op', "False")                               \* :642
            ELSE IF 0 \notin tag.rw THEN FinishO(op', "False")                           \* :650 (after READ MC)
            ELSE IF ~tag.nd /\ ~tag.sys THEN FinishO(op', "False")                       \* :659
            ELSE Goto(IF ~tag.nd THEN "ff_wmc" ELSE "ff_wa")
       ELSE IF ver \div 16 # 1 THEN FinishO(op', "False")                                \* tt1_broadcom.py:55-60
            ELSE Goto("tf_w")
\* ---- FelicaLite._protect / FelicaLiteS._protect(password, read_protect, protect_from)      (:521-562, :829-889)
StartProtect(pw, rp, pf) ==
    /\ Idle /\ Felica(tag.kind) /\ wlog' = <<>> /\ UNCHANGED <<tag, ncut>>
    /\ op' = Snap([NoOp EXCEPT !.name = "protect", !.pw = pw, !.rp = rp, !.pf = pf])
    /\ IF pw = "short" THEN FinishO(op', "ValueError")
       ELSE IF tag.kind = "lite"
            THEN IF rp THEN FinishO(op', "False")                                         \* :528 not supported
                 ELSE IF pw # "none" /\ ~tag.sys THEN FinishO(op', "False")               \* :537 (after READ MC)
                 ELSE Goto(IF pw # "none" THEN "fp_wck" ELSE IF pf = 0 /\ HasNdef(tag) THEN "fp_wa" ELSE "fp_wmc")
            ELSE IF pw # "none" /\ ~tag.sys /\ ~tag.kc THEN FinishO(op', "False")         \* :841-844
                 ELSE IF pw # "none" /\ ~tag.sys /\ ~tag.rauth THEN FinishO(op', "False")  \* :845 self._authenticated is False
                 \* (an authenticated owner gets past this point - and then writes CKV without MAC, which a card with
                 \*  frozen system blocks refuses: TagCommandError)
                 ELSE Goto(IF pw # "none" THEN "fs_wckv" ELSE IF pf = 0 /\ HasNdef(tag) THEN "fp_wa" ELSE "fp_wmc")
\* ---- Type1Tag._protect + Topaz._protect                                                    (tt1.py, tt1_broadcom.py:79-85, :142-151)
StartTProtect(pw) ==
    /\ Idle /\ ~Felica(tag.kind) /\ wlog' = <<>> /\ UNCHANGED <<tag, ncut>>
    /\ op' = Snap([NoOp EXCEPT !.name = "protect", !.pw = pw])
    /\ IF pw # "none" \/ tag.cc # "ok" THEN FinishO(op', "False") ELSE Goto("tp_cc")

AfterKey == IF op.pf = 0 /\ HasNdef(tag) THEN "fp_wa" ELSE "fp_wmc"
W(c, v, nx) == [c |-> c, v |-> v, nx |-> nx]
WriteAt(p) ==
    CASE p = "ff_wmc" -> W("mc", [McNow(tag) EXCEPT !.nd = TRUE], "ff_wa")                                         \* :656-657
      [] p = "ff_wa"  -> W("b0", [v |-> "ok", n |-> Nmaxb(tag.rw), rwf |-> TRUE, ver |-> op.ver],
                           IF op.wipe /\ Nmaxb(tag.rw) > 0 THEN "ff_wp" ELSE "done")                                 \* :672-676
      [] p = "fp_wck" -> W("ck", [k |-> op.pw], AfterKey)                                                            \* :545
      [] p = "fs_wckv" -> W("ckv", [v |-> tag.ckv + 1], "fs_wck")                                                     \* :856-859
      [] p = "fs_wck" -> W("ck", [k |-> op.pw], "fs_auth")                                                            \* :860
      [] p = "fp_wa"  -> W("b0", [tag.attr EXCEPT !.rwf = FALSE], "fp_wmc")                                           \* :551-555
      [] p = "fp_wmc" -> W("mc", IF tag.kind = "lite"
                                 THEN [McNow(tag) EXCEPT !.rw = IF op.pf < NB THEN {b \in User : b < op.pf} \cup {NB} ELSE @,
                                                         !.sys = FALSE]                                               \* :547-561
                                 ELSE [McNow(tag) EXCEPT !.sys = FALSE, !.kc = TRUE,
                                                         !.wrm = IF op.pf < NB THEN Mask(op.pf) ELSE @,
                                                         !.wam = IF op.pf < NB THEN Mask(op.pf) ELSE @,
                                                         !.rdm = IF op.pw # "none" /\ op.rp /\ op.pf < NB THEN Mask(op.pf) ELSE @],
                           "done")                                                                                    \* :866-888
      [] p = "tp_cc"  -> W("cc3", [ne |-> TRUE], "tp_l0")                                  \* write_byte(11, 0x0F, erase=False)
      [] p = "tp_l0"  -> W("l0", [ne |-> TRUE], "tp_l1")
      [] p = "tp_l1"  -> W("l1", [ne |-> TRUE], IF tag.kind = "topaz512" THEN "tp_l2" ELSE "done")
      [] p = "tp_l2"  -> W("l2", [ne |-> TRUE], "tp_l3")
      [] p = "tp_l3"  -> W("l3", [ne |-> TRUE], "done")
      [] OTHER        -> W("ccblk", [ver |-> op.ver], "done")                               \* tf_w: CC + empty NDEF TLV
WritePcs == {"ff_wmc", "ff_wa", "fp_wck", "fs_wckv", "fs_wck", "fp_wa", "fp_wmc", "tp_cc", "tp_l0", "tp_l1", "tp_l2", "tp_l3", "tf_w"}

\* a refused FeliCa write is a status error (TagCommandError); a Topaz has no NAK: a frozen byte just keeps its
\* value, Type1Tag.write_byte does not look at the answer and the procedure goes on
Write ==
    /\ pc \in WritePcs /\ UNCHANGED <<op, ncut>>
    /\ LET w == WriteAt(pc) IN
         IF WriteOk(tag, w.c)
         THEN /\ tag' = Store(tag, w.c, w.v) /\ wlog' = Append(wlog, w.c)
              /\ IF w.nx = "done" THEN Finish("True") ELSE Goto(w.nx)
         ELSE IF Felica(tag.kind) \/ ~tag.on \/ (tag.kind = "topaz512" /\ w.c = "ccblk")     \* write_block compares the echo
              THEN tag' = tag /\ wlog' = wlog /\ Finish("TagCommandError")
              ELSE /\ tag' = tag /\ wlog' = Append(wlog, w.c)
                   /\ IF w.nx = "done" THEN Finish("True") ELSE Goto(w.nx)
\* the wipe loop of format(): blocks 1 .. nmaxb                                               (:679-682)
Wipe ==
    /\ pc = "ff_wp" /\ UNCHANGED ncut
    /\ LET b == op.i + 1 IN
         IF UserWriteOk(tag, b)
         THEN /\ tag' = [tag EXCEPT !.wiped = @ \cup {b}] /\ wlog' = Append(wlog, "u")
              /\ op' = [op EXCEPT !.i = b]
              /\ IF b = tag.attr.n THEN Finish("True") ELSE Goto("ff_wp")
         ELSE tag' = tag /\ wlog' = wlog /\ op' = op /\ Finish("TagCommandError")
\* FelicaLiteS._protect: `if not self.authenticate(key): return False` (the authentication itself is C20's subject)
Auth(ok) ==
    /\ pc = "fs_auth" /\ UNCHANGED <<op, ncut, wlog>>
    /\ ok = tag.on /\ tag' = [tag EXCEPT !.ext = ok, !.rauth = ok]       \* rauth: the tag object's _authenticated
    /\ IF ok THEN Goto(AfterKey) ELSE Finish("TagCommandError")

Cut == /\ pc # "idle" /\ ncut < MaxCut /\ tag.on /\ tag' = [tag EXCEPT !.on = FALSE, !.ext = FALSE] /\ ncut' = ncut + 1
       /\ UNCHANGED <<pc, op, last, nops, wlog>>
PowerOn == /\ pc = "idle" /\ ~tag.on /\ tag' = [tag EXCEPT !.on = TRUE] /\ UNCHANGED <<pc, op, last, nops, ncut, wlog>>

Next == \/ \E ver \in {16, 17, 32}, wipe \in BOOLEAN : StartFormat(ver, wipe)
        \/ \E pw \in KeyNames \cup {"none", "short"}, rp \in BOOLEAN, pf \in PFs : StartProtect(pw, rp, pf)
        \/ \E pw \in {"none", "kA"} : StartTProtect(pw)
        \/ Write \/ Wipe \/ (\E ok \in BOOLEAN : Auth(ok)) \/ Cut \/ PowerOn
Spec == Init /\ [][Next]_vars

\* ---- properties ------------------------------------------------------------------------------------------------
IdleNow == pc = "idle" /\ last.op = op.name /\ ~last.off
ResultTypedP(l) == l.res \in {"True", "False", "TagCommandError", "ValueError", "-"} /\ (l.res = "ValueError" => l.short)
\* format() = True: an attribute block that announces exactly the writable blocks, NDEF system on, wiped what it says
FormatSoundP(l, o, t, idle) ==
    (idle /\ l.op = "format" /\ l.res = "True" /\ Felica(t.kind)) =>
        /\ t.nd /\ t.attr.v = "ok" /\ t.attr.rwf /\ t.attr.ver = o.ver /\ t.attr.n = Nmaxb(o.rw0)
        /\ \A b \in 1..t.attr.n : b \in o.rw0
        /\ t.wiped = o.wiped0 \cup (IF o.wipe THEN 1..t.attr.n ELSE {})
        /\ t.mcx = "m0" /\ t.rw = o.rw0 /\ t.sys = o.sys0 /\ t.ck = o.ck0
FormatFalseP(l, o, t, idle) == (idle /\ l.op = "format" /\ l.res = "False") =>
                                  (t.attr = o.attr0 /\ t.wiped = o.wiped0 /\ t.rw = o.rw0 /\ wlog = <<>>)
\* protect() = True: blocks from protect_from on can no longer be written plainly, the system blocks are frozen,
\* the card holds the key, nothing that was read-only became writable again
ProtectSoundP(l, o, t, idle) ==
    (idle /\ l.op = "protect" /\ l.res = "True" /\ Felica(t.kind)) =>
        /\ ~t.sys /\ (o.pw # "none" => t.ck = o.pw) /\ t.mcx = "m0"
        /\ \A b \in User : (b >= o.pf) => ~UserWriteOk(t, b)
        /\ (o.pf = 0 /\ o.attr0.v = "ok" /\ t.nd) => ~t.attr.rwf
        /\ (t.kind = "lites" => (t.kc /\ (IF o.pw # "none" /\ o.rp THEN Mask(o.pf) \subseteq t.rdm ELSE t.rdm = o.rdm0)))
        /\ (t.kind = "lite" => \A b \in User : (b < o.pf /\ b \in o.rw0) => b \in t.rw)
OneWayP(t, o) == t.rw \subseteq o.rw0 /\ (t.sys => o.sys0)
\* the system blocks are never frozen around a key nobody chose (MC is written last)
LockedKeyP(t, o) == (o.name = "protect" /\ o.pw \notin {"none", "short"} /\ o.sys0 /\ ~t.sys) => t.ck = o.pw
KeyKnownP(t, o) == t.ck \in {o.ck0, o.pw}
\* Topaz: protect() = True sets the CC read-only and every lock byte it names; nothing else ever changes
TopazSoundP(l, o, t, idle) ==
    (idle /\ l.op = "protect" /\ l.res = "True" /\ ~Felica(t.kind)) =>
        (t.ccro /\ {"l0", "l1"} \subseteq t.lock /\ (t.kind = "topaz512" => {"l2", "l3"} \subseteq t.lock))
Allowed(o, t) == CASE o.name = "format" /\ Felica(t.kind) -> {"mc", "b0"} \cup (IF o.wipe THEN {"u"} ELSE {})
                   [] o.name = "format" -> {"ccblk"}
                   [] o.name = "protect" /\ Felica(t.kind) -> {"mc", "b0", "ck", "ckv"}
                   [] o.name = "protect" -> {"cc3", "l0", "l1", "l2", "l3"}
                   [] OTHER -> {}
ConfinedP(w, o, t) == \A i \in DOMAIN w : w[i] \in Allowed(o, t)

ResultTyped  == ResultTypedP(last)
FormatSound  == FormatSoundP(last, op, tag, IdleNow)
FormatFalse  == FormatFalseP(last, op, tag, IdleNow)
ProtectSound == ProtectSoundP(last, op, tag, IdleNow)
OneWay       == op.name # "none" => OneWayP(tag, op)
LockedKey    == LockedKeyP(tag, op)
KeyKnown     == op.name # "none" => KeyKnownP(tag, op)
TopazSound   == TopazSoundP(last, op, tag, IdleNow)
Confined     == ConfinedP(wlog, op, tag)
TypeOK == pc \in WritePcs \cup {"idle", "ff_wp", "fs_auth"} /\ tag.rw \subseteq 0..NB
=============================================================================
