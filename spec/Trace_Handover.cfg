SPECIFICATION TSpec
CONSTANTS
  CMius = {128}
  SMius = {128}
  Lens = {1}
  RespLens = {1}
  MaxReq = 100000
CONSTRAINT Done
CHECK_DEADLOCK FALSE
