-------------------------- MODULE Trace_ClfConnect --------------------------
(* Trace validation for ClfConnect (C18): one trace = one real ContactlessFrontend.connect() call over the
   simulated device, configuration in `const` (must be a canonical configuration of the spec), events:
     Begin | Startup(o, r) | Term(v) | Sense(res) | Discover(o, v) | Connect(o, v) | Led(v) | Presence(v)
     | Release(o, v) | LlcAct(role, res) | Xchg(v) | RunEnd(res) | Listen(res) | Serve(v) | Return(res)
     | Cut (a call without terminate argument abandoned by the harness)
   Sense carries the driver's discovery attempts and the pauses between rounds, LlcAct what the peer was told.
   Every event carries the projected post-state (number of terminate() polls, number of callbacks, LED, the
   kind of clf.target, the device field),
   which must equal the spec's; the contract invariants are step post-conditions. *)
EXTENDS ClfConnect, Json, IOUtils, TLCExt

VARIABLES tid, l
tvars == <<cfg, pc, role, left, polls, envk, gone, found, cb, ret, led, err, termSeen, after, lateWork, tid, l>>

Traces == ndJsonDeserialize(IOEnv.TRACE_FILE)
T == Traces[tid].ev
C == Traces[tid].const

CfgOf(c) == [top |-> [o \in Opt |-> c.top[o]], giv |-> [o \in Opt |-> [n \in CbN |-> c.giv[o][n]]],
             su |-> [o \in Opt |-> c.su[o]], disc |-> [o \in Opt |-> c.disc[o]],
             conn |-> [o \in Opt |-> c.conn[o]], rel |-> [o \in Opt |-> c.rel[o]],
             beep |-> c.beep, role |-> c.role, sf |-> [tgt |-> c.sf.tgt, iter |-> c.sf.iter, ival |-> c.sf.ival],
             dep |-> [k \in DepKeys |-> c.dep[k]], env |-> c.env, k |-> c.k, termAt |-> c.termAt, noterm |-> c.noterm]

TInit ==
    /\ tid \in 1..Len(Traces)
    /\ l = 1
    /\ cfg = CfgOf(C)
    /\ pc = "start" /\ role = "" /\ left = {} /\ polls = 0 /\ envk = C.k /\ gone = FALSE /\ found = "none"
    /\ cb = <<>> /\ ret = "" /\ led = FALSE /\ err = FALSE /\ termSeen = FALSE /\ after = 0 /\ lateWork = FALSE

Ev == T[l]
IsEv == l <= Len(T) /\ l' = l + 1 /\ UNCHANGED tid

\* the configuration that was executed is one the specification quantifies over
CfgOk == /\ Canon(cfg) /\ cfg.env \in Envs /\ cfg.role \in RoleForms /\ cfg.beep \in BeepForms
         /\ \A o \in Opt : cfg.su[o] \in StartupRes /\ cfg.top[o] \in TopForms
         /\ cfg.sf.tgt \in TgtForms /\ cfg.sf.iter \in 0..9 /\ cfg.sf.ival \in -1..1000

B(v) == IF v THEN "T" ELSE "F"
NextIsRdwrConnect == l < Len(T) /\ T[l + 1].a = "Connect" /\ T[l + 1].o = "rdwr"
\* which spec action an event announces, with its arguments checked against the spec's prediction
Match ==
    CASE Ev.a = "Begin"    -> Begin
      [] Ev.a = "Startup"  -> Startup /\ Ev.o = role /\ Ev.r = cfg.su[role]
      [] Ev.a = "Term"     -> (Poll \/ PresPoll \/ RunPoll \/ ServePoll) /\ Ev.r = B(TermNow)
      [] Ev.a = "Sense"    -> RdwrSense /\ Ev.r = SenseRes
      \* a disturbed activation (env tagX) either yields a tag or not: what the real run did shows in its
      \* next event, which selects the branch of the model
      [] Ev.a = "Discover" -> (IF Ev.o = "rdwr"
                               THEN RdwrDiscoverP(cfg.env # "tagX" \/ ~cfg.disc["rdwr"] \/ found # "tag" \/ NextIsRdwrConnect)
                               ELSE Ev.o = "card" /\ CardDiscover)
                              /\ Ev.r = B(cfg.disc[Ev.o])
      [] Ev.a = "Connect"  -> (CASE Ev.o = "rdwr" -> RdwrConnect [] Ev.o = "llcp" -> LlcConnect
                                 [] Ev.o = "card" -> CardConnect [] OTHER -> FALSE)
                              /\ Ev.r = B(cfg.conn[Ev.o])
      [] Ev.a = "Led"      -> IF Ev.r = "T" THEN LedOn ELSE Ev.r = "F" /\ LedOff
      [] Ev.a = "Presence" -> Presence /\ Ev.r = B(envk > 0)
      [] Ev.a = "Release"  -> (CASE Ev.o = "rdwr" -> Release("rdwr", "rdwr_rel")
                                 [] Ev.o = "llcp" -> Release("llcp", "llcp_rel")
                                 [] Ev.o = "card" -> Release("card", "card_rel") [] OTHER -> FALSE)
                              /\ Ev.r = B(cfg.rel[Ev.o])
      [] Ev.a = "LlcAct"   -> LlcActivate /\ Ev.o = role
                              /\ Ev.r = (IF DeviceFails \/ (ListenFails /\ role = "target") THEN "error"
                                          ELSE IF ActOk THEN "ok" ELSE "no")
      [] Ev.a = "Xchg"     -> IF pc = "run_first" THEN RunFirst /\ Ev.r = "T" ELSE RunXchg /\ Ev.r = B(envk > 0)
      [] Ev.a = "RunEnd"   -> RunEnd /\ Ev.r = (IF termSeen THEN "local choice" ELSE "link disruption")
      [] Ev.a = "Listen"   -> CardListen /\ Ev.r = (IF ListenFails THEN "error"
                                                     ELSE IF cfg.env \in {"reader", "readerU"} /\ ~gone THEN "reader" ELSE "none")
      [] Ev.a = "Serve"    -> Serve /\ Ev.r = B(envk > 0)
      [] Ev.a = "Return"   -> Return /\ Ev.r = RetVal
      [] OTHER -> FALSE

\* (the configuration does not change: looked at with the first event, which is always Begin)
CfgOk1 == l > 1 \/ CfgOk
Guarded == IsEv /\ CfgOk1 /\ Match
\* callbacks whose key is not given are the built-in defaults: they happen, but no user code sees them
Vis(o, n) == cfg.giv[o][n]
VisLen(s) == Cardinality({i \in DOMAIN s : Vis(s[i].o, s[i].n)})
IsCbEv == Ev.a \in {"Startup", "Discover", "Connect", "Release"}
PostOk == /\ polls' = Ev.polls
          /\ VisLen(cb') = Ev.ncb
          /\ led' = Ev.led

InvNames == <<"Order", "ReleaseIff", "ReturnValue", "Prompt", "Led", "MuteWhenNone", "TargetFresh", "Pauses",
              "SenseLoop", "Announce">>
InvP(n) == CASE n = "Order" -> OrderP(cb')
             [] n = "ReleaseIff" -> ReleaseIffP(cb', pc' = "done")
             [] n = "ReturnValue" -> ReturnValueP(pc', ret', cb', left', err', termSeen')
             [] n = "Prompt" -> PromptP(after', lateWork')
             [] n = "Led" -> LedP(pc', led')
             [] n = "MuteWhenNone" -> ((Ev.a = "Sense" /\ Ev.r = "none") => ~Ev.field)   \* device field after sense()
             \* clf.target right after connect()'s own sense() / listen() call: what that call found, and None
             \* if it found nothing, also when it ended in an exception (never a target of an earlier call)
             [] n = "TargetFresh" ->
                   /\ (Ev.a = "Sense" => Ev.target = (IF Ev.r \in {"tag", "dep"} THEN "remote" ELSE "none"))
                   /\ (Ev.a = "Listen" => Ev.target = (IF Ev.r = "reader" THEN "local" ELSE "none"))
             [] n = "Pauses" -> Ev.minpause >= 0       \* no negative pause between sense rounds (time.sleep argument)
             \* 'targets' x 'iterations' x 'interval' (written or defaulted) as seen in the driver log of this attempt
             [] n = "SenseLoop" -> (Ev.a = "Sense" => SenseLoopP(Ev.att, Ev.pauses, Ev.cost))
             \* the link parameters (written or defaulted) as the simulated peer received them
             [] n = "Announce" -> (Ev.a = "LlcAct" => WireOkP(Ev.o, Ev.r, Ev.w))
AllInv == \A i \in DOMAIN InvNames : InvP(InvNames[i])

Real == Guarded /\ PostOk /\ AllInv

\* A default callback (its key is not given): a step of the model without an event of its own.  (A disturbed
\* activation - env tagX - is only run with on-discover and on-connect given: its outcome is told by the next event.)
\* Without a terminate argument the polls are steps without an event, too.
Silent ==
    /\ l <= Len(T) /\ UNCHANGED <<tid, l>> /\ CfgOk1
    /\ \/ pc = "startup" /\ ~Vis(role, "startup") /\ Startup
       \/ ~Vis("rdwr", "discover") /\ RdwrDiscoverP(TRUE)
       \/ ~Vis("rdwr", "connect") /\ RdwrConnect
       \/ ~Vis("rdwr", "release") /\ Release("rdwr", "rdwr_rel")
       \/ ~Vis("llcp", "connect") /\ LlcConnect
       \/ ~Vis("llcp", "release") /\ Release("llcp", "llcp_rel")
       \/ ~Vis("card", "discover") /\ CardDiscover
       \/ ~Vis("card", "connect") /\ CardConnect
       \/ ~Vis("card", "release") /\ Release("card", "card_rel")
       \/ cfg.noterm /\ (Poll \/ PresPoll \/ RunPoll \/ ServePoll)
    /\ OrderP(cb') /\ ReleaseIffP(cb', pc' = "done") /\ PromptP(after', lateWork') /\ LedP(pc', led')

FailedInv == SelectSeq(InvNames, LAMBDA n : ~ENABLED (Guarded /\ PostOk /\ InvP(n)))

\* When the real step is not the one the model takes, the contract is still evaluated on what was OBSERVED:
\* the callbacks validated so far (= cb) extended by the callback / return value this event reports.
LowN == CASE Ev.a = "Startup" -> "startup" [] Ev.a = "Discover" -> "discover" [] Ev.a = "Connect" -> "connect"
          [] Ev.a = "Release" -> "release" [] OTHER -> ""
ObsCb == IF IsCbEv THEN Append(cb, CbRec(LowN, Ev.o, IF Ev.a = "Startup" THEN Ev.r ELSE Ev.r = "T")) ELSE cb
ObsBroken ==
    SelectSeq(<<"Order", "ReleaseIff", "ReturnValue", "Prompt">>, LAMBDA n :
        CASE n = "Order" -> ~OrderP(ObsCb)
          [] n = "ReleaseIff" -> ~ReleaseIffP(ObsCb, Ev.a \in {"Return", "Raise"})
          [] n = "ReturnValue" -> \/ Ev.a = "Raise"
                                  \/ Ev.a = "Return" /\ ~ReturnValueP("done", Ev.r, cb, left, err \/ DeviceFails, termSeen)
          [] n = "Prompt" -> termSeen /\ Ev.a \in {"Discover", "Connect", "Presence", "Xchg", "Serve", "Startup"})
Why == IF ~CfgOk1 THEN <<"config", "not a canonical configuration">>
       ELSE IF ~ENABLED Guarded THEN
            IF ObsBroken # <<>> THEN <<"inv", ObsBroken, pc>>
            ELSE <<"guard", [pc |-> pc, role |-> role, polls |-> polls, envk |-> envk,
                             gone |-> gone, ncb |-> Len(cb), expectedRet |-> RetVal]>>
       ELSE IF ~ENABLED (Guarded /\ PostOk) THEN <<"post", [pc |-> pc, polls |-> polls, ncb |-> Len(cb), led |-> led]>>
       ELSE <<"inv", FailedInv>>

\* a call without terminate argument that would go on for ever was abandoned by the harness at a discovery attempt
CutStep ==
    /\ IsEv /\ CfgOk1 /\ Ev.a = "Cut" /\ cfg.noterm
    /\ pc \in {"rdwr_sense", "llcp_act", "card_listen"}
    /\ pc' = "cut"
    /\ UNCHANGED <<cfg, role, left, polls, envk, gone, found, cb, ret, led, err, termSeen, after, lateWork>>

Stuck ==
    /\ l <= Len(T)
    /\ ~ENABLED Real /\ ~ENABLED Silent /\ ~ENABLED CutStep
    /\ PrintT(<<"STUCK", Traces[tid].id, l, Ev.a, Why>>)
    /\ l' = Len(T) + 2
    /\ UNCHANGED <<cfg, pc, role, left, polls, envk, gone, found, cb, ret, led, err, termSeen, after, lateWork, tid>>

\* a real call that has returned must have reached the spec's final state
Complete == (l = Len(T) + 1) => pc \in {"done", "cut"}
Incomplete ==
    /\ l = Len(T) + 1 /\ pc \notin {"done", "cut"}
    /\ PrintT(<<"STUCK", Traces[tid].id, l, "end", <<"guard", [pc |-> pc, expected |-> "more events"]>>>>)
    /\ l' = Len(T) + 2
    /\ UNCHANGED <<cfg, pc, role, left, polls, envk, gone, found, cb, ret, led, err, termSeen, after, lateWork, tid>>

TNext == Real \/ Silent \/ CutStep \/ Stuck \/ Incomplete
TSpec == TInit /\ [][TNext]_tvars

Done == (l = Len(T) + 1 /\ pc \in {"done", "cut"}) => PrintT(<<"ACCEPT", Traces[tid].id>>)
=============================================================================
