SPECIFICATION Spec
CONSTANTS
  Sides = {"I", "T"}
  MaxAct = 2
PROPERTY AllReturn
CHECK_DEADLOCK FALSE
