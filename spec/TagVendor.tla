------------------------------ MODULE TagVendor ------------------------------
(* C20 / C03 (vendor classes) -- authentication, password / lock-bit protection and factory-default formatting
   of the NXP Type 2 products as src/nfc/tag/tt2_nxp.py implements them:

     MifareUltralightC   ("ulc")  3DES mutual authentication, key pages 2Ch..2Fh, AUTH0 / AUTH1, lock bytes 2-3
     NTAG21x             ("ntag") PWD_AUTH / PACK, CFG0 (AUTH0), CFG1 (ACCESS: PROT, CFGLCK), PWD, PACK
     MifareUltralightEV1 ("ev1")  the NTAG21x procedures on the MF0ULx1 memory map
     NTAG203             ("n203") lock bits only

   One action per command on the wire (READ, WRITE, AUTHENTICATE part 1 / 2, PWD_AUTH, a new activation); the
   reader's evaluation of an authentication answer is its own action so that the adversary can act while
   the answer is in flight.  The tag side is the access-control semantics of the data sheets on named page
   classes: pages >= AUTH0 need the authenticated state for WRITE (for READ too when PROT / AUTH1 says so),
   lock bits make pages read-only, CC / lock bytes only gain bits, a NAK mutes the tag until it is activated
   again, a changed configuration is effective at once (imm) or from the next activation on.  Power may drop
   between any two commands (Cut).  Cryptography is symbolic: a key is the sequence of the page contents
   that hold it (so that a cut between two key page writes leaves a *mixed* key), ek(..) terms are records
   that are equal iff built from equal arguments, a bit flip of a value raises its flip counter.

   Defects: deviations of the code as it is from the intended behaviour that the model can exhibit; the
   property invariants reject them (they are the findings of the vendor stages). *)
EXTENDS Naturals, Sequences, FiniteSets, TLC

CONSTANTS Prods,        \* subset of {"ulc", "ntag", "ev1", "n203"}
          KeyParts,     \* names of key halves (ulc: K1, K2; ntag/ev1: PWD, PACK); "k0" = factory value
          Variants,     \* passwords that differ only beyond the key prefix
          PFs,          \* protect_from arguments
          MaxOps, MaxAdv, MaxCut, MaxChal,
          Defects, ImmModes, NakModes, AdvKinds,
          Ops           \* subset of {"auth", "protect", "lock", "ndef", "format"}

DefectNames == {"ev1_no_cfgpage", "ulc_short_response", "fmt_defaults_unchecked"}
ASSUME Defects \subseteq DefectNames
ASSUME Prods \subseteq {"ulc", "ntag", "ev1", "n203"}

Factory == <<"k0", "k0">>
Pws     == [k : KeyParts \X KeyParts, v : Variants] \cup {[k |-> Factory, v |-> "empty"], [k |-> Factory, v |-> "short"]}
NoPw    == [k |-> Factory, v |-> "none"]

\* the page contents that hold key k: Ultralight C two pages per key half, NTAG one page each for PWD and PACK
KeyPages(prod, k) == IF prod = "ulc" THEN << <<k[1], 1>>, <<k[1], 2>>, <<k[2], 1>>, <<k[2], 2>> >>
                     ELSE << <<k[1], 1>>, <<k[2], 1>> >>
KeyCls(prod) == IF prod = "ulc" THEN <<"k1", "k2", "k3", "k4">> ELSE <<"pwd", "pack">>
HasAC(prod)  == prod \in {"ulc", "ntag", "ev1"}
HasCfg(prod) == prod \in {"ntag", "ev1"}

\* page numbers of the page classes of one representative product per family (real numbers come with a trace)
Classes == {"slock", "cc", "u4", "u5", "tend", "dlock", "cfg0", "cfg1", "pwd", "pack", "a0", "a1", "k1", "k2", "k3", "k4"}
PgTable(prod) ==
    CASE prod = "ulc"  -> [c \in Classes |-> CASE c = "slock" -> 2 [] c = "cc" -> 3 [] c = "u4" -> 4 [] c = "u5" -> 5 [] c = "tend" -> 5
                              [] c = "dlock" -> 40 [] c = "a0" -> 42 [] c = "a1" -> 43 [] c = "k1" -> 44 [] c = "k2" -> 45
                              [] c = "k3" -> 46 [] c = "k4" -> 47 [] OTHER -> 0]
      [] prod = "ntag" -> [c \in Classes |-> CASE c = "slock" -> 2 [] c = "cc" -> 3 [] c = "u4" -> 4 [] c = "u5" -> 5 [] c = "tend" -> 6
                              [] c = "dlock" -> 40 [] c = "cfg0" -> 41 [] c = "cfg1" -> 42 [] c = "pwd" -> 43
                              [] c = "pack" -> 44 [] OTHER -> 0]
      [] prod = "ev1"  -> [c \in Classes |-> CASE c = "slock" -> 2 [] c = "cc" -> 3 [] c = "u4" -> 4 [] c = "u5" -> 5 [] c = "tend" -> 5
                              [] c = "cfg0" -> 16 [] c = "cfg1" -> 17 [] c = "pwd" -> 18 [] c = "pack" -> 19 [] OTHER -> 0]
      [] OTHER         -> [c \in Classes |-> CASE c = "slock" -> 2 [] c = "cc" -> 3 [] c = "u4" -> 4 [] c = "u5" -> 5 [] c = "tend" -> 6
                              [] c = "dlock" -> 40 [] OTHER -> 0]
NoAuth0(prod) == IF prod = "ulc" THEN 48 ELSE 255            \* AUTH0 value that disables the protection
Max(a, b) == IF a > b THEN a ELSE b
Min(a, b) == IF a < b THEN a ELSE b
Clamp(prod, pf) == Max(3, Min(pf, NoAuth0(prod)))            \* tt2_nxp.py:161 / :419

\* ---- values on the wire -----------------------------------------------------------------------
NoResp   == [k |-> "none"]
NakResp  == [k |-> "nak"]
ShortR(n) == [k |-> "short", n |-> n]                        \* a well framed answer that is too short (n: 0 or odd)
FlipV(x) == [x EXCEPT !.f = @ + 1]

VARIABLES tag, rd, pc, op, resp, orig, tamp, hist, nadv, nops, ncut, nchal, last, prot, wlog
vars == <<tag, rd, pc, op, resp, orig, tamp, hist, nadv, nops, ncut, nchal, last, prot, wlog>>

Stored(t) == [key |-> t.key, auth0 |-> t.auth0, prot |-> t.prot, cfglck |-> t.cfglck]
\* cc: bits of CC byte 3 ("b3" = 08h, "b7" = 80h, "lo" = 07h); misc: the configuration bits no docstring
\* names (MIRROR, STRG_MOD_EN, NFC_CNT_EN, AUTHLIM, RFU) - "m0" as long as nobody changed them
TagInit(prod, pg, key, auth0, rp, cfglck, slock, dlock, cc, fmt, tlv, tlv1, imm, nakb) ==
    [prod |-> prod, pg |-> pg, key |-> key, auth0 |-> auth0, prot |-> rp, cfglck |-> cfglck, misc |-> "m0",
     eff |-> [key |-> key, auth0 |-> auth0, prot |-> rp, cfglck |-> cfglck],
     authd |-> FALSE, mute |-> FALSE, on |-> TRUE, imm |-> imm, nakb |-> nakb, sess |-> 0, ek |-> NoResp,
     slock |-> slock, dlock |-> dlock, cc |-> cc, fmt |-> fmt, tlv |-> tlv, user |-> "orig",
     tlv1 |-> tlv1]        \* the factory TLV area fits into page 4 (NTAG210/215/216: 03 00 FE 00)
RdInit == [auth |-> FALSE]
NoOp   == [name |-> "none", pw |-> NoPw, rp |-> FALSE, pf |-> 0, outer |-> "none", ra |-> 0, m2 |-> NoResp,
           misc |-> "m0", lck |-> FALSE, key0 |-> <<>>, user0 |-> "orig"]
NoLast == [op |-> "none", prod |-> "-", pw |-> NoPw, rp |-> FALSE, pf |-> 0, res |-> "-", tamp |-> FALSE,
           key |-> <<>>, user0 |-> "orig", view |-> "-", off |-> FALSE]

InitWith(t) ==
    /\ tag = t /\ rd = RdInit /\ pc = "idle" /\ op = NoOp /\ resp = NoResp /\ orig = NoResp /\ tamp = FALSE
    /\ hist = {} /\ nadv = 0 /\ nops = 0 /\ ncut = 0 /\ nchal = 0 /\ last = NoLast
    /\ prot = [set |-> FALSE, k |-> <<>>] /\ wlog = <<>>

\* initial tags: factory state, or protected by an earlier protect("kA") from page 3 (with / without PROT),
\* formatted / blank CC, TLV area intact / broken, NDEF read-only
Init == \E prod \in Prods, imm \in ImmModes, nakb \in NakModes, protd \in BOOLEAN, rp \in BOOLEAN, fmt \in BOOLEAN,
           ro \in BOOLEAN, tlv \in {"ok", "broken"}, tlv1 \in BOOLEAN :
          /\ (protd => HasAC(prod)) /\ (rp => protd) /\ (ro => fmt) /\ (tlv1 => (prod = "ntag" /\ tlv = "broken" /\ "format" \in Ops))
          /\ InitWith(TagInit(prod, PgTable(prod),
                              KeyPages(prod, IF protd /\ "kA" \in KeyParts THEN <<"kA", "kA">> ELSE Factory),
                              IF protd THEN 3 ELSE NoAuth0(prod), rp, FALSE, FALSE, FALSE,
                              IF ro THEN {"b3", "lo"} ELSE {}, fmt, tlv, tlv1, imm, nakb))

\* ---- the tag: access control ------------------------------------------------------------------------
Pg(t, c) == t.pg[c]
Alive(t) == t.on /\ ~t.mute
NeedsAuth(t, c) == HasAC(t.prod) /\ Pg(t, c) >= t.eff.auth0 /\ ~t.authd
Locked(t, c) == \/ c \in {"cc", "u4", "u5"} /\ t.slock                      \* lock bits of pages 3..15
                \/ t.prod = "ulc" /\ c \in {"a0", "a1", "k1", "k2", "k3", "k4"} /\ t.dlock   \* lock byte 3 bits 5..7
WriteOk(t, c) == /\ Alive(t) /\ ~NeedsAuth(t, c) /\ ~Locked(t, c)
                 /\ (c \in {"cfg0", "cfg1"} => ~t.eff.cfglck)
ReadOk(t, c)  == Alive(t) /\ ~(t.eff.prot /\ NeedsAuth(t, c))
KeyIdx(c) == CASE c \in {"k1", "pwd"} -> 1 [] c \in {"k2", "pack"} -> 2 [] c = "k3" -> 3 [] OTHER -> 4
Store(t, c, v) ==
    CASE c = "cc"    -> [t EXCEPT !.cc = @ \cup {b \in {"b3", "b7", "lo"} : v[b]}]
      [] c = "slock" -> [t EXCEPT !.slock = @ \/ v.all]
      [] c = "dlock" -> [t EXCEPT !.dlock = @ \/ v.all]
      [] c = "cfg0"  -> [t EXCEPT !.auth0 = v.auth0, !.misc = IF v.keep THEN @ ELSE "mX"]
      [] c = "cfg1"  -> [t EXCEPT !.prot = v.prot, !.cfglck = v.cfglck, !.misc = IF v.keep THEN @ ELSE "mX"]
      [] c = "a0"    -> [t EXCEPT !.auth0 = v.auth0]
      [] c = "a1"    -> [t EXCEPT !.prot = v.prot]
      [] c \in {"u4", "u5"} -> [t EXCEPT !.user = "dflt", !.tlv = IF c = "u5" \/ t.tlv1 THEN "ok" ELSE @]
      [] OTHER       -> [t EXCEPT !.key[KeyIdx(c)] = v.part]
\* CFGLCK is taken over at power-up only, whatever the product does with the rest
Latched(t) == IF t.imm THEN [t EXCEPT !.eff = [Stored(t) EXCEPT !.cfglck = t.eff.cfglck]] ELSE t
Activate(t) == [t EXCEPT !.mute = FALSE, !.authd = FALSE, !.sess = 0, !.ek = NoResp, !.eff = Stored(t)]
Nak(t) == IF t.on THEN [t EXCEPT !.mute = TRUE, !.authd = FALSE, !.sess = 0] ELSE t
\* a READ the tag refuses: a NAK byte makes Type2Tag.read sense the tag again before it raises; when the driver
\* reports the NAK as "no answer" the command error is a timeout and the tag stays mute
ReadNak(t) == IF ~Alive(t) THEN t ELSE IF t.nakb THEN Activate(t) ELSE Nak(t)

\* what Type2Tag.NDEF + the vendor _read_capability_data override make of the tag (tt2_nxp.py:53-63, 323-332)
CcReadable(t) == ReadOk(t, "cc")
\* the TLV area up to the end of the NDEF message TLV (a READ that starts on a readable page rolls over behind
\* the last readable one: no NAK, but the bytes are not those of the message)
TlvReadable(t) == ReadOk(t, "tend")
NdefView(t, r) ==
    IF ~Alive(t) \/ ~CcReadable(t) \/ ~t.fmt \/ ~TlvReadable(t) \/ t.tlv # "ok" THEN "none"
    ELSE LET rd0 == "b7" \notin t.cc
             wr0 == "b3" \notin t.cc /\ "lo" \notin t.cc
             over == r.auth /\ HasAC(t.prod)
             rd1 == rd0 \/ over                                               \* high nibble = 8 (the only other value)
             wr1 == wr0 \/ (over /\ "b3" \in t.cc /\ "lo" \notin t.cc /\ ~t.slock)   \* low nibble = 8, lock bytes 00 00
         IN IF rd1 THEN (IF wr1 THEN "rw" ELSE "r") ELSE (IF wr1 THEN "w" ELSE "-")
\* a READ of the TLV area that the tag answers with NAK re-activates it (Type2Tag.read senses again)
NdefNaks(t) == Alive(t) /\ CcReadable(t) /\ t.fmt /\ ~ReadOk(t, "u4")

\* ---- control ---------------------------------------------------------------------------------------
Goto(p) == pc' = p /\ resp' = NoResp /\ orig' = NoResp /\ UNCHANGED <<last, nops>>
Answer(p, r) == pc' = p /\ resp' = r /\ orig' = r /\ UNCHANGED <<last, nops>>
FinishO(o, res, tg, tm, view) ==
    /\ pc' = "idle" /\ resp' = NoResp /\ orig' = NoResp /\ nops' = nops + 1
    /\ last' = [op |-> o.outer, prod |-> tg.prod, pw |-> o.pw, rp |-> o.rp, pf |-> o.pf, res |-> res, tamp |-> tm,
                key |-> o.key0, user0 |-> o.user0, view |-> view, off |-> ~tg.on]
Finish(res, tg, tm, view) == FinishO(op, res, tg, tm, view)
Idle == pc = "idle" /\ nops < MaxOps /\ tag.on /\ ~tag.mute
Begin(o) == op' = [o EXCEPT !.key0 = tag.eff.key, !.user0 = tag.user] /\ tamp' = FALSE /\ wlog' = <<>>
            /\ UNCHANGED <<tag, hist, nadv, ncut, nchal, prot>>
Short(pw) == pw.v = "short"              \* 1..5 (NTAG) / 1..15 (Ultralight C) bytes: ValueError, documented
\* the authentication status the caller sees (Tag.authenticate stores the result; an exception leaves it)
RdAfter(res) == IF res \in {"True", "False"} THEN [rd EXCEPT !.auth = (res = "True")] ELSE rd

\* end of an (embedded or plain) authentication
AuthFinish(res, tg, tm) ==
    /\ Finish(res, tg, tm, "-")
    /\ prot' = IF op.outer = "protect" /\ res = "True" THEN [set |-> TRUE, k |-> tg.key] ELSE prot

\* ---- authenticate(password) ------------------------------------------------------------------------------
StartAuth(pw) ==
    /\ Idle /\ HasAC(tag.prod) /\ "auth" \in Ops
    /\ Begin([NoOp EXCEPT !.name = "auth", !.pw = pw, !.outer = "auth"]) /\ UNCHANGED rd
    /\ IF Short(pw) THEN FinishO(op', "ValueError", tag, FALSE, "-")
       ELSE Goto(IF tag.prod = "ulc" THEN "u_a1" ELSE "n_pwd")

\* NTAG21x / EV1: rsp = transceive(1Bh || key[0:4])                                  (tt2_nxp.py:476-480)
NPwd ==
    /\ pc = "n_pwd"
    /\ IF Alive(tag)
       THEN LET hit == tag.eff.key[1] = <<op.pw.k[1], 1>> IN
              /\ tag' = IF hit THEN [tag EXCEPT !.authd = TRUE] ELSE Nak(tag)
              /\ Answer("n_chk", IF hit THEN [k |-> "data", d |-> tag.eff.key[2], f |-> 0] ELSE NakResp)
              /\ hist' = IF hit THEN hist \cup {[k |-> "data", d |-> tag.eff.key[2], f |-> 0]} ELSE hist
       ELSE Answer("n_chk", NoResp) /\ UNCHANGED <<tag, hist>>
    /\ UNCHANGED <<rd, op, tamp, nadv, ncut, nchal, prot, wlog>>
NChk(out) ==
    /\ pc = "n_chk"
    /\ LET ok == resp.k = "data" /\ resp.f = 0 /\ resp.d = <<op.pw.k[2], 1>>
           tm == tamp \/ resp # orig
           res == IF ok THEN "True" ELSE "False" IN
         /\ out = res /\ tamp' = tm /\ rd' = RdAfter(res) /\ AuthFinish(res, tag, tm)
    /\ UNCHANGED <<tag, op, hist, nadv, ncut, nchal, wlog>>

\* Ultralight C: rsp = transceive(1Ah 00h) - outside any try: no answer is a TagCommandError  (tt2_nxp.py:213)
UAuth1 ==
    /\ pc = "u_a1"
    /\ IF Alive(tag)
       THEN LET m1 == [k |-> "e1", key |-> tag.eff.key, rb |-> nchal + 1, f |-> 0] IN
              /\ nchal' = nchal + 1
              /\ tag' = [tag EXCEPT !.sess = nchal + 1, !.ek = m1, !.authd = FALSE]
              /\ Answer("u_c1", m1) /\ hist' = hist \cup {m1} /\ UNCHANGED <<rd, prot>>
       ELSE /\ rd' = rd /\ AuthFinish("TagCommandError", tag, tamp) /\ UNCHANGED <<tag, hist, nchal>>
    /\ UNCHANGED <<op, tamp, nadv, ncut, wlog>>
\* m1 = rsp[1:9]; rb = D(key, iv 0, m1); ra random; m2 = E(key, iv m1, ra || rb')           (:214-232)
UChk1(out) ==
    /\ pc = "u_c1"
    /\ LET tm == tamp \/ resp # orig
           kp == KeyPages("ulc", op.pw.k) IN
         /\ tamp' = tm
         /\ IF resp.k = "short"
            THEN /\ \/ out = "False"                                                  \* (after the repair)
                    \/ /\ "ulc_short_response" \in Defects
                       /\ out = (IF resp.n = 0 THEN "IndexError" ELSE "ValueError")  \* rb[0] of b"" / pyDes length check
                 /\ rd' = RdAfter(out) /\ AuthFinish(out, tag, tm) /\ UNCHANGED <<op, nchal>>
            ELSE /\ out = "cont" /\ nchal' = nchal + 1
                 /\ op' = [op EXCEPT !.ra = nchal + 1,
                                     !.m2 = [k |-> "e2", key |-> kp, iv |-> resp, ra |-> nchal + 1,
                                             rb |-> IF resp.f = 0 /\ resp.key = kp THEN resp.rb ELSE 0]]
                 /\ Goto("u_a2") /\ UNCHANGED <<rd, prot>>
    /\ UNCHANGED <<tag, hist, nadv, ncut, wlog>>
\* the tag deciphers with its key and compares RndB'; try: rsp = transceive(AFh || m2) except: return False  (:233-236)
UAuth2 ==
    /\ pc = "u_a2"
    /\ LET m2 == op.m2
           acc == Alive(tag) /\ tag.sess # 0 /\ m2.key = tag.eff.key /\ m2.rb = tag.sess
           m3 == [k |-> "e3", key |-> tag.eff.key, iv |-> m2, ra |-> IF m2.iv = tag.ek THEN m2.ra ELSE 0, f |-> 0] IN
         IF acc THEN /\ tag' = [tag EXCEPT !.authd = TRUE, !.sess = 0]
                     /\ Answer("u_c2", m3) /\ hist' = hist \cup {m3}
                ELSE /\ tag' = Nak(tag) /\ Answer("u_c2", IF Alive(tag) THEN NakResp ELSE NoResp) /\ UNCHANGED hist
    /\ UNCHANGED <<rd, op, tamp, nadv, ncut, nchal, prot, wlog>>
\* return D(key, iv m2[8:16], m3) == ra'                                                     (:238-245)
UChk2(out) ==
    /\ pc = "u_c2"
    /\ LET tm == tamp \/ resp # orig
           ok == resp.k = "e3" /\ resp.f = 0 /\ resp.key = KeyPages("ulc", op.pw.k) /\ resp.iv = op.m2 /\ resp.ra = op.ra
           res == IF ok THEN "True" ELSE "False" IN
         /\ \/ out = res
            \/ resp.k = "short" /\ resp.n # 0 /\ "ulc_short_response" \in Defects /\ out = "ValueError"
         /\ tamp' = tm /\ rd' = RdAfter(out) /\ AuthFinish(out, tag, tm)
    /\ UNCHANGED <<tag, op, hist, nadv, ncut, nchal, wlog>>

\* ---- the procedures as tables: which command the reader sends in which control state -------------------------
\* WRITE commands: class, value, next control state ("done" = the operation returns True), result when the tag
\* does not execute the command (NAK or silence)
W(c, v, nx, fail) == [c |-> c, v |-> v, nx |-> nx, fail |-> fail]
CcBits(b3, b7, lo) == [b3 |-> b3, b7 |-> b7, lo |-> lo]
AfterKey == IF op.pf <= 3 THEN "p_rcc" ELSE "p_sense"
AfterStatic == IF HasCfg(tag.prod) /\ Pg(tag, "dlock") = 0 THEN "l_rc" ELSE "l_wd"
TCE == "TagCommandError"
WriteAt(p) ==
    CASE \* NTAG21x._protect_with_password: cfg = read(cfgpage); cfg[8:14] = key; cfg[3] = AUTH0; cfg[4] PROT   (tt2_nxp.py:413-426)
         p = "p_w0" -> W("cfg0", [auth0 |-> Clamp(tag.prod, op.pf), keep |-> TRUE], "p_w1", TCE)
      [] p = "p_w1" -> W("cfg1", [prot |-> op.rp, cfglck |-> op.lck, keep |-> TRUE], "p_w2", TCE)
      [] p = "p_w2" -> W("pwd", [part |-> <<op.pw.k[1], 1>>], "p_w3", TCE)
      [] p = "p_w3" -> W("pack", [part |-> <<op.pw.k[2], 1>>], AfterKey, TCE)
         \* MifareUltralightC._protect_with_password: four key pages, AUTH0, AUTH1                          (:154-165)
      [] p = "u_k1" -> W("k1", [part |-> KeyPages("ulc", op.pw.k)[1]], "u_k2", TCE)
      [] p = "u_k2" -> W("k2", [part |-> KeyPages("ulc", op.pw.k)[2]], "u_k3", TCE)
      [] p = "u_k3" -> W("k3", [part |-> KeyPages("ulc", op.pw.k)[3]], "u_k4", TCE)
      [] p = "u_k4" -> W("k4", [part |-> KeyPages("ulc", op.pw.k)[4]], "u_w0", TCE)
      [] p = "u_w0" -> W("a0", [auth0 |-> Clamp("ulc", op.pf)], "u_w1", TCE)
      [] p = "u_w1" -> W("a1", [prot |-> op.rp], AfterKey, TCE)
         \* protect_from <= 3 on a formatted tag: CC byte 3 |= 08h / 88h                                       (:170-174, :431-435)
         \* (the reader ORs into the byte it has just read)
      [] p = "p_wcc" -> W("cc", CcBits(TRUE, op.rp \/ "b7" \in tag.cc, "lo" \in tag.cc), "p_sense", TCE)
         \* _protect_with_lockbits: CC byte 3 = 0Fh, static lock bits, dynamic lock bits, CFGLCK; errors -> False (:131-141, :388-403, :290-302)
      [] p = "l_wcc" -> W("cc", CcBits(TRUE, FALSE, TRUE), "l_ws", "False")
      [] p = "l_ws" -> W("slock", [all |-> TRUE], AfterStatic, "False")
      [] p = "l_wd" -> W("dlock", [all |-> TRUE], IF HasCfg(tag.prod) THEN "l_rc" ELSE "done", "False")
      [] p = "l_wc" -> W("cfg1", [prot |-> op.rp, cfglck |-> TRUE, keep |-> TRUE], "done", "False")
         \* NTAG2xx._format: "no management data, writing factory defaults"                                    (:304-309, :503-508 ...)
      [] p = "f_w4" -> W("u4", [dflt |-> TRUE], "f_w5", TCE)
      [] OTHER      -> W("u5", [dflt |-> TRUE], "f_base", TCE)
WritePcs == {"p_w0", "p_w1", "p_w2", "p_w3", "u_k1", "u_k2", "u_k3", "u_k4", "u_w0", "u_w1", "p_wcc",
             "l_wcc", "l_ws", "l_wd", "l_wc", "f_w4", "f_w5"}
\* READ commands: class, next state, result when refused
R(c, nx, fail) == [c |-> c, nx |-> nx, fail |-> fail]
ReadAt(p) ==
    CASE p = "p_rc"  -> R("cfg0", "p_w0", TCE)
      [] p = "p_rcc" -> R("cc", IF tag.fmt THEN "p_wcc" ELSE "p_sense", TCE)
      [] p = "l_rcc" -> R("cc", IF tag.fmt THEN "l_wcc" ELSE "l_ws", "False")
      [] OTHER       -> R("cfg0", IF tag.cfglck THEN "done" ELSE "l_wc", "False")        \* l_rc
ReadPcs == {"p_rc", "p_rcc", "l_rcc", "l_rc"}

Proceed(nx, tg) == IF nx = "done" THEN /\ rd' = rd /\ AuthFinish("True", tg, FALSE)
                                  ELSE /\ Goto(nx) /\ UNCHANGED <<rd, prot>>
IsKeyCls(c) == c \in {"pwd", "pack", "k1", "k2", "k3", "k4"}
\* one WRITE: the tag executes it or answers NAK (and is mute from then on)
Write ==
    /\ pc \in WritePcs
    /\ LET w == WriteAt(pc) IN
         IF WriteOk(tag, w.c)
         THEN /\ tag' = Latched(Store(tag, w.c, w.v)) /\ wlog' = Append(wlog, w.c)
              /\ rd' = rd
              /\ \/ IF w.nx = "done" THEN Finish("True", tag', FALSE, "-") ELSE Goto(w.nx)
                 \* `if self._cfgpage > 16` follows the static lock bits: on an Ultralight EV1 the AttributeError
                 \* leaves protect() here (the code as it is)
                 \/ /\ pc = "l_ws" /\ tag.prod = "ev1" /\ "ev1_no_cfgpage" \in Defects
                    /\ Finish("AttributeError", tag', FALSE, "-")
              /\ prot' = IF IsKeyCls(w.c) THEN [prot EXCEPT !.set = FALSE] ELSE prot
         ELSE /\ tag' = Nak(tag) /\ wlog' = wlog /\ rd' = rd /\ AuthFinish(w.fail, tag', FALSE)
    /\ UNCHANGED <<op, tamp, hist, nadv, ncut, nchal>>
\* one READ; Type2Tag.read answers a NAK by sensing the tag again before it raises
Read ==
    /\ pc \in ReadPcs
    /\ LET r == ReadAt(pc) IN
         IF ReadOk(tag, r.c)
         THEN /\ op' = IF pc = "p_rc" THEN [op EXCEPT !.lck = tag.cfglck] ELSE IF pc = "l_rc" THEN [op EXCEPT !.rp = tag.prot] ELSE op
              /\ tag' = tag /\ Proceed(r.nx, tag)
         ELSE /\ tag' = ReadNak(tag)
              /\ op' = op /\ rd' = rd /\ AuthFinish(r.fail, tag', FALSE)
    /\ UNCHANGED <<tamp, hist, nadv, ncut, nchal, wlog>>

\* ---- protect(password, read_protect, protect_from) ----------------------------------------------------------
StartProtect(pw, rp, pf) ==
    /\ Idle /\ HasAC(tag.prod) /\ "protect" \in Ops
    /\ Begin([NoOp EXCEPT !.name = "protect", !.pw = pw, !.rp = rp, !.pf = pf, !.outer = "protect"]) /\ UNCHANGED rd
    /\ \/ Short(pw) /\ FinishO(op', "ValueError", tag, FALSE, "-")
       \/ /\ ~Short(pw) /\ tag.prod = "ev1" /\ "ev1_no_cfgpage" \in Defects
          /\ FinishO(op', "AttributeError", tag, FALSE, "-")          \* self._cfgpage is never set on MF0UL11/21
       \/ ~Short(pw) /\ Goto(IF tag.prod = "ulc" THEN "u_k1" ELSE "p_rc")
\* self._target = self.clf.sense(self.target); return self.authenticate(key) if self.target else False
PSense == /\ pc = "p_sense"
          /\ IF tag.on THEN /\ tag' = Activate(tag) /\ Goto(IF tag.prod = "ulc" THEN "u_a1" ELSE "n_pwd") /\ UNCHANGED <<rd, prot>>
                       ELSE /\ tag' = tag /\ rd' = rd /\ AuthFinish("False", tag, FALSE)
          /\ UNCHANGED <<op, tamp, hist, nadv, ncut, nchal, wlog>>

\* ---- protect() without password: lock bits ------------------------------------------------------------------------
StartLock ==
    /\ Idle /\ "lock" \in Ops
    /\ Begin([NoOp EXCEPT !.name = "lock", !.outer = "lock"]) /\ UNCHANGED rd /\ Goto("l_rcc")
\* ---- tag.ndef (a fresh evaluation): what the vendor NDEF class reports -----------------------------------------
Ndef(view) ==
    /\ Idle /\ "ndef" \in Ops
    /\ view = NdefView(tag, rd)
    /\ op' = [NoOp EXCEPT !.name = "ndef", !.outer = "ndef", !.key0 = tag.eff.key, !.user0 = tag.user]
    /\ tag' = IF NdefNaks(tag) THEN ReadNak(tag) ELSE tag
    /\ pc' = "idle" /\ nops' = nops + 1
    /\ last' = [NoLast EXCEPT !.op = "ndef", !.prod = tag.prod, !.res = "View", !.view = view, !.key = tag.eff.key, !.user0 = tag.user]
    /\ wlog' = <<>>
    /\ UNCHANGED <<rd, resp, orig, tamp, hist, nadv, ncut, nchal, prot>>

\* ---- format(): factory defaults for the TLV area when no NDEF is found, then Type2Tag._format    (:304-309, :503-508 ..)
\* the defaults may be written when the CC says "NDEF, write access granted" (after the repair); the code as it
\* is writes them whenever tag.ndef is None.  (The evaluation of tag.ndef sends READs only: part of this step.)
CcAllowsFormat(t, r) == Alive(t) /\ CcReadable(t) /\ t.fmt /\ "lo" \notin t.cc /\ ("b3" \in t.cc => r.auth)
StartFormat ==
    /\ Idle /\ tag.prod \in {"ntag", "n203"} /\ "format" \in Ops
    /\ op' = [NoOp EXCEPT !.name = "format", !.outer = "format", !.key0 = tag.eff.key, !.user0 = tag.user]
    /\ tamp' = FALSE /\ wlog' = <<>> /\ rd' = rd
    /\ LET v == NdefView(tag, rd)
           t1 == IF NdefNaks(tag) THEN ReadNak(tag) ELSE tag IN
         \/ v # "none" /\ tag' = t1 /\ Goto("f_base")
         \/ v = "none" /\ ("fmt_defaults_unchecked" \in Defects \/ CcAllowsFormat(t1, rd)) /\ tag' = t1 /\ Goto("f_w4")
         \* (the repaired code reads page 3 to decide: a tag that refuses this READ is mute afterwards)
         \/ /\ v = "none" /\ ~CcAllowsFormat(t1, rd) /\ Goto("f_no")
            /\ tag' = IF Alive(t1) /\ ~CcReadable(t1) THEN ReadNak(t1) ELSE t1
    /\ UNCHANGED <<hist, nadv, ncut, nchal, prot>>
\* Type2Tag._format: `if self.ndef and self.ndef.is_writeable` ... True, else False (its writes are C03's base part)
FBase(out) == /\ pc = "f_base" /\ rd' = rd /\ UNCHANGED <<op, tamp, hist, nadv, ncut, nchal, wlog>>
              /\ LET v == NdefView(tag, rd)
                     t1 == IF NdefNaks(tag) THEN ReadNak(tag) ELSE tag IN
                   /\ tag' = t1 /\ out = (IF v \in {"rw", "w"} THEN "True" ELSE "False")
                   /\ AuthFinish(out, t1, FALSE)
\* (after the repair) no NDEF capability container that grants write access: nothing is written
FRefuse(out) == /\ pc = "f_no" /\ out = "False" /\ AuthFinish("False", tag, FALSE)
                /\ UNCHANGED <<tag, rd, op, tamp, hist, nadv, ncut, nchal, wlog>>

\* ---- power cut between two commands; activation between two operations -------------------------------------------
Cut == /\ pc # "idle" /\ ncut < MaxCut /\ tag.on
       /\ tag' = [tag EXCEPT !.on = FALSE, !.authd = FALSE, !.sess = 0]
       /\ ncut' = ncut + 1
       /\ UNCHANGED <<rd, pc, op, resp, orig, tamp, hist, nadv, nops, nchal, last, prot, wlog>>
Reactivate == /\ pc = "idle" /\ (~tag.on \/ tag.mute)
              /\ tag' = Activate([tag EXCEPT !.on = TRUE])
              /\ UNCHANGED <<rd, pc, op, resp, orig, tamp, hist, nadv, nops, ncut, nchal, last, prot, wlog>>

\* ---- the adversary on the answers of the Ultralight C authentication -------------------------------------------
InFlight == pc \in {"u_c1", "u_c2", "n_chk"}
AdvOk(kind) == InFlight /\ nadv < MaxAdv /\ op.outer = "auth" /\ kind \in AdvKinds /\ resp.k \in {"e1", "e3", "data"}
Adv(r) == resp' = r /\ nadv' = nadv + 1
          /\ UNCHANGED <<tag, rd, pc, op, orig, tamp, hist, nops, ncut, nchal, last, prot, wlog>>
AdvFlip      == AdvOk("flip") /\ Adv(FlipV(resp))
AdvTrunc(n)  == AdvOk("trunc") /\ pc # "n_chk" /\ Adv(ShortR(n))
AdvReplay(h) == AdvOk("replay") /\ h \in hist /\ h # resp /\ h.k = resp.k /\ Adv(h)

Outcomes == {"cont", "True", "False", "TagCommandError", "ValueError", "IndexError", "AttributeError"}
Views    == {"none", "rw", "r", "w", "-"}
Check(out) == NChk(out) \/ UChk1(out) \/ UChk2(out) \/ FBase(out) \/ FRefuse(out)
Command == NPwd \/ UAuth1 \/ UAuth2 \/ Write \/ Read \/ PSense

Next ==
    \/ \E pw \in Pws : StartAuth(pw)
    \/ \E pw \in Pws, rp \in BOOLEAN, pf \in PFs : StartProtect(pw, rp, pf)
    \/ StartLock \/ StartFormat
    \/ \E v \in Views : Ndef(v)
    \/ Command
    \/ \E out \in Outcomes : Check(out)
    \/ Cut \/ Reactivate
    \/ AdvFlip \/ (\E n \in {0, 3} : AdvTrunc(n))
    \/ \E h \in hist : AdvReplay(h)

Spec == Init /\ [][Next]_vars

\* ---- properties (parametric, evaluated on the next state in trace mode) ------------------------------------------
Typed == {"True", "False", "TagCommandError", "ValueError", "View", "-"}
KeyEq(l) == KeyPages(l.prod, l.pw.k) = l.key            \* the password's key is the one effective at the start
ResultTypedP(l) == l.res \in Typed /\ (l.res = "ValueError" => l.pw.v = "short")
\* True only if the tag holds the key and nothing was modified in transit (the PACK travels in the clear: an
\* NTAG answer that was replayed is the product's limit, C20 base part)
AuthSoundP(l)    == (l.op = "auth" /\ l.res = "True" /\ l.prod = "ulc") => (KeyEq(l) /\ ~l.tamp)
AuthCompleteP(l) == (l.op = "auth" /\ KeyEq(l) /\ ~l.tamp /\ l.pw.v # "short" /\ ~l.off /\ l.res # "TagCommandError")
                           => l.res = "True"
\* both sides agree: the reader reports True only while the tag is in the authenticated state
MutualP(l, t, idle) == (idle /\ l.op \in {"auth", "protect"} /\ l.res = "True" /\ ~l.tamp /\ ~l.off) => t.authd
\* protect(pw, rp, pf) = True: the effective configuration is what was asked for, nothing else was changed
ProtectSoundP(l, t, r, idle) ==
    (idle /\ l.op = "protect" /\ l.res = "True") =>
        /\ t.eff.key = KeyPages(l.prod, l.pw.k) /\ t.eff.auth0 = Clamp(l.prod, l.pf) /\ t.eff.prot = l.rp
        /\ t.misc = "m0" /\ r.auth
        /\ ((l.pf <= 3 /\ t.fmt) => ("b3" \in t.cc /\ (l.rp => "b7" \in t.cc)))
ProtectKeyP(p, t) == p.set => t.key = p.k
ProtectThenAuthP(l, p) == (l.op = "auth" /\ p.set /\ ~l.tamp /\ ~l.off /\ l.res \in {"True", "False"})
                              => ((l.res = "True") <=> (KeyPages(l.prod, l.pw.k) = p.k))
\* never locked out: whatever happens (cuts included) every key page holds the old or the new content
KeyKnownP(t, o) == o.name = "protect" =>
                      \A i \in DOMAIN t.key : t.key[i] = o.key0[i] \/ t.key[i] = KeyPages(t.prod, o.pw.k)[i]
\* protect() = True: every lock bit is set, the CC says read-only, the configuration is frozen
UserWritable(t) == ~t.slock \/ (Pg(t, "dlock") # 0 /\ ~t.dlock)
LockSoundP(l, t, idle) == (idle /\ l.op = "lock" /\ l.res = "True") =>
                              /\ ~UserWritable(t) /\ (t.fmt => "lo" \in t.cc) /\ (HasCfg(t.prod) => t.cfglck)
\* format() that reports failure has not changed the tag; the defaults never land on a tag without NDEF CC
FormatSoundP(l, t, idle) == (idle /\ l.op = "format" /\ l.res = "False" /\ ~l.off) => t.user = l.user0
FormatTrueP(l, t, r, idle) == (idle /\ l.op = "format" /\ l.res = "True") => NdefView(t, r) \in {"rw", "w", "none"}
\* writes of one operation stay inside the page classes its docstring names
Allowed(o, t) == CASE o.name = "protect" -> {"cfg0", "cfg1", "pwd", "pack", "k1", "k2", "k3", "k4", "a0", "a1"}
                                             \cup (IF o.pf <= 3 /\ t.fmt THEN {"cc"} ELSE {})
                   [] o.name = "lock" -> {"slock", "dlock", "cfg1"} \cup (IF t.fmt THEN {"cc"} ELSE {})
                   [] o.name = "format" -> {"u4", "u5"}
                   [] OTHER -> {}
ConfinedP(w, o, t) == \A i \in DOMAIN w : w[i] \in Allowed(o, t)

ResultTyped     == ResultTypedP(last)
AuthSound       == AuthSoundP(last)
AuthComplete    == AuthCompleteP(last)
Mutual          == MutualP(last, tag, pc = "idle" /\ last.op = op.outer)
ProtectSound    == ProtectSoundP(last, tag, rd, pc = "idle" /\ last.op = op.outer)
ProtectKey      == ProtectKeyP(prot, tag)
ProtectThenAuth == ProtectThenAuthP(last, prot)
KeyKnown        == KeyKnownP(tag, op)
LockSound       == LockSoundP(last, tag, pc = "idle" /\ last.op = op.outer)
FormatSound     == FormatSoundP(last, tag, pc = "idle" /\ last.op = op.outer)
Confined        == ConfinedP(wlog, op, tag)
\* one-way bits stay set (action property)
OneWay == [][/\ (tag.slock => tag'.slock) /\ (tag.dlock => tag'.dlock) /\ tag.cc \subseteq tag'.cc]_vars

TypeOK == /\ pc \in {"idle", "n_pwd", "n_chk", "u_a1", "u_c1", "u_a2", "u_c2", "p_rc", "p_w0", "p_w1", "p_w2", "p_w3",
                     "u_k1", "u_k2", "u_k3", "u_k4", "u_w0", "u_w1", "p_rcc", "p_wcc", "p_sense",
                     "l_rcc", "l_wcc", "l_ws", "l_wd", "l_rc", "l_wc", "f_no", "f_w4", "f_w5", "f_base"}
          /\ nadv \in 0..MaxAdv /\ nops \in 0..MaxOps /\ ncut \in 0..MaxCut
          /\ tag.authd => (tag.on /\ ~tag.mute)
=============================================================================
