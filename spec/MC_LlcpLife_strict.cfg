SPECIFICATION Spec
CONSTANTS
  Threads = {t1, t2, t3}
  Socks = {s1, s2}
  AtomicCheck = TRUE
  DeadBind = TRUE
  MaxDeliver = 2
INVARIANT NoStuck
INVARIANT ResultTyped
PROPERTY Eventually
CHECK_DEADLOCK FALSE
