SPECIFICATION Spec
CONSTANTS
  Kinds <- MC_Quick
INVARIANT SymmetricInv
INVARIANT RangesInv
INVARIANT AllValid
CHECK_DEADLOCK FALSE
