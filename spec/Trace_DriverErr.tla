------------------------- MODULE Trace_DriverErr -------------------------
(* Trace validation for DriverErr.  One trace = one slice (driver, kind, tier) walked by the harness on
   the real driver object: event 1 is the fault-free exchange, every further event is one case
   [d, k, m, at, c, f, v, o, x, same]:  fault (f,v) injected at host command `at`, c = the name of the
   host command the simulated chip really saw at that position, o = outcome class of
   ContactlessFrontend.exchange(), x = exception / value type, same = returned data equals the
   simulated remote device's answer (for the operation kinds: o = outcome class of ContactlessFrontend.sense() /
   listen(), same = the returned target has the documented bit rate and attributes).
   Structural disagreement (unknown case, other host command than Cmds(d,k)[at], recorded cases #
   SliceCases) stops the trace (STUCK).  The property -- o \in Allowed -- is evaluated as the step's
   post-condition; a violation is printed per event under the id "<trace>#<line>" and the walk goes on,
   so that every violating case of a slice is reported, not only the first.                              *)
EXTENDS DriverErr, Json, IOUtils, TLCExt

VARIABLES tid, l
tvars == <<c, o, pc, tid, l>>

Traces == ndJsonDeserialize(IOEnv.TRACE_FILE)
T == Traces[tid].ev
S == Traces[tid].slice
Ev == T[l]

CaseOf(e) == Case(e.d, e.k, e.at, F(e.f, e.v))

TInit == /\ tid \in 1..Len(Traces)
         /\ l = 1
         /\ c = Case("pn531", "TT2", 0, NoFault) /\ o = "-" /\ pc = "idle"

\* --- structure: the event is a point of the spec's product and the code issued the command the spec lists
StructWhy(e) ==
  IF e.d \notin Drivers \/ e.d # S.d THEN <<"driver">>
  ELSE IF e.k \notin Kinds(e.d) \/ e.k # S.k THEN <<"kind">>
  ELSE IF e.m # Mode(e.k) THEN <<"mode", Mode(e.k)>>
  ELSE IF S.n # NCmd(e.d, e.k) THEN <<"ncmd", NCmd(e.d, e.k), Cmds(e.d, e.k)>>
  ELSE IF e.at \notin 0..NCmd(e.d, e.k) THEN <<"at">>
  ELSE IF (l = 1) # (e.at = 0) THEN <<"first-event-is-the-fault-free-exchange">>
  ELSE IF e.at = 0 /\ e.f # "None" THEN <<"fault-at-0">>
  ELSE IF e.at > 0 /\ e.c # Cmds(e.d, e.k)[e.at] THEN <<"cmd", Cmds(e.d, e.k)[e.at]>>
  ELSE <<>>
Recorded == {CaseOf(T[i]) : i \in 2..Len(T)}
\* the first exchange slice of a driver lists the exchange kinds the harness walks for that driver: all of ExKinds(d)
\* (base kinds, payload lengths, target variants)
Walked == {S.kinds[i] : i \in 1..Len(S.kinds)}
CoverWhy ==
  LET want == SliceCases(S.d, S.k, S.tier) IN
  IF Recorded # want THEN <<"coverage", Cardinality(want \ Recorded), Cardinality(Recorded \ want)>>
  ELSE IF Cardinality(Recorded) # Len(T) - 1 THEN <<"duplicate-cases">>
  ELSE IF "kinds" \in DOMAIN S /\ Walked # ExKinds(S.d) THEN <<"kinds", ExKinds(S.d) \ Walked, Walked \ ExKinds(S.d)>>
  ELSE <<>>
\* S.cover = FALSE only for --replay of a single stored case
Struct == StructWhy(Ev) = <<>> /\ (l = 1 /\ S.cover => CoverWhy = <<>>)

\* --- the property, as post-condition of the step
AllowedEv(e) == Allowed(e.d, e.k, e.at, F(e.f, e.v))
InvWhy(e) ==
  IF e.o \notin AllowedEv(e) THEN <<"inv", <<"OutcomeAllowed">>, e.o, e.x, AllowedEv(e)>>
  \* the host frames written: a cancel ACK exactly after a command whose response timed out (the operations of
  \* the rcs956 write ACK frames of their own after ResetMode: not judged)
  ELSE IF e.at > 0 /\ (e.k \notin OpKinds \/ e.d # "rcs956")
          /\ e.cancel # CancelAck(e.d, F(e.f, e.v))
       THEN <<"inv", <<"CancelAck">>, e.o, e.x, {IF CancelAck(e.d, F(e.f, e.v)) THEN "ack-written" ELSE "no-ack-written"}>>
  ELSE IF e.k \notin OpKinds /\ Benign(e.d, e.k, e.at, F(e.f, e.v)) /\ ~e.same
       THEN <<"inv", <<"DataIntact">>, e.o, e.x, {"same"}>>
  \* an operation that reports a target reports the documented one (bit rate and every attribute), fault or not
  \* (except when the fault shortened the answer that carries the target's data)
  ELSE IF e.k \in OpKinds /\ e.o = "Target" /\ ~e.same /\ ~CutData(F(e.f, e.v)) THEN <<"inv", <<"TargetIntact">>, e.o, e.x, {"same"}>>
  ELSE <<>>
Judge == IF InvWhy(Ev) # <<>>
         THEN PrintT(<<"STUCK", Traces[tid].id \o "#" \o ToString(l), l, "Exchange", InvWhy(Ev)>>)
         ELSE TRUE

Real == /\ l <= Len(T)
        /\ Struct
        /\ Judge
        /\ c' = CaseOf(Ev) /\ o' = Ev.o /\ pc' = "done"
        /\ l' = l + 1 /\ UNCHANGED tid

Stuck == /\ l <= Len(T)
         /\ ~Struct
         /\ PrintT(<<"STUCK", Traces[tid].id, l, "Exchange",
                     IF StructWhy(Ev) # <<>> THEN StructWhy(Ev) ELSE CoverWhy>>)
         /\ l' = Len(T) + 2
         /\ UNCHANGED <<c, o, pc, tid>>

TNext == Real \/ Stuck
TSpec == TInit /\ [][TNext]_tvars

Done2 == (l = Len(T) + 1) => PrintT(<<"ACCEPT", Traces[tid].id>>)
=============================================================================
