SPECIFICATION TSpec
CONSTANTS
  PwdParts = {"p0", "p1", "p2", "p3"}
  PackParts = {"q0", "q1", "q2", "q3"}
  Variants = {"a", "b"}
  MaxChal = 1000
  Vals = {"x", "y", "z", "w"}
  Blocks = {"b1", "b2", "b3"}
  MaxAdv = 1000
  MaxOps = 1000
  Kinds = {"lite", "lites", "ntag"}
  Defects = {"lites_none_subscript", "lites_protect_encode", "ndef_none_subscript"}
  AdvKinds = {"flipdata", "flipmac", "swap", "replay", "pad", "count"}
  InitP = {"p0"}
  InitQ = {"q0"}
  InitBlk = "all"
CONSTRAINT Done
CHECK_DEADLOCK FALSE
