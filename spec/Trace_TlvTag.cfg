SPECIFICATION TSpec
CONSTANTS
  LongLen = 255
  Layouts = {}
  BaseLens = {}
  Wipes = {}
  Variants = {}
  Cuts = FALSE
  SectorSize = 1024
  MaxFaults = 0
  MaxRetry = 0
  Session = FALSE
CONSTRAINT Done
CHECK_DEADLOCK FALSE
