SPECIFICATION TSpec
CONSTANTS
  LongLen = 255
  Layouts = {}
  BaseLens = {}
  Wipes = {}
  Variants = {}
  Cuts = FALSE
CONSTRAINT Done
CHECK_DEADLOCK FALSE
