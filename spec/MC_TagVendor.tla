---------------------------- MODULE MC_TagVendor ----------------------------
(* Exhaustive-run wrapper for TagVendor: reachability witnesses are recorded during the one exhaustive run (an
   always-true invariant prints <<"WITNESS", name>> the first time a worker sees a state that violates W_x). *)
EXTENDS TagVendor, TLCExt

Mixed(t, o) == /\ o.name = "protect" /\ t.key # o.key0 /\ t.key # KeyPages(t.prod, o.pw.k)
WH(n) == CASE n = "W_UlcTrue"          -> ~(last.op = "auth" /\ last.res = "True" /\ last.prod = "ulc")
          [] n = "W_UlcFalseWrongKey" -> ~(last.op = "auth" /\ last.res = "False" /\ last.prod = "ulc" /\ ~last.tamp /\ ~KeyEq(last) /\ ~last.off)
          [] n = "W_UlcFalseTamper"   -> ~(last.op = "auth" /\ last.res = "False" /\ last.prod = "ulc" /\ last.tamp /\ KeyEq(last))
          [] n = "W_UlcHalfKey"       -> ~(last.op = "auth" /\ last.res = "False" /\ last.prod = "ulc" /\ ~last.tamp
                                           /\ last.key[1] = <<last.pw.k[1], 1>> /\ ~KeyEq(last))
          [] n = "W_PwdTrue"          -> ~(last.op = "auth" /\ last.res = "True" /\ last.prod \in {"ntag", "ev1"})
          [] n = "W_ProtectUlc"       -> ~(last.op = "protect" /\ last.res = "True" /\ last.prod = "ulc" /\ pc = "idle")
          [] n = "W_ProtectNtag"      -> ~(last.op = "protect" /\ last.res = "True" /\ last.prod = "ntag" /\ last.rp /\ pc = "idle")
          [] n = "W_ProtectEv1"       -> ~(last.op = "protect" /\ last.res = "True" /\ last.prod = "ev1" /\ pc = "idle")
          [] n = "W_ProtectCC"        -> ~(last.op = "protect" /\ last.res = "True" /\ "b7" \in tag.cc /\ pc = "idle")
          [] n = "W_ProtectRefused"   -> ~(last.op = "protect" /\ last.res = "TagCommandError" /\ ~tag.imm /\ ncut = 0)
          [] n = "W_ProtectImmPartial" -> ~(last.op = "protect" /\ last.res = "TagCommandError" /\ tag.imm /\ ncut = 0
                                            /\ Len(wlog) > 0 /\ pc = "idle")
          [] n = "W_CutMixedKey"      -> ~(pc = "idle" /\ ncut = 1 /\ Mixed(tag, op))
          [] n = "W_CutFalse"         -> ~(last.op = "protect" /\ last.res = "False" /\ ncut = 1)
          [] n = "W_ProtectOther"     -> ~(last.op = "auth" /\ last.res = "False" /\ prot.set /\ ~last.tamp /\ ~last.off)
          [] n = "W_ProtectAuth"      -> ~(last.op = "auth" /\ last.res = "True" /\ prot.set)
          [] n = "W_LockTrue"         -> ~(last.op = "lock" /\ last.res = "True" /\ tag.cfglck)
          [] n = "W_LockTrueUlc"      -> ~(last.op = "lock" /\ last.res = "True" /\ last.prod = "ulc")
          [] n = "W_LockFalse"        -> ~(last.op = "lock" /\ last.res = "False" /\ ncut = 0)
          [] n = "W_LockTwice"        -> ~(last.op = "lock" /\ last.res = "False" /\ ncut = 0 /\ tag.slock /\ wlog = <<>>)
          [] n = "W_NdefHidden"       -> ~(last.op = "ndef" /\ last.view = "none" /\ tag.eff.prot /\ tag.fmt /\ tag.tlv = "ok")
          [] n = "W_NdefOverride"     -> ~(last.op = "ndef" /\ last.view = "rw" /\ "b3" \in tag.cc)
          [] n = "W_NdefReadOnly"     -> ~(last.op = "ndef" /\ last.view = "r" /\ "b3" \in tag.cc /\ "lo" \notin tag.cc)
          [] n = "W_FormatDefaults"   -> ~(last.op = "format" /\ last.res = "True" /\ tag.user = "dflt" /\ pc = "idle")
          [] n = "W_FormatRefusedBlank" -> ~(last.op = "format" /\ last.res = "False" /\ ~tag.fmt /\ pc = "idle")
          [] n = "W_ValueErrorShortPw" -> ~(last.res = "ValueError" /\ last.pw.v = "short")
             \* the code as it is (Defects # {})
          [] n = "W_AttributeError"   -> ~(last.res = "AttributeError" /\ last.op = "protect")
          [] n = "W_AttributeErrorLock" -> ~(last.res = "AttributeError" /\ last.op = "lock" /\ tag.slock)
          [] n = "W_IndexError"       -> ~(last.res = "IndexError")
          [] n = "W_ValueErrorResp"   -> ~(last.res = "ValueError" /\ last.pw.v # "short")
          [] OTHER (* W_FormatFalseChanged *) -> ~(last.op = "format" /\ last.res = "False" /\ tag.user # last.user0 /\ pc = "idle" /\ ~last.off)
WNames == <<"W_UlcTrue", "W_UlcFalseWrongKey", "W_UlcFalseTamper", "W_UlcHalfKey", "W_PwdTrue", "W_ProtectUlc", "W_ProtectNtag",
            "W_ProtectEv1", "W_ProtectCC", "W_ProtectRefused", "W_ProtectImmPartial", "W_CutMixedKey", "W_CutFalse",
            "W_ProtectOther", "W_ProtectAuth", "W_LockTrue", "W_LockTrueUlc", "W_LockFalse", "W_LockTwice", "W_NdefHidden",
            "W_NdefOverride", "W_NdefReadOnly", "W_FormatDefaults", "W_FormatRefusedBlank", "W_ValueErrorShortPw",
            "W_AttributeError", "W_AttributeErrorLock", "W_IndexError", "W_ValueErrorResp", "W_FormatFalseChanged">>
\* quick tier: the second operation of a behaviour is an authentication or tag.ndef (a second protect / lock / format
\* is explored from the protected initial tags and in the thorough tier)
SecondOpSmall == (nops >= 1 /\ pc # "idle") => (op.name = "auth" /\ resp = orig /\ tag.on)
Reached == \A i \in DOMAIN WNames :
              (~WH(WNames[i]) /\ TLCGetOrDefault(i, 0) = 0) => (TLCSet(i, 1) /\ PrintT(<<"WITNESS", WNames[i]>>))
=============================================================================
