SPECIFICATION TSpec
CONSTANTS
  Threads <- TraceThreads
  Names <- TraceNames
  PeerSnl <- TracePeer
  NameLen <- TraceLen
  SendMiu = 248
  PopHead = FALSE
  MaxCalls = 100
  WakeCheck = TRUE
CONSTRAINT Done
CHECK_DEADLOCK FALSE
