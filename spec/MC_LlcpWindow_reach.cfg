SPECIFICATION Spec
INVARIANT W_Wrap
INVARIANT W_Full
CHECK_DEADLOCK FALSE
