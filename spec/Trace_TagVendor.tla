------------------------- MODULE Trace_TagVendor -------------------------
(* Trace validation for TagVendor: one recorded execution of a real MifareUltralightC / NTAG21x /
   MifareUltralightEV1 / NTAG203 object (built by nfc.tag.activate) against sim/vendor_nxp.py.  Every command on
   the wire (with the page class and the decoded value of a WRITE, and whether the tag executed it), every
   modification the harness applied to an authentication answer, power cuts, activations and the value the
   caller got - together with the projected tag state - is one event; all invariants of TagVendor are
   evaluated as step post-conditions.  (DESIGN Appendix A) *)
EXTENDS TagVendor, Json, IOUtils, TLCExt

VARIABLES tid, l, hl
tvars == <<vars, tid, l, hl>>

Traces == ndJsonDeserialize(IOEnv.TRACE_FILE)
T == Traces[tid].ev
I == Traces[tid].init

SetOf(r) == {b \in {"b3", "b7", "lo"} : r[b]}
TInit ==
    /\ tid \in 1..Len(Traces)
    /\ l = 1 /\ hl = <<>>
    /\ InitWith(TagInit(I.prod, I.pg, I.key, I.auth0, I.prot, I.cfglck, I.slock, I.dlock, SetOf(I.cc), I.fmt, I.tlv, I.tlv1, I.imm, I.nakb))

Ev == T[l]
IsEv(a) == l <= Len(T) /\ Ev.a = a /\ l' = l + 1 /\ UNCHANGED tid

GStartAuth    == IsEv("Start") /\ Ev.op = "auth" /\ StartAuth(Ev.pw)
\* hint: which way the code went where the model of the code as it is (Defects) admits two (it is the harness that
\* fills it in after the call; the model still decides whether that way exists)
GStartProtect == /\ IsEv("Start") /\ Ev.op = "protect" /\ StartProtect(Ev.pw, Ev.rp, Ev.pf)
                 /\ (Ev.hint = "attr") = (last'.res = "AttributeError" /\ pc' = "idle")
GStartLock    == IsEv("Start") /\ Ev.op = "lock" /\ StartLock
GStartFormat  == IsEv("Start") /\ Ev.op = "format" /\ StartFormat /\ (Ev.hint = "w4") = (pc' = "f_w4")
GNdef         == IsEv("Ndef") /\ Ndef(Ev.view)
GPwd          == IsEv("Pwd") /\ NPwd /\ Ev.ok = (resp'.k = "data")
GAuth1        == IsEv("Auth1") /\ UAuth1 /\ Ev.ok = (resp'.k = "e1")
GAuth2        == IsEv("Auth2") /\ UAuth2 /\ Ev.ok = (resp'.k = "e3")
\* the command the code sent must be the one of the procedure's table: same page class, same decoded value,
\* and the simulated tag must have treated it as the access rules say
GWrite        == /\ IsEv("Write") /\ pc \in WritePcs
                 /\ Ev.c = WriteAt(pc).c /\ Ev.v = WriteAt(pc).v /\ Ev.ok = WriteOk(tag, Ev.c)
                 /\ Write
                 /\ (Ev.hint = "attr") = (last'.res = "AttributeError" /\ pc' = "idle")
GRead         == /\ IsEv("Read") /\ pc \in ReadPcs
                 /\ Ev.c = ReadAt(pc).c /\ Ev.ok = ReadOk(tag, Ev.c)
                 /\ Read
GSense        == IsEv("Sense") /\ PSense
GCheck        == IsEv("Check") /\ Check(Ev.out)
\* (a cut right after the last command of an operation finds the reader idle already)
CutIdle       == /\ pc = "idle" /\ tag.on /\ tag' = [tag EXCEPT !.on = FALSE, !.authd = FALSE, !.sess = 0]
                 /\ UNCHANGED <<rd, pc, op, resp, orig, tamp, hist, nadv, nops, ncut, nchal, last, prot, wlog>>
GCut          == IsEv("Cut") /\ (Cut \/ CutIdle)
GReact        == IsEv("Reactivate") /\ Reactivate
GFlip         == IsEv("AdvFlip") /\ AdvFlip
GTrunc        == IsEv("AdvTrunc") /\ AdvTrunc(Ev.n)
GReplay       == IsEv("AdvReplay") /\ Ev.j \in DOMAIN hl /\ AdvReplay(hl[Ev.j])
\* the caller's view and the projection of the simulated tag / the tag object
GReturn       == /\ IsEv("Return") /\ pc = "idle" /\ last.op # "none"
                 /\ Ev.res = last.res
                 /\ Ev.key = tag.key /\ Ev.auth0 = tag.auth0 /\ Ev.prot = tag.prot /\ Ev.cfglck = tag.cfglck
                 /\ Ev.ekey = tag.eff.key /\ Ev.eauth0 = tag.eff.auth0 /\ Ev.eprot = tag.eff.prot
                 /\ Ev.slock = tag.slock /\ Ev.dlock = tag.dlock /\ SetOf(Ev.cc) = tag.cc
                 /\ Ev.misc = (tag.misc = "m0") /\ Ev.user = tag.user
                 /\ Ev.authd = tag.authd /\ Ev.rauth = rd.auth
                 /\ UNCHANGED vars

Guarded == GStartAuth \/ GStartProtect \/ GStartLock \/ GStartFormat \/ GNdef \/ GPwd \/ GAuth1 \/ GAuth2 \/ GWrite \/ GRead
           \/ GSense \/ GCheck \/ GCut \/ GReact \/ GFlip \/ GTrunc \/ GReplay \/ GReturn

Logged == (Ev.a \in {"Auth1", "Auth2", "Pwd"}) /\ resp'.k \in {"e1", "e3", "data"}
HistOk == hl' = IF Logged THEN Append(hl, resp') ELSE hl

InvNames == <<"ResultTyped", "AuthSound", "AuthComplete", "Mutual", "ProtectSound", "ProtectKey", "ProtectThenAuth",
              "KeyKnown", "LockSound", "FormatSound", "Confined", "OneWay">>
IdleP == pc' = "idle" /\ last'.op = op'.outer
InvP(n) == CASE n = "ResultTyped" -> ResultTypedP(last')
             [] n = "AuthSound" -> AuthSoundP(last')
             [] n = "AuthComplete" -> AuthCompleteP(last')
             [] n = "Mutual" -> MutualP(last', tag', IdleP)
             [] n = "ProtectSound" -> ProtectSoundP(last', tag', rd', IdleP)
             [] n = "ProtectKey" -> ProtectKeyP(prot', tag')
             [] n = "ProtectThenAuth" -> ProtectThenAuthP(last', prot')
             [] n = "KeyKnown" -> KeyKnownP(tag', op')
             [] n = "LockSound" -> LockSoundP(last', tag', IdleP)
             [] n = "FormatSound" -> FormatSoundP(last', tag', IdleP)
             [] n = "Confined" -> ConfinedP(wlog', op', tag')
             [] n = "OneWay" -> (tag.slock => tag'.slock) /\ (tag.dlock => tag'.dlock) /\ tag.cc \subseteq tag'.cc
\* a failure already reported for this trace (same invariant, operation and outcome) is stepped over on the next pass
Tol == {Traces[tid].tol[i] : i \in DOMAIN Traces[tid].tol}
Sig(n) == <<n, last'.op, last'.res>>
AllInv == \A i \in DOMAIN InvNames : InvP(InvNames[i]) \/ Sig(InvNames[i]) \in Tol

Real == Guarded /\ HistOk /\ AllInv

FailedInv == SelectSeq(InvNames, LAMBDA n : ~ENABLED (Guarded /\ HistOk /\ (InvP(n) \/ Sig(n) \in Tol)))
Expected == CASE Ev.a = "Check" -> {o \in Outcomes : ENABLED (IsEv("Check") /\ Check(o))}
              [] Ev.a = "Write" /\ pc \in WritePcs -> {<<WriteAt(pc).c, WriteAt(pc).v, WriteOk(tag, WriteAt(pc).c)>>}
              [] Ev.a = "Read" /\ pc \in ReadPcs -> {<<ReadAt(pc).c, ReadOk(tag, ReadAt(pc).c)>>}
              [] Ev.a = "Ndef" -> {NdefView(tag, rd)}
              [] Ev.a = "Return" -> {<<last.res, tag.key, tag.auth0, tag.prot, tag.cfglck, tag.eff, tag.slock, tag.dlock, tag.cc,
                                       tag.misc, tag.user, tag.authd, rd.auth>>}
              [] OTHER -> {}
Why == IF ~ENABLED Guarded THEN <<"guard", pc, Expected>>
       ELSE <<"inv", FailedInv, pc>>

Stuck ==
    /\ l <= Len(T)
    /\ ~ENABLED Real
    /\ PrintT(<<"STUCK", Traces[tid].id, l, Ev.a, Why>>)
    /\ l' = Len(T) + 2
    /\ UNCHANGED <<vars, tid, hl>>

TNext == Real \/ Stuck
TSpec == TInit /\ [][TNext]_tvars

Done == (l = Len(T) + 1) => PrintT(<<"ACCEPT", Traces[tid].id>>)
=============================================================================
