SPECIFICATION Spec
CONSTANTS
  BS = 2
  RdMax = 2
  Nmaxbs = {0, 1, 2, 3, 4}
  Extras = {0, 1}
  Nbrs = {1, 2, 3}
  Nbws = {0, 1, 2, 3}
  RWFlags = {0, 1}
  WriteFs = {0, 15}
  Vers = {16, 32}
  CkOks = {TRUE, FALSE}
  Rfus = {5}
  MsgKinds = {"a", "z"}
  Cards = {100, 320}
  WithCut = TRUE
  WithFormat = TRUE
  WithOutage = TRUE
  Retries = 2
INVARIANT TypeOK
INVARIANT RoundTrip
INVARIANT WriteOk
INVARIANT CapSound
INVARIANT RejectEarly
INVARIANT CodeReadOk
INVARIANT Atomic
INVARIANT Confined
CHECK_DEADLOCK FALSE
