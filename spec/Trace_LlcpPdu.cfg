SPECIFICATION TSpec
CONSTRAINT Verdict
CHECK_DEADLOCK FALSE
