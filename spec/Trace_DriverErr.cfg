SPECIFICATION TSpec
CONSTANTS
  Tier = "thorough"
CONSTRAINT Done2
CHECK_DEADLOCK FALSE
