SPECIFICATION Spec
CONSTANTS
  LongLen = 5
  Layouts <- MCLayouts
  BaseLens = {0, 1, 4, 5, 6, 9}
  Wipes = {}
  Variants = {"asis", "fixed"}
  Cuts = TRUE
  Kinds = {"T2"}
  Sizes = {3}
  Pads = {0, 1, 2, 3}
  Props = {0}
  CtlFroms = {}
  CtlSizes = {1}
  CtlTypes = {2}
  TwoCtl = FALSE
  OldLens = {0, 1, 5}
INVARIANT RoundTrip
INVARIANT CapSound
INVARIANT RejectEarly
INVARIANT FxNoCrash
INVARIANT CrashOnlyKnown
INVARIANT FxAtomic
INVARIANT AtomicButStraddle
INVARIANT FxConfined
INVARIANT ConfinedButFormat
INVARIANT FxUnitsInArea
INVARIANT UnitsButFormat
INVARIANT LockOneWay
CHECK_DEADLOCK FALSE
