--------------------------- MODULE Trace_T4Tag ---------------------------
(* Trace validation for T4Tag.  One trace = one real nfcpy Type4Tag write / format(wipe) through the
   real ISO-DEP initiator against a simulated PICC (sim/simt4t.py), optionally interrupted by a
   power cut, followed by the view of a FRESH reader object:

     Begin(m) | FBegin(wipe)        the call (tag.ndef.octets = m / tag.format(wipe=..))
     W(fid, off, data, ok)          every UPDATE BINARY command APDU that reached the tag
     Drop | Ok                      transient outage: a frame did not reach the tag | frames get through again
     Cut                            the tag stopped answering
     Ret(res, cap)                  how the call ended, the capacity nfcpy reported before it
     View(k, v, reads, ndef, oth)   fresh reader's result, its READ BINARY commands on the NDEF
                                    file, the full file images

   The files are rebuilt by TLC from the W events (TagApply); every command must be one the modelled
   procedure can issue next (conform; both the code as it is and the code with the proposed fixes
   are recognised, see T4Tag.tla); all T4Tag invariants are evaluated after every step; the fresh
   reader's view enters the state (`seen`) where FreshOk compares it with RefRead.
*)
EXTENDS T4Tag, Json, IOUtils, TLCExt

VARIABLES tid, l
tvars == <<tag, tag0, pc, op, msg, pay, off, ncmd, nd, last, seen, tid, l>>

Traces == ndJsonDeserialize(IOEnv.TRACE_FILE)
T == Traces[tid].ev
I0 == Traces[tid].init

TInit ==
    /\ tid \in 1..Len(Traces)
    /\ l = 1
    /\ tag = [cc |-> [ns |-> I0.cc.ns, mfs |-> I0.cc.mfs, mle |-> I0.cc.mle, mlc |-> I0.cc.mlc, wf |-> I0.cc.wf],
              ndef |-> I0.ndef, oth |-> I0.oth]
    /\ tag0 = tag
    /\ pc = "idle" /\ op = "none" /\ msg = <<>> /\ pay = <<>> /\ off = 0 /\ ncmd = 0 /\ last = NoCmd
    /\ seen = Unseen /\ nd = 0

Ev == T[l]
IsEv(a) == l <= Len(T) /\ Ev.a = a /\ l' = l + 1 /\ UNCHANGED tid

EvCmd == [fid |-> Ev.fid, off |-> Ev.off, data |-> Ev.data]
Match == {s \in Steps : s.c = EvCmd}
EvStep == IF Match # {} THEN CHOOSE s \in Match : TRUE ELSE [c |-> EvCmd, pc |-> pc, off |-> off]
EvView == [k |-> Ev.k, v |-> Ev.v]

ExpRes(p) == CASE p = "done" -> "ok"
               [] p = "rejected" -> "rejected"
               [] p = "refused" -> "refused"
               [] p \in {"cut", "error", "failed"} -> "tagerr"
               [] p = "error_value" -> "raised:ValueError"
               [] p = "fdone" -> "true"
               [] p = "ffalse" -> "false"
               [] OTHER -> "?"

GBegin  == IsEv("Begin") /\ Begin(Ev.m)
GFBegin == IsEv("FBegin") /\ FBegin(Ev.wipe)
\* a command that reaches the tag although the modelled writer has given up: applied, judged, never conforms
Stray ==
    /\ pc = "failed"
    /\ ncmd' = ncmd + 1 /\ last' = EvCmd
    /\ tag' = IF TagOk(tag, EvCmd) THEN TagApply(tag, EvCmd) ELSE tag
    /\ UNCHANGED <<tag0, pc, op, msg, pay, off, nd, seen>>
GW      == IsEv("W") /\ ((pc \in {"u_data", "u_nlen", "z_nlen", "z_wipe"} /\ Step(EvStep)) \/ Stray)
GDrop   == IsEv("Drop") /\ Drop
GOk     == IsEv("Ok") /\ Recover
GCut    == IsEv("Cut") /\ PowerCut
GRet    == IsEv("Ret") /\ ((pc \in Terminal /\ UNCHANGED vars) \/ Finish \/ Raise)
GView   == /\ IsEv("View") /\ pc \in Terminal \cup {"idle"} /\ seen = Unseen /\ seen' = EvView
           /\ UNCHANGED <<tag, tag0, pc, op, msg, pay, off, ncmd, nd, last>>
Guarded == GDrop \/ GOk \/ GBegin \/ GFBegin \/ GW \/ GCut \/ GRet \/ GView

Conform ==
    CASE Ev.a = "W" -> Match # {} /\ Ev.ok = TagOk(tag, EvCmd)
      [] Ev.a = "Ret" -> Ev.res = ExpRes(pc') /\ (op = "write" => Ev.cap = RepCap(tag0))
      [] Ev.a = "View" -> \E v \in Variants : EvView = CodeView(tag, v) /\ Ev.reads = ReadPlan(tag, v)
      [] OTHER -> TRUE
PostOk ==
    CASE Ev.a = "View" -> Ev.ndef = tag.ndef /\ Ev.oth = tag.oth
      [] OTHER -> TRUE

InvNames == <<"RoundTrip", "WriteOk", "CapSound", "RejectEarly", "FreshOk", "Atomic", "Confined">>
InvP(n) == CASE n = "RoundTrip" -> RoundTrip'
             [] n = "WriteOk" -> WriteOk'
             [] n = "CapSound" -> CapSound'
             [] n = "RejectEarly" -> RejectEarly'
             [] n = "FreshOk" -> FreshOk'
             [] n = "Atomic" -> Atomic'
             [] n = "Confined" -> Confined'
AllInv == \A k \in DOMAIN InvNames : InvP(InvNames[k])

Real == Guarded /\ Conform /\ PostOk /\ AllInv

FailedInv == SelectSeq(InvNames, LAMBDA n : ~ENABLED (Guarded /\ InvP(n)))
Brief(s) == [off |-> s.c.off, len |-> Len(s.c.data), pc |-> s.pc]
Why == IF ~ENABLED Guarded THEN <<"guard", pc>>
       ELSE IF FailedInv # <<>> THEN
            <<"inv", FailedInv, pc, IF Ev.a = "View" THEN <<RefRead(tag).k, Len(RefRead(tag).v)>> ELSE <<>> >>
       ELSE IF ~ENABLED (Guarded /\ Conform) THEN
            <<"conform", pc,
              IF Ev.a = "W" THEN <<{Brief(s) : s \in Steps}, TagOk(tag, EvCmd)>>
              ELSE IF Ev.a = "Ret" THEN <<RepCap(tag0)>>
              ELSE IF Ev.a = "View" THEN <<RefRead(tag).k, Len(RefRead(tag).v), {ReadPlan(tag, v) : v \in Variants}>>
              ELSE <<>> >>
       ELSE <<"post", pc>>

Stuck ==
    /\ l <= Len(T)
    /\ ~ENABLED Real
    /\ PrintT(<<"STUCK", Traces[tid].id, l, Ev.a, Why>>)
    /\ l' = Len(T) + 2
    /\ UNCHANGED <<vars, tid>>

TNext == Real \/ Stuck
TSpec == TInit /\ [][TNext]_tvars

Done == (l = Len(T) + 1) => PrintT(<<"ACCEPT", Traces[tid].id>>)
=============================================================================
