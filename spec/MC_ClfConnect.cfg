SPECIFICATION Spec
CONSTANTS
  MaxOpts = 3
  KMax = 1
  TMax = 3
INVARIANT Order
INVARIANT ReleaseIff
INVARIANT ReturnValue
INVARIANT Prompt
INVARIANT Led
CHECK_DEADLOCK FALSE
