SPECIFICATION Spec
CONSTANTS
  MaxOpts = 3
  KMax = 1
  TMax = 3
INVARIANT Order
INVARIANT ReleaseIff
INVARIANT ReturnValue
INVARIANT Prompt
INVARIANT Led
CONSTRAINT NoTermBound
CHECK_DEADLOCK FALSE
