SPECIFICATION Spec
CONSTANTS
  KMax = 1
  TMax = 2
  Never = 99
INVARIANT Order
INVARIANT ReleaseIff
INVARIANT ReturnValue
INVARIANT Prompt
INVARIANT Led
CHECK_DEADLOCK FALSE
