SPECIFICATION TSpec
CONSTANTS
  MaxOpts = 3
  KMax = 9
  TMax = 99
CONSTRAINT Done
CHECK_DEADLOCK FALSE
