SPECIFICATION Spec
CONSTANTS
  MaxOpts = 3
  KMax = 2
  TMax = 6
INVARIANT Order
INVARIANT ReleaseIff
INVARIANT ReturnValue
INVARIANT Prompt
INVARIANT Led
CONSTRAINT NoTermBound
CHECK_DEADLOCK FALSE
