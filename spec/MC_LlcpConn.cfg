SPECIFICATION Spec
CONSTANTS
  EarlyOrder = "cc-first"
  Clients = {"c1", "c2"}
  Backlog = 1
  Mius = {128, 200}
  RWs = {1, 2}
  LinkMiuA = 150
  LinkMiuB = 300
  MaxAcc = 2
  Hows = {"sap", "name", "noname"}
  ListenerPresent = TRUE
INVARIANT Agreement
INVARIANT NoEarlyLoss
INVARIANT BacklogOk
INVARIANT RefusedRight
INVARIANT OnePerPeer
PROPERTY ConnectAnswered
CHECK_DEADLOCK FALSE
