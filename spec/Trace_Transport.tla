------------------------- MODULE Trace_Transport -------------------------
(* C14 binding of Transport: executions of the REAL nfc.clf.transport.USB / TTY classes on the fake usb1 /
   serial backends of sim/link_usb.py, sim/link_tty.py.  One trace = one transport object; the events are
   the calls into the transport (wcall/wret, rcall/rret: recorded by the binding), the calls the transport
   makes into its backend (bw, br / sr, flush, sw, rl: recorded by the backend together with what the device
   side saw) and what the device does (dsend, dclr / emit).  Every event is one action of Transport (applied
   as a pure function to uo / ui / ty), the backend's observations are compared with the spec's device state,
   and the properties of Transport are evaluated on every post-state.  const.ext selects the extended-frame
   rule of the reader ("lenlcs" = the property; "len" + const.tol = the code as it is, used only to walk a trace
   past the known finding `normal frame with LEN = FFh parsed as extended`, with the read-side invariants off).  A failed check prints
   <<"STUCK", id, line, event, <<clause, ...>>>> and ends the trace; a complete walk prints ACCEPT. *)
EXTENDS Transport, Json, IOUtils, TLCExt

VARIABLES tid, l
tvars == <<cf, uo, ui, ty, tid, l>>

Traces == ndJsonDeserialize(IOEnv.TRACE_FILE)
T == Traces[tid].ev
C == Traces[tid].const
Ev == T[l]

TInit == /\ tid \in 1..Len(Traces)
         /\ l = 1
         /\ cf = [op |-> C.op, ip |-> C.ip, cap |-> C.cap, x |-> C.x, zlp |-> "mod", ext |-> C.ext]
         /\ uo = UoInit /\ ui = UiInit /\ ty = TyInit

OK == <<>>
First(ws) == LET bad == SelectSeq(ws, LAMBDA w : w # OK) IN IF bad = <<>> THEN OK ELSE bad[1]

\* ---------------------------------------------------------------------------------------------- USB
BwPost == IF Ev.r = "ok" THEN UoBw(uo, cf) ELSE UoBwFail(uo, cf, Ev.r, Ev.sent)
UsbWhy ==
  CASE Ev.e = "wcall" -> IF UoCallOk(uo) THEN OK ELSE <<"wcall:busy", uo.pc>>
    [] Ev.e = "bw" ->
         IF ~UoBwOk(uo) THEN <<"bw:unexpected", uo.pc, Ev.n, uo.n>>
         ELSE IF Ev.ep # C.oep THEN <<"bw:ep", Ev.ep, C.oep>>
         ELSE IF Ev.n # UoNextBw(uo) \/ (uo.pc = "data" /\ Ev.h # uo.h) THEN <<"bw:data", uo.pc, Ev.n, UoNextBw(uo)>>
         ELSE IF Ev.tmo # uo.tmo THEN <<"bw:tmo", Ev.tmo, uo.tmo>>
         ELSE IF Ev.r # "ok" /\ ~UoBwFailOk(uo, cf, Ev.sent) THEN <<"harness", "bw:sent", Ev.sent>>
         ELSE LET o2 == BwPost IN
              IF Ev.nd # o2.nd \/ Ev.pend # SegLen(o2.dbuf)
                 \/ (o2.nd > uo.nd /\ (Ev.dl # SegLen(o2.dlast) \/ (IntactSegs(o2.dlast, uo.k, uo.n) /\ Ev.dh # uo.h)))
              THEN <<"post:device", Ev.nd, o2.nd, Ev.pend, SegLen(o2.dbuf)>>
              ELSE IF ~UoNoBleedP(o2) THEN <<"inv:NoBleed">>
              ELSE IF ~UoResultP(o2) THEN <<"inv:WriteResult">> ELSE OK
    [] Ev.e = "wret" ->
         IF ~UoRetOk(uo) THEN (IF uo.pc = "zlp" THEN <<"wret:zlp-missing", uo.n, cf.op>> ELSE <<"wret:unexpected", uo.pc, uo.n>>)
         ELSE IF Ev.r # UoResult(uo) THEN <<"wret:result", Ev.r, UoResult(uo)>>
         ELSE IF ~UoFrameDelimitedP(UoRet(uo)) THEN <<"inv:FrameDelimited", uo.n, cf.op>> ELSE OK
    [] Ev.e = "dsend" -> OK
    [] Ev.e = "dclr" -> OK
    [] Ev.e = "rcall" -> IF UiCallOk(ui) THEN OK ELSE <<"rcall:busy", ui.pc>>
    [] Ev.e = "br" ->
         IF ui.pc # "call" THEN <<"br:unexpected", ui.pc>>
         ELSE IF Ev.ep # C.iep THEN <<"br:ep", Ev.ep, C.iep>>
         ELSE IF Ev.cap # cf.cap THEN <<"br:cap", Ev.cap, cf.cap>>
         ELSE IF Ev.tmo # ui.tmo THEN <<"br:tmo", Ev.tmo, ui.tmo>>
         ELSE IF ~UiBrOk(ui, cf, Ev.r, Ev.lost) THEN <<"harness", "br:result", Ev.r, Len(ui.q)>>
         ELSE LET i2 == UiBr(ui, cf, Ev.r, Ev.lost) IN
              IF Ev.r = "ok" /\ (Ev.n # i2.res.n \/ (i2.res.off = 0 /\ Ev.h # i2.res.h)) THEN <<"harness", "br:data", Ev.n, i2.res.n>>
              ELSE IF ~UiReadExactP(i2) \/ ~UiTailOnlyAfterTimeoutP(i2) \/ ~UiQueueP(i2) THEN <<"inv:ReadExact">> ELSE OK
    [] Ev.e = "rret" ->
         IF ~UiRetOk(ui) THEN <<"rret:unexpected", ui.pc>>
         ELSE IF Ev.r # UiResult(ui) THEN <<"rret:result", Ev.r, UiResult(ui), ui.res.r>>
         ELSE IF Ev.r = "ok" /\ (Ev.n # ui.res.n \/ (ui.res.off = 0 /\ Ev.h # ui.res.h)) THEN <<"rret:data", Ev.n, ui.res.n>>
         ELSE OK
    [] OTHER -> <<"harness", "unknown usb event", Ev.e>>

UsbStep ==
  CASE Ev.e = "wcall" -> uo' = UoCall(uo, Ev.n, Ev.h, Ev.tmo) /\ UNCHANGED <<ui, ty>>
    [] Ev.e = "bw" -> uo' = BwPost /\ UNCHANGED <<ui, ty>>
    [] Ev.e = "wret" -> uo' = UoRet(uo) /\ UNCHANGED <<ui, ty>>
    [] Ev.e = "dsend" -> ui' = UiSend(ui, Ev.n, Ev.h) /\ UNCHANGED <<uo, ty>>
    [] Ev.e = "dclr" -> ui' = UiClear(ui) /\ UNCHANGED <<uo, ty>>
    [] Ev.e = "rcall" -> ui' = UiCall(ui, Ev.tmo) /\ UNCHANGED <<uo, ty>>
    [] Ev.e = "br" -> ui' = UiBr(ui, cf, Ev.r, Ev.lost) /\ UNCHANGED <<uo, ty>>
    [] Ev.e = "rret" -> ui' = UiRet(ui) /\ UNCHANGED <<uo, ty>>

\* ---------------------------------------------------------------------------------------------- TTY
Hdr(b) == SubSeq(b, 1, Min2(Len(b), 9))
SrPost == TySr(ty, cf, Ev.n, Ev.got)
DirectWrite == ty.wpc = "idle" /\ ty.pc = "idle"          \* a driver talking to the serial object itself (Arygon)
TtyWhy ==
  CASE Ev.e = "emit" -> OK
    [] Ev.e = "rcall" -> IF TyCallOk(ty) THEN OK ELSE <<"rcall:busy", ty.pc, ty.wpc>>
    [] Ev.e = "sr" ->
         IF ty.pc \notin {"h6", "h3", "body"} THEN <<"sr:unexpected", ty.pc, Ev.n, Hdr(ty.buf)>>
         ELSE IF Ev.n # TyNeed(ty) THEN <<"sr:n", ty.pc, Ev.n, TyNeed(ty), Hdr(ty.buf), ty.al>>
         ELSE IF Ev.tv # TySerialTimeout(ty) THEN <<"sr:tv", Ev.tv, TySerialTimeout(ty)>>
         ELSE IF ~TySrOk(ty, Ev.n, Ev.got) THEN <<"harness", "sr:got", Ev.got, Len(ty.stream) - ty.cons>>
         ELSE LET t2 == SrPost IN
              IF C.tol THEN OK
              ELSE IF ~TyNoOverReadP(t2) THEN <<"inv:NoOverRead", ty.pc, Ev.n, Hdr(t2.buf)>>
              ELSE IF ~TyNoBleedP(t2) THEN <<"inv:NoBleed", ty.pc, Ev.n>>
              ELSE IF ~TyTimeoutCleanP(t2) \/ ~TyEioP(t2) THEN <<"inv:TimeoutClean", t2.pc>>
              ELSE IF ~TyReadExactP(t2) THEN <<"inv:ReadExact", t2.to, t2.cons, t2.start>> ELSE OK
    [] Ev.e = "rret" ->
         IF ~TyRetOk(ty) THEN <<"rret:unexpected", ty.pc, Ev.r, Hdr(ty.buf), Len(ty.buf)>>
         ELSE IF Ev.r # TyResult(ty) THEN <<"rret:result", Ev.r, TyResult(ty), Hdr(ty.buf)>>
         ELSE IF Ev.r = "ok" /\ Ev.b # ty.buf THEN <<"rret:data", Len(Ev.b), Len(ty.buf)>>
         ELSE IF ~TyAlignedP(TyRet(ty)) THEN <<"inv:StaysAligned", ty.cons>> ELSE OK
    [] Ev.e = "wcall" -> IF TyWCallOk(ty) THEN OK ELSE <<"wcall:busy", ty.pc, ty.wpc>>
    [] Ev.e = "flush" -> IF ty.wpc # "flush" THEN <<"flush:unexpected", ty.wpc>>
                         ELSE IF ~TyFlushOk(ty, Ev.dropped) THEN <<"harness", "flush:dropped", Ev.dropped>> ELSE OK
    [] Ev.e = "sw" -> IF DirectWrite THEN OK
                      ELSE IF ~TySwOk(ty) THEN <<"sw:unexpected", ty.wpc>>
                      ELSE IF Ev.n # ty.wn \/ Ev.h # ty.wh THEN <<"sw:data", Ev.n, ty.wn>> ELSE OK
    [] Ev.e = "wret" -> IF ~TyWRetOk(ty) THEN <<"wret:unexpected", ty.wpc>>
                        ELSE IF Ev.r # TyWResult(ty) THEN <<"wret:result", Ev.r, TyWResult(ty)>> ELSE OK
    [] Ev.e = "rl" -> IF ty.pc = "idle" /\ ty.wpc = "idle" /\ ty.cons + Ev.got <= Len(ty.stream) THEN OK
                      ELSE <<"harness", "rl", Ev.got>>
    [] OTHER -> <<"harness", "unknown tty event", Ev.e>>

TtyStep ==
  /\ UNCHANGED <<uo, ui>>
  /\ CASE Ev.e = "emit" -> ty' = TyEmit(ty, Ev.b)
       [] Ev.e = "rcall" -> ty' = TyCall(ty, Ev.tmo)
       [] Ev.e = "sr" -> ty' = SrPost
       [] Ev.e = "rret" -> ty' = TyRet(ty)
       [] Ev.e = "wcall" -> ty' = TyWCall(ty, Ev.n, Ev.h)
       [] Ev.e = "flush" -> ty' = TyFlush(ty, Ev.dropped)
       [] Ev.e = "sw" -> ty' = IF DirectWrite THEN ty ELSE TySw(ty, Ev.r = "ok")
       [] Ev.e = "wret" -> ty' = TyWRet(ty)
       [] Ev.e = "rl" -> ty' = TyDirectRead(ty, Ev.got)

Why == IF C.link = "usb" THEN UsbWhy ELSE TtyWhy
Step ==
  /\ l <= Len(T)
  /\ UNCHANGED <<cf, tid>>
  /\ IF Why = OK
     THEN l' = l + 1 /\ (IF C.link = "usb" THEN UsbStep ELSE TtyStep)
     ELSE /\ PrintT(<<"STUCK", Traces[tid].id, l, Ev.e, Why>>)
          /\ l' = Len(T) + 2 /\ UNCHANGED <<uo, ui, ty>>
TSpec == TInit /\ [][Step]_tvars
Done == (l = Len(T) + 1) => PrintT(<<"ACCEPT", Traces[tid].id>>)
=============================================================================
