SPECIFICATION TSpec
CONSTANTS
  Kinds <- TKinds
  MaxSent = 1000000
CONSTRAINT Done
CHECK_DEADLOCK FALSE
