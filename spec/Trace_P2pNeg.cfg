SPECIFICATION TSpec
CONSTANTS
  Kinds <- TKinds
CONSTRAINT Done
CHECK_DEADLOCK FALSE
