SPECIFICATION TSpec
CONSTANTS
  Kinds <- TKinds
  MaxSent = 1000000
  MaxConn = 1000000
  MiuClasses <- TNoClasses
  RwVals <- TNoClasses
CONSTRAINT Done
CHECK_DEADLOCK FALSE
