SPECIFICATION Spec
CONSTANTS
  LongLen = 5
  Layouts <- MCLayouts
  BaseLens = {1, 4, 5, 9}
  Wipes = {}
  Variants = {"asis", "fixed"}
  Cuts = TRUE
  SectorSize = 32
  MaxFaults = 1
  MaxRetry = 1
  Session = FALSE
  Kinds = {"T2", "T1S", "T1D", "T512"}
  Sizes = {4}
  Pads = {0, 1, 2, 3, 4, 5, 6, 7}
  Props = {0, 77}
  CtlFroms = {}
  MemSizes = {1}
  LockBits = {}
  CtlTypes = {2}
  TwoCtl = FALSE
  OldLens = {1, 9}
INVARIANT FxAtomic
INVARIANT AtomicButStraddle
INVARIANT Coherent
CHECK_DEADLOCK FALSE
