------------------------------ MODULE Transport ------------------------------
(* C14, byte-stream layer: the host side of nfc.clf.transport.USB / nfc.clf.transport.TTY as the code
   implements it, against the semantics of the link below it.

   USB bulk OUT  a bulkWrite(data) is cut by the host controller into packets of wMaxPacketSize, the last
                 one shorter iff len(data) is not a multiple (len 0 = one zero-length packet, ZLP).  The
                 device sees ONE transfer (= frame) when a packet shorter than wMaxPacketSize arrives;
                 full packets only accumulate.  USB.write(frame) = bulkWrite(frame), then bulkWrite(b'')
                 iff len(frame) % wMaxPacketSize(OUT endpoint) = 0.
   USB bulk IN   bulkRead(ep, ReadCap, timeout) returns at most one device transfer; nothing pending ->
                 USBErrorTimeout -> IOError(ETIMEDOUT); a transfer longer than ReadCap -> overflow ->
                 IOError(EIO) (link state undefined afterwards); a zero length transfer -> IOError(EIO);
                 a timeout in the middle of a transfer loses the packets already received (the code drops
                 USBErrorTimeout.received): the tail is what the next read() returns (taint).
   TTY           the device emits whole frames, the bytes arrive one by one at arbitrary times; serial
                 read(n) returns n bytes or, on timeout, fewer.  TTY.read = read(6) [ACK -> return]
                 [LEN = LCS = ExtMark -> read(3)] read(LEN+1); nothing -> IOError(ETIMEDOUT), short header
                 -> IOError(EIO), short body -> the truncated frame is RETURNED (no error; the frame
                 validation above the transport rejects it).  Bytes that arrive late are dropped only by the
                 flushInput() that every TTY.write() starts with.

   All actions are pure functions on three state records (uo, ui, ty) and the configuration record cf,
   so that Trace_Transport can apply them to recorded executions with per-trace endpoint sizes.
   Deliberate switches:  ZlpRule "mod" = the code, "eq" = the seeded regression C14-r4 (must violate
   UoFrameDelimited);  ExtRule "lenlcs" = after proposed fix C14-3, "len" = the code as it is (an
   extended frame is assumed as soon as LEN = FFh: a normal frame with LEN = FFh, LCS = 01h is over-read). *)
EXTENDS Naturals, Sequences, SequencesExt, FiniteSets, TLC

CONSTANTS
  Link,        \* "usbout" | "usbin" | "tty": the half of the model that Next explores
  OutPkt,      \* wMaxPacketSize of the bulk OUT endpoint   (real 64,  MC 4)
  InPkt,       \* wMaxPacketSize of the bulk IN endpoint    (real 64,  MC 4)
  ReadCap,     \* length asked from bulkRead                (real 300, MC 10)
  ExtMark,     \* LEN/LCS value announcing an extended frame (real 255, MC 5)
  ZlpRule,     \* "mod" | "eq"
  ExtRule,     \* "lenlcs" | "len"
  WLens,       \* frame lengths the driver writes            (MC 1..13 = 3 packets + 1)
  DLens,       \* lengths of the transfers the device sends  (MC 0..12)
  TFrames,     \* indices of FrameTable the serial device emits
  NFrames,     \* frames per behaviour
  MidTimeout   \* BOOLEAN: bulk IN timeouts in the middle of a transfer are explored

VARIABLES cf, uo, ui, ty
vars == <<cf, uo, ui, ty>>

Min2(a, b) == IF a < b THEN a ELSE b
Max2(a, b) == IF a > b THEN a ELSE b

CfMC == [op |-> OutPkt, ip |-> InPkt, cap |-> ReadCap, x |-> ExtMark, zlp |-> ZlpRule, ext |-> ExtRule]

(* ====================================================================================================
   USB bulk OUT.  A segment <<k, off, n>> stands for bytes off+1 .. off+n of the k-th written frame. *)
Packets(k, base, n, mp) ==
  IF n = 0 THEN << <<k, base, 0>> >>
  ELSE [i \in 1..((n + mp - 1) \div mp) |->
           <<k, base + (i - 1) * mp, IF i * mp <= n THEN mp ELSE n - (i - 1) * mp>>]

UoInit == [pc |-> "idle", k |-> 0, n |-> 0, h |-> 0, tmo |-> 0, dbuf |-> <<>>, dlast |-> <<>>, nd |-> 0,
           broken |-> FALSE, err |-> "-"]

NeedZlp(c, n) == IF c.zlp = "mod" THEN n % c.op = 0 ELSE n = c.op

\* write(frame, tmo) entered
UoCallOk(o) == o.pc = "idle"
UoCall(o, n, h, tmo) == [o EXCEPT !.pc = "data", !.k = @ + 1, !.n = n, !.h = h, !.tmo = tmo]

\* the device takes the packets of one bulkWrite: only the last one can be short
DevTake(o, pk, c) ==
  LET all == o.dbuf \o pk IN
  IF pk[Len(pk)][3] < c.op THEN [o EXCEPT !.dbuf = <<>>, !.dlast = all, !.nd = @ + 1]
  ELSE [o EXCEPT !.dbuf = all]

\* the bulkWrite the code has to issue next: <<length, is it the frame itself>>
UoNextBw(o) == IF o.pc = "data" THEN o.n ELSE 0
UoBwOk(o) == o.pc \in {"data", "zlp"}
UoBw(o, c) ==
  LET pk == IF o.pc = "data" THEN Packets(o.k, 0, o.n, c.op) ELSE Packets(o.k, o.n, 0, c.op)
      d == DevTake(o, pk, c)
  IN [d EXCEPT !.pc = IF o.pc = "data" /\ NeedZlp(c, o.n) THEN "zlp" ELSE "ret"]
\* the bulkWrite raised (kind: "timeout" | "nodev" | "io") after `sent` bytes (whole packets) went out
UoBwFailOk(o, c, sent) == /\ o.pc \in {"data", "zlp"}
                          /\ sent % c.op = 0
                          /\ sent <= UoNextBw(o)
                          /\ (sent = UoNextBw(o) => sent = 0)
UoBwFail(o, c, kind, sent) ==
  LET d == IF sent > 0 THEN [o EXCEPT !.dbuf = @ \o Packets(o.k, 0, sent, c.op)] ELSE o
  IN [d EXCEPT !.pc = "fail", !.broken = TRUE, !.err = kind]

Errno(kind) == CASE kind = "timeout" -> "ETIMEDOUT" [] kind = "nodev" -> "ENODEV" [] OTHER -> "EIO"
UoRetOk(o) == o.pc \in {"ret", "fail"}
UoResult(o) == IF o.pc = "ret" THEN "ok" ELSE Errno(o.err)
UoRet(o) == [o EXCEPT !.pc = "idle"]

SegLen(t) == FoldLeft(LAMBDA a, x : a + x[3], 0, t)        \* bytes in a transfer
\* the transfer t is exactly frame k of length n: same frame, contiguous from offset 0, complete
IntactSegs(t, k, n) ==
  /\ t # <<>>
  /\ \A i \in DOMAIN t : t[i][1] = k
  /\ t[1][2] = 0
  /\ \A i \in 1..(Len(t) - 1) : t[i + 1][2] = t[i][2] + t[i][3]
  /\ t[Len(t)][2] + t[Len(t)][3] = n
OneFrame(t) == \A i, j \in DOMAIN t : t[i][1] = t[j][1]

\* every frame written is delivered to the device exactly once, intact and delimited
UoFrameDelimitedP(o) ==
  (o.pc = "idle" /\ ~o.broken) =>
      /\ o.dbuf = <<>>
      /\ o.nd = o.k
      /\ (o.k > 0 => IntactSegs(o.dlast, o.k, o.n))
\* no transfer (complete or pending) holds bytes of two frames
UoNoBleedP(o) == ~o.broken => (OneFrame(o.dlast) /\ OneFrame(o.dbuf))
\* write() reports success only for a delimited frame; after a failed bulkWrite it raises (and whatever part of the
\* frame went out stays undelimited in the device: nothing is promised for later frames, `broken`)
UoResultP(o) == (o.pc = "ret" /\ ~o.broken) => (o.dbuf = <<>> /\ IntactSegs(o.dlast, o.k, o.n))

(* ====================================================================================================
   USB bulk IN.  q = transfers the device has queued: [j, n, h, off] (off > 0: head partly lost). *)
UiInit == [pc |-> "idle", q |-> <<>>, ns |-> 0, nr |-> 0, tmo |-> 0,
           res |-> [r |-> "-", n |-> 0, h |-> 0, j |-> 0, off |-> 0], taint |-> FALSE, broken |-> FALSE]
NoRes(r) == [r |-> r, n |-> 0, h |-> 0, j |-> 0, off |-> 0]

UiSend(i, n, h) == [i EXCEPT !.q = Append(@, [j |-> i.ns + 1, n |-> n, h |-> h, off |-> 0]), !.ns = @ + 1]
UiClear(i) == [i EXCEPT !.q = <<>>]              \* the device drops what it had pending (new command)
UiCallOk(i) == i.pc = "idle"
UiCall(i, tmo) == [i EXCEPT !.pc = "call", !.tmo = tmo]

Rem(i) == i.q[1].n - i.q[1].off
\* outcome classes of one bulkRead; p = bytes lost by a timeout in the middle of the head transfer
UiBrOk(i, c, r, p) ==
  /\ i.pc = "call"
  /\ CASE r = "ok"       -> i.q # <<>> /\ Rem(i) <= c.cap /\ p = 0
       [] r = "overflow" -> i.q # <<>> /\ Rem(i) > c.cap /\ p = 0
       [] r = "timeout"  -> IF p = 0 THEN i.q = <<>> /\ i.tmo > 0
                            ELSE i.q # <<>> /\ p % c.ip = 0 /\ p < Rem(i) /\ i.tmo > 0
       [] r \in {"nodev", "io"} -> p = 0
       [] OTHER -> FALSE
UiBr(i, c, r, p) ==
  CASE r = "ok" -> [i EXCEPT !.pc = "got", !.q = Tail(@), !.nr = @ + 1,
                             !.res = [r |-> "ok", n |-> Rem(i), h |-> IF i.q[1].off = 0 THEN i.q[1].h ELSE 0,
                                      j |-> i.q[1].j, off |-> i.q[1].off]]
    [] r = "overflow" -> [i EXCEPT !.pc = "got", !.q = Tail(@), !.nr = @ + 1, !.broken = TRUE, !.res = NoRes(r)]
    [] r = "timeout" /\ p = 0 -> [i EXCEPT !.pc = "got", !.res = NoRes(r)]
    [] r = "timeout" /\ p > 0 -> [i EXCEPT !.pc = "got", !.q[1].off = @ + p, !.taint = TRUE, !.res = NoRes(r)]
    [] OTHER -> [i EXCEPT !.pc = "got", !.broken = TRUE, !.res = NoRes(r)]

UiRetOk(i) == i.pc = "got"
UiResult(i) == CASE i.res.r = "ok" /\ i.res.n > 0 -> "ok"
                 [] i.res.r = "ok" -> "EIO"                 \* "bulk read returned zero data"
                 [] i.res.r = "timeout" -> "ETIMEDOUT"
                 [] i.res.r = "nodev" -> "ENODEV"
                 [] OTHER -> "EIO"
UiRet(i) == [i EXCEPT !.pc = "idle"]

\* every transfer the device sends is returned by read() exactly once, intact and in order - or read() raises
UiReadExactP(i) ==
  (i.pc = "got" /\ i.res.r = "ok" /\ ~i.taint /\ ~i.broken) => (i.res.off = 0 /\ i.res.j = i.nr)
\* documented hazard: only after a mid-transfer timeout can a read return a frame without its head
UiTailOnlyAfterTimeoutP(i) == (i.pc = "got" /\ i.res.r = "ok" /\ i.res.off > 0) => i.taint
UiQueueP(i) == \A a \in DOMAIN i.q : i.q[a].j = i.nr + a

(* ====================================================================================================
   TTY.  stream = the bytes of all frames the device has emitted (history trimmed when everything was
   consumed), ends = their end offsets, arr = how many have arrived at the host, cons = how many the
   host has taken (read or flushed).  start/al/to/over describe the current read() call. *)
TyInit == [stream |-> <<>>, ends |-> <<>>, arr |-> 0, cons |-> 0, pc |-> "idle", ext |-> FALSE, buf |-> <<>>,
           start |-> 0, al |-> TRUE, to |-> FALSE, over |-> FALSE, dirty |-> FALSE, tmo |-> 0,
           wpc |-> "idle", wn |-> 0, wh |-> 0, werr |-> FALSE, resync |-> FALSE]

Aligned(t, p) == p = 0 \/ \E e \in DOMAIN t.ends : t.ends[e] = p
\* end of the frame that starts at the boundary p (p < Len(stream))
FrameEnd(t, p) == t.ends[CHOOSE e \in DOMAIN t.ends : t.ends[e] > p /\ (e = 1 \/ t.ends[e - 1] <= p)]

TyEmit(t, f) ==
  IF t.pc = "idle" /\ t.cons = Len(t.stream)
  THEN [t EXCEPT !.stream = f, !.ends = <<Len(f)>>, !.arr = 0, !.cons = 0]       \* history trimmed
  ELSE [t EXCEPT !.stream = @ \o f, !.ends = Append(@, Len(t.stream) + Len(f))]
TyArriveOk(t) == t.arr < Len(t.stream)
TyArrive(t) == [t EXCEPT !.arr = @ + 1]

TyCallOk(t) == t.pc = "idle" /\ t.wpc = "idle"
TyCall(t, tmo) == [t EXCEPT !.pc = "h6", !.buf = <<>>, !.ext = FALSE, !.start = t.cons, !.tmo = tmo,
                            !.al = Aligned(t, t.cons), !.to = FALSE]
\* serial timeout the code has to set for a read(timeout ms) call, in ms
TySerialTimeout(t) == Max2(t.tmo, 50)

Ack6 == <<0, 0, 255, 0, 255, 0>>
IsExt(b, c) == b[4] = c.x /\ (c.ext = "len" \/ b[5] = c.x)
BodyLen(t) == IF t.ext THEN t.buf[6] * 256 + t.buf[7] ELSE t.buf[4]
TyNeed(t) == CASE t.pc = "h6" -> 6 [] t.pc = "h3" -> 3 [] t.pc = "body" -> BodyLen(t) + 1

TySrOk(t, n, got) == /\ t.pc \in {"h6", "h3", "body"}
                     /\ n = TyNeed(t)
                     /\ got <= n
                     /\ t.cons + got <= Len(t.stream)
\* one serial read(n) that returned `got` bytes (got < n: it timed out)
TySr(t, c, n, got) ==
  LET nb == t.buf \o SubSeq(t.stream, t.cons + 1, t.cons + got)
      known == t.al /\ t.start < Len(t.stream)
      npc == CASE t.pc = "h6" -> (IF Len(nb) = 0 THEN "eto" ELSE IF nb = Ack6 THEN "ret"
                                  ELSE IF Len(nb) < 6 THEN "eio" ELSE IF IsExt(nb, c) THEN "h3" ELSE "body")
               [] t.pc = "h3" -> (IF Len(nb) < 9 THEN "eio" ELSE "body")
               [] OTHER -> "ret"
  IN [t EXCEPT !.buf = nb, !.cons = @ + got, !.pc = npc, !.to = @ \/ got < n,
               !.ext = @ \/ (t.pc = "h6" /\ npc = "h3"),
               !.over = @ \/ (known /\ t.cons + n > FrameEnd(t, t.start))]

TyRetOk(t) == t.pc \in {"ret", "eto", "eio"}
TyResult(t) == CASE t.pc = "ret" -> "ok" [] t.pc = "eto" -> "ETIMEDOUT" [] OTHER -> "EIO"
TyRet(t) == [t EXCEPT !.pc = "idle", !.dirty = @ \/ (t.to /\ ~Aligned(t, t.cons)),
                          !.buf = <<>>, !.ext = FALSE, !.start = 0, !.al = TRUE, !.to = FALSE, !.tmo = 0]

\* TTY.write(frame) = flushInput(); serial.write(frame)
TyWCallOk(t) == t.pc = "idle" /\ t.wpc = "idle"
TyWCall(t, n, h) == [t EXCEPT !.wpc = "flush", !.wn = n, !.wh = h, !.werr = FALSE]
TyFlushOk(t, dropped) == t.wpc = "flush" /\ t.cons + dropped <= Len(t.stream)
TyFlush(t, dropped) ==
  LET nc == t.cons + dropped IN
  [t EXCEPT !.wpc = "sw", !.cons = nc, !.arr = Max2(@, nc), !.resync = t.dirty /\ nc = Len(t.stream),
            !.dirty = IF nc = Len(t.stream) THEN FALSE ELSE (@ \/ ~Aligned(t, nc))]
TySwOk(t) == t.wpc = "sw"
TySw(t, ok) == [t EXCEPT !.wpc = "ret", !.werr = ~ok]
TyWRetOk(t) == t.wpc = "ret"
TyWResult(t) == IF t.werr THEN "EIO" ELSE "ok"
TyWRet(t) == [t EXCEPT !.wpc = "idle", !.wn = 0, !.wh = 0, !.werr = FALSE, !.resync = FALSE]
\* direct access of a driver to the serial object (Arygon MCU commands): bytes written / a line read
TyDirectRead(t, got) == [t EXCEPT !.cons = @ + got, !.arr = Max2(@, t.cons + got)]

Reading(t) == t.pc \in {"h6", "h3", "body", "ret", "eto", "eio"}
Known(t) == Reading(t) /\ t.al /\ t.start < Len(t.stream)

\* ETIMEDOUT consumed nothing: the next read() sees the frame from its first byte
TyTimeoutCleanP(t) == (t.pc = "eto") => (t.cons = t.start /\ t.to)
\* EIO is raised only when the header was cut by a timeout
TyEioP(t) == (t.pc = "eio") => t.to
\* an aligned read() never asks for more bytes than the frame it started has left ...
TyNoOverReadP(t) == ~t.over
\* ... so that it never takes bytes of the next frame
TyNoBleedP(t) == Known(t) => t.cons <= FrameEnd(t, t.start)
\* an aligned read() without timeout returns exactly the next frame; with a timeout in the body it
\* returns a proper prefix of it (documented behaviour of the code: no error at this layer)
TyReadExactP(t) ==
  (t.pc = "ret" /\ Known(t)) =>
      IF ~t.to THEN /\ t.cons = FrameEnd(t, t.start)
                    /\ t.buf = SubSeq(t.stream, t.start + 1, FrameEnd(t, t.start))
      ELSE /\ t.cons < FrameEnd(t, t.start)
           /\ t.buf = SubSeq(t.stream, t.start + 1, t.cons)
\* without a timeout inside a frame and without a flush inside a frame the reader stays aligned for ever
TyAlignedP(t) == (t.pc = "idle" /\ ~t.dirty) => Aligned(t, t.cons)

(* ====================================================================================================
   Exhaustive model *)
Sum(s) == FoldLeft(LAMBDA a, x : a + x, 0, s)
Dcs(d) == (256 - (Sum(d) % 256)) % 256
StdFrame(d) == <<0, 0, 255, Len(d), (256 - Len(d)) % 256>> \o d \o <<Dcs(d), 0>>
ExtFrame(d, x) == <<0, 0, 255, x, x, (Len(d) \div 256), (Len(d) % 256), (512 - (Len(d) \div 256) - (Len(d) % 256)) % 256>>
                  \o d \o <<Dcs(d), 0>>
Data(n) == [i \in 1..n |-> IF i = 1 THEN 213 ELSE (2 * i + 1) % 256]
FrameTable(f, x) == CASE f = 1 -> Ack6
                      [] f = 2 -> StdFrame(<<127>>)                 \* the syntax error frame, LEN 1
                      [] f = 3 -> StdFrame(Data(2))
                      [] f = 4 -> StdFrame(Data(3))
                      [] f = 5 -> StdFrame(Data(x))                 \* normal frame with LEN = ExtMark, LCS # ExtMark
                      [] f = 6 -> ExtFrame(Data(2), x)
                      [] f = 7 -> ExtFrame(Data(4), x)

Init == /\ cf = CfMC
        /\ uo = UoInit
        /\ ui = UiInit
        /\ ty = TyInit

UoNext ==
  \/ \E n \in WLens : UoCallOk(uo) /\ uo.k < NFrames /\ uo' = UoCall(uo, n, uo.k + 1, 0)
  \/ UoBwOk(uo) /\ uo' = UoBw(uo, cf)
  \/ \E kind \in {"timeout", "nodev"} : \E sent \in {0, OutPkt} :
        UoBwFailOk(uo, cf, sent) /\ (kind = "nodev" => sent = 0) /\ ~uo.broken /\ uo' = UoBwFail(uo, cf, kind, sent)
  \/ UoRetOk(uo) /\ uo' = UoRet(uo)

UiNext ==
  \/ \E n \in DLens : ui.ns < NFrames /\ ui' = UiSend(ui, n, ui.ns + 1)
  \/ UiCallOk(ui) /\ ~ui.broken /\ ui' = UiCall(ui, 100)
  \/ \E r \in {"ok", "overflow", "timeout", "nodev"} : \E p \in {0} \cup (IF MidTimeout THEN {InPkt, 2 * InPkt} ELSE {}) :
        UiBrOk(ui, cf, r, p) /\ ui' = UiBr(ui, cf, r, p)
  \/ UiRetOk(ui) /\ ui' = UiRet(ui)

TyNext ==
  \/ \E f \in TFrames : Len(ty.ends) < NFrames /\ ty.arr = Len(ty.stream) /\ ty' = TyEmit(ty, FrameTable(f, ExtMark))
  \/ TyArriveOk(ty) /\ ty' = TyArrive(ty)
  \/ TyCallOk(ty) /\ ty' = TyCall(ty, 100)
  \/ /\ ty.pc \in {"h6", "h3", "body"}
     /\ LET n == TyNeed(ty)  av == ty.arr - ty.cons IN
        ty' = TySr(ty, cf, n, IF av >= n THEN n ELSE av)          \* fewer than n have arrived: the read may time out
  \/ TyRetOk(ty) /\ ty' = TyRet(ty)
  \/ TyWCallOk(ty) /\ ty' = TyWCall(ty, 1, 1)
  \/ TyFlushOk(ty, ty.arr - ty.cons) /\ ty' = TyFlush(ty, ty.arr - ty.cons)
  \/ TySwOk(ty) /\ ty' = TySw(ty, TRUE)
  \/ TyWRetOk(ty) /\ ty' = TyWRet(ty)

Next == \/ Link = "usbout" /\ UoNext /\ UNCHANGED <<cf, ui, ty>>
        \/ Link = "usbin" /\ UiNext /\ UNCHANGED <<cf, uo, ty>>
        \/ Link = "tty" /\ TyNext /\ UNCHANGED <<cf, uo, ui>>
Spec == Init /\ [][Next]_vars

\* invariants of the exhaustive runs
FrameDelimited == UoFrameDelimitedP(uo)
NoBleed == UoNoBleedP(uo) /\ TyNoBleedP(ty)
WriteResult == UoResultP(uo)
ReadExact == UiReadExactP(ui) /\ UiTailOnlyAfterTimeoutP(ui) /\ UiQueueP(ui) /\ TyReadExactP(ty)
TimeoutClean == TyTimeoutCleanP(ty) /\ TyEioP(ty)
NoOverRead == TyNoOverReadP(ty)
StaysAligned == TyAlignedP(ty)

\* reachability witnesses (must be violated)
W_ExactMultiple == ~(uo.pc = "idle" /\ uo.k > 0 /\ ~uo.broken /\ uo.n % OutPkt = 0 /\ uo.n > OutPkt)
W_ZlpSent == ~(uo.pc = "ret" /\ uo.dlast # <<>> /\ uo.dlast[Len(uo.dlast)][3] = 0)
W_ThreePackets == ~(uo.pc = "idle" /\ ~uo.broken /\ Len(uo.dlast) = 3 /\ uo.dlast[3][3] > 0)
W_WriteFailed == ~(uo.pc = "idle" /\ uo.broken /\ uo.dbuf # <<>>)
W_ReadFrame == ~(ui.pc = "got" /\ ui.res.r = "ok" /\ ui.res.n > InPkt /\ ~ui.taint)
W_ReadTimeout == ~(ui.pc = "got" /\ ui.res.r = "timeout" /\ ~ui.taint)
W_Oversize == ~(ui.pc = "got" /\ ui.res.r = "overflow")
W_ZeroLength == ~(ui.pc = "got" /\ ui.res.r = "ok" /\ ui.res.n = 0)
W_TailAfterTimeout == ~(ui.pc = "got" /\ ui.res.r = "ok" /\ ui.res.off > 0)
W_SplitAcross3Reads == ~(ty.pc = "ret" /\ ty.ext /\ ~ty.to /\ ty.al)             \* read(6), read(3), read(LEN+1)
W_ExtendedFrame == ~(ty.pc = "ret" /\ ty.ext /\ ~ty.to /\ ty.al /\ Len(ty.buf) = 10 + ty.buf[7])
W_AckThenFrame == ~(ty.pc = "ret" /\ ~ty.to /\ ty.al /\ ty.start = 6 /\ Len(ty.buf) > 6)
W_NormalLenMark == ~(ty.pc = "ret" /\ ~ty.ext /\ ~ty.to /\ ty.al /\ Len(ty.buf) = ExtMark + 7)
W_Truncated == ~(ty.pc = "ret" /\ ty.to /\ ty.al)
W_HeaderEio == ~(ty.pc = "eio")
W_Timeout == ~(ty.pc = "eto")
W_Misaligned == ~(ty.pc = "idle" /\ ty.dirty /\ ~Aligned(ty, ty.cons))
W_Resynced == ~(ty.wpc = "sw" /\ ty.resync)
=============================================================================
