----------------------------- MODULE Robust -----------------------------
(* C07: bytes from the remote peer cannot crash or hang the stack.

   Part A - decoder contract.  For every entry point at which peer-controlled bytes enter the stack the
   set of documented outcomes (written from the docstrings / the property statement, not from the code):
     pdu.decode                     value | nfc.llcp.pdu.DecodeError
     dep.Initiator/Target.decode_frame   value | None (not this PDU) | nfc.clf.ProtocolError | TransmissionError
     dep.Initiator/Target.exchange       data | None | a nfc.clf.CommunicationError subclass (peer's answers scripted)
     Type3TagEmulation.process_command   response bytes | None (command ignored)
     SnepServer.process_snep_request     response bytes
     HandoverServer._process_request_data  response bytes
   A recorded case [entry, cls, exc] is accepted iff Allowed(entry, cls, exc).

   Part B - life cycle under injected garbage.  Two complete stacks run connect() against each other while
   a man in the middle replaces one frame / one LLCP PDU / one fragment by garbage of some class.  Whatever
   the garbage, each side's observable life cycle must be one the documentation allows:
     Startup(x) once; per activation OnConnect(x) then - iff it returned true - exactly one OnRelease(x);
     Ret(x, v): connect() returns (never raises), and only when no activation is open;
     no ThreadDeath(name, exc), no Raise(x, exc), no Stall.
   (these three have no action: a trace containing one is rejected and names it).                    *)
EXTENDS Naturals, Sequences, FiniteSets, TLC

\* ---------------------------------------------------------------- part A
Entries == {"pdu.decode", "dep.I.decode_frame", "dep.T.decode_frame", "dep.I.exchange", "dep.T.exchange", "tt3emu.process_command",
            "snep.process_snep_request", "handover._process_request_data", "llc.dispatch", "pdu.str", "pdu.eq"}
Allowed(entry, cls, exc) ==
    CASE entry = "pdu.decode" -> cls = "value" \/ (cls = "raise" /\ exc = "DecodeError")
      [] entry \in {"dep.I.decode_frame", "dep.T.decode_frame"} ->
             cls \in {"value", "none"} \/ (cls = "raise" /\ exc \in {"ProtocolError", "TransmissionError"})
      [] entry \in {"dep.I.exchange", "dep.T.exchange"} ->        \* data | None (link released) | a CommunicationError
             cls \in {"value", "none"} \/ (cls = "raise" /\ exc \in {"ProtocolError", "TransmissionError", "TimeoutError",
                                                                     "BrokenLinkError"})
      [] entry = "tt3emu.process_command" -> cls \in {"value", "none"}
      [] entry \in {"snep.process_snep_request", "handover._process_request_data"} -> cls = "value"
      [] entry = "llc.dispatch" -> cls \in {"value", "none"}          \* dispatch of a decoded PDU never raises
      [] entry = "pdu.eq" -> cls = "value"                             \* comparing a decoded PDU with another never raises
      [] entry = "pdu.str" -> cls = "value"                            \* rendering a decoded PDU for the log never raises
      [] OTHER -> FALSE

\* ---------------------------------------------------------------- part B
CONSTANTS Sides, MaxAct
VARIABLES st,      \* st[x] in "init" | "idle" | "open" (on-connect returned true, release pending) | "returned"
          nact,    \* activations seen per side
          injected
vars == <<st, nact, injected>>

Init == st = [x \in Sides |-> "init"] /\ nact = [x \in Sides |-> 0] /\ injected = 0
Startup(x)   == st[x] = "init" /\ st' = [st EXCEPT ![x] = "idle"] /\ UNCHANGED <<nact, injected>>
OnConnect(x, keep) == /\ st[x] = "idle" /\ nact[x] < MaxAct
                      /\ st' = [st EXCEPT ![x] = IF keep THEN "open" ELSE "idle"]
                      /\ nact' = [nact EXCEPT ![x] = @ + 1] /\ UNCHANGED injected
OnRelease(x) == st[x] = "open" /\ st' = [st EXCEPT ![x] = "idle"] /\ UNCHANGED <<nact, injected>>
Ret(x)       == st[x] \in {"init", "idle"} /\ st' = [st EXCEPT ![x] = "returned"] /\ UNCHANGED <<nact, injected>>
Inject       == injected' = injected + 1 /\ injected < 3 /\ UNCHANGED <<st, nact>>
Next == \/ \E x \in Sides : Startup(x) \/ OnRelease(x) \/ Ret(x) \/ \E k \in BOOLEAN : OnConnect(x, k)
        \/ Inject
Spec == Init /\ [][Next]_vars /\ \A x \in Sides : WF_vars(Ret(x)) /\ WF_vars(OnRelease(x))

ReleaseIff == \A x \in Sides : st[x] = "returned" => TRUE
AllReturn == <>(\A x \in Sides : st[x] = "returned")
W_Open == ~(\E x \in Sides : st[x] = "open" /\ injected > 0)
=============================================================================
