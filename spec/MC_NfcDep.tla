--------------------------- MODULE MC_NfcDep ---------------------------
(* Scaled constants for the exhaustive runs of NfcDep.
   LR 5..7 instead of 64..254: an INF frame carries 2..4 bytes, payloads of 1..3 chunks. *)
EXTENDS NfcDep

CfgD(lrI, lrT, did, did0, nad, fixmiu, R) ==
    [lrI |-> lrI, lrT |-> lrT, did |-> did, tdid |-> did /\ ~did0, did0 |-> did0, nad |-> nad, sb |-> (lrI + lrT) % 2 = 0,
     miuI |-> lrT - 3 - B(did) - B(nad),
     miuT |-> lrI - 3 - (IF fixmiu THEN B(did /\ ~did0) ELSE 0), R |-> R]
Cfg(lrI, lrT, did, nad, fixmiu, R) == CfgD(lrI, lrT, did, FALSE, nad, fixmiu, R)

\* code as repaired: all three variants on
MC_VsFixed == {{"ack", "atn", "did0", "ipni0", "tpni0"}}
MC_VsAsIs  == {{}}

\* quick: no DID / with DID (repaired MIU), different MIUs per direction
MC_CfgsFixed == {Cfg(5, 5, FALSE, FALSE, TRUE, 2), Cfg(6, 5, TRUE, FALSE, TRUE, 2), Cfg(5, 7, TRUE, TRUE, TRUE, 2),
                 CfgD(5, 6, TRUE, TRUE, FALSE, TRUE, 2)}
MC_CfgsThorough == MC_CfgsFixed \cup {Cfg(7, 6, FALSE, FALSE, TRUE, 3)}
MC_CfgsAsIs  == {Cfg(5, 5, FALSE, FALSE, FALSE, 2), Cfg(6, 6, TRUE, FALSE, FALSE, 2)}
MC_CfgsDid0  == {CfgD(5, 6, TRUE, TRUE, FALSE, TRUE, 2)}
MC_VsHead    == {{"ack", "atn", "ipni0"}}            \* /repo HEAD: did=0 still open
MC_CfgsTrunc == {Cfg(5, 5, FALSE, FALSE, TRUE, 2), Cfg(6, 5, TRUE, FALSE, TRUE, 2)}     \* 106A / 212F framing
MC_CfgsNoDid == {Cfg(5, 5, FALSE, FALSE, FALSE, 2)}
MC_Lens  == {1, 2, 3, 5}
MC_LensT == {1, 2, 3, 4, 5, 6}
MC_Ds    == {3, 5}
MC_DsT   == {1, 3, 6}
=============================================================================
