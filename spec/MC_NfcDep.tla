--------------------------- MODULE MC_NfcDep ---------------------------
(* Scaled constants for the exhaustive runs of NfcDep.
   LR 5..7 instead of 64..254: an INF frame carries 2..4 bytes, payloads of 1..3 chunks. *)
EXTENDS NfcDep

\* general bytes: a token per configuration (0: none), so that sessions differ in them too
CfgD(lrI, lrT, did, did0, nad, fixmiu, R) ==
    LET a == [lrI |-> lrI, lrT |-> lrT, did |-> did, tdid |-> did /\ ~did0, did0 |-> did0, nad |-> nad,
              sb |-> (lrI + lrT) % 2 = 0, R |-> R, tR |-> R,
              gbI |-> IF nad THEN lrI ELSE 0, gbT |-> IF nad THEN lrT ELSE 0] IN
    [lrI |-> lrI, lrT |-> lrT, did |-> did, tdid |-> did /\ ~did0, did0 |-> did0, nad |-> nad, sb |-> a.sb,
     miuI |-> lrT - 3 - B(did) - B(nad),
     miuT |-> lrI - 3 - (IF fixmiu THEN B(did /\ ~did0) ELSE 0), R |-> R, tR |-> R, gbI |-> a.gbI, gbT |-> a.gbT,
     e |-> a, prev |-> NoPrev]
Cfg(lrI, lrT, did, nad, fixmiu, R) == CfgD(lrI, lrT, did, FALSE, nad, fixmiu, R)

\* code as repaired: all three variants on
MC_VsFixed == {{"ack", "atn", "did0", "ipni0", "tpni0", "freshI", "freshT"}}
MC_VsAsIs  == {{"freshI", "freshT"}}
\* prediction: one of the two objects assigns its optional attributes only when the new session has them
MC_VsStale == {{"ack", "atn", "did0", "ipni0", "tpni0", "freshI"}, {"ack", "atn", "did0", "ipni0", "tpni0", "freshT"}}

\* quick: no DID / with DID (repaired MIU), different MIUs per direction
MC_CfgsFixed == {Cfg(5, 5, FALSE, FALSE, TRUE, 2), Cfg(6, 5, TRUE, FALSE, TRUE, 2), Cfg(5, 7, TRUE, TRUE, TRUE, 2),
                 CfgD(5, 6, TRUE, TRUE, FALSE, TRUE, 2)}
MC_CfgsThorough == MC_CfgsFixed \cup {Cfg(7, 6, FALSE, FALSE, TRUE, 3)}
MC_CfgsAsIs  == {Cfg(5, 5, FALSE, FALSE, FALSE, 2), Cfg(6, 6, TRUE, FALSE, FALSE, 2)}
MC_CfgsDid0  == {CfgD(5, 6, TRUE, TRUE, FALSE, TRUE, 2)}
MC_VsHead    == {{"ack", "atn", "ipni0", "freshI", "freshT"}}            \* /repo HEAD: did=0 still open
MC_CfgsTrunc == {Cfg(5, 5, FALSE, FALSE, TRUE, 2), Cfg(6, 5, TRUE, FALSE, TRUE, 2)}     \* 106A / 212F framing
MC_CfgsNoDid == {Cfg(5, 5, FALSE, FALSE, FALSE, 2)}
\* sessions of the same two objects: no DID / no NAD / general bytes, 106A  <->  DID, NAD, no general bytes, larger LR,
\* 212F  <->  DID only, smaller LR; every ordered pair, so each optional field goes present -> absent and absent -> present
MC_CfgsSess  == {Cfg(6, 6, FALSE, FALSE, TRUE, 2), Cfg(7, 8, TRUE, TRUE, TRUE, 2), Cfg(5, 6, TRUE, FALSE, TRUE, 2)}
MC_Lens  == {1, 2, 3, 5}
MC_LensT == {1, 2, 3, 4, 5, 6}
MC_Ds    == {3, 5}
MC_LensS == {1, 4}
MC_DsS   == {3, 5}
MC_DsT   == {1, 3, 6}
=============================================================================
