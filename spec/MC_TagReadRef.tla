-------------------------- MODULE MC_TagReadRef --------------------------
(* bounded totality of the reference reader: every image of an N-byte Type 2 data area over the
   alphabet of structurally relevant bytes is one initial state; the single step evaluates RefRead and
   WellFormed (TLC fails with an evaluation error if either is not total) and the invariants say that
   the answer lies inside the area and that a well-formed image always yields its NDEF TLV. *)
EXTENDS TagReadRef
CONSTANTS N, Alphabet
VARIABLES img, res
MemOf(f) == <<4, 17, 34, 0, 51, 68, 85, 102, 0, 72, 0, 0, 225, 16, N \div 8, 0>> \o [i \in 1..N |-> f[i]]
RInit == img \in [1..N -> Alphabet] /\ res = [st |-> "new"]
RNext == /\ res.st = "new"
         /\ LET m == MemOf(img) r == RefRead(m, 16, 16 + N) IN
              res' = [st |-> "done", r |-> r, wf |-> WellFormed(m, 16, 16 + N)]
         /\ UNCHANGED img
RSpec == RInit /\ [][RNext]_<<img, res>>
RefInBounds == res.st = "done" =>
                  (res.r.found => /\ res.r.off >= 16 /\ res.r.off + res.r.len <= 16 + N
                                  /\ res.r.tlv >= 16 /\ res.r.tlv < res.r.off
                                  /\ MemOf(img)[res.r.tlv + 1] = 3)
RefFindsWellFormed == res.st = "done" => (res.wf => res.r.found)
W_Found == ~(res.st = "done" /\ res.r.found /\ res.r.len > 0)
W_WfLong == ~(res.st = "done" /\ res.wf /\ res.r.tlv > 16)
W_NotWf == ~(res.st = "done" /\ ~res.wf /\ res.r.found)
=============================================================================
