SPECIFICATION Spec
CONSTANTS
  MaxN = 3
  Bursts = {1, 3}
  Protos = {"T1", "T2"}
  NRetries = {1}
  Buggy = TRUE
