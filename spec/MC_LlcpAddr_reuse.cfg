SPECIFICATION Spec
CONSTANTS
  NSap = 8
  NamedLo = 3
  DynLo = 5
  WksAddr = 2
  Names = {"n1"}
  MaxSock <- Max32r
  KindSeq <- SeqReuse
  Roles <- ReuseOps
  Msgs = {1}
  BindAddrs <- BA56
  Dsts = {5}
  RecvBuf = 2
  Backlog = 1
  WksCheck = TRUE
  SnlClean = TRUE
  KeepDead = FALSE
  Miu <- MiuAB
  Lens = {1}
  InsertLast = FALSE
  HdrInMiu = FALSE
VIEW View
INVARIANT OneAddrPerSocket
INVARIANT NoDoubleAlloc
INVARIANT RangesRespected
INVARIANT FreedOnLastClose
INVARIANT AddrPoolConserved
INVARIANT Datagram
INVARIANT LiveFirst
PROPERTY ResolveRight
PROPERTY InUseRight
PROPERTY ConnectByName
PROPERTY DatagramStep
PROPERTY Delivered
CHECK_DEADLOCK FALSE
