SPECIFICATION Spec
CONSTANTS
  Tier = "thorough"
INVARIANT OutcomeDocumented
INVARIANT TableOk
CHECK_DEADLOCK FALSE
