--------------------------- MODULE LlcpDlc ---------------------------
(* One LLCP data link connection between two endpoints A and B, written to be
   bound to nfc/llcp/tco.py (DataLinkConnection) and the collect()/dispatch()
   pair of nfc/llcp/llc.py.  One action per critical section of the code:

     Send      tco.py  DataLinkConnection.send   (MSG_DONTWAIT flavour)
     Recv      tco.py  DataLinkConnection.recv   (called only when recv_queue # <<>>)
     SetBusy   tco.py  setsockopt(SO_RCVBSY)
     PollAcks  tco.py  poll("acks", 0)
     Collect   llc.py  collect(): first dequeue, voluntary ack, aggregation loop, trailing ack
     Deliver   llc.py  dispatch(): the PDUs of one frame are enqueued at the peer in order
     CloseBegin / CloseEnd   tco.py close(): DISC, wait for DM (two steps: the code blocks)

   The endpoint state is a record and every critical section is a *function*
   on that record (DeqR, AckR, EnqR ...), so that Collect can be written as the
   composition the code performs.  Names follow tco.py:358-371.

   Deliberate modelling decisions (the spec models the code, not the intent):
   * an I PDU whose N(R) was never assigned (None in the code, NoNr = M here)
     cannot be encoded: pdu.encode() raises EncodeError, which llc.exchange()
     turns into a link disruption -> `broken` becomes TRUE.  Since the fix
     "assign N(R) to I PDUs dequeued after close()" dequeue() always assigns
     it; `broken` stays in the model so that a regression is a NotBroken
     violation and not only a mismatch.
   * the FIFO `wire[e]` holds the frames collected at e and not yet dispatched
     at the peer; LLCP's lock-step symmetry is a special case of it.
*)
EXTENDS Naturals, Sequences, SequencesExt, FiniteSets, TLC

CONSTANTS M,          \* sequence number modulus (16 in nfcpy)
          MaxMsg,     \* bound on messages accepted per direction (model checking only)
          RWs,        \* receive window sizes to choose from
          Lens,       \* message lengths to choose from
          ConnMius,   \* connection MIUs to choose from
          LinkMius,   \* link MIUs (cfg send-miu of a controller) to choose from
          Agfs,       \* aggregation on/off choices
          MaxWire,    \* bound on frames in flight per direction (model checking only)
          WithClose   \* explore close()

E == {"A", "B"}
Peer(e) == IF e = "A" THEN "B" ELSE "A"
NoNr == M             \* N(R) never assigned (None in the code)

VARIABLES ep,         \* ep[e]: endpoint record
          wire,       \* wire[e]: Seq of frames (each a Seq of PDUs) sent by e, not yet dispatched at Peer(e)
          accepted,   \* accepted[e]: message ids accepted by send() at e   (history)
          delivered,  \* delivered[e]: message ids returned by recv() at e  (history)
          broken      \* link disrupted by an EncodeError

vars == <<ep, wire, accepted, delivered, broken>>

Pdu(t, ns, nr, m, len) == [t |-> t, ns |-> ns, nr |-> nr, m |-> m, len |-> len]
None == Pdu("NONE", 0, 0, 0, 0)

\* ---------------------------------------------------------------- endpoint functions
SendSlots(s) == (s.rwR + M - s.vs + s.vsa) % M        \* tco.py:496  RW(R) - V(S) + V(SA) mod 16
RecvSlots(s) == (s.rwL + M - s.vr + s.vra) % M        \* tco.py:501  RW(L) - V(R) + V(RA) mod 16
AckT(s) == IF s.busy THEN "RNR" ELSE "RR"

\* len(pdu) and header size as pdu.py computes them
PduLen(p) == CASE p.t = "I" -> 3 + p.len
               [] p.t \in {"RR", "RNR"} -> 3
               [] p.t = "DM" -> 3
               [] p.t = "FRMR" -> 6
               [] OTHER -> 2
HdrLen(p) == IF p.t \in {"I", "RR", "RNR"} THEN 3 ELSE 2

\* DataLinkConnection.send(message, MSG_DONTWAIT)                              tco.py:505-525
SendRes(s, len) ==
    IF s.st # "ESTABLISHED" THEN (IF s.st = "CLOSE_WAIT" THEN "EPIPE" ELSE "ENOTCONN")
    ELSE IF len > s.sMiu THEN "EMSGSIZE"
    ELSE IF SendSlots(s) = 0 THEN "EWOULDBLOCK"
    ELSE "OK"
SendR(s, m, len) ==
    IF SendRes(s, len) = "OK"
    THEN [s EXCEPT !.sq = Append(@, Pdu("I", s.vs, NoNr, m, len)), !.vs = (@ + 1) % M]
    ELSE s

\* TransmissionControlObject.close() part shared by all paths                   tco.py:137-143
Shut(s) == [s EXCEPT !.sq = <<>>, !.rq = <<>>, !.st = "SHUTDOWN"]

\* DataLinkConnection.recv() with a non-empty receive queue                      tco.py:527-550
RecvOut(s) == Head(s.rq)
RecvR(s) ==
    LET p == Head(s.rq) IN
    IF p.t = "I" THEN [s EXCEPT !.rq = Tail(@), !.confs = @ + 1]
    ELSE \* "DISC" queued by dequeue of DM in CLOSE_WAIT -> self.close()
         Shut([s EXCEPT !.rq = Tail(@)])

\* TransmissionControlObject.enqueue: bounded by recv_buf                        tco.py:148-157
TcoEnq(s, p) == IF Len(s.rq) < s.rbuf THEN [s EXCEPT !.rq = Append(@, p)] ELSE s

\* DataLinkConnection.enqueue()                                                  tco.py:597-676
EnqR(s, p) ==
    IF s.st = "CLOSED" THEN [s EXCEPT !.sq = Append(@, Pdu("DM", 0, 0, 1, 0))]
    ELSE IF s.st = "DISCONNECT" /\ p.t = "DM" THEN [s EXCEPT !.rq = Append(@, p)]
    ELSE IF s.st # "ESTABLISHED" THEN s
    ELSE IF p.t = "I" /\ p.len > s.rMiu THEN [s EXCEPT !.sq = <<Pdu("FRMR", p.ns, 0, 1, 0)>>]   \* flags I
    ELSE IF p.t = "I" /\ p.ns # s.vr THEN [s EXCEPT !.sq = <<Pdu("FRMR", p.ns, 0, 2, 0)>>]       \* flags S
    ELSE IF p.t = "FRMR" THEN Shut(s)
    ELSE IF p.t = "DISC" THEN [s EXCEPT !.st = "CLOSE_WAIT", !.sq = <<Pdu("DM", 0, 0, 0, 0)>>]
    ELSE IF p.t \in {"I", "RR", "RNR"} THEN
        LET n  == (p.nr + M - s.vsa) % M
            s1 == IF n # 0 THEN [s EXCEPT !.acks = @ + n, !.vsa = p.nr] ELSE s
            s2 == IF p.t = "RNR" THEN [s1 EXCEPT !.sendBusy = TRUE]
                  ELSE IF p.t = "RR" THEN [s1 EXCEPT !.sendBusy = FALSE] ELSE s1
        IN IF p.t = "I" THEN TcoEnq([s2 EXCEPT !.vr = (@ + 1) % M], p) ELSE s2
    ELSE s

\* DataLinkConnection.dequeue(miu_size, icv_size)                                tco.py:678-720
\* budget = miu_size (information field budget of the candidate); result [s, out]
Ack(s) == [s |-> [s EXCEPT !.vra = (@ + s.confs) % M, !.confs = 0],
           out |-> Pdu(AckT(s), 0, (s.vra + s.confs) % M, 0, 0)]
DeqR(s, budget) ==
    IF s.st = "ESTABLISHED" /\ s.busySent # s.busy
    THEN [s |-> [s EXCEPT !.busySent = s.busy], out |-> Pdu(AckT(s), 0, s.vra, 0, 0)]
    ELSE IF s.sq # <<>> /\ PduLen(Head(s.sq)) - HdrLen(Head(s.sq)) <= budget
    THEN LET p  == Head(s.sq)
             s0 == [s EXCEPT !.sq = Tail(@)]
         IN CASE p.t = "FRMR" -> [s |-> Shut(s0), out |-> p]
              [] p.t = "I" /\ s.st = "ESTABLISHED" ->
                   LET s1 == IF s0.confs > 0 /\ s0.vr # s0.vra
                             THEN [s0 EXCEPT !.vra = (@ + s0.confs) % M, !.confs = 0] ELSE s0
                   IN [s |-> s1, out |-> [p EXCEPT !.nr = s1.vra]]
              [] p.t = "I" -> [s |-> s0, out |-> [p EXCEPT !.nr = s0.vra]]   \* queued before close(): N(R) := V(RA)
              [] p.t = "DM" /\ s.st = "CLOSE_WAIT" ->
                   [s |-> [s0 EXCEPT !.rq = Append(@, Pdu("DISC", 0, 0, 0, 0))], out |-> p]
              [] OTHER -> [s |-> s0, out |-> p]
    ELSE IF s.st = "ESTABLISHED" /\ s.confs > 0 /\ RecvSlots(s) = 0
    THEN Ack(s)                                                       \* necessary acknowledgement
    ELSE [s |-> s, out |-> None]

\* DataLinkConnection.sendack()                                                  tco.py:722-730
AckR(s) == IF s.st = "ESTABLISHED" /\ s.confs > 0 /\ s.vr # s.vra THEN Ack(s)
           ELSE [s |-> s, out |-> None]

\* poll("acks", 0)                                                               tco.py:566-573
PollAcksR(s) == IF s.acks > 0 THEN [s EXCEPT !.acks = @ - 1] ELSE s

\* ---------------------------------------------------------------- collect()   llc.py:567-649
\* (restricted to one data link connection SAP; no raw / SD / LDL traffic)
AgfLen(f) == 2 + FoldLeft(LAMBDA acc, p : acc + 2 + PduLen(p), 0, f)


RECURSIVE AgfLoop(_, _, _)
\* repeatedly dequeue with the remaining budget until nothing is returned or the budget is negative
AgfLoop(s, f, fuel) ==
    IF fuel = 0 \/ s.lmiu < AgfLen(f) + 3 THEN [s |-> s, f |-> f]
    ELSE LET r == DeqR(s, s.lmiu - AgfLen(f) - 3) IN
         IF r.out = None THEN [s |-> s, f |-> f]
         ELSE AgfLoop(r.s, Append(f, r.out), fuel - 1)

CollectR(s) ==
    LET d1 == DeqR(s, s.lmiu) IN
    LET a1 == IF d1.out = None THEN AckR(d1.s) ELSE d1 IN
    IF a1.out = None THEN [s |-> a1.s, f |-> <<>>]                                   \* SYMM
    ELSE IF d1.out # None /\ PduLen(d1.out) - HdrLen(d1.out) >= s.lmiu THEN [s |-> a1.s, f |-> <<a1.out>>]
    ELSE IF ~s.agf THEN [s |-> a1.s, f |-> <<a1.out>>]
    ELSE LET lp == AgfLoop(a1.s, <<a1.out>>, 40) IN
         IF s.lmiu >= AgfLen(lp.f) + 3
         THEN LET a2 == AckR(lp.s) IN
              IF a2.out = None THEN lp ELSE [s |-> a2.s, f |-> Append(lp.f, a2.out)]
         ELSE lp

\* an I PDU without N(R) cannot be encoded: llc.exchange() -> None -> link disruption
Poisoned(f) == \E i \in DOMAIN f : f[i].t = "I" /\ f[i].nr = NoNr

\* ---------------------------------------------------------------- actions
EpInit(rwl, rwr, smiu, rmiu, lmiu, agf) ==
    [st |-> "ESTABLISHED", vs |-> 0, vsa |-> 0, vr |-> 0, vra |-> 0, rwL |-> rwl, rwR |-> rwr,
     confs |-> 0, acks |-> 0, sq |-> <<>>, rq |-> <<>>, busy |-> FALSE, busySent |-> FALSE,
     sendBusy |-> FALSE, sMiu |-> smiu, rMiu |-> rmiu, rbuf |-> rwl, lmiu |-> lmiu, agf |-> agf]

Init ==
    /\ \E ra \in RWs, rb \in RWs, ma \in ConnMius, mb \in ConnMius, la \in LinkMius, lb \in LinkMius,
          ga \in Agfs, gb \in Agfs :
          ep = [e \in E |-> IF e = "A" THEN EpInit(ra, rb, mb, ma, la, ga) ELSE EpInit(rb, ra, ma, mb, lb, gb)]
    /\ wire = [e \in E |-> <<>>]
    /\ accepted = [e \in E |-> <<>>]
    /\ delivered = [e \in E |-> <<>>]
    /\ broken = FALSE

Send(e, len) ==
    /\ ~broken
    /\ Len(accepted[e]) < MaxMsg
    /\ LET m == Len(accepted[e]) + 1 IN
       /\ ep' = [ep EXCEPT ![e] = SendR(@, m, len)]
       /\ accepted' = IF SendRes(ep[e], len) = "OK" THEN [accepted EXCEPT ![e] = Append(@, m)] ELSE accepted
    /\ UNCHANGED <<wire, delivered, broken>>

Recv(e) ==
    /\ ~broken
    /\ ep[e].st \in {"ESTABLISHED", "CLOSE_WAIT"}
    /\ ep[e].rq # <<>>
    /\ ep' = [ep EXCEPT ![e] = RecvR(@)]
    /\ delivered' = IF Head(ep[e].rq).t = "I" THEN [delivered EXCEPT ![e] = Append(@, Head(ep[e].rq).m)]
                    ELSE delivered
    /\ UNCHANGED <<wire, accepted, broken>>

SetBusy(e, b) ==
    /\ ~broken
    /\ ep[e].busy # b
    /\ ep' = [ep EXCEPT ![e].busy = b]
    /\ UNCHANGED <<wire, accepted, delivered, broken>>

PollAcks(e) ==
    /\ ~broken
    /\ ep[e].acks > 0 /\ ep[e].st # "SHUTDOWN"
    /\ ep' = [ep EXCEPT ![e] = PollAcksR(@)]
    /\ UNCHANGED <<wire, accepted, delivered, broken>>

Collect(e) ==
    /\ ~broken
    /\ Len(wire[e]) < MaxWire
    /\ LET r == CollectR(ep[e]) IN
       /\ ep' = [ep EXCEPT ![e] = r.s]
       /\ IF Poisoned(r.f) THEN broken' = TRUE /\ wire' = wire
          ELSE broken' = FALSE /\ wire' = [wire EXCEPT ![e] = Append(@, r.f)]
    /\ UNCHANGED <<accepted, delivered>>

RECURSIVE EnqAll(_, _)
EnqAll(s, f) == IF f = <<>> THEN s ELSE EnqAll(EnqR(s, Head(f)), Tail(f))

Deliver(e) ==          \* the oldest frame sent by e is dispatched at Peer(e)
    /\ ~broken
    /\ wire[e] # <<>>
    /\ ep' = [ep EXCEPT ![Peer(e)] = EnqAll(@, Head(wire[e]))]
    /\ wire' = [wire EXCEPT ![e] = Tail(@)]
    /\ UNCHANGED <<accepted, delivered, broken>>

\* close(): tco.py:577-592.  With a non-empty receive queue the inherited recv() pops one
\* PDU at once and the DISC just queued is cleared again; otherwise the caller blocks
\* until a DM arrives (CloseEnd).
CloseBegin(e) ==
    /\ ~broken /\ WithClose
    /\ ep[e].st = "ESTABLISHED"
    /\ ep' = [ep EXCEPT ![e] = IF @.rq # <<>> THEN Shut(@)
                               ELSE [@ EXCEPT !.st = "DISCONNECT", !.sq = Append(@, Pdu("DISC", 0, 0, 0, 0))]]
    /\ UNCHANGED <<wire, accepted, delivered, broken>>

CloseEnd(e) ==
    /\ ~broken
    /\ ep[e].st = "DISCONNECT" /\ ep[e].rq # <<>>
    /\ ep' = [ep EXCEPT ![e] = Shut(@)]
    /\ UNCHANGED <<wire, accepted, delivered, broken>>

Next == \E e \in E :
          \/ \E len \in Lens : Send(e, len)
          \/ Recv(e)
          \/ \E b \in BOOLEAN : SetBusy(e, b)
          \/ PollAcks(e)
          \/ Collect(e)
          \/ Deliver(e)
          \/ CloseBegin(e)
          \/ CloseEnd(e)

Spec == Init /\ [][Next]_vars

\* ---------------------------------------------------------------- properties (C05)
BothUp == ep["A"].st = "ESTABLISHED" /\ ep["B"].st = "ESTABLISHED"

\* order + exactly once: what recv() returned is a prefix of what the peer's send() accepted
FifoP(acc, del) == \A e \in E : IsPrefix(del[Peer(e)], acc[e])
Fifo == FifoP(accepted, delivered)

\* outstanding = V(S) - V(SA) never exceeds RW(R) while the connection is up
WindowP(x) == \A e \in E : x[e].st = "ESTABLISHED" /\ x[Peer(e)].st = "ESTABLISHED"
                               => (x[e].vs + M - x[e].vsa) % M <= x[e].rwR
Window == WindowP(ep)

\* receive side: never more than RW(L) unconfirmed / queued; recv_confs never exceeds the window
RecvBoundP(x) == \A e \in E : x[e].st = "ESTABLISHED" => x[e].confs + Len(x[e].rq) <= x[e].rwL
RecvBound == RecvBoundP(ep)

\* two correct peers never reject each other's frames
NoFrmrP(x, w) == /\ \A e \in E : \A i \in DOMAIN x[e].sq : x[e].sq[i].t # "FRMR"
                 /\ \A e \in E : \A i \in DOMAIN w[e] : \A j \in DOMAIN w[e][i] : w[e][i][j].t # "FRMR"
NoFrmr == NoFrmrP(ep, wire)

\* sequence state stays consistent: what e has acknowledged never runs ahead of what the peer sent
InFlightI(w) == FoldLeft(LAMBDA acc, f : acc + Cardinality({j \in DOMAIN f : f[j].t = "I"}), 0, w)
QueuedI(s) == Cardinality({i \in DOMAIN s.sq : s.sq[i].t = "I"})
SeqOkP(x, w) == (x["A"].st = "ESTABLISHED" /\ x["B"].st = "ESTABLISHED") =>
           \A e \in E : (x[e].vs + M - x[Peer(e)].vr) % M = (QueuedI(x[e]) + InFlightI(w[e])) % M
SeqOk == SeqOkP(ep, wire)

\* the inductive invariant of LlcpWindow.tla under the refinement mapping (direction e -> Peer(e)):
\*   vs, vsa = x[e].vs, x[e].vsa;  vr, vra, confs = x[p].vr, x[p].vra, x[p].confs;  rq = I PDUs in x[p].rq;
\*   nI = I PDUs queued at e or on the wire e -> p;  acks = N(R) values on the wire p -> e
\* LlcpWindow proves it inductive for M = 16 and every window (Apalache); here it is checked on the
\* implementation-shaped model and, through Trace_LlcpDlc / Trace_LlcpDlcT, after every step of the real code.
Dist(a, b) == (b + M - a) % M
RqI(s) == Cardinality({i \in DOMAIN s.rq : s.rq[i].t = "I"})
WireNr(w) == UNION {{f[j].nr : j \in {k \in DOMAIN f : f[k].t \in {"I", "RR", "RNR"}}} : f \in {w[i] : i \in DOMAIN w}}
WinIndP(x, w) == (x["A"].st = "ESTABLISHED" /\ x["B"].st = "ESTABLISHED") =>
    \A e \in E : LET p == Peer(e)
                     nI == QueuedI(x[e]) + InFlightI(w[e])
                 IN /\ Dist(x[p].vra, x[p].vr) = x[p].confs + RqI(x[p])
                    /\ Dist(x[p].vr, x[e].vs) = nI
                    /\ Dist(x[e].vsa, x[p].vra) + x[p].confs + RqI(x[p]) + nI = Dist(x[e].vsa, x[e].vs)
                    /\ Dist(x[e].vsa, x[e].vs) <= x[e].rwR
                    /\ \A n \in WireNr(w[p]) : Dist(x[e].vsa, n) <= Dist(x[e].vsa, x[p].vra)
WinInd == WinIndP(ep, wire)

\* nothing accepted is lost: when everything has drained, delivered = accepted
Quiescent == /\ BothUp /\ \A e \in E : ep[e].sq = <<>> /\ wire[e] = <<>> /\ ep[e].rq = <<>>
NoLoss == Quiescent => \A e \in E : delivered[Peer(e)] = accepted[e]

\* messages larger than the connection MIU are refused (action property)
MiuRefuse == [][\A e \in E : Len(accepted'[e]) > Len(accepted[e]) =>
                  ep'[e].sq[Len(ep'[e].sq)].len <= ep[e].sMiu]_vars

\* a frame never exceeds the link MIU (C10 flavour, for the single-connection case)
FrameFitsP(x, w) == \A e \in E : \A i \in DOMAIN w[e] :
                        /\ Len(w[e][i]) > 1 => AgfLen(w[e][i]) - 2 <= x[e].lmiu
                        /\ Len(w[e][i]) = 1 => PduLen(w[e][i][1]) - HdrLen(w[e][i][1]) <= x[e].lmiu
FrameFits == FrameFitsP(ep, wire)

\* the link is never disrupted by an un-encodable PDU while nobody closes
NotBroken == ~broken

\* ---------------------------------------------------------------- reachability witnesses (must be violated)
W_Wrap      == ~(\E e \in E : Len(accepted[e]) > M)                       \* sequence numbers wrapped
W_Agf       == ~(\E e \in E : \E i \in DOMAIN wire[e] : Len(wire[e][i]) > 1)
W_Necessary == ~(\E e \in E : \E i \in DOMAIN wire[e] : wire[e][i] # <<>> /\ wire[e][i][1].t = "RR")
W_Rnr       == ~(\E e \in E : ep[e].sendBusy)
W_FullWin   == ~(\E e \in E : ep[e].st = "ESTABLISHED" /\ SendSlots(ep[e]) = 0 /\ ep[e].rwR > 1)

\* model-checking constraint
Constraint == \A e \in E : Len(wire[e]) <= MaxWire
View == <<ep, wire, [e \in E |-> Len(accepted[e])], [e \in E |-> Len(delivered[e])], broken>>
=============================================================================
