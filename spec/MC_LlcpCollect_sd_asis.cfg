SPECIFICATION Spec
CONSTANTS
  SendMius = {8, 9, 10, 11, 12, 13, 14}
  Agfs = {TRUE, FALSE}
  Layouts <- LaySd
  Infos = {0, 3}
  RawInfos = {}
  CtlKinds = {}
  MaxQ = 2
  MaxTotal = 8
  MaxRes = 5
  ReqLens = {2, 9}
  MaxReq = 2
  MaxDm = 1
  AckStates = {"none"}
  SdresMin = 1
  LoopGuard = TRUE
INVARIANT FrameFits
INVARIANT PayloadFits
INVARIANT Transparent
INVARIANT LenIsLen
INVARIANT NoWaste
CHECK_DEADLOCK FALSE
