SPECIFICATION Spec
CONSTANTS
  Prods = {"ulc", "ntag", "ev1", "n203"}
  KeyParts = {"k0", "kA"}
  Variants = {"a"}
  PFs = {0, 300}
  MaxOps = 2
  MaxAdv = 1
  MaxCut = 1
  MaxChal = 8
  Defects = {}
  ImmModes = {TRUE, FALSE}
  NakModes = {TRUE}
  AdvKinds = {"flip", "trunc", "replay"}
  Ops = {"auth", "protect", "ndef"}
INVARIANT Reached
INVARIANT TypeOK
INVARIANT ResultTyped
INVARIANT AuthSound
INVARIANT AuthComplete
INVARIANT Mutual
INVARIANT ProtectSound
INVARIANT ProtectKey
INVARIANT ProtectThenAuth
INVARIANT KeyKnown
INVARIANT LockSound
INVARIANT FormatSound
INVARIANT Confined
PROPERTY OneWay
CONSTRAINT SecondOpSmall
CHECK_DEADLOCK FALSE
