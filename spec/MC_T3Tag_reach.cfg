SPECIFICATION Spec
CONSTANTS
  BS = 2
  RdMax = 2
  Nmaxbs = {2, 3}
  Extras = {0, 1}
  Nbrs = {2}
  Nbws = {0, 2}
  RWFlags = {0, 1}
  WriteFs = {0, 15}
  Vers = {16}
  CkOks = {TRUE}
  Rfus = {0}
  MsgKinds = {"a"}
  Cards = {100, 320, 211}
  WithCut = TRUE
  WithFormat = TRUE
  WithOutage = TRUE
  Retries = 2
CHECK_DEADLOCK FALSE
