SPECIFICATION Spec
CONSTANTS
  MaxLen = 4
  MaxIter = 2
  MaxOps = 2
INVARIANT FirstFound
INVARIANT UnsupportedIgnored
INVARIANT Raises
INVARIANT MuteWhenNone
INVARIANT TargetFresh
INVARIANT ExchangeOk
CHECK_DEADLOCK FALSE
