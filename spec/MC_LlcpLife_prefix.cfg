SPECIFICATION Spec
CONSTANTS
  Threads = {t1, t2, t3}
  Socks = {s1, s2}
  AtomicCheck = FALSE
  DeadBind = FALSE
  DeadAdopt = FALSE
  MaxDeliver = 2
INVARIANT NoStuckLive
INVARIANT ResultTyped
INVARIANT NoOrphan
PROPERTY Eventually
CHECK_DEADLOCK FALSE
