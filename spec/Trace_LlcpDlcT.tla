------------------------- MODULE Trace_LlcpDlcT -------------------------
(* Trace validation of *threaded* executions for C05: two real LogicalLinkController run loops and
   application threads in blocking send()/recv() run under the deterministic scheduler; the events are
   the critical sections of tco.py, each logged under the socket lock:
     Send(e, len)           TransmissionControlObject.send reached (the I PDU is queued, N(S) assigned)
     SendErr(e, len, res)   DataLinkConnection.send raised before queueing anything
     Recv(e, t, m, len)     DataLinkConnection.recv returned
     Deq(e, budget, out)    DataLinkConnection.dequeue(miu_size = budget) returned `out` (t = "NONE" for None)
     Ack(e, out)            DataLinkConnection.sendack returned
     Enq(e, pdu)            DataLinkConnection.enqueue at Peer(e) of the oldest PDU sent by e
     SetBusy(e, b)
   collect() is not atomic against application threads (it holds llc.lock, send() holds the socket lock),
   so it appears here as its Deq/Ack steps; `wire[e]` holds one PDU per element.  All C05 invariants are
   step post-conditions; the logged post-state projection of the acting endpoint must equal the spec's. *)
EXTENDS LlcpDlc, Json, IOUtils, TLCExt

VARIABLES tid, l
tvars == <<ep, wire, accepted, delivered, broken, tid, l>>
Traces == ndJsonDeserialize(IOEnv.TRACE_FILE)
T == Traces[tid].ev
C == Traces[tid].const
Ev == T[l]

Proj(s) == [st |-> s.st, vs |-> s.vs, vsa |-> s.vsa, vr |-> s.vr, vra |-> s.vra,
            confs |-> s.confs, acks |-> s.acks, nsq |-> Len(s.sq), nrq |-> Len(s.rq),
            busy |-> s.busy, busySent |-> s.busySent, sendBusy |-> s.sendBusy]
Numbered(t) == t \in {"I", "RR", "RNR"}
P1(p) == [t |-> p.t, ns |-> IF p.t = "I" THEN p.ns ELSE 0, nr |-> IF Numbered(p.t) THEN p.nr ELSE 0,
          len |-> IF p.t = "I" THEN p.len ELSE 0, m |-> IF p.t = "I" THEN p.m ELSE 0]

TInit ==
    /\ tid \in 1..Len(Traces) /\ l = 1
    /\ ep = [e \in E |-> IF e = "A"
                THEN EpInit(C.rwA, C.rwB, C.smiuA, C.rmiuA, C.lmiuA, C.agfA)
                ELSE EpInit(C.rwB, C.rwA, C.smiuB, C.rmiuB, C.lmiuB, C.agfB)]
    /\ wire = [e \in E |-> <<>>] /\ accepted = [e \in E |-> <<>>] /\ delivered = [e \in E |-> <<>>]
    /\ broken = FALSE

Step == l <= Len(T) /\ l' = l + 1 /\ UNCHANGED tid
Is(a) == l <= Len(T) /\ Ev.a = a

GSend ==
    /\ Is("Send") /\ Step
    /\ SendRes(ep[Ev.e], Ev.len) = "OK"
    /\ Send(Ev.e, Ev.len)
GSendErr ==
    /\ Is("SendErr") /\ Step
    /\ SendRes(ep[Ev.e], Ev.len) = Ev.res /\ Ev.res # "OK"
    /\ UNCHANGED <<ep, wire, accepted, delivered, broken>>
GRecv ==
    /\ Is("Recv") /\ Step
    /\ ep[Ev.e].rq # <<>>
    /\ Ev.t = RecvOut(ep[Ev.e]).t
    /\ (Ev.t = "I" => Ev.m = RecvOut(ep[Ev.e]).m /\ Ev.len = RecvOut(ep[Ev.e]).len)
    /\ Recv(Ev.e)
GSetBusy ==
    /\ Is("SetBusy") /\ Step
    /\ ep' = [ep EXCEPT ![Ev.e].busy = Ev.b]
    /\ UNCHANGED <<wire, accepted, delivered, broken>>
Emit(e, r) ==
    /\ ep' = [ep EXCEPT ![e] = r.s]
    /\ wire' = IF r.out = None THEN wire ELSE [wire EXCEPT ![e] = Append(@, <<r.out>>)]
    /\ UNCHANGED <<accepted, delivered, broken>>
GDeq ==
    /\ Is("Deq") /\ Step
    /\ P1(DeqR(ep[Ev.e], Ev.budget).out) = Ev.out
    /\ Emit(Ev.e, DeqR(ep[Ev.e], Ev.budget))
GAck ==
    /\ Is("Ack") /\ Step
    /\ P1(AckR(ep[Ev.e]).out) = Ev.out
    /\ Emit(Ev.e, AckR(ep[Ev.e]))
GEnq ==
    /\ Is("Enq") /\ Step
    /\ wire[Ev.e] # <<>>
    /\ P1(Head(wire[Ev.e])[1]) = Ev.out              \* transparent: exactly the oldest PDU the peer collected
    /\ Deliver(Ev.e)
GPollAcks ==
    /\ Is("PollAcks") /\ Step
    /\ PollAcks(Ev.e)

Guarded == GSend \/ GSendErr \/ GRecv \/ GSetBusy \/ GDeq \/ GAck \/ GEnq \/ GPollAcks
Who == IF Ev.a = "Enq" THEN Peer(Ev.e) ELSE Ev.e
\* (SendErr is logged by the sending thread after send() raised, outside the socket lock: with several threads on
\* one connection the projection it carries may already include a later step of another thread - not compared)
PostOk == Ev.a = "SendErr" \/ Proj(ep'[Who]) = Ev.post

InvNames == <<"Fifo", "Window", "RecvBound", "NoFrmr", "SeqOk", "WinInd", "NotBroken">>
InvP(n) == CASE n = "Fifo" -> FifoP(accepted', delivered')
             [] n = "Window" -> WindowP(ep')
             [] n = "RecvBound" -> RecvBoundP(ep')
             [] n = "NoFrmr" -> NoFrmrP(ep', wire')
             [] n = "SeqOk" -> SeqOkP(ep', wire')
             [] n = "WinInd" -> WinIndP(ep', wire')
             [] n = "NotBroken" -> ~broken'
Real == Guarded /\ PostOk /\ \A i \in DOMAIN InvNames : InvP(InvNames[i])

ExpOut == CASE Ev.a = "Deq" -> P1(DeqR(ep[Ev.e], Ev.budget).out)
            [] Ev.a = "Ack" -> P1(AckR(ep[Ev.e]).out)
            [] Ev.a = "Enq" /\ wire[Ev.e] # <<>> -> P1(Head(wire[Ev.e])[1])
            [] OTHER -> P1(None)
ExpPost == CASE Ev.a = "Deq" -> Proj(DeqR(ep[Ev.e], Ev.budget).s)
             [] Ev.a = "Ack" -> Proj(AckR(ep[Ev.e]).s)
             [] Ev.a = "Enq" /\ wire[Ev.e] # <<>> -> Proj(EnqAll(ep[Peer(Ev.e)], Head(wire[Ev.e])))
             [] Ev.a = "Send" -> Proj(SendR(ep[Ev.e], Len(accepted[Ev.e]) + 1, Ev.len))
             [] Ev.a = "Recv" /\ ep[Ev.e].rq # <<>> -> Proj(RecvR(ep[Ev.e]))
             [] OTHER -> Proj(ep[Who])
Why == IF ~ENABLED Guarded THEN [clause |-> "guard", expout |-> ExpOut, pre |-> Proj(ep[Who])]
       ELSE IF ~ENABLED (Guarded /\ PostOk) THEN [clause |-> "post", exp |-> ExpPost]
       ELSE [clause |-> "inv", failed |-> SelectSeq(InvNames, LAMBDA n : ~ENABLED (Guarded /\ PostOk /\ InvP(n)))]

Stuck == /\ l <= Len(T) /\ ~ENABLED Real
         /\ PrintT(<<"STUCK", Traces[tid].id, l, Ev.a, Why>>)
         /\ l' = Len(T) + 2 /\ UNCHANGED <<ep, wire, accepted, delivered, broken, tid>>
TNext == Real \/ Stuck
TSpec == TInit /\ [][TNext]_tvars
Done == (l = Len(T) + 1) => PrintT(<<"ACCEPT", Traces[tid].id>>)
=============================================================================
