SPECIFICATION TSpec
CONSTANTS
  BS = 16
  RdMax = 15
  Nmaxbs = {}
  Extras = {}
  Nbrs = {}
  Nbws = {}
  RWFlags = {}
  WriteFs = {}
  Vers = {}
  CkOks = {}
  Rfus = {}
  MsgKinds = {}
  Cards = {}
  WithCut = TRUE
  WithFormat = TRUE
  WithOutage = TRUE
  Retries = 3
CONSTRAINT Done
CHECK_DEADLOCK FALSE
