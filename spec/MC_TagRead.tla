---------------------------- MODULE MC_TagRead ----------------------------
(* the monitor on a tiny instance: what it allows is bounded and its results are in the data area *)
EXTENDS TagRead
CONSTANTS Units, Budget, Lo, Hi

MNext == \/ \E c \in {"activate", "ndef", "changed"} : Begin(c)
         \/ \E ok \in BOOLEAN : \/ Cmd(ok, Budget) \/ Retry(ok, Budget) \/ Select(ok, Budget)
                                \/ (\E u \in Units : Read(u, ok, Budget))
                                \/ (\E o \in 0..3 : ReadAt(o, ok, Budget))
         \/ Sense
         \/ Finish(NoneRes, Lo, Hi)
         \/ \E o \in 0..(Hi + 1), n \in 0..3, c \in 0..3 : Finish([none |-> FALSE, off |-> o, len |-> n, cap |-> c, tlv |-> -1], Lo, Hi)
MSpec == MInit /\ [][MNext]_mvars

Bounded  == ncmd <= Budget /\ nretry <= Budget
NoRepeat == Cardinality(asked) <= Cardinality(Units)
ResultOk == fin.none \/ InArea(fin, Lo, Hi)
\* every call can end, with None and with a message (witnesses: TLC must violate)
W_FinishData == ~(call = "idle" /\ ~fin.none /\ fin.len > 0)
W_Exhausted  == ~(ncmd = Budget)
=============================================================================
