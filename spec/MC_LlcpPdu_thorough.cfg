SPECIFICATION Spec
CONSTANTS
  Mode = "pdu"
  Saps = {0, 1, 4, 16, 32, 63}
  Seqn = {0, 1, 8, 15}
  Miuxs = {0, 1, 1024, 2047}
  Rws = {0, 1, 2, 3, 4, 5, 6, 7, 8, 9, 10, 11, 12, 13, 14, 15}
  Sym = {0, 65, 128, 255}
  MemSapCodes = {0, 32, 65, 96, 4032, 4033, 319}
  FrmrSapCodes = {0, 127, 2052, 4095}
  Alpha = {0}
INVARIANT RoundTrip
INVARIANT LenAgrees
INVARIANT NormIdem
INVARIANT LooseSame
INVARIANT NoNestSame
CHECK_DEADLOCK FALSE
