SPECIFICATION Spec
CONSTANTS
  LongLen = 5
  Layouts <- MCLayouts
  BaseLens = {0, 1, 4, 5, 6, 9}
  Wipes = {119}
  Variants = {"asis", "fixed"}
  Cuts = FALSE
  SectorSize = 32
  MaxFaults = 1
  MaxRetry = 1
  Session = TRUE
  Kinds = {"T2"}
  Sizes = {1, 3}
  Pads = {0, 1, 2}
  Props = {0}
  CtlFroms = {4, 6}
  MemSizes = {2}
  LockBits = {9, 12}
  CtlTypes = {1, 2}
  TwoCtl = FALSE
  OldLens = {1}
INVARIANT W_DoneLong
INVARIANT W_DoneCap
INVARIANT W_Rejected
INVARIANT W_Crash
INVARIANT W_SkipInside
INVARIANT W_OddLock
CHECK_DEADLOCK FALSE
