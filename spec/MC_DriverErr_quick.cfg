SPECIFICATION Spec
CONSTANTS
  Tier = "quick"
INVARIANT OutcomeDocumented
INVARIANT TableOk
CHECK_DEADLOCK FALSE
