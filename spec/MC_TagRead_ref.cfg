SPECIFICATION RSpec
CONSTANTS
  N = 5
  Alphabet = {0, 1, 2, 3, 253, 254, 255, 5, 10}
INVARIANT RefInBounds
INVARIANT RefFindsWellFormed
CHECK_DEADLOCK FALSE
