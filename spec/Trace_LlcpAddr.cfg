SPECIFICATION TSpec
CONSTANTS
  NSap = 64
  NamedLo = 16
  DynLo = 32
  WksAddr = 4
  Names <- TraceNames
  MaxSock <- NoBound
  KindSeq <- AnyKind
  Roles <- AnyRole
  Msgs = {1}
  BindAddrs = {}
  Dsts = {}
  RecvBuf = 2
  Backlog = 1
  WksCheck = FALSE
  SnlClean = FALSE
  KeepDead = FALSE
  Miu <- MiuAB
  Lens = {1}
  InsertLast = FALSE
  HdrInMiu = FALSE
CONSTRAINT Done
CHECK_DEADLOCK FALSE
