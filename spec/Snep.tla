----------------------------- MODULE Snep -----------------------------
(* SNEP request/response fragmentation between nfc/snep/client.py (send_request 32-45,
   recv_response 48-72, put_octets/get_octets) and nfc/snep/server.py (_serve 70-124,
   process_snep_request 126-162) over a data link connection, which C05 shows to be a
   reliable FIFO: channels c2s / s2c.  One action per socket.send(), socket.recv(), callback.

   Sizes are byte counts.  Hdr = 6 (version, code, 4-byte length), AccF = 4 (acceptable length
   field of a GET request); both are constants so that the exhaustive run can scale them down.
   The test server echoes the request message as the GET response (G = L).
   A fragment record carries, besides its length n, what its bytes carry: hdr (starts with a SNEP
   header), code, decl (declared length), acc (acceptable length of a GET) and h, the identity of
   the NDEF message octets (a hash in trace mode, a sequence number in model checking).
*)
EXTENDS Naturals, Sequences, TLC

CONSTANTS Hdr, AccF, CMius, SMius, Lens, MaxAccs, Accs, MaxReq

VARIABLES c, s, c2s, s2c, cm, sm, maxAcc, reqs, delivered, results
vars == <<c, s, c2s, s2c, cm, sm, maxAcc, reqs, delivered, results>>

Frag(n, hdr, code, decl, acc, h) == [n |-> n, hdr |-> hdr, code |-> code, decl |-> decl, acc |-> acc, h |-> h]
Min(a, b) == IF a < b THEN a ELSE b

CIdle == [pc |-> "idle", kind |-> "-", L |-> 0, acc |-> 0, R |-> 0, off |-> 0, rgot |-> 0, rdecl |-> 0,
          rcode |-> "-", h |-> 0]
SIdle == [pc |-> "idle", buf |-> 0, need |-> 0, kind |-> "-", acc |-> 0, sq |-> <<>>, resp |-> 0, h |-> 0]

Init == /\ c = CIdle /\ s = SIdle /\ c2s = <<>> /\ s2c = <<>>
        /\ cm \in CMius /\ sm \in SMius /\ maxAcc \in MaxAccs
        /\ reqs = <<>> /\ delivered = <<>> /\ results = <<>>

\* ---------------------------------------------------------------- client
ReqLen(kind, L) == Hdr + L + (IF kind = "GET" THEN AccF ELSE 0)

CStart(kind, L, acc, h) ==
    /\ c.pc = "idle" /\ Len(reqs) < MaxReq
    /\ c' = [CIdle EXCEPT !.pc = "first", !.kind = kind, !.L = L, !.acc = acc, !.R = ReqLen(kind, L), !.h = h]
    /\ reqs' = Append(reqs, [kind |-> kind, L |-> L, acc |-> acc, h |-> h])
    /\ UNCHANGED <<s, c2s, s2c, cm, sm, maxAcc, delivered, results>>

\* what the next socket.send() of the client carries
CNext == CASE c.pc = "first"    -> Frag(Min(c.R, cm), TRUE, c.kind, c.R - Hdr, c.acc, c.h)
           [] c.pc = "rest"     -> Frag(Min(cm, c.R - c.off), FALSE, "-", 0, 0, 0)
           [] c.pc = "contResp" -> Frag(Hdr, TRUE, "CONT", 0, 0, 0)
           [] OTHER             -> Frag(0, FALSE, "none", 0, 0, 0)

CSend ==
    /\ c.pc \in {"first", "rest", "contResp"}
    /\ c2s' = Append(c2s, CNext)
    /\ c' = CASE c.pc = "first" -> [c EXCEPT !.off = CNext.n, !.pc = IF c.R <= cm THEN "waitResp" ELSE "waitCont"]
              [] c.pc = "rest"  -> [c EXCEPT !.off = @ + CNext.n,
                                             !.pc = IF c.off + CNext.n = c.R THEN "waitResp" ELSE "rest"]
              [] c.pc = "contResp" -> [c EXCEPT !.pc = "moreResp"]
    /\ UNCHANGED <<s, s2c, cm, sm, maxAcc, reqs, delivered, results>>

AccLimit == IF c.kind = "GET" THEN c.acc ELSE 0

\* result of the public call: ok (put: True / get: octets returned), len of returned octets, code
Res(ok, len, code) == [ok |-> ok, len |-> len, code |-> code, h |-> c.h, i |-> Len(reqs)]
CRecvOut(f) ==      \* [c, res]  res = "-" when the call goes on
    CASE c.pc = "waitCont" ->
            IF f.code = "CONTINUE" /\ f.n = Hdr THEN [c |-> [c EXCEPT !.pc = "rest"], res |-> <<>>]
            ELSE [c |-> [CIdle EXCEPT !.pc = "done"], res |-> <<Res(FALSE, 0, f.code)>>]
      [] c.pc = "waitResp" ->
            IF f.decl > AccLimit
            THEN [c |-> [CIdle EXCEPT !.pc = "done"], res |-> <<Res(c.kind = "PUT", 0, "TOOBIG")>>]   \* recv_response -> None
            ELSE IF f.n - Hdr < f.decl
            THEN [c |-> [c EXCEPT !.pc = "contResp", !.rgot = f.n, !.rdecl = f.decl, !.rcode = f.code], res |-> <<>>]
            ELSE [c |-> [CIdle EXCEPT !.pc = "done"], res |-> <<Res(f.code = "SUCCESS", f.decl, f.code)>>]
      [] OTHER -> \* "moreResp"
            IF c.rgot + f.n - Hdr >= c.rdecl
            THEN [c |-> [CIdle EXCEPT !.pc = "done"], res |-> <<Res(c.rcode = "SUCCESS", c.rdecl, c.rcode)>>]
            ELSE [c |-> [c EXCEPT !.rgot = @ + f.n], res |-> <<>>]

CRecv ==
    /\ s2c # <<>> /\ c.pc \in {"waitCont", "waitResp", "moreResp"}
    /\ s2c' = Tail(s2c)
    /\ c' = CRecvOut(Head(s2c)).c
    /\ results' = results \o CRecvOut(Head(s2c)).res
    /\ UNCHANGED <<s, c2s, cm, sm, maxAcc, reqs, delivered>>

CRet == /\ c.pc = "done" /\ c' = CIdle
        /\ UNCHANGED <<s, c2s, s2c, cm, sm, maxAcc, reqs, delivered, results>>

\* ---------------------------------------------------------------- server
RECURSIVE Chunks(_, _)
Chunks(total, miu) == IF total = 0 THEN <<>>
                      ELSE <<Frag(Min(total, miu), FALSE, "-", 0, 0, 0)>> \o Chunks(total - Min(total, miu), miu)

SRecvOut(f) ==
    CASE s.pc = "idle" ->
            IF ~f.hdr THEN s                                                   \* stray fragment: dropped (short -> bad client)
            ELSE IF f.code \notin {"PUT", "GET"} THEN [s EXCEPT !.sq = <<Frag(Hdr, TRUE, "BADREQ", 0, 0, 0)>>]
            ELSE IF f.decl > maxAcc THEN [s EXCEPT !.sq = <<Frag(Hdr, TRUE, "REJECT", 0, 0, 0)>>]
            ELSE IF f.n - Hdr < f.decl
            THEN [s EXCEPT !.pc = "more", !.buf = f.n, !.need = f.decl + Hdr, !.kind = f.code, !.acc = f.acc,
                           !.h = f.h, !.sq = <<Frag(Hdr, TRUE, "CONTINUE", 0, 0, 0)>>]
            ELSE [s EXCEPT !.pc = "deliver", !.buf = f.n, !.need = f.decl + Hdr, !.kind = f.code, !.acc = f.acc, !.h = f.h]
      [] s.pc = "more" ->
            IF s.buf + f.n >= s.need THEN [s EXCEPT !.pc = "deliver", !.buf = @ + f.n]
            ELSE [s EXCEPT !.buf = @ + f.n]
      [] OTHER -> \* "waitCCont"
            IF f.code = "CONT" /\ f.n = Hdr THEN [s EXCEPT !.pc = "idle", !.sq = Chunks(s.resp - sm, sm)]
            ELSE [s EXCEPT !.pc = "idle"]

SRecv ==
    /\ c2s # <<>> /\ s.sq = <<>> /\ s.pc \in {"idle", "more", "waitCCont"}
    /\ c2s' = Tail(c2s)
    /\ s' = SRecvOut(Head(c2s))
    /\ UNCHANGED <<c, s2c, cm, sm, maxAcc, reqs, delivered, results>>

\* the application callback sees the complete request; the response is computed (echo for GET)
SL == s.need - Hdr - (IF s.kind = "GET" THEN AccF ELSE 0)
Deliver ==
    /\ s.pc = "deliver"
    /\ LET code == IF s.kind = "GET" /\ SL > s.acc THEN "EXCESS" ELSE "SUCCESS"
           resp == IF s.kind = "GET" /\ code = "SUCCESS" THEN Hdr + SL ELSE Hdr
       IN /\ delivered' = Append(delivered, [kind |-> s.kind, L |-> SL, h |-> s.h])
          /\ s' = [s EXCEPT !.pc = IF resp <= sm THEN "idle" ELSE "waitCCont", !.resp = resp,
                            !.sq = <<Frag(Min(resp, sm), TRUE, code, resp - Hdr, 0, 0)>>]
    /\ UNCHANGED <<c, c2s, s2c, cm, sm, maxAcc, reqs, results>>

SSend ==
    /\ s.sq # <<>>
    /\ s2c' = Append(s2c, Head(s.sq))
    /\ s' = [s EXCEPT !.sq = Tail(@)]
    /\ UNCHANGED <<c, c2s, cm, sm, maxAcc, reqs, delivered, results>>

Next == \/ \E k \in {"PUT", "GET"}, L \in Lens, a \in Accs : CStart(k, L, a, Len(reqs) + 1)
        \/ CSend \/ CRecv \/ CRet \/ SRecv \/ SSend \/ Deliver

Spec == Init /\ [][Next]_vars

\* ---------------------------------------------------------------- properties (C06)
TooBig(r) == ReqLen(r.kind, r.L) - Hdr > maxAcc
\* a delivered message is the octets (identity h, length, kind) of a request that the server may accept
Match(d, r) == d.h = r.h /\ d.L = r.L /\ d.kind = r.kind /\ ~TooBig(r)
RECURSIVE Sub(_, _, _, _)
Sub(dl, i, rq, j) == IF i > Len(dl) THEN TRUE
                     ELSE IF j > Len(rq) THEN FALSE
                     ELSE IF Match(dl[i], rq[j]) THEN Sub(dl, i + 1, rq, j + 1) ELSE Sub(dl, i, rq, j + 1)
\* the server application sees exactly the client's octets, each request at most once, in order; a request
\* larger than the server's acceptable length is never delivered, not even in part
DeliveredIntactP(rq, dl) == Sub(dl, 1, rq, 1)
DeliveredIntact == DeliveredIntactP(reqs, delivered)
\* no fragment exceeds the sender's send MIU
FragmentFitsP(a, b, x, y) == (\A i \in DOMAIN a : a[i].n <= x) /\ (\A i \in DOMAIN b : b[i].n <= y)
FragmentFits == FragmentFitsP(c2s, s2c, cm, sm)
\* the i-th result belongs to the i-th request (the client is sequential)
RejectOversizeP(rq, dl, rs) == \A k \in DOMAIN rs : TooBig(rq[rs[k].i]) => ~rs[k].ok
RejectOversize == RejectOversizeP(reqs, delivered, results)
\* a PUT that fits succeeds and was delivered; a GET returns the echoed octets iff they fit the acceptable length
ResultRightP(rq, dl, rs) ==
    \A k \in DOMAIN rs : LET r == rq[rs[k].i] IN
        /\ rs[k].i = k
        /\ IF TooBig(r) THEN ~rs[k].ok
           ELSE /\ (\E m \in DOMAIN dl : Match(dl[m], r))
                /\ (r.kind = "PUT" => rs[k].ok)
                /\ (r.kind = "GET" /\ r.L <= r.acc => rs[k].ok /\ rs[k].len = r.L)
                /\ (r.kind = "GET" /\ r.L > r.acc => ~rs[k].ok /\ rs[k].len = 0)       \* ExcessData, nothing returned
ResultRight == ResultRightP(reqs, delivered, results)
ExactlyOnce == Len(delivered) <= Len(reqs) /\ Len(results) <= Len(reqs)

\* witnesses
W_FragReq   == ~(\E i \in DOMAIN c2s : ~c2s[i].hdr)
W_FragResp  == ~(s.pc = "waitCCont")
W_Reject    == ~(\E i \in DOMAIN results : results[i].code = "REJECT")
W_Excess    == ~(\E i \in DOMAIN results : results[i].code = "EXCESS")
W_Three     == ~(Len(delivered) >= 3)
=============================================================================
