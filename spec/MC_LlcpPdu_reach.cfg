SPECIFICATION Spec
CONSTANTS
  Mode = "pdu"
  Saps = {1, 32}
  Seqn = {0}
  Miuxs = {0}
  Rws = {0, 1}
  Sym = {0}
  MemSapCodes = {96}
  FrmrSapCodes = {0}
  Alpha = {0}
CHECK_DEADLOCK FALSE
