SPECIFICATION Spec
CONSTANTS
  Tier = "reach"
CHECK_DEADLOCK FALSE
