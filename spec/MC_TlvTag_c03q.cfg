SPECIFICATION Spec
CONSTANTS
  LongLen = 5
  Layouts <- MCLayouts
  BaseLens = {1, 4, 6}
  Wipes = {256, 119}
  Variants = {"asis", "fixed"}
  Cuts = FALSE
  SectorSize = 32
  MaxFaults = 1
  MaxRetry = 0
  Session = FALSE
  Kinds = {"T2", "T1S", "T1D", "T512"}
  Sizes = {1, 3}
  Pads = {0, 1, 2, 3}
  Props = {113}
  CtlFroms = {2, 3, 4, 11, 22}
  MemSizes = {1, 3, 0}
  LockBits = {1, 9, 12}
  CtlTypes = {1, 2}
  TwoCtl = TRUE
  OldLens = {1, 5}
INVARIANT FxConfined
INVARIANT ConfinedButFormat
INVARIANT FxUnitsInArea
INVARIANT UnitsButFormat
INVARIANT LockOneWay
INVARIANT CoherentButFormat
INVARIANT SectorSync
CHECK_DEADLOCK FALSE
