SPECIFICATION Spec
CONSTANTS
  Threads = {t1, t2, t3, t4}
  Socks = {s1, s2, s3}
  AtomicCheck = TRUE
  MaxDeliver = 2
INVARIANT NoStuckLive
INVARIANT ResultTyped
PROPERTY Eventually
CHECK_DEADLOCK FALSE
