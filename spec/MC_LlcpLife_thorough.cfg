SPECIFICATION Spec
CONSTANTS
  Threads = {t1, t2, t3, t4}
  Socks = {s1, s2, s3}
  AtomicCheck = TRUE
  DeadBind = FALSE
  DeadAdopt = FALSE
  MaxDeliver = 2
INVARIANT NoStuck
INVARIANT ResultTyped
INVARIANT NoOrphan
PROPERTY Eventually
CHECK_DEADLOCK FALSE
