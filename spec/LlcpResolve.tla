---------------------------- MODULE LlcpResolve ----------------------------
(* Concurrent service name resolution on one LLCP link controller (C17, "name resolution reaches exactly the
   socket bound under that name, or reports absence" - also when several application threads resolve at once).

   Bound to nfc/llcp/llc.py  ServiceDiscovery.resolve 175-189 (cache look-up, SDREQ queued, `while name not in snl:
   resp.wait()`), ServiceDiscovery.dequeue (all pending SDREQ go into the next SNL PDU), ServiceDiscovery.enqueue
   196-217 (every SDRES of a received SNL PDU: cache[name] := sap, resp.notify_all()), ServiceDiscovery.shutdown
   (snl := None, notify_all()), llc.resolve (None after termination).

   Threads T call resolve(n); one action per critical section (everything between two points where the controller
   lock is released):
     Call(t, n)     the look-up under the lock: cached -> the thread has its result; else SDREQ queued and the thread waits
     Collect        the link loop takes all queued SDREQ into one SNL PDU
     Deliver(A)     one SNL PDU with the answers for the requests in A arrives (the peer answers each request once,
                    in any grouping and order): cache updated, every waiting thread is notified
     Wake(t)        a notified thread runs: it re-checks ITS name and waits again if the answer was for somebody else
     LinkEnd        the link terminates: every waiting thread is notified, resolve() returns None from now on
     Return(t)      resolve() returns to the application

   WakeCheck = FALSE is the deliberately wrong variant (`if` instead of `while` around resp.wait()): a notified thread
   takes cache[name] without looking - KeyError when the answer was for another name.

   The transaction ids are a conserved resource (ServiceDiscovery.tids, 256 ids; scaled to 2-3 in model checking so
   that the pool runs empty and ids are drawn again): a lookup of an uncached name TAKES an id from the pool
   (`tid = random.choice(tids); tids.remove(tid)`, llc.py:192-193 - any id of the pool, IndexError when it is empty),
   the answer GIVES IT BACK (`tids.append(tid)`, llc.py:217).  `pool` is the set of free ids; the ids that are out are
   those of the requests queued (`reqs`) and on the wire (`out`).  PoolConserved: pool and outstanding ids partition
   Tids, no id is out twice.  NeverStarves: with every earlier lookup answered the pool is full, so a new lookup
   always gets an id.  A lookup is abandoned only by the end of the link, where the whole component dies (resolve()
   returns None from then on and never draws again).  `sent` (tid -> name) here is a history of what was recorded under
   each id: an entry stays until its id is drawn again and the new request is collected.  (The code did the same until nfcpy
   96e3631; since then it removes the entry when the answer is taken, so that an answer the peer REPEATS is ignored instead
   of putting the id into the pool a second time - that history, a misbehaving peer, is outside this model, which lets the
   peer answer each request once; it is executed by C07 part C.  The model's pool is a set, the binding additionally
   checks on the real list that no id is in it twice.)  GiveBack = FALSE is the deliberately wrong
   variant (the answered lookup keeps its id): the (N+1)-th uncached lookup of a link finds the pool empty.         *)
EXTENDS Integers, Sequences, SequencesExt, FiniteSets, TLC

CONSTANTS Threads,      \* application threads
          Names,        \* service names that are resolved
          PeerSnl,      \* [Names -> address the peer bound the name to, 0 = not bound]
          NameLen,      \* [Names -> length of the name in octets]
          SendMiu,      \* link MIU announced by the peer: budget of one SNL PDU's information field
          PopHead,      \* (wrong variant) dequeue walks a snapshot of the queue but sends whatever is at its head (code: FALSE)
          MaxCalls,     \* bound on resolve() calls per thread (model checking only)
          WakeCheck,    \* TRUE: `while name not in snl: wait()`   FALSE: `if ...: wait()`
          Tids,         \* the transaction ids (code: 0..255; scaled to 2-3 ids in model checking)
          GiveBack      \* (wrong variant: FALSE) the answer to a lookup returns its transaction id to the pool (code: TRUE)

VARIABLES th,           \* [Threads -> [pc, n, ret, calls]]   pc: "idle" | "wait" | "woken" | "ret"
          reqs,         \* SDREQ queued, not yet collected: Seq of [id, n, tid]   (id: ghost, unique per call)
          sent,         \* ServiceDiscovery.sent: [Tids -> name recorded as sent under that id | NoName], never pruned
          out,          \* SDREQ that really went on the wire and are not yet answered: set of [id, n, tid]
          pool,         \* ServiceDiscovery.tids: the free transaction ids
          snl,          \* the names of the last SNL PDU collected (for its length)
          cache,        \* [Names -> address | -1]  (ServiceDiscovery.snl, -1 = unknown)
          up            \* link is up
vars == <<th, reqs, sent, out, pool, snl, cache, up>>

Unknown == -1
RNone == -2             \* resolve() returned None
RKeyError == -3         \* resolve() raised KeyError
RStarved == -5          \* resolve() raised IndexError: random.choice() of an empty pool     (-4: any other exception, binding only)
NoTid == -1
NoName == ""
Idle == [pc |-> "idle", n |-> "", ret |-> 0, calls |-> 0]

\* ------------------------------------------------------------------ the critical sections as functions
\* resolve(), first part                                                              llc.py:175-188
\* x: the transaction id random.choice() draws - any id of the pool (Draws), NoTid where none is drawn
Draws(s, n) == IF ~s.up \/ s.cache[n] # Unknown \/ s.pool = {} THEN {NoTid} ELSE s.pool
CallR(s, t, n, x) ==
    IF ~s.up THEN [s EXCEPT !.th[t] = [@ EXCEPT !.pc = "ret", !.n = n, !.ret = RNone, !.calls = @ + 1]]
    ELSE IF s.cache[n] # Unknown
         THEN [s EXCEPT !.th[t] = [@ EXCEPT !.pc = "ret", !.n = n, !.ret = s.cache[n], !.calls = @ + 1]]
    ELSE IF s.pool = {}                                                                    \* IndexError from random.choice([])
         THEN [s EXCEPT !.th[t] = [@ EXCEPT !.pc = "ret", !.n = n, !.ret = RStarved, !.calls = @ + 1]]
         ELSE [s EXCEPT !.th[t] = [@ EXCEPT !.pc = "wait", !.n = n, !.calls = @ + 1],
                        !.pool = @ \ {x},                                                  \* the id is taken
                        !.reqs = Append(@, [id |-> <<t, s.th[t].calls + 1>>, n |-> n, tid |-> x])]
\* ServiceDiscovery.dequeue, requests: `for i in range(len(sdreq))`: the head goes into the PDU if 3 + len(name) fits
\* the remaining budget (and is recorded in `sent`), else it is rotated to the end - the queue keeps its order
\* (llc.py:238-246).  wrong variant: the walk is over a snapshot, the entry that fits is recorded, the HEAD is sent
Need(n) == 3 + NameLen[n]
CollectR(s) ==
    LET r == FoldLeft(LAMBDA acc, i :
                        LET e == s.reqs[i] IN
                        IF Need(e.n) > acc.m THEN (IF PopHead THEN acc ELSE [acc EXCEPT !.keep = Append(@, e)])
                        ELSE IF PopHead
                             THEN [m |-> acc.m - Need(e.n), keep |-> <<>>, q |-> Tail(acc.q), wire |-> Append(acc.wire, Head(acc.q)),
                                   rec |-> [acc.rec EXCEPT ![e.tid] = e.n]]
                             ELSE [acc EXCEPT !.m = @ - Need(e.n), !.wire = Append(@, e), !.rec[e.tid] = e.n],      \* sent[tid] = name
                      [m |-> SendMiu, keep |-> <<>>, q |-> s.reqs, wire |-> <<>>, rec |-> s.sent], [i \in DOMAIN s.reqs |-> i])
    IN [s EXCEPT !.reqs = IF PopHead THEN r.q ELSE r.keep,
                 !.sent = r.rec,
                 !.out = @ \cup {r.wire[i] : i \in DOMAIN r.wire},
                 !.snl = [i \in DOMAIN r.wire |-> r.wire[i].n]]
\* ServiceDiscovery.enqueue with the answers for the requests A                        llc.py:199-210
\* the peer answers the request it received (its transaction id, the address bound under ITS name); the answer is filed
\* under the name recorded for that id and the id goes back to the pool - an id that was never recorded is ignored
DeliverR(s, A) ==
    LET hits == {a \in A : s.sent[a.tid] # NoName} IN
    [s EXCEPT !.out = @ \ A,
              !.cache = [n \in Names |-> IF \E a \in hits : s.sent[a.tid] = n
                                         THEN PeerSnl[(CHOOSE a \in hits : s.sent[a.tid] = n).n] ELSE @[n]],
              !.pool = IF GiveBack THEN @ \cup {a.tid : a \in hits} ELSE @,                                         \* tids.append(tid)
              !.th = [t \in Threads |-> IF @[t].pc = "wait" THEN [@[t] EXCEPT !.pc = "woken"] ELSE @[t]]]
\* after resp.wait() returned                                                         llc.py:187-189
WakeR(s, t, check) ==
    LET k == s.th[t] IN
    IF ~s.up THEN [s EXCEPT !.th[t].pc = "ret", !.th[t].ret = RNone]
    ELSE IF s.cache[k.n] # Unknown THEN [s EXCEPT !.th[t].pc = "ret", !.th[t].ret = s.cache[k.n]]
    ELSE IF check THEN [s EXCEPT !.th[t].pc = "wait"]                       \* not my answer: wait again
    ELSE [s EXCEPT !.th[t].pc = "ret", !.th[t].ret = RKeyError]             \* self.snl[name] without a look
LinkEndR(s) == [s EXCEPT !.up = FALSE,
                         !.th = [t \in Threads |-> IF @[t].pc = "wait" THEN [@[t] EXCEPT !.pc = "woken"] ELSE @[t]]]
ReturnR(s, t) == [s EXCEPT !.th[t].pc = "idle"]

State == [th |-> th, reqs |-> reqs, sent |-> sent, out |-> out, pool |-> pool, snl |-> snl, cache |-> cache, up |-> up]
Set(s) == /\ th' = s.th /\ reqs' = s.reqs /\ sent' = s.sent /\ out' = s.out /\ pool' = s.pool /\ snl' = s.snl
          /\ cache' = s.cache /\ up' = s.up

\* ------------------------------------------------------------------ actions
Init == /\ th = [t \in Threads |-> Idle] /\ reqs = <<>> /\ sent = [x \in Tids |-> NoName] /\ out = {} /\ pool = Tids /\ snl = <<>>
        /\ cache = [n \in Names |-> Unknown] /\ up = TRUE

Call(t, n) == th[t].pc = "idle" /\ th[t].calls < MaxCalls /\ \E x \in Draws(State, n) : Set(CallR(State, t, n, x))
Collect == reqs # <<>> /\ up /\ CollectR(State).snl # <<>> /\ Set(CollectR(State))
Deliver(A) == A # {} /\ A \subseteq out /\ up /\ Set(DeliverR(State, A))
Wake(t) == th[t].pc = "woken" /\ Set(WakeR(State, t, WakeCheck))
LinkEnd == up /\ Set(LinkEndR(State))
Return(t) == th[t].pc = "ret" /\ Set(ReturnR(State, t))

Next == \/ \E t \in Threads : \/ \E n \in Names : Call(t, n)
                              \/ Wake(t)
                              \/ Return(t)
        \/ Collect
        \/ \E A \in SUBSET out : Deliver(A)
        \/ LinkEnd
Spec == Init /\ [][Next]_vars

\* ------------------------------------------------------------------ properties
\* each resolve(n) returns the address the peer bound n to (0 = not bound), None once the link is gone - never raises
ReturnOkP(k, isup) == k.pc = "ret" => (k.ret = PeerSnl[k.n] \/ (k.ret = RNone /\ ~isup))
ResolveReturns == \A t \in Threads : ReturnOkP(th[t], up)
\* nobody sleeps on an answer that is already there, or on a link that is gone (no lost wake-up)
NoLostWakeupP(s) == \A t \in Threads : s.th[t].pc = "wait" => (s.up /\ s.cache[s.th[t].n] = Unknown)
NoLostWakeup == NoLostWakeupP(State)
\* every waiting thread has a request that is queued or on its way
Pending(s) == {s.reqs[i].n : i \in DOMAIN s.reqs} \cup {a.n : a \in s.out}
RequestOutP(s) == \A t \in Threads : s.th[t].pc = "wait" => s.th[t].n \in Pending(s)
RequestOut == RequestOutP(State)
\* every SDREQ on the wire is recorded under its transaction id, and an SNL PDU never exceeds the peer's MIU
RecordedP(s) == \A a \in s.out : s.sent[a.tid] = a.n
Recorded == RecordedP(State)
SnlFitsP(s) == FoldLeft(LAMBDA a, i : a + Need(s.snl[i]), 0, [i \in DOMAIN s.snl |-> i]) <= SendMiu
SnlFits == SnlFitsP(State)

\* the transaction ids are conserved: every id is either free or out with exactly one request that is queued or on
\* its way - an answered lookup has given its id back, no id is handed out twice
Busy(s) == {s.reqs[i].tid : i \in DOMAIN s.reqs} \cup {a.tid : a \in s.out}
PoolConservedP(s) == /\ s.pool \cap Busy(s) = {}
                     /\ s.pool \cup Busy(s) = Tids
                     /\ Cardinality(Busy(s)) = Len(s.reqs) + Cardinality(s.out)
PoolConserved == PoolConservedP(State)
\* with all earlier lookups answered the pool is full: a new lookup always gets an id, however many went before
NeverStarvesP(s) == (s.reqs = <<>> /\ s.out = {}) => s.pool = Tids
NeverStarves == NeverStarvesP(State)

\* ------------------------------------------------------------------ reachability witnesses (must be violated)
W_PoolEmpty   == ~(pool = {} /\ up)                                                         \* every id is out
W_TidReused   == ~(\E i \in DOMAIN reqs : sent[reqs[i].tid] \notin {NoName, reqs[i].n})     \* an id drawn again, for another name
W_Refilled    == ~(pool = Tids /\ Cardinality({n \in Names : cache[n] # Unknown}) > Cardinality(Tids))  \* more lookups answered than ids
\* (temporal, must be violated) the pool runs empty and is full again later
NeverRefilled == [](pool = {} => [](pool # Tids))
W_ForeignWake == ~(\E t \in Threads : th[t].pc = "woken" /\ up /\ cache[th[t].n] = Unknown)     \* woken by somebody else's answer
W_TwoWaiting  == ~(Cardinality({t \in Threads : th[t].pc = "wait"}) >= 2 /\ Cardinality(out) >= 2)
W_Skipped     == ~(Len(snl) >= 2 /\ Len(reqs) >= 1)        \* one request did not fit, a later one did
W_SameName    == ~(\E t, u \in Threads : t # u /\ th[t].pc = "wait" /\ th[u].pc = "wait" /\ th[t].n = th[u].n)
W_NoneReturn  == ~(\E t \in Threads : th[t].pc = "ret" /\ th[t].ret = RNone)
W_Absent      == ~(\E t \in Threads : th[t].pc = "ret" /\ th[t].ret = 0)
W_CachedCall  == ~(\E t \in Threads : th[t].pc = "ret" /\ th[t].calls = 2 /\ th[t].ret > 0)
=============================================================================
