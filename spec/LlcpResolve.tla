---------------------------- MODULE LlcpResolve ----------------------------
(* Concurrent service name resolution on one LLCP link controller (C17, "name resolution reaches exactly the
   socket bound under that name, or reports absence" - also when several application threads resolve at once).

   Bound to nfc/llcp/llc.py  ServiceDiscovery.resolve 175-189 (cache look-up, SDREQ queued, `while name not in snl:
   resp.wait()`), ServiceDiscovery.dequeue (all pending SDREQ go into the next SNL PDU), ServiceDiscovery.enqueue
   196-217 (every SDRES of a received SNL PDU: cache[name] := sap, resp.notify_all()), ServiceDiscovery.shutdown
   (snl := None, notify_all()), llc.resolve (None after termination).

   Threads T call resolve(n); one action per critical section (everything between two points where the controller
   lock is released):
     Call(t, n)     the look-up under the lock: cached -> the thread has its result; else SDREQ queued and the thread waits
     Collect        the link loop takes all queued SDREQ into one SNL PDU
     Deliver(A)     one SNL PDU with the answers for the requests in A arrives (the peer answers each request once,
                    in any grouping and order): cache updated, every waiting thread is notified
     Wake(t)        a notified thread runs: it re-checks ITS name and waits again if the answer was for somebody else
     LinkEnd        the link terminates: every waiting thread is notified, resolve() returns None from now on
     Return(t)      resolve() returns to the application

   WakeCheck = FALSE is the deliberately wrong variant (`if` instead of `while` around resp.wait()): a notified thread
   takes cache[name] without looking - KeyError when the answer was for another name.                              *)
EXTENDS Integers, Sequences, SequencesExt, FiniteSets, TLC

CONSTANTS Threads,      \* application threads
          Names,        \* service names that are resolved
          PeerSnl,      \* [Names -> address the peer bound the name to, 0 = not bound]
          NameLen,      \* [Names -> length of the name in octets]
          SendMiu,      \* link MIU announced by the peer: budget of one SNL PDU's information field
          PopHead,      \* (wrong variant) dequeue walks a snapshot of the queue but sends whatever is at its head (code: FALSE)
          MaxCalls,     \* bound on resolve() calls per thread (model checking only)
          WakeCheck     \* TRUE: `while name not in snl: wait()`   FALSE: `if ...: wait()`

VARIABLES th,           \* [Threads -> [pc, n, ret, calls]]   pc: "idle" | "wait" | "woken" | "ret"
          reqs,         \* SDREQ queued, not yet collected: Seq of [id, n]
          sent,         \* ServiceDiscovery.sent: the requests recorded as sent (tid -> name), set of [id, n]
          out,          \* SDREQ that really went on the wire and are not yet answered: set of [id, n]
          snl,          \* the names of the last SNL PDU collected (for its length)
          cache,        \* [Names -> address | -1]  (ServiceDiscovery.snl, -1 = unknown)
          up            \* link is up
vars == <<th, reqs, sent, out, snl, cache, up>>

Unknown == -1
RNone == -2             \* resolve() returned None
RKeyError == -3         \* resolve() raised KeyError
Idle == [pc |-> "idle", n |-> "", ret |-> 0, calls |-> 0]

\* ------------------------------------------------------------------ the critical sections as functions
\* resolve(), first part                                                              llc.py:175-188
CallR(s, t, n) ==
    IF ~s.up THEN [s EXCEPT !.th[t] = [@ EXCEPT !.pc = "ret", !.n = n, !.ret = RNone, !.calls = @ + 1]]
    ELSE IF s.cache[n] # Unknown
         THEN [s EXCEPT !.th[t] = [@ EXCEPT !.pc = "ret", !.n = n, !.ret = s.cache[n], !.calls = @ + 1]]
         ELSE [s EXCEPT !.th[t] = [@ EXCEPT !.pc = "wait", !.n = n, !.calls = @ + 1],
                        !.reqs = Append(@, [id |-> <<t, s.th[t].calls + 1>>, n |-> n])]    \* id: ghost for the transaction id
\* ServiceDiscovery.dequeue, requests: `for i in range(len(sdreq))`: the head goes into the PDU if 3 + len(name) fits
\* the remaining budget (and is recorded in `sent`), else it is rotated to the end - the queue keeps its order
\* (llc.py:238-246).  wrong variant: the walk is over a snapshot, the entry that fits is recorded, the HEAD is sent
Need(n) == 3 + NameLen[n]
CollectR(s) ==
    LET r == FoldLeft(LAMBDA acc, i :
                        LET e == s.reqs[i] IN
                        IF Need(e.n) > acc.m THEN (IF PopHead THEN acc ELSE [acc EXCEPT !.keep = Append(@, e)])
                        ELSE IF PopHead
                             THEN [m |-> acc.m - Need(e.n), keep |-> <<>>, q |-> Tail(acc.q), wire |-> Append(acc.wire, Head(acc.q)),
                                   rec |-> acc.rec \cup {e}]
                             ELSE [acc EXCEPT !.m = @ - Need(e.n), !.wire = Append(@, e), !.rec = @ \cup {e}],
                      [m |-> SendMiu, keep |-> <<>>, q |-> s.reqs, wire |-> <<>>, rec |-> {}], [i \in DOMAIN s.reqs |-> i])
    IN [s EXCEPT !.reqs = IF PopHead THEN r.q ELSE r.keep,
                 !.sent = @ \cup r.rec,
                 !.out = @ \cup {r.wire[i] : i \in DOMAIN r.wire},
                 !.snl = [i \in DOMAIN r.wire |-> r.wire[i].n]]
\* ServiceDiscovery.enqueue with the answers for the requests A                        llc.py:199-210
\* the peer answers the request it received (its id, the address bound under ITS name); the answer is filed under
\* the name recorded for that id - an id that was never recorded is ignored
DeliverR(s, A) ==
    [s EXCEPT !.out = @ \ A,
              !.cache = [n \in Names |-> IF \E a \in A : \E r \in s.sent : r.id = a.id /\ r.n = n
                                         THEN PeerSnl[(CHOOSE a \in A : \E r \in s.sent : r.id = a.id /\ r.n = n).n] ELSE @[n]],
              !.th = [t \in Threads |-> IF @[t].pc = "wait" THEN [@[t] EXCEPT !.pc = "woken"] ELSE @[t]]]
\* after resp.wait() returned                                                         llc.py:187-189
WakeR(s, t, check) ==
    LET k == s.th[t] IN
    IF ~s.up THEN [s EXCEPT !.th[t].pc = "ret", !.th[t].ret = RNone]
    ELSE IF s.cache[k.n] # Unknown THEN [s EXCEPT !.th[t].pc = "ret", !.th[t].ret = s.cache[k.n]]
    ELSE IF check THEN [s EXCEPT !.th[t].pc = "wait"]                       \* not my answer: wait again
    ELSE [s EXCEPT !.th[t].pc = "ret", !.th[t].ret = RKeyError]             \* self.snl[name] without a look
LinkEndR(s) == [s EXCEPT !.up = FALSE,
                         !.th = [t \in Threads |-> IF @[t].pc = "wait" THEN [@[t] EXCEPT !.pc = "woken"] ELSE @[t]]]
ReturnR(s, t) == [s EXCEPT !.th[t].pc = "idle"]

State == [th |-> th, reqs |-> reqs, sent |-> sent, out |-> out, snl |-> snl, cache |-> cache, up |-> up]
Set(s) == /\ th' = s.th /\ reqs' = s.reqs /\ sent' = s.sent /\ out' = s.out /\ snl' = s.snl /\ cache' = s.cache /\ up' = s.up

\* ------------------------------------------------------------------ actions
Init == /\ th = [t \in Threads |-> Idle] /\ reqs = <<>> /\ sent = {} /\ out = {} /\ snl = <<>>
        /\ cache = [n \in Names |-> Unknown] /\ up = TRUE

Call(t, n) == th[t].pc = "idle" /\ th[t].calls < MaxCalls /\ Set(CallR(State, t, n))
Collect == reqs # <<>> /\ up /\ CollectR(State).snl # <<>> /\ Set(CollectR(State))
Deliver(A) == A # {} /\ A \subseteq out /\ up /\ Set(DeliverR(State, A))
Wake(t) == th[t].pc = "woken" /\ Set(WakeR(State, t, WakeCheck))
LinkEnd == up /\ Set(LinkEndR(State))
Return(t) == th[t].pc = "ret" /\ Set(ReturnR(State, t))

Next == \/ \E t \in Threads : \/ \E n \in Names : Call(t, n)
                              \/ Wake(t)
                              \/ Return(t)
        \/ Collect
        \/ \E A \in SUBSET out : Deliver(A)
        \/ LinkEnd
Spec == Init /\ [][Next]_vars

\* ------------------------------------------------------------------ properties
\* each resolve(n) returns the address the peer bound n to (0 = not bound), None once the link is gone - never raises
ReturnOkP(k, isup) == k.pc = "ret" => (k.ret = PeerSnl[k.n] \/ (k.ret = RNone /\ ~isup))
ResolveReturns == \A t \in Threads : ReturnOkP(th[t], up)
\* nobody sleeps on an answer that is already there, or on a link that is gone (no lost wake-up)
NoLostWakeupP(s) == \A t \in Threads : s.th[t].pc = "wait" => (s.up /\ s.cache[s.th[t].n] = Unknown)
NoLostWakeup == NoLostWakeupP(State)
\* every waiting thread has a request that is queued or on its way
Pending(s) == {s.reqs[i].n : i \in DOMAIN s.reqs} \cup {a.n : a \in s.out}
RequestOutP(s) == \A t \in Threads : s.th[t].pc = "wait" => s.th[t].n \in Pending(s)
RequestOut == RequestOutP(State)
\* every SDREQ on the wire is recorded under its transaction id, and an SNL PDU never exceeds the peer's MIU
RecordedP(s) == s.out \subseteq s.sent
Recorded == RecordedP(State)
SnlFitsP(s) == FoldLeft(LAMBDA a, i : a + Need(s.snl[i]), 0, [i \in DOMAIN s.snl |-> i]) <= SendMiu
SnlFits == SnlFitsP(State)

\* ------------------------------------------------------------------ reachability witnesses (must be violated)
W_ForeignWake == ~(\E t \in Threads : th[t].pc = "woken" /\ up /\ cache[th[t].n] = Unknown)     \* woken by somebody else's answer
W_TwoWaiting  == ~(Cardinality({t \in Threads : th[t].pc = "wait"}) >= 2 /\ Cardinality(out) >= 2)
W_Skipped     == ~(Len(snl) >= 2 /\ Len(reqs) >= 1)        \* one request did not fit, a later one did
W_SameName    == ~(\E t, u \in Threads : t # u /\ th[t].pc = "wait" /\ th[u].pc = "wait" /\ th[t].n = th[u].n)
W_NoneReturn  == ~(\E t \in Threads : th[t].pc = "ret" /\ th[t].ret = RNone)
W_Absent      == ~(\E t \in Threads : th[t].pc = "ret" /\ th[t].ret = 0)
W_CachedCall  == ~(\E t \in Threads : th[t].pc = "ret" /\ th[t].calls = 2 /\ th[t].ret > 0)
=============================================================================
