SPECIFICATION Spec
CONSTANTS
  LongLen = 5
  Layouts <- MCLayouts
  BaseLens = {0, 1, 4, 5, 6, 9}
  Wipes = {119}
  Variants = {"asis", "fixed"}
  Cuts = FALSE
  SectorSize = 32
  MaxFaults = 1
  MaxRetry = 1
  Session = TRUE
  Kinds = {"T2", "T1S", "T1D", "T512"}
  Sizes = {1, 2, 3, 5}
  Pads = {0, 1, 2, 3, 5, 7}
  Props = {0, 77, 113}
  CtlFroms = {2, 4, 9, 14}
  MemSizes = {1, 3, 0}
  LockBits = {1, 7, 9, 12, 15, 0}
  CtlTypes = {1, 2}
  TwoCtl = TRUE
  OldLens = {0, 1, 5, 9}
INVARIANT RoundTrip
INVARIANT CapSound
INVARIANT RejectEarly
INVARIANT FxNoCrash
INVARIANT CrashOnlyKnown
INVARIANT CoherentButFormat
INVARIANT SectorSync
CHECK_DEADLOCK FALSE
