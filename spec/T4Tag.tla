------------------------------- MODULE T4Tag -------------------------------
(* NFC Forum Type 4 Tag NDEF store: a tag (capability container, NDEF file, one unrelated file)
   and the reader/writer procedures of nfcpy, one action per UPDATE BINARY command APDU:

     Begin        nfc/tag/__init__.py:177-185  Tag.NDEF.octets setter (writeable + capacity check)
     WriteStep    nfc/tag/tt4.py:317-335       Type4Tag.NDEF._write_ndef_data
                    "u_data"  NLEN+message in one APDU if it fits MLc, else 00..00+message in
                              chunks of MLc bytes, ascending offsets          (tt4.py:320-329)
                    "u_nlen"  NLEN written last                               (tt4.py:331-332)
     FBegin/WipeStep  tt4.py:337-344,411-424   Type4Tag._format -> _wipe_ndef_data
                    "z_nlen"  NLEN := 0, "z_wipe" chunks of MLc wipe bytes from offset nlen_size
                              up to (not including) offset capacity
     FreshRead    tt4.py:284-315               _read_ndef_data of a fresh reader (READ BINARY plan)
     PowerCut     the tag leaves the field between two commands
     Drop / Recover  transient outage: a frame of the pending exchange does not reach the tag; the ISO-DEP
                  initiator (tt4.py IsoDepInitiator.exchange) makes Retries (1 + n_retry = 6) attempts per
                  block, then the operation ends with Type4TagCommandError ("failed"); the tag may answer
                  again afterwards but the writer sends nothing more (NLEN = 0 or the old file stay)

   Code as it is vs. code with the proposed fixes (proposed_fixes/C01-t4-1.diff, C01-t4-2.diff):
     (a) tt4.py:332/340  the return value of _update_binary (bytes really sent = min(MLc, n)) is
         ignored for the NLEN field: with MLc < nlen_size only the first MLc bytes of NLEN are
         written and the call returns normally (action Finish from a Partial state).
         Fix: loop until the field is written.
     (b) tt4.py:212/218  min(MLe, n) / min(MLc, n) is passed to send_apdu although only short
         APDUs are supported: Le > LeMax (256) / Lc > LcMax (255) raise ValueError (action Raise,
         CodeView = Raised).  Fix: the reader's limits become min(MLe, LeMax) / min(MLc, LcMax) at
         discovery (ELc below).  A first version of the fix that clamped each chunk but kept MLc in
         the one-APDU decision was refuted by TLC on this model: a write that fits one APDU by MLc
         was split with NLEN in the first command -- Atomic violated after one command.
   `Variants` says which behaviours the model admits: {"asis"}, {"fixed"} or both (trace validation:
   either is a *recognised* step, the invariants decide whether it is acceptable).  MC_T4Tag.cfg
   checks the fixed design on the full range, MC_T4Tag_asis_safe.cfg the code as it is where it is
   right (nlen_size <= MLc <= LcMax, MLe <= LeMax), MC_T4Tag_defects.cfg demands that the as-is
   model reproduces the three defects (D_* witnesses).

   Lengths are written in base B (256; 4 in exhaustive runs so that a two-digit NLEN occurs with
   files of a dozen bytes).
*)
EXTENDS Integers, Sequences, SequencesExt, FiniteSets, TLC

CONSTANTS B,           \* byte base
          LcMax, LeMax,\* short APDU limits (255, 256)
          Variants,    \* subset of {"asis", "fixed"}
          Mfss, Extras, NlenSizes, MLcs, MLes, WFlags, OldLens, MsgKinds,   \* MC: layouts
          WithCut, WithFormat,
          WithOutage, Retries    \* explore Drop ; attempts per block before the initiator gives up (6)

VARIABLES tag,    \* [cc, ndef, oth]  cc = [ns, mfs, mle, mlc, wf] ; ndef/oth = file contents
          tag0,
          pc, op,
          msg,
          pay,    \* bytes to be written from offset 0 (tt4.py:320-325) / wipe parameters
          off,    \* next offset
          ncmd,   \* UPDATE BINARY commands sent so far (executed or refused)
          nd,     \* consecutive frames of the pending exchange that were lost
          last,   \* the last command sent
          seen    \* view of a fresh reader (FreshRead), [k |-> "unseen"] before
vars == <<tag, tag0, pc, op, msg, pay, off, ncmd, nd, last, seen>>

Min2(a, b) == IF a < b THEN a ELSE b
Zeros(n) == [k \in 1..n |-> 0]
Pow(n) == IF n = 0 THEN 1 ELSE IF n = 1 THEN B ELSE IF n = 2 THEN B * B ELSE B * B * B
Nlen(ns, n) == [k \in 1..ns |-> (n \div Pow(ns - k)) % B]
NlenVal(s) == FoldLeft(LAMBDA a, b : a * B + b, 0, s)
NoCmd == [fid |-> "", off |-> 0, data |-> <<>>]

Ndef(v) == [k |-> "ndef", v |-> v]
Empty == Ndef(<<>>)
NoNdef == [k |-> "none", v |-> <<>>]
Raised(x) == [k |-> x, v |-> <<>>]
Unseen == [k |-> "unseen", v |-> <<>>]

\* ------------------------------------------------------------------ tag layer (independent of nfcpy)
TagOk(T, c) ==
    /\ Len(c.data) >= 1 /\ Len(c.data) <= T.cc.mlc
    /\ \/ c.fid = "ndef" /\ T.cc.wf = 0 /\ c.off + Len(c.data) <= Len(T.ndef)
       \/ c.fid = "oth" /\ c.off + Len(c.data) <= Len(T.oth)
Patch(f, c) == [x \in 1..Len(f) |-> IF x > c.off /\ x <= c.off + Len(c.data) THEN c.data[x - c.off] ELSE f[x]]
TagApply(T, c) == IF c.fid = "ndef" THEN [T EXCEPT !.ndef = Patch(@, c)]
                  ELSE IF c.fid = "oth" THEN [T EXCEPT !.oth = Patch(@, c)] ELSE T

\* ------------------------------------------------------------------ reference reader (T4T operation spec.)
NS(T) == T.cc.ns
HasNdef(T) == Len(T.ndef) >= NS(T) /\ T.cc.mle >= NS(T)
StoredLen(T) == NlenVal(SubSeq(T.ndef, 1, NS(T)))
RefRead(T) ==
    IF ~HasNdef(T) THEN NoNdef
    ELSE IF NS(T) + StoredLen(T) > Len(T.ndef) THEN NoNdef
    ELSE Ndef(SubSeq(T.ndef, NS(T) + 1, NS(T) + StoredLen(T)))
RealCap(T) == Min2(T.cc.mfs, Len(T.ndef)) - NS(T)

\* ------------------------------------------------------------------ nfcpy reader (tt4.py:275-315)
RepCap(T) == T.cc.mfs - NS(T)                             \* tt4.py:277  mfs - tag + 2
Writeable(T) == T.cc.wf = 0
\* READ BINARY commands <<offset, Le>> of a fresh reader on the NDEF file, as coded / with the clamp
ReadLe(T, want, v) == IF v = "fixed" THEN Min2(Min2(T.cc.mle, LeMax), want) ELSE Min2(T.cc.mle, want)
ReadRaises(T, v) == v = "asis" /\ Min2(T.cc.mle, StoredLen(T)) > LeMax
ReadPlan(T, v) ==
    IF ReadRaises(T, v) THEN << <<0, NS(T)>> >> ELSE
    LET n  == StoredLen(T)
        le == ReadLe(T, n, v)                 \* every full chunk has this size
        nc == IF n = 0 THEN 0 ELSE (n + le - 1) \div le
    IN << <<0, NS(T)>> >> \o [c \in 1..nc |-> <<NS(T) + (c - 1) * le, Min2(le, n - (c - 1) * le)>>]
CodeView(T, v) == IF HasNdef(T) /\ ReadRaises(T, v) THEN Raised("ValueError") ELSE RefRead(T)

\* ------------------------------------------------------------------ nfcpy writer (tt4.py:317-335)
Cmd(o, d) == [fid |-> "ndef", off |-> o, data |-> d]
\* With fix (b) the writer's limit is min(MLc, LcMax).  The code as it is uses MLc: it then either
\* behaves identically (MLc <= LcMax, or everything fits into one short APDU) or raises ValueError
\* before the first command (action Raise), so one definition of the payload serves both variants.
ELc == Min2(tag.cc.mlc, LcMax)
Single(m) == NS(tag) + Len(m) <= ELc
Payload(m) == IF Single(m) THEN Nlen(NS(tag), Len(m)) \o m ELSE Zeros(NS(tag)) \o m

Begin(m) ==
    /\ pc = "idle" /\ HasNdef(tag)
    /\ op' = "write" /\ msg' = m /\ off' = 0
    /\ pay' = Payload(m)
    /\ pc' = IF ~Writeable(tag) THEN "refused"
             ELSE IF Len(m) > RepCap(tag) THEN "rejected" ELSE "u_data"
    /\ UNCHANGED <<tag, tag0, ncmd, nd, last, seen>>

\* size of the next chunk of `total` bytes at offset o: as coded min(MLc, rest) (raises if > LcMax) /
\* with fix (b) min(MLc, LcMax, rest)
Want(total, o) == Min2(tag.cc.mlc, total - o)
ChunkSizes(total, o) ==
    LET w == Want(total, o) IN
    (IF "asis" \in Variants /\ w <= LcMax THEN {w} ELSE {}) \cup
    (IF "fixed" \in Variants THEN {Min2(w, LcMax)} ELSE {})
ChunkRaises(total, o) == "asis" \in Variants /\ Want(total, o) > LcMax
Partial == off > 0 /\ off < NS(tag)          \* in "u_nlen"/"z_nlen": NLEN written in part
WipeFrom(o) ==          \* tt4.py:341-344: chunks of the wipe value from offset o up to capacity
    { [c |-> Cmd(o, [k \in 1..n |-> pay.wipe % B]),
       pc |-> IF o + n < RepCap(tag) THEN "z_wipe" ELSE "z_end", off |-> o + n]
      : n \in ChunkSizes(RepCap(tag), o) }

\* ValueError("unsupported command data length") before the APDU is sent (send_apdu, tt4.py:469)
Raise ==
    /\ \/ pc = "u_data" /\ ChunkRaises(Len(pay), off)
       \/ pc = "z_wipe" /\ ChunkRaises(RepCap(tag), off)
       \/ pc = "z_nlen" /\ Partial /\ NS(tag) < RepCap(tag) /\ ChunkRaises(RepCap(tag), NS(tag))
    /\ pc' = "error_value"
    /\ UNCHANGED <<tag, tag0, op, msg, pay, off, ncmd, nd, last, seen>>

\* the commands the modelled procedure may issue next, each with the follow-up pc and off
Steps ==
    CASE pc = "u_data" ->
           { [c |-> Cmd(off, SubSeq(pay, off + 1, off + n)),
              pc |-> IF off + n < Len(pay) THEN "u_data" ELSE IF Single(msg) THEN "u_end" ELSE "u_nlen",
              off |-> IF off + n < Len(pay) THEN off + n ELSE 0] : n \in ChunkSizes(Len(pay), off) }
      [] pc = "u_nlen" /\ (off = 0 \/ "fixed" \in Variants) ->       \* fix (a): go on after a partial write
           LET n == Min2(ELc, NS(tag) - off) IN
           { [c |-> Cmd(off, SubSeq(Nlen(NS(tag), Len(msg)), off + 1, off + n)),
              pc |-> IF off + n < NS(tag) THEN "u_nlen" ELSE "u_end", off |-> off + n] }
      [] pc = "z_nlen" ->
           (IF off = 0 \/ "fixed" \in Variants
            THEN LET n == Min2(ELc, NS(tag) - off) IN
                 { [c |-> Cmd(off, Zeros(n)),
                    pc |-> IF off + n < NS(tag) THEN "z_nlen"
                           ELSE IF NS(tag) < RepCap(tag) THEN "z_wipe" ELSE "z_end",
                    off |-> off + n] }
            ELSE {}) \cup
           (IF Partial /\ "asis" \in Variants /\ NS(tag) < RepCap(tag)   \* as coded: offset := nlen_size
            THEN WipeFrom(NS(tag)) ELSE {})
      [] pc = "z_wipe" -> WipeFrom(off)
      [] OTHER -> {}

\* one UPDATE BINARY command `s.c` reaches the tag
Step(s) ==
    /\ ncmd' = ncmd + 1 /\ last' = s.c /\ nd' = 0
    /\ IF TagOk(tag, s.c)
       THEN tag' = TagApply(tag, s.c) /\ pc' = s.pc /\ off' = s.off
       ELSE tag' = tag /\ pc' = "error" /\ off' = off
    /\ UNCHANGED <<tag0, op, msg, pay, seen>>

\* the call returns normally: everything sent -- or, as coded, after a partial NLEN write
Finish ==
    /\ \/ pc = "u_end" /\ pc' = "done"
       \/ pc = "u_nlen" /\ Partial /\ "asis" \in Variants /\ pc' = "done"
       \/ pc = "z_end" /\ pc' = "fdone"
       \/ pc = "z_nlen" /\ Partial /\ "asis" \in Variants /\ NS(tag) >= RepCap(tag) /\ pc' = "fdone"
    /\ UNCHANGED <<tag, tag0, op, msg, pay, off, ncmd, nd, last, seen>>

Drop ==
    /\ op = "write" /\ pc \in {"u_data", "u_nlen"}
    /\ nd' = nd + 1
    /\ pc' = IF nd + 1 >= Retries THEN "failed" ELSE pc
    /\ UNCHANGED <<tag, tag0, op, msg, pay, off, ncmd, last, seen>>
Recover ==               \* a frame got through again before the budget was used up
    /\ op = "write" /\ pc \in {"u_data", "u_nlen"} /\ nd > 0
    /\ nd' = 0
    /\ UNCHANGED <<tag, tag0, pc, op, msg, pay, off, ncmd, last, seen>>

PowerCut ==
    /\ op = "write" /\ pc \in {"u_data", "u_nlen", "u_end"}
    /\ pc' = "cut"
    /\ UNCHANGED <<tag, tag0, op, msg, pay, off, ncmd, nd, last, seen>>

\* Type4Tag._format(version, wipe): wipe = -1 stands for None (nothing is sent, returns True)
FBegin(wipe) ==
    /\ pc = "idle"
    /\ op' = "format" /\ msg' = <<>> /\ off' = 0 /\ pay' = [wipe |-> wipe]
    /\ pc' = IF ~HasNdef(tag) \/ ~Writeable(tag) THEN "ffalse" ELSE IF wipe < 0 THEN "z_end" ELSE "z_nlen"
    /\ UNCHANGED <<tag, tag0, ncmd, nd, last, seen>>

Terminal == {"done", "cut", "failed", "rejected", "refused", "error", "error_value", "fdone", "ffalse"}
FreshRead ==
    /\ pc \in Terminal /\ seen = Unseen
    /\ seen' \in {CodeView(tag, v) : v \in Variants}
    /\ UNCHANGED <<tag, tag0, pc, op, msg, pay, off, ncmd, nd, last>>

\* ------------------------------------------------------------------ exhaustive model (scaled constants)
OldFile(ns, flen, n) == Nlen(ns, n) \o [x \in 1..(flen - ns) |-> 1 + (x % 2)]
NewMsg(kind, n) == IF kind = "a" THEN [x \in 1..n |-> 2 + (x % 2)]
                   ELSE [x \in 1..n |-> IF x % 2 = 0 THEN 0 ELSE 1]

Init ==
    /\ \E mfs \in Mfss, ex \in Extras, ns \in NlenSizes, mlc \in MLcs, mle \in MLes, wf \in WFlags :
         \E n \in {x \in OldLens : x <= mfs - ns} :
            /\ mfs > ns
            /\ tag = [cc |-> [ns |-> ns, mfs |-> mfs, mle |-> mle, mlc |-> mlc, wf |-> wf],
                      ndef |-> OldFile(ns, mfs + ex, n), oth |-> <<3, 3>>]
    /\ tag0 = tag
    /\ pc = "idle" /\ op = "none" /\ msg = <<>> /\ pay = <<>> /\ off = 0 /\ ncmd = 0 /\ last = NoCmd
    /\ seen = Unseen /\ nd = 0

Next ==
    \/ \E kind \in MsgKinds, n \in 0..(RepCap(tag) + 1) : Begin(NewMsg(kind, n))
    \/ \E s \in Steps : (op = "write" \/ WithFormat) /\ Step(s)
    \/ Raise
    \/ Finish
    \/ WithCut /\ PowerCut
    \/ WithOutage /\ (Drop \/ Recover)
    \/ WithFormat /\ \E wipe \in {-1, 3} : FBegin(wipe)
    \/ FreshRead

Spec == Init /\ [][Next]_vars

\* ------------------------------------------------------------------ properties
\* C01
RoundTrip == pc = "done" => RefRead(tag) = Ndef(msg)
WriteOk == pc \notin {"error", "error_value"}
CapSound == RepCap(tag0) <= RealCap(tag0)
RejectEarly == pc \in {"rejected", "refused", "ffalse"} => ncmd = 0 /\ tag = tag0
FreshOk == seen # Unseen => seen = RefRead(tag)
\* C02: every reachable state of a write.  Not demanded when MLc < nlen_size: NLEN can then not be
\* written by one command, no writer can be atomic (stated assumption of the check).
Atomic == op = "write" /\ tag0.cc.mlc >= NS(tag0) =>
            RefRead(tag) \in {RefRead(tag0), Empty, Ndef(msg)}
\* C03
Confined ==
    /\ tag.oth = tag0.oth /\ tag.cc = tag0.cc
    /\ \A x \in (tag0.cc.mfs + 1)..Len(tag.ndef) : tag.ndef[x] = tag0.ndef[x]
    /\ last # NoCmd => last.fid = "ndef" /\ last.off + Len(last.data) <= tag0.cc.mfs
    /\ pc \in {"rejected", "refused", "ffalse"} => tag = tag0

TypeOK == pc \in {"idle", "refused", "rejected", "u_data", "u_nlen", "u_end", "done", "cut", "failed", "error",
                  "error_value", "ffalse", "z_nlen", "z_wipe", "z_end", "fdone"}

\* ------------------------------------------------------------------ reachability witnesses (must be violated)
W_CutOld == ~(pc = "cut" /\ ncmd = 0 /\ RefRead(tag) = RefRead(tag0) /\ Len(RefRead(tag).v) > 0)
W_CutEmpty == ~(pc = "cut" /\ ncmd > 0 /\ RefRead(tag) = Empty /\ RefRead(tag0) # Empty /\ Len(msg) > 0)
W_CutNew == ~(pc = "cut" /\ Len(msg) > 0 /\ RefRead(tag) = Ndef(msg) /\ RefRead(tag0) # Ndef(msg))
W_FailedEmpty == ~(pc = "failed" /\ ncmd >= 1 /\ RefRead(tag) = Empty /\ RefRead(tag0) # Empty)
W_Single == ~(pc = "done" /\ ncmd = 1 /\ Len(msg) > 0)
W_Multi == ~(pc = "done" /\ ncmd >= 4)
W_Rejected == ~(pc = "rejected")
W_Refused == ~(pc = "refused")
W_Full == ~(pc = "done" /\ Len(msg) = RepCap(tag0) /\ Len(tag.ndef) > tag0.cc.mfs)
W_TwoDigit == ~(pc = "done" /\ Len(msg) >= B /\ seen = Ndef(msg))
W_Wipe == ~(pc = "fdone" /\ ncmd >= 3)
\* the model reproduces the defects of the code as it is (checked with Variants = {"asis"})
D_NlenTruncated == ~(pc = "done" /\ RefRead(tag) # Ndef(msg))
D_WriteRaises == ~(pc = "error_value")
D_ReadRaises == ~(seen = Raised("ValueError"))
=============================================================================
