SPECIFICATION TSpec
CONSTANTS
  SendMius = {128}
  Agfs = {TRUE}
  Layouts = {}
  Infos = {}
  RawInfos = {}
  CtlKinds = {}
  MaxQ = 0
  MaxTotal = 0
  MaxRes = 0
  ReqLens = {}
  MaxReq = 0
  MaxDm = 0
  AckStates = {}
  SdresMin = 1
  LoopGuard = FALSE
CONSTRAINT Done
CHECK_DEADLOCK FALSE
