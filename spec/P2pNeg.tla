------------------------------ MODULE P2pNeg ------------------------------
(* Peer-to-peer activation (NFC-DEP ATR/PSL + LLCP PAX in the general bytes) as a pure
   function from the option records of the two devices to the parameters both sides must
   hold afterwards.  Written from the protocol rules, not from the code:

     NFC-DEP  LR table 64/128/192/254; the initiator announces LRi in ATR_REQ (what it can
              receive), the target LRt in ATR_RES; a DEP PDU carries at most LR(receiver)
              transport bytes, 3 of them header (no DID/NAD in LLCP use); the target's
              response waiting time index WT (0..14) is announced in ATR_RES; the bit rate
              after activation is the one selected by PSL_REQ when the initiator wants a
              higher rate than the one of discovery, else the discovery rate.
     LLCP     each side announces MIUX (MIU = 128 + MIUX, 128..2175), LTO (multiples of
              10 ms, default 100), WKS (bit per bound well-known service, bit 0 always set),
              OPT/LSC; what one side announces is what the other side must use.

   A configuration c is the flat record of the options of both devices plus the environment
   (which technologies the listening device answers).  Options that the role of a device
   does not use (rwt/lrt on the initiator, brs/lri/acm on the target) are part of the
   record (x...): nfcpy's connect() passes them to both roles and they must be ignored.

   After activation the same rule holds once more per data link connection (section "data link connections"):
   CONNECT / CC announce MIUX and RW, the connection is addressed by SAP, by service name (CONNECT to SAP 1, rewritten
   by the accepting LLC) or by SAP after an explicit name lookup, and the limits both ends hold must be EQUAL to what
   the other end announced (ConnEqual) - not only not larger (Obey / Refused).

   TLC enumerates Grid (structured sub-grids of the full product, see GridCfg) as initial
   states and checks Symmetric / WithinRanges on Expected(c); the binding re-enumerates the
   same grid on two real stacks and Trace_P2pNeg requires proj = Proj(Expected(c)).        *)
EXTENDS Naturals, Sequences, FiniteSets, TLC

CONSTANTS Kinds,         \* sub-grids to enumerate: subset of {"dep", "ml", "opt", "lto", "depx", "llcp"}
          MaxSent,       \* frames an obeying sender puts on the link per behaviour (model checking bound)
          MaxConn,       \* data link connections opened per behaviour (model checking bound; 0 = none)
          MiuClasses,    \* which connection MIU announcements CONNECT / CC carry (see MiuxOf)
          RwVals         \* which receive windows CONNECT / CC carry (NoTlv = no RW TLV)

VARIABLES c,             \* configuration
          ph,            \* "start" -> "up" | "down"
          conn,          \* connection parameters announced after activation: {[side, sap, miu, rw]} (CONNECT / CC of side,
                         \* sap = the announcing end's own service access point)
          sent,          \* history of what crossed the link: {[layer, dir, size, limit]}
          dlc            \* data link connections, from the CONNECT on: how they were addressed, what was announced, and the
                         \* limits both ends hold once the connection is open (see the connection section)
vars == <<c, ph, conn, sent, dlc>>

LRTab == <<64, 128, 192, 254>>
LR(k) == LRTab[k + 1]
Rates == <<"106A", "212F", "424F">>
Floor10(x) == (x \div 10) * 10
Mius == <<128, 129, 248, 1024, 2174, 2175>>
Ltos == <<10, 100, 105, 500, 2550>>
\* link timeouts at the edges of the LTO TLV encoding (one octet, units of 10 ms; 100 ms is the default and the TLV is
\* omitted): 0..9 are announced as 0, 19 as 10, 2559 as 2550.  2560 is out of range: the code as it is encodes
\* (lto div 10) modulo 256, i.e. announces 0; it is in the grid with exactly that meaning (Announced)
LtosX == <<0, 5, 9, 10, 19, 100, 500, 2550, 2559, 2560>>
Announced(lto) == 10 * ((lto \div 10) % 256)

\* ------------------------------------------------------------------ the grid
\* every field of a configuration from one integer (deterministic mixing; only the fields that a
\* sub-grid enumerates in full are then overridden)
Mix(k) ==
    [brs |-> (k * 7 + 1) % 3, acm |-> (k * 5 + 1) % 2 = 0, disc |-> IF (k * 3) % 5 = 0 THEN "F" ELSE "A",
     lri |-> (k * 3 + 1) % 4, lrt |-> (k * 5 + 2) % 4, rwt |-> (k * 11 + 4) % 15,
     miuI |-> Mius[((k * 5 + 2) % 6) + 1], miuT |-> Mius[((k * 7 + 3) % 6) + 1],
     ltoI |-> Ltos[((k * 3 + 1) % 5) + 1], ltoT |-> Ltos[((k * 7 + 2) % 5) + 1],
     lscI |-> (k * 3 + 3) % 4, lscT |-> (k * 5 + 1) % 4,
     agfI |-> (k * 3) % 2 = 0, agfT |-> (k * 7 + 1) % 2 = 0,
     snepI |-> (k * 5) % 3 = 0, snepT |-> (k * 7) % 3 = 1,
     xrwtI |-> (k * 7 + 3) % 15, xlrtI |-> (k * 3 + 2) % 4, xbrsT |-> (k * 5 + 2) % 3,
     xlriT |-> (k * 7 + 1) % 4, xacmT |-> (k * 3 + 1) % 2 = 0]

Size(kind) == CASE kind = "dep" -> 3 * 2 * 2 * 4 * 4 * 15
                [] kind = "ml" -> 6 * 6 * 5 * 5
                [] kind = "opt" -> 4 * 4 * 2 * 2 * 2 * 2
                [] kind = "depx" -> 2880 * 16
                [] kind = "llcp" -> 900 * 256
                [] kind = "lto" -> 10 * 10

DepPart(m, k) == [m EXCEPT !.brs = k % 3, !.acm = (k \div 3) % 2 = 1, !.disc = IF (k \div 6) % 2 = 1 THEN "F" ELSE "A",
                           !.lri = (k \div 12) % 4, !.lrt = (k \div 48) % 4, !.rwt = (k \div 192) % 15]
MlPart(m, k) == [m EXCEPT !.miuI = Mius[(k % 6) + 1], !.miuT = Mius[((k \div 6) % 6) + 1],
                          !.ltoI = Ltos[((k \div 36) % 5) + 1], !.ltoT = Ltos[((k \div 180) % 5) + 1]]
OptPart(m, k) == [m EXCEPT !.lscI = k % 4, !.lscT = (k \div 4) % 4, !.agfI = (k \div 16) % 2 = 1,
                           !.agfT = (k \div 32) % 2 = 1, !.snepI = (k \div 64) % 2 = 1, !.snepT = (k \div 128) % 2 = 1]

GridCfg(kind, k) ==
    CASE kind = "dep" -> DepPart(Mix(k), k)
      [] kind = "ml" -> MlPart(Mix(k + 1), k)
      [] kind = "opt" -> OptPart(Mix(k + 2), k)
      [] kind = "depx" -> DepPart(Mix((k \div 2880) * 131 + k + 3), k % 2880)
      [] kind = "llcp" -> OptPart(MlPart(Mix(k + 4), k % 900), k \div 900)
      [] kind = "lto" -> [Mix(k + 5) EXCEPT !.ltoI = LtosX[(k % 10) + 1], !.ltoT = LtosX[((k \div 10) % 10) + 1]]

InGrid(kind, k, cfg) == kind \in Kinds /\ k \in 0..(Size(kind) - 1) /\ cfg = GridCfg(kind, k)

\* ------------------------------------------------------------------ the reference
ValidCfg(x) ==
    /\ x.brs \in 0..2 /\ x.lri \in 0..3 /\ x.lrt \in 0..3 /\ x.rwt \in 0..14
    /\ x.miuI \in 128..2175 /\ x.miuT \in 128..2175
    /\ x.ltoI \in 0..2560 /\ x.ltoT \in 0..2560          \* (2560: see LtosX)
    /\ x.lscI \in 0..3 /\ x.lscT \in 0..3

Wks(snep) == 1 + 2 + (IF snep THEN 16 ELSE 0)          \* LLC link management, SDP, (SNEP)

Expected(x) ==
    LET idx0 == IF x.disc = "A" THEN 0 ELSE 1                     \* rate of discovery
        found == x.disc = "A" \/ x.brs > 0                         \* 212F is polled only when brs > 0
        idx == IF x.brs > idx0 THEN x.brs ELSE idx0
    IN [ok |-> found,
        acm |-> x.acm /\ x.disc = "A",                             \* active mode is tried at 106A only
        psl |-> x.brs > idx0, brty0 |-> Rates[idx0 + 1], brty |-> Rates[idx + 1],
        lrI |-> LR(x.lri), lrT |-> LR(x.lrt), wt |-> x.rwt,
        i |-> [depMiu |-> LR(x.lrt) - 3, sendMiu |-> x.miuT, recvMiu |-> x.miuI,
               sendLto |-> x.ltoI, recvLto |-> Announced(x.ltoT), sendWks |-> Wks(x.snepT),
               sendLsc |-> x.lscT, agf |-> x.agfI],
        t |-> [depMiu |-> LR(x.lri) - 3, sendMiu |-> x.miuI, recvMiu |-> x.miuT,
               sendLto |-> x.ltoT, recvLto |-> Announced(x.ltoI), sendWks |-> Wks(x.snepI),
               sendLsc |-> x.lscI, agf |-> x.agfT]]

\* each side's sending limit equals the other's announced receiving limit
Symmetric(e) ==
    /\ e.i.sendMiu = e.t.recvMiu /\ e.t.sendMiu = e.i.recvMiu
    /\ e.i.recvLto = Announced(e.t.sendLto) /\ e.t.recvLto = Announced(e.i.sendLto)
    /\ e.i.depMiu + 3 = e.lrT /\ e.t.depMiu + 3 = e.lrI
WithinRanges(e) ==
    /\ e.i.sendMiu \in 128..2175 /\ e.t.sendMiu \in 128..2175
    /\ e.i.recvLto \in 0..2550 /\ e.t.recvLto \in 0..2550 /\ e.i.recvLto % 10 = 0 /\ e.t.recvLto % 10 = 0
    /\ e.i.depMiu \in {61, 125, 189, 251} /\ e.t.depMiu \in {61, 125, 189, 251}
    /\ e.wt \in 0..14
    /\ e.i.sendWks % 2 = 1 /\ e.t.sendWks % 2 = 1
    /\ e.i.sendLsc \in 0..3 /\ e.t.sendLsc \in 0..3
    /\ e.brty \in {"106A", "212F", "424F"} /\ (e.psl => e.brty # e.brty0)

\* ------------------------------------------------------------------ behaviour: activation, then traffic
Init == /\ \E kind \in Kinds : \E k \in 0..(Size(kind) - 1) : c = GridCfg(kind, k)
        /\ ph = "start" /\ conn = {} /\ sent = {} /\ dlc = {}

\* the negotiation action: from here on the limits of Expected(c) bind both sides
Activate == /\ ph = "start"
            /\ ph' = IF Expected(c).ok THEN "up" ELSE "down"
            /\ UNCHANGED <<c, conn, sent, dlc>>

\* a second negotiation action: a CONNECT or CC PDU of `side` ("I" / "T") announces the MIU of the data link
\* connection that ends at its service access point `sap` (no RW TLV: receive window 1)
Announce(side, sap, miu) ==
    /\ ph = "up" /\ Cardinality(conn) < MaxSent
    /\ conn' = conn \cup {[side |-> side, sap |-> sap, miu |-> miu, rw |-> 1]}
    /\ UNCHANGED <<c, ph, sent, dlc>>

Rcv(dir) == IF dir = "IT" THEN "T" ELSE "I"
LinkMiu(x, dir) == IF dir = "IT" THEN Expected(x).t.recvMiu ELSE Expected(x).i.recvMiu   \* what the receiver announced
MinOf(S) == CHOOSE m \in S : \A n \in S : m <= n
\* the limit of the receiver for a unit of layer `layer` travelling in direction `dir`:
\*   "dep"  transport bytes of one NFC-DEP frame          <= LR announced by the receiver
\*   "llc"  information field of one LLC PDU (also AGF)   <= link MIU announced in the receiver's general bytes
\*   "ui"   payload of a UI PDU                           <= link MIU of the receiver
\*   "i"    payload of an I PDU to the receiver's SAP     <= MIU the receiver announced for that connection
\*                                                           (CONNECT/CC), never more than its link MIU
Limit(x, cn, layer, dir, sap) ==
    LET e == Expected(x)
        ms == {a.miu : a \in {b \in cn : b.side = Rcv(dir) /\ b.sap = sap}} IN
    CASE layer = "dep" -> IF dir = "IT" THEN e.lrT ELSE e.lrI
      [] layer = "i" /\ ms # {} -> MinOf(ms \cup {LinkMiu(x, dir)})
      [] OTHER -> LinkMiu(x, dir)

Unit(x, cn, layer, dir, sap, size) ==
    [layer |-> layer, dir |-> dir, size |-> size, limit |-> Limit(x, cn, layer, dir, sap)]

\* a sender that obeys puts nothing larger than the receiver's limit on the link (model checking explores
\* senders that go exactly to the limit; the binding records what the real senders did, see Trace_P2pNeg)
Send(layer, dir, sap, size) ==
    /\ ph = "up" /\ Cardinality(sent) < MaxSent
    /\ size <= Limit(c, conn, layer, dir, sap)
    /\ sent' = sent \cup {Unit(c, conn, layer, dir, sap, size)}
    /\ UNCHANGED <<c, ph, conn, dlc>>

\* ------------------------------------------------------------------ data link connections
\* The third negotiation: a data link connection is opened by either side (`init`), addressed in one of three ways
\*   "sap"       CONNECT to the service access point of the service
\*   "name"      CONNECT to SAP 1 carrying the service NAME (SN TLV): the accepting LLC resolves the name and hands the
\*               CONNECT on to the service's access point - the parameters the PDU announces must survive that
\*   "resolved"  the opener first asks for the SAP of the name (SNL SDREQ / SDRES), then CONNECTs to that SAP
\* and CONNECT / CC each announce the receiving limits of their sender for this connection: MIUX TLV (MIU = 128 + MIUX,
\* no TLV = 128) and RW TLV (0..15, no TLV = 1).  What one end announces is what the other end must use - not more
\* (Obey / Refused) and not less (ConnEqual): the send MIU of an end EQUALS the smaller of the peer's connection MIU and
\* the link MIU the peer announced in its PAX, the send window EQUALS the peer's RW, however the connection was addressed.
NoTlv == 65535
ConnModes == {"sap", "name", "resolved"}
SvcSap == 16                  \* model checking: the service of either side
CliSap == 32                  \* model checking: the client socket of either side
Other(s) == IF s = "I" THEN "T" ELSE "I"
DirTo(s) == IF s = "T" THEN "IT" ELSE "TI"
MinN(a, b) == IF a <= b THEN a ELSE b
AnnLink(x, s) == IF s = "I" THEN Expected(x).i.recvMiu ELSE Expected(x).t.recvMiu   \* link MIU in the PAX of side s
MiuOfP(p) == IF p.miux = NoTlv THEN 128 ELSE 128 + p.miux
RwOfP(p) == IF p.rw = NoTlv THEN 1 ELSE p.rw
\* the MIUX values a CONNECT / CC of a side whose link MIU is `link` may carry: no TLV, an explicit 0, below / at / above
\* the link MIU, the largest
MiuxOf(cl, link) == CASE cl = "none" -> NoTlv
                      [] cl = "zero" -> 0
                      [] cl = "below" -> (link - 128) \div 2
                      [] cl = "at" -> link - 128
                      [] cl = "above" -> MinN(2047, link - 128 + 352)
                      [] cl = "max" -> 2047
NoPar == [miux |-> NoTlv, rw |-> NoTlv]
NoEnd == [miu |-> 0, win |-> 0]
\* the limits of the end that sends TO side r, after r announced p for the connection
EndFor(x, r, p) == [miu |-> MinN(MiuOfP(p), AnnLink(x, r)), win |-> RwOfP(p)]

\* pure functions on connection records (composed by the actions below and by Trace_P2pNeg)
\*   st    "resolved" (SNL done, no CONNECT yet) -> "connect" (CONNECT on its way) -> "open"
\*   ann   what the CONNECT announced on the link;  cur = what the CONNECT PDU carries where it is now
\*   acc / opn   the limits the accepting / the opening end holds for SENDING
Looked(s) == [st |-> "resolved", init |-> s, mode |-> "resolved", dsap |-> 0, ssap |-> 0, svc |-> 0,
              ann |-> NoPar, cur |-> NoPar, cc |-> NoPar, acc |-> NoEnd, opn |-> NoEnd]
Requested(s, mode, ssap, dsap, p) ==
    [st |-> "connect", init |-> s, mode |-> mode, dsap |-> dsap, ssap |-> ssap, svc |-> 0,
     ann |-> p, cur |-> p, cc |-> NoPar, acc |-> NoEnd, opn |-> NoEnd]
\* LogicalLinkController.dispatch: connect-by-name is rewritten to the access point the name is bound to; MIU and RW
\* are carried over
Rewritten(d, sap) == [d EXCEPT !.dsap = sap, !.cur = d.cur]
\* accept() / CC: both ends take their sending limits from what the other end announced
Accepted(x, d, sap, q) ==
    [d EXCEPT !.st = "open", !.svc = sap, !.cc = q,
              !.acc = EndFor(x, d.init, d.cur), !.opn = EndFor(x, Other(d.init), q)]

Lookup(s) ==
    /\ ph = "up" /\ Cardinality(dlc) < MaxConn /\ ~\E d \in dlc : d.init = s
    /\ dlc' = dlc \cup {Looked(s)}
    /\ UNCHANGED <<c, ph, conn, sent>>
ConnectReq(s, mode, p) ==
    /\ ph = "up"
    /\ IF mode = "resolved" THEN \E d \in dlc : d.init = s /\ d.st = "resolved"
       ELSE Cardinality(dlc) < MaxConn /\ ~\E d \in dlc : d.init = s
    /\ dlc' = {d \in dlc : d.init # s} \cup {Requested(s, mode, CliSap, IF mode = "name" THEN 1 ELSE SvcSap, p)}
    /\ conn' = conn \cup {[side |-> s, sap |-> CliSap, miu |-> MiuOfP(p), rw |-> RwOfP(p)]}
    /\ UNCHANGED <<c, ph, sent>>
ResolveName(d) ==
    /\ d \in dlc /\ d.st = "connect" /\ d.dsap = 1
    /\ dlc' = (dlc \ {d}) \cup {Rewritten(d, SvcSap)}
    /\ UNCHANGED <<c, ph, conn, sent>>
AcceptConn(d, q) ==
    /\ d \in dlc /\ d.st = "connect" /\ d.dsap = SvcSap
    /\ dlc' = (dlc \ {d}) \cup {Accepted(c, d, SvcSap, q)}
    /\ conn' = conn \cup {[side |-> Other(d.init), sap |-> SvcSap, miu |-> MiuOfP(q), rw |-> RwOfP(q)]}
    /\ UNCHANGED <<c, ph, sent>>

\* the receive window the receiver of direction `dir` announced for its access point `sap` (0: no connection)
WinLimit(cn, dir, sap) ==
    LET ws == {a.rw : a \in {b \in cn : b.side = Rcv(dir) /\ b.sap = sap}} IN
    IF ws = {} THEN 0 ELSE MinOf(ws)

\* the limits of both ends are EQUAL to what the other end announced, however the connection was addressed
EndsEqual(x, d) ==
    /\ d.acc.miu = MinN(MiuOfP(d.ann), AnnLink(x, d.init)) /\ d.acc.win = RwOfP(d.ann)
    /\ d.opn.miu = MinN(MiuOfP(d.cc), AnnLink(x, Other(d.init))) /\ d.opn.win = RwOfP(d.cc)
ConnEqual == \A d \in dlc : d.st = "open" => EndsEqual(c, d)
\* ... and they are the limits that Obey / Refused judge the traffic by (from the announcements on the link)
ConnLimitAgree ==
    \A d \in dlc : d.st = "open" =>
        /\ Limit(c, conn, "i", DirTo(d.init), d.ssap) = d.acc.miu
        /\ Limit(c, conn, "i", DirTo(Other(d.init)), d.svc) = d.opn.miu
        /\ WinLimit(conn, DirTo(d.init), d.ssap) = d.acc.win
        /\ WinLimit(conn, DirTo(Other(d.init)), d.svc) = d.opn.win
ConnSane == \A d \in dlc : d.st = "open" =>
        /\ d.acc.miu \in 128..AnnLink(c, d.init) /\ d.opn.miu \in 128..AnnLink(c, Other(d.init))
        /\ d.acc.win \in 0..15 /\ d.opn.win \in 0..15

\* traffic after activation: a DEP frame of `size` transport bytes at bit rate `brty`
FrameOk(x, dir, size, brty) ==
    LET e == Expected(x) IN size <= (IF dir = "IT" THEN e.lrT ELSE e.lrI) /\ brty = e.brty

\* the timeouts the run loops must use, in carrier cycles (1/13.56 MHz): the initiator waits the response
\* waiting time of the target (4096 * 2^WT cycles) unless the link timeout of the peer (+10 ms) is shorter,
\* the target waits the link timeout the initiator announced (+ 10 ms)
RECURSIVE Pow2(_)
Pow2(n) == IF n = 0 THEN 1 ELSE 2 * Pow2(n - 1)
ExpWait(x, side) ==
    LET e == Expected(x) IN
    IF side = "T" THEN (e.t.recvLto + 10) * 13560
    ELSE IF 4096 * Pow2(e.wt) <= (e.i.recvLto + 10) * 13560 THEN 4096 * Pow2(e.wt) ELSE (e.i.recvLto + 10) * 13560
\* the link timeout a side announced (plus the 10 ms the receiver grants on top) bounds its own turn-around time
\* (carrier cycles)
ExpTurn(x, side) == 13560 * (Announced(IF side = "I" THEN x.ltoI ELSE x.ltoT) + 10)

Next == \/ Activate
        \/ \E side \in {"I", "T"} : \E m \in {128, LinkMiu(c, IF side = "I" THEN "TI" ELSE "IT")} : Announce(side, 32, m)
        \/ \E layer \in {"dep", "llc", "ui", "i"}, dir \in {"IT", "TI"} :
              Send(layer, dir, 32, Limit(c, conn, layer, dir, 32))
        \/ \E s \in {"I", "T"} : Lookup(s)
        \/ \E s \in {"I", "T"}, mode \in ConnModes, cl \in MiuClasses, w \in RwVals :
              ConnectReq(s, mode, [miux |-> MiuxOf(cl, AnnLink(c, s)), rw |-> w])
        \/ \E d \in dlc : ResolveName(d)
        \/ \E d \in dlc, cl \in MiuClasses, w \in RwVals :
              AcceptConn(d, [miux |-> MiuxOf(cl, AnnLink(c, Other(d.init))), rw |-> w])
Spec == Init /\ [][Next]_vars

SymmetricInv == (ValidCfg(c) /\ Expected(c).ok) => Symmetric(Expected(c))
RangesInv    == (ValidCfg(c) /\ Expected(c).ok) => WithinRanges(Expected(c))
AllValid     == ValidCfg(c)
\* both sides obey the negotiated limits: nothing that crossed the link is larger than its receiver allowed
ObeyP(s) == \A f \in s : f.size <= f.limit
Obey == ObeyP(sent)
\* the limits are the negotiated ones: an I PDU limit never exceeds the link MIU of the receiver
LimitsSane == \A f \in sent : f.limit <= (IF f.layer = "dep" THEN 254 ELSE 2175) /\ f.limit >= (IF f.layer = "dep" THEN 64 ELSE 128)

\* witnesses (must be violated)
W_Psl    == ~(ph = "up" /\ Expected(c).psl)
W_NoPsl  == ~(ph = "up" /\ ~Expected(c).psl /\ Expected(c).brty = "212F")
W_Down   == ~(ph = "down")
W_Acm    == ~(ph = "up" /\ Expected(c).acm)
W_MaxMiu == ~(ph = "up" /\ Expected(c).i.sendMiu = 2175 /\ Expected(c).t.depMiu = 61)
W_ConnLim == ~(\E f \in sent : f.layer = "i" /\ f.limit = 128 /\ LinkMiu(c, f.dir) > 128)
W_Full    == ~(\E f \in sent : f.layer = "llc" /\ f.size = 2175)
\* connections: every way of addressing reaches an open connection whose limits are neither the defaults nor the link's
Mid(d) == d.st = "open" /\ d.acc.miu > 128 /\ d.acc.miu < AnnLink(c, d.init) /\ d.acc.win > 1
W_BySap    == ~(\E d \in dlc : d.mode = "sap" /\ Mid(d))
W_ByName   == ~(\E d \in dlc : d.mode = "name" /\ Mid(d) /\ d.dsap = SvcSap)
W_Resolved == ~(\E d \in dlc : d.mode = "resolved" /\ Mid(d))
W_NoTlv    == ~(\E d \in dlc : d.st = "open" /\ d.ann = NoPar /\ AnnLink(c, d.init) > 128 /\ d.acc = [miu |-> 128, win |-> 1])
W_Clamped  == ~(\E d \in dlc : d.st = "open" /\ MiuOfP(d.ann) > d.acc.miu /\ MiuOfP(d.cc) > d.opn.miu)
W_Win      == ~(\E d \in dlc : d.st = "open" /\ d.acc.win = 15 /\ d.opn.win = 0)
=============================================================================
