------------------------- MODULE Trace_LlcpConn -------------------------
(* Trace validation of real CONNECT/CC/DM/DISC handshakes (two LogicalLinkController objects, aggregation off,
   blocking calls in helper threads) against LlcpConn.  Every event carries the projection of both sides after
   the step; the spec's step must produce exactly that projection. *)
EXTENDS LlcpConn, Json, IOUtils, TLCExt
VARIABLES tid, l
tvars == <<cl, lst, acc, ab, ba, nacc, lost, tid, l>>
Traces == ndJsonDeserialize(IOEnv.TRACE_FILE)
T == Traces[tid].ev
C == Traces[tid].const
Ev == T[l]

PC(r) == [st |-> r.st, smiu |-> r.smiu, swin |-> r.swin, peer |-> r.peer, res |-> r.res]
PA(r) == [st |-> r.st, peer |-> r.peer, smiu |-> r.smiu, swin |-> r.swin]
PW(w) == [i \in DOMAIN w |-> [t |-> w[i].t, d |-> w[i].d, s |-> w[i].s, reason |-> w[i].reason, sn |-> w[i].sn]]
Proj == [cl |-> [c \in Clients |-> PC(cl'[c])], nrq |-> Len(lst'.rq), acc |-> [i \in DOMAIN acc' |-> PA(acc'[i])],
         ab |-> PW(ab'), ba |-> PW(ba')]

TInit == /\ tid \in 1..Len(Traces) /\ l = 1
         /\ cl = [c \in Clients |-> [st |-> "CLOSED", rmiu |-> C.cl[c].rmiu, rw |-> C.cl[c].rw, smiu |-> 128, swin |-> 0,
                                     peer |-> 0, res |-> "-", how |-> "-"]]
         /\ lst = [st |-> IF ListenerPresent THEN "LISTEN" ELSE "NONE", rmiu |-> C.lrmiu, rw |-> C.lrw, rq |-> <<>>]
         /\ acc = <<>> /\ ab = <<>> /\ ba = <<>> /\ nacc = 0 /\ lost = FALSE
Step == l <= Len(T) /\ l' = l + 1 /\ UNCHANGED tid
Is(a) == l <= Len(T) /\ Ev.a = a
Guarded == \/ Is("Connect") /\ Step /\ Ev.how \in Hows /\ Connect(Ev.c, Ev.how)
           \/ Is("DeliverA") /\ Step /\ DeliverA
           \/ Is("DeliverB") /\ Step /\ DeliverB
           \/ Is("Accept") /\ Step /\ Accept
           \/ Is("AcceptSend") /\ Step /\ AcceptSend
           \/ Is("Greeting") /\ Step /\ Greeting(Ev.sent, Ev.got)
           \/ Is("CloseClient") /\ Step /\ CloseClient(Ev.c)
           \/ Is("RecvNone") /\ Step /\ RecvNone(Ev.c)
           \/ Is("CloseAcc") /\ Step /\ CloseAcc(Ev.i)
           \/ Is("RecvNoneAcc") /\ Step /\ RecvNoneAcc(Ev.i)
PostOk == Proj = Ev.post
InvOk == AgreementP(cl', acc') /\ Len(lst'.rq) <= Backlog /\ ~lost'
Real == Guarded /\ PostOk /\ InvOk
Why == IF ~ENABLED Guarded THEN [clause |-> "guard", cl |-> [c \in Clients |-> cl[c].st], ab |-> Len(ab), ba |-> Len(ba)]
       ELSE IF ~ENABLED (Guarded /\ PostOk) THEN [clause |-> "post", cl |-> [c \in Clients |-> PC(cl[c])], ab |-> PW(ab), ba |-> PW(ba)]
       ELSE [clause |-> "inv", cl |-> [c \in Clients |-> cl[c].st], ab |-> Len(ab), ba |-> Len(ba)]
Stuck == /\ l <= Len(T) /\ ~ENABLED Real
         /\ PrintT(<<"STUCK", Traces[tid].id, l, Ev.a, Why>>)
         /\ l' = Len(T) + 2 /\ UNCHANGED <<cl, lst, acc, ab, ba, nacc, lost, tid>>
TNext == Real \/ Stuck
TSpec == TInit /\ [][TNext]_tvars
Done == (l = Len(T) + 1) => PrintT(<<"ACCEPT", Traces[tid].id>>)
=============================================================================
