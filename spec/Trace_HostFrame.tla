------------------------- MODULE Trace_HostFrame -------------------------
(* C14 binding: recorded cases of the real nfcpy frame and CRC code evaluated against the reference
   operators of HostFrame / Crc14443.  One trace = one batch of cases of one kind:
     "cmd"   command frames written to a recording transport       written = <Driver>Cmd(code, Pattern(pat, n))
     "rsp"   outcome of Chipset.command() for a (corrupted) response frame; the frame is rebuilt here from
             the batch's template and the corruption descriptor and must have the logged length and byte sum
     "crc"   calculate_crc / add_crc_a / add_crc_b / check_crc_a / check_crc_b on one message
     "crctab" add_crc_a / add_crc_b on the 256 messages  p \o <<j>>
     "tt2"   the drivers' own CRC_A check of Type 2 Tag answers (_tt2_send_cmd_recv_rsp) through exchange()
   A failed check prints <<"STUCK", "<batch>#<line>", line, kind, <<"inv", <<clause>>, ..>>>> and the
   walk continues (every case gets a verdict); the batch itself is ACCEPTed when all lines were evaluated. *)
EXTENDS HostFrame, Crc14443, Json, IOUtils, TLC, TLCExt

VARIABLES tid, l
tvars == <<tid, l>>

Traces == ndJsonDeserialize(IOEnv.TRACE_FILE)
T == Traces[tid].ev
K == Traces[tid].kind
C == Traces[tid].const
Ev == T[l]

Pow2(i) == IF i = 0 THEN 1 ELSE IF i = 1 THEN 2 ELSE IF i = 2 THEN 4 ELSE IF i = 3 THEN 8
           ELSE IF i = 4 THEN 16 ELSE IF i = 5 THEN 32 ELSE IF i = 6 THEN 64 ELSE 128
Pattern(p, n) == [i \in 1..n |-> CASE p = 0 -> 0 [] p = 1 -> (i * 7 + 3) % 256 [] p = 2 -> 255
                                   [] OTHER -> (i * i + p) % 256]

\* --- kind "cmd" ---------------------------------------------------------------------------------
SpecCmd(drv, code, data) ==
  CASE drv = "pn53x"  -> Pn53xCmd(code, data)
    [] drv = "arygon" -> ArygonCmd(code, data)
    [] drv = "acr122" -> Acr122Cmd(code, data)
    [] drv = "rcs380" -> Rcs380Cmd(code, data)
CmdWhy(e) == LET want == SpecCmd(C.drv, e.code, Pattern(e.pat, e.n)) IN
             IF e.w # want THEN <<"inv", <<"WrittenIsSpecFrame">>, Len(e.w), Len(want)>> ELSE <<>>

\* --- kind "rsp" ---------------------------------------------------------------------------------
Corrupt(t, e) ==
  CASE e.ck = "none" -> t
    [] e.ck = "flip" -> [t EXCEPT ![(e.a \div 8) + 1] = t[(e.a \div 8) + 1] ^^ Pow2(e.a % 8)]
    [] e.ck = "cut"  -> SubSeq(t, 1, e.a)
    [] e.ck = "ext"  -> t \o e.xs
    [] e.ck = "tail" -> [t EXCEPT ![Len(t) - 1] = e.a, ![Len(t)] = e.b]
    [] e.ck = "subst" -> [i \in 1..Len(t) |->
                            IF \E j \in 1..(Len(e.xs) \div 2) : e.xs[2 * j - 1] = i
                            THEN e.xs[2 * (CHOOSE j \in 1..(Len(e.xs) \div 2) : e.xs[2 * j - 1] = i)]
                            ELSE t[i]]
    [] e.ck = "raw"  -> e.xs
RspWhy(e) ==
  LET f == Corrupt(C.tpl, e)
      acr == C.drv = "acr122"
      valid == IF acr THEN ValidAcr122Rsp(f, C.code) ELSE ValidPn53xRsp(f, C.code)
      pay == IF acr THEN Acr122Payload(f) ELSE Pn53xPayload(f)
  IN IF Len(f) # e.n \/ Sum(f) # e.s THEN <<"harness", <<"frame-rebuild">>, Len(f), Sum(f)>>
     ELSE IF e.out \notin {"Data", "IOError", "ChipError"} THEN <<"inv", <<"NoOtherException">>, e.out, e.x, valid>>
     ELSE IF e.out = "Data" /\ ~valid THEN <<"inv", <<"AcceptedImpliesValid">>, e.out, e.x, valid>>
     ELSE IF e.out = "Data" /\ (e.dn # Len(pay) \/ e.ds # Sum(pay)) THEN <<"inv", <<"PayloadIntact">>, e.dn, e.ds, Len(pay)>>
     ELSE IF valid /\ e.out # "Data" THEN <<"inv", <<"ValidIsAccepted">>, e.out, e.x, valid>>
     ELSE IF e.out = "ChipError" /\ (acr \/ ~LooksLikeError(f)) THEN <<"inv", <<"ChipErrorOnlyForErrorFrame">>, e.out, e.x, valid>>
     ELSE <<>>

\* --- kinds "crc", "crctab", "tt2" ------------------------------------------------------------------
B2I(b) == IF b THEN 1 ELSE 0
CrcWhy(e) ==
  LET want == CASE e.fn = "calcA" -> CrcReg(25443, e.m)
                [] e.fn = "calcB" -> CrcReg(65535, e.m)
                [] e.fn = "addA"  -> CrcA(e.m)
                [] e.fn = "addB"  -> CrcB(e.m)
                [] e.fn = "chkA"  -> B2I(CheckCrcA(e.m))
                [] e.fn = "chkB"  -> B2I(CheckCrcB(e.m))
  IN IF e.r # want THEN <<"inv", <<"Crc_" \o e.fn>>, e.r, want, Len(e.m)>> ELSE <<>>
TabWhy(e) ==
  LET bad == {j \in 1..256 : e.r[j] # (IF C.fn = "A" THEN CrcA(Append(e.p, j - 1)) ELSE CrcB(Append(e.p, j - 1)))}
  IN IF bad # {} THEN <<"inv", <<"Crc_tab" \o C.fn>>, Cardinality(bad), e.p, 0>> ELSE <<>>
Tt2Why(e) ==
  LET rf == IF e.bit < 0 THEN C.rf
            ELSE [C.rf EXCEPT ![(e.bit \div 8) + 1] = C.rf[(e.bit \div 8) + 1] ^^ Pow2(e.bit % 8)]
      good == Len(rf) <= 2 \/ CheckCrcA(rf)
      want == IF Len(rf) <= 2 THEN rf ELSE Front2(rf)
  IN IF good /\ (e.out # "Data" \/ e.dn # Len(want) \/ e.ds # Sum(want)) THEN <<"inv", <<"Tt2GoodCrcAccepted">>, e.out, e.dn, e.ds>>
     ELSE IF ~good /\ e.out # "Transmission" THEN <<"inv", <<"Tt2BadCrcRejected">>, e.out, e.dn, e.ds>>
     ELSE <<>>

\* --- kind "tt2x": CRC_A ownership for every SEL_RES class of a Type A target --------------------------
\* e.chip / e.drv = how often the (simulated) chip resp. the driver's check_crc_a verified CRC_A in this
\* exchange; the chip does it iff its RxCRCEn (PN53x) / check_crc (RC-S380) setting is on, which the driver
\* controls (sense_tta / in_set_protocol).  Data handed to the caller was checked by exactly one party,
\* carries no CRC bytes, and a frame with a wrong CRC_A is never accepted.
Tt2xWhy(e) ==
  LET rf == IF e.bit < 0 THEN C.rf
            ELSE [C.rf EXCEPT ![(e.bit \div 8) + 1] = C.rf[(e.bit \div 8) + 1] ^^ Pow2(e.bit % 8)]
      good == CheckCrcA(rf)
      want == Front2(rf)
  IN IF e.out = "Data" /\ e.chip + e.drv # 1 THEN <<"inv", <<"CrcCheckedByExactlyOneParty">>, e.sel, e.chip, e.drv>>
     ELSE IF e.out = "Data" /\ (e.dn # Len(want) \/ e.ds # Sum(want)) THEN <<"inv", <<"NoCrcBytesInData">>, e.sel, e.dn, Len(want)>>
     ELSE IF e.out = "Data" /\ ~good THEN <<"inv", <<"BadCrcNeverAccepted">>, e.sel, e.chip, e.drv>>
     ELSE IF good /\ e.out # "Data" THEN <<"inv", <<"GoodCrcAccepted">>, e.sel, e.out, e.x>>
     ELSE IF ~good /\ e.out # "Transmission" THEN <<"inv", <<"BadCrcIsTransmissionError">>, e.sel, e.out, e.x>>
     ELSE <<>>

Why == CASE K = "cmd" -> CmdWhy(Ev) [] K = "tt2x" -> Tt2xWhy(Ev) [] K = "rsp" -> RspWhy(Ev) [] K = "crc" -> CrcWhy(Ev)
         [] K = "crctab" -> TabWhy(Ev) [] K = "tt2" -> Tt2Why(Ev)

TInit == tid \in 1..Len(Traces) /\ l = 1
Step == /\ l <= Len(T)
        /\ IF Why # <<>> THEN PrintT(<<"STUCK", Traces[tid].id \o "#" \o ToString(l), l, K, Why>>) ELSE TRUE
        /\ l' = l + 1 /\ UNCHANGED tid
TSpec == TInit /\ [][Step]_tvars
Done == (l = Len(T) + 1) => PrintT(<<"ACCEPT", Traces[tid].id>>)
=============================================================================
