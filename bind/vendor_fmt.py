"""Binding of spec/VendorFmt.tla: format() / protect() of the real FelicaLite, FelicaLiteS, Topaz and Topaz512 classes
on sim/vendor_sony.SimLite and sim/vendor_broadcom.SimTopaz.  Every state-changing command becomes an event with
its block class and decoded value; the Return event carries the projection of the simulated card, including
`other`: nothing outside the modelled fields changed.
"""
import json, random, struct
from sim import vendor_sony as S
from sim.vendor_broadcom import SimTopaz
from sim.auth_felica import MC, CK, CKV, RC, STATE, MAC_A, REG

import nfc
import nfc.clf
import nfc.tag
import nfc.tag.tt3_sony as tt3_sony

NB = 14


class HarnessError(RuntimeError):
    pass


def attr_block(ver=0x10, nbr=4, nbw=1, nmaxb=13, wf=0, rw=1, ln=0):
    a = bytearray(16)
    a[0:5] = bytes([ver, nbr, nbw, nmaxb >> 8, nmaxb & 0xFF])
    a[9], a[10] = wf, rw
    a[11:14] = ln.to_bytes(3, "big")
    a[14:16] = (sum(a[0:14]) & 0xFFFF).to_bytes(2, "big")
    return bytes(a)


def decode_attr(b):
    b = bytes(b)
    ok = (sum(b[0:14]) & 0xFFFF) == int.from_bytes(b[14:16], "big") and b[0] >> 4 == 1 and b[1] > 0 \
        and int.from_bytes(b[11:14], "big") <= 16 * int.from_bytes(b[3:5], "big")
    if not ok:
        return dict(v="none", n=0, rwf=True, ver=16)
    return dict(v="ok", n=int.from_bytes(b[3:5], "big"), rwf=b[10] != 0, ver=b[0])


def bits(v, n):
    return [i for i in range(n) if v >> i & 1]


class LiteWorld(object):
    def __init__(self, sc, rnd):
        self.kind = sc["kind"]
        self.rnd = rnd
        rb = lambda n: bytes(rnd.randrange(256) for _ in range(n))
        self.keys = {"k0": bytes(16), "kA": rb(16), "kB": rb(16)}
        self.suffix = b"" if rnd.random() < 0.5 else rb(rnd.randint(1, 7))
        ini = sc.get("init") or {}
        user = {}
        self.fill = {}
        for b in range(1, 14):
            self.fill[b] = rb(16)
            user[b] = self.fill[b]
        a = ini.get("attr", "none")
        if a == "none":
            user[0] = rb(14) + b"\xff\xff" if rnd.random() < 0.5 else bytes(16)
        else:
            user[0] = attr_block(nmaxb=ini.get("nmaxb", 13), rw=1 if a == "rw" else 0, ln=rnd.choice([0, 5, 16]))
        self.sim = S.SimLite(self.kind, user=user, ck=self.keys[ini.get("ck", "k0")], idm=bytes([0x01, 0x14]) + rb(6))
        mc = self.sim.mem[MC]
        rw = ini.get("rw", 0x7FFF)
        mc[0:2] = struct.pack("<H", rw)
        mc[2] = 0xFF if ini.get("sys", True) else 0x00
        mc[3] = 1 if ini.get("nd", True) else 0
        self.mc0 = bytes(mc)
        self.sys0_blocks = {b: bytes(self.sim.mem[b]) for b in (0x0E, 0x82, 0x83, 0x84, 0x85)}
        self.wipe = None
        self.init = dict(kind=self.kind, rw=bits(rw, 15), sys=mc[2] == 0xFF, nd=bool(mc[3] & 1), attr=decode_attr(user[0]),
                         ck=ini.get("ck", "k0"), rdm=[], wrm=[], wam=[], kc=False, cc="none", ccro=False, lock=[])
        target = nfc.clf.RemoteTarget("212F")
        target.sensf_res = bytearray(self.sim.sensf_res())
        self.events = []
        self.clf = LiteClf(self, target)
        self.tag = nfc.tag.activate(self.clf, target)
        want = "FelicaLite" if self.kind == "lite" else "FelicaLiteS"
        if type(self.tag).__name__ != want:
            raise HarnessError("activation gave %r" % self.tag)
        self.clf.recording = True
        self.nmodelled = 0
        self.cut_after = None

    def keyname(self, blockdata):
        raw = bytes(blockdata)
        nat = raw[7::-1] + raw[15:7:-1]
        for n, v in self.keys.items():
            if v == nat:
                return n
        return "?"

    def password(self, pw):
        if pw == "none":
            return None
        if pw == "short":
            return self.keys["kA"][:self.rnd.randint(1, 15)]
        raw = b"" if pw == "k0" and self.rnd.random() < 0.5 else self.keys[pw] + self.suffix
        return raw if self.rnd.random() < 0.6 else bytearray(raw)

    def mc_value(self, d, before):
        d = bytes(d)
        same = d[4] == before[4] and d[12:16] == before[12:16] and (d[3] & 0xFE) == (before[3] & 0xFE) and \
            (d[5] & 0xFE) == (before[5] & 0xFE)
        return dict(rw=bits(int.from_bytes(d[0:2], "little"), 15), sys=d[2] == 0xFF, nd=bool(d[3] & 1),
                    rdm=bits(int.from_bytes(d[6:8], "little"), 14), wrm=bits(int.from_bytes(d[8:10], "little"), 14),
                    wam=bits(int.from_bytes(d[10:12], "little"), 14), kc=bool(d[5] & 1), same=bool(same))

    def ev(self, a, **kw):
        rec = dict(a=a, op="-", ver=16, wipe=False, pw="none", rp=False, pf=0, c="-", v=dict(), ok=False, b=0, res="-",
                   rw=[], sys=False, nd=False, attr=dict(v="none", n=0, rwf=True, ver=16), wiped=[], ck="k0", ckv=0,
                   rdm=[], wrm=[], wam=[], kc=False, mcx=True, cc="none", ccro=False, lock=[], other=True)
        rec.update(kw)
        self.events.append(rec)
        return rec

    def projection(self):
        s = self.sim
        mc = bytes(s.mem[MC])
        v = self.mc_value(mc, self.mc0)
        wiped = [b for b in range(1, 14) if self.wipe is not None and bytes(s.mem[b]) == bytes([self.wipe]) * 16]
        other = all(bytes(s.mem[b]) == v0 for b, v0 in self.sys0_blocks.items())
        other = other and all(bytes(s.mem[b]) == self.fill[b] for b in range(1, 14) if b not in wiped)
        return dict(rw=v["rw"], sys=v["sys"], nd=v["nd"], attr=decode_attr(s.mem[0]), wiped=wiped, ck=self.keyname(s.mem[CK]),
                    ckv=int.from_bytes(s.mem[CKV][0:2], "little"), rdm=v["rdm"], wrm=v["wrm"], wam=v["wam"], kc=v["kc"],
                    mcx=v["same"], other=bool(other))


class LiteClf(object):
    def __init__(self, w, target):
        self.w, self.target = w, target
        self.recording = False
        self.op = None
        self.max_send_data_size = self.max_recv_data_size = 290
        self.unanswered = None

    def sense(self, *a, **kw):
        return self.target if self.w.sim.activate() else None

    def exchange(self, data, timeout):
        w, sim = self.w, self.w.sim
        data = bytes(data)
        if not self.recording or self.op is None:
            rsp = sim.process(data)
            if rsp is None:
                raise nfc.clf.TimeoutError("sim")
            return bytearray(rsp)
        if self.unanswered == data:
            if sim.process(data) is not None:
                raise HarnessError("retransmission answered")
            raise nfc.clf.TimeoutError("sim")
        nw = len(sim.writes)
        refused_before = sum(1 for x in sim.log if x[0].startswith("write") and "refused" in x[0])
        rsp = sim.process(data)
        if data[1] == 0x08:
            self._record_write(data, rsp, nw, refused_before)
        self.unanswered = data if rsp is None else None
        if rsp is None:
            raise nfc.clf.TimeoutError("sim")
        return bytearray(rsp)

    def _record_write(self, cmd, rsp, nw, refused_before):
        w, sim = self.w, self.w.sim
        nb = cmd[13]
        blocks = [cmd[15 + 2 * i] for i in range(nb)]
        payload = cmd[14 + 2 * nb:]
        ok = rsp is not None and len(rsp) > 11 and rsp[10] == 0
        b = blocks[0]
        d = payload[0:16]
        before = sim.writes[-1][2] if len(sim.writes) > nw else bytes(sim.mem.get(b, bytes(16)))
        name = self.op["name"]
        if b in (RC, STATE) and name == "protect" and w.kind == "lites":
            if b == RC:
                w.ev("Auth", ok=rsp is not None)
            return                                  # the embedded authentication: C20's subject
        if b == MC:
            w.ev("Write", c="mc", v=w.mc_value(d, before), ok=ok)
        elif b == 0:
            w.ev("Write", c="b0", v=decode_attr(d), ok=ok)
        elif b == CK:
            w.ev("Write", c="ck", v=dict(k=w.keyname(d)), ok=ok)
        elif b == CKV:
            w.ev("Write", c="ckv", v=dict(v=int.from_bytes(d[0:2], "little")) if not any(d[2:]) else dict(v=-1), ok=ok)
        elif 1 <= b <= 13 and name == "format" and w.wipe is not None and bytes(d) == bytes([w.wipe]) * 16 and nb == 1:
            w.ev("Wipe", b=b, ok=ok)
        else:
            w.ev("Write", c="blk%02x" % b, v=dict(raw=list(d)), ok=ok)
        w.nmodelled += 1
        if w.cut_after is not None and w.nmodelled >= w.cut_after and sim.powered:
            sim.powered = False
            sim.ext_auth = False
            w.ev("Cut")


def run_lite_op(w, o):
    tag, clf, sim = w.tag, w.clf, w.sim
    if not sim.powered:
        sim.power_cycle()
        w.ev("PowerOn")
    clf.op = dict(name=o["name"])
    clf.unanswered = None
    w.nmodelled = 0
    w.cut_after = o.get("cut_after")
    if o["name"] == "format":
        ver = o.get("ver", 0x10)
        wipe = o.get("wipe")
        if wipe is not None:
            w.wipe = wipe
        w.ev("Start", op="format", ver=ver, wipe=wipe is not None)
        tag._ndef = None
        call = lambda: tag.format(version=ver, wipe=wipe)
    else:
        w.ev("Start", op="protect", pw=o["pw"], rp=bool(o.get("rp")), pf=o.get("pf", 0))
        tag._ndef = None
        pf = o.get("pf", 0)
        pwd = w.password(o["pw"])
        if o["pw"] == "short" and w.rnd.random() < 0.5:
            pwd, pf = w.keys["kA"], -1 - w.rnd.randrange(3)        # "protect_from can not be negative": ValueError as well
        call = lambda: tag.protect(pwd, read_protect=bool(o.get("rp")), protect_from=pf)
    try:
        r = call()
        res = "True" if r is True else "False" if r is False else "Value:%s" % type(r).__name__
    except nfc.tag.TagCommandError:
        res = "TagCommandError"
    except HarnessError:
        raise
    except Exception as e:                      # noqa
        res = type(e).__name__
    clf.op = None
    w.cut_after = None
    w.ev("Return", res=res, **w.projection())
    return res


# ------------------------------------------------------------------------------------------------------
class TopazWorld(object):
    def __init__(self, sc, rnd):
        self.kind = sc["kind"]
        self.rnd = rnd
        size = 120 if self.kind == "topaz" else 512
        ini = sc.get("init") or {}
        rb = lambda n: bytes(rnd.randrange(256) for _ in range(n))
        img = {12: rb(92)}
        if size == 512:
            img[128] = rb(384)
        if ini.get("cc", "ok") == "ok":
            img[8] = bytes([0xE1, 0x10, 0x0E if size == 120 else 0x3F, 0x0F if ini.get("ccro") else 0x00])
            if size == 120:
                img[12] = bytes([3, 3, 0xD0, 0, 0, 0xFE]) + rb(86)
            else:
                img[12] = bytes.fromhex("0103f230330203f002030303d00000fe") + rb(76)
        else:
            img[8] = rnd.choice([bytes(4), rb(4)])
        for i, name in enumerate(("l0", "l1", "l2", "l3")):
            if name in ini.get("lock", ()):
                img[(112, 113, 120, 121)[i]] = b"\xff"
        self.sim = SimTopaz(size, image=img)
        self.mem0 = bytes(self.sim.mem)
        self.events = []
        self.init = dict(kind=self.kind, rw=[], sys=True, nd=False, attr=dict(v="none", n=0, rwf=True, ver=16), ck="k0", rdm=[],
                         wrm=[], wam=[], kc=False, cc=self.cc_state(), ccro=self.sim.mem[11] & 0x0F == 0x0F and self.cc_state() == "ok",
                         lock=self.locks())
        target = nfc.clf.RemoteTarget("106A")
        target.sens_res = bytearray(b"\x00\x0c")
        target.rid_res = bytearray(self.sim.rid_res())
        self.clf = TopazClf(self, target)
        self.tag = nfc.tag.activate(self.clf, target)
        if type(self.tag).__name__ != ("Topaz" if size == 120 else "Topaz512"):
            raise HarnessError("activation gave %r" % self.tag)
        self.clf.recording = True
        self.fmt_writes = []
        self.cut_after = None
        self.nmodelled = 0

    def cc_state(self):
        m = self.sim.mem
        if m[8] != 0xE1 or m[9] >> 4 != 1:
            return "none"
        # an NDEF TLV right behind the capability container (Topaz-512: behind the two control TLVs)
        off = 12 if len(m) == 120 else 22
        return "ok" if m[off] == 0x03 else "none"

    def locks(self):
        m = self.sim.mem
        out = [n for n, a in (("l0", 112), ("l1", 113)) if m[a] == 0xFF]
        if len(m) > 120:
            out += [n for n, a in (("l2", 120), ("l3", 121)) if m[a] == 0xFF]
        return out

    def ev(self, a, **kw):
        return LiteWorld.ev(self, a, **kw)

    def projection(self, allowed):
        m = self.sim.mem
        other = all(m[a] == self.mem0[a] for a in range(len(m)) if a not in allowed)
        return dict(cc=self.cc_state(), ccro=bool(m[11] & 0x0F == 0x0F and self.cc_state() == "ok"), lock=self.locks(),
                    attr=dict(v="none", n=0, rwf=True, ver=m[9]), other=bool(other))


class TopazClf(object):
    def __init__(self, w, target):
        self.w, self.target = w, target
        self.recording = False
        self.op = None
        self.max_send_data_size = self.max_recv_data_size = 290
        self.unanswered = None

    def sense(self, *a, **kw):
        return self.target if self.w.sim.activate() else None

    def exchange(self, data, timeout):
        w, sim = self.w, self.w.sim
        data = bytes(data)
        if not self.recording or self.op is None:
            rsp = sim.process(data)
            if rsp is None:
                raise nfc.clf.TimeoutError("sim")
            return bytearray(rsp)
        if self.unanswered == data:
            if sim.process(data) is not None:
                raise HarnessError("retransmission answered")
            raise nfc.clf.TimeoutError("sim")
        nlog = len(sim.log)
        rsp = sim.process(data)
        c = data[0]
        if c in (0x53, 0x1A, 0x54, 0x1B):
            executed = len(sim.log) > nlog
            if self.op["name"] == "format":
                if c in (0x53, 0x1A):
                    addrs = [data[1] & 0x7F]
                else:
                    addrs = list(range(8 * data[1], 8 * data[1] + 8))
                w.fmt_writes.append((addrs, c in (0x53, 0x54), rsp is not None))
            else:
                a = data[1] & 0x7F
                cls = {11: "cc3", 112: "l0", 113: "l1", 120: "l2", 121: "l3"}.get(a, "a%d" % a) if c in (0x53, 0x1A) else "blk%d" % data[1]
                want = 0x0F if cls == "cc3" else 0xFF
                w.ev("Write", c=cls, v=dict(ne=c == 0x1A and data[2] == want), ok=bool(executed and not sim.block_locked(a // 8)
                                                                                      or (executed and cls != "cc3")))
                w.nmodelled += 1
                if w.cut_after is not None and w.nmodelled >= w.cut_after and sim.powered:
                    sim.powered = False
                    w.ev("Cut")
        self.unanswered = data if rsp is None else None
        if rsp is None:
            raise nfc.clf.TimeoutError("sim")
        return bytearray(rsp)


def run_topaz_op(w, o):
    tag, clf, sim = w.tag, w.clf, w.sim
    if not sim.powered:
        sim.power_cycle()
        w.ev("PowerOn")
    clf.op = dict(name=o["name"])
    clf.unanswered = None
    w.fmt_writes = []
    w.nmodelled = 0
    w.cut_after = o.get("cut_after")
    size = len(sim.mem)
    frozen = sim.block_locked(1)
    if o["name"] == "format":
        ver = o.get("ver")
        w.ev("Start", op="format", ver=16 if ver is None else ver, wipe=o.get("wipe") is not None)
        tag._ndef = None
        call = lambda: tag.format(version=ver, wipe=o.get("wipe"))
        allowed = set(range(8, 104)) | (set(range(128, 512)) if size > 120 else set())
    else:
        w.ev("Start", op="protect", pw=o["pw"])
        tag._ndef = None
        call = lambda: tag.protect(None if o["pw"] == "none" else b"0123456789abcdef")
        allowed = {11, 112, 113} | ({120, 121} if size > 120 else set())
    try:
        r = call()
        res = "True" if r is True else "False" if r is False else "Value:%s" % type(r).__name__
    except nfc.tag.TagCommandError:
        res = "TagCommandError"
    except HarnessError:
        raise
    except Exception as e:                      # noqa
        res = type(e).__name__
    ver_sent = 16 if o.get("ver") is None else o.get("ver")
    if o["name"] == "format" and w.fmt_writes:
        # the writes of the memory image: one step of the model (their order is C02's subject, bind/tags12.py)
        outside = sorted({a for addrs, _, _ in w.fmt_writes for a in addrs if a not in allowed and sim.mem[a] != w.mem0[a]})
        unit_out = sorted({a for addrs, _, _ in w.fmt_writes for a in addrs} - allowed - set(range(8, 16)) - set(range(16, 24)))
        if outside or unit_out:
            w.ev("Write", c="a%d" % (outside or unit_out)[0], v=dict(), ok=True)
        else:
            w.ev("Write", c="ccblk", v=dict(ver=ver_sent), ok=not frozen)
    clf.op = None
    w.ev("Return", res=res, **w.projection(allowed))
    w.mem0 = bytes(sim.mem)
    return res


def run_scenario(sc, seed):
    rnd = random.Random("%s/%s" % (seed, sc["id"]))
    saved = tt3_sony.os
    from bind.vendor_nxp import Urandom
    tt3_sony.os = Urandom(rnd)
    try:
        if sc["kind"] in ("lite", "lites"):
            w = LiteWorld(sc, rnd)
            res = [run_lite_op(w, o) for o in sc["ops"]]
        else:
            w = TopazWorld(sc, rnd)
            res = [run_topaz_op(w, o) for o in sc["ops"]]
    finally:
        tt3_sony.os = saved
    return dict(id=sc["id"], init=w.init, ev=w.events), res


def scenarios(tier, seed):
    rnd = random.Random("vendor-fmt/%d" % seed)
    quick = tier == "quick"
    out = []

    def add(kind, ops, tag="", **ini):
        out.append(dict(id="f%04d-%s%s" % (len(out), kind, tag), kind=kind, ops=ops, init=ini))

    rws = [0x7FFF, 0x7FFE, 0x7FF1, 0x4001, 0x7FEF, 0x0007, 0x3FFF, 0x7FFD, 0x5555, 0x0001]
    for kind in ("lite", "lites"):
        for rw in rws:
            for sys in (True, False):
                for nd in (True, False):
                    if quick and not sys and rw not in (0x7FFF, 0x7FF1, 0x0001):
                        continue
                    for attr in ("none", "rw", "ro"):
                        if quick and rnd.random() < 0.5:
                            continue
                        ops = [dict(name="format", ver=rnd.choice([0x10, 0x10, 0x11, 0x1F]), wipe=rnd.choice([None, 0xA5, 0x00 + 0x5A])),
                               dict(name="format", ver=0x20), dict(name="format", wipe=0xC3)]
                        add(kind, ops, "-format-rw%04x-%s%s-%s" % (rw, "s" if sys else "l", "n" if nd else "x", attr),
                            rw=rw, sys=sys, nd=nd, attr=attr)
        for pw in ("kA", "k0", "none", "short"):
            for rp in (False, True):
                for pf in (0, 1, 2, 5, 13, 14, 20):
                    if quick and pf in (2, 20) and pw != "kA":
                        continue
                    for attr in ("rw", "none"):
                        if quick and attr == "none" and pf not in (0, 5):
                            continue
                        ops = [dict(name="protect", pw=pw, rp=rp, pf=pf), dict(name="format", wipe=0x77),
                               dict(name="protect", pw="kB", rp=False, pf=0)]
                        add(kind, ops, "-protect-%s-%s-pf%d-%s" % (pw, "rp" if rp else "wp", pf, attr), attr=attr,
                            rw=rnd.choice([0x7FFF, 0x7FFF, 0x7FEF, 0x7F0F]), ck=rnd.choice(["k0", "kB"]))
        # already frozen system blocks; cuts at every write
        add(kind, [dict(name="protect", pw="kA", rp=False, pf=3), dict(name="protect", pw="none", rp=False, pf=0)], "-frozen", sys=False, attr="rw")
        for k in range(1, 5):
            for pf in (0, 4):
                add(kind, [dict(name="protect", pw="kA", rp=True, pf=pf, cut_after=k), dict(name="protect", pw="kA", rp=True, pf=pf),
                           dict(name="format")], "-protect-cut%d-pf%d" % (k, pf), attr="rw")
        for k in range(1, 6):
            add(kind, [dict(name="format", wipe=0x11, cut_after=k), dict(name="format", wipe=0x11)], "-format-cut%d" % k, nd=False, attr="none")
    for kind in ("topaz", "topaz512"):
        for ini in (dict(), dict(cc="none"), dict(ccro=True), dict(ccro=True, lock=["l0", "l1"])):
            tagn = "-" + "".join("%s%s" % (k, v if not isinstance(v, list) else len(v)) for k, v in sorted(ini.items()))
            add(kind, [dict(name="protect", pw="none"), dict(name="protect", pw="none"), dict(name="protect", pw="kA")], "-protect" + tagn, **ini)
            add(kind, [dict(name="protect", pw="kA"), dict(name="protect", pw="none")], "-protect-pw" + tagn, **ini)
        for ver in (None, 0x10, 0x11, 0x1F, 0x20, 0x0F, 0xFF):
            for wipe in (None, 0x3C):
                for ini in (dict(), dict(cc="none")):
                    add(kind, [dict(name="format", ver=ver, wipe=wipe), dict(name="protect", pw="none"), dict(name="format", ver=ver)],
                        "-format-v%s%s-%s" % (ver, "-wipe" if wipe is not None else "", ini.get("cc", "ok")), **ini)
        for k in range(1, 5):
            add(kind, [dict(name="protect", pw="none", cut_after=k), dict(name="protect", pw="none")], "-protect-cut%d" % k)
    return out


# ------------------------------------------------------------------------------------------------------
CLS = {"lite": "FelicaLite", "lites": "FelicaLiteS", "topaz": "Topaz", "topaz512": "Topaz512"}


def classify(tr, line, act, why):
    cls = CLS[tr["init"]["kind"]]
    op = "?"
    for e in tr["ev"][:line][::-1]:
        if e["a"] == "Start":
            op = e["op"]
            break
    ev = tr["ev"][line - 1]
    if why and why[0] == "inv":
        res = next((e["res"] for e in tr["ev"][line - 1:] if e["a"] == "Return"), "?")
        return "%s:%s:%s:%s" % (cls, op, "+".join(why[1]), res)
    what = act + ("-" + ev["c"] if act == "Write" else "")
    return "%s:%s:conformance:%s-not-as-specified@%s" % (cls, op, what, why[1] if len(why) > 1 else "?")


def selftest_traces(traces):
    base = next(t for t in traces if "-protect-kA-wp-pf5-rw" in t["id"] and t["init"]["kind"] == "lite")
    t1 = json.loads(json.dumps(base))
    for e in t1["ev"]:
        if e["a"] == "Write" and e["c"] == "mc":
            e["v"]["rw"] = e["v"]["rw"] + [7]            # a block the MC write leaves writable although protect_from = 5
            break
    t1["id"] = base["id"] + "#corrupt"
    t2 = json.loads(json.dumps(base))
    k = next(i for i, e in enumerate(t2["ev"]) if e["a"] == "Write" and e["c"] == "ck")
    del t2["ev"][k]
    t2["id"] = base["id"] + "#dropped"
    t3 = json.loads(json.dumps(base))
    for e in t3["ev"]:
        if e["a"] == "Return":
            e["other"] = False                            # something outside the documented blocks changed
            break
    t3["id"] = base["id"] + "#other"
    return [t1, t2, t3]
