"""C05, threaded half: blocking send()/recv() of application threads against two real link run loops,
all under the deterministic scheduler (sim/sched.py); events are the critical sections of tco.py, logged
under the socket lock, validated by Trace_LlcpDlcT.tla."""
import random, errno, json, traceback
from sim import sched as S
from bind import llc_peer as LP
from bind.c05 import payload, ERRNAME, NONR

import nfc.llcp
import nfc.llcp.llc as llc_mod
import nfc.llcp.tco as tco_mod
import nfc.llcp.pdu as pdu_mod
import nfc.llcp.err as err_mod


class Pipe(object):
    """two MAC stubs joined back to back: Initiator.exchange() <-> Target.exchange()"""

    def __init__(self, sch):
        self.sch = sch
        self.cv = sch.threading_shim().Condition()
        self.to_t, self.to_i = None, None
        self.closed = False
        self.frames = 0

    def mac(self, role):
        pipe = self

        class Mac(object):
            rwt = None

            def exchange(self, send_data, timeout):
                with pipe.cv:
                    if role == "I":
                        pipe.to_t = bytes(send_data)
                        pipe.frames += 1
                        pipe.cv.notify_all()
                        while pipe.to_i is None and not pipe.closed:
                            pipe.cv.wait()
                        r, pipe.to_i = pipe.to_i, None
                        return None if r is None else bytearray(r)
                    if send_data is not None:
                        pipe.to_i = bytes(send_data)
                        pipe.frames += 1
                        pipe.cv.notify_all()
                    while pipe.to_t is None and not pipe.closed:
                        pipe.cv.wait()
                    r, pipe.to_t = pipe.to_t, None
                    return None if r is None else bytearray(r)

            def deactivate(self, *a, **k):
                pass
        Mac.role = "Initiator" if role == "I" else "Target"
        return Mac()

    def close(self):
        with self.cv:
            self.closed = True
            self.cv.notify_all()


def desc(p, mid_of):
    if p is None:
        return dict(t="NONE", ns=0, nr=0, len=0, m=0)
    if p.name == "I":
        return dict(t="I", ns=p.ns, nr=NONR if p.nr is None else p.nr, len=len(p.data), m=mid_of(p.data))
    if p.name in ("RR", "RNR"):
        return dict(t=p.name, ns=0, nr=p.nr, len=0, m=0)
    return dict(t=p.name, ns=0, nr=0, len=0, m=0)


def run_threaded(cfg, chooser):
    """cfg: rwA rwB miuA miuB linkA linkB agfA agfB nA nB lensA lensB busy"""
    sch = S.Sched(chooser, max_steps=60000)
    LP.install(sch)
    saved = {}
    ev = []
    # sent[e]: messages in the order send() ACCEPTED them (appended under the socket lock, where N(S) is assigned):
    # (acceptance index, length, octets) - with several sender threads per connection this order, not the order of the
    # calls, is the sending order of the property
    state = dict(side={}, const=None, sent={"A": [], "B": []}, ndel={"A": 0, "B": 0}, wired={"A": 0, "B": 0},
                 ctr={"A": 0, "B": 0})
    DLC = tco_mod.DataLinkConnection
    base = tco_mod.TransmissionControlObject
    try:
        pipe = Pipe(sch)
        A = llc_mod.LogicalLinkController(miu=cfg["linkA"], agf=cfg["agfA"], sec=False)
        B = llc_mod.LogicalLinkController(miu=cfg["linkB"], agf=cfg["agfB"], sec=False)
        for x, peer, role in ((A, B, "I"), (B, A, "T")):
            x.cfg["send-miu"] = peer.cfg["recv-miu"]
            x.cfg["recv-lto"] = 100
            x.cfg["llcp-dpc"] = 0
            x.mac = pipe.mac(role)
            x.link.CONNECTED = True
        A.run, B.run = A.run_as_initiator, B.run_as_target

        def side_of(dlc):
            return state["side"].get(id(dlc))

        def snap(d):
            return dict(st=str(d.state), vs=d.send_cnt, vsa=d.send_ack, vr=d.recv_cnt, vra=d.recv_ack,
                        confs=d.recv_confs, acks=d.acks_recvd, nsq=len(d.send_queue), nrq=len(d.recv_queue),
                        busy=bool(d.mode.RECV_BUSY), busySent=bool(d.mode.RECV_BUSY_SENT), sendBusy=bool(d.mode.SEND_BUSY))

        NOPDU = dict(t="NONE", ns=0, nr=0, len=0, m=0)

        def log(a, d, **kw):
            e = side_of(d)
            rec = dict(a=a, e=e, len=0, res="-", t="-", m=0, budget=0, b=False, out=NOPDU, post=snap(d))
            rec.update(kw)
            ev.append(rec)

        def mid_sent(side):
            def f(data):
                c = [m for (m, n, o) in state["sent"][side] if n == len(data) and o == bytes(data)]
                later = [m for m in c if m > state["wired"][side]]
                m = later[0] if later else (c[-1] if c else -1)
                state["wired"][side] = max(state["wired"][side], m)
                return m
            return f

        def mid_any(side):          # identify without advancing any cursor (for Enq / Recv)
            def f(data):
                c = [m for (m, n, o) in state["sent"][side] if n == len(data) and o == bytes(data)]
                return c
            return f

        # ---- wrappers at the critical sections (class level, restored afterwards) -------------------
        def wrap(cls, name, fn):
            saved[(cls, name)] = cls.__dict__[name]
            setattr(cls, name, fn)

        o_tsend = base.send

        def tsend(self, send_pdu, flags):
            if side_of(self) and send_pdu.name == "I":
                e = side_of(self)
                post = snap(self)
                post["nsq"] += 1       # the PDU is appended by the very next statement, under the same lock
                state["sent"][e].append((len(state["sent"][e]) + 1, len(send_pdu.data), bytes(send_pdu.data)))
                log("Send", self, len=len(send_pdu.data), post=post)
            return o_tsend(self, send_pdu, flags)
        wrap(base, "send", tsend)

        o_recv = DLC.recv

        def drecv(self):
            with self.lock:
                if not side_of(self):
                    return o_recv(self)
                r = o_recv(self)
                e = side_of(self)
                other = "B" if e == "A" else "A"
                if r is None:
                    log("Recv", self, t="DISC")
                else:
                    c = mid_any(other)(r)
                    nd = state["ndel"][e]
                    later = [m for m in c if m > nd]
                    m = later[0] if later else (c[-1] if c else -1)
                    state["ndel"][e] = nd + 1
                    log("Recv", self, t="I", m=m, len=len(r))
                return r
        wrap(DLC, "recv", drecv)

        o_deq = DLC.dequeue

        def ddeq(self, miu_size, icv_size):
            with self.lock:                 # decide under the lock: registration happens under it too
                if not side_of(self):
                    return o_deq(self, miu_size, icv_size)
                p = o_deq(self, miu_size, icv_size)
                log("Deq", self, budget=miu_size, out=desc(p, mid_sent(side_of(self))))
                return p
        wrap(DLC, "dequeue", ddeq)

        o_ack = DLC.sendack

        def dack(self):
            with self.lock:
                if not side_of(self):
                    return o_ack(self)
                p = o_ack(self)
                log("Ack", self, out=desc(p, None))
                return p
        wrap(DLC, "sendack", dack)

        o_enq = DLC.enqueue

        def denq(self, rcvd_pdu):
            with self.lock:
                if not side_of(self) or not (self.state.ESTABLISHED or self.state.CLOSE_WAIT or self.state.SHUTDOWN):
                    return o_enq(self, rcvd_pdu)
                r = o_enq(self, rcvd_pdu)
                e = side_of(self)
                other = "B" if e == "A" else "A"

                def mid_enq(data):
                    c = mid_any(other)(data)
                    k = state.setdefault("enq_" + other, 0)
                    later = [m for m in c if m > k]
                    m = later[0] if later else (c[-1] if c else -1)
                    state["enq_" + other] = max(k, m)
                    return m
                rec = dict(a="Enq", e=other, len=0, res="-", t="-", m=0, budget=0, b=False,
                           out=desc(rcvd_pdu, mid_enq), post=snap(self))
                ev.append(rec)
                return r
        wrap(DLC, "enqueue", denq)

        o_sso = DLC.setsockopt

        def dsso(self, option, value):
            with self.lock:
                r = o_sso(self, option, value)
                if side_of(self) and option == nfc.llcp.SO_RCVBSY:
                    log("SetBusy", self, b=bool(value))
                return r
        wrap(DLC, "setsockopt", dsso)

        # ---- threads ----------------------------------------------------------------------------------
        done = dict(n=0)
        napps = 4 + (1 if cfg.get("busy") else 0) + (1 if cfg.get("lensA2") else 0) + (1 if cfg.get("lensB2") else 0)
        results = {}

        def finish():
            done["n"] += 1

        def runloop(llc, name):
            try:
                llc.run(terminate=lambda: done["n"] >= napps)
            finally:
                pipe.close()

        socks = {}

        srv_sock = {}

        def server():
            c = srv_sock["s"].accept()
            socks["B"] = c

        def client():
            s = nfc.llcp.Socket(A, nfc.llcp.DATA_LINK_CONNECTION)
            s.setsockopt(nfc.llcp.SO_RCVMIU, cfg["miuA"])
            s.setsockopt(nfc.llcp.SO_RCVBUF, cfg["rwA"])
            s.connect(b"urn:nfc:sn:t")
            socks["A"] = s

        def setup_then(fn):
            # established: register both endpoints before any traffic thread starts
            def f():
                fn()
            return f

        def sender(e, lens):
            def f():
                try:
                    s = socks[e]
                    for n in lens:
                        state["ctr"][e] += 1                        # distinct octets per message (for n >= 4)
                        try:
                            s.send(payload(e, state["ctr"][e], n))
                        except err_mod.Error as ex:
                            log("SendErr", s._tco, len=n, res=ERRNAME.get(ex.errno, "E%d" % ex.errno))
                finally:
                    finish()
            return f

        def receiver(e, count):
            def f():
                try:
                    s = socks[e]
                    got = 0
                    while got < count:
                        d = s.recv()
                        if d is None:
                            break
                        got += 1
                    results["recv" + e] = got
                finally:
                    finish()
            return f

        def toggler(e, n):
            def f():
                try:
                    s = socks[e]
                    for k in range(n):
                        s.setsockopt(nfc.llcp.SO_RCVBSY, k % 2 == 0)
                        sch.yield_point()
                        sch.yield_point()
                    s.setsockopt(nfc.llcp.SO_RCVBSY, False)
                finally:
                    finish()
            return f

        def boot():
            # connection set-up in its own threads, then the traffic threads
            srv = nfc.llcp.Socket(B, nfc.llcp.DATA_LINK_CONNECTION)
            srv.setsockopt(nfc.llcp.SO_RCVMIU, cfg["miuB"])
            srv.setsockopt(nfc.llcp.SO_RCVBUF, cfg["rwB"])
            srv.bind(b"urn:nfc:sn:t")
            srv.listen(1)
            srv_sock["s"] = srv
            t1 = sch.spawn(server, "srv")
            t2 = sch.spawn(client, "cli")
            while t1.state != S.DONE or t2.state != S.DONE:
                sch.yield_point()
            a, b = socks["A"]._tco, socks["B"]._tco
            with a.lock:
                with b.lock:
                    state["side"][id(a)], state["side"][id(b)] = "A", "B"
            state["const"] = dict(rwA=a.recv_win, rwB=b.recv_win, smiuA=a.send_miu, rmiuA=a.recv_miu,
                                  smiuB=b.send_miu, rmiuB=b.recv_miu, lmiuA=A.cfg["send-miu"], lmiuB=B.cfg["send-miu"],
                                  agfA=bool(cfg["agfA"]), agfB=bool(cfg["agfB"]))
            nokA = len([n for n in cfg["lensA"] + cfg.get("lensA2", []) if n <= a.send_miu])
            nokB = len([n for n in cfg["lensB"] + cfg.get("lensB2", []) if n <= b.send_miu])
            sch.spawn(sender("A", cfg["lensA"]), "sendA")
            sch.spawn(sender("B", cfg["lensB"]), "sendB")
            if cfg.get("lensA2"):           # a second thread sending on the same connection: they compete for the window
                sch.spawn(sender("A", cfg["lensA2"]), "sendA2")
            if cfg.get("lensB2"):
                sch.spawn(sender("B", cfg["lensB2"]), "sendB2")
            sch.spawn(receiver("A", nokB), "recvA")
            sch.spawn(receiver("B", nokA), "recvB")
            if cfg.get("busy"):
                sch.spawn(toggler(cfg["busy"], 4), "busy")

        sch.spawn(lambda: runloop(A, "A"), "runA")
        sch.spawn(lambda: runloop(B, "B"), "runB")
        sch.spawn(boot, "boot")
        outcome = sch.run()
        dead = {t.name: type(t.exc).__name__ for t in sch.threads if t.exc not in (None, "abort") and not isinstance(t.exc, SystemExit)}
        blocked = {t.name: repr(t.on) for t in sch.threads if t.exc == "abort"}
        return dict(outcome=outcome, ev=ev, const=state["const"], dead=dead, blocked=blocked, steps=sch.step,
                    picks=list(chooser.picks), results=results, frames=pipe.frames)
    finally:
        for (cls, name), orig in saved.items():
            setattr(cls, name, orig)
        LP.uninstall()


def gen_cfg(seed):
    rnd = random.Random(seed)
    rwA, rwB = rnd.choice([1, 1, 2, 3, 15]), rnd.choice([1, 2, 2, 4, 15])
    miuA, miuB = rnd.choice([128, 129, 200]), rnd.choice([128, 140, 2175])
    nA, nB = rnd.choice([3, 8, 20, 36]), rnd.choice([2, 6, 18, 40])

    def lens(n, miu):
        return [rnd.choice([0, 1, 2, 5, 30, miu - 1, miu, miu, miu + 1]) if rnd.random() < 0.5 else rnd.randint(0, 12) for _ in range(n)]
    return dict(rwA=rwA, rwB=rwB, miuA=miuA, miuB=miuB, linkA=rnd.choice([128, 131, 248, 2175]), linkB=rnd.choice([128, 130, 1024]),
                agfA=rnd.random() < 0.7, agfB=rnd.random() < 0.7, lensA=lens(nA, min(miuB, 128)), lensB=lens(nB, min(miuA, 128)),
                busy=rnd.choice([None, None, "A", "B"]),
                lensA2=lens(rnd.choice([3, 8, 12]), min(miuB, 128)) if seed % 3 == 0 else [],
                lensB2=lens(rnd.choice([2, 6]), min(miuA, 128)) if seed % 6 == 0 else [])


def work(job):
    seed, = job
    try:
        from vlib import use_repo
        use_repo()
        cfg = gen_cfg(seed)
        res = run_threaded(cfg, S.RandomChooser(seed * 31 + 7, stick=random.Random(seed).choice([0.3, 0.6, 0.85])))
        return ("ok", dict(id="t%d" % seed, cfg=cfg, seed=seed, **res))
    except BaseException:
        return ("error", traceback.format_exc())
