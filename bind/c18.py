"""C18 -- connect() and sense() honour their documented contract.

Specs     spec/ClfConnect.tla (one connect() call: options x callback results x environment x terminate index;
          Order, ReleaseIff, ReturnValue, Prompt, Led) and spec/ClfSense.tla (a session of sense / listen /
          exchange calls over target lists of found / absent / unsupported / invalid / error targets;
          FirstFound, RaisesOnlyDocumented, MuteWhenNone, TargetFresh, ExchangeNeedsTarget).
Binding   every configuration of the spec's grid (quick: all single-option configurations + a seeded sample of
          the multi-option ones; thorough: the whole grid) is executed on a REAL ContactlessFrontend over
          sim.clfdev.SimDevice: a real Type 2 tag activation and presence loop, a real NFC-DEP + LLCP link
          against a scripted peer (both roles), a real Type3TagEmulation against a scripted reader; callbacks
          are recorders returning the prescribed values, terminate() is a counter.  The recorded steps are
          validated by Trace_ClfConnect / Trace_ClfSense (arguments, results, projected post-state, all
          invariants as step post-conditions).  The size of the Python grid is checked against the number of
          initial states TLC computes for the same bounds.

Reading of the documentation (decisions; ambiguous points are NOT judged):
 * on-release has no documented return value (examples and defaults return True).  The code returns
   on-release's value from connect() when it is true and continues with the next option / round when it is
   false.  Modelled as behaviour.  "then return True" is checked for callbacks that return True.
 * "returns None ... when the 'terminate' function returned a true value": read for terminations outside an
   activation (tests/test_clf_init.py asserts True for a terminate() during the presence loop).
 * sense(): "Errors found in the targets argument list raise exceptions only if exactly one target is given"
   vs. the Exceptions section, which only speaks about UnsupportedTargetError, vs. the test-suite, which
   asserts ValueError for a non-RemoteTarget argument among several targets: ValueError for an invalid
   argument / attribute (sel_req, atr_req length) is treated as documented caller error for any number of
   targets (it propagates), only "never raises UnsupportedTargetError with several targets" is judged.
   MuteWhenNone is judged for normal returns of None.
 * clf.target after a sense()/listen() that found nothing is None however the call ended (returned None or raised):
   sessions run every raising sense()/listen() after a target was captured, followed by exchange().
 * the default 'on-discover' (documented to depend on the llcp option, the code does not look at it) is not
   exercised: all callbacks are recorders.
"""
import os, sys, json, random, errno, itertools, re
from vlib import tlc, check, SPEC, OUT, SRC
from sim import clfdev

import nfc
import nfc.clf
import nfc.dep
import nfc.tag
import nfc.llcp.llc

import logging
logging.getLogger("nfc").addHandler(logging.NullHandler())
logging.getLogger("nfc").propagate = False    # the stack logs every lost frame as a warning

PID = "C18"
OPTS = ("rdwr", "llcp", "card")


class HarnessError(RuntimeError):
    pass


# ------------------------------------------------------------------------------------------------
# the grid (mirror of ClfConnect!IsCfg)

CBN = ("startup", "discover", "connect", "release")


def G(s, d, c, r):
    return dict(startup=s, discover=d, connect=c, release=r)


NOG = G(False, False, False, False)


def allg(with_disc):
    return G(True, with_disc, True, True)


def defsu(o):
    return "drop" if o == "card" else "keep"


def OV(top, g, su, disc, conn, rel):
    return dict(top=top, giv=dict(g), su=su, disc=disc, conn=conn, rel=rel)


def notgiven():
    # the keyword is absent / given as None
    return [OV("absent", NOG, "keep", True, True, True), OV("none", NOG, "keep", True, True, True)]


def kept(g):
    out = [OV("dict", g, "keep", True, False, True), OV("dict", g, "keep", True, True, True),
           OV("dict", g, "keep", True, True, False)]
    if g["discover"]:
        out.append(OV("dict", g, "keep", False, True, True))
    return out


def variants(o):
    wd = o != "llcp"
    # {}: all documented defaults (card: the default on-startup returns None = option removed)
    return notgiven() + [OV("dict", NOG, defsu(o), True, True, True),
                         OV("dict", allg(wd), "drop", True, True, True),
                         OV("dict", allg(wd), "wrong", True, True, True)] + kept(allg(wd))


def partial(o):
    """only some of the callback keys given: the given ones all return their go-on value, or one of them the other"""
    out = []
    for bits in itertools.product((False, True), repeat=4):
        g = G(*bits)
        if g == NOG or g == allg(o != "llcp") or (g["discover"] and o == "llcp"):
            continue
        if o == "card" and not g["startup"] and g != G(False, True, True, True):
            continue
        pos = OV("dict", g, "keep" if g["startup"] else defsu(o), True, True, True)
        out.append(pos)
        if o == "card" and not g["startup"]:
            continue
        if g["startup"]:
            out.append(dict(pos, su="drop"))
        if g["discover"]:
            out.append(dict(pos, disc=False))
        if g["connect"]:
            out.append(dict(pos, conn=False))
        if g["release"]:
            out.append(dict(pos, rel=False))
    return out


def effkept(v):
    return v["top"] == "dict" and v["su"] == "keep"


def plain(v, o):
    return effkept(v) and v["disc"] and v["conn"] and v["rel"] and v["giv"] in (NOG, allg(o != "llcp"))


ENVS = ("nothing", "tag", "tagU", "tagX", "peerT", "peerI", "reader", "readerU", "ioerror", "unsupported")
DEP_KEYS = ("brs", "acm", "rwt", "lri", "lrt", "miu", "lto", "agf")
DEP_VALS = dict(brs=(0, 1, 2), acm=(0, 1), rwt=(0, 8, 14), lri=(0, 1, 2, 3), lrt=(0, 1, 2, 3), miu=(128, 248, 2175),
                lto=(100, 500, 1000), agf=(0, 1))
NODEP = {k: -1 for k in DEP_KEYS}
DEP_FORMS = [dict(NODEP), dict(brs=2, acm=0, rwt=8, lri=3, lrt=3, miu=128, lto=500, agf=1),
             dict(brs=1, acm=1, rwt=14, lri=1, lrt=2, miu=2175, lto=1000, agf=0)] + [
    dict(NODEP, **{k: v}) for k in DEP_KEYS for v in DEP_VALS[k]]


def SF(t, i, v):
    return dict(tgt=t, iter=i, ival=v)


BASE_SF, ABS_SF = SF("match", 1, 0), SF("absent", 0, -1)
SENSE_FORMS = [BASE_SF, ABS_SF, SF("default", 5, 500), SF("miss", 1, 0), SF("match", 0, -1), SF("absent", 1, 0),
               SF("default", 2, 1), SF("match", 2, 1), SF("match", 3, 100), SF("miss", 0, -1)]
BEEP_FORMS = ("absent", "true", "false")
ROLE_FORMS = ("absent", "none", "initiator", "target")


def beep_of(r, rich):
    if effkept(r) and r["disc"] and r["conn"]:
        if rich:
            return BEEP_FORMS if r["giv"]["connect"] else ("absent", "true")
        return ("absent",) if r["giv"] == NOG else ("true", "false")
    return ("true",) if r["top"] == "dict" and r["giv"] == allg(True) else ("absent",)


def role_of(l, rich):
    if effkept(l):
        if rich:
            return ROLE_FORMS
        return ("absent",) if l["giv"] == NOG else ("absent", "initiator", "target")
    return ("absent",)


def natural_sf(r):
    return BASE_SF if r["top"] == "dict" and r["giv"] != NOG else ABS_SF


def opt_triples(maxopts=3):
    out = []
    for r in variants("rdwr"):
        for l in variants("llcp"):
            for c in variants("card"):
                nd = sum(1 for v in (r, l, c) if v["top"] == "dict")
                if nd <= maxopts and (nd < 2 or all(v["top"] != "none" for v in (r, l, c))):
                    out.append((r, l, c))
    for ng in notgiven():
        out += [(r, ng, ng) for r in partial("rdwr")]
        out += [(ng, l, ng) for l in partial("llcp")]
        out += [(ng, ng, c) for c in partial("card")]
    return out


def is_rich(r, l, c):
    tops = [v["top"] for v in (r, l, c)]
    return tops.count("dict") == 1 and len({t for t in tops if t != "dict"}) == 1


def grid(kmax, tmax):
    for r, l, c in opt_triples():
        rich = is_rich(r, l, c)
        for e in ENVS:
            ks = (0,) if e in ("nothing", "ioerror", "unsupported", "readerU") else range(kmax + 1)
            sfs = SENSE_FORMS if rich and plain(r, "rdwr") and e in ("nothing", "tag", "peerT", "unsupported") \
                else (natural_sf(r),)
            for b in beep_of(r, rich):
                for ro in role_of(l, rich):
                    dps = DEP_FORMS if rich and plain(l, "llcp") and ro == "absent" and e in ("nothing", "peerT", "peerI") \
                        else (NODEP,)
                    for k in ks:
                        for t, nt in [(t, False) for t in range(tmax + 1)] + [(0, True)]:
                            for sf in sfs:
                                for dp in dps:
                                    yield mkcfg(r, l, c, b, ro, e, k, t, nt, sf, dp)


def mkcfg(r, l, c, b, ro, e, k, t, nt=False, sf=None, dp=None):
    d = dict(zip(OPTS, (r, l, c)))
    return dict(top={o: d[o]["top"] for o in OPTS}, giv={o: dict(d[o]["giv"]) for o in OPTS},
                su={o: d[o]["su"] for o in OPTS}, disc={o: d[o]["disc"] for o in OPTS},
                conn={o: d[o]["conn"] for o in OPTS}, rel={o: d[o]["rel"] for o in OPTS},
                beep=b, role=ro, sf=dict(sf if sf is not None else natural_sf(r)), dep=dict(dp if dp is not None else NODEP),
                env=e, k=k, termAt=t, noterm=nt)


def has(c, o):
    return c["top"][o] == "dict"


def ndict(c):
    return sum(1 for o in OPTS if has(c, o))


def role_eff(c):
    return "both" if c["role"] in ("absent", "none") else c["role"]


def cfg_id(c):
    def ov(o):
        if not has(c, o):
            return "-" if c["top"][o] == "absent" else "N"
        g = c["giv"][o]
        if not any(g.values()):
            return "{}"
        v = c["su"][o][0] if c["su"][o] != "keep" else "k%d%d%d" % (c["disc"][o], c["conn"][o], c["rel"][o])
        if g != allg(o != "llcp"):
            v += "~" + "".join(n[0] for n in CBN if g[n])        # only these callback keys are given
        return v
    sf, nat = c["sf"], (BASE_SF if has(c, "rdwr") and any(c["giv"]["rdwr"].values()) else ABS_SF)
    return "%s.%s.%s|b%s|%s|%s%s%d|t%s" % (
        ov("rdwr"), ov("llcp"), ov("card"), dict(absent="-", true="1", false="0")[c["beep"]], c["role"], c["env"],
        (c.get("ttype", "") + ("!%(cls)s@%(at)d%(mode)s" % c["fault"] if c.get("fault") else ""))
        if c["env"] in TAG_ENVS else "", c["k"], "-" if c["noterm"] else c["termAt"]) + (
        "|s%s,%d,%d" % (sf["tgt"], sf["iter"], sf["ival"]) if sf != nat else "") + (
        "|d" + ",".join("%s=%d" % (k, c["dep"][k]) for k in DEP_KEYS if c["dep"][k] != -1) if c["dep"] != NODEP else "") + (
        "|r" + c["rtype"] if c.get("rtype") else "")


# ------------------------------------------------------------------------------------------------
class Timeshift(object):
    """virtual clock in nfc.clf / nfc.dep / nfc.llcp.llc for the duration of a batch of runs"""

    def __init__(self):
        self.clock = clfdev.Clock()

    def __enter__(self):
        self.saved = (nfc.clf.time, nfc.dep.time, nfc.llcp.llc.time)
        ft = clfdev.FakeTimeModule(self.clock)
        nfc.clf.time = nfc.dep.time = nfc.llcp.llc.time = ft
        return self

    def __exit__(self, *a):
        nfc.clf.time, nfc.dep.time, nfc.llcp.llc.time = self.saved


class ReaderU(clfdev.Nothing):
    """a reader that discovers our local target, but what listen() returns cannot be emulated by nfc.tag.emulate():
    rtype "F": 212F polled without a Type 3 Tag command; "A2" / "A4": 106A with a Type 2 / Type 4 Tag command;
    "D": an NFC-DEP activation of a card-mode target that offers atr_res"""

    def __init__(self, rtype):
        self.rtype = rtype

    def listen(self, dev, kind, target, timeout):
        if self.rtype == "F" and kind == "ttf":
            return dict(brty="212F", sensf_req=b"\x00\xFF\xFF\x01\x00", sensf_res=bytes(target.sensf_res))
        if self.rtype in ("A2", "A4") and kind == "tta":
            r = dict(brty="106A", sens_res=bytes(target.sens_res), sdd_res=bytes(target.sdd_res),
                     sel_res=bytes(target.sel_res))
            r["tt2_cmd" if self.rtype == "A2" else "tt4_cmd"] = b"\x30\x00" if self.rtype == "A2" else b"\xE0\x80"
            return r
        if self.rtype == "D" and kind == "dep":
            return dict(brty="424F", atr_req=b"\xD4\x00" + clfdev.Peer.NFCID3 + bytes([0, 0, 0, 0x32]) + clfdev.Peer.GB,
                        atr_res=bytes(target.atr_res), sensf_res=bytes(target.sensf_res), dep_req=b"\xD4\x06\x00\x00\x00")
        return None


RTYPES = ("F", "A2", "A4", "D")


class NoListen(clfdev.Nothing):
    """a tag in the field of a device that cannot listen (reader-only device / Type B card target)"""

    def __init__(self, tag):
        self.tag = tag

    def sense(self, dev, kind, target):
        return self.tag.sense(dev, kind, target)

    def command(self, dev, data, timeout):
        return self.tag.command(dev, data, timeout)

    def listen(self, dev, kind, target, timeout):
        raise dev.ns.UnsupportedTargetError("simulated: this device cannot listen")


TAG_TYPES = {"T1": clfdev.T1Tag, "T2": clfdev.T2Tag, "T2N": lambda k: clfdev.T2Tag(k, nxp=True), "T3": clfdev.T3Tag,
             "T4": clfdev.T4Tag, "T4B": clfdev.T4BTag}
TAG_BRTY = {"T3": "212F", "T4B": "106B"}
TAG_ENVS = ("tag", "tagU", "tagX")
FAULTS = {"Timeout": nfc.clf.TimeoutError, "Transmission": nfc.clf.TransmissionError,
          "Protocol": nfc.clf.ProtocolError, "BrokenLink": nfc.clf.BrokenLinkError}


def fault_combos():
    """every CommunicationError subclass x position of the exchange inside the activation x once / from then on"""
    return [dict(cls=c, at=a, mode=m) for c in sorted(FAULTS) for a in (1, 2, 3, 4) for m in ("once", "always")]


def make_env(name, k, ttype="T2", rtype="F"):
    if name == "nothing":
        return clfdev.Nothing()
    if name in ("tag", "tagX"):
        return TAG_TYPES[ttype](k)
    if name == "tagU":
        return NoListen(TAG_TYPES[ttype](k))
    if name == "peerT":
        return clfdev.Peer("target", k)
    if name == "peerI":
        return clfdev.Peer("initiator", k)
    if name == "reader":
        return clfdev.Reader(k)
    if name == "readerU":
        return ReaderU(rtype)
    if name == "ioerror":
        return clfdev.Faulty(lambda: IOError(errno.EIO, "simulated host link failure"))
    if name == "unsupported":
        return clfdev.Faulty(lambda: nfc.clf.UnsupportedTargetError("simulated: not supported by this device"))
    raise HarnessError(name)


def B(v):
    return "T" if v else "F"


class CutCall(BaseException):
    """raised by the harness inside a connect() call without terminate argument that would never end
    (not an Exception: nothing in the code under test may swallow it)"""


class Hang(BaseException):
    """a connect() call without terminate argument spins without touching the device"""


class EnvTap(object):
    """what is in the field, plus a record of what it was told during NFC-DEP link activation
    (the ATR_REQ / PSL_REQ it received, the ATR_RES our listening device was loaded with)"""

    def __init__(self, env):
        self.env = env
        self.reset()

    def reset(self):
        self.atr_req = self.atr_res = None
        self.psl = 0

    def sense(self, dev, kind, target):
        return self.env.sense(dev, kind, target)

    def listen(self, dev, kind, target, timeout):
        if kind == "dep" and getattr(target, "atr_res", None) is not None:
            self.atr_res = bytes(target.atr_res)
        return self.env.listen(dev, kind, target, timeout)

    def command(self, dev, data, timeout):
        if data is not None:
            d = bytes(data)
            if d[:1] == b"\xF0":
                d = d[1:]
            if d[1:3] == b"\xD4\x00":
                self.atr_req = d[1:]
            elif d[1:3] == b"\xD4\x04" and len(d) >= 5:
                self.psl = (d[4] >> 3) & 7          # DSI of the bit rate selector byte
        return self.env.command(dev, data, timeout)

    def response(self, dev, data, timeout):
        return self.env.response(dev, data, timeout)


def llcp_params(gb):
    """MIU and LTO (ms) announced in LLCP general bytes (defaults 128 / 100 when the parameter is not sent)"""
    miu, lto = 128, 100
    if gb[:3] != b"Ffm":
        return -1, -1
    i = 3
    while i + 2 <= len(gb):
        t, n = gb[i], gb[i + 1]
        v = gb[i + 2:i + 2 + n]
        if t == 2 and n == 2:
            miu = (((v[0] << 8) | v[1]) & 0x7FF) + 128
        elif t == 4 and n == 1:
            lto = v[0] * 10
        i += 2 + n
    return miu, lto


NOWIRE = dict(lr=-1, wt=-1, miu=-1, lto=-1, psl=-1, acm=-1)
CUT_AFTER = 7          # discovery attempts after which a call without terminate argument is abandoned
HANG_CALLS = 50000     # python calls without a discovery attempt after which such a call counts as spinning
SENSE_COST = 0.03125   # virtual seconds one driver discovery attempt takes when the sense loop is looked at


class ConnectRun(object):
    """one real connect() call for one configuration; records the events Trace_ClfConnect validates"""
    maxcalls = 0            # most python calls seen between two discovery attempts of a call without terminate argument

    def __init__(self, cfg, clock):
        self.cfg = cfg
        self.giv = cfg["giv"]
        self.ev = []
        self.ncb = 0
        self.polls = 0
        self.phase = ""
        self.in_llc = False
        self.in_term = False
        self.activating = False     # inside nfc.tag.activate(): between on-discover and on-connect / the next step
        self.nact = 0               # exchanges (commands and re-senses) of the current activation
        self.nattempts = 0          # discovery attempts of connect()'s main loop
        self.ncalls = 0
        self.fault_fired = False
        self.tap = EnvTap(make_env(cfg["env"], cfg["k"], cfg.get("ttype", "T2"), cfg.get("rtype", "F")))
        self.dev = clfdev.SimDevice(nfc.clf, self.tap, clock)
        self.dev.observer = self.on_driver
        if cfg.get("fault"):
            self.dev.fault_hook = self.fault
        self.clock = clock
        self.sleep0 = len(clock.sleep_log)
        # a discovery attempt takes (virtual) time when the sense loop is not the plain one: rounds can outlast `interval`
        self.cost = SENSE_COST if has(cfg, "rdwr") and cfg["sf"] != BASE_SF else 0.0
        self.dev.sense_cost = self.cost
        self.clf = nfc.clf.ContactlessFrontend()
        self.clf.device = self.dev
        self.clf.sense = self.sense
        self.clf.listen = self.listen

    def emit(self, a, o="", r="", **kw):
        t = self.clf.target
        rec = dict(a=a, o=o, r=r, polls=self.polls, ncb=self.ncb, led=bool(self.dev.led),
                   field=bool(self.dev.field),
                   minpause=int(round(min(self.clock.sleep_log[self.sleep0:] + [0.0]) * 1e6)),
                   target="none" if t is None else ("remote" if isinstance(t, nfc.clf.RemoteTarget) else "local"))
        rec.update(kw)
        self.ev.append(rec)

    def cb(self, name, o, r):
        self.ncb += 1
        self.emit(name, o, r)

    def set_activating(self, v):
        self.activating = v
        self.nact = 0
        self.dev.counting = not v     # the tag's presence budget is not used up by the activation sequence

    def fault(self, data):
        """disturb the n-th exchange of the tag activation (env tagX)"""
        if not self.activating:
            return None
        f = self.cfg["fault"]
        self.nact += 1
        if f["mode"] == "always":
            hit = self.nact >= f["at"]
        else:
            hit = self.nact == f["at"] and not self.fault_fired
        if hit:
            self.fault_fired = True
            return FAULTS[f["cls"]]("injected at activation exchange %d" % self.nact)
        return None

    def attempt(self):
        """a discovery attempt of connect()'s main loop begins (without terminate argument: the place to give up)"""
        self.ncalls = 0
        if self.cfg["noterm"]:
            self.nattempts += 1
            if self.nattempts > CUT_AFTER:
                self.emit("Cut")
                raise CutCall()

    def profile(self, frame, event, arg):
        if event == "call":
            self.ncalls += 1
            if self.ncalls > ConnectRun.maxcalls:
                ConnectRun.maxcalls = self.ncalls
            if self.ncalls > HANG_CALLS:
                sys.setprofile(None)
                raise Hang()

    # --- observation points -----------------------------------------------------------------------
    def terminate(self):
        self.set_activating(False)
        v = self.polls >= self.cfg["termAt"]
        self.polls += 1
        if self.polls > self.cfg["termAt"] + 40:
            raise HarnessError("terminate() polled %d times after it turned true" % 40)
        self.emit("Term", r=B(v))
        return v

    def sense(self, *targets, **options):
        # connect()'s own discovery attempt comes from nfc.clf; a tag module re-selects the tag during activation and
        # nfc.dep searches the peer through the same method
        if sys._getframe(1).f_globals.get("__name__") != "nfc.clf":
            return nfc.clf.ContactlessFrontend.sense(self.clf, *targets, **options)
        self.set_activating(False)
        self.attempt()
        self.phase = ""
        n0, s0 = len(self.dev.log), len(self.clock.sleep_log)

        def loop():
            return dict(att=sum(1 for x in self.dev.log[n0:] if x[0].startswith("sense_")),
                        pauses=[int(round(x * 1e6)) for x in self.clock.sleep_log[s0:]], cost=int(round(self.cost * 1e6)))
        try:
            t = nfc.clf.ContactlessFrontend.sense(self.clf, *targets, **options)
        except IOError:
            self.emit("Sense", r="ioerror", **loop())
            raise
        except nfc.clf.UnsupportedTargetError:
            self.emit("Sense", r="unsupported", **loop())
            raise
        if t is None:
            self.emit("Sense", r="none", **loop())
        else:
            isdep = bool(t.sel_res and t.sel_res[0] & 0x40)
            self.emit("Sense", r="dep" if isdep else "tag", **loop())
            if not self.giv["rdwr"]["discover"] and not isdep:
                self.set_activating(True)          # the default on-discover accepts every tag: activation follows
        return t

    def listen(self, target, timeout):
        self.set_activating(False)
        if sys._getframe(1).f_globals.get("__name__") != "nfc.clf":       # nfc.dep listens for an initiator
            return nfc.clf.ContactlessFrontend.listen(self.clf, target, timeout)
        self.attempt()
        self.phase = ""
        try:
            t = nfc.clf.ContactlessFrontend.listen(self.clf, target, timeout)
        except (IOError, nfc.clf.UnsupportedTargetError):
            self.emit("Listen", r="error")
            raise
        self.emit("Listen", r="none" if t is None else "reader")
        if t is not None and not self.giv["card"]["discover"] and not self.giv["card"]["connect"]:
            self.phase = "serve"                   # default on-discover / on-connect: the command loop follows
        return t

    def on_driver(self, phase, method, info):
        if phase != "exit":
            return
        status = self.dev.log[-1][2]
        if method == "turn_on_led_and_buzzer":
            if not self.giv["rdwr"]["connect"]:
                self.set_activating(False)
                self.phase = "presence"            # default on-connect returned True (no recorder to tell us)
            self.emit("Led", r="T")
        elif method == "turn_off_led_and_buzzer":
            if not self.giv["rdwr"]["release"]:
                self.phase = ""
            self.emit("Led", r="F")
        elif method == "send_cmd_recv_rsp" and self.phase == "presence":
            if status == "ok":
                self.emit("Presence", r="T")
            elif not (self.ev and self.ev[-1]["a"] == "Presence" and self.ev[-1]["r"] == "F"):
                self.emit("Presence", r="F")        # the tag module's retries of one check are one step
        elif method == "send_rsp_recv_cmd" and self.phase == "serve":
            self.emit("Serve", r=B(status == "ok"))

    def instrument_llc_class(self):
        """no 'on-startup' for llcp: connect() creates the controller itself and no callback hands it out before the
        first activation - observe through the class"""
        LLC = nfc.llcp.llc.LogicalLinkController
        saved = (LLC.activate, LLC.exchange, LLC.terminate)

        class Holder(object):
            pass
        h = Holder()
        h.activate = lambda mac, **kw: saved[0](h.llc, mac=mac, **kw)
        h.exchange = lambda send_pdu, timeout: saved[1](h.llc, send_pdu, timeout)
        h.terminate = lambda reason: saved[2](h.llc, reason)
        self.instrument_llc(h)

        def bind(name):
            def f(llc, *a, **kw):
                h.llc = llc
                return getattr(h, name)(*a, **kw)
            return f
        LLC.activate, LLC.exchange, LLC.terminate = bind("activate"), bind("exchange"), bind("terminate")

        def restore():
            LLC.activate, LLC.exchange, LLC.terminate = saved
        return restore

    def wire(self, role, n0):
        """what the peer was told during this link activation"""
        w = dict(NOWIRE)
        if role == "target":
            r = self.tap.atr_res
            if r is not None and len(r) >= 17:
                w["wt"], w["lr"] = r[15] & 0x0F, (r[16] >> 4) & 3
                w["miu"], w["lto"] = llcp_params(r[17:])
        else:
            w["acm"] = int(any(x[0] == "sense_dep" for x in self.dev.log[n0:]))
            w["psl"] = self.tap.psl
            r = self.tap.atr_req
            if r is not None and len(r) >= 16:
                w["lr"] = (r[15] >> 4) & 3
                w["miu"], w["lto"] = llcp_params(r[16:])
        return w

    def instrument_llc(self, llc):
        orig_activate, orig_exchange, orig_terminate = llc.activate, llc.exchange, llc.terminate

        def activate(mac, **kw):
            role = "initiator" if isinstance(mac, nfc.dep.Initiator) else "target"
            self.set_activating(False)
            self.attempt()
            self.phase = ""
            self.in_llc = True
            self.tap.reset()
            n0 = len(self.dev.log)
            try:
                ok = orig_activate(mac=mac, **kw)
            except (IOError, nfc.clf.UnsupportedTargetError):
                self.emit("LlcAct", role, "error", w=self.wire(role, n0))
                raise
            finally:
                self.in_llc = False
            self.emit("LlcAct", role, "ok" if ok else "no", w=self.wire(role, n0))
            return ok

        def exchange(send_pdu, timeout):
            r = orig_exchange(send_pdu, timeout)
            if not self.in_term:
                self.emit("Xchg", r=B(r is not None))
            return r

        def terminate(reason):
            self.in_term = True
            self.emit("RunEnd", r=reason)
            try:
                return orig_terminate(reason)
            finally:
                self.in_term = False
        llc.activate, llc.exchange, llc.terminate = activate, exchange, terminate

    # --- option dictionaries -------------------------------------------------------------------------
    def technologies(self):
        """the technology of what is in the field, and one that is not"""
        c = self.cfg
        match = TAG_BRTY.get(c.get("ttype"), "106A") if c["env"] in TAG_ENVS else "106A"
        return match, ("106B" if match != "106B" else "212F")

    def options(self):
        """the keyword arguments exactly as the configuration writes them: a keyword / key that is "absent" is not
        there, "none" is None, everything else is the value"""
        c = self.cfg
        kw = {}
        if not c["noterm"]:
            kw["terminate"] = self.terminate

        def recorder(name, o, table, after=None):
            def f(obj):
                self.set_activating(False)
                v = table[o]
                self.cb(name, o, B(v))
                if after:
                    after(v)
                return v
            return f

        def phase_setter(p):
            def f(v):
                self.phase = p if v else ""
            return f

        def release(o):
            def f(obj):
                self.phase = ""
                v = c["rel"][o]
                self.cb("Release", o, B(v))
                return v
            return f
        for o in OPTS:
            if c["top"][o] == "none":
                kw[o] = None
        if has(c, "rdwr"):
            g, sf, d = self.giv["rdwr"], c["sf"], {}

            def su_rdwr(targets):
                self.cb("Startup", "rdwr", c["su"]["rdwr"])
                return {"keep": targets, "drop": [], "wrong": ["106A"]}[c["su"]["rdwr"]]
            match, miss = self.technologies()
            if sf["tgt"] != "absent":
                d["targets"] = {"default": ("106A", "106B", "212F"), "match": [match], "miss": [miss]}[sf["tgt"]]
            if sf["iter"] != 0:
                d["iterations"] = sf["iter"]
            if sf["ival"] != -1:
                d["interval"] = sf["ival"] / 1000.0
            if g["startup"]:
                d["on-startup"] = su_rdwr
            if g["discover"]:
                d["on-discover"] = recorder("Discover", "rdwr", c["disc"], self.set_activating)
            if g["connect"]:
                d["on-connect"] = recorder("Connect", "rdwr", c["conn"], phase_setter("presence"))
            if g["release"]:
                d["on-release"] = release("rdwr")
            if c["beep"] != "absent":
                d["beep-on-connect"] = c["beep"] == "true"
            kw["rdwr"] = d
        if has(c, "llcp"):
            g, d = self.giv["llcp"], {}

            def su_llcp(llc):
                self.cb("Startup", "llcp", c["su"]["llcp"])
                if c["su"]["llcp"] == "keep":
                    self.instrument_llc(llc)
                    return llc
                return None if c["su"]["llcp"] == "drop" else True
            if g["startup"]:
                d["on-startup"] = su_llcp
            if g["connect"]:
                d["on-connect"] = recorder("Connect", "llcp", c["conn"])
            if g["release"]:
                d["on-release"] = release("llcp")
            if c["role"] != "absent":
                d["role"] = None if c["role"] == "none" else c["role"]
            for k in DEP_KEYS:
                if c["dep"][k] != -1:
                    d[k] = bool(c["dep"][k]) if k in ("acm", "agf") else c["dep"][k]
            kw["llcp"] = d
        if has(c, "card"):
            g, d = self.giv["card"], {}

            def su_card(target):
                self.cb("Startup", "card", c["su"]["card"])
                if c["su"]["card"] == "keep":
                    rtype = c.get("rtype", "F") if c["env"] == "readerU" else "F"
                    target.sensf_res = bytearray.fromhex("01" "02FE010203040506" "FFFFFFFFFFFFFFFF" "12FC")
                    if rtype in ("A2", "A4"):
                        target.brty = "106A"
                        target.sens_res, target.sdd_res = bytearray(b"\x01\x01"), bytearray(b"\x08\x01\x02\x03")
                        target.sel_res = bytearray(b"\x00" if rtype == "A2" else b"\x20")
                    elif rtype == "D":
                        target.brty = "212F"
                        target.atr_res = bytearray(b"\xD5\x01" + clfdev.Peer.NFCID3 + bytes([0, 0, 0, 8, 0x32]) + clfdev.Peer.GB)
                        target.sens_res, target.sdd_res = bytearray(b"\x01\x01"), bytearray(b"\x08\x01\x02\x03")
                        target.sel_res = bytearray(b"\x40")
                    else:
                        target.brty = "212F"
                    return target
                return None if c["su"]["card"] == "drop" else "212F"

            def serve_if_default_connect(v):
                if v and not g["connect"]:
                    self.phase = "serve"           # the default on-connect returns True: the command loop follows
            if g["startup"]:
                d["on-startup"] = su_card
            if g["discover"]:
                d["on-discover"] = recorder("Discover", "card", c["disc"], serve_if_default_connect)
            if g["connect"]:
                d["on-connect"] = recorder("Connect", "card", c["conn"], phase_setter("serve"))
            if g["release"]:
                d["on-release"] = release("card")
            kw["card"] = d
        return kw

    def run(self):
        kw = self.options()
        restore = self.instrument_llc_class() if has(self.cfg, "llcp") and not self.giv["llcp"]["startup"] else (lambda: None)
        self.emit("Begin")
        if self.cfg["noterm"]:
            sys.setprofile(self.profile)
        try:
            r = self.clf.connect(**kw)
        except HarnessError:
            raise
        except CutCall:
            return self.trace()
        except Hang:
            self.emit("Hang")
            return self.trace()
        except BaseException as e:                 # noqa: the contract allows no exception here
            self.emit("Raise", r=type(e).__name__)
            return self.trace()
        finally:
            sys.setprofile(None)
            restore()
        if r is None:
            v = "None"
        elif r is True:
            v = "True"
        elif r is False:
            v = "False"
        elif isinstance(r, nfc.tag.TagEmulation):
            v = "emu"
        elif isinstance(r, nfc.tag.Tag):
            v = "tag"
        elif isinstance(r, nfc.llcp.llc.LogicalLinkController):
            v = "llc"
        else:
            v = "other:" + repr(r)[:30]
        self.emit("Return", r=v)
        return self.trace()

    def trace(self):
        return dict(id=cfg_id(self.cfg), const=self.cfg, ev=self.ev, fired=self.fault_fired)


def run_connect(cfg, clock):
    return ConnectRun(cfg, clock).run()


# ------------------------------------------------------------------------------------------------
# sense / listen / exchange sessions (ClfSense)

KINDS = ("found", "absent", "unsupported", "invalid", "commerr", "ioerror", "badtype")
LISTEN_KINDS = ("found", "none", "unsupported", "invalid", "ioerror")
# technology of a target and, for the attributes with a documented size, their length at both edges of the range:
# "D<n>" an active-mode (DEP) target with an n byte atr_req (valid: 16..64), "A<n>" a Type A target with an n byte
# sel_req (valid: 4, 7, 10), "A" / "B" / "F" plain targets, "X" an unknown technology letter
VALID_TECH = ("A", "A4", "A7", "A10", "B", "F", "D16", "D17", "D63", "D64")
TECH = {"found": VALID_TECH, "absent": VALID_TECH, "unsupported": VALID_TECH + ("X",),
        "invalid": ("A3", "A5", "A11", "D15", "D65"), "commerr": VALID_TECH, "ioerror": VALID_TECH,
        "badtype": ("L", "S", "N")}        # not a RemoteTarget: a LocalTarget, a brty string, None


def arg_of(tech):
    """what the validator is told about the argument: which sized attribute it carries and how long it is"""
    if tech[0] == "D" and tech[1:]:
        return dict(t="dep", n=int(tech[1:]))
    if tech[0] == "A" and tech[1:]:
        return dict(t="sel", n=int(tech[1:]))
    return dict(t="-", n=0)


class SenseEnv(clfdev.Nothing):
    """what the device meets for each target of the list (the targets carry their list position)"""

    def __init__(self, kinds):
        self.kinds = kinds

    def sense(self, dev, kind, target):
        i = target.__dict__["_sim_idx"]
        k = self.kinds[i]
        if k == "found":
            if kind == "tta":
                return dict(brty=target.brty, sens_res=b"\x44\x00", sel_res=b"\x00", sdd_res=bytes(7))
            if kind == "ttb":
                return dict(brty=target.brty, sensb_res=bytes(12))
            if kind == "ttf":
                return dict(brty=target.brty, sensf_res=bytes(19))
            return dict(brty=target.brty, atr_res=bytes(20))
        if k == "unsupported":
            raise dev.ns.UnsupportedTargetError("simulated")
        if k == "commerr":
            raise dev.ns.TransmissionError("simulated")
        if k == "ioerror":
            raise IOError(errno.EIO, "simulated host link failure")
        return None

    dep_len = None

    def listen(self, dev, kind, target, timeout):
        k = self.kinds[0] if self.kinds else "none"
        if kind == "dep" and self.dep_len is not None:
            # an initiator activates us with an ATR_REQ of this length (listen() accepts 16..64 bytes)
            return dict(brty="424F", atr_req=bytes(self.dep_len), atr_res=bytes(target.atr_res), dep_req=b"\xD4\x06\x00\x00\x00")
        if k == "found":
            return dict(brty=target.brty, sensf_res=bytes(19), tt3_cmd=b"\x06" + bytes(8))
        if k == "unsupported" or kind == "ttb":     # no nfcpy driver can listen as a Type B target
            raise dev.ns.UnsupportedTargetError("simulated: listen not supported for %s" % target.brty)
        if k == "ioerror":
            raise IOError(errno.EIO, "simulated host link failure")
        return None

    def command(self, dev, data, timeout):
        return bytearray(b"\x00")

    def response(self, dev, data, timeout):
        return bytearray(b"\x01\x00")


def make_target(i, kind, tech):
    if tech == "L":
        return nfc.clf.LocalTarget("106A")
    if tech == "S":
        return "106A"
    if tech == "N":
        return None
    if tech == "X":
        t = nfc.clf.RemoteTarget("106X")
    elif tech[0] == "D":
        n = int(tech[1:]) if tech[1:] else (15 if kind == "invalid" else 16)
        t = nfc.clf.RemoteTarget("106A", atr_req=bytearray(n))
    elif tech[0] == "A":
        t = nfc.clf.RemoteTarget("106A")
        if tech[1:]:
            t.sel_req = bytearray(int(tech[1:]))
        elif kind == "invalid":
            t.sel_req = bytearray(5)
    elif tech == "B":
        t = nfc.clf.RemoteTarget("106B")
    else:
        t = nfc.clf.RemoteTarget("212F")
    t.__dict__["_sim_idx"] = i
    return t


class SenseSession(object):
    """sense(list) ; exchange ; [listen ; exchange] ; sense(list2) ; exchange  on one frontend"""

    def __init__(self, ident, steps, clock):
        self.ident, self.steps = ident, steps
        self.clock = clock
        self.ev = []
        self.envbox = SenseEnv(())
        self.dev = clfdev.SimDevice(nfc.clf, self.envbox, clock)
        self.clf = nfc.clf.ContactlessFrontend()
        self.clf.device = self.dev

    def target_state(self):
        t = self.clf.target
        if t is None:
            return "none"
        return "remote" if isinstance(t, nfc.clf.RemoteTarget) else "local"

    def emit(self, a, **kw):
        rec = dict(a=a, kinds=[], args=[], iters=0, res="", idx=0, sent="", muted=False, target=self.target_state(),
                   field=bool(self.dev.field), nsense=0, interval=0, cycle=0, pauses=[])
        rec.update(kw)
        self.ev.append(rec)

    def run(self):
        for st in self.steps:
            n0 = len(self.dev.log)
            if st["op"] == "sense":
                kinds, techs, iters = st["kinds"], st["techs"], st["iters"]
                self.envbox.kinds = kinds
                ts = [make_target(i, k, techs[i]) for i, k in enumerate(kinds)]
                res, idx = "none", 0
                interval, cost = st.get("interval", 0.0), st.get("cost", 0.0)
                self.dev.sense_cost = cost                  # virtual time one discovery attempt takes
                s0 = len(self.clock.sleep_log)
                try:
                    t = self.clf.sense(*ts, iterations=iters, interval=interval)
                    if t is not None:
                        res, idx = "found", t.__dict__.get("_sim_from", -1) + 1
                except nfc.clf.UnsupportedTargetError:
                    res = "UnsupportedTargetError"
                except ValueError:
                    res = "ValueError"
                except IOError:
                    res = "IOError"
                except Exception as e:              # noqa
                    res = "raise:" + type(e).__name__
                log = self.dev.log[n0:]
                attempts = [x for x in log if x[0].startswith("sense_")]
                muted = bool(log) and log[-1][0] == "mute"
                first_mute = bool(log) and log[0][0] == "mute"
                how_sent = "no-driver-call" if not log else ("mute-first" if first_mute else "no-mute-first")
                per_round = len(attempts) // iters if res == "none" else len(attempts)
                self.emit("Sense", kinds=list(kinds), args=[arg_of(x) for x in techs], iters=iters, res=res, idx=idx,
                          muted=muted,
                          nsense=len(attempts), sent=how_sent,
                          interval=int(round(interval * 1e6)), cycle=int(round(per_round * cost * 1e6)),
                          pauses=[int(round(x * 1e6)) for x in self.clock.sleep_log[s0:]])
                self.dev.sense_cost = 0.0
            elif st["op"] == "listen":
                k = st["kind"]
                self.envbox.kinds = (k,)
                self.envbox.dep_len = st.get("dep_len")
                if st.get("dep_len") is not None:
                    tl = nfc.clf.LocalTarget("106A", atr_res=bytearray(20), sensf_res=bytearray(19))
                elif k == "unsupported":
                    tl = nfc.clf.LocalTarget("106B")
                elif k == "invalid":
                    tl = nfc.clf.LocalTarget("xxx")
                else:
                    tl = nfc.clf.LocalTarget("212F", sensf_res=bytearray(19))
                try:
                    t = self.clf.listen(tl, 0.01)
                    res = "found" if t is not None else "none"
                except nfc.clf.UnsupportedTargetError:
                    res = "UnsupportedTargetError"
                except ValueError:
                    res = "ValueError"
                except IOError:
                    res = "IOError"
                except Exception as e:              # noqa
                    res = "raise:" + type(e).__name__
                self.emit("Listen", kinds=[k], res=res,
                          args=[dict(t="dep", n=st["dep_len"])] if st.get("dep_len") is not None else [dict(t="-", n=0)])
            elif st["op"] == "exchange":
                try:
                    r = self.clf.exchange(bytearray(b"\x30\x00"), 0.01)
                    res = "none" if r is None else "data"
                except Exception as e:              # noqa: whatever the code under test raises is an outcome
                    res = "raise:" + type(e).__name__
                log = [x[0] for x in self.dev.log[n0:]]
                sent = "cmd" if "send_cmd_recv_rsp" in log else ("rsp" if "send_rsp_recv_cmd" in log else "nothing")
                self.emit("Exchange", sent=sent, res=res)
        return dict(id=self.ident, ev=self.ev)


def sense_lists(maxlen):
    for n in range(0, maxlen + 1):
        for kinds in itertools.product(KINDS, repeat=n):
            yield kinds


def techs_for(kinds, rnd):
    return [rnd.choice(TECH[k]) for k in kinds]


def capture_steps(how):
    """steps that leave the frontend with a remote / local / no target before the call under test"""
    if how == "remote":
        return [dict(op="sense", kinds=["found"], techs=["A"], iters=1), dict(op="exchange")]
    if how == "local":
        return [dict(op="listen", kind="found"), dict(op="exchange")]
    return []


def sense_sessions(tier, seed, clock):
    """every target list x iterations, each after a target was captured by an earlier sense (remote), an earlier
    listen (local) or not at all (rotating), followed by exchange(); every way listen() can end after every kind
    of capture, followed by exchange(); plus chains sense -> raising listen -> raising sense -> exchange"""
    rnd = random.Random(seed)
    maxlen = 3 if tier == "quick" else 4
    out = []
    lists = list(sense_lists(maxlen))
    n = 0
    for kinds in lists:
        for iters in ((1, 2) if tier == "quick" else (1, 2, 3)):
            n += 1
            how = ("remote", "local", "none")[n % 3]
            steps = capture_steps(how) + [dict(op="sense", kinds=list(kinds), techs=techs_for(kinds, rnd), iters=iters),
                                          dict(op="exchange")]
            if n % 5 == 0:
                steps += [dict(op="listen", kind=rnd.choice(LISTEN_KINDS)), dict(op="exchange")]
            out.append(SenseSession("s%d:%s:%s/%d" % (n, how, ",".join(k[:3] for k in kinds), iters), steps, clock))
    for how in ("remote", "local", "none"):
        for k in LISTEN_KINDS:
            n += 1
            steps = capture_steps(how) + [dict(op="listen", kind=k), dict(op="exchange")]
            out.append(SenseSession("l%d:%s:listen-%s" % (n, how, k), steps, clock))
            for k2 in ("unsupported", "invalid", "ioerror", "absent"):
                n += 1
                steps = capture_steps(how) + [dict(op="listen", kind=k), dict(op="exchange"),
                                              dict(op="sense", kinds=[k2], techs=techs_for([k2], rnd), iters=1),
                                              dict(op="exchange")]
                out.append(SenseSession("l%d:%s:listen-%s,sense-%s" % (n, how, k, k2), steps, clock))
    # documented size limits at both edges, in first / middle / last position of a several-target call
    for pos in (0, 1, 2):
        for tech in ("D15", "D16", "D17", "D63", "D64", "D65", "A3", "A4", "A5", "A7", "A10", "A11"):
            for others in ("absent", "found"):
                n += 1
                a = arg_of(tech)
                ok = (16 <= a["n"] <= 64) if a["t"] == "dep" else a["n"] in (4, 7, 10)
                kinds = [others] * 3
                kinds[pos] = "absent" if ok else "invalid"
                techs = ["F", "B", "A"]
                techs[pos] = tech
                how = ("remote", "local", "none")[n % 3]
                steps = capture_steps(how) + [dict(op="sense", kinds=kinds, techs=techs, iters=1), dict(op="exchange")]
                out.append(SenseSession("e%d:%s:%s@%d/%s" % (n, how, tech, pos, others), steps, clock))
    for dl in (15, 16, 17, 63, 64, 65):        # ATR_REQ length of an initiator that activates us while we listen
        for how in ("remote", "none"):
            n += 1
            steps = capture_steps(how) + [dict(op="listen", kind="found" if 16 <= dl <= 64 else "none", dep_len=dl),
                                          dict(op="exchange")]
            out.append(SenseSession("d%d:%s:listen-dep%d" % (n, how, dl), steps, clock))
    # pauses: iterations x interval (none, tiny, default, shorter / longer than a round) x how long a round takes
    cost = 0.03125
    for iters in (1, 2, 3, 5):
        for interval in (0.0, 0.001, 0.1, 0.02, 0.5):
            for kinds in ((), ("absent",), ("absent", "absent"), ("unsupported", "absent"), ("commerr", "absent", "absent"),
                          ("found",), ("absent", "found")):
                n += 1
                how = ("remote", "local", "none")[n % 3]
                steps = capture_steps(how) + [dict(op="sense", kinds=list(kinds), techs=["X" if k == "unsupported" else "A"
                                                                                        for k in kinds],
                                                   iters=iters, interval=interval, cost=cost), dict(op="exchange")]
                out.append(SenseSession("p%d:%s:%s/%dx%g" % (n, how, ",".join(k[:3] for k in kinds), iters, interval),
                                        steps, clock))
    return out, maxlen


# ------------------------------------------------------------------------------------------------
def written(c, pc, got=""):
    """the unusual way of writing the arguments that the step the model is at depends on (part of a violation key:
    the role at a link activation, the targets at a discovery attempt, a defaulted callback at the step where it is
    called, keyword=None at start-up, the missing terminate argument at a poll)"""
    w = []
    if pc == "llcp_act" and has(c, "llcp") and c["role"] == "none":
        w.append("llcp.role=None")
    if pc == "rdwr_sense" and has(c, "rdwr") and c["sf"]["tgt"] in ("absent", "default", "miss"):
        w.append("rdwr.targets=" + c["sf"]["tgt"])
    if pc == "led_on" and has(c, "rdwr") and c["beep"] == "absent" and any(c["giv"]["rdwr"].values()):
        w.append("rdwr.beep-on-connect=absent")
    o = {"rdwr": "rdwr", "llcp": "llcp", "card": "card"}.get(pc[:4])
    n = {"disc": "discover", "conn": "connect", "rel": "release"}.get(pc[5:])
    if pc == "startup":
        w += ["%s.on-startup=absent" % x for x in OPTS if has(c, x) and not c["giv"][x]["startup"] and any(c["giv"][x].values())]
    elif o and n and has(c, o) and not c["giv"][o][n] and any(c["giv"][o].values()):
        w.append("%s.on-%s=absent" % (o, n))
    if pc in ("start", "startup") and any(v == "none" for v in c["top"].values()):
        w.append("keyword=None")
    if c["noterm"] and (pc in ("poll", "pres_poll", "run_poll", "serve_poll") or got in ("Hang", "Cut")):
        w.append("no-terminate")
    return (":" + ",".join(w)) if w else ""


def classify(tr, line, act, why, what):
    """canonical key: the failing clause and the situation (event, option, environment class), never a seed"""
    kind = why[0] if why else "?"
    ev = tr["ev"][line - 1] if line - 1 < len(tr["ev"]) else {}
    if what == "connect":
        c = tr["const"]
        where = "%s%s" % (act, (":" + ev.get("o")) if ev.get("o") else "")
        if kind == "inv" and act == "Raise":      # an exception out of connect(): its class and the way of writing concerned
            w = []
            if "none" in c["top"].values() and (why[2] if len(why) > 2 else "") in ("start", "startup", "ret"):
                w.append("keyword=None")           # raised during start-up
            if c["noterm"]:
                w.append("no-terminate")
            return "connect:inv:%s@Raise:%s%s" % (",".join(why[1]), ev.get("r", ""), (":" + ",".join(w)) if w else "")
        if kind == "inv":
            return "connect:inv:%s@%s" % (",".join(why[1]), where)
        if kind == "guard" and isinstance(why[1], dict):
            return "connect:guard:model-at=%s:got=%s%s" % (why[1].get("pc", "?"), where, written(c, why[1].get("pc", ""), act))
        return "connect:%s@%s:%s:got=%s" % (kind, where, c["env"], ev.get("r", ""))
    if kind == "inv":
        if "ArgCheck" in why[1]:                  # one defect (late argument validation) shows in several clauses
            return "sense:inv:ArgCheck@%s" % act
        if "Raises" in why[1]:                    # an exception the contract does not allow for this target list
            return "sense:inv:Raises@%s:%s" % (act, ev.get("res", ""))
        return "sense:inv:%s@%s" % (",".join(why[1]), act)
    return "sense:%s@%s:res=%s,sent=%s,target=%s,field=%s" % (kind, act, ev.get("res", ""), ev.get("sent", ""),
                                                            ev.get("target", ""), ev.get("field", ""))


def selftests_connect(tr):
    out = []
    t1 = json.loads(json.dumps(tr))
    for ev in t1["ev"]:
        if ev["a"] == "Return":
            ev["r"] = "None" if ev["r"] != "None" else "True"       # a wrong return value
    t1["id"] = "selftest-corrupt"
    out.append(t1)
    t2 = json.loads(json.dumps(tr))
    for i, ev in enumerate(t2["ev"]):
        if ev["a"] == "Release":
            del t2["ev"][i]                                          # an on-release call is missing
            for e in t2["ev"][i:]:
                e["ncb"] -= 1
            break
    t2["id"] = "selftest-dropped"
    out.append(t2)
    return out


def is_partial(c):
    return any(has(c, o) and c["giv"][o] not in (NOG, allg(o != "llcp")) for o in OPTS)


def natural_forms(c):
    nat = BASE_SF if has(c, "rdwr") and any(c["giv"]["rdwr"].values()) else ABS_SF
    return c["sf"] == nat and c["dep"] == NODEP


def form_class(c):
    """which of the written forms of a call with at most one option dictionary differ from the plain way of writing it
    (keywords that are not used absent, a terminate argument, role absent or a role name, beep-on-connect written
    with the callbacks and absent without)"""
    if is_partial(c):
        return "partial"
    if not natural_forms(c):
        return "sf" if c["dep"] == NODEP else "dep"
    dev = 0
    if any(c["top"][o] == "none" for o in OPTS):
        dev += 1
    if c["noterm"]:
        dev += 1
    if c["role"] == "none":
        dev += 1
    if has(c, "rdwr") and c["su"]["rdwr"] == "keep" and c["disc"]["rdwr"] and c["conn"]["rdwr"]:
        if (c["giv"]["rdwr"] == NOG) != (c["beep"] == "absent"):
            dev += 1
    return "form" if dev else "natural"


def quick_select(single):
    """quick tier, calls with at most one option dictionary.  Plainly written calls: the whole product (callback
    results x environment x budget x terminate index).  Every other way of writing the arguments: every
    combination of (callback keys given and their results, the written form in question, environment) at least once,
    the remaining dimensions (budget, terminate index / no terminate argument, the other forms) rotating"""
    out, groups = [], {}
    for c in single:
        k = form_class(c)
        if k == "natural":
            out.append(c)
            continue
        o = ([x for x in OPTS if has(c, x)] + [None])[0]
        sig = (o, json.dumps(c["giv"][o], sort_keys=True), c["su"][o], c["disc"][o], c["conn"][o], c["rel"][o]) if o else ()
        if k == "partial":
            key, n = (k, sig, c["env"]), 2
        elif k == "sf":
            key, n = (k, sig, json.dumps(c["sf"], sort_keys=True), c["env"]), 3
        elif k == "dep":
            key, n = (k, sig, json.dumps(c["dep"], sort_keys=True), c["env"]), 3
        else:
            key, n = (k, sig, c["role"], c["beep"], tuple(c["top"][x] for x in OPTS), c["noterm"], c["env"]), 1
        groups.setdefault(key, (n, []))[1].append(c)
    for i, (n, lst) in enumerate(groups.values()):
        step = max(1, len(lst) // n)
        for j in sorted({(i + j * step) % len(lst) for j in range(n)}):
            out.append(lst[j])
    return out


def free_forms(rnd, multi, num):
    """calls with several option dictionaries whose written forms are drawn freely (canonical configurations outside
    the model checker's grid)"""
    out = []
    for c in rnd.sample(multi, min(num, len(multi))):
        c = json.loads(json.dumps(c))
        for o in OPTS:
            if not has(c, o):
                c["top"][o] = rnd.choice(("absent", "none"))
        for o in OPTS:                       # leave out callback keys whose value is what the default returns
            if has(c, o) and c["giv"][o] != NOG:
                for n, dflt in (("startup", c["su"][o] == defsu(o)), ("discover", c["disc"][o]), ("connect", c["conn"][o]),
                                ("release", c["rel"][o])):
                    if c["giv"][o][n] and dflt and rnd.random() < 0.3 and not (o == "rdwr" and n == "connect" and c["beep"] == "false"):
                        c["giv"][o][n] = False
        if has(c, "llcp") and c["su"]["llcp"] == "keep":
            c["role"] = rnd.choice(ROLE_FORMS)
            if rnd.random() < 0.7:
                c["dep"] = dict(rnd.choice(DEP_FORMS))
                for k in rnd.sample(DEP_KEYS, rnd.randint(0, 3)):
                    c["dep"][k] = rnd.choice((-1,) + DEP_VALS[k])
        if has(c, "rdwr") and c["su"]["rdwr"] == "keep" and c["env"] != "tagX":
            c["sf"] = SF(rnd.choice(("absent", "default", "match", "miss")), rnd.choice((0, 1, 2, 3, 5)),
                         rnd.choice((-1, 0, 1, 100, 500)))
            if c["disc"]["rdwr"] and c["conn"]["rdwr"]:
                c["beep"] = rnd.choice(BEEP_FORMS if c["giv"]["rdwr"]["connect"] else ("absent", "true"))
        out.append(c)
    return out


class McJob(object):
    """model checking + reachability witnesses of one module, started in the background (the JVMs run next to
    each other and next to the real executions); results are collected in a fixed order"""

    def __init__(self, pool, module, cfgfile, need, reach_cfg, timeout, workers=16):
        self.module, self.need = module, need
        tag = PID + "/" + module[:-4] + ("_" + cfgfile[:-4].split("_")[-1] if need is None else "")
        self.f_run = pool.submit(tlc.run, module, cfgfile, tag, workers=workers, timeout=timeout)
        self.f_wit = None
        if need:
            self.f_wit = pool.submit(tlc.witnesses, module, reach_cfg, PID + "/" + module[:-4] + "_reach", need,
                                     timeout=timeout, workers=2)

    def result(self, ck, label=None):
        r = self.f_run.result()
        if not r.ok:
            ck.violation("spec:%s:%s" % (label or self.module[:-4], ",".join(r.violated or ["deadlock"])),
                         "TLC found a violation in the model: %s" % str(r.error_trace)[:3000])
        ck.cover(states=r.distinct, transitions=r.generated)
        if self.f_wit is not None:
            hit, _ = self.f_wit.result()
            if set(self.need) - hit:
                raise tlc.TLCError("vacuous model %s: witnesses not reached: %s" % (self.module, sorted(set(self.need) - hit)))
        return r


W_CONNECT = ["W_RetTrue", "W_RetObj", "W_RetFalse", "W_RetNoneNoOpt", "W_TermInPresence", "W_ReleaseFalseLoops",
             "W_TagVanished", "W_PeerReleased", "W_ReaderLeft", "W_NotEmulatable"]
# the written forms: reached in the model (thorough tier: TLC on the grid of the calls with one option dictionary) and
# by accepted traces of the real frontend (both tiers, form_witnesses)
W_FORMS = ["W_RoleNoneTarget", "W_RoleNoneInitiator", "W_NoTermTrue", "W_NoneKeyword", "W_TargetsMiss", "W_DefaultRelease",
           "W_DefaultStartupKeeps", "W_LinkParams", "W_DefaultLoop"]


def form_witnesses(traces, verdicts):
    """how many ACCEPTED traces of the real frontend show each written form doing what it stands for (an accepted
    trace is a behaviour of the specification: these are reachability witnesses for model and binding at once)"""
    n = dict.fromkeys(["role=None activated as target", "role=None activated as initiator", "no terminate: returned True",
                       "no terminate: abandoned by the harness", "keyword=None: activation", "targets miss: tag never found",
                       "on-release defaulted: True", "on-startup defaulted: llc returned", "link parameters: activated",
                       "targets/iterations/interval absent: 5 rounds x 3 targets",
                       "targets/iterations/interval = written defaults: 5 rounds x 3 targets",
                       "card on-connect defaulted: served"], 0)
    for t in traces:
        if verdicts[t["id"]][0] != "ACCEPT":
            continue
        c, ev = t["const"], t["ev"]
        acts = {(e["a"], e["o"], e["r"]) for e in ev}
        ret = ev[-1]["r"] if ev[-1]["a"] == "Return" else None
        if c["role"] == "none":
            n["role=None activated as target"] += ("LlcAct", "target", "ok") in acts
            n["role=None activated as initiator"] += ("LlcAct", "initiator", "ok") in acts
        if c["noterm"]:
            n["no terminate: returned True"] += ret == "True"
            n["no terminate: abandoned by the harness"] += ev[-1]["a"] == "Cut"
        if "none" in c["top"].values():
            n["keyword=None: activation"] += ret in ("True", "tag", "llc", "emu")
        if c["sf"]["tgt"] == "miss" and c["env"] == "tag":
            n["targets miss: tag never found"] += sum(1 for e in ev if e["a"] == "Sense" and e["r"] == "none") >= 2
        if has(c, "rdwr") and c["giv"]["rdwr"]["connect"] and not c["giv"]["rdwr"]["release"]:
            n["on-release defaulted: True"] += ret == "True"
        if has(c, "llcp") and c["giv"]["llcp"]["connect"] and not c["giv"]["llcp"]["startup"]:
            n["on-startup defaulted: llc returned"] += ret == "llc"
        if c["dep"] != NODEP and c["dep"] != DEP_FORMS[1]:
            n["link parameters: activated"] += any(a[0] == "LlcAct" and a[2] == "ok" for a in acts)
        if has(c, "rdwr"):
            full_loop = any(e["a"] == "Sense" and e["att"] == 15 and len(e["pauses"]) == 4 for e in ev)
            n["targets/iterations/interval absent: 5 rounds x 3 targets"] += full_loop and c["sf"] == ABS_SF
            n["targets/iterations/interval = written defaults: 5 rounds x 3 targets"] += full_loop and c["sf"] == SF("default", 5, 500)
        if has(c, "card") and c["giv"]["card"]["startup"] and not c["giv"]["card"]["connect"]:
            n["card on-connect defaulted: served"] += any(e["a"] == "Serve" for e in ev)
    return {k: int(v) for k, v in n.items()}
W_SENSE = ["W_BadArgAfterValid", "W_Paused", "W_NoPauseLongCycle", "W_Second", "W_RaiseUnsupported", "W_IgnoredUnsupported", "W_StaleDropped", "W_ValueError",
           "W_NoneMuted", "W_ExchangeNothing", "W_ListenRaisedAfterCapture", "W_SenseRaisedAfterCapture"]


def tick(label, t0=[None]):
    """phase timing on stderr when C18_TIMING is set"""
    import time
    now = time.time()
    if os.environ.get("C18_TIMING"):
        sys.stderr.write("[c18 %6.1fs] %s\n" % (now - (t0[0] or now), label))
    if t0[0] is None:
        t0[0] = now


def run(tier, seed):
    tick("start")
    ck = check.Check(PID, tier, seed, "model_checking")
    quick = tier == "quick"
    kmax, tmax = (1, 3) if quick else (2, 6)

    # 1. exhaustive model checking of both specs (in the background, collected below in a fixed order)
    import concurrent.futures as cf
    pool = cf.ThreadPoolExecutor(max_workers=10)
    j1 = McJob(pool, "ClfConnect.tla", "MC_ClfConnect.cfg" if quick else "MC_ClfConnect_thorough.cfg", W_CONNECT,
               "MC_ClfConnect_reach.cfg", 1500 if quick else 2400)
    jf = None if quick else pool.submit(tlc.witnesses, "ClfConnect.tla", "MC_ClfConnect_reach_forms.cfg",
                                        PID + "/ClfConnect_reach_forms", W_FORMS, timeout=2400, workers=2)
    j2 = McJob(pool, "ClfSense.tla", "MC_ClfSense.cfg" if quick else "MC_ClfSense_thorough.cfg", W_SENSE,
               "MC_ClfSense_reach.cfg", 1200 if quick else 1800, workers=8)
    j3 = McJob(pool, "ClfSense.tla", "MC_ClfSense_pause.cfg", None, None, 1200, workers=4)
    full = list(grid(kmax, tmax))

    # 2. the grid on the real frontend
    rnd = random.Random(seed)
    if quick:
        multi = [c for c in full if ndict(c) > 1]
        rnd.shuffle(multi)
        todo = quick_select([c for c in full if ndict(c) <= 1]) + multi[:1300]
    else:
        todo = list(full)
        # real constants beyond the scaled model: longer budgets and later terminate indexes
        for _ in range(3000):
            c = dict(rnd.choice(full))
            c["k"] = 0 if c["env"] in ("nothing", "ioerror", "unsupported", "readerU") else rnd.randint(0, 9)
            c["termAt"] = 0 if c["noterm"] else rnd.randint(0, 25)
            todo.append(c)
    # the written forms the model enumerates for one option alone, combined with the other options (any canonical
    # configuration is a legal trace constant): seeded
    todo += free_forms(rnd, [c for c in full if ndict(c) > 1], 500 if quick else 6000)
    # "tag of each type": the rdwr branch runs against Type 1 / 2 / 2 (NXP, vendor probing) / 3 / 4A / 4B tags (one type
    # per configuration, rotating; thorough: all for the configurations with rdwr alone).  Environment tagX: every
    # CommunicationError subclass at every exchange position of the activation, once or persistently (rotating
    # over the grid, plus a complete sweep over all types x faults for the rdwr-only configurations below).
    types, combos = sorted(TAG_TYPES), fault_combos()
    typed, n = [], 0
    # (a disturbed activation is only run with on-discover and on-connect given and with a terminate argument: its
    # outcome is read off the next event)
    todo = [c for c in todo if not (c["env"] == "tagX" and has(c, "rdwr") and c["su"]["rdwr"] == "keep" and
                                    (c["noterm"] or not c["giv"]["rdwr"]["discover"] or not c["giv"]["rdwr"]["connect"]))]
    # what the reader's discovery looks like when it cannot be emulated (a DEP activation only without an llcp option,
    # which would take it for a peer)
    nr = 0
    for i, c in enumerate(todo):
        if c["env"] == "readerU":
            nr += 1
            rts = RTYPES if not has(c, "llcp") else RTYPES[:3]
            todo[i] = dict(c, rtype=rts[nr % len(rts)])
    for c in todo:
        if c["env"] in TAG_ENVS and has(c, "rdwr") and c["su"]["rdwr"] == "keep":
            n += 1
            one = quick or ndict(c) > 1
            for tt in ((types[n % len(types)],) if one else types):
                c2 = dict(c, ttype=tt)
                if c["env"] == "tagX":
                    c2["fault"] = combos[(n * 7 + types.index(tt)) % len(combos)]
                typed.append(c2)
        elif c["env"] == "tagX":
            typed.append(dict(c, ttype="T2", fault=combos[0]))
        else:
            typed.append(c)
    # iterations x interval of the rdwr sense loop (rounds take 31 ms of virtual time per target)
    sps = [(i, v) for i in (1, 2, 3, 5) for v in (0, 1, 100)]
    for n, c in enumerate(typed):
        if has(c, "rdwr") and c["su"]["rdwr"] == "keep" and n % 2 and c["sf"] == BASE_SF:
            typed[n] = dict(c, sf=SF("match", *sps[(n // 2) % len(sps)]))
    absent = notgiven()[0]
    bases = [v for v in kept(allg(True)) if v["disc"]]
    for r in (bases if not quick else [b for b in bases if b["rel"]]):
        for k, t in (((1, 3),) if quick else ((0, 2), (1, 3), (2, 6))):
            for tt in types:
                for f in combos:
                    typed.append(dict(mkcfg(r, absent, absent, "true", "absent", "tagX", k, t), ttype=tt, fault=f))
    todo = typed
    traces, seen = [], set()
    with Timeshift() as ts:
        for c in todo:
            i = cfg_id(c)
            if i in seen:
                continue
            seen.add(i)
            traces.append(run_connect(c, ts.clock))
        tick("connect runs done (%d)" % len(traces))
        # the self-test must not depend on what the code under test did: fall back to any trace
        good = next((t for t in traces if any(e["a"] == "Release" for e in t["ev"]) and t["ev"][-1]["r"] == "True"), traces[0])
        self_t = selftests_connect(good)
        if self_t[0]["ev"] == good["ev"]:
            self_t[0]["ev"][-1]["a"] = "Bogus"
        if self_t[1]["ev"] == good["ev"]:
            del self_t[1]["ev"][0]
        # (validated next to the model checking runs; collected below)
        fv = pool.submit(tlc.validate_traces, "Trace_ClfConnect.tla", "Trace_ClfConnect.cfg", PID + "/trc", traces + self_t,
                         shards=16, timeout=1800 if quick else 3000)
        sessions, maxlen = sense_sessions(tier, seed, ts.clock)
        straces = [s.run() for s in sessions]
    tick("sense sessions done")
    r1 = j1.result(ck)
    if jf is not None:
        hit, _ = jf.result()
        if set(W_FORMS) - hit:
            raise tlc.TLCError("vacuous model ClfConnect: form witnesses not reached: %s" % sorted(set(W_FORMS) - hit))
    tick("ClfConnect model checked")
    m = re.search(r"Finished computing initial states: (\d+) distinct", r1.out)
    ninit = int(m.group(1)) if m else -1
    if ninit != len(full) or len({cfg_id(c) for c in full}) != len(full):
        raise tlc.TLCError("grid mismatch: TLC has %d initial configurations, the harness enumerates %d" % (ninit, len(full)))
    ck.cover(connect_configurations=len(full), mc_depth_connect=r1.depth)
    r2 = j2.result(ck)
    j3.result(ck, "ClfSense(pauses)")
    tick("ClfSense model checked")
    verdicts, st = fv.result()
    pool.shutdown()
    tick("connect traces validated")
    for t in self_t:
        if verdicts[t["id"]][0] == "ACCEPT":
            raise tlc.TLCError("binding vacuous: %s accepted" % t["id"])
    acc = 0
    for tr in traces:
        v = verdicts[tr["id"]]
        if v[0] == "ACCEPT":
            acc += 1
            continue
        key = classify(tr, v[1], v[2], v[3], "connect")
        ev = tr["ev"][v[1] - 1] if v[1] - 1 < len(tr["ev"]) else None
        ck.violation(key, "connect() trace %s rejected at event %d (%s): %s ; event=%s ; callbacks so far=%s" % (
            tr["id"], v[1], v[2], json.dumps(v[3])[:500], json.dumps(ev),
            [(e["a"], e["o"], e["r"]) for e in tr["ev"][:v[1]] if e["a"] in ("Startup", "Discover", "Connect", "Release")]),
            replay=dict(kind="connect", cfg=tr["const"]))
    ck.cover(traces_validated_against_impl=acc, trace_events=sum(len(t["ev"]) for t in traces), trace_states=st["states"])
    # the written forms are not vacuous: accepted traces in which each of them does what it stands for
    fw = form_witnesses(traces, verdicts)
    if not ck.found and min(fw.values()) == 0:
        raise tlc.TLCError("written forms vacuous: no accepted trace for %s" % sorted(k for k, v in fw.items() if not v))
    ck.cover(written_forms=fw, noterm_max_calls_between_attempts=ConnectRun.maxcalls)
    # fault injection is not vacuous: faults fired inside activations, some activations were given up, others recovered
    fx = [t for t in traces if t["const"].get("fault")]
    fired = [t for t in fx if t.get("fired")]

    def skipped(t):
        e = t["ev"]
        return any(e[i]["a"] == "Discover" and e[i]["o"] == "rdwr" and e[i]["r"] == "T" and e[i + 1]["a"] != "Connect"
                   for i in range(len(e) - 1))
    nskip = sum(1 for t in fired if skipped(t))
    by = {}
    for t in fired:
        k = "%s/%s" % (t["const"]["ttype"], t["const"]["fault"]["cls"])
        by[k] = by.get(k, 0) + 1
    if fx and (not fired or nskip == 0 or nskip == len(fired)):
        raise tlc.TLCError("activation fault injection vacuous: %d runs, %d fired, %d skipped" % (len(fx), len(fired), nskip))
    ck.cover(activation_fault_runs=len(fx), activation_faults_fired=len(fired), activations_given_up=nskip,
             activation_faults_by_type_and_error=by)

    # sense sessions
    src1 = next((t for t in straces if any(e["a"] == "Sense" and e["res"] == "found" and e["idx"] > 1 for e in t["ev"])),
                straces[0])
    bad = json.loads(json.dumps(src1))
    for e in bad["ev"]:
        if e["a"] == "Sense" and e["res"] == "found" and e["idx"] > 1:
            e["idx"] -= 1
    if bad["ev"] == src1["ev"]:
        bad["ev"][-1]["a"] = "Bogus"
    bad["id"] = "selftest-corrupt"
    bad2 = json.loads(json.dumps(next((t for t in straces if t["ev"][0]["a"] == "Sense" and t["ev"][0]["res"] == "found"),
                                      straces[0])))
    del bad2["ev"][0]
    if bad2["ev"] and bad2["ev"][0]["a"] != "Exchange":
        bad2["ev"][0]["a"] = "Bogus"
    bad2["id"] = "selftest-dropped"
    sverd, sst = tlc.validate_traces("Trace_ClfSense.tla", "Trace_ClfSense.cfg", PID + "/trs", straces + [bad, bad2],
                                     shards=8, timeout=1500)
    tick("sense traces validated")
    for t in (bad, bad2):
        if sverd[t["id"]][0] == "ACCEPT":
            raise tlc.TLCError("binding vacuous: sense %s accepted" % t["id"])
    sacc = 0
    by_id = {s.ident: s for s in sessions}
    for tr in straces:
        v = sverd[tr["id"]]
        if v[0] == "ACCEPT":
            sacc += 1
            continue
        key = classify(tr, v[1], v[2], v[3], "sense")
        ck.violation(key, "sense/listen/exchange session %s rejected at event %d (%s): %s ; event=%s" % (
            tr["id"], v[1], v[2], json.dumps(v[3])[:400], json.dumps(tr["ev"][v[1] - 1])),
            replay=dict(kind="sense", ident=tr["id"], steps=by_id[tr["id"]].steps))
    ck.cover(traces_validated_against_impl=sacc, sense_sessions=len(straces), sense_list_maxlen=maxlen,
             trace_events=sum(len(t["ev"]) for t in straces), trace_states=sst["states"],
             binding_selftest="wrong return value, dropped on-release, shifted sense result, dropped sense all rejected")
    ck.sample(dict(connect_trace=good["id"], events=[(e["a"], e["o"], e["r"]) for e in good["ev"]]))
    ck.sample(dict(sense_trace=straces[7]["id"], events=[(e["a"], e["kinds"], e["res"], e["idx"], e["sent"]) for e in straces[7]["ev"]]))
    ck.sample(dict(mc_connect=dict(distinct=r1.distinct, depth=r1.depth, initial=ninit), mc_sense=dict(distinct=r2.distinct)))
    ck.assume("callbacks are recorders (defaults of the callbacks are not exercised); rdwr uses targets=['106A'], iterations=1",
              "one environment per call: nothing | Type 1/2/3/4 tag leaving after k presence checks (also on a device "
              "that cannot listen) | NFC-DEP/LLCP peer (either "
              "role) releasing after k exchanges | reader leaving after k commands | device raising IOError / "
              "UnsupportedTargetError on discovery; device errors in the middle of an activation are not injected",
              "llcp and card branches run the real nfc.dep / nfc.llcp.llc / Type3TagEmulation code against scripted "
              "counterparts in sim/clfdev.py (observation by wrapping llc.activate/exchange/terminate, clf.sense/listen)",
              "virtual clock in nfc.clf, nfc.dep, nfc.llcp.llc (sleep costs its argument, a lost frame its timeout)",
              "documentation readings chosen for on-release's return value and ValueError: see the module header",
              "quick tier executes all single-option configurations and a seeded sample of the others")
    return ck.finish()


def replay(rep, args):
    r = rep["replay"]
    with Timeshift() as ts:
        if r["kind"] == "connect":
            tr = run_connect(r["cfg"], ts.clock)
            mod, cfg = "Trace_ClfConnect.tla", "Trace_ClfConnect.cfg"
        else:
            tr = SenseSession(r["ident"], r["steps"], ts.clock).run()
            mod, cfg = "Trace_ClfSense.tla", "Trace_ClfSense.cfg"
    verdicts, _ = tlc.validate_traces(mod, cfg, PID + "/replay", [tr], shards=1)
    v = verdicts[tr["id"]]
    for i, e in enumerate(tr["ev"], 1):
        print("  %3d %s" % (i, json.dumps(e)))
    print("replay verdict:", v)
    if v[0] != "ACCEPT":
        print("failing clause:", json.dumps(v[3]))
        print("VIOLATION property=%s replay=%s" % (PID, args.replay))
        return 1
    return 0
