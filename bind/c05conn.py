"""Connection set-up / tear-down binding for spec/LlcpConn.tla (extends C05: the CONNECT/CC/DM/DISC state table).

Two real LogicalLinkController objects with aggregation off (one PDU per frame); blocking calls (connect, close)
run in helper threads that the harness waits for deterministically; every step is one LlcpConn action and is
recorded with the projection of both sides after the step.
"""
import random, threading, time, json, traceback
import nfc.llcp
import nfc.llcp.llc as llc_mod
import nfc.llcp.pdu as pdu_mod
import nfc.llcp.err as err_mod

CLIENTS = ("c1", "c2")
SVC, NOSVC = b"urn:nfc:sn:conn", b"urn:nfc:sn:nope"      # the name B binds / a name nobody binds


class HarnessError(RuntimeError):
    pass


def wait(cond, t=10.0):
    t0 = time.time()
    while not cond():
        if time.time() - t0 > t:
            raise HarnessError("wait timeout")
        time.sleep(0.0003)


class Rig(object):
    def __init__(self, cfg):
        self.cfg = cfg
        A = llc_mod.LogicalLinkController(miu=cfg["linkB"], agf=False, sec=False)    # A receives up to linkB
        B = llc_mod.LogicalLinkController(miu=cfg["linkA"], agf=False, sec=False)
        A.cfg["send-miu"], B.cfg["send-miu"] = cfg["linkA"], cfg["linkB"]
        A.cfg["llcp-dpc"] = B.cfg["llcp-dpc"] = 0
        self.A, self.B = A, B
        self.ab, self.ba = [], []
        self.ev = []
        self.cl = {}
        self.res = {c: "-" for c in CLIENTS}
        self.thr = {}
        self.closing = {}
        for i, c in enumerate(CLIENTS):
            s = nfc.llcp.Socket(A, nfc.llcp.DATA_LINK_CONNECTION)
            s.setsockopt(nfc.llcp.SO_RCVMIU, cfg["cl"][c]["rmiu"])
            s.setsockopt(nfc.llcp.SO_RCVBUF, cfg["cl"][c]["rw"])
            s.bind(32 + i)
            self.cl[c] = s
        L = nfc.llcp.Socket(B, nfc.llcp.DATA_LINK_CONNECTION)
        L.setsockopt(nfc.llcp.SO_RCVMIU, cfg["lrmiu"])
        L.setsockopt(nfc.llcp.SO_RCVBUF, cfg["lrw"])
        L.bind(SVC)                                     # first named address = 16
        if cfg["listener"]:
            L.listen(cfg["backlog"])
        self.L = L
        self.acc = []

    # -- projection ------------------------------------------------------------------------------
    def pw(self, w):
        out = []
        for p in w:
            sn = getattr(p, "sn", None) if p.name == "CONNECT" else None
            out.append(dict(t=p.name, d=p.dsap, s=p.ssap, reason=getattr(p, "reason", 0) if p.name == "DM" else 0,
                            sn={None: "", SVC: "svc", NOSVC: "nosvc"}.get(sn, "other")))
        return out

    def proj(self):
        cl = {}
        for c, s in self.cl.items():
            d = s._tco
            st = str(d.state)
            est = st in ("ESTABLISHED", "DISCONNECT", "CLOSE_WAIT") or (st == "SHUTDOWN" and d.peer is not None)
            cl[c] = dict(st=st, smiu=d.send_miu if d.send_win is not None else 128,
                         swin=d.send_win if d.send_win is not None else 0,
                         peer=d.peer if d.peer is not None else 0, res=self.res[c])
        acc = [dict(st=str(a._tco.state), peer=a._tco.peer, smiu=a._tco.send_miu, swin=a._tco.send_win) for a in self.acc]
        return dict(cl=cl, nrq=len(self.L._tco.recv_queue), acc=acc, ab=self.pw(self.ab), ba=self.pw(self.ba))

    def log(self, a, **kw):
        rec = dict(a=a, c="-", i=0, sent=0, got=0, how="-", post=self.proj())
        rec.update(kw)
        self.ev.append(rec)

    def drain(self, llc, wire):
        for _ in range(8):
            p = llc.collect()
            if p is None:
                break
            wire.append(pdu_mod.decode(pdu_mod.encode(p)))

    def reap(self):
        for c, t in list(self.thr.items()):
            if not t.is_alive():
                del self.thr[c]
        for k, t in list(self.closing.items()):
            if not t.is_alive():
                del self.closing[k]

    # -- actions -----------------------------------------------------------------------------------
    def connect(self, c, how="sap"):
        s = self.cl[c]
        dest = {"sap": 16, "name": SVC, "noname": NOSVC}[how]

        def run():
            try:
                s.connect(dest)
                self.res[c] = "OK"
            except err_mod.ConnectRefused as e:
                self.res[c] = {0x20: "REFUSED-BUSY", 0x02: "REFUSED-NOSVC"}.get(e.reason, "REFUSED")
            except err_mod.Error as e:
                self.res[c] = "ERR%d" % e.errno
        t = threading.Thread(target=run, daemon=True)
        self.thr[c] = t
        t.start()
        wait(lambda: s._tco.state.CONNECT and len(s._tco.send_queue) > 0)
        self.drain(self.A, self.ab)
        self.log("Connect", c=c, how=how)

    def deliver_b(self):
        p = self.ab.pop(0)
        done = [k for k in self.closing if k[0] == "a" and p.name == "DM" and p.ssap == self.acc[k[1]]._tco.peer
                and self.acc[k[1]]._tco.state.DISCONNECT]
        self.B.dispatch(p)
        for k in done:                  # the DM completes that close(): let its thread finish before the next step
            self.closing[k].join(10)
        self.reap()
        self.drain(self.B, self.ba)
        self.log("DeliverB")

    def deliver_a(self):
        p = self.ba.pop(0)
        waiting = [c for c in self.thr if self.cl[c]._tco.state.CONNECT]
        closing = list(self.closing)
        self.A.dispatch(p)
        # a woken connect()/close() finishes before the next step
        for c in waiting:
            if p.dsap == self.cl[c]._tco.addr and p.name in ("CC", "DM"):
                self.thr[c].join(10)
        for k in closing:
            if k[0] == "c" and p.name == "DM" and p.dsap == self.cl[k[1]]._tco.addr:
                self.closing[k].join(10)
        self.reap()
        # data a server sent right after accept(): the client application reads it at once (the model keeps no receive
        # queue; what matters is that it arrives - `lost` in the spec - and arrives intact)
        for c, s in self.cl.items():
            d = s._tco
            while d.state.ESTABLISHED and c not in self.thr and len(d.recv_queue) > 0 and d.recv_queue[0].name == "I":
                got = s.recv()
                if not got.startswith(b"early"):
                    raise HarnessError("early data corrupted: %r" % (got,))
                self.early_got = getattr(self, "early_got", 0) + 1
        self.drain(self.A, self.ab)
        self.log("DeliverA")

    def _settle_acc(self):
        for k in list(self.closing):
            if k[0] == "a":
                t = self.closing[k]
                if self.acc[k[1]]._tco.state.SHUTDOWN or not t.is_alive():
                    t.join(10)
        self.reap()

    def accept(self):
        a = self.L.accept()
        self.acc.append(a)
        self.drain(self.B, self.ba)
        self.log("Accept")

    def accept_send(self):
        """accept() followed at once by send() on the new connection, before any frame leaves"""
        a = self.L.accept()
        self.acc.append(a)
        a.send(b"early", nfc.llcp.MSG_DONTWAIT)
        self.drain(self.B, self.ba)
        self.log("AcceptSend")

    def greeting(self):
        """accept(), send as many messages as the window takes, hand every resulting frame to A back to back while the
        connecting thread has not run yet, then let connect() return and read: sent/got go into one Greeting event"""
        a = self.L.accept()
        self.acc.append(a)
        sent = 0
        for k in range(20):
            try:
                a.send(b"early%02d" % k, nfc.llcp.MSG_DONTWAIT)
                sent += 1
            except err_mod.Error:
                break
        c = [x for x in self.thr if self.cl[x]._tco.addr == a._tco.peer][0]
        def pump(src, dst):
            n = 0
            for _ in range(64):
                f = src.collect()
                if f is None:
                    break
                dst.dispatch(pdu_mod.decode(pdu_mod.encode(f)))
                n += 1
            return n
        pump(self.B, self.A)                   # CC and the I PDUs, no application thread in between
        self.thr[c].join(10)
        self.reap()
        got = 0
        s = self.cl[c]
        for _ in range(40):                    # read, acknowledge, let the rest of the window follow, until quiet
            while s._tco.state.ESTABLISHED and s.poll("recv", 0.02):
                d = s.recv()
                if d != b"early%02d" % got:
                    raise HarnessError("early data out of order or corrupted: %r" % (d,))
                got += 1
            if pump(self.A, self.B) + pump(self.B, self.A) == 0:
                break
        self.log("Greeting", sent=sent, got=got)

    def close_client(self, c):
        s = self.cl[c]
        t = threading.Thread(target=s._tco.close, daemon=True)
        self.closing[("c", c)] = t
        t.start()
        wait(lambda: s._tco.state.DISCONNECT and len(s._tco.send_queue) > 0 or s._tco.state.SHUTDOWN)
        self.drain(self.A, self.ab)
        self.log("CloseClient", c=c)

    def recv_none(self, c):
        r = self.cl[c]._tco.recv()
        if r is not None:
            raise HarnessError("recv() returned data in CLOSE_WAIT")
        self.log("RecvNone", c=c)

    def close_acc(self, i):
        a = self.acc[i]
        t = threading.Thread(target=a._tco.close, daemon=True)
        self.closing[("a", i)] = t
        t.start()
        wait(lambda: a._tco.state.DISCONNECT and len(a._tco.send_queue) > 0 or a._tco.state.SHUTDOWN)
        self.drain(self.B, self.ba)
        self.log("CloseAcc", i=i + 1)

    def recv_none_acc(self, i):
        r = self.acc[i]._tco.recv()
        if r is not None:
            raise HarnessError("recv() returned data in CLOSE_WAIT")
        self.log("RecvNoneAcc", i=i + 1)

    def finish(self):
        # unblock whatever is still waiting so that no thread is left behind
        for s in list(self.cl.values()) + self.acc + [self.L]:
            d = s._tco
            with d.lock:
                d.recv_queue.append(pdu_mod.DisconnectedMode(0, 0, 0))
                d.recv_ready.notify_all()
        for t in list(self.thr.values()) + list(self.closing.values()):
            t.join(2)


def run_conn(seed, listener=True):
    rnd = random.Random(seed)
    cfg = dict(linkA=rnd.choice([128, 2175]), linkB=rnd.choice([128, 1000]), backlog=rnd.choice([1, 1, 2]),
               listener=listener, lrmiu=rnd.choice([128, 200, 2175]), lrw=rnd.choice([1, 2, 15]),
               cl={c: dict(rmiu=rnd.choice([128, 130, 1000]), rw=rnd.choice([1, 3, 15])) for c in CLIENTS})
    R = Rig(cfg)
    try:
        for step in range(40):
            opts = []
            for c in CLIENTS:
                d = R.cl[c]._tco
                if d.state.CLOSED and R.res[c] == "-" and c not in R.thr:
                    opts.append(("connect", c, rnd.choice(["sap", "name", "name", "noname"])))
                if d.state.ESTABLISHED and ("c", c) not in R.closing and c not in R.thr:
                    opts.append(("close_client", c))
                if d.state.CLOSE_WAIT and len(d.recv_queue) > 0 and str(d.recv_queue[0].name) == "DISC":
                    opts.append(("recv_none", c))
            if R.ab:
                opts += [("deliver_b",)] * 2
            if R.ba:
                opts += [("deliver_a",)] * 2
            if cfg["listener"] and len(R.L._tco.recv_queue) > 0 and len(R.acc) < 2:
                opts.append(("accept",))
                if seed % 2 == 0:
                    opts.append(("accept_send",))
                if seed % 3 == 0 and not R.ab and not R.ba:
                    head = R.L._tco.recv_queue[0]
                    if any(R.cl[c]._tco.addr == head.ssap and R.cl[c]._tco.state.CONNECT for c in R.thr):
                        opts += [("greeting",)] * 3
            for i, a in enumerate(R.acc):
                d = a._tco
                if d.state.ESTABLISHED and ("a", i) not in R.closing and rnd.random() < 0.5:
                    opts.append(("close_acc", i))
                if d.state.CLOSE_WAIT and len(d.recv_queue) > 0 and str(d.recv_queue[0].name) == "DISC":
                    opts.append(("recv_none_acc", i))
            if not opts:
                break
            o = rnd.choice(opts)
            getattr(R, o[0])(*o[1:])
    finally:
        R.finish()
    const = dict(cl={c: dict(rmiu=R.cl[c]._tco.recv_miu, rw=R.cl[c]._tco.recv_win) for c in CLIENTS},
                 lrmiu=R.L._tco.recv_miu, lrw=R.L._tco.recv_win)
    return dict(id="conn%d%s" % (seed, "" if listener else "n"), const=const, cfg=cfg, ev=R.ev)


def cfg_text(cfg, listener):
    return """SPECIFICATION TSpec
CONSTANTS
  Clients = {"c1", "c2"}
  Backlog = %d
  Mius = {128}
  RWs = {1}
  LinkMiuA = %d
  LinkMiuB = %d
  MaxAcc = 100
  Hows = {"sap", "name", "noname"}
  ListenerPresent = %s
  EarlyOrder = "cc-first"
CONSTRAINT Done
CHECK_DEADLOCK FALSE
""" % (cfg["backlog"], cfg["linkA"], cfg["linkB"], "TRUE" if listener else "FALSE")


def stage(ck, quick, seed, tlc, PID):
    """model checking of LlcpConn + validation of real handshakes; contributes to C05's evidence"""
    import os, collections
    r = tlc.run("LlcpConn.tla", "MC_LlcpConn_quick.cfg" if quick else "MC_LlcpConn.cfg", PID, workers=8, timeout=900)
    r2 = tlc.run("LlcpConn.tla", "MC_LlcpConn_nolisten.cfg", PID, workers=4, timeout=300)
    for x in (r, r2):
        if not x.ok:
            ck.violation("spec:LlcpConn:" + ",".join(x.violated or ["?"]), "TLC: %s" % str(x.error_trace)[:1200])
        ck.cover(states=x.distinct, transitions=x.generated)
    # the model of the code before the fix "data sent right after accept() overtook the CC" must lose that data
    e = tlc.run("LlcpConn.tla", "MC_LlcpConn_early.cfg", PID, workers=4, timeout=300)
    if "NoEarlyLoss" not in e.violated:
        raise tlc.TLCError("vacuous: the data-first model does not lose the early data")
    hit, _ = tlc.witnesses("LlcpConn.tla", "MC_LlcpConn_quick.cfg", PID, ["W_Established", "W_Busy", "W_Closed", "W_PeerClosed", "W_EarlyData", "W_NoName"])
    hit2, _ = tlc.witnesses("LlcpConn.tla", "MC_LlcpConn.cfg", PID, ["W_ByName"])     # needs a connection MIU above 128
    hit |= hit2
    if len(hit) != 7:
        raise tlc.TLCError("vacuous LlcpConn model: %s" % sorted(hit))
    groups = collections.defaultdict(list)
    n = 60 if quick else 1200
    for i in range(n):
        tr = run_conn(seed * 7919 + i, listener=(i % 5 != 4))
        key = (tr["cfg"]["backlog"], tr["cfg"]["linkA"], tr["cfg"]["linkB"], tr["cfg"]["listener"])
        groups[key].append(tr)
    acc = 0
    first = True
    for key, trs in sorted(groups.items()):
        cfgp = os.path.join(tlc.OUT, PID, "Trace_LlcpConn_%d_%d_%d_%s.cfg" % key)
        os.makedirs(os.path.dirname(cfgp), exist_ok=True)
        open(cfgp, "w").write(cfg_text(trs[0]["cfg"], key[3]))
        batch = [dict(id=t["id"], const=t["const"], ev=t["ev"]) for t in trs]
        muts = []
        if first:
            first = False
            base = next((t for t in batch if any(e["a"] == "Accept" for e in t["ev"])), None)
            if base is not None:
                m = json.loads(json.dumps(base))
                for e in m["ev"]:
                    if e["a"] == "Accept":
                        e["post"]["acc"][-1]["swin"] = (e["post"]["acc"][-1]["swin"] or 0) + 1
                        break
                m["id"] += "-swin"
                muts.append(m)
        verdicts, st = tlc.validate_traces("Trace_LlcpConn.tla", cfgp, PID, batch + muts, shards=2, timeout=600)
        for m in muts:
            if verdicts[m["id"]][0] == "ACCEPT":
                raise tlc.TLCError("binding vacuous (LlcpConn): mutated trace accepted")
        for t in trs:
            v = verdicts[t["id"]]
            if v[0] == "ACCEPT":
                acc += 1
                continue
            why = v[3] if isinstance(v[3], dict) else {}
            ck.violation("conn:%s@%s" % (why.get("clause", "?"), v[2]),
                         "handshake trace %s rejected at event %d: %s ; %s" % (t["id"], v[1], json.dumps(t["ev"][v[1] - 1])[:400],
                                                                             json.dumps(why, default=str)[:400]),
                         replay=dict(kind="conn", seed=int(t["id"].strip("conn").rstrip("n")), listener=not t["id"].endswith("n")))
    ck.cover(traces_validated_against_impl=acc, conn_handshake_traces=acc)
